(* Extraction of the executable model. Directives: those of ExtrOcamlBasic only
   (bool, option, unit, list, prod, sumbool, sumor, comparison -> OCaml's; andb/orb inlined).
   N, Z, positive, nat stay the extracted inductive types. *)
From Coq Require Extraction.
From Coq Require Import ExtrOcamlBasic.
From OptreeModel Require Import Run.
Extraction "model.ml" run.
