(* driver.ml — hand-written, trusted glue: parse one S-expression per line, call Model.run, print
   the result as one line. Integers are converted between OCaml ints and the extracted binary Z. *)
open Model

let rec pos_of_int n : positive =
  if n = 1 then XH else if n land 1 = 0 then XO (pos_of_int (n lsr 1)) else XI (pos_of_int (n lsr 1))
let z_of_int n : z = if n = 0 then Z0 else if n > 0 then Zpos (pos_of_int n) else Zneg (pos_of_int (-n))
let rec int_of_pos = function XH -> 1 | XO p -> 2 * int_of_pos p | XI p -> 2 * int_of_pos p + 1
let int_of_z = function Z0 -> 0 | Zpos p -> int_of_pos p | Zneg p -> - (int_of_pos p)

let parse (s : string) : sexp =
  let n = String.length s in
  let pos = ref 0 in
  let rec skip () = if !pos < n && (s.[!pos] = ' ' || s.[!pos] = '\t' || s.[!pos] = '\r') then (incr pos; skip ()) in
  let rec item () : sexp =
    skip ();
    if !pos >= n then failwith "eof"
    else if s.[!pos] = '(' then begin
      incr pos;
      let acc = ref [] in
      let rec loop () =
        skip ();
        if !pos >= n then failwith "unclosed"
        else if s.[!pos] = ')' then incr pos
        else (acc := item () :: !acc; loop ()) in
      loop (); SL (List.rev !acc)
    end else begin
      let st = !pos in
      while !pos < n && s.[!pos] <> ' ' && s.[!pos] <> ')' && s.[!pos] <> '(' do incr pos done;
      SI (z_of_int (int_of_string (String.sub s st (!pos - st))))
    end in
  let r = item () in
  skip ();
  if !pos <> n then failwith "trailing";
  r

let rec print (b : Buffer.t) (x : sexp) : unit =
  match x with
  | SI z -> Buffer.add_string b (string_of_int (int_of_z z))
  | SL l ->
    Buffer.add_char b '(';
    List.iteri (fun i y -> if i > 0 then Buffer.add_char b ' '; print b y) l;
    Buffer.add_char b ')'

let () =
  let b = Buffer.create 65536 in
  (try
     while true do
       let line = input_line stdin in
       Buffer.clear b;
       (try
          let x = parse line in
          (* self-test of the glue: print (parse line) must reproduce the canonical line *)
          print b x;
          if Buffer.contents b <> line then (Buffer.clear b; Buffer.add_string b "(3)")
          else (Buffer.clear b; print b (run x))
        with Failure _ | Stack_overflow -> (Buffer.clear b; Buffer.add_string b "(3)"));
       print_string (Buffer.contents b); print_char '\n'
     done
   with End_of_file -> ());
  flush stdout
