(* RegistryProofs.v — the registry state machine (property C12) and the dict-order mode (C13). *)
From OptreeModel Require Import Base Tree Registry.
From OptreeProofs Require Import BaseProofs.
From Coq Require Import ZifyBool.
Ltac Zify.zify_post_hook ::= Z.to_euclidean_division_equations.

(* ================= C12 ================= *)

(* a call that raises for any reason leaves the registry exactly as it was *)
Theorem failed_step_is_noop s o e : snd (step s o) = OutErr e -> fst (step s o) = s.
Proof.
  destruct o as [c ns pet|c ns]; simpl.
  - destruct (register_check s c ns pet); [reflexivity | discriminate].
  - destruct (unregister_check s c ns); [reflexivity | discriminate].
Qed.

Lemma register_check_none s c ns pet :
  register_check s c ns pet = None ->
  match c with RBuiltin _ => False | _ => True end /\
  find_reg (rclass_code c) (ns_code ns) (eng s) = None /\ check_args c ns = None.
Proof.
  unfold register_check.
  destruct c; try discriminate;
    (destruct (negb pet); [discriminate|]);
    (destruct (check_args _ ns); [discriminate|]); try discriminate;
    (destruct (find_reg _ _ (eng s)); [discriminate|]); auto.
Qed.

Lemma unregister_check_none s c ns :
  unregister_check s c ns = None ->
  exists r, find_reg (rclass_code c) (ns_code ns) (eng s) = Some r.
Proof.
  unfold unregister_check. destruct (check_args c ns); [discriminate|].
  destruct c; try discriminate; (destruct (find_reg _ _ (eng s)) as [r|]; [eauto | discriminate]).
Qed.

Lemma find_reg_app cls ns l r :
  find_reg cls ns (l ++ [r]) =
  match find_reg cls ns l with
  | Some x => Some x
  | None => if Z.eqb (rcls r) cls && Z.eqb (rns r) ns then Some r else None
  end.
Proof.
  induction l as [|x l IH]; simpl; [destruct (_ && _); reflexivity|].
  destruct (Z.eqb (rcls x) cls && Z.eqb (rns x) ns); [reflexivity | exact IH].
Qed.

Lemma find_reg_remove_other cls ns cls' ns' l :
  (cls, ns) <> (cls', ns') -> find_reg cls' ns' (remove_reg cls ns l) = find_reg cls' ns' l.
Proof.
  intros Hne. induction l as [|x l IH]; simpl; [reflexivity|].
  destruct (Z.eqb (rcls x) cls && Z.eqb (rns x) ns) eqn:E1.
  - apply andb_true_iff in E1 as [Ea Eb]. apply Z.eqb_eq in Ea, Eb.
    destruct (Z.eqb (rcls x) cls' && Z.eqb (rns x) ns') eqn:E2; [|reflexivity].
    apply andb_true_iff in E2 as [Ec Ed]. apply Z.eqb_eq in Ec, Ed. exfalso. apply Hne. congruence.
  - simpl. destruct (Z.eqb (rcls x) cls' && Z.eqb (rns x) ns'); [reflexivity | exact IH].
Qed.

Lemma find_reg_remove_same cls ns l :
  reg_keys_nodup l = true -> find_reg cls ns (remove_reg cls ns l) = None.
Proof.
  induction l as [|x l IH]; simpl; [reflexivity|]. intros H.
  destruct (find_reg (rcls x) (rns x) l) eqn:Ef; [discriminate|].
  destruct (Z.eqb (rcls x) cls && Z.eqb (rns x) ns) eqn:E1.
  - apply andb_true_iff in E1 as [Ea Eb]. apply Z.eqb_eq in Ea, Eb. subst. exact Ef.
  - simpl. rewrite E1. apply IH. exact H.
Qed.

Lemma nodup_app l r :
  reg_keys_nodup l = true -> find_reg (rcls r) (rns r) l = None -> reg_keys_nodup (l ++ [r]) = true.
Proof.
  induction l as [|x l IH]; simpl; intros H Hf; [reflexivity|].
  destruct (find_reg (rcls x) (rns x) l) eqn:E; [discriminate|].
  destruct (Z.eqb (rcls x) (rcls r) && Z.eqb (rns x) (rns r)) eqn:E1; [discriminate|].
  rewrite find_reg_app, E.
  assert (Z.eqb (rcls r) (rcls x) && Z.eqb (rns r) (rns x) = false) as ->.
  { rewrite (Z.eqb_sym (rcls r)), (Z.eqb_sym (rns r)). exact E1. }
  apply IH; assumption.
Qed.

Lemma nodup_remove cls ns l : reg_keys_nodup l = true -> reg_keys_nodup (remove_reg cls ns l) = true.
Proof.
  induction l as [|x l IH]; simpl; [reflexivity|]. intros H.
  destruct (find_reg (rcls x) (rns x) l) eqn:E; [discriminate|].
  destruct (Z.eqb (rcls x) cls && Z.eqb (rns x) ns) eqn:E1; [exact H|].
  simpl. rewrite IH by exact H.
  destruct (Z.eq_dec (rcls x) cls) as [Ec|Ec]; [destruct (Z.eq_dec (rns x) ns) as [En|En]|].
  - subst. rewrite !Z.eqb_refl in E1. discriminate.
  - rewrite find_reg_remove_other, E by congruence. reflexivity.
  - rewrite find_reg_remove_other, E by congruence. reflexivity.
Qed.

Lemma forallb_remove (p : reg -> bool) cls ns l : forallb p l = true -> forallb p (remove_reg cls ns l) = true.
Proof.
  induction l as [|x l IH]; simpl; [reflexivity|]. intros H. apply andb_true_iff in H as [H1 H2].
  destruct (Z.eqb (rcls x) cls && Z.eqb (rns x) ns); [exact H2|]. simpl. rewrite H1. auto.
Qed.

Lemma code_not_builtin c :
  match c with RBuiltin _ => False | _ => True end -> is_builtin_code (rclass_code c) = false.
Proof. unfold is_builtin_code. destruct c; cbn [rclass_code]; intros H; try contradiction; try reflexivity; apply Z.eqb_neq; lia. Qed.

(* the invariant holds after every history of register / unregister calls, failing or not *)
Theorem inv_step s o : Inv s -> Inv (fst (step s o)).
Proof.
  intros (Heq & Hnd & Hnb). destruct o as [c ns pet|c ns]; simpl.
  - destruct (register_check s c ns pet) eqn:Ec; [repeat split; assumption|].
    destruct (register_check_none _ _ _ _ Ec) as (Hb & Hf & _). unfold Inv. cbn [fst eng mirror]. split; [|split].
    + rewrite Heq. reflexivity.
    + apply nodup_app; [exact Hnd | exact Hf].
    + rewrite forallb_app, Hnb. cbn [forallb rcls]. rewrite code_not_builtin by exact Hb. reflexivity.
  - destruct (unregister_check s c ns); [repeat split; assumption|]. unfold Inv. cbn [fst eng mirror]. split; [|split].
    + rewrite Heq. reflexivity.
    + apply nodup_remove. exact Hnd.
    + apply forallb_remove. exact Hnb.
Qed.

Theorem inv_run s ops : Inv s -> Inv (run_ops s ops).
Proof.
  revert s. induction ops as [|o ops IH]; intros s H; [exact H|]. simpl. apply IH. apply inv_step. exact H.
Qed.

Theorem inv_init we : Inv (init_state we).
Proof. repeat split. Qed.

Definition op_ns (o : op) : Z := match o with ORegister _ ns _ | OUnregister _ ns => ns_code ns end.

(* a change made in one namespace never alters what is registered in another *)
Theorem isolation s o cls n :
  n <> op_ns o -> find_reg cls n (eng (fst (step s o))) = find_reg cls n (eng s).
Proof.
  intros Hn. destruct o as [c ns pet|c ns]; simpl in *.
  - destruct (register_check s c ns pet); [reflexivity|]. simpl. rewrite find_reg_app. simpl.
    destruct (find_reg cls n (eng s)); [reflexivity|].
    destruct (Z.eqb (ns_code ns) n) eqn:E; [apply Z.eqb_eq in E; congruence | rewrite andb_false_r; reflexivity].
  - destruct (unregister_check s c ns); [reflexivity|]. simpl. apply find_reg_remove_other. congruence.
Qed.

(* under the invariant the Python-visible lookup is exactly what flattening uses (shadowing included) *)
Theorem python_view_exact s n c : Inv s -> python_lookup s n c = engine_lookup s n c.
Proof. intros (Heq & _). unfold python_lookup, engine_lookup. rewrite Heq. reflexivity. Qed.

Theorem shadowing s n c :
  n <> 0 ->
  engine_lookup s n c =
  match find_reg (rclass_code c) n (eng s) with
  | Some r => Some r
  | None => find_reg (rclass_code c) 0 (eng s)
  end.
Proof. intros Hn. unfold engine_lookup. apply Z.eqb_neq in Hn. rewrite Hn. reflexivity. Qed.

(* the same (type, namespace) cannot be registered twice *)
Theorem no_double_registration s c ns pet :
  snd (step s (ORegister c ns pet)) = OutOk ->
  exists e, snd (step (fst (step s (ORegister c ns pet))) (ORegister c ns pet)) = OutErr e.
Proof.
  simpl. destruct (register_check s c ns pet) eqn:Ec; [discriminate|]. intros _. simpl.
  destruct (register_check_none _ _ _ _ Ec) as (Hb & Hf & Ha).
  unfold register_check. simpl. rewrite Ha, find_reg_app, Hf. simpl. rewrite !Z.eqb_refl. simpl.
  destruct c; try contradiction; destruct (negb pet); simpl; eauto.
Qed.

(* unregistering something absent fails; built-in types can be neither registered nor unregistered *)
Theorem unregister_absent_fails s c ns :
  find_reg (rclass_code c) (ns_code ns) (eng s) = None ->
  exists e, step s (OUnregister c ns) = (s, OutErr e).
Proof.
  intros Hf. simpl. unfold unregister_check. rewrite Hf.
  destruct (check_args c ns); [eauto|]. destruct c; eauto.
Qed.

Theorem builtins_refused s n ns pet :
  (exists e, step s (ORegister (RBuiltin n) ns pet) = (s, OutErr e)) /\
  (exists e', step s (OUnregister (RBuiltin n) ns) = (s, OutErr e')).
Proof.
  unfold step, register_check, unregister_check, check_args.
  split; [destruct (negb pet); [eauto|]|]; destruct ns; eauto.
Qed.

Lemma remove_app_fresh cls ns l r :
  find_reg cls ns l = None -> rcls r = cls -> rns r = ns -> remove_reg cls ns (l ++ [r]) = l.
Proof.
  intros Hf <- <-. induction l as [|x l IH]; simpl in *; [rewrite !Z.eqb_refl; reflexivity|].
  destruct (Z.eqb (rcls x) (rcls r) && Z.eqb (rns x) (rns r)); [discriminate|]. f_equal. auto.
Qed.

(* register followed by unregister of the same (type, namespace) restores both registries *)
Theorem register_unregister_inverse s c ns pet :
  Inv s -> snd (step s (ORegister c ns pet)) = OutOk ->
  let s' := fst (step (fst (step s (ORegister c ns pet))) (OUnregister c ns)) in
  eng s' = eng s /\ mirror s' = mirror s.
Proof.
  intros (Heq & _ & _). simpl. destruct (register_check s c ns pet) eqn:Ec; [discriminate|]. intros _.
  destruct (register_check_none _ _ _ _ Ec) as (Hb & Hf & Ha). simpl.
  unfold unregister_check. simpl. rewrite Ha, find_reg_app, Hf. simpl. rewrite !Z.eqb_refl. simpl.
  destruct c; try contradiction; simpl;
    (split; [apply remove_app_fresh; auto | rewrite <- Heq; apply remove_app_fresh; auto]).
Qed.

(* ================= C13: the insertion-ordered mode ================= *)
Lemma Z_mem_filter x n s : Z_mem x (filter (fun y => negb (Z.eqb y n)) s) = negb (Z.eqb x n) && Z_mem x s.
Proof.
  induction s as [|y s IH]; simpl; [rewrite andb_false_r; reflexivity|].
  destruct (Z.eqb y n) eqn:E; simpl.
  - rewrite IH. apply Z.eqb_eq in E. subst y. destruct (Z.eqb x n) eqn:E2; simpl; [reflexivity|].
    reflexivity.
  - rewrite IH. destruct (Z.eqb x y) eqn:E2; simpl; [|reflexivity].
    apply Z.eqb_eq in E2. subst y. rewrite E. reflexivity.
Qed.

Lemma mode_get_set s n b m : mode_get (mode_set s n b) m = if Z.eqb m n then b else mode_get s m.
Proof.
  unfold mode_get, mode_set. destruct b; simpl; rewrite Z_mem_filter; destruct (Z.eqb m n); reflexivity.
Qed.

Definition mode_equiv (a b : mstate) : Prop := forall m, mode_get a m = mode_get b m.

(* when a with-block exits, normally or by exception, at any nesting depth and for any interleaving
   of blocks over different namespaces, the mode of every namespace is what it was on entry *)
Theorem mode_restored fuel : forall s p,
  mode_equiv (fst (fst (mrun_fuel fuel s p))) s.
Proof.
  induction fuel as [|fuel IH]; intros s p m; [reflexivity|].
  destruct p as [|mode n body raises]; [reflexivity|].
  cbn [mrun_fuel].
  set (go := fix go (l : list mprog) (st : mstate) : mstate * list mstate * bool :=
               match l with
               | [] => (st, [], false)
               | q :: l' =>
                 let '(st', o1, r1) := mrun_fuel fuel st q in
                 if r1 then (st', o1, true)
                 else let '(st'', o2, r2) := go l' st' in (st'', o1 ++ o2, r2)
               end).
  assert (Hgo : forall l st, mode_equiv (fst (fst (go l st))) st).
  { induction l as [|q l IHl]; intros st k; [reflexivity|]. simpl.
    pose proof (IH st q k) as Hq. destruct (mrun_fuel fuel st q) as [[st' o1] r1]. simpl in Hq.
    destruct r1; [exact Hq|].
    pose proof (IHl st' k) as Hl. destruct (go l st') as [[st'' o2] r2]. simpl in *. congruence. }
  pose proof (Hgo body (mode_set s n mode) m) as Hb.
  destruct (go body (mode_set s n mode)) as [[s2 obs] raised]. simpl in *.
  rewrite mode_get_set. destruct (Z.eqb m n) eqn:E.
  - apply Z.eqb_eq in E. subst. reflexivity.
  - rewrite Hb, mode_get_set, E. reflexivity.
Qed.

Theorem mode_restored_run s p : mode_equiv (fst (fst (mrun s p))) s.
Proof. apply mode_restored. Qed.

(* inside the block the namespace has the requested mode; other namespaces keep theirs *)
Theorem mode_scope s mode n m :
  mode_get (mode_set s n mode) m = if Z.eqb m n then mode else mode_get s m.
Proof. apply mode_get_set. Qed.

(* flattening with namespace m uses insertion order iff m or the global namespace has the flag *)
Theorem mode_effective_spec s m : mode_effective s m = mode_get s 0 || mode_get s m.
Proof. reflexivity. Qed.
