(* TransformAllProofs.v — PyTreeSpec::Transform with BOTH functions arbitrary (theories/TransformArr.v tr_all /
   arr_transform_all: one answer per node of the array, in call order) returns the encoding of the tree-level
   transform: every leaf replaced by its answer, every internal node's header replaced by the root node of its
   (one-level) answer, children transformed recursively (property C08). *)
From OptreeModel Require Import Base Tree Flatten Unflatten Spec Pickle PrefixArr JoinArr TransformArr.
From OptreeProofs Require Import BaseProofs RoundTrip SpecProofs InspectProofs EqProofs OrderProofs PrefixArrProofs JoinArrProofs
  ComposeArrProofs TransformArrProofs Subst TransposeProofs TransformGenProofs.

(* what the C++ accepts as the answer for an internal node of the given arity *)
Definition node_answer_ok (n : node) (a : option stree) : bool :=
  match a with
  | None => true
  | Some x => Nat.eqb (st_leaves x) (narity n) && Nat.eqb (st_nodes x) (S (narity n))
  end.

Definition new_header (n : node) (a : option stree) : node :=
  match a with Some x => st_node x | None => n end.

(* t, answers for its nodes in post-order, result *)
Inductive Tr : stree -> list (option stree) -> stree -> Prop :=
| TrLeaf n a : is_leaf_node n = true -> Tr (T n []) [a] (match a with Some x => x | None => T n [] end)
| TrNode n cs ass cs' a : is_leaf_node n = false -> TrL cs ass cs' -> node_answer_ok n a = true ->
    Tr (T n cs) (concat ass ++ [a]) (mkT (new_header n a) cs')
with TrL : list stree -> list (list (option stree)) -> list stree -> Prop :=
| TrNil : TrL [] [] []
| TrCons c cs aa ass c' cs' : Tr c aa c' -> TrL cs ass cs' -> TrL (c :: cs) (aa :: ass) (c' :: cs').

Scheme Tr_ind2 := Minimality for Tr Sort Prop
  with TrL_ind2 := Minimality for TrL Sort Prop.

Lemma TrL_length cs ass cs' : TrL cs ass cs' -> length cs' = length cs.
Proof. induction 1; simpl; congruence. Qed.

Definition wfa (l : list (option stree)) : Prop := Forall (fun a => match a with Some x => wf_stree x = true | None => True end) l.
Lemma wfa_app l l' : wfa (l ++ l') <-> wfa l /\ wfa l'.
Proof. unfold wfa. apply Forall_app. Qed.

(* ---------- a well-formed tree has at least as many nodes as leaves, with equality only for a leaf ---------- *)
Lemma leaves_le_nodes : forall t, wf_stree t = true -> (st_leaves t <= st_nodes t)%nat.
Proof.
  induction t as [n cs IH] using stree_ind'. intros W.
  destruct (wf_unfold n cs W) as (Ar & Nn & Lv & Wcs).
  change (st_leaves (T n cs)) with (nleaves n). change (st_nodes (T n cs)) with (nnodes n). rewrite Nn.
  destruct (is_leaf_node n); [destruct Lv as [-> _]; lia|]. rewrite Lv.
  clear - IH Wcs. induction cs as [|c cs IHc]; [simpl; lia|].
  cbn [forallb] in Wcs. apply andb_true_iff in Wcs as [Wc Wcs]. inversion IH as [|? ? Hc Hcs]; subst.
  change (sum_nat (map st_leaves (c :: cs))) with (st_leaves c + sum_nat (map st_leaves cs))%nat.
  change (sum_nat (map st_nodes (c :: cs))) with (st_nodes c + sum_nat (map st_nodes cs))%nat.
  specialize (Hc Wc). specialize (IHc Hcs Wcs). lia.
Qed.

Lemma sums_equal_all_equal : forall cs, forallb wf_stree cs = true ->
  sum_nat (map st_nodes cs) = sum_nat (map st_leaves cs) -> Forall (fun c => st_nodes c = st_leaves c) cs.
Proof.
  induction cs as [|c cs IH]; intros W H; [constructor|].
  cbn [forallb] in W. apply andb_true_iff in W as [Wc Wcs].
  change (sum_nat (map st_leaves (c :: cs))) with (st_leaves c + sum_nat (map st_leaves cs))%nat in H.
  change (sum_nat (map st_nodes (c :: cs))) with (st_nodes c + sum_nat (map st_nodes cs))%nat in H.
  pose proof (leaves_le_nodes c Wc) as Hc.
  assert (Hs : (sum_nat (map st_leaves cs) <= sum_nat (map st_nodes cs))%nat).
  { clear - Wcs. induction cs as [|x cs IHx]; [simpl; lia|]. cbn [forallb] in Wcs. apply andb_true_iff in Wcs as [Wx Wcs].
    change (sum_nat (map st_leaves (x :: cs))) with (st_leaves x + sum_nat (map st_leaves cs))%nat.
    change (sum_nat (map st_nodes (x :: cs))) with (st_nodes x + sum_nat (map st_nodes cs))%nat.
    pose proof (leaves_le_nodes x Wx). specialize (IHx Wcs). lia. }
  constructor; [lia|]. apply IH; [exact Wcs | lia].
Qed.

Lemma nodes_eq_leaves_is_leaf t : wf_stree t = true -> st_nodes t = st_leaves t -> st_leaves t = 1%nat.
Proof.
  destruct t as [n cs]. intros W H. destruct (wf_unfold n cs W) as (Ar & Nn & Lv & Wcs).
  change (st_leaves (T n cs)) with (nleaves n) in *. change (st_nodes (T n cs)) with (nnodes n) in *.
  destruct (is_leaf_node n); [exact (proj1 Lv)|]. exfalso.
  assert (Hs : (sum_nat (map st_leaves cs) <= sum_nat (map st_nodes cs))%nat).
  { clear - Wcs. induction cs as [|x cs IHx]; [simpl; lia|]. cbn [forallb] in Wcs. apply andb_true_iff in Wcs as [Wx Wcs].
    change (sum_nat (map st_leaves (x :: cs))) with (st_leaves x + sum_nat (map st_leaves cs))%nat.
    change (sum_nat (map st_nodes (x :: cs))) with (st_nodes x + sum_nat (map st_nodes cs))%nat.
    pose proof (leaves_le_nodes x Wx). specialize (IHx Wcs). lia. }
  lia.
Qed.

(* an accepted answer is a one-level treespec of the node's arity and not a leaf *)
Lemma accepted_answer_one_level n x : wf_stree x = true ->
  st_leaves x = narity n -> st_nodes x = S (narity n) ->
  narity (st_node x) = narity n /\ is_leaf_node (st_node x) = false.
Proof.
  destruct x as [m xs]. intros W HL HN. destruct (wf_unfold m xs W) as (Ar & Nn & Lv & Wxs).
  change (st_leaves (T m xs)) with (nleaves m) in *. change (st_nodes (T m xs)) with (nnodes m) in *.
  cbn [st_node]. destruct (is_leaf_node m) eqn:Lm.
  - destruct Lv as [L1 ->]. simpl in Nn. lia.
  - split; [|reflexivity].
    assert (E : sum_nat (map st_nodes xs) = sum_nat (map st_leaves xs)) by lia.
    pose proof (sums_equal_all_equal xs Wxs E) as HF.
    assert (H1 : sum_nat (map st_leaves xs) = length xs).
    { clear - HF Wxs. induction xs as [|c xs IH]; [reflexivity|].
      cbn [forallb] in Wxs. apply andb_true_iff in Wxs as [Wc Wxs]. inversion HF as [|? ? Hc Hcs]; subst.
      change (sum_nat (map st_leaves (c :: xs))) with (st_leaves c + sum_nat (map st_leaves xs))%nat.
      rewrite (IH Wxs Hcs), (nodes_eq_leaves_is_leaf c Wc Hc). reflexivity. }
    lia.
Qed.

(* ---------- the simulation ---------- *)
Definition enc_ans (a : option stree) : option (list node) := option_map encode a.

Lemma patch_patch n a b c d : patch (patch n a b) c d = patch n c d.
Proof. reflexivity. Qed.

Definition dl (t t' : stree) : Z := (Z.of_nat (st_leaves t') - Z.of_nat (st_leaves t))%Z.
Definition dn (t t' : stree) : Z := (Z.of_nat (st_nodes t') - Z.of_nat (st_nodes t))%Z.
Definition zsum (f : stree -> nat) (l : list stree) : Z := Z.of_nat (sum_nat (map f l)).

Definition ASim (t : stree) (aa : list (option stree)) (t' : stree) : Prop :=
  wf_stree t = true -> wfa aa -> forall rest arest out stack xl xn,
  tr_all (encode t ++ rest) (map enc_ans aa ++ arest) out stack xl xn =
  tr_all rest arest (out ++ encode t') (cnt t' :: stack) (xl + dl t t') (xn + dn t t').
Definition ASimL (cs : list stree) (ass : list (list (option stree))) (cs' : list stree) : Prop :=
  forallb wf_stree cs = true -> wfa (concat ass) -> forall rest arest out stack xl xn,
  tr_all (flat_map encode cs ++ rest) (map enc_ans (concat ass) ++ arest) out stack xl xn =
  tr_all rest arest (out ++ flat_map encode cs') (rev (map cnt cs') ++ stack)
         (xl + (zsum st_leaves cs' - zsum st_leaves cs)) (xn + (zsum st_nodes cs' - zsum st_nodes cs)).

Lemma rev_repeat {A} (x : A) k : rev (repeat x k) = repeat x k.
Proof.
  induction k as [|k IH]; [reflexivity|]. cbn [repeat rev]. rewrite IH. clear.
  induction k as [|k IH]; [reflexivity|]. cbn [repeat app]. rewrite IH. reflexivity.
Qed.

Lemma zsum_cons f c cs : zsum f (c :: cs) = (Z.of_nat (f c) + zsum f cs)%Z.
Proof. unfold zsum. change (sum_nat (map f (c :: cs))) with (f c + sum_nat (map f cs))%nat. lia. Qed.

Theorem asim : forall t aa t', Tr t aa t' -> ASim t aa t'.
Proof.
  apply (Tr_ind2 ASim ASimL).
  - intros n a Ln W Wa rest arest out stack xl xn.
    destruct (wf_unfold n [] W) as (_ & Nn & Lv & _). rewrite Ln in Lv. destruct Lv as [Lv _].
    cbn [encode flat_map app map tr_all]. rewrite Ln.
    destruct a as [x|]; cbn [enc_ans option_map].
    + inversion Wa as [|? ? Wx _]; subst. rewrite root_leaves_encode, (encode_length _ Wx).
      unfold dl, dn. change (st_leaves (T n [])) with (nleaves n). change (st_nodes (T n [])) with (nnodes n).
      simpl in Nn. rewrite Lv, Nn. reflexivity.
    + unfold one_level_arr. rewrite Ln. cbn [root_leaves rev app length encode flat_map].
      unfold cnt, dl, dn, st_leaves, st_nodes. cbn [st_node]. simpl in Nn. rewrite Lv, Nn.
      f_equal; lia.
  - intros n cs ass cs' a Ln HSL IH Hok W Wa rest arest out stack xl xn.
    destruct (wf_unfold n cs W) as (Ar & Nn & Lv & Wcs). rewrite Ln in Lv.
    apply wfa_app in Wa as [Was Wa1].
    cbn [encode]. rewrite <- app_assoc, map_app, <- app_assoc. rewrite (IH Wcs Was). cbn [app map tr_all]. rewrite Ln.
    pose proof (TrL_length _ _ _ HSL) as Lc.
    assert (Hlen : length (rev (map cnt cs')) = narity n) by (rewrite rev_length, map_length; congruence).
    assert (Hlt : Nat.ltb (length (rev (map cnt cs') ++ stack)) (narity n) = false).
    { apply Nat.ltb_ge. rewrite app_length. lia. }
    assert (F1 : firstn (narity n) (rev (map cnt cs') ++ stack) = rev (map cnt cs')) by (rewrite <- Hlen; apply firstn_app_exact).
    assert (F2 : skipn (narity n) (rev (map cnt cs') ++ stack) = stack) by (rewrite <- Hlen; apply skipn_app_exact).
    assert (Hp : forall m, narity m = narity n -> is_leaf_node m = false ->
              patch m (S (sum_nat (map st_nodes cs'))) (sum_nat (map st_leaves cs')) = recount m cs').
    { intros m Am Lm. rewrite <- (patch_recount m cs'); [reflexivity | congruence | exact Lm]. }
    assert (Hd : forall m, is_leaf_node m = false ->
              (zsum st_leaves cs' - zsum st_leaves cs = dl (T n cs) (mkT m cs'))%Z /\
              (zsum st_nodes cs' - zsum st_nodes cs = dn (T n cs) (mkT m cs'))%Z).
    { intros m Lm. unfold dl, dn, zsum. rewrite (st_leaves_mkT _ _ Lm), st_nodes_mkT.
      change (st_leaves (T n cs)) with (nleaves n). change (st_nodes (T n cs)) with (nnodes n). rewrite Lv, Nn. split; lia. }
    destruct a as [x|]; cbn [enc_ans option_map new_header].
    + inversion Wa1 as [|? ? Wx _]; subst. cbn [node_answer_ok] in Hok.
      apply andb_true_iff in Hok as [HL HN]. apply Nat.eqb_eq in HL, HN.
      destruct (accepted_answer_one_level n x Wx HL HN) as [Am Lm].
      rewrite root_leaves_encode, (encode_length _ Wx), HL, HN, !Nat.eqb_refl. cbn [negb].
      destruct (encode_last x) as (lx & Hx). rewrite Hx, rev_app_distr. cbn [rev app]. rewrite Hlt.
      rewrite F1, F2, sum_fst_rev_cnt, sum_snd_rev_cnt, (Hp (st_node x) Am Lm).
      destruct (Hd (st_node x) Lm) as [-> ->].
      unfold mkT. cbn [encode]. rewrite <- app_assoc. unfold cnt, st_leaves, st_nodes. cbn [st_node recount nleaves nnodes].
      unfold is_leaf_node in Lm. destruct (nkind (st_node x)) eqn:Kx; try reflexivity. discriminate Lm.
    + unfold one_level_arr. rewrite Ln.
      assert (RL : root_leaves (repeat leaf_node (narity n) ++ [patch n (S (narity n)) (narity n)]) = narity n).
      { unfold root_leaves. rewrite rev_app_distr. reflexivity. }
      rewrite RL, app_length, repeat_length. cbn [length]. rewrite Nat.add_1_r, !Nat.eqb_refl. cbn [negb].
      rewrite rev_app_distr. cbn [rev app]. rewrite Hlt, patch_patch.
      rewrite F1, F2, sum_fst_rev_cnt, sum_snd_rev_cnt, (Hp n eq_refl Ln).
      destruct (Hd n Ln) as [-> ->].
      unfold mkT. cbn [encode]. rewrite <- app_assoc. unfold cnt, st_leaves, st_nodes. cbn [st_node recount nleaves nnodes].
      unfold is_leaf_node in Ln. destruct (nkind n) eqn:Kn; try reflexivity. discriminate Ln.
  - intros _ _ rest arest out stack xl xn. cbn. rewrite app_nil_r. f_equal; unfold zsum; simpl; lia.
  - intros c cs aa ass c' cs' _ IHc _ IHl W Wa rest arest out stack xl xn.
    cbn [forallb] in W. apply andb_true_iff in W as [Wc Wcs].
    cbn [concat] in Wa. apply wfa_app in Wa as [Wa1 Wa2].
    cbn [flat_map concat map rev]. rewrite map_app, <- !app_assoc.
    rewrite (IHc Wc Wa1), (IHl Wcs Wa2). rewrite <- !app_assoc, !zsum_cons. unfold dl, dn.
    f_equal; lia.
Qed.

(* ---------- the transformed tree is well-formed; one answer per node ---------- *)
Definition AOk (t : stree) (aa : list (option stree)) (t' : stree) : Prop :=
  wf_stree t = true -> wfa aa -> wf_stree t' = true /\ length aa = st_nodes t.
Definition AOkL (cs : list stree) (ass : list (list (option stree))) (cs' : list stree) : Prop :=
  forallb wf_stree cs = true -> wfa (concat ass) ->
  forallb wf_stree cs' = true /\ length (concat ass) = sum_nat (map st_nodes cs).

Theorem aok : forall t aa t', Tr t aa t' -> AOk t aa t'.
Proof.
  apply (Tr_ind2 AOk AOkL).
  - intros n a Ln W Wa. destruct (wf_unfold n [] W) as (_ & Nn & _ & _).
    change (st_nodes (T n [])) with (nnodes n). simpl in Nn. rewrite Nn. split; [|reflexivity].
    destruct a as [x|]; [inversion Wa; subst; assumption | exact W].
  - intros n cs ass cs' a Ln HSL IH Hok W Wa.
    destruct (wf_unfold n cs W) as (Ar & Nn & _ & Wcs). apply wfa_app in Wa as [Was Wa1].
    destruct (IH Wcs Was) as [W' Len]. split.
    + apply wf_mkT; [|exact W']. destruct a as [x|]; [|exact Ln].
      inversion Wa1 as [|? ? Wx _]; subst. cbn [node_answer_ok] in Hok.
      apply andb_true_iff in Hok as [HL HN]. apply Nat.eqb_eq in HL, HN.
      exact (proj2 (accepted_answer_one_level n x Wx HL HN)).
    + rewrite app_length, Len. change (st_nodes (T n cs)) with (nnodes n). rewrite Nn. simpl. lia.
  - intros _ _. split; reflexivity.
  - intros c cs aa ass c' cs' _ IHc _ IHl W Wa.
    cbn [forallb] in W. apply andb_true_iff in W as [Wc Wcs].
    cbn [concat] in Wa. apply wfa_app in Wa as [Wa1 Wa2].
    destruct (IHc Wc Wa1) as [W1 L1]. destruct (IHl Wcs Wa2) as [W2 L2].
    cbn [forallb concat]. rewrite W1, W2, app_length, L1, L2. split; reflexivity.
Qed.

(* ---------- the whole operation ---------- *)
Lemma given_map {A B} (f : A -> B) l : given (map (option_map f) l) = map f (given l).
Proof. induction l as [|[x|] l IH]; cbn [map option_map given]; congruence. Qed.

Theorem arr_transform_all_spec a answers t' :
  wf_stree (stree_of a) = true ->
  Forall (fun o => match o with Some b => wf_stree (stree_of b) = true | None => True end) answers ->
  Tr (stree_of a) (map (option_map stree_of) answers) t' ->
  arr_transform_all (spec_of a) (map (option_map spec_of) answers) =
  match tr_opts_s (ss_nil a) (ss_ns a) (given answers) with
  | Ok ns => Ok (spec_of {| stree_of := t'; ss_nil := ss_nil a; ss_ns := ns |})
  | Err e => Err e
  end.
Proof.
  intros Wa Wans HT.
  assert (Waa : wfa (map (option_map stree_of) answers)).
  { unfold wfa. rewrite Forall_map. eapply Forall_impl; [|exact Wans]. intros [b|]; simpl; auto. }
  destruct (aok _ _ _ HT Wa Waa) as (W' & Len). rewrite map_length in Len.
  unfold arr_transform_all, tr_opts_s.
  change (trav (spec_of a)) with (encode (stree_of a)). change (snil (spec_of a)) with (ss_nil a). change (sns (spec_of a)) with (ss_ns a).
  destruct (encode_last (stree_of a)) as (la & Ha). rewrite Ha, rev_app_distr. cbn [rev app]. rewrite <- Ha.
  rewrite map_length, (encode_length _ Wa), Len, Nat.eqb_refl. cbn [negb].
  rewrite given_map.
  destruct (tr_opts (ss_nil a) (ss_ns a) (map spec_of (given answers))) as [ns|e]; [|reflexivity]. cbn [bind].
  pose proof (asim _ _ _ HT Wa Waa [] [] [] [] 0%Z 0%Z) as H. rewrite !app_nil_r in H.
  assert (Em : map (option_map trav) (map (option_map spec_of) answers) = map enc_ans (map (option_map stree_of) answers)).
  { rewrite !map_map. apply map_ext. intros [b|]; reflexivity. }
  rewrite Em, H. cbn [tr_all bind app].
  destruct (encode_last t') as (lc & Hc). rewrite Hc, rev_app_distr. cbn [rev app]. rewrite <- Hc.
  change (nleaves (st_node t')) with (st_leaves t'). change (nnodes (st_node t')) with (st_nodes t').
  change (nleaves (st_node (stree_of a))) with (st_leaves (stree_of a)).
  rewrite (encode_length _ W').
  assert (E1 : Z.eqb (Z.of_nat (st_leaves t')) (Z.of_nat (st_leaves (stree_of a)) + (0 + dl (stree_of a) t')) = true) by (apply Z.eqb_eq; unfold dl; lia).
  assert (E2 : Z.eqb (Z.of_nat (st_nodes t')) (Z.of_nat (st_nodes (stree_of a)) + (0 + dn (stree_of a) t')) = true) by (apply Z.eqb_eq; unfold dn; lia).
  rewrite E1, E2, Nat.eqb_refl. reflexivity.
Qed.

(* a rejected answer for an internal node: ValueError at that node *)
Lemma tr_all_rejects n ns b answers out stack xl xn :
  is_leaf_node n = false -> root_leaves b <> narity n \/ length b <> S (narity n) ->
  tr_all (n :: ns) (Some b :: answers) out stack xl xn = Err ValueError.
Proof.
  intros Ln H. cbn [tr_all]. rewrite Ln.
  destruct (Nat.eqb (root_leaves b) (narity n)) eqn:E1; [|reflexivity]. cbn [negb].
  destruct (Nat.eqb (length b) (S (narity n))) eqn:E2; [|reflexivity].
  apply Nat.eqb_eq in E1, E2. destruct H; contradiction.
Qed.

(* ---------- corollaries ---------- *)
(* absent functions / functions returning their argument: the identity *)
Theorem tr_identity : forall t, wf_stree t = true -> Tr t (repeat None (st_nodes t)) t.
Proof.
  induction t as [n cs IH] using stree_ind'. intros W.
  destruct (wf_unfold n cs W) as (Ar & Nn & Lv & Wcs).
  change (st_nodes (T n cs)) with (nnodes n). rewrite Nn.
  destruct (is_leaf_node n) eqn:Ln.
  - destruct Lv as [_ ->]. exact (TrLeaf n None Ln).
  - assert (HL : TrL cs (map (fun c => repeat None (st_nodes c)) cs) cs).
    { clear - IH Wcs. induction cs as [|c cs IHc]; [constructor|].
      cbn [forallb] in Wcs. apply andb_true_iff in Wcs as [Wc Wcs]. inversion IH as [|? ? Hc Hcs]; subst.
      cbn [map]. constructor; [exact (Hc Wc) | exact (IHc Hcs Wcs)]. }
    pose proof (TrNode n cs _ cs None Ln HL eq_refl) as H. cbn [new_header] in H.
    unfold mkT in H. rewrite (recount_wf n cs W) in H.
    assert (E : concat (map (fun c => repeat (@None stree) (st_nodes c)) cs) ++ [None] = repeat None (S (sum_nat (map st_nodes cs)))).
    { clear. cbn [repeat]. rewrite repeat_cons. f_equal.
      induction cs as [|c cs IHc]; [reflexivity|]. cbn [map concat]. rewrite IHc.
      change (sum_nat (st_nodes c :: map st_nodes cs)) with (st_nodes c + sum_nat (map st_nodes cs))%nat. rewrite repeat_app. reflexivity. }
    rewrite E in H. exact H.
Qed.

(* the transformed tree is unique *)
Theorem tr_functional t aa t1 t2 :
  wf_stree t = true -> wfa aa -> Tr t aa t1 -> Tr t aa t2 -> t1 = t2.
Proof.
  intros W Waa H1 H2.
  pose proof (asim _ _ _ H1 W Waa [] [] [] [] 0%Z 0%Z) as G1. pose proof (asim _ _ _ H2 W Waa [] [] [] [] 0%Z 0%Z) as G2.
  rewrite G1 in G2. cbn [tr_all app] in G2. injection G2 as E _.
  destruct (aok _ _ _ H1 W Waa) as (W1 & _). destruct (aok _ _ _ H2 W Waa) as (W2 & _).
  exact (encode_inj _ _ W1 W2 E).
Qed.
