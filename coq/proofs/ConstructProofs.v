(* ConstructProofs.v — flatten is the post-order encoding of a tree-level flatten; more depth budget
   never changes a successful result; MakeFromCollection applied to the treespecs of the children is
   the treespec of the collection (properties C08, C01). *)
From OptreeModel Require Import Base Tree Flatten Unflatten Spec Construct.
From OptreeProofs Require Import BaseProofs RoundTrip SpecProofs EqProofs FaultProofs.
From Coq Require Import Permutation.

(* ================= flat = encode . tflat ================= *)
Definition Rel (rt : res tres) (rf : res fres) : Prop :=
  match rt with
  | Ok (ls, t, b) => rf = Ok (ls, encode t, b) /\ wf_stree t = true /\ st_leaves t = length ls
  | Err e => rf = Err e
  end.

Definition RelSeq (n : nat) (rt : res (list obj * list stree * bool)) (rf : res fres) : Prop :=
  match rt with
  | Ok (ls, ts, b) => rf = Ok (ls, flat_map encode ts, b) /\ forallb wf_stree ts = true /\
                      sum_nat (map st_leaves ts) = length ls /\
                      sum_nat (map st_nodes ts) = length (flat_map encode ts) /\ length ts = n
  | Err e => rf = Err e
  end.

Lemma rel_seq (ft : obj -> res tres) (ff : obj -> res fres) : forall l,
  (forall x, In x l -> Rel (ft x) (ff x)) -> RelSeq (length l) (tflat_seq ft l) (flat_seq ff l).
Proof.
  induction l as [|x l IH]; intros H; simpl.
  - repeat split.
  - pose proof (H x (or_introl eq_refl)) as Hx. unfold Rel in Hx.
    destruct (ft x) as [[[ls1 t1] b1]|e1]; simpl.
    + destruct Hx as (-> & Hw1 & Hl1). simpl.
      specialize (IH (fun y Hy => H y (or_intror Hy))). unfold RelSeq in IH.
      destruct (tflat_seq ft l) as [[[ls2 ts2] b2]|e2]; simpl.
      * destruct IH as (-> & Hws & Hsl & Hsn & Hlen). simpl. repeat split.
        -- rewrite Hw1, Hws. reflexivity.
        -- rewrite app_length. unfold sum_nat in *. simpl. congruence.
        -- rewrite app_length. unfold sum_nat in *. simpl. rewrite Hsn. f_equal. symmetry. apply encode_length. exact Hw1.
        -- congruence.
      * rewrite IH. reflexivity.
    + rewrite Hx. reflexivity.
Qed.

Lemma node_of_kind k cu h vks ar : nkind (node_of k cu h vks ar) = k.
Proof. destruct k; try reflexivity; destruct h; reflexivity. Qed.

(* the node mk_node appends is the recounted node_of *)
Lemma node_step k cu h vks (ts : list stree) ls b d ent cu' orig ar :
  kind_eqb k KdLeaf = false ->
  forallb wf_stree ts = true ->
  sum_nat (map st_leaves ts) = length ls ->
  sum_nat (map st_nodes ts) = length (flat_map encode ts) ->
  ar = length ts ->
  ndat (node_of k cu h vks (length ts)) = d -> nentries (node_of k cu h vks (length ts)) = ent ->
  ncustom (node_of k cu h vks (length ts)) = cu' -> norig (node_of k cu h vks (length ts)) = orig ->
  Rel (Ok (ls, mkT (node_of k cu h vks (length ts)) ts, b))
      (Ok (mk_node k ar d ent cu' orig (ls, flat_map encode ts, b))).
Proof.
  intros Hk Hws Hsl Hsn Har Hd He Hc Ho.
  assert (Hnl : match k with KdLeaf => 1%nat | _ => sum_nat (map st_leaves ts) end = sum_nat (map st_leaves ts)).
  { destruct k; try reflexivity. discriminate. }
  unfold Rel. split; [|split].
  - rewrite mk_node_eq. unfold mkT. cbn [encode]. f_equal. f_equal. f_equal. f_equal.
    unfold recount. rewrite node_of_kind, Hd, He, Hc, Ho, Hnl, Hsl, Hsn, Har. reflexivity.
  - unfold mkT. cbn [wf_stree]. unfold recount, is_leaf_node. cbn [narity nnodes nleaves nkind].
    rewrite node_of_kind, Hk, Hnl, Hws, !Nat.eqb_refl. reflexivity.
  - unfold mkT, st_leaves, recount. cbn [st_node nleaves]. rewrite node_of_kind, Hnl. exact Hsl.
Qed.

Ltac seq_case Hseq l :=
  specialize (Hseq l); unfold RelSeq in Hseq;
  destruct (tflat_seq _ l) as [[[?ls ?ts] ?b]|?e];
  [destruct Hseq as (-> & ?Hws & ?Hsl & ?Hsn & ?Hlen) | rewrite Hseq; reflexivity].

Theorem flat_tflat c : forall fuel o, Rel (tflat c fuel o) (flat c fuel o).
Proof.
  induction fuel as [|fuel IH]; intros o; [reflexivity|].
  cbn [tflat flat].
  destruct (apply_pred c o); [repeat split|].
  destruct (get_kind c o) as [k cu] eqn:Ek.
  destruct o as [id|h cs]; [repeat split|].
  assert (Hseq : forall l, RelSeq (length l) (tflat_seq (tflat c fuel) l) (flat_seq (flat c fuel) l))
    by (intros l; apply rel_seq; intros; apply IH).
  assert (Hdict : forall ks, hdr_keys h = Some ks -> forall kd, k = kd -> is_dict_kind kd = true ->
    Rel (do ch <- mapM (child_by_key ks cs) (visit_keys c kd ks) ;;
         do r <- tflat_seq (tflat c fuel) ch ;;
         (let '(ls, ts, b) := r in Ok (ls, mkT (node_of kd cu h (visit_keys c kd ks) (length ts)) ts, b || false)))
        (do ch <- mapM (child_by_key ks cs) (visit_keys c kd ks) ;;
         do r <- flat_seq (flat c fuel) ch ;;
         Ok (mk_node kd (length ks) match h with HDDict f _ => DDefault f (visit_keys c kd ks) | _ => DKeys (visit_keys c kd ks) end
                     None None match kd with KdODict => None | _ => Some ks end r))).
  { intros ks Hk kd -> Hd.
    destruct (mapM (child_by_key ks cs) (visit_keys c kd ks)) as [ch|e] eqn:Em; [|reflexivity]. cbn [bind].
    destruct (mapM_child_by_key _ _ _ _ Em) as (Hl & _ & _).
    specialize (Hseq ch). unfold RelSeq in Hseq.
    destruct (tflat_seq (tflat c fuel) ch) as [[[ls ts] b]|e]; [|rewrite Hseq; reflexivity].
    destruct Hseq as (-> & Hws & Hsl & Hsn & Hlen). cbn [bind]. rewrite orb_false_r.
    assert (Hks : length ks = length ts).
    { rewrite Hlen, Hl. symmetry. apply Permutation_length. apply visit_keys_perm. }
    apply node_step; auto.
    all: destruct kd; try discriminate Hd; cbn [node_of raw_node ndat nentries ncustom norig kind_eqb kind_code];
      rewrite ?Hk; try reflexivity; try (destruct h; reflexivity). }
  destruct k.
  - (* custom *)
    destruct h; try reflexivity. destruct eb; try reflexivity; seq_case Hseq cs; cbn [bind]; rewrite ?orb_true_r.
    + apply (node_step KdCustom cu (HCustom cls meta EAbsent) [] ts ls true); auto.
    + apply (node_step KdCustom cu (HCustom cls meta ENone) [] ts ls true); auto.
    + destruct (Nat.eqb (length es) (length cs)); [|reflexivity].
      apply (node_step KdCustom cu (HCustom cls meta (EGiven es)) [] ts ls true); auto.
  - repeat split.
  - repeat split.
  - seq_case Hseq cs. cbn [bind]. rewrite orb_false_r. apply (node_step KdTuple cu h [] ts ls b); auto.
  - seq_case Hseq cs. cbn [bind]. rewrite orb_false_r. apply (node_step KdList cu h [] ts ls b); auto.
  - destruct (hdr_keys h) as [ks|] eqn:Hk; [|reflexivity]. apply (Hdict ks eq_refl KdDict); reflexivity.
  - seq_case Hseq cs. cbn [bind]. rewrite orb_false_r. apply (node_step KdNamed cu h [] ts ls b); auto.
  - destruct (hdr_keys h) as [ks|] eqn:Hk; [|reflexivity]. apply (Hdict ks eq_refl KdODict); reflexivity.
  - destruct (hdr_keys h) as [ks|] eqn:Hk; [|reflexivity]. apply (Hdict ks eq_refl KdDDict); reflexivity.
  - seq_case Hseq cs. cbn [bind]. rewrite orb_false_r. apply (node_step KdDeque cu h [] ts ls b); auto.
  - seq_case Hseq cs. cbn [bind]. rewrite orb_false_r. apply (node_step KdStruct cu h [] ts ls b); auto.
Qed.

(* consequences: both directions *)
Corollary flat_of_tflat c fuel o ls t b :
  tflat c fuel o = Ok (ls, t, b) -> flat c fuel o = Ok (ls, encode t, b) /\ wf_stree t = true.
Proof. intros H. pose proof (flat_tflat c fuel o) as R. rewrite H in R. destruct R as (A & B & _). auto. Qed.

Corollary tflat_of_flat c fuel o ls ns b :
  flat c fuel o = Ok (ls, ns, b) -> exists t, tflat c fuel o = Ok (ls, t, b) /\ ns = encode t /\ wf_stree t = true.
Proof.
  intros H. pose proof (flat_tflat c fuel o) as R. unfold Rel in R.
  destruct (tflat c fuel o) as [[[ls' t] b']|e].
  - destruct R as (A & B & _). rewrite A in H. injection H as <- <- <-. eauto.
  - rewrite R in H. discriminate.
Qed.

(* ================= more budget never changes a successful result ================= *)
Lemma tflat_seq_mono (f g : obj -> res tres) : forall l R,
  (forall x r, In x l -> f x = Ok r -> g x = Ok r) -> tflat_seq f l = Ok R -> tflat_seq g l = Ok R.
Proof.
  induction l as [|x l IH]; intros R H Hr; simpl in *; [exact Hr|].
  destruct (f x) as [[[ls1 t1] b1]|] eqn:E1; simpl in Hr; [|discriminate].
  destruct (tflat_seq f l) as [[[ls2 ts2] b2]|] eqn:E2; simpl in Hr; [|discriminate].
  rewrite (H x _ (or_introl eq_refl) E1). simpl.
  rewrite (IH _ (fun y r Hy => H y r (or_intror Hy)) eq_refl). exact Hr.
Qed.

Theorem tflat_fuel_mono c : forall fuel o r, tflat c fuel o = Ok r -> tflat c (S fuel) o = Ok r.
Proof.
  induction fuel as [|fuel IH]; intros o r Hr; [discriminate|].
  cbn [tflat] in Hr. change (tflat c (S (S fuel)) o) with
    (if apply_pred c o then Ok (leaf_tres o)
     else let '(k, cu) := get_kind c o in
          match o with
          | Leaf _ => Ok (leaf_tres o)
          | Node h cs =>
            let rec := tflat c (S fuel) in
            let fin (vks : list key) (found : bool) (r : list obj * list stree * bool) : res tres :=
              let '(ls, ts, b) := r in Ok (ls, mkT (node_of k cu h vks (length ts)) ts, b || found) in
            match k with
            | KdLeaf => Ok (leaf_tres o)
            | KdNone => Ok ([], mkT (node_of KdNone None h [] 0) [], false)
            | KdTuple | KdList | KdNamed | KdStruct | KdDeque => do r <- tflat_seq rec cs ;; fin [] false r
            | KdDict | KdODict | KdDDict =>
              match hdr_keys h with
              | None => Err InternalError
              | Some ks =>
                let vks := visit_keys c k ks in
                do ch <- mapM (child_by_key ks cs) vks ;; do r <- tflat_seq rec ch ;; fin vks false r
              end
            | KdCustom =>
              match h with
              | HCustom cls meta eb =>
                match eb with
                | ERaise e => Err (UserExn e)
                | EMalTuple _ => Err RuntimeError
                | _ => do r <- tflat_seq rec cs ;;
                       match eb with
                       | EGiven es => if Nat.eqb (length es) (length cs) then fin [] true r else Err RuntimeError
                       | _ => fin [] true r
                       end
                end
              | _ => Err InternalError
              end
            end
          end).
  destruct (apply_pred c o); [exact Hr|].
  destruct (get_kind c o) as [k cu].
  destruct o as [id|h cs]; [exact Hr|].
  assert (Hs : forall l R, tflat_seq (tflat c fuel) l = Ok R -> tflat_seq (tflat c (S fuel)) l = Ok R).
  { intros l R. apply tflat_seq_mono. intros x r0 _. apply IH. }
  destruct k; try exact Hr;
    try (destruct (tflat_seq (tflat c fuel) cs) as [R|] eqn:E; simpl in Hr; [|discriminate];
         cbn zeta; rewrite (Hs _ _ E); exact Hr).
  - destruct h; try discriminate Hr. destruct eb; try discriminate Hr;
      (destruct (tflat_seq (tflat c fuel) cs) as [R|] eqn:E; simpl in Hr; [|discriminate];
       cbn zeta; rewrite (Hs _ _ E); exact Hr).
  - destruct (hdr_keys h) as [ks|]; [|discriminate Hr]. cbn zeta in *.
    destruct (mapM (child_by_key ks cs) (visit_keys c KdDict ks)) as [ch|]; [|discriminate Hr]. cbn [bind] in *.
    destruct (tflat_seq (tflat c fuel) ch) as [R|] eqn:E; simpl in Hr; [|discriminate]. rewrite (Hs _ _ E). exact Hr.
  - destruct (hdr_keys h) as [ks|]; [|discriminate Hr]. cbn zeta in *.
    destruct (mapM (child_by_key ks cs) (visit_keys c KdODict ks)) as [ch|]; [|discriminate Hr]. cbn [bind] in *.
    destruct (tflat_seq (tflat c fuel) ch) as [R|] eqn:E; simpl in Hr; [|discriminate]. rewrite (Hs _ _ E). exact Hr.
  - destruct (hdr_keys h) as [ks|]; [|discriminate Hr]. cbn zeta in *.
    destruct (mapM (child_by_key ks cs) (visit_keys c KdDDict ks)) as [ch|]; [|discriminate Hr]. cbn [bind] in *.
    destruct (tflat_seq (tflat c fuel) ch) as [R|] eqn:E; simpl in Hr; [|discriminate]. rewrite (Hs _ _ E). exact Hr.
Qed.

(* for the engine's flatten: a tree that flattens under a depth limit flattens to the same leaves and
   the same treespec under any larger one *)
Corollary flat_fuel_mono c fuel o r : flat c fuel o = Ok r -> flat c (S fuel) o = Ok r.
Proof.
  destruct r as [[ls ns] b]. intros H. destruct (tflat_of_flat c fuel o ls ns b H) as (t & Ht & -> & _).
  apply (flat_of_tflat c (S fuel) o ls t b). apply tflat_fuel_mono. exact Ht.
Qed.

(* ================= MakeFromCollection of the children's treespecs = the collection's treespec ================= *)
Definition child_spec (c : cfg) (fuel : nat) (x : obj) : sspec :=
  match tflat c fuel x with
  | Ok (_, t, b) => {| stree_of := t; ss_nil := c_nil c; ss_ns := spec_ns c b |}
  | Err _ => {| stree_of := st_leaf; ss_nil := c_nil c; ss_ns := 0 |}
  end.

Definition ns_small (c : cfg) (z : Z) : Prop := z = 0 \/ z = c_ns c.

Lemma spec_ns_small c b : ns_small c (spec_ns c b).
Proof. unfold ns_small, spec_ns. destruct (b || ins_ordered_here c); auto. Qed.

Lemma child_spec_props c fuel x : ss_nil (child_spec c fuel x) = c_nil c /\ ns_small c (ss_ns (child_spec c fuel x)).
Proof.
  unfold child_spec. destruct (tflat c fuel x) as [[[ls t] b]|]; simpl; split; auto using spec_ns_small.
  left; reflexivity.
Qed.

Lemma common_ns_small c : forall specs acc,
  (forall s, In s specs -> ss_nil s = c_nil c /\ ns_small c (ss_ns s)) -> ns_small c acc ->
  exists v, common_ns (c_nil c) specs acc = Ok v /\ ns_small c v.
Proof.
  induction specs as [|s specs IH]; intros acc H Ha; simpl; [eauto|].
  destruct (H s (or_introl eq_refl)) as [Hn Hs]. rewrite Hn, Bool.eqb_reflx. cbn [negb].
  assert (IH' := fun a => IH a (fun s' Hs' => H s' (or_intror Hs'))).
  destruct (Z.eqb (ss_ns s) 0) eqn:E0; [apply IH'; exact Ha|].
  destruct (Z.eqb acc 0) eqn:Ea; [apply IH'; exact Hs|].
  apply Z.eqb_neq in E0, Ea. destruct Hs as [Hs|Hs]; [contradiction|]. destruct Ha as [Ha|Ha]; [contradiction|].
  rewrite Ha, Hs, Z.eqb_refl. apply IH'. right; reflexivity.
Qed.

Lemma merge_ns_small c common isc : ns_small c common ->
  exists v, merge_ns (c_ns c) common isc = Ok v /\ ns_small c v.
Proof.
  intros [->| ->]; unfold merge_ns.
  - simpl. destruct isc; eexists; split; try reflexivity; [right | left]; reflexivity.
  - destruct (Z.eqb (c_ns c) 0) eqn:E; simpl.
    + destruct isc; eexists; split; try reflexivity; [right | left]; reflexivity.
    + rewrite Z.eqb_refl. eexists; split; [reflexivity | right; reflexivity].
Qed.

Definition Rel2 (c : cfg) (rt : res tres) (rm : res sspec) : Prop :=
  match rt with
  | Ok (_, t, _) => exists s, rm = Ok s /\ stree_of s = t /\ ss_nil s = c_nil c /\ ns_small c (ss_ns s)
  | Err e => rm = Err e
  end.

Lemma tflat_seq_children c fuel : forall l,
  (forall x, In x l -> exists r, tflat c fuel x = Ok r) ->
  exists ls b, tflat_seq (tflat c fuel) l = Ok (ls, map (fun x => stree_of (child_spec c fuel x)) l, b).
Proof.
  induction l as [|x l IH]; intros H; simpl; [eauto|].
  destruct (H x (or_introl eq_refl)) as ([[ls1 t1] b1] & Hx). rewrite Hx. simpl.
  destruct (IH (fun y Hy => H y (or_intror Hy))) as (ls2 & b2 & ->). simpl.
  assert (Hcs : stree_of (child_spec c fuel x) = t1) by (unfold child_spec; rewrite Hx; reflexivity).
  rewrite Hcs. eauto.
Qed.

Lemma lookup_combine_mapped {A B} (F : A -> B) ks : forall (cs : list A) k,
  lookup k (combine ks (map F cs)) = match lookup k (combine ks cs) with Some y => Some (F y) | None => None end.
Proof.
  induction ks as [|k0 ks IH]; intros [|x cs] k; simpl; try reflexivity.
  destruct (key_eqb k k0); [reflexivity | apply IH].
Qed.

Lemma omapM_mapped {A B} (F : A -> B) ks (cs : list A) : forall vks ch,
  mapM (fun k => match lookup k (combine ks cs) with Some o => Ok o | None => Err Crash end) vks = Ok ch ->
  omapM (fun key => lookup key (combine ks (map F cs))) vks = Some (map F ch).
Proof.
  induction vks as [|k vks IH]; intros ch H; simpl in H.
  - injection H as <-. reflexivity.
  - destruct (lookup k (combine ks cs)) as [y|] eqn:El; simpl in H; [|discriminate].
    destruct (mapM _ vks) as [ch'|] eqn:Em; simpl in H; [|discriminate]. injection H as <-.
    simpl. rewrite lookup_combine_mapped, El. simpl. rewrite (IH ch' eq_refl). reflexivity.
Qed.

Lemma get_kind_hdr_nil c h cs : get_kind c (Node h cs) = get_kind c (Node h []).
Proof. reflexivity. Qed.

Theorem mfc_is_flatten c h cs fuel :
  apply_pred c (Node h cs) = false -> wf_obj (Node h cs) = true ->
  (forall x, In x cs -> exists r, tflat c fuel x = Ok r) ->
  Rel2 c (tflat c (S fuel) (Node h cs)) (make_from_collection c h (map (child_spec c fuel) cs)).
Proof.
  intros Hp Hwf Hch. cbn [tflat]. rewrite Hp. unfold make_from_collection.
  simpl in Hwf. apply andb_true_iff in Hwf as [Hwh _].
  rewrite <- (get_kind_hdr_nil c h cs).
  destruct (get_kind c (Node h cs)) as [k cu] eqn:Ek.
  assert (Hbuild : forall vks l,
            (forall x, In x l -> In x cs) ->
            exists s, (do common <- common_ns (c_nil c) (map (child_spec c fuel) l) 0 ;;
                       do ns <- merge_ns (c_ns c) common (kind_eqb k KdCustom) ;;
                       Ok {| stree_of := mkT (node_of k cu h vks (length (map (child_spec c fuel) l)))
                                             (map stree_of (map (child_spec c fuel) l));
                             ss_nil := c_nil c; ss_ns := ns |}) = Ok s /\
                      stree_of s = mkT (node_of k cu h vks (length l)) (map (fun x => stree_of (child_spec c fuel x)) l) /\
                      ss_nil s = c_nil c /\ ns_small c (ss_ns s)).
  { intros vks l Hsub.
    destruct (common_ns_small c (map (child_spec c fuel) l) 0) as (v & -> & Hv).
    { intros s Hs. apply in_map_iff in Hs as (x & <- & _). apply child_spec_props. }
    { left; reflexivity. }
    cbn [bind].
    destruct (merge_ns_small c v (kind_eqb k KdCustom) Hv) as (w & -> & Hw). cbn [bind].
    eexists. split; [reflexivity|]. cbn [stree_of ss_nil ss_ns]. rewrite !map_length, map_map. auto. }
  assert (Hseq : forall vks l found, (forall x, In x l -> In x cs) ->
     Rel2 c (do r <- tflat_seq (tflat c fuel) l ;;
             (let '(ls, ts, b) := r in Ok (ls, mkT (node_of k cu h vks (length ts)) ts, b || found)))
            (do common <- common_ns (c_nil c) (map (child_spec c fuel) l) 0 ;;
             do ns <- merge_ns (c_ns c) common (kind_eqb k KdCustom) ;;
             Ok {| stree_of := mkT (node_of k cu h vks (length (map (child_spec c fuel) l)))
                                   (map stree_of (map (child_spec c fuel) l));
                   ss_nil := c_nil c; ss_ns := ns |})).
  { intros vks l found Hsub.
    destruct (tflat_seq_children c fuel l (fun x Hx => Hch x (Hsub x Hx))) as (ls & b & ->). cbn [bind].
    destruct (Hbuild vks l Hsub) as (s & -> & Hs1 & Hs2 & Hs3).
    unfold Rel2. exists s. rewrite map_length. auto. }
  destruct k; cbn zeta.
  - (* custom *)
    destruct h; try reflexivity. destruct eb; try reflexivity.
    + pose proof (Hseq [] cs true (fun x H => H)) as R. unfold Rel2 in R |- *.
      destruct (tflat_seq_children c fuel cs Hch) as (ls & b & E). rewrite E in R |- *. cbn [bind] in R |- *.
      destruct R as (s & -> & Hs). cbn [bind]. exists s; auto.
    + pose proof (Hseq [] cs true (fun x H => H)) as R. unfold Rel2 in R |- *.
      destruct (tflat_seq_children c fuel cs Hch) as (ls & b & E). rewrite E in R |- *. cbn [bind] in R |- *.
      destruct R as (s & -> & Hs). cbn [bind]. exists s; auto.
    + pose proof (Hseq [] cs true (fun x H => H)) as R. unfold Rel2 in R |- *.
      destruct (tflat_seq_children c fuel cs Hch) as (ls & b & E). rewrite E in R |- *. cbn [bind] in R |- *.
      destruct R as (s & -> & Hs). cbn [bind].
      replace (Nat.eqb (length es) (length (map (child_spec c fuel) cs))) with (Nat.eqb (length es) (length cs))
        by (rewrite map_length; reflexivity).
      destruct (Nat.eqb (length es) (length cs)); [exists s; auto | reflexivity].
  - unfold Rel2, leaf_tres. eexists. split; [reflexivity|]. cbn. repeat split. right; reflexivity.
  - unfold Rel2. eexists. split; [reflexivity|]. cbn. repeat split. right; reflexivity.
  - apply (Hseq [] cs false). auto.
  - apply (Hseq [] cs false). auto.
  - destruct (hdr_keys h) as [ks|] eqn:Hk; [|reflexivity].
    assert (Hw : length ks = length cs /\ NoDup ks).
    { destruct h; simpl in Hk; try discriminate; injection Hk as ->; simpl in Hwh;
        apply andb_true_iff in Hwh as [Hl0 Hn]; apply Nat.eqb_eq in Hl0; apply keys_nodup_NoDup in Hn; auto. }
    destruct Hw as [Hlen Hnd].
    destruct (mapM_child_by_key_ok ks cs (visit_keys c KdDict ks) Hnd Hlen) as (ch & Em).
    { intros k0 Hk0. eapply Permutation_in; [apply visit_keys_perm | exact Hk0]. }
    rewrite Em. destruct (mapM_child_by_key _ _ _ _ Em) as (_ & _ & Hsub).
    rewrite (omapM_mapped (child_spec c fuel) ks cs _ ch Em). cbn [bind]. apply (Hseq _ ch false Hsub).
  - apply (Hseq [] cs false). auto.
  - destruct (hdr_keys h) as [ks|] eqn:Hk; [|reflexivity].
    assert (Hw : length ks = length cs /\ NoDup ks).
    { destruct h; simpl in Hk; try discriminate; injection Hk as ->; simpl in Hwh;
        apply andb_true_iff in Hwh as [Hl0 Hn]; apply Nat.eqb_eq in Hl0; apply keys_nodup_NoDup in Hn; auto. }
    destruct Hw as [Hlen Hnd].
    destruct (mapM_child_by_key_ok ks cs (visit_keys c KdODict ks) Hnd Hlen) as (ch & Em).
    { intros k0 Hk0. eapply Permutation_in; [apply visit_keys_perm | exact Hk0]. }
    rewrite Em. destruct (mapM_child_by_key _ _ _ _ Em) as (_ & _ & Hsub).
    rewrite (omapM_mapped (child_spec c fuel) ks cs _ ch Em). cbn [bind]. apply (Hseq _ ch false Hsub).
  - destruct (hdr_keys h) as [ks|] eqn:Hk; [|reflexivity].
    assert (Hw : length ks = length cs /\ NoDup ks).
    { destruct h; simpl in Hk; try discriminate; injection Hk as ->; simpl in Hwh;
        apply andb_true_iff in Hwh as [Hl0 Hn]; apply Nat.eqb_eq in Hl0; apply keys_nodup_NoDup in Hn; auto. }
    destruct Hw as [Hlen Hnd].
    destruct (mapM_child_by_key_ok ks cs (visit_keys c KdDDict ks) Hnd Hlen) as (ch & Em).
    { intros k0 Hk0. eapply Permutation_in; [apply visit_keys_perm | exact Hk0]. }
    rewrite Em. destruct (mapM_child_by_key _ _ _ _ Em) as (_ & _ & Hsub).
    rewrite (omapM_mapped (child_spec c fuel) ks cs _ ch Em). cbn [bind]. apply (Hseq _ ch false Hsub).
  - apply (Hseq [] cs false). auto.
  - apply (Hseq [] cs false). auto.
Qed.

(* ================= at the public entry points ================= *)
(* the treespec tree_structure returns for x *)
Definition flatten_spec (c : cfg) (x : obj) : sspec := child_spec c (S (c_limit c)) x.

Lemma flatten_spec_correct c x ls sp :
  flatten c x = Ok (ls, sp) -> spec_of (flatten_spec c x) = sp /\ sspec_of sp = Some (flatten_spec c x).
Proof.
  unfold flatten. intros H.
  destruct (flat c (S (c_limit c)) x) as [[[ls' ns] b]|] eqn:E; [|discriminate].
  cbn [bind] in H. injection H as <- <-.
  destruct (tflat_of_flat c _ x _ _ _ E) as (t & Ht & -> & Hw).
  unfold flatten_spec, child_spec. rewrite Ht. unfold spec_of, sspec_of. cbn [stree_of ss_nil ss_ns trav snil sns].
  split; [reflexivity|]. rewrite decode_encode by (apply wf_arity_ok; exact Hw). reflexivity.
Qed.

Lemma child_spec_mono c fuel x : (exists r, tflat c fuel x = Ok r) -> child_spec c (S fuel) x = child_spec c fuel x.
Proof. intros (r & Hr). unfold child_spec. rewrite (tflat_fuel_mono c fuel x r Hr), Hr. reflexivity. Qed.

Lemma ns_small_compatible c a b : ns_small c a -> ns_small c b -> ns_compatible a b = true.
Proof.
  unfold ns_compatible. intros [->| ->] [->| ->]; rewrite ?Z.eqb_refl, ?orb_true_r; reflexivity.
Qed.

(* treespec_from_collection / treespec_tuple / _list / _dict / ... applied to the treespecs of the
   children of a collection returns the treespec tree_structure returns for the collection itself:
   identical node array, identical none_is_leaf, compatible namespace; and it fails exactly when
   flattening the collection fails, with the same exception *)
Theorem mfc_flatten c h cs :
  apply_pred c (Node h cs) = false -> wf_obj (Node h cs) = true ->
  (forall x, In x cs -> exists r, tflat c (c_limit c) x = Ok r) ->
  match flatten c (Node h cs) with
  | Ok (ls, sp) =>
    exists s, make_from_collection c h (map (flatten_spec c) cs) = Ok s /\
              encode (stree_of s) = trav sp /\ ss_nil s = snil sp /\ ns_compatible (ss_ns s) (sns sp) = true
  | Err e => make_from_collection c h (map (flatten_spec c) cs) = Err e
  end.
Proof.
  intros Hp Hwf Hch.
  assert (Hspecs : map (flatten_spec c) cs = map (child_spec c (c_limit c)) cs).
  { apply map_ext_in. intros x Hx. apply child_spec_mono. apply Hch. exact Hx. }
  rewrite Hspecs.
  pose proof (mfc_is_flatten c h cs (c_limit c) Hp Hwf Hch) as R. unfold Rel2 in R.
  pose proof (flat_tflat c (S (c_limit c)) (Node h cs)) as F. unfold Rel in F.
  unfold flatten.
  destruct (tflat c (S (c_limit c)) (Node h cs)) as [[[ls t] b]|e].
  - destruct F as (-> & _ & _). cbn [bind]. destruct R as (s & -> & <- & Hn & Hs).
    exists s. cbn [trav snil sns]. repeat split; auto. apply (ns_small_compatible c); [exact Hs | apply spec_ns_small].
  - rewrite F. exact R.
Qed.
