(* TypingProofs.v — the Python twins of the engine's class recognisers agree with the engine, and the
   engine's memo table never changes an answer (property C18). *)
From OptreeModel Require Import Typing.

(* namedtuple recognition: the repaired Python twin is the engine's function, on every trait vector *)
Theorem namedtuple_twins_agree t : python_is_namedtuple true t = engine_is_namedtuple t.
Proof. reflexivity. Qed.

(* the unchanged twin accepted a tuple-subclass _fields (defect F6) *)
Theorem namedtuple_twins_refuted_unchanged :
  exists t, python_is_namedtuple false t <> engine_is_namedtuple t.
Proof.
  exists {| t_is_type := true; t_tuple_sub := true; t_fields := ASubclass; t_fields_all_str := true;
            t_make := true; t_asdict := true; t_bases_tuple := false; t_nf := AMissing; t_nsf := AMissing;
            t_nuf := AMissing; t_basetype := true |}.
  discriminate.
Qed.

(* struct-sequence recognition: agreement whenever the three counters are not instances of a proper
   subclass of int (bool) — the engine demands exact ints, the twin any int; and bases == (tuple,)
   implies being a tuple subclass *)
Theorem structseq_twins_agree t :
  (t_bases_tuple t = true -> t_tuple_sub t = true) ->
  t_nf t <> ASubclass -> t_nsf t <> ASubclass -> t_nuf t <> ASubclass ->
  python_is_structseq t = engine_is_structseq t.
Proof.
  intros Hb H1 H2 H3. unfold python_is_structseq, engine_is_structseq.
  destruct (t_is_type t); simpl; [|reflexivity].
  destruct (t_bases_tuple t) eqn:Eb; simpl; [rewrite (Hb eq_refl) | rewrite andb_false_r; reflexivity]. simpl.
  destruct (t_nf t), (t_nsf t), (t_nuf t); simpl; try reflexivity; congruence.
Qed.

(* a class statement always produces a subclassable type (Py_TPFLAGS_BASETYPE set), so for every
   class definable in Python both recognisers say False, whatever the counters are *)
Theorem structseq_twins_agree_python_classes t :
  t_basetype t = true -> python_is_structseq t = engine_is_structseq t.
Proof.
  intros Hb. unfold python_is_structseq, engine_is_structseq. rewrite Hb. simpl. rewrite !andb_false_r. reflexivity.
Qed.

(* ================= the memo table is transparent ================= *)
Section CacheProofs.
  Variable rec : traits -> bool.

  Definition CInv (s : cstate) : Prop :=
    forall a b, zlookup a (memo s) = Some b -> exists t, zlookup a (live s) = Some t /\ b = rec t.

  Lemma zlookup_zremove_same {V} a (l : list (Z * V)) : zlookup a (zremove a l) = None.
  Proof.
    induction l as [|[b v] l IH]; simpl; [reflexivity|].
    destruct (Z.eqb a b) eqn:E; [exact IH | simpl; rewrite E; exact IH].
  Qed.

  Lemma zlookup_zremove_other {V} a c (l : list (Z * V)) : a <> c -> zlookup a (zremove c l) = zlookup a l.
  Proof.
    intros Hne. induction l as [|[b v] l IH]; simpl; [reflexivity|].
    destruct (Z.eqb c b) eqn:E.
    - apply Z.eqb_eq in E. subst. assert (Z.eqb a b = false) as -> by (apply Z.eqb_neq; exact Hne). exact IH.
    - simpl. destruct (Z.eqb a b); [reflexivity | exact IH].
  Qed.

  Lemma cinv_step s o : CInv s -> CInv (fst (cstep rec s o)).
  Proof.
    intros HI. destruct o as [a t|a|a]; simpl.
    - destruct (zlookup a (live s)) eqn:El; [exact HI|]. simpl. intros c b Hc.
      destruct (HI c b Hc) as (t' & Ht & Hb). exists t'. split; [|exact Hb]. simpl.
      destruct (Z.eqb c a) eqn:E; [apply Z.eqb_eq in E; subst; congruence | exact Ht].
    - simpl. intros c b Hc. cbn [live memo] in *. destruct (Z.eq_dec c a) as [->|Hne].
      + rewrite zlookup_zremove_same in Hc. discriminate.
      + rewrite zlookup_zremove_other in Hc by exact Hne. rewrite zlookup_zremove_other by exact Hne. apply HI. exact Hc.
    - destruct (zlookup a (live s)) as [t|] eqn:El; [|exact HI].
      destruct (zlookup a (memo s)) eqn:Em; [exact HI|].
      destruct (Nat.ltb (length (memo s)) (cap s)); [|exact HI]. simpl. intros c b Hc. simpl in Hc.
      destruct (Z.eqb c a) eqn:E.
      + apply Z.eqb_eq in E. subst. injection Hc as <-. exists t. split; [exact El | reflexivity].
      + apply HI. exact Hc.
  Qed.

  Lemma cinv_run ops : forall s, CInv s -> CInv (crun rec s ops).
  Proof. induction ops as [|o ops IH]; intros s H; [exact H|]. simpl. apply IH. apply cinv_step. exact H. Qed.

  (* After ANY history of class creations, deaths (with address reuse) and queries — however many
     classes were seen, whatever the capacity — a query returns the classification of the class that
     lives at that address NOW. *)
  Theorem cache_transparent ops capacity a t :
    let s := crun rec {| live := []; memo := []; cap := capacity |} ops in
    zlookup a (live s) = Some t -> snd (cstep rec s (CQuery a)) = Some (rec t).
  Proof.
    intros s Hl.
    assert (HI : CInv s) by (apply cinv_run; intros c b Hc; discriminate).
    unfold cstep. rewrite Hl. destruct (zlookup a (memo s)) as [b|] eqn:Em.
    - destruct (HI a b Em) as (t' & Ht' & ->). simpl. congruence.
    - destruct (Nat.ltb _ _); reflexivity.
  Qed.
End CacheProofs.
