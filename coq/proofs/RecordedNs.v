(* RecordedNs.v — the namespace a treespec records is enough to re-flatten with: flattening the same
   tree under the RECORDED namespace (what tree_transpose, tree_broadcast_*, unpickling consumers
   do with treespec.namespace) gives the same leaves and the same treespec, for every configuration,
   predicate and mode set (properties C13 "the results still round-trip", C03). *)
From OptreeModel Require Import Base Tree Flatten Unflatten.
From OptreeProofs Require Import BaseProofs RoundTrip TraversalProofs.

Definition set_ns (c : cfg) (n : Z) : cfg :=
  {| c_nil := c_nil c; c_ns := n; c_pred := c_pred c; c_reg := c_reg c; c_ins := c_ins c; c_limit := c_limit c |}.

Lemma set_ns_same c : set_ns c (c_ns c) = c.
Proof. destruct c; reflexivity. Qed.

Lemma flat_seq_false (f g : obj -> res fres) : forall l ls ns,
  (forall x ls ns, In x l -> f x = Ok (ls, ns, false) -> g x = Ok (ls, ns, false)) ->
  flat_seq f l = Ok (ls, ns, false) -> flat_seq g l = Ok (ls, ns, false).
Proof.
  induction l as [|x l IH]; intros ls ns H Hf; simpl in *; [exact Hf|].
  destruct (f x) as [[[ls1 ns1] b1]|] eqn:E1; cbn [bind] in Hf; [|discriminate].
  destruct (flat_seq f l) as [[[ls2 ns2] b2]|] eqn:E2; cbn [bind] in Hf; [|discriminate].
  injection Hf as <- <- Hb. apply orb_false_iff in Hb as [-> ->].
  rewrite (H x ls1 ns1 (or_introl eq_refl) E1). cbn [bind].
  rewrite (IH ls2 ns2 (fun y a b Hy => H y a b (or_intror Hy)) eq_refl). reflexivity.
Qed.

Lemma mk_node_found k ar d ent cu orig r ls ns b :
  mk_node k ar d ent cu orig r = (ls, ns, b) -> snd r = b.
Proof. destruct r as [[ls0 ns0] b0]. unfold mk_node. intros H. injection H as _ _ <-. reflexivity. Qed.

Lemma visit_keys_global c k ks : ins_ordered_here c = false -> visit_keys (set_ns c 0) k ks = visit_keys c k ks.
Proof.
  intros H. unfold visit_keys, ins_ordered, ins_ordered_here in *. cbn [set_ns c_ins c_ns]. rewrite H.
  destruct (Z_mem 0 (c_ins c)); reflexivity.
Qed.

(* no custom node found and the namespace's own flag off: the global namespace gives the same traversal *)
Lemma flat_global c : ins_ordered_here c = false -> forall fuel o ls ns,
  flat c fuel o = Ok (ls, ns, false) -> flat (set_ns c 0) fuel o = Ok (ls, ns, false).
Proof.
  intros Hh. induction fuel as [|fuel IH]; intros o ls ns H; [discriminate H|].
  cbn [flat] in *. change (apply_pred (set_ns c 0) o) with (apply_pred c o).
  destruct (apply_pred c o); [exact H|].
  destruct o as [x|h cs]; [exact H|].
  assert (Hseq : forall l a b, flat_seq (flat c fuel) l = Ok (a, b, false) -> flat_seq (flat (set_ns c 0) fuel) l = Ok (a, b, false)).
  { intros l a b. apply flat_seq_false. intros x a' b' _. apply IH. }
  destruct h as [| | |ks|ks|fa ks|m|cls|cls|cls meta eb]; cbn [get_kind set_ns c_nil] in *;
    try (destruct (c_nil c); exact H).
  - (* tuple *)
    destruct (flat_seq (flat c fuel) cs) as [[[a b] f]|] eqn:E; cbn [bind] in H; [|discriminate].
    injection H as <- <- ->. rewrite (Hseq cs a b E). reflexivity.
  - destruct (flat_seq (flat c fuel) cs) as [[[a b] f]|] eqn:E; cbn [bind] in H; [|discriminate].
    injection H as <- <- ->. rewrite (Hseq cs a b E). reflexivity.
  - (* dict *)
    cbn [hdr_keys] in *. rewrite (visit_keys_global c KdDict ks Hh).
    destruct (mapM (child_by_key ks cs) (visit_keys c KdDict ks)) as [ch|]; cbn [bind] in *; [|exact H].
    destruct (flat_seq (flat c fuel) ch) as [[[a b] f]|] eqn:E; cbn [bind] in H; [|discriminate].
    injection H as <- <- ->. rewrite (Hseq ch a b E). reflexivity.
  - cbn [hdr_keys] in *. rewrite (visit_keys_global c KdODict ks Hh).
    destruct (mapM (child_by_key ks cs) (visit_keys c KdODict ks)) as [ch|]; cbn [bind] in *; [|exact H].
    destruct (flat_seq (flat c fuel) ch) as [[[a b] f]|] eqn:E; cbn [bind] in H; [|discriminate].
    injection H as <- <- ->. rewrite (Hseq ch a b E). reflexivity.
  - cbn [hdr_keys] in *. rewrite (visit_keys_global c KdDDict ks Hh).
    destruct (mapM (child_by_key ks cs) (visit_keys c KdDDict ks)) as [ch|]; cbn [bind] in *; [|exact H].
    destruct (flat_seq (flat c fuel) ch) as [[[a b] f]|] eqn:E; cbn [bind] in H; [|discriminate].
    injection H as <- <- ->. rewrite (Hseq ch a b E). reflexivity.
  - destruct (flat_seq (flat c fuel) cs) as [[[a b] f]|] eqn:E; cbn [bind] in H; [|discriminate].
    injection H as <- <- ->. rewrite (Hseq cs a b E). reflexivity.
  - destruct (flat_seq (flat c fuel) cs) as [[[a b] f]|] eqn:E; cbn [bind] in H; [|discriminate].
    injection H as <- <- ->. rewrite (Hseq cs a b E). reflexivity.
  - destruct (flat_seq (flat c fuel) cs) as [[[a b] f]|] eqn:E; cbn [bind] in H; [|discriminate].
    injection H as <- <- ->. rewrite (Hseq cs a b E). reflexivity.
  - (* a class: registered => a custom node was found; unregistered => unregistered globally too *)
    unfold lookup_reg in *. cbn [set_ns c_ns c_reg] in *. rewrite Z.eqb_refl.
    assert (Hnone : (if Z.eqb (c_ns c) 0 then find_reg cls 0 (c_reg c)
                     else match find_reg cls (c_ns c) (c_reg c) with Some r => Some r | None => find_reg cls 0 (c_reg c) end) = None ->
                    find_reg cls 0 (c_reg c) = None).
    { destruct (Z.eqb (c_ns c) 0); [auto|]. destruct (find_reg cls (c_ns c) (c_reg c)); [discriminate | auto]. }
    destruct (if Z.eqb (c_ns c) 0 then find_reg cls 0 (c_reg c)
              else match find_reg cls (c_ns c) (c_reg c) with Some r => Some r | None => find_reg cls 0 (c_reg c) end) as [r|] eqn:El.
    + exfalso. destruct eb; try discriminate H;
        (destruct (flat_seq (flat c fuel) cs) as [[[a b] f]|]; cbn [bind] in H; [|discriminate H]);
        try (destruct (Nat.eqb _ _); [|discriminate H]); unfold mk_node in H; discriminate H.
    + rewrite (Hnone eq_refl). exact H.
Qed.

Theorem reflatten_under_recorded_namespace c o ls sp :
  flatten c o = Ok (ls, sp) -> flatten (set_ns c (sns sp)) o = Ok (ls, sp).
Proof.
  unfold flatten. intros H.
  destruct (flat c (S (c_limit c)) o) as [[[l n] b]|] eqn:E; cbn [bind] in H; [|discriminate].
  injection H as <- <-. cbn [sns]. unfold spec_ns.
  destruct (b || ins_ordered_here c) eqn:Hb.
  - rewrite set_ns_same, E. cbn [bind]. unfold spec_ns. rewrite Hb. reflexivity.
  - apply orb_false_iff in Hb as [-> Hh].
    change (c_limit (set_ns c 0)) with (c_limit c).
    rewrite (flat_global c Hh _ o l n E). cbn [bind]. unfold spec_ns. cbn [set_ns c_ns c_nil orb].
    destruct (ins_ordered_here (set_ns c 0)); reflexivity.
Qed.

(* with the round trip of C01: the rebuilt tree re-flattens under the recorded namespace *)
Theorem rebuilt_reflattens_under_recorded_namespace c o ls sp :
  wf_obj o = true -> flatten c o = Ok (ls, sp) ->
  exists o', unflatten sp ls = Ok o' /\ flatten (set_ns c (sns sp)) o' = Ok (ls, sp).
Proof.
  intros W H. exists o. split; [exact (unflatten_flatten c o ls sp W H)|].
  exact (reflatten_under_recorded_namespace c o ls sp H).
Qed.

(* the with-path traversal records the same namespace: its result re-flattens under it as well *)
Theorem with_path_reflattens_under_recorded_namespace c o ps ls sp :
  flatten_with_path c o = Ok (ps, ls, sp) ->
  exists ps', flatten_with_path (set_ns c (sns sp)) o = Ok (ps', ls, sp) /\ length ps' = length ls.
Proof.
  intros H. apply with_path_agrees in H. apply reflatten_under_recorded_namespace in H.
  exact (with_path_agrees_conv _ _ _ _ H).
Qed.
