(* ArrayProofs.v — the backwards index walk over the node array finds exactly the encodings of the
   children of the structured treespec (array level = tree level for Children()). *)
From OptreeModel Require Import Base Tree Flatten Unflatten Spec ArraySpec.
From OptreeProofs Require Import BaseProofs RoundTrip SpecProofs.

Lemma slice_middle {A} (x y z : list A) : slice (x ++ y ++ z) (length x) (length x + length y) = y.
Proof.
  unfold slice. rewrite skipn_app, skipn_all, Nat.sub_diag. simpl.
  replace (length x + length y - length x)%nat with (length y) by lia.
  rewrite firstn_app, firstn_all, Nat.sub_diag. simpl. apply app_nil_r.
Qed.

Lemma encode_root t : exists front, encode t = front ++ [st_node t].
Proof. destruct t as [n cs]. simpl. eauto. Qed.

Lemma nth_error_last_of {A} (x front : list A) (n : A) (z : list A) :
  nth_error (x ++ (front ++ [n]) ++ z) (length x + length front) = Some n.
Proof.
  rewrite nth_error_app2 by lia. replace (length x + length front - length x)%nat with (length front) by lia.
  rewrite nth_error_app1 by (rewrite app_length; simpl; lia).
  rewrite nth_error_app2 by lia. rewrite Nat.sub_diag. reflexivity.
Qed.

(* invariant of the walk: the children already cut off are [post]; [pre] remain *)
Lemma go_step a i p nd acc :
  nth_error a p = Some nd -> (nnodes nd <= S p)%nat ->
  arr_children_go a (S i) (S p) acc =
  arr_children_go a i (S p - nnodes nd) (slice a (S p - nnodes nd) (S p) :: acc).
Proof.
  intros Hn Hle. cbn [arr_children_go]. rewrite Hn.
  replace (Nat.ltb (S p) (nnodes nd)) with false by (symmetry; apply Nat.ltb_ge; exact Hle). reflexivity.
Qed.

Lemma arr_children_go_spec n : forall pre post,
  forallb wf_stree pre = true ->
  arr_children_go (flat_map encode (pre ++ post) ++ [n]) (length pre)
                  (length (flat_map encode pre)) (map encode post)
  = Ok (map encode (pre ++ post)).
Proof.
  intros pre. induction pre as [|c pre IH] using rev_ind; intros post Hwf.
  - simpl. reflexivity.
  - rewrite forallb_app in Hwf. apply andb_true_iff in Hwf as [Hwp Hwc]. simpl in Hwc. rewrite andb_true_r in Hwc.
    destruct (encode_root c) as (front & Hfront).
    assert (Hlen : nnodes (st_node c) = length (encode c)) by (symmetry; apply encode_length; exact Hwc).
    set (X := flat_map encode pre). set (Z := flat_map encode post ++ [n]).
    assert (Harr : flat_map encode ((pre ++ [c]) ++ post) ++ [n] = X ++ encode c ++ Z).
    { unfold X, Z. rewrite !flat_map_app. simpl. rewrite app_nil_r, <- !app_assoc. reflexivity. }
    assert (Hpos : length (flat_map encode (pre ++ [c])) = S (length X + length front)).
    { rewrite flat_map_app. simpl. rewrite app_nil_r, app_length, Hfront, app_length. fold X. simpl. lia. }
    assert (Hi : length (pre ++ [c]) = S (length pre)) by (rewrite app_length; simpl; lia).
    rewrite Hi, Hpos, Harr.
    rewrite (go_step _ (length pre) (length X + length front) (st_node c)).
    + rewrite Hlen.
      assert (Hl : length (encode c) = S (length front)) by (rewrite Hfront, app_length; simpl; lia).
      replace (S (length X + length front) - length (encode c))%nat with (length X) by lia.
      replace (S (length X + length front)) with (length X + length (encode c))%nat by lia.
      rewrite slice_middle.
      specialize (IH (c :: post) Hwp). rewrite <- Harr.
      replace ((pre ++ [c]) ++ post) with (pre ++ c :: post) by (rewrite <- app_assoc; reflexivity).
      exact IH.
    + rewrite Hfront. apply nth_error_last_of.
    + rewrite Hlen, Hfront, app_length. simpl. lia.
Qed.

(* PyTreeSpec::Children on the array of any well-formed treespec returns the arrays of its children,
   in order — and never reports an internal error *)
Theorem arr_children_spec t :
  wf_stree t = true -> arr_children (encode t) = Ok (map encode (st_children t)).
Proof.
  destruct t as [n cs]. intros Hwf. unfold arr_children. cbn [encode st_children].
  rewrite rev_app_distr. simpl.
  simpl in Hwf. apply andb_true_iff in Hwf as [Hwf Hcs]. apply andb_true_iff in Hwf as [Hwf _].
  apply andb_true_iff in Hwf as [Har _]. apply Nat.eqb_eq in Har.
  rewrite Har, app_length. simpl. rewrite Nat.add_sub.
  pose proof (arr_children_go_spec n cs [] Hcs) as Hgo. rewrite !app_nil_r in Hgo. exact Hgo.
Qed.
