(* RoundTrip.v — unflatten (flatten t) = t  (property C01), by the stack lemma. *)
From OptreeModel Require Import Base Tree Flatten Unflatten.
From OptreeProofs Require Import BaseProofs.
From Coq Require Import Permutation.

(* ---------- dict_set / dict_build ---------- *)
Lemma dict_set_fst_in {V} (d : list (key * V)) k v :
  In k (map fst d) -> map fst (dict_set d k v) = map fst d.
Proof.
  induction d as [|[k' v'] d IH]; simpl; [tauto|]. intros H.
  destruct (key_eqb k k') eqn:E; simpl; [reflexivity|]. f_equal. apply IH.
  apply key_eqb_neq in E. destruct H; [congruence | assumption].
Qed.

Lemma dict_set_fst_notin {V} (d : list (key * V)) k v :
  ~ In k (map fst d) -> map fst (dict_set d k v) = map fst d ++ [k].
Proof.
  induction d as [|[k' v'] d IH]; simpl; [reflexivity|]. intros H.
  destruct (key_eqb k k') eqn:E; simpl.
  - apply key_eqb_eq in E. subst. exfalso. apply H. auto.
  - f_equal. apply IH. tauto.
Qed.

Lemma lookup_dict_set {V} (d : list (key * V)) k v k' :
  lookup k' (dict_set d k v) = if key_eqb k' k then Some v else lookup k' d.
Proof.
  induction d as [|[k0 v0] d IH]; simpl; [reflexivity|].
  destruct (key_eqb k k0) eqn:E; simpl.
  - apply key_eqb_eq in E. subst. destruct (key_eqb k' k0); reflexivity.
  - rewrite IH. destruct (key_eqb k' k0) eqn:E0; [|reflexivity].
    apply key_eqb_eq in E0. subst. rewrite (proj2 (key_eqb_neq k0 k)); [reflexivity|].
    apply key_eqb_neq in E. congruence.
Qed.

Lemma dict_set_all_fst_fresh {V} (kvs : list (key * V)) : forall d,
  NoDup (map fst d ++ map fst kvs) ->
  map fst (dict_set_all d kvs) = map fst d ++ map fst kvs.
Proof.
  induction kvs as [|[k v] kvs IH]; intros d H; simpl; [rewrite app_nil_r; reflexivity|].
  simpl in H. assert (Hn : ~ In k (map fst d)).
  { apply NoDup_remove_2 in H. intros Hin. apply H. apply in_or_app. auto. }
  rewrite IH; rewrite dict_set_fst_notin by exact Hn; rewrite <- app_assoc; simpl; [reflexivity|].
  exact H.
Qed.

Lemma dict_set_all_fst_present {V} (kvs : list (key * V)) : forall d,
  (forall k, In k (map fst kvs) -> In k (map fst d)) ->
  map fst (dict_set_all d kvs) = map fst d.
Proof.
  induction kvs as [|[k v] kvs IH]; intros d H; simpl; [reflexivity|].
  assert (Hk : In k (map fst d)) by (apply H; simpl; auto).
  rewrite IH; rewrite dict_set_fst_in by exact Hk; [reflexivity|].
  intros k' Hk'. apply H. simpl. auto.
Qed.

Lemma lookup_dict_set_all {V} (kvs : list (key * V)) : forall d k,
  NoDup (map fst kvs) ->
  lookup k (dict_set_all d kvs) =
  match lookup k kvs with Some v => Some v | None => lookup k d end.
Proof.
  induction kvs as [|[k0 v0] kvs IH]; intros d k Hnd; simpl; [reflexivity|].
  simpl in Hnd. inversion Hnd as [|? ? Hnin Hnd']; subst.
  rewrite IH by exact Hnd'. rewrite lookup_dict_set.
  destruct (key_eqb k k0) eqn:E; [|reflexivity].
  apply key_eqb_eq in E. subst.
  rewrite (proj2 (lookup_None_notin k0 kvs) Hnin). reflexivity.
Qed.

Lemma mapM_child_by_key ks cs vks ch :
  mapM (child_by_key ks cs) vks = Ok ch ->
  length ch = length vks /\
  (forall k, In k vks -> lookup k (combine vks ch) = lookup k (combine ks cs)) /\
  (forall o, In o ch -> In o cs).
Proof.
  revert ch; induction vks as [|k vks IH]; intros ch H; simpl in H.
  - injection H as <-. repeat split; simpl; tauto.
  - unfold child_by_key at 1 in H. destruct (lookup k (combine ks cs)) as [o|] eqn:El; simpl in H;
      [|discriminate].
    destruct (mapM (child_by_key ks cs) vks) as [ch'|] eqn:Em; simpl in H; [|discriminate].
    injection H as <-. destruct (IH ch' eq_refl) as (Hl & Hk & Hi). repeat split.
    + simpl. congruence.
    + intros k' Hin. simpl. destruct (key_eqb k' k) eqn:E.
      * apply key_eqb_eq in E. subst. symmetry. exact El.
      * apply key_eqb_neq in E. destruct Hin; [congruence | auto].
    + intros o' [<-|Hin]; [|auto].
      clear - El. revert cs El. induction ks as [|x ks IH]; intros [|c cs]; simpl; try discriminate.
      destruct (key_eqb k x); [intros [= ->]; auto | intros; right; eauto].
Qed.

Lemma dict_build_roundtrip ks cs vks ch orig :
  NoDup ks -> length ks = length cs -> Permutation vks ks ->
  mapM (child_by_key ks cs) vks = Ok ch ->
  (orig = Some ks \/ (orig = None /\ vks = ks)) ->
  dict_build orig vks ch = combine ks cs.
Proof.
  intros Hnd Hlen Hperm Hm Horig.
  destruct (mapM_child_by_key _ _ _ _ Hm) as (Hl & Hk & _).
  assert (Hndv : NoDup vks) by (eapply Permutation_NoDup; [symmetry; exact Hperm | exact Hnd]).
  assert (Hfv : map fst (combine vks ch) = vks) by (apply map_fst_combine; congruence).
  assert (Hfk : map fst (combine ks cs) = ks) by (apply map_fst_combine; exact Hlen).
  assert (Hfst : map fst (dict_build orig vks ch) = ks).
  { unfold dict_build. destruct Horig as [-> | [-> ->]].
    - rewrite dict_set_all_fst_present.
      + rewrite dict_set_all_fst_fresh; simpl; rewrite map_map; simpl; rewrite map_id; auto.
      + intros k Hin. rewrite Hfv in Hin.
        rewrite dict_set_all_fst_fresh; simpl; rewrite map_map; simpl; rewrite map_id; auto.
        eapply Permutation_in; eauto.
    - rewrite dict_set_all_fst_fresh; simpl; rewrite Hfv; auto. }
  apply assoc_ext.
  - rewrite Hfst, Hfk. reflexivity.
  - rewrite Hfst. exact Hnd.
  - rewrite Hfst. intros k Hin. unfold dict_build.
    rewrite lookup_dict_set_all by (rewrite Hfv; exact Hndv).
    assert (Hinv : In k vks) by (eapply Permutation_in; [symmetry; exact Hperm | exact Hin]).
    rewrite (Hk k Hinv).
    destruct (lookup k (combine ks cs)) eqn:E; [reflexivity|].
    apply lookup_None_notin in E. rewrite Hfk in E. contradiction.
Qed.

(* ---------- the stack machine ---------- *)
Lemma firstn_rev_app {A} (l st : list A) : firstn (length l) (rev l ++ st) = rev l.
Proof. rewrite <- (rev_length l). rewrite firstn_app, Nat.sub_diag, firstn_all. simpl. apply app_nil_r. Qed.
Lemma skipn_rev_app {A} (l st : list A) : skipn (length l) (rev l ++ st) = st.
Proof. rewrite <- (rev_length l). rewrite skipn_app, Nat.sub_diag, skipn_all. reflexivity. Qed.

Lemma unflat_node n ns' leaves ch st o :
  nkind n <> KdLeaf -> narity n = length ch -> make_node n ch = Ok o ->
  unflat (n :: ns') leaves (rev ch ++ st) = unflat ns' leaves (o :: st).
Proof.
  intros Hk Ha Hm. simpl. rewrite Ha.
  assert (Hlt : Nat.ltb (length (rev ch ++ st)) (length ch) = false).
  { apply Nat.ltb_ge. rewrite app_length, rev_length. lia. }
  rewrite Hlt, firstn_rev_app, skipn_rev_app, rev_involutive, Hm. simpl.
  destruct (nkind n); try reflexivity. congruence.
Qed.

Lemma unflat_leaf ns' o leaves st :
  unflat (leaf_node :: ns') (o :: leaves) st = unflat ns' leaves (o :: st).
Proof. reflexivity. Qed.

Definition r_ls (r : fres) := fst (fst r).
Definition r_ns (r : fres) := snd (fst r).

Definition unflat_ok (o : obj) (r : fres) : Prop :=
  forall rn rl st, unflat (r_ns r ++ rn) (r_ls r ++ rl) st = unflat rn rl (o :: st).

Lemma flat_seq_unflat (f : obj -> res fres) cs :
  (forall o r, In o cs -> f o = Ok r -> unflat_ok o r) ->
  forall r, flat_seq f cs = Ok r ->
  forall rn rl st, unflat (r_ns r ++ rn) (r_ls r ++ rl) st = unflat rn rl (rev cs ++ st).
Proof.
  induction cs as [|x cs IH]; intros Hf r Hr rn rl st; simpl in Hr.
  - injection Hr as <-. reflexivity.
  - destruct (f x) as [[[ls1 ns1] b1]|] eqn:E1; simpl in Hr; [|discriminate].
    destruct (flat_seq f cs) as [[[ls2 ns2] b2]|] eqn:E2; simpl in Hr; [|discriminate].
    injection Hr as <-. unfold r_ns, r_ls. simpl. rewrite <- !app_assoc.
    pose proof (Hf x _ (or_introl eq_refl) E1 (ns2 ++ rn) (ls2 ++ rl) st) as H1.
    unfold r_ns, r_ls in H1. simpl in H1. rewrite H1.
    pose proof (IH (fun o r H => Hf o r (or_intror H)) _ eq_refl rn rl (x :: st)) as H2.
    unfold r_ns, r_ls in H2. simpl in H2. rewrite H2.
    reflexivity.
Qed.

Lemma mk_node_eq k ar d ent cu orig ls ns b :
  mk_node k ar d ent cu orig (ls, ns, b) =
  (ls, ns ++ [{| nkind := k; narity := ar; ndat := d; nentries := ent; ncustom := cu;
                 nleaves := length ls; nnodes := S (length ns); norig := orig |}], b).
Proof. reflexivity. Qed.

Lemma find_reg_cls cls ns l r : find_reg cls ns l = Some r -> rcls r = cls.
Proof.
  induction l as [|x l IH]; simpl; [discriminate|].
  destruct (Z.eqb (rcls x) cls && Z.eqb (rns x) ns) eqn:E; [|exact IH].
  intros [= <-]. apply andb_true_iff in E as [E _]. apply Z.eqb_eq. exact E.
Qed.

Lemma lookup_reg_cls c cls r : lookup_reg c cls = Some r -> rcls r = cls.
Proof.
  unfold lookup_reg. destruct (Z.eqb (c_ns c) 0); [apply find_reg_cls|].
  destruct (find_reg cls (c_ns c) (c_reg c)) eqn:E; [intros [= <-]; eapply find_reg_cls; eauto|].
  apply find_reg_cls.
Qed.

Lemma visit_keys_perm c k ks : Permutation (visit_keys c k ks) ks.
Proof.
  unfold visit_keys. destruct k; try (destruct (ins_ordered c); [reflexivity | apply total_order_sort_perm]).
  reflexivity.
Qed.

Lemma forallb_In {A} (p : A -> bool) l x : forallb p l = true -> In x l -> p x = true.
Proof. intros H Hin. rewrite forallb_forall in H. auto. Qed.

(* one node: children done, emit the node *)
Ltac finish_node :=
  match goal with
  | |- unflat ((?ns ++ [?n]) ++ ?rn) (?ls ++ ?rl) ?st = _ =>
    rewrite <- (app_assoc ns [n] rn); simpl app
  end.

Theorem flat_unflat c fuel : forall o r,
  wf_obj o = true -> flat c fuel o = Ok r -> unflat_ok o r.
Proof.
  induction fuel as [|fuel IH]; intros o r Hwf Hr; [discriminate|].
  simpl in Hr.
  destruct (apply_pred c o).
  { injection Hr as <-. intros rn rl st. reflexivity. }
  destruct o as [id|h cs].
  { simpl in Hr. injection Hr as <-. intros rn rl st. reflexivity. }
  simpl in Hwf. apply andb_true_iff in Hwf as [Hwh Hwcs].
  assert (IHcs : forall o r, In o cs -> flat c fuel o = Ok r -> unflat_ok o r).
  { intros o r0 Hin. apply IH. eapply forallb_In; eauto. }
  pose proof (flat_seq_unflat (flat c fuel) cs IHcs) as Hseq.
  destruct (get_kind c (Node h cs)) as [k cu] eqn:Ek.
  destruct h as [| | |ks|ks|fac ks|m|cls|cls|cls meta eb]; simpl in Ek.
  - (* None *)
    destruct (c_nil c); injection Ek as <- <-.
    + injection Hr as <-. intros rn rl st. reflexivity.
    + injection Hr as <-. intros rn rl st. simpl in Hwh. apply Nat.eqb_eq in Hwh.
      destruct cs; [|discriminate]. reflexivity.
  - (* tuple *)
    injection Ek as <- <-.
    destruct (flat_seq (flat c fuel) cs) as [[[ls ns] b]|] eqn:E; simpl in Hr; [|discriminate].
    injection Hr as <-. intros rn rl st. unfold r_ns, r_ls. simpl. finish_node.
    rewrite (Hseq _ eq_refl). apply unflat_node; simpl; [discriminate | reflexivity|].
    unfold make_node. simpl. rewrite Nat.eqb_refl. reflexivity.
  - (* list *)
    injection Ek as <- <-.
    destruct (flat_seq (flat c fuel) cs) as [[[ls ns] b]|] eqn:E; simpl in Hr; [|discriminate].
    injection Hr as <-. intros rn rl st. unfold r_ns, r_ls. simpl. finish_node.
    rewrite (Hseq _ eq_refl). apply unflat_node; simpl; [discriminate | reflexivity|].
    unfold make_node. simpl. rewrite Nat.eqb_refl. reflexivity.
  - (* dict *)
    injection Ek as <- <-. simpl in Hr, Hwh.
    apply andb_true_iff in Hwh as [Hlen Hnd]. apply Nat.eqb_eq in Hlen. apply keys_nodup_NoDup in Hnd.
    change (if ins_ordered c then ks else total_order_sort ks) with (visit_keys c KdDict ks) in Hr.
    destruct (mapM (child_by_key ks cs) (visit_keys c KdDict ks)) as [ch|] eqn:Em; simpl in Hr; [|discriminate].
    destruct (flat_seq (flat c fuel) ch) as [[[ls ns] b]|] eqn:E; simpl in Hr; [|discriminate].
    injection Hr as <-. intros rn rl st. unfold r_ns, r_ls. simpl. finish_node.
    destruct (mapM_child_by_key _ _ _ _ Em) as (Hl & _ & Hin).
    rewrite (flat_seq_unflat (flat c fuel) ch (fun o r H => IHcs o r (Hin o H)) _ E).
    apply unflat_node; simpl; [discriminate | |].
    + rewrite Hl. apply Permutation_length. symmetry. apply visit_keys_perm.
    + unfold make_node. cbn [narity nkind ndat norig].
      assert (Hlc : length ch = length ks).
      { rewrite Hl. apply Permutation_length. apply visit_keys_perm. }
      rewrite Hlc, Nat.eqb_refl. cbn [negb].
      change (if ins_ordered c then ks else total_order_sort ks) with (visit_keys c KdDict ks).
      rewrite (dict_build_roundtrip ks cs _ ch (Some ks) Hnd Hlen (visit_keys_perm c KdDict ks) Em) by auto.
      rewrite map_fst_combine, map_snd_combine by exact Hlen. reflexivity.
  - (* OrderedDict *)
    injection Ek as <- <-. simpl in Hr, Hwh.
    apply andb_true_iff in Hwh as [Hlen Hnd]. apply Nat.eqb_eq in Hlen. apply keys_nodup_NoDup in Hnd.
    destruct (mapM (child_by_key ks cs) ks) as [ch|] eqn:Em; simpl in Hr; [|discriminate].
    destruct (flat_seq (flat c fuel) ch) as [[[ls ns] b]|] eqn:E; simpl in Hr; [|discriminate].
    injection Hr as <-. intros rn rl st. unfold r_ns, r_ls. simpl. finish_node.
    destruct (mapM_child_by_key _ _ _ _ Em) as (Hl & _ & Hin).
    rewrite (flat_seq_unflat (flat c fuel) ch (fun o r H => IHcs o r (Hin o H)) _ E).
    apply unflat_node; simpl; [discriminate | congruence |].
    unfold make_node. cbn [narity nkind ndat norig]. rewrite Hl, Nat.eqb_refl. cbn [negb].
    rewrite (dict_build_roundtrip ks cs ks ch None Hnd Hlen (Permutation_refl _) Em) by auto.
    rewrite map_fst_combine, map_snd_combine by exact Hlen. reflexivity.
  - (* defaultdict *)
    injection Ek as <- <-. simpl in Hr, Hwh.
    apply andb_true_iff in Hwh as [Hlen Hnd]. apply Nat.eqb_eq in Hlen. apply keys_nodup_NoDup in Hnd.
    change (if ins_ordered c then ks else total_order_sort ks) with (visit_keys c KdDDict ks) in Hr.
    destruct (mapM (child_by_key ks cs) (visit_keys c KdDDict ks)) as [ch|] eqn:Em; simpl in Hr; [|discriminate].
    destruct (flat_seq (flat c fuel) ch) as [[[ls ns] b]|] eqn:E; simpl in Hr; [|discriminate].
    injection Hr as <-. intros rn rl st. unfold r_ns, r_ls. simpl. finish_node.
    destruct (mapM_child_by_key _ _ _ _ Em) as (Hl & _ & Hin).
    rewrite (flat_seq_unflat (flat c fuel) ch (fun o r H => IHcs o r (Hin o H)) _ E).
    apply unflat_node; simpl; [discriminate | |].
    + rewrite Hl. apply Permutation_length. symmetry. apply visit_keys_perm.
    + unfold make_node. cbn [narity nkind ndat norig].
      assert (Hlc : length ch = length ks).
      { rewrite Hl. apply Permutation_length. apply visit_keys_perm. }
      rewrite Hlc, Nat.eqb_refl. cbn [negb].
      change (if ins_ordered c then ks else total_order_sort ks) with (visit_keys c KdDict ks).
      rewrite (dict_build_roundtrip ks cs _ ch (Some ks) Hnd Hlen (visit_keys_perm c KdDict ks) Em) by auto.
      rewrite map_fst_combine, map_snd_combine by exact Hlen. reflexivity.
  - (* deque *)
    injection Ek as <- <-.
    destruct (flat_seq (flat c fuel) cs) as [[[ls ns] b]|] eqn:E; simpl in Hr; [|discriminate].
    injection Hr as <-. intros rn rl st. unfold r_ns, r_ls. simpl. finish_node.
    rewrite (Hseq _ eq_refl). apply unflat_node; simpl; [discriminate | reflexivity|].
    unfold make_node. simpl. rewrite Nat.eqb_refl. reflexivity.
  - (* namedtuple *)
    injection Ek as <- <-.
    destruct (flat_seq (flat c fuel) cs) as [[[ls ns] b]|] eqn:E; simpl in Hr; [|discriminate].
    injection Hr as <-. intros rn rl st. unfold r_ns, r_ls. simpl. finish_node.
    rewrite (Hseq _ eq_refl). apply unflat_node; simpl; [discriminate | reflexivity|].
    unfold make_node. simpl. rewrite Nat.eqb_refl. reflexivity.
  - (* struct sequence *)
    injection Ek as <- <-.
    destruct (flat_seq (flat c fuel) cs) as [[[ls ns] b]|] eqn:E; simpl in Hr; [|discriminate].
    injection Hr as <-. intros rn rl st. unfold r_ns, r_ls. simpl. finish_node.
    rewrite (Hseq _ eq_refl). apply unflat_node; simpl; [discriminate | reflexivity|].
    unfold make_node. simpl. rewrite Nat.eqb_refl. reflexivity.
  - (* custom *)
    destruct (lookup_reg c cls) as [rg|] eqn:El; injection Ek as <- <-.
    2:{ injection Hr as <-. intros rn rl st. reflexivity. }
    apply lookup_reg_cls in El.
    destruct eb as [| |es|n|e]; try discriminate;
      destruct (flat_seq (flat c fuel) cs) as [[[ls ns] b]|] eqn:E; simpl in Hr; try discriminate.
    + injection Hr as <-. intros rn rl st. unfold r_ns, r_ls. simpl. finish_node.
      rewrite (Hseq _ eq_refl). apply unflat_node; simpl; [discriminate | reflexivity|].
      unfold make_node. simpl. rewrite Nat.eqb_refl. simpl. rewrite El. reflexivity.
    + injection Hr as <-. intros rn rl st. unfold r_ns, r_ls. simpl. finish_node.
      rewrite (Hseq _ eq_refl). apply unflat_node; simpl; [discriminate | reflexivity|].
      unfold make_node. simpl. rewrite Nat.eqb_refl. simpl. rewrite El. reflexivity.
    + destruct (Nat.eqb (length es) (length cs)); [|discriminate].
      injection Hr as <-. intros rn rl st. unfold r_ns, r_ls. simpl. finish_node.
      rewrite (Hseq _ eq_refl). apply unflat_node; simpl; [discriminate | reflexivity|].
      unfold make_node. simpl. rewrite Nat.eqb_refl. simpl. rewrite El. reflexivity.
Qed.

(* the array flatten produces always ends in a node whose num_nodes is the array length *)
Lemma flat_sanity c fuel o r :
  flat c fuel o = Ok r -> r_ns r <> [] /\ last_nnodes (r_ns r) = length (r_ns r).
Proof.
  assert (Hlast : forall (ns : list node) n, nnodes n = S (length ns) ->
            ns ++ [n] <> [] /\ last_nnodes (ns ++ [n]) = length (ns ++ [n])).
  { intros ns n Hn. split; [destruct ns; discriminate|].
    unfold last_nnodes. rewrite rev_app_distr. simpl. rewrite app_length. simpl. lia. }
  assert (Hleaf : [leaf_node] <> [] /\ last_nnodes [leaf_node] = length [leaf_node])
    by (split; [discriminate | reflexivity]).
  destruct fuel as [|fuel]; [discriminate|]. simpl.
  destruct (apply_pred c o); [intros [= <-]; exact Hleaf|].
  destruct (get_kind c o) as [k cu]. destruct o as [id|h cs]; [intros [= <-]; exact Hleaf|].
  destruct k.
  - destruct h; try discriminate. destruct eb; try discriminate;
      (destruct (flat_seq (flat c fuel) cs) as [[[ls ns] b]|]; simpl; [|discriminate]).
    + intros [= <-]. apply Hlast. reflexivity.
    + intros [= <-]. apply Hlast. reflexivity.
    + destruct (Nat.eqb (length es) (length cs)); [|discriminate].
      intros [= <-]. apply Hlast. reflexivity.
  - intros [= <-]; exact Hleaf.
  - intros [= <-]. apply (Hlast [] _). reflexivity.
  - destruct (flat_seq (flat c fuel) cs) as [[[ls ns] b]|]; simpl; [|discriminate].
    intros [= <-]. apply Hlast. reflexivity.
  - destruct (flat_seq (flat c fuel) cs) as [[[ls ns] b]|]; simpl; [|discriminate].
    intros [= <-]. apply Hlast. reflexivity.
  - destruct (hdr_keys h); [|discriminate].
    destruct (mapM _ _); simpl; [|discriminate].
    destruct (flat_seq (flat c fuel) _) as [[[ls ns] b]|]; simpl; [|discriminate].
    intros [= <-]. apply Hlast. reflexivity.
  - destruct (flat_seq (flat c fuel) cs) as [[[ls ns] b]|]; simpl; [|discriminate].
    intros [= <-]. apply Hlast. reflexivity.
  - destruct (hdr_keys h); [|discriminate].
    destruct (mapM _ _); simpl; [|discriminate].
    destruct (flat_seq (flat c fuel) _) as [[[ls ns] b]|]; simpl; [|discriminate].
    intros [= <-]. apply Hlast. reflexivity.
  - destruct (hdr_keys h); [|discriminate].
    destruct (mapM _ _); simpl; [|discriminate].
    destruct (flat_seq (flat c fuel) _) as [[[ls ns] b]|]; simpl; [|discriminate].
    intros [= <-]. apply Hlast. reflexivity.
  - destruct (flat_seq (flat c fuel) cs) as [[[ls ns] b]|]; simpl; [|discriminate].
    intros [= <-]. apply Hlast. reflexivity.
  - destruct (flat_seq (flat c fuel) cs) as [[[ls ns] b]|]; simpl; [|discriminate].
    intros [= <-]. apply Hlast. reflexivity.
Qed.

Theorem unflatten_flatten c o ls sp :
  wf_obj o = true -> flatten c o = Ok (ls, sp) -> unflatten sp ls = Ok o.
Proof.
  unfold flatten, unflatten. intros Hwf H.
  destruct (flat c (S (c_limit c)) o) as [[[ls' ns] b]|] eqn:E; [|discriminate].
  cbn [bind] in H. injection H as <- <-. unfold sanity. cbn [trav].
  destruct (flat_sanity _ _ _ _ E) as [Hne Hlast]. unfold r_ns in Hne, Hlast. cbn [fst snd] in Hne, Hlast.
  destruct ns as [|n0 ns0]; [congruence|]. rewrite Hlast, Nat.eqb_refl.
  pose proof (flat_unflat c _ o _ Hwf E [] [] []) as H. unfold r_ns, r_ls in H. cbn [fst snd] in H.
  rewrite !app_nil_r in H. exact H.
Qed.

Theorem reflatten c o o' ls sp :
  wf_obj o = true -> flatten c o = Ok (ls, sp) -> unflatten sp ls = Ok o' ->
  flatten c o' = Ok (ls, sp).
Proof.
  intros Hwf Hf Hu. rewrite (unflatten_flatten c o ls sp Hwf Hf) in Hu. injection Hu as <-. exact Hf.
Qed.
