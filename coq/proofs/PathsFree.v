(* PathsFree.v — paths of distinct leaves are distinct and none is a prefix of another (property C04),
   for every treespec whose nodes have pairwise distinct entries; and every treespec flatten produces
   from a tree whose custom nodes declare distinct entries is such a treespec. *)
From OptreeModel Require Import Base Tree Flatten Unflatten Spec Accessor.
From OptreeProofs Require Import BaseProofs RoundTrip SpecProofs TraversalProofs EqProofs.
From Coq Require Import Permutation.

Definition is_prefix_of (p q : path) : Prop := exists r, q = p ++ r.

(* no path is a prefix of a path at another position (in particular no two are equal) *)
Definition prefix_free (ps : list path) : Prop :=
  ForallOrdPairs (fun p q => ~ is_prefix_of p q /\ ~ is_prefix_of q p) ps.

Fixpoint entries_nodup (t : stree) : bool :=
  match t with T n cs => keys_nodup (node_entries n) && forallb entries_nodup cs end.

Lemma paths_go_heads es : forall cs p, In p (paths_go es cs) -> exists e r, p = e :: r /\ In e es.
Proof.
  induction es as [|e es IH]; intros [|c cs] p Hp; simpl in Hp; try contradiction.
  apply in_app_or in Hp as [Hp|Hp].
  - apply in_map_iff in Hp as (r & <- & _). exists e, r. split; [reflexivity | left; reflexivity].
  - destruct (IH cs p Hp) as (e' & r & -> & Hin). exists e', r. split; [reflexivity | right; exact Hin].
Qed.

Lemma prefix_cons e p q : is_prefix_of (e :: p) (e :: q) <-> is_prefix_of p q.
Proof.
  split; intros (r & H); exists r; [injection H as ->; reflexivity | rewrite H; reflexivity].
Qed.

Lemma prefix_free_map_cons e ps : prefix_free ps -> prefix_free (map (cons e) ps).
Proof.
  unfold prefix_free. induction 1 as [|p ps Hp _ IH]; simpl; constructor.
  - apply Forall_forall. intros q Hq. apply in_map_iff in Hq as (q' & <- & Hq').
    rewrite Forall_forall in Hp. destruct (Hp q' Hq') as [H1 H2]. rewrite !prefix_cons. auto.
  - exact IH.
Qed.

Lemma prefix_free_app ps qs :
  prefix_free ps -> prefix_free qs ->
  (forall p q, In p ps -> In q qs -> ~ is_prefix_of p q /\ ~ is_prefix_of q p) ->
  prefix_free (ps ++ qs).
Proof.
  unfold prefix_free. intros Hp Hq Hx. induction Hp as [|p ps Hpp _ IH]; simpl; [exact Hq|].
  constructor.
  - apply Forall_app. split; [exact Hpp|]. apply Forall_forall. intros q Hin. apply Hx; [left; reflexivity | exact Hin].
  - apply IH. intros p' q Hp' Hq'. apply Hx; [right; exact Hp' | exact Hq'].
Qed.

Lemma paths_go_free es : forall cs,
  NoDup es -> Forall (fun c => prefix_free (st_paths c)) cs -> prefix_free (paths_go es cs).
Proof.
  induction es as [|e es IH]; intros [|c cs] Hnd Hf; simpl; try constructor.
  inversion Hnd as [|? ? Hnin Hnd']; subst. inversion Hf as [|? ? Hc Hcs]; subst.
  apply prefix_free_app.
  - apply prefix_free_map_cons. exact Hc.
  - apply IH; assumption.
  - intros p q Hp Hq. apply in_map_iff in Hp as (p' & <- & _).
    destruct (paths_go_heads es cs q Hq) as (e' & r & -> & Hin).
    assert (Hne : e <> e') by (intros ->; contradiction).
    split; intros (s & Hs); simpl in Hs; injection Hs as Hs _; congruence.
Qed.

(* for every treespec whose nodes have pairwise distinct entries *)
Theorem paths_prefix_free t : entries_nodup t = true -> prefix_free (st_paths t).
Proof.
  induction t as [n cs IH] using stree_ind'. intros H. simpl in H. apply andb_true_iff in H as [Hn Hc].
  rewrite st_paths_unfold. destruct (is_leaf_node n).
  - constructor; constructor.
  - apply paths_go_free; [apply keys_nodup_NoDup; exact Hn|].
    apply Forall_forall. intros c Hin. rewrite Forall_forall in IH. apply IH; [exact Hin|].
    eapply forallb_In; eauto.
Qed.

(* ---------- flatten produces such treespecs ---------- *)
Definition EEnc (r : fres) : Prop :=
  exists t, r_ns r = encode t /\ arity_ok t = true /\ entries_nodup t = true.

Lemma pos_keys_bounds n : forall s k, In k (pos_keys n s) -> exists z, k = KInt z /\ (s <= z)%Z.
Proof.
  induction n as [|n IH]; intros s k H; simpl in H; [contradiction|].
  destruct H as [<-|H]; [exists s; split; [reflexivity | lia]|].
  destruct (IH _ _ H) as (z & -> & Hz). exists z. split; [reflexivity | lia].
Qed.

Lemma pos_keys_nodup n : forall s, NoDup (pos_keys n s).
Proof.
  induction n as [|n IH]; intros s; simpl; constructor; [|apply IH].
  intros H. destruct (pos_keys_bounds n (s + 1) _ H) as (z & Hz & Hle). injection Hz as <-. lia.
Qed.

Lemma flat_seq_eenc (f : obj -> res fres) ch :
  (forall x r, In x ch -> f x = Ok r -> EEnc r) ->
  forall r, flat_seq f ch = Ok r ->
  exists ts, r_ns r = flat_map encode ts /\ forallb arity_ok ts = true /\ length ts = length ch /\
             forallb entries_nodup ts = true.
Proof.
  induction ch as [|x ch IH]; intros Hf r Hr; simpl in Hr.
  - injection Hr as <-. exists []. repeat split.
  - destruct (f x) as [[[ls1 ns1] b1]|] eqn:E1; simpl in Hr; [|discriminate].
    destruct (flat_seq f ch) as [[[ls2 ns2] b2]|] eqn:E2; simpl in Hr; [|discriminate].
    injection Hr as <-.
    destruct (Hf x _ (or_introl eq_refl) E1) as (t & Hn & Hw & Hg).
    destruct (IH (fun y r H => Hf y r (or_intror H)) _ eq_refl) as (ts & Hns & Hws & Hlen & Hgs).
    unfold r_ns in *. simpl in *. exists (t :: ts). simpl. repeat split.
    + congruence.
    + rewrite Hw, Hws. reflexivity.
    + congruence.
    + rewrite Hg, Hgs. reflexivity.
Qed.

Lemma EEnc_leaf o b : EEnc ([o], [leaf_node], b).
Proof. exists st_leaf. repeat split. Qed.

Lemma mk_node_eenc (f : obj -> res fres) ch k ar d ent cu orig r b' :
  (forall x r, In x ch -> f x = Ok r -> EEnc r) ->
  flat_seq f ch = Ok r -> ar = length ch ->
  keys_nodup (node_entries {| nkind := k; narity := ar; ndat := d; nentries := ent; ncustom := cu;
                              nleaves := length (r_ls r); nnodes := S (length (r_ns r)); norig := orig |}) = true ->
  EEnc (mk_node k ar d ent cu orig (r_ls r, r_ns r, b')).
Proof.
  intros Hf Hr Har Hent.
  destruct (flat_seq_eenc f ch Hf r Hr) as (ts & Hns & Hws & Hlen & Hgs).
  rewrite mk_node_eq.
  exists (T {| nkind := k; narity := ar; ndat := d; nentries := ent; ncustom := cu;
               nleaves := length (r_ls r); nnodes := S (length (r_ns r)); norig := orig |} ts).
  unfold r_ns, r_ls in *. simpl. repeat split.
  - rewrite Hns. reflexivity.
  - rewrite Har, Hlen, Nat.eqb_refl, Hws. reflexivity.
  - cbn [fst snd] in Hent. rewrite Hent, Hgs. reflexivity.
Qed.

Lemma nodup_pos n : keys_nodup (pos_keys n 0) = true.
Proof. apply keys_nodup_NoDup. apply pos_keys_nodup. Qed.

Theorem flat_entries c fuel : forall o r,
  wf_obj o = true -> entries_ok o = true -> flat c fuel o = Ok r -> EEnc r.
Proof.
  induction fuel as [|fuel IH]; intros o r Hwf He Hr; [discriminate|].
  simpl in Hr.
  destruct (apply_pred c o); [injection Hr as <-; apply EEnc_leaf|].
  destruct (get_kind c o) as [k cu] eqn:Ek.
  destruct o as [id|h cs]; [injection Hr as <-; apply EEnc_leaf|].
  simpl in Hwf. apply andb_true_iff in Hwf as [Hwh Hwcs].
  simpl in He. apply andb_true_iff in He as [Heh Hecs].
  assert (IH' : forall ch, (forall x, In x ch -> In x cs) ->
                forall x r, In x ch -> flat c fuel x = Ok r -> EEnc r).
  { intros ch Hsub x r0 Hx Hf. eapply IH; [| |exact Hf]; eapply forallb_In; eauto. }
  assert (Hdictkeys : forall ks, hdr_keys h = Some ks -> NoDup ks).
  { intros ks Hk. destruct h; simpl in Hk; try discriminate; injection Hk as ->; simpl in Hwh;
      apply andb_true_iff in Hwh as [_ Hn]; apply keys_nodup_NoDup in Hn; auto. }
  destruct k.
  - (* custom *)
    destruct h; try discriminate. destruct eb; try discriminate;
      (destruct (flat_seq (flat c fuel) cs) as [[[ls ns] b]|] eqn:E; simpl in Hr; [|discriminate]).
    + injection Hr as <-.
      apply (mk_node_eenc (flat c fuel) cs KdCustom _ _ _ _ _ (ls, ns, b) true (IH' cs (fun x H => H)) E); [reflexivity|].
      unfold node_entries. simpl. apply nodup_pos.
    + injection Hr as <-.
      apply (mk_node_eenc (flat c fuel) cs KdCustom _ _ _ _ _ (ls, ns, b) true (IH' cs (fun x H => H)) E); [reflexivity|].
      unfold node_entries. simpl. apply nodup_pos.
    + destruct (Nat.eqb (length es) (length cs)); [|discriminate]. injection Hr as <-.
      apply (mk_node_eenc (flat c fuel) cs KdCustom _ _ _ _ _ (ls, ns, b) true (IH' cs (fun x H => H)) E); [reflexivity|].
      unfold node_entries. simpl. exact Heh.
  - injection Hr as <-; apply EEnc_leaf.
  - injection Hr as <-.
    exists (T {| nkind := KdNone; narity := 0; ndat := DNone; nentries := None; ncustom := None;
                 nleaves := 0; nnodes := 1; norig := None |} []). repeat split.
  - destruct (flat_seq (flat c fuel) cs) as [[[ls ns] b]|] eqn:E; simpl in Hr; [|discriminate].
    injection Hr as <-.
    apply (mk_node_eenc (flat c fuel) cs KdTuple _ _ _ _ _ (ls, ns, b) b (IH' cs (fun x H => H)) E); [reflexivity|].
    unfold node_entries. simpl. apply nodup_pos.
  - destruct (flat_seq (flat c fuel) cs) as [[[ls ns] b]|] eqn:E; simpl in Hr; [|discriminate].
    injection Hr as <-.
    apply (mk_node_eenc (flat c fuel) cs KdList _ _ _ _ _ (ls, ns, b) b (IH' cs (fun x H => H)) E); [reflexivity|].
    unfold node_entries. simpl. apply nodup_pos.
  - destruct (hdr_keys h) as [ks|] eqn:Hk; [|discriminate].
    destruct (mapM (child_by_key ks cs) _) as [ch|] eqn:Em; simpl in Hr; [|discriminate].
    destruct (flat_seq (flat c fuel) ch) as [[[ls ns] b]|] eqn:E; simpl in Hr; [|discriminate].
    injection Hr as <-. destruct (mapM_child_by_key _ _ _ _ Em) as (Hl & _ & Hsub).
    apply (mk_node_eenc (flat c fuel) ch KdDict _ _ _ _ _ (ls, ns, b) b (IH' ch Hsub) E).
    + rewrite Hl. symmetry. apply Permutation_length. apply visit_keys_perm.
    + unfold node_entries, node_keys. simpl.
      assert (Hnd : keys_nodup (visit_keys c KdDict ks) = true).
      { apply keys_nodup_NoDup. eapply Permutation_NoDup; [apply Permutation_sym; apply visit_keys_perm | apply Hdictkeys; reflexivity]. }
      destruct h; exact Hnd.
  - destruct (flat_seq (flat c fuel) cs) as [[[ls ns] b]|] eqn:E; simpl in Hr; [|discriminate].
    injection Hr as <-.
    apply (mk_node_eenc (flat c fuel) cs KdNamed _ _ _ _ _ (ls, ns, b) b (IH' cs (fun x H => H)) E); [reflexivity|].
    unfold node_entries. simpl. apply nodup_pos.
  - destruct (hdr_keys h) as [ks|] eqn:Hk; [|discriminate].
    destruct (mapM (child_by_key ks cs) _) as [ch|] eqn:Em; simpl in Hr; [|discriminate].
    destruct (flat_seq (flat c fuel) ch) as [[[ls ns] b]|] eqn:E; simpl in Hr; [|discriminate].
    injection Hr as <-. destruct (mapM_child_by_key _ _ _ _ Em) as (Hl & _ & Hsub).
    apply (mk_node_eenc (flat c fuel) ch KdODict _ _ _ _ _ (ls, ns, b) b (IH' ch Hsub) E).
    + rewrite Hl. symmetry. apply Permutation_length. apply visit_keys_perm.
    + unfold node_entries, node_keys. simpl.
      assert (Hnd : keys_nodup (visit_keys c KdODict ks) = true).
      { apply keys_nodup_NoDup. eapply Permutation_NoDup; [apply Permutation_sym; apply visit_keys_perm | apply Hdictkeys; reflexivity]. }
      destruct h; exact Hnd.
  - destruct (hdr_keys h) as [ks|] eqn:Hk; [|discriminate].
    destruct (mapM (child_by_key ks cs) _) as [ch|] eqn:Em; simpl in Hr; [|discriminate].
    destruct (flat_seq (flat c fuel) ch) as [[[ls ns] b]|] eqn:E; simpl in Hr; [|discriminate].
    injection Hr as <-. destruct (mapM_child_by_key _ _ _ _ Em) as (Hl & _ & Hsub).
    apply (mk_node_eenc (flat c fuel) ch KdDDict _ _ _ _ _ (ls, ns, b) b (IH' ch Hsub) E).
    + rewrite Hl. symmetry. apply Permutation_length. apply visit_keys_perm.
    + unfold node_entries, node_keys. simpl.
      assert (Hnd : keys_nodup (visit_keys c KdDDict ks) = true).
      { apply keys_nodup_NoDup. eapply Permutation_NoDup; [apply Permutation_sym; apply visit_keys_perm | apply Hdictkeys; reflexivity]. }
      destruct h; exact Hnd.
  - destruct (flat_seq (flat c fuel) cs) as [[[ls ns] b]|] eqn:E; simpl in Hr; [|discriminate].
    injection Hr as <-.
    apply (mk_node_eenc (flat c fuel) cs KdDeque _ _ _ _ _ (ls, ns, b) b (IH' cs (fun x H => H)) E); [reflexivity|].
    unfold node_entries. simpl. apply nodup_pos.
  - destruct (flat_seq (flat c fuel) cs) as [[[ls ns] b]|] eqn:E; simpl in Hr; [|discriminate].
    injection Hr as <-.
    apply (mk_node_eenc (flat c fuel) cs KdStruct _ _ _ _ _ (ls, ns, b) b (IH' cs (fun x H => H)) E); [reflexivity|].
    unfold node_entries. simpl. apply nodup_pos.
Qed.

(* the paths flatten-with-path returns: pairwise distinct, none a prefix of another *)
Theorem flatten_paths_prefix_free c o ps ls sp :
  wf_obj o = true -> entries_ok o = true -> flatten_with_path c o = Ok (ps, ls, sp) -> prefix_free ps.
Proof.
  intros Hwf He Hp.
  destruct (paths_from_spec c o ps ls sp Hp) as (s & Hs & <-).
  pose proof (with_path_agrees c o _ _ _ Hp) as Hf. unfold flatten in Hf.
  destruct (flat c (S (c_limit c)) o) as [[[ls' ns] b]|] eqn:E; [|discriminate].
  cbn [bind] in Hf. injection Hf as <- <-.
  destruct (flat_entries c _ o _ Hwf He E) as (t & Hn & Ha & Hg). unfold r_ns in Hn. cbn [fst snd] in Hn.
  unfold sspec_of in Hs. cbn [trav snil sns] in Hs. rewrite Hn, (decode_encode t Ha) in Hs. injection Hs as <-.
  apply paths_prefix_free. exact Hg.
Qed.
