(* FaultProofs.v — a failing callback fails the operation cleanly (property C15). *)
From OptreeModel Require Import Base Tree Flatten Unflatten Spec Ops Faults.
From OptreeProofs Require Import BaseProofs RoundTrip.

(* ---------- no internal error ---------- *)
Definition bad_err (e : err) : bool :=
  match e with InternalError | OutOfFuel | Crash => true | _ => false end.

Lemma mapM_child_by_key_ok ks cs vks :
  NoDup ks -> length ks = length cs -> (forall k, In k vks -> In k ks) ->
  exists ch, mapM (child_by_key ks cs) vks = Ok ch.
Proof.
  intros Hnd Hlen Hsub. induction vks as [|k vks IH]; [eexists; reflexivity|].
  simpl. unfold child_by_key at 1.
  destruct (lookup k (combine ks cs)) eqn:El.
  - simpl. destruct IH as (ch & ->); [intros; apply Hsub; right; assumption|]. simpl. eauto.
  - exfalso. apply lookup_None_notin in El. rewrite map_fst_combine in El by exact Hlen.
    apply El. apply Hsub. left. reflexivity.
Qed.

Lemma flat_seq_err (f : obj -> res fres) l e :
  flat_seq f l = Err e -> exists x, In x l /\ f x = Err e.
Proof.
  induction l as [|x l IH]; simpl; [discriminate|].
  destruct (f x) as [[[ls1 ns1] b1]|e1] eqn:E1; simpl.
  - destruct (flat_seq f l) as [[[ls2 ns2] b2]|e2] eqn:E2; simpl; [discriminate|].
    intros [= <-]. destruct (IH eq_refl) as (y & Hy & Hf). eauto.
  - intros [= <-]. eauto.
Qed.

(* For every configuration, every depth budget and every well-formed object — malformed custom returns
   included — flatten never fails with an internal error: its only failures are RecursionError, the
   documented RuntimeError for malformed custom returns, and the user's own exception. *)
Theorem flat_no_internal_error c fuel : forall o e,
  wf_obj o = true -> flat c fuel o = Err e -> bad_err e = false.
Proof.
  induction fuel as [|fuel IH]; intros o e Hwf He; [injection He as <-; reflexivity|].
  simpl in He.
  destruct (apply_pred c o); [discriminate|].
  destruct (get_kind c o) as [k cu] eqn:Ek.
  destruct o as [id|h cs]; [discriminate|].
  simpl in Hwf. apply andb_true_iff in Hwf as [Hwh Hwcs].
  assert (Hseq : forall ch, (forall x, In x ch -> In x cs) -> flat_seq (flat c fuel) ch = Err e -> bad_err e = false).
  { intros ch Hsub Hs. destruct (flat_seq_err _ _ _ Hs) as (x & Hx & Hf).
    eapply IH; [|exact Hf]. eapply forallb_In; [exact Hwcs | apply Hsub; exact Hx]. }
  destruct k.
  - destruct h; try (simpl in Ek; discriminate Ek);
      try (simpl in Ek; destruct (c_nil c); discriminate Ek).
    destruct eb; try (injection He as <-; reflexivity);
      (destruct (flat_seq (flat c fuel) cs) as [[[ls ns] b]|e1] eqn:E; simpl in He;
       [|injection He as <-; eapply Hseq; [|exact E]; auto]); try discriminate.
    destruct (Nat.eqb (length es) (length cs)); [discriminate | injection He as <-; reflexivity].
  - discriminate.
  - discriminate.
  - destruct (flat_seq (flat c fuel) cs) as [[[ls ns] b]|e1] eqn:E; simpl in He; [discriminate|].
    injection He as <-. eapply Hseq; [|exact E]; auto.
  - destruct (flat_seq (flat c fuel) cs) as [[[ls ns] b]|e1] eqn:E; simpl in He; [discriminate|].
    injection He as <-. eapply Hseq; [|exact E]; auto.
  - destruct h; simpl in Ek; try discriminate Ek; try (destruct (c_nil c); discriminate Ek);
      try (destruct (lookup_reg c cls); discriminate Ek).
    simpl in He, Hwh. apply andb_true_iff in Hwh as [Hlen Hnd]. apply Nat.eqb_eq in Hlen. apply keys_nodup_NoDup in Hnd.
    destruct (mapM_child_by_key_ok ks cs (visit_keys c KdDict ks) Hnd Hlen) as (ch & Hch).
    { intros k Hk. eapply Permutation.Permutation_in; [apply visit_keys_perm | exact Hk]. }
    change (if ins_ordered c then ks else total_order_sort ks) with (visit_keys c KdDict ks) in He.
    rewrite Hch in He. simpl in He.
    destruct (flat_seq (flat c fuel) ch) as [[[ls ns] b]|e1] eqn:E; simpl in He; [discriminate|].
    injection He as <-. eapply Hseq; [|exact E]. destruct (mapM_child_by_key _ _ _ _ Hch) as (_ & _ & Hs). exact Hs.
  - destruct (flat_seq (flat c fuel) cs) as [[[ls ns] b]|e1] eqn:E; simpl in He; [discriminate|].
    injection He as <-. eapply Hseq; [|exact E]; auto.
  - destruct h; simpl in Ek; try discriminate Ek; try (destruct (c_nil c); discriminate Ek);
      try (destruct (lookup_reg c cls); discriminate Ek).
    simpl in He, Hwh. apply andb_true_iff in Hwh as [Hlen Hnd]. apply Nat.eqb_eq in Hlen. apply keys_nodup_NoDup in Hnd.
    destruct (mapM_child_by_key_ok ks cs ks Hnd Hlen (fun k H => H)) as (ch & Hch).
    rewrite Hch in He. simpl in He.
    destruct (flat_seq (flat c fuel) ch) as [[[ls ns] b]|e1] eqn:E; simpl in He; [discriminate|].
    injection He as <-. eapply Hseq; [|exact E]. destruct (mapM_child_by_key _ _ _ _ Hch) as (_ & _ & Hs). exact Hs.
  - destruct h; simpl in Ek; try discriminate Ek; try (destruct (c_nil c); discriminate Ek);
      try (destruct (lookup_reg c cls); discriminate Ek).
    simpl in He, Hwh. apply andb_true_iff in Hwh as [Hlen Hnd]. apply Nat.eqb_eq in Hlen. apply keys_nodup_NoDup in Hnd.
    destruct (mapM_child_by_key_ok ks cs (visit_keys c KdDDict ks) Hnd Hlen) as (ch & Hch).
    { intros k Hk. eapply Permutation.Permutation_in; [apply visit_keys_perm | exact Hk]. }
    change (if ins_ordered c then ks else total_order_sort ks) with (visit_keys c KdDDict ks) in He.
    rewrite Hch in He. simpl in He.
    destruct (flat_seq (flat c fuel) ch) as [[[ls ns] b]|e1] eqn:E; simpl in He; [discriminate|].
    injection He as <-. eapply Hseq; [|exact E]. destruct (mapM_child_by_key _ _ _ _ Hch) as (_ & _ & Hs). exact Hs.
  - destruct (flat_seq (flat c fuel) cs) as [[[ls ns] b]|e1] eqn:E; simpl in He; [discriminate|].
    injection He as <-. eapply Hseq; [|exact E]; auto.
  - destruct (flat_seq (flat c fuel) cs) as [[[ls ns] b]|e1] eqn:E; simpl in He; [discriminate|].
    injection He as <-. eapply Hseq; [|exact E]; auto.
Qed.

Theorem flatten_no_internal_error c o e :
  wf_obj o = true -> flatten c o = Err e -> bad_err e = false.
Proof.
  unfold flatten. intros Hwf H.
  destruct (flat c (S (c_limit c)) o) as [[[ls ns] b]|e1] eqn:E; simpl in H; [discriminate|].
  injection H as <-. eapply flat_no_internal_error; eauto.
Qed.

(* ---------- the guard set is restored on success and on failure ---------- *)
Lemma gerase_head x g : gerase x (x :: g) = g.
Proof. simpl. rewrite !Z.eqb_refl. reflexivity. Qed.

Theorem guard_restored {A} (dflt : A) ident body g :
  snd (guarded true dflt ident body g) = g.
Proof.
  unfold guarded. destruct (gmem ident g); [reflexivity|].
  destruct (body (ident :: g)); simpl; apply gerase_head.
Qed.

(* without the erase on the error path (the seeded / defective variant) a failing body leaves the
   treespec marked as in progress: every later call returns the default instead of running *)
Theorem guard_not_restored_refuted :
  exists (body : gset -> res Z) ident g,
    let '(r1, g1) := guarded false 0 ident body g in
    r1 = Err (UserExn 1) /\ fst (guarded false 0 ident (fun _ => Ok 42) g1) = Ok 0.
Proof.
  exists (fun _ => Err (UserExn 1)), (1, 1), []. vm_compute. auto.
Qed.

(* ---------- fault injection: the k-th callback raises ---------- *)
Definition strip (r : res fresn) : res fres :=
  match r with Ok (ls, ns, b, _) => Ok (ls, ns, b) | Err e => Err e end.

Lemma flatf_seq_none (f' : nat -> obj -> res fresn) (f : obj -> res fres) : forall l n,
  (forall n x, In x l -> strip (f' n x) = f x) -> strip (flatf_seq f' n l) = flat_seq f l.
Proof.
  induction l as [|x l IH]; intros n H; [reflexivity|].
  simpl. rewrite <- (H n x (or_introl eq_refl)).
  destruct (f' n x) as [[[[ls1 ns1] b1] n1]|e1]; simpl; [|reflexivity].
  rewrite <- (IH n1) by (intros; apply H; right; assumption).
  destruct (flatf_seq f' n1 l) as [[[[ls2 ns2] b2] n2]|e2]; reflexivity.
Qed.

Ltac seq_none IH n1 :=
  match goal with
  | |- context [flat_seq (flat ?c ?fuel) ?l] =>
    rewrite <- (flatf_seq_none (flatf c None fuel) (flat c fuel) l n1) by (intros; apply IH);
    destruct (flatf_seq (flatf c None fuel) n1 l) as [[[[? ?] ?] ?]|?]; simpl; try reflexivity
  end.

(* without a fault the instrumented traversal is the traversal of Flatten.v *)
Theorem fault_free_is_flat c fuel : forall n o, strip (flatf c None fuel n o) = flat c fuel o.
Proof.
  induction fuel as [|fuel IH]; intros n o; [reflexivity|].
  cbn [flatf flat].
  set (n1 := match c_pred c with Some _ => S n | None => n end).
  replace (match c_pred c with Some _ => tick None n | None => Ok n end) with (Ok (A:=nat) n1)
    by (unfold n1, tick; destruct (c_pred c); reflexivity).
  cbn [bind]. clearbody n1.
  destruct (apply_pred c o); [reflexivity|].
  destruct (get_kind c o) as [k cu].
  destruct o as [id|h cs]; [reflexivity|].
  destruct k; try reflexivity; try (seq_none IH n1; fail).
  - (* custom *)
    destruct h; try reflexivity. unfold tick. cbn [bind].
    destruct eb; try reflexivity; seq_none IH (S n1).
    destruct (Nat.eqb (length es) (length cs)); reflexivity.
  - destruct (hdr_keys h) as [ks|]; [|reflexivity].
    destruct (mapM (child_by_key ks cs) (visit_keys c KdDict ks)) as [ch|e]; [|reflexivity].
    cbn [bind]. seq_none IH n1.
  - destruct (hdr_keys h) as [ks|]; [|reflexivity].
    destruct (mapM (child_by_key ks cs) (visit_keys c KdODict ks)) as [ch|e]; [|reflexivity].
    cbn [bind]. seq_none IH n1.
  - destruct (hdr_keys h) as [ks|]; [|reflexivity].
    destruct (mapM (child_by_key ks cs) (visit_keys c KdDDict ks)) as [ch|e]; [|reflexivity].
    cbn [bind]. seq_none IH n1.
Qed.

(* the injected exception, or exactly what the fault-free run does *)
Definition fault_or_same {A} (r1 r2 : res A) : Prop := r1 = Err (UserExn 99) \/ r1 = r2.

Lemma flatf_seq_dich (f1 f2 : nat -> obj -> res fresn) : forall l n,
  (forall n x, fault_or_same (f1 n x) (f2 n x)) ->
  fault_or_same (flatf_seq f1 n l) (flatf_seq f2 n l).
Proof.
  induction l as [|x l IH]; intros n H; [right; reflexivity|].
  simpl. destruct (H n x) as [-> | ->]; [left; reflexivity|].
  destruct (f2 n x) as [[[[ls1 ns1] b1] n1]|e1]; simpl; [|right; reflexivity].
  destruct (IH n1 H) as [-> | ->]; [left; reflexivity | right; reflexivity].
Qed.

Ltac seq_dich IH c k fuel n1 l :=
  destruct (flatf_seq_dich (flatf c (Some k) fuel) (flatf c None fuel) l n1 (fun n x => IH n x)) as [-> | ->];
  [left; reflexivity | right; reflexivity].

(* A fault at the k-th callback invocation (predicate calls and custom flatten calls, in engine order)
   makes the whole flatten fail with exactly the injected exception — no other exception type, no
   partial result — or, when fewer than k callbacks are made, changes nothing at all. *)
Theorem fault_dichotomy c k fuel : forall n o,
  fault_or_same (flatf c (Some k) fuel n o) (flatf c None fuel n o).
Proof.
  induction fuel as [|fuel IH]; intros n o; [right; reflexivity|].
  cbn [flatf].
  assert (Ht : forall m, tick (Some k) m = Err (UserExn 99) \/ tick (Some k) m = tick None m).
  { intros m. unfold tick. destruct (Nat.eqb (S m) k); auto. }
  destruct (c_pred c) as [p|] eqn:Ep.
  - destruct (Ht n) as [-> | ->]; [left; reflexivity|].
    change (tick None n) with (Ok (A:=nat) (S n)). cbn [bind]. generalize (S n). intros n1.
    destruct (apply_pred c o); [right; reflexivity|].
    destruct (get_kind c o) as [kd cu].
    destruct o as [id|h cs]; [right; reflexivity|].
    destruct kd; try (right; reflexivity); try (seq_dich IH c k fuel n1 cs; fail).
    + destruct h; try (right; reflexivity).
      destruct (Ht n1) as [-> | ->]; [left; reflexivity|]. change (tick None n1) with (Ok (A:=nat) (S n1)). cbn [bind].
      destruct eb; try (right; reflexivity); seq_dich IH c k fuel (S n1) cs.
    + destruct (hdr_keys h) as [ks|]; [|right; reflexivity].
      destruct (mapM (child_by_key ks cs) (visit_keys c KdDict ks)) as [ch|e]; [|right; reflexivity].
      cbn [bind]. seq_dich IH c k fuel n1 ch.
    + destruct (hdr_keys h) as [ks|]; [|right; reflexivity].
      destruct (mapM (child_by_key ks cs) (visit_keys c KdODict ks)) as [ch|e]; [|right; reflexivity].
      cbn [bind]. seq_dich IH c k fuel n1 ch.
    + destruct (hdr_keys h) as [ks|]; [|right; reflexivity].
      destruct (mapM (child_by_key ks cs) (visit_keys c KdDDict ks)) as [ch|e]; [|right; reflexivity].
      cbn [bind]. seq_dich IH c k fuel n1 ch.
  - cbn [bind]. generalize n. intros n1.
    destruct (apply_pred c o); [right; reflexivity|].
    destruct (get_kind c o) as [kd cu].
    destruct o as [id|h cs]; [right; reflexivity|].
    destruct kd; try (right; reflexivity); try (seq_dich IH c k fuel n1 cs; fail).
    + destruct h; try (right; reflexivity).
      destruct (Ht n1) as [-> | ->]; [left; reflexivity|]. change (tick None n1) with (Ok (A:=nat) (S n1)). cbn [bind].
      destruct eb; try (right; reflexivity); seq_dich IH c k fuel (S n1) cs.
    + destruct (hdr_keys h) as [ks|]; [|right; reflexivity].
      destruct (mapM (child_by_key ks cs) (visit_keys c KdDict ks)) as [ch|e]; [|right; reflexivity].
      cbn [bind]. seq_dich IH c k fuel n1 ch.
    + destruct (hdr_keys h) as [ks|]; [|right; reflexivity].
      destruct (mapM (child_by_key ks cs) (visit_keys c KdODict ks)) as [ch|e]; [|right; reflexivity].
      cbn [bind]. seq_dich IH c k fuel n1 ch.
    + destruct (hdr_keys h) as [ks|]; [|right; reflexivity].
      destruct (mapM (child_by_key ks cs) (visit_keys c KdDDict ks)) as [ch|e]; [|right; reflexivity].
      cbn [bind]. seq_dich IH c k fuel n1 ch.
Qed.

(* the callback counter only grows, by the number of callbacks made *)

(* ---------- a failing mapped function ---------- *)
Lemma mapM_trace_fault {A B} (f : nat -> A -> res B) e : forall l i k,
  (forall j x, (j < i + k)%nat -> exists y, f j x = Ok y) ->
  (forall x, f (i + k)%nat x = Err e) -> (k < length l)%nat ->
  mapM_trace f i l = (Err e, firstn (S k) l).
Proof.
  induction l as [|x l IH]; intros i k Hok Herr Hk; [simpl in Hk; lia|].
  destruct k as [|k].
  - cbn [mapM_trace]. rewrite Nat.add_0_r in Herr. rewrite Herr. reflexivity.
  - cbn [mapM_trace]. destruct (Hok i x ltac:(lia)) as (y & ->).
    rewrite (IH (S i) k).
    + reflexivity.
    + intros j x' Hj. apply Hok. lia.
    + intros x'. replace (S i + k)%nat with (i + S k)%nat by lia. apply Herr.
    + simpl in Hk. lia.
Qed.

(* tree_map with a function that raises e at its (k+1)-th call: the operation fails with exactly e,
   the function was called k+1 times (no call after the failure) and no tree is returned *)
Theorem map_fault c f t rests ls sp s cols e k :
  flatten c t = Ok (ls, sp) -> sspec_of sp = Some s ->
  mapM (ss_flatten_up_to (c_reg c) s) rests = Ok cols ->
  (forall j row, (j < k)%nat -> exists y, f j row = Ok y) ->
  (forall row, f k row = Err e) -> (k < length (zip_cols (length ls) (ls :: cols)))%nat ->
  tree_map_trace c f t rests = (Err e, firstn (S k) (zip_cols (length ls) (ls :: cols))).
Proof.
  intros Hf Hs Hc Hok Herr Hk.
  unfold tree_map_trace. rewrite Hf.
  unfold sspec_res. rewrite Hs. rewrite Hc.
  rewrite (mapM_trace_fault f e _ 0%nat k); [reflexivity | exact Hok | exact Herr | exact Hk].
Qed.
