(* MapPaths.v — the arguments tree_map hands to f, column by column: for every rest, the i-th element of
   its column is the subtree of that rest located at the i-th leaf's path (property C05, by C07's
   flatten_up_to_by_paths applied to each rest). *)
From OptreeModel Require Import Base Tree Flatten Unflatten Spec Construct Ops Accessor.
From OptreeProofs Require Import OpsProofs UpToPaths UpToTop.

Theorem map_columns_by_paths c t ls sp s : 
  wf_obj t = true -> flatten c t = Ok (ls, sp) -> sspec_of sp = Some s ->
  forall rests cols, Forall (fun r => entries_ok r = true) rests ->
  mapM (ss_flatten_up_to (c_reg c) s) rests = Ok cols ->
  Forall2 (fun rest col => Forall2 (fun p x => get_path rest p = Some x) (st_paths (stree_of s)) col) rests cols.
Proof.
  intros W Hf Hs. induction rests as [|r rests IH]; intros cols HE HM.
  - cbn [mapM] in HM. injection HM as <-. constructor.
  - cbn [mapM] in HM. inversion HE as [|? ? Er Ers]; subst.
    destruct (ss_flatten_up_to (c_reg c) s r) as [col|e] eqn:Ec; [|discriminate HM]. cbn [bind] in HM.
    destruct (mapM (ss_flatten_up_to (c_reg c) s) rests) as [cols'|e] eqn:Em; [|discriminate HM]. cbn [bind] in HM.
    injection HM as <-. constructor; [|exact (IH cols' Ers eq_refl)].
    exact (flattened_up_to_by_paths c t ls sp s r col W Hf Hs Er Ec).
Qed.
