(* DataclassProofs.v — optree dataclasses and partial are faithful pytree nodes (property C19). *)
From OptreeModel Require Import Dataclass.

(* children are the pytree_node fields in declaration order; entries are their names *)
Theorem dc_children_in_declaration_order fs :
  map fname (children_fields fs) = map fname (filter fnode fs).
Proof. reflexivity. Qed.

(* every init field is a child or metadata, never both; non-init fields are neither *)
Theorem dc_partition fs f :
  layout_ok fs = true -> In f fs ->
  (finit f = true -> (In f (children_fields fs) /\ ~ In f (metadata_fields fs)) \/
                     (~ In f (children_fields fs) /\ In f (metadata_fields fs))) /\
  (finit f = false -> ~ In f (children_fields fs) /\ ~ In f (metadata_fields fs)).
Proof.
  intros Hok Hin. unfold layout_ok in Hok. rewrite forallb_forall in Hok. specialize (Hok f Hin).
  unfold children_fields, metadata_fields. rewrite !filter_In.
  destruct (fnode f) eqn:En, (finit f) eqn:Ei; simpl in *; try discriminate; split; intros H; try discriminate.
  - left. split; [auto | intros [_ Hc]; discriminate].
  - right. split; [intros [_ Hc]; discriminate | auto].
  - split; intros [_ Hc]; discriminate.
Qed.

(* declaring a non-init field as a pytree node is rejected *)
Theorem dc_rejects_noninit_node fs f :
  In f fs -> fnode f = true -> finit f = false -> layout_ok fs = false.
Proof.
  intros Hin Hn Hi. destruct (layout_ok fs) eqn:E; [|reflexivity].
  unfold layout_ok in E. rewrite forallb_forall in E. specialize (E f Hin). rewrite Hn, Hi in E. discriminate.
Qed.

Lemma map_fst_combine_le {A B} (l : list A) (l' : list B) : forall x, In x (map fst (combine l l')) -> In x l.
Proof. revert l'; induction l; intros [|b l'] x; simpl; try tauto. intros [H|H]; eauto. Qed.

Section RoundTrip.
  Variable V : Type.
  Variable post : inst V -> inst V.

  Lemma get_app_l n (a b : inst V) v : get V n a = Some v -> get V n (a ++ b) = Some v.
  Proof.
    induction a as [|[m w] a IH]; simpl; [discriminate|]. destruct (Z.eqb n m); auto.
  Qed.
  Lemma get_app_r n (a b : inst V) : get V n a = None -> get V n (a ++ b) = get V n b.
  Proof.
    induction a as [|[m w] a IH]; simpl; [reflexivity|]. destruct (Z.eqb n m); [discriminate | auto].
  Qed.

  Lemma get_combine_map (fs : list dfield) (g : dfield -> V) n :
    NoDup (map fname fs) ->
    get V n (combine (map fname fs) (map g fs)) =
    match find (fun f => Z.eqb n (fname f)) fs with Some f => Some (g f) | None => None end.
  Proof.
    induction fs as [|f fs IH]; intros Hnd; simpl; [reflexivity|].
    inversion Hnd; subst. destruct (Z.eqb n (fname f)); [reflexivity | auto].
  Qed.
End RoundTrip.

Lemma flat_map_ext_in {A B} (f g : A -> list B) l :
  (forall x, In x l -> f x = g x) -> flat_map f l = flat_map g l.
Proof.
  induction l as [|a l IH]; intros H; [reflexivity|]. simpl.
  rewrite (H a (or_introl eq_refl)), IH by (intros; apply H; right; assumption). reflexivity.
Qed.

Section RoundTrip2.
  Variable V : Type.
  Variable post : inst V -> inst V.

  Definition init_part (fs : list dfield) (x : inst V) : inst V :=
    flat_map (fun f => if finit f then match get V (fname f) x with Some v => [(fname f, v)] | None => [] end else []) fs.

  (* x is an instance the class can produce: one value per field in declaration order, and the
     non-init fields are what __init__/__post_init__ compute from the init fields *)
  Definition consistent (fs : list dfield) (x : inst V) : Prop :=
    map fst x = map fname fs /\
    forall f, In f fs -> finit f = false -> get V (fname f) x = get V (fname f) (post (init_part fs x)).

  Lemma get_in_keys (x : inst V) n : In n (map fst x) -> exists v, get V n x = Some v.
  Proof.
    induction x as [|[m w] x IH]; simpl; [tauto|]. intros [->|H].
    - rewrite Z.eqb_refl. eauto.
    - destruct (Z.eqb n m); eauto.
  Qed.

  Lemma get_notin_keys (x : inst V) n : ~ In n (map fst x) -> get V n x = None.
  Proof.
    induction x as [|[m w] x IH]; simpl; [reflexivity|]. intros H.
    destruct (Z.eqb n m) eqn:E; [apply Z.eqb_eq in E; subst; exfalso; apply H; auto | apply IH; tauto].
  Qed.

  Lemma inst_rebuild (fs : list dfield) : forall (x : inst V),
    map fst x = map fname fs -> NoDup (map fname fs) ->
    flat_map (fun f => match get V (fname f) x with Some v => [(fname f, v)] | None => [] end) fs = x.
  Proof.
    induction fs as [|f fs IH]; intros [|[m w] x] Hk Hnd; simpl in *; try discriminate; [reflexivity|].
    injection Hk as -> Hk. rewrite Z.eqb_refl. simpl. f_equal.
    inversion Hnd as [|? ? Hn Hnd']; subst.
    transitivity (flat_map (fun f0 => match get V (fname f0) x with Some v => [(fname f0, v)] | None => [] end) fs);
      [|apply IH; assumption].
    apply flat_map_ext_in. intros g Hg.
    destruct (Z.eqb (fname g) (fname f)) eqn:E; [|reflexivity].
    apply Z.eqb_eq in E. exfalso. apply Hn. rewrite <- E. apply in_map. exact Hg.
  Qed.

  Lemma get_combine_names (gs : list dfield) (x : inst V) n :
    In n (map fname gs) ->
    (forall g, In g gs -> exists v, get V (fname g) x = Some v) ->
    forall vs, map (fun g => get V (fname g) x) gs = map Some vs ->
    get V n (combine (map fname gs) vs) = get V n x.
  Proof.
    induction gs as [|g gs IH]; intros Hin Hall vs Hvs; simpl in *; [tauto|].
    destruct vs as [|v vs]; [discriminate|]. injection Hvs as Hv Hvs. simpl.
    destruct (Z.eqb n (fname g)) eqn:E; [apply Z.eqb_eq in E; subst; congruence|].
    apply IH; auto. destruct Hin as [H|H]; [apply Z.eqb_neq in E; congruence | exact H].
  Qed.

  (* unflatten(flatten(x)) = x: the class is called with children and metadata as keywords, __post_init__ re-runs *)
  Theorem dc_roundtrip fs (x : inst V) children metadata :
    NoDup (map fname fs) -> layout_ok fs = true -> consistent fs x ->
    map (fun f => get V (fname f) x) (children_fields fs) = map Some children ->
    map (fun f => (fname f, get V (fname f) x)) (metadata_fields fs) = map (fun '(n, v) => (n, Some v)) metadata ->
    construct V post fs (kwargs_of V fs children metadata) = x.
  Proof.
    intros Hnd Hok (Hkeys & Hpost) Hch Hmd.
    set (kw := kwargs_of V fs children metadata).
    assert (Hall : forall g, In g fs -> exists v, get V (fname g) x = Some v).
    { intros g Hg. apply get_in_keys. rewrite Hkeys. apply in_map. exact Hg. }
    assert (Hmeta_keys : map fst metadata = map fname (metadata_fields fs)).
    { clear -Hmd. revert metadata Hmd. induction (metadata_fields fs) as [|g gs IH]; intros [|[n v] md] H; simpl in *; try discriminate; [reflexivity|].
      injection H as Hn _ H. rewrite (IH md H). congruence. }
    assert (HA : forall f, In f fs -> finit f = true -> get V (fname f) kw = get V (fname f) x).
    { intros f Hf Hi. unfold kw, kwargs_of.
      destruct (fnode f) eqn:En.
      - (* a child *)
        assert (Hin : In (fname f) (map fname (children_fields fs))).
        { apply in_map. unfold children_fields. apply filter_In. auto. }
        destruct (Hall f Hf) as (v & Hv).
        rewrite (get_app_l V _ _ _ v).
        + symmetry. exact Hv.
        + rewrite (get_combine_names (children_fields fs) x (fname f) Hin); [exact Hv | | exact Hch].
          intros g Hg. apply Hall. unfold children_fields in Hg. apply filter_In in Hg. tauto.
      - (* metadata *)
        rewrite get_app_r.
        2:{ apply get_notin_keys. intros Hc. apply map_fst_combine_le in Hc.
            apply in_map_iff in Hc as (g & Hgn & Hg). unfold children_fields in Hg. apply filter_In in Hg as [Hg1 Hg2].
            assert (g = f) as ->; [|congruence].
            clear -Hnd Hgn Hg1 Hf. induction fs as [|a l IH]; [contradiction|]. simpl in Hnd. inversion Hnd; subst.
            destruct Hg1 as [->|Hg1], Hf as [->|Hf]; auto.
            - exfalso. apply H1. rewrite Hgn. apply in_map. exact Hf.
            - exfalso. apply H1. rewrite <- Hgn. apply in_map. exact Hg1. }
        assert (Hfm : In f (metadata_fields fs)) by (unfold metadata_fields; apply filter_In; rewrite En, Hi; auto).
        clear -Hmd Hfm Hnd. assert (Hnd2 : NoDup (map fname (metadata_fields fs))).
        { clear -Hnd. unfold metadata_fields. induction fs as [|a l IH]; [constructor|]. simpl in *. inversion Hnd; subst.
          destruct (negb (fnode a) && finit a); [|auto]. simpl. constructor; [|auto].
          intros Hc. apply H1. apply in_map_iff in Hc as (g & <- & Hg). apply filter_In in Hg. apply in_map. tauto. }
        revert metadata Hmd. induction (metadata_fields fs) as [|g gs IH]; intros [|[n v] md] H; simpl in *; try discriminate; [contradiction|].
        injection H as Hn Hv H. inversion Hnd2; subst.
        destruct Hfm as [->|Hfm].
        + rewrite Z.eqb_refl. symmetry. exact Hv.
        + destruct (Z.eqb (fname f) (fname g)) eqn:E; [apply Z.eqb_eq in E; exfalso; apply H2; rewrite <- E; apply in_map; exact Hfm|].
          apply IH; auto. }
    assert (Hinit : init_part fs kw = init_part fs x).
    { unfold init_part. apply flat_map_ext_in. intros f Hf. destruct (finit f) eqn:Ei; [|reflexivity].
      rewrite (HA f Hf Ei). reflexivity. }
    unfold construct. fold (init_part fs kw). rewrite Hinit.
    transitivity (flat_map (fun f => match get V (fname f) x with Some v => [(fname f, v)] | None => [] end) fs);
      [|apply inst_rebuild; assumption].
    apply flat_map_ext_in. intros f Hf.
    destruct (finit f) eqn:Ei; [rewrite (HA f Hf Ei); reflexivity|].
    rewrite <- (Hpost f Hf Ei). reflexivity.
  Qed.
End RoundTrip2.

(* ---------- partial ---------- *)
(* an optree partial over a partial is never merged with it: the wrapped callable is kept as is,
   whereas the standard partial would flatten the two levels *)
Theorem partial_never_merged f nargs kws :
  partial_flatten (optree_partial f nargs kws) = Some (nargs, kws, f).
Proof. reflexivity. Qed.

Theorem stdlib_partial_merges g n k nargs kws :
  partial_flatten (stdlib_partial (CPartial g n k) nargs kws) = Some ((n + nargs)%nat, k ++ kws, g).
Proof. reflexivity. Qed.

(* flatten then rebuild with the same function and the (mapped) arguments gives the partial back *)
Theorem partial_roundtrip f nargs kws :
  match partial_flatten (optree_partial f nargs kws) with
  | Some (n, k, g) => optree_partial g n k = optree_partial f nargs kws
  | None => False
  end.
Proof. reflexivity. Qed.

(* ---------- DataclassEntry: the integer entry i reaches the i-th child ---------- *)
Theorem dc_entry_hits_child (V : Type) fs (x : inst V) i v :
  nth_error (init_children V fs x) i = Some v ->
  exists n, dc_entry_field fs i = Some n /\ get V n x = v.
Proof.
  unfold init_children, dc_entry_field. intros H.
  destruct (nth_error (init_fields fs) i) as [f|] eqn:E.
  - exists (fname f). split; [reflexivity|].
    rewrite (map_nth_error (fun f => get V (fname f) x) i (init_fields fs) E) in H. injection H as <-. reflexivity.
  - exfalso. apply nth_error_None in E.
    assert (Hl : (i < length (map (fun f => get V (fname f) x) (init_fields fs)))%nat)
      by (apply nth_error_Some; rewrite H; discriminate).
    rewrite map_length in Hl. lia.
Qed.

Theorem dc_entry_count (V : Type) fs (x : inst V) :
  length (init_children V fs x) = length (init_fields fs) /\
  forall i, (i < length (init_fields fs))%nat <-> dc_entry_field fs i <> None.
Proof.
  split; [apply map_length|]. intros i. unfold dc_entry_field. split.
  - intros H. destruct (nth_error (init_fields fs) i) eqn:E; [discriminate|]. apply nth_error_None in E. lia.
  - intros H. apply nth_error_Some. destruct (nth_error (init_fields fs) i); [discriminate | exfalso; apply H; reflexivity].
Qed.

(* indexing all fields instead names another attribute as soon as a non-init field precedes an init field *)
Theorem dc_entry_all_fields_refuted :
  exists fs i, dc_entry_field fs i <> dc_entry_field_all fs i /\ dc_entry_field fs i <> None.
Proof.
  exists [{| fname := 1; finit := false; fnode := false |}; {| fname := 2; finit := true; fnode := false |}], 0%nat.
  split; discriminate.
Qed.
