(* SpecProofs.v — the node array and the structured treespec:
     decode (encode t) = Some t, and flatten always produces the encoding of a well-formed stree
     whose leaf count is the number of leaves returned. *)
From OptreeModel Require Import Base Tree Flatten Unflatten Spec.
From OptreeProofs Require Import BaseProofs RoundTrip.

Fixpoint stree_ind' (P : stree -> Prop)
         (H : forall n cs, Forall P cs -> P (T n cs)) (t : stree) : P t :=
  match t with
  | T n cs =>
    H n cs ((fix go (l : list stree) : Forall P l :=
               match l with
               | [] => Forall_nil P
               | x :: l' => Forall_cons x (stree_ind' P H x) (go l')
               end) cs)
  end.

(* arity bookkeeping only *)
Fixpoint arity_ok (t : stree) : bool :=
  match t with T n cs => Nat.eqb (narity n) (length cs) && forallb arity_ok cs end.

Lemma wf_arity_ok t : wf_stree t = true -> arity_ok t = true.
Proof.
  induction t as [n cs IH] using stree_ind'. simpl. intros H.
  repeat (apply andb_true_iff in H as [H ?]).
  apply andb_true_iff. split; [assumption|].
  apply forallb_forall. intros x Hx. rewrite Forall_forall in IH. apply IH; [exact Hx|].
  eapply forallb_In; eauto.
Qed.

Lemma decode_go_encode t : arity_ok t = true ->
  forall rest stack, decode_go (encode t ++ rest) stack = decode_go rest (t :: stack).
Proof.
  induction t as [n cs IH] using stree_ind'. intros Hok rest stack.
  simpl in Hok. apply andb_true_iff in Hok as [Har Hcs]. apply Nat.eqb_eq in Har.
  assert (Hlist : forall rest stack,
            decode_go (flat_map encode cs ++ rest) stack = decode_go rest (rev cs ++ stack)).
  { clear Har. induction cs as [|x cs IHcs]; intros rest0 stack0; [reflexivity|].
    simpl. rewrite <- app_assoc. inversion IH as [|? ? Hx Hrest]; subst.
    simpl in Hcs. apply andb_true_iff in Hcs as [Hx' Hcs'].
    rewrite (Hx Hx'). rewrite (IHcs Hrest Hcs'). rewrite <- app_assoc. reflexivity. }
  simpl. rewrite <- app_assoc. rewrite Hlist. simpl.
  rewrite Har.
  assert (Hlt : Nat.ltb (length (rev cs ++ stack)) (length cs) = false).
  { apply Nat.ltb_ge. rewrite app_length, rev_length. lia. }
  rewrite Hlt, firstn_rev_app, skipn_rev_app, rev_involutive. reflexivity.
Qed.

Theorem decode_encode t : arity_ok t = true -> decode (encode t) = Some t.
Proof.
  intros H. unfold decode. rewrite <- (app_nil_r (encode t)). rewrite decode_go_encode by exact H.
  reflexivity.
Qed.

Lemma encode_length t : wf_stree t = true -> length (encode t) = st_nodes t.
Proof.
  induction t as [n cs IH] using stree_ind'. simpl. intros H.
  repeat (apply andb_true_iff in H as [H ?]).
  match goal with Hn : Nat.eqb (nnodes n) _ = true |- _ => apply Nat.eqb_eq in Hn; unfold st_nodes; simpl; rewrite Hn end.
  rewrite app_length. simpl. rewrite Nat.add_1_r. f_equal.
  match goal with Hf : forallb wf_stree cs = true |- _ => revert Hf end.
  clear -IH. induction cs as [|x cs IHcs]; intros Hf; [reflexivity|].
  simpl in *. apply andb_true_iff in Hf as [Hx Hf]. inversion IH; subst.
  rewrite app_length. unfold sum_nat in *. simpl. f_equal; auto.
Qed.

(* ---------- flatten produces encodings ---------- *)
Definition Enc (r : fres) : Prop :=
  exists t, r_ns r = encode t /\ wf_stree t = true /\ st_leaves t = length (r_ls r).

Lemma Enc_leaf o b : Enc ([o], [leaf_node], b).
Proof. exists st_leaf. repeat split. Qed.

Lemma flat_seq_enc (f : obj -> res fres) ch :
  (forall x r, In x ch -> f x = Ok r -> Enc r) ->
  forall r, flat_seq f ch = Ok r ->
  exists ts, r_ns r = flat_map encode ts /\ forallb wf_stree ts = true /\
             length ts = length ch /\
             sum_nat (map st_leaves ts) = length (r_ls r) /\
             sum_nat (map st_nodes ts) = length (r_ns r).
Proof.
  induction ch as [|x ch IH]; intros Hf r Hr; simpl in Hr.
  - injection Hr as <-. exists []. repeat split.
  - destruct (f x) as [[[ls1 ns1] b1]|] eqn:E1; simpl in Hr; [|discriminate].
    destruct (flat_seq f ch) as [[[ls2 ns2] b2]|] eqn:E2; simpl in Hr; [|discriminate].
    injection Hr as <-.
    destruct (Hf x _ (or_introl eq_refl) E1) as (t & Hn & Hw & Hl).
    destruct (IH (fun y r H => Hf y r (or_intror H)) _ eq_refl) as (ts & Hns & Hws & Hlen & Hsl & Hsn).
    unfold r_ns, r_ls in *. simpl in *. exists (t :: ts). simpl. repeat split.
    + congruence.
    + rewrite Hw, Hws. reflexivity.
    + congruence.
    + rewrite app_length. unfold sum_nat in *. simpl. congruence.
    + rewrite app_length. unfold sum_nat in *. simpl. rewrite Hsn.
      f_equal. rewrite Hn. symmetry. apply encode_length. exact Hw.
Qed.

Lemma mk_node_enc (f : obj -> res fres) ch k ar d ent cu orig r b' :
  (forall x r, In x ch -> f x = Ok r -> Enc r) ->
  flat_seq f ch = Ok r -> kind_eqb k KdLeaf = false -> ar = length ch ->
  Enc (mk_node k ar d ent cu orig (r_ls r, r_ns r, b')).
Proof.
  intros Hf Hr Hk Har.
  destruct (flat_seq_enc f ch Hf r Hr) as (ts & Hns & Hws & Hlen & Hsl & Hsn).
  rewrite mk_node_eq.
  exists (T {| nkind := k; narity := ar; ndat := d; nentries := ent; ncustom := cu;
               nleaves := length (r_ls r); nnodes := S (length (r_ns r)); norig := orig |} ts).
  unfold r_ns, r_ls in *. simpl. repeat split.
  - rewrite Hns. reflexivity.
  - unfold is_leaf_node. simpl. rewrite Hk, Hws.
    rewrite Har, Hlen, Nat.eqb_refl. rewrite Hsn, Hsl, !Nat.eqb_refl. reflexivity.
Qed.

Theorem flat_enc c fuel : forall o r, flat c fuel o = Ok r -> Enc r.
Proof.
  induction fuel as [|fuel IH]; intros o r Hr; [discriminate|].
  simpl in Hr.
  destruct (apply_pred c o); [injection Hr as <-; apply Enc_leaf|].
  destruct (get_kind c o) as [k cu].
  destruct o as [id|h cs]; [injection Hr as <-; apply Enc_leaf|].
  assert (IH' : forall ch x r, In x ch -> flat c fuel x = Ok r -> Enc r) by (intros; eauto).
  destruct k.
  - (* custom *)
    destruct h; try discriminate. destruct eb; try discriminate;
      (destruct (flat_seq (flat c fuel) cs) as [[[ls ns] b]|] eqn:E; simpl in Hr; [|discriminate]).
    + injection Hr as <-.
      apply (mk_node_enc (flat c fuel) cs KdCustom _ _ _ _ _ (ls, ns, b) true (IH' cs) E); reflexivity.
    + injection Hr as <-.
      apply (mk_node_enc (flat c fuel) cs KdCustom _ _ _ _ _ (ls, ns, b) true (IH' cs) E); reflexivity.
    + destruct (Nat.eqb (length es) (length cs)); [|discriminate]. injection Hr as <-.
      apply (mk_node_enc (flat c fuel) cs KdCustom _ _ _ _ _ (ls, ns, b) true (IH' cs) E); reflexivity.
  - injection Hr as <-; apply Enc_leaf.
  - injection Hr as <-.
    exists (T {| nkind := KdNone; narity := 0; ndat := DNone; nentries := None; ncustom := None;
                 nleaves := 0; nnodes := 1; norig := None |} []). repeat split.
  - destruct (flat_seq (flat c fuel) cs) as [[[ls ns] b]|] eqn:E; simpl in Hr; [|discriminate].
    injection Hr as <-.
    apply (mk_node_enc (flat c fuel) cs KdTuple _ _ _ _ _ (ls, ns, b) b (IH' cs) E); reflexivity.
  - destruct (flat_seq (flat c fuel) cs) as [[[ls ns] b]|] eqn:E; simpl in Hr; [|discriminate].
    injection Hr as <-.
    apply (mk_node_enc (flat c fuel) cs KdList _ _ _ _ _ (ls, ns, b) b (IH' cs) E); reflexivity.
  - destruct (hdr_keys h) as [ks|]; [|discriminate].
    destruct (mapM (child_by_key ks cs) _) as [ch|] eqn:Em; simpl in Hr; [|discriminate].
    destruct (flat_seq (flat c fuel) ch) as [[[ls ns] b]|] eqn:E; simpl in Hr; [|discriminate].
    injection Hr as <-. destruct (mapM_child_by_key _ _ _ _ Em) as (Hl & _ & _).
    apply (mk_node_enc (flat c fuel) ch KdDict _ _ _ _ _ (ls, ns, b) b (IH' ch) E); [reflexivity|].
    rewrite Hl. symmetry. apply Permutation.Permutation_length. apply visit_keys_perm.
  - destruct (flat_seq (flat c fuel) cs) as [[[ls ns] b]|] eqn:E; simpl in Hr; [|discriminate].
    injection Hr as <-.
    apply (mk_node_enc (flat c fuel) cs KdNamed _ _ _ _ _ (ls, ns, b) b (IH' cs) E); reflexivity.
  - destruct (hdr_keys h) as [ks|]; [|discriminate].
    destruct (mapM (child_by_key ks cs) _) as [ch|] eqn:Em; simpl in Hr; [|discriminate].
    destruct (flat_seq (flat c fuel) ch) as [[[ls ns] b]|] eqn:E; simpl in Hr; [|discriminate].
    injection Hr as <-. destruct (mapM_child_by_key _ _ _ _ Em) as (Hl & _ & _).
    apply (mk_node_enc (flat c fuel) ch KdODict _ _ _ _ _ (ls, ns, b) b (IH' ch) E); [reflexivity|].
    rewrite Hl. symmetry. apply Permutation.Permutation_length. apply visit_keys_perm.
  - destruct (hdr_keys h) as [ks|]; [|discriminate].
    destruct (mapM (child_by_key ks cs) _) as [ch|] eqn:Em; simpl in Hr; [|discriminate].
    destruct (flat_seq (flat c fuel) ch) as [[[ls ns] b]|] eqn:E; simpl in Hr; [|discriminate].
    injection Hr as <-. destruct (mapM_child_by_key _ _ _ _ Em) as (Hl & _ & _).
    apply (mk_node_enc (flat c fuel) ch KdDDict _ _ _ _ _ (ls, ns, b) b (IH' ch) E); [reflexivity|].
    rewrite Hl. symmetry. apply Permutation.Permutation_length. apply visit_keys_perm.
  - destruct (flat_seq (flat c fuel) cs) as [[[ls ns] b]|] eqn:E; simpl in Hr; [|discriminate].
    injection Hr as <-.
    apply (mk_node_enc (flat c fuel) cs KdDeque _ _ _ _ _ (ls, ns, b) b (IH' cs) E); reflexivity.
  - destruct (flat_seq (flat c fuel) cs) as [[[ls ns] b]|] eqn:E; simpl in Hr; [|discriminate].
    injection Hr as <-.
    apply (mk_node_enc (flat c fuel) cs KdStruct _ _ _ _ _ (ls, ns, b) b (IH' cs) E); reflexivity.
Qed.

(* the treespec flatten returns decodes to a well-formed structured treespec with as many leaves as
   were returned *)
Theorem flatten_decodes c o ls sp :
  flatten c o = Ok (ls, sp) ->
  exists s, sspec_of sp = Some s /\ wf_stree (stree_of s) = true /\
            st_leaves (stree_of s) = length ls /\ spec_of s = sp.
Proof.
  unfold flatten. intros H.
  destruct (flat c (S (c_limit c)) o) as [[[ls' ns] b]|] eqn:E; [|discriminate].
  cbn [bind] in H. injection H as <- <-.
  destruct (flat_enc _ _ _ _ E) as (t & Hn & Hw & Hl). unfold r_ns, r_ls in *. cbn [fst snd] in *.
  exists {| stree_of := t; ss_nil := c_nil c; ss_ns := spec_ns c b |}.
  unfold sspec_of, spec_of. cbn [trav snil sns stree_of ss_nil ss_ns].
  rewrite Hn, decode_encode by (apply wf_arity_ok; exact Hw). repeat split; assumption.
Qed.
