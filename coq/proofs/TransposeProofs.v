(* TransposeProofs.v — tree_transpose returns a tree shaped inner-of-outer whose leaves are the
   transposed values (property C10), by the substitution law of Subst.v. *)
From OptreeModel Require Import Base Tree Flatten Unflatten Spec Construct Ops.
From OptreeProofs Require Import BaseProofs RoundTrip SpecProofs InspectProofs EqProofs FaultProofs DepthProofs Replace ConstructProofs
  FlattenGood UpToPrefix OpsProofs Subst.

(* replacing every leaf by the same treespec is composition *)
Scheme Subst_ind2 := Minimality for Subst Sort Prop
  with SubstL_ind2 := Minimality for SubstL Sort Prop.

Lemma repeat_concat_split {A} (u : A) : forall (tss : list (list A)) k, concat tss = repeat u k ->
  Forall (fun ts => ts = repeat u (length ts)) tss.
Proof.
  induction tss as [|ts tss IH]; intros k H; [constructor|]. cbn [concat] in H.
  assert (Hall : forall x, In x (ts ++ concat tss) -> x = u) by (intros x Hx; rewrite H in Hx; exact (repeat_spec _ _ _ Hx)).
  constructor.
  - clear - Hall. induction ts as [|x ts IHt]; [reflexivity|]. simpl. f_equal; [apply Hall; left; reflexivity|].
    apply IHt. intros y Hy. apply Hall. right. exact Hy.
  - apply (IH (length (concat tss))). clear - Hall. induction (concat tss) as [|x l IHl]; [reflexivity|].
    simpl. f_equal; [apply Hall; apply in_or_app; right; left; reflexivity|].
    apply IHl. intros y Hy. apply Hall. apply in_app_or in Hy as [Hy|Hy]; apply in_or_app; [left; exact Hy | right; right; exact Hy].
Qed.

Lemma subst_repeat u : forall t ts t', Subst t ts t' -> forall k, ts = repeat u k -> t' = st_compose t u.
Proof.
  apply (Subst_ind2
           (fun t ts t' => forall k, ts = repeat u k -> t' = st_compose t u)
           (fun cs tss cs' => Forall (fun ts => exists k, ts = repeat u k) tss -> cs' = map (fun c => st_compose c u) cs)).
  - intros n x Ln k H. destruct k as [|[|k]]; try discriminate H. injection H as ->. cbn [st_compose]. rewrite Ln. reflexivity.
  - intros n cs tss cs' Ln _ IH k H. cbn [st_compose]. rewrite Ln. f_equal. apply IH.
    pose proof (repeat_concat_split u tss k H) as HF. apply Forall_forall. intros ts Hts. rewrite Forall_forall in HF.
    exists (length ts). exact (HF ts Hts).
  - intros _. reflexivity.
  - intros c cs ts tss c' cs' _ IHc _ IHl HF. inversion HF as [|? ? (k & Hk) HFl]; subst.
    cbn [map]. f_equal; [exact (IHc k eq_refl) | exact (IHl HFl)].
Qed.

Lemma unflatten_trav s s' ls : trav s = trav s' -> unflatten s ls = unflatten s' ls.
Proof. intros H. unfold unflatten, sanity. rewrite H. reflexivity. Qed.

Lemma encode_inj t t' : wf_stree t = true -> wf_stree t' = true -> encode t = encode t' -> t = t'.
Proof.
  intros W W' H. pose proof (decode_encode t (wf_arity_ok t W)) as D. rewrite H, (decode_encode t' (wf_arity_ok t' W')) in D.
  injection D as ->. reflexivity.
Qed.

(* every element of a transposed row is one of the values *)
Lemma transposed_in {A} (d : A) n m (ls : list A) row x :
  length ls = (m * n)%nat -> (0 < m)%nat ->
  In row (zip_cols n (chunks n m ls)) -> In x row -> In x ls.
Proof.
  intros Hl Hm Hrow Hx.
  destruct (@transpose_shape A d n m ls Hl Hm) as [Hlen Hrows].
  destruct (In_nth _ _ [] Hrow) as (j & Hj & Hnj). destruct (In_nth _ _ d Hx) as (i & Hi & Hni).
  rewrite Hlen in Hj. rewrite (Hrows row Hrow) in Hi.
  rewrite <- Hni, <- Hnj, (@transpose_nth A d n m ls i j Hl Hi Hj). apply nth_In. nia.
Qed.

Theorem transpose_tree c outer inner o_out o_in lo spo li spi t ls sp :
  let m := st_leaves (stree_of outer) in
  let n := st_leaves (stree_of inner) in
  let ct := {| c_nil := ss_nil outer;
               c_ns := if Z.eqb (ss_ns outer) 0 then ss_ns inner else ss_ns outer;
               c_pred := c_pred c; c_reg := c_reg c; c_ins := c_ins c; c_limit := c_limit c |} in
  Bool.eqb (ss_nil outer) (ss_nil inner) = true -> m <> O -> n <> O ->
  ns_compatible (ss_ns outer) (ss_ns inner) = true -> c_pred c = None ->
  wf_stree (stree_of outer) = true -> wf_stree (stree_of inner) = true ->
  wf_obj o_out = true -> wf_obj o_in = true -> wf_obj t = true ->
  flatten ct o_out = Ok (lo, spo) -> trav spo = encode (stree_of outer) ->
  flatten ct o_in = Ok (li, spi) -> trav spi = encode (stree_of inner) ->
  flatten ct t = Ok (ls, sp) -> length ls = (m * n)%nat ->
  exists r b, tree_transpose c outer inner t = Ok r /\ wf_obj r = true /\
    tflat ct (S (c_limit c) + S (c_limit c)) r =
      Ok (concat (zip_cols n (chunks n m ls)), st_compose (stree_of inner) (stree_of outer), b).
Proof.
  intros m n ct Hnil Hm Hn Hns Hp Wouter Winner Wo Wi Wt Fo Eo Fi Ei Ft Hl.
  assert (Hpt : c_pred ct = None) by exact Hp.
  unfold tree_transpose. rewrite Hnil, Hns. cbn [negb].
  fold m n. destruct (Nat.eqb m 0) eqn:Em; [apply Nat.eqb_eq in Em; contradiction|].
  destruct (Nat.eqb n 0) eqn:En; [apply Nat.eqb_eq in En; contradiction|]. cbn [orb].
  fold ct. rewrite Ft. cbn [bind]. rewrite Hl, Nat.eqb_refl. cbn [negb].
  set (rows := zip_cols n (chunks n m ls)).
  destruct (@transpose_shape obj (Leaf 0) n m ls Hl ltac:(lia)) as [Hrl Hrows]. fold rows in Hrl, Hrows.
  (* the leaves of t are leaves for ct *)
  pose proof Ft as Ft0. unfold flatten in Ft0.
  destruct (flat ct (S (c_limit ct)) t) as [[[l0 ns0] b0]|] eqn:Eft; [|discriminate]. cbn [bind] in Ft0. injection Ft0 as <- <-.
  destruct (tflat_of_flat ct _ t _ _ _ Eft) as (tt & Htt & _ & _).
  pose proof (tflat_leaves_leaflike ct Hpt _ t l0 tt b0 Wt Htt) as Hll.
  (* sizes *)
  assert (Hlo : length lo = m).
  { destruct (flatten_decodes ct o_out lo spo Fo) as (s2 & Hs2 & _ & Hl2 & _). unfold sspec_of in Hs2. rewrite Eo in Hs2.
    rewrite (decode_encode _ (wf_arity_ok _ Wouter)) in Hs2. injection Hs2 as <-. cbn [stree_of] in Hl2. symmetry. exact Hl2. }
  assert (Hli : length li = n).
  { destruct (flatten_decodes ct o_in li spi Fi) as (s2 & Hs2 & _ & Hl2 & _). unfold sspec_of in Hs2. rewrite Ei in Hs2.
    rewrite (decode_encode _ (wf_arity_ok _ Winner)) in Hs2. injection Hs2 as <-. cbn [stree_of] in Hl2. symmetry. exact Hl2. }
  (* every row unflattens with the outer treespec *)
  assert (Hys : exists ys rs, mapM (unflatten (spec_of outer)) rows = Ok ys /\ length ys = length rows /\
            forallb wf_obj ys = true /\
            Forall2 (fun y r => tflat ct (S (c_limit c)) y = Ok r) ys rs /\
            map r_l rs = rows /\ map r_t rs = repeat (stree_of outer) (length rows)).
  { assert (Hrow : forall row, In row rows -> length row = length lo /\ forallb (leaflike ct) row = true).
    { intros row Hr. split; [rewrite Hlo; exact (Hrows row Hr)|]. apply forallb_forall. intros x Hx.
      apply (forallb_In _ _ _ Hll). exact (transposed_in (Leaf 0) n m l0 row x Hl ltac:(lia) Hr Hx). }
    clear Hrl Hrows. induction rows as [|row rows IH]; [exists [], []; repeat split; constructor|].
    destruct (Hrow row (or_introl eq_refl)) as [Lr Llr].
    destruct (flatten_unflatten_replace_wf ct o_out lo spo row Hpt Wo Fo Lr Llr) as (y & Wy & Hy & Fy).
    destruct (IH (fun r Hr => Hrow r (or_intror Hr))) as (ys & rs & Hm' & Ly & Wys & F2 & Hl' & Ht').
    pose proof Fy as Fy0. unfold flatten in Fy0.
    destruct (flat ct (S (c_limit ct)) y) as [[[ly nsy] by0]|] eqn:Ey; [|discriminate]. cbn [bind] in Fy0. injection Fy0 as -> Hsp.
    destruct (tflat_of_flat ct _ y _ _ _ Ey) as (ty & Hty & Hns' & Wty).
    assert (Hty' : ty = stree_of outer).
    { apply encode_inj; [exact Wty | exact Wouter|]. rewrite <- Hns', <- Eo, <- Hsp. reflexivity. }
    exists (y :: ys), ((row, ty, by0) :: rs). repeat split.
    - cbn [mapM]. rewrite (unflatten_trav (spec_of outer) spo row) by (symmetry; exact Eo). rewrite Hy. cbn [bind]. rewrite Hm'. reflexivity.
    - simpl. congruence.
    - simpl. rewrite Wy, Wys. reflexivity.
    - constructor; [exact Hty | exact F2].
    - cbn [map r_l fst]. rewrite Hl'. reflexivity.
    - cbn [map r_t fst snd length repeat]. rewrite Ht', Hty'. reflexivity. }
  destruct Hys as (ys & rs & Hm' & Ly & Wys & F2 & Hl' & Ht'). rewrite Hm'. cbn [bind].
  rewrite (unflatten_trav (spec_of inner) spi ys) by (symmetry; exact Ei).
  destruct (unflatten_trees_then_flatten ct o_in li spi ys rs (S (c_limit c)) Hpt Wi Fi) as (r & ti & t' & b & Hd & Hu & Wr & HS & HT);
    [congruence | exact F2 | exact Wys|].
  exists r, (b || existsb r_b rs). split; [exact Hu | split; [exact Wr|]].
  rewrite Ei, (decode_encode _ (wf_arity_ok _ Winner)) in Hd. injection Hd as <-.
  rewrite Ht' in HS. rewrite (subst_repeat (stree_of outer) _ _ _ HS (length rows) eq_refl) in HT.
  rewrite Hl' in HT. exact HT.
Qed.
