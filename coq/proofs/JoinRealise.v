(* JoinRealise.v — the common suffix of the treespecs of two trees is itself the treespec of a tree
   (property C09): tree_broadcast_common can always build the tree it flattens the operands up to. *)
From OptreeModel Require Import Base Tree Flatten Unflatten Spec Construct Depth.
From OptreeProofs Require Import BaseProofs RoundTrip SpecProofs InspectProofs EqProofs OrderProofs PrefixOrder JoinOrder JoinLeast
  FaultProofs DepthProofs Replace ConstructProofs FlattenGood UpToPrefix PrefixAntisym Subst.
From Coq Require Import Permutation.

Definition Flat (c : cfg) (fuel : nat) (x : obj) (t : stree) : Prop := exists lx bx, tflat c fuel x = Ok (lx, t, bx).

Lemma tflat_seq_of_Forall2 c fuel : forall l ts, Forall2 (Flat c fuel) l ts ->
  exists ls b, tflat_seq (tflat c fuel) l = Ok (ls, ts, b).
Proof.
  induction 1 as [|x t l ts (lx & bx & Hx) _ (ls & b & IH)]; [exists [], false; reflexivity|].
  exists (lx ++ ls), (bx || b). cbn [tflat_seq]. rewrite Hx, IH. reflexivity.
Qed.

(* children joined pairwise are realised pairwise *)
Lemma join_list_realise c fuel : forall ch1 ts1 ch2 ts2 r,
  Forall2 (Flat c fuel) ch1 ts1 -> Forall2 (Flat c fuel) ch2 ts2 ->
  forallb wf_obj ch1 = true -> forallb wf_obj ch2 = true ->
  (forall x1 x2 u1 u2 j, In x1 ch1 -> wf_obj x1 = true -> wf_obj x2 = true -> Flat c fuel x1 u1 -> Flat c fuel x2 u2 ->
                          st_join u1 u2 = Ok j -> exists oj, wf_obj oj = true /\ Flat c fuel oj j) ->
  join_list ts1 ts2 = Ok r ->
  exists ojs, length ojs = length ch1 /\ forallb wf_obj ojs = true /\ Forall2 (Flat c fuel) ojs r.
Proof.
  induction ch1 as [|x1 ch1 IH]; intros ts1 ch2 ts2 r F1 F2 W1 W2 HJ Hj; inversion F1 as [|? u1 ? ts1' Hx1 F1']; subst.
  - destruct ts2; simpl in Hj; [|discriminate]. injection Hj as <-. exists []. repeat split; constructor.
  - destruct ts2 as [|u2 ts2]; simpl in Hj; [discriminate|]. inversion F2 as [|x2 ? ch2' ? Hx2 F2']; subst.
    destruct (join_list ts1' ts2) as [rest|] eqn:Er; simpl in Hj; [|discriminate].
    destruct (st_join u1 u2) as [j|] eqn:Ej; simpl in Hj; [|discriminate]. injection Hj as <-.
    simpl in W1, W2. apply andb_true_iff in W1 as [Wx1 W1]. apply andb_true_iff in W2 as [Wx2 W2].
    destruct (HJ x1 x2 u1 u2 j (or_introl eq_refl) Wx1 Wx2 Hx1 Hx2 Ej) as (oj & Woj & Foj).
    destruct (IH ts1' ch2' ts2 rest F1' F2' W1 W2 (fun a b' c' d e Hin => HJ a b' c' d e (or_intror Hin)) Er) as (ojs & Lo & Wo & Fo).
    exists (oj :: ojs). repeat split; [simpl; congruence | simpl; rewrite Woj, Wo; reflexivity | constructor; assumption].
Qed.

Lemma node_of_keys k cu h vks a ts :
  is_dict_kind k = true -> (match h with HDict _ | HODict _ | HDDict _ _ => True | _ => False end) ->
  node_keys (recount (node_of k cu h vks a) ts) = Some vks.
Proof. intros Hk Hh. destruct k; try discriminate Hk; destruct h; try contradiction; reflexivity. Qed.

Lemma dict_header_facts c h cs k cu :
  get_kind c (Node h cs) = (k, cu) -> is_dict_kind k = true -> wf_hdr h (length cs) = true ->
  exists ks, (match h with HDict _ | HODict _ | HDDict _ _ => True | _ => False end) /\
             visited c h cs = mapM (child_by_key ks cs) (vkeys c h) /\
             Permutation (vkeys c h) ks /\ NoDup ks /\ length ks = length cs.
Proof.
  intros Ek Hd Hw.
  destruct h; simpl in Ek; try (injection Ek as <- _; discriminate Hd);
    try (destruct (c_nil c); injection Ek as <- _; discriminate Hd);
    try (destruct (lookup_reg c cls); injection Ek as <- _; discriminate Hd).
  all: simpl in Hw; apply andb_true_iff in Hw as [Hl Hn]; apply Nat.eqb_eq in Hl; apply keys_nodup_NoDup in Hn;
       exists ks; repeat split; try assumption; try exact I; cbn [vkeys]; apply visit_keys_perm.
Qed.

Theorem join_realise c : c_pred c = None -> forall fuel o1 o2 ls1 t1 b1 ls2 t2 b2 j,
  wf_obj o1 = true -> wf_obj o2 = true ->
  tflat c fuel o1 = Ok (ls1, t1, b1) -> tflat c fuel o2 = Ok (ls2, t2, b2) -> st_join t1 t2 = Ok j ->
  exists oj, wf_obj oj = true /\ Flat c fuel oj j.
Proof.
  intros Hp. assert (Hap : forall x, apply_pred c x = false) by (intros; unfold apply_pred; rewrite Hp; reflexivity).
  induction fuel as [|fuel IH]; intros o1 o2 ls1 t1 b1 ls2 t2 b2 j W1 W2 H1 H2 Hj; [discriminate|].
  (* the first operand is a leaf here: the other operand's subtree *)
  assert (Hleaf1 : t1 = st_leaf -> exists oj, wf_obj oj = true /\ Flat c (S fuel) oj j).
  { intros ->. rewrite join_leaf_l in Hj. injection Hj as <-. exists o2. split; [exact W2 | eexists; eexists; exact H2]. }
  destruct o1 as [id1|h1 cs1].
  { apply Hleaf1. cbn [tflat] in H1. rewrite Hap in H1. destruct (get_kind c (Leaf id1)). injection H1 as _ <- _. reflexivity. }
  destruct (get_kind c (Node h1 cs1)) as [k1 cu1] eqn:Ek1.
  destruct (kind_eqb k1 KdLeaf) eqn:Kl1.
  { apply Hleaf1. apply kind_eqb_eq in Kl1. subst k1. cbn [tflat] in H1. rewrite Hap, Ek1 in H1. injection H1 as _ <- _. reflexivity. }
  pose proof W1 as W10. simpl in W1. apply andb_true_iff in W1 as [Wh1 Wcs1].
  destruct (tflat_node_inv c fuel h1 cs1 ls1 t1 b1 k1 cu1 (Hap _) Ek1 Kl1 Wh1 H1) as (ch1 & ts1 & b01 & Hv1 & Hs1 & -> & -> & Hok1).
  set (nd1 := node_of k1 cu1 h1 (vkeys c h1) (length ts1)) in *.
  assert (Hna : is_leaf_node (recount nd1 ts1) = false).
  { unfold is_leaf_node. cbn [recount nkind]. unfold nd1. rewrite node_of_kind. exact Kl1. }
  (* the second operand is a leaf here: this operand's subtree *)
  assert (Hleaf2 : t2 = st_leaf -> exists oj, wf_obj oj = true /\ Flat c (S fuel) oj j).
  { intros ->. rewrite (join_leaf_r (mkT nd1 ts1) Hna) in Hj. injection Hj as <-.
    exists (Node h1 cs1). split; [exact W10 | eexists; eexists; exact H1]. }
  destruct o2 as [id2|h2 cs2].
  { apply Hleaf2. cbn [tflat] in H2. rewrite Hap in H2. destruct (get_kind c (Leaf id2)). injection H2 as _ <- _. reflexivity. }
  destruct (get_kind c (Node h2 cs2)) as [k2 cu2] eqn:Ek2.
  destruct (kind_eqb k2 KdLeaf) eqn:Kl2.
  { apply Hleaf2. apply kind_eqb_eq in Kl2. subst k2. cbn [tflat] in H2. rewrite Hap, Ek2 in H2. injection H2 as _ <- _. reflexivity. }
  pose proof W2 as W20. simpl in W2. apply andb_true_iff in W2 as [Wh2 Wcs2].
  destruct (tflat_node_inv c fuel h2 cs2 ls2 t2 b2 k2 cu2 (Hap _) Ek2 Kl2 Wh2 H2) as (ch2 & ts2 & b02 & Hv2 & Hs2 & -> & -> & Hok2).
  set (nd2 := node_of k2 cu2 h2 (vkeys c h2) (length ts2)) in *.
  assert (Hnb : is_leaf_node (recount nd2 ts2) = false).
  { unfold is_leaf_node. cbn [recount nkind]. unfold nd2. rewrite node_of_kind. exact Kl2. }
  assert (Hsub1 : forall x, In x ch1 -> In x cs1).
  { intros x Hx. destruct h1; cbn [visited] in Hv1; try (injection Hv1 as <-; exact Hx);
      exact (proj2 (proj2 (mapM_child_by_key _ _ _ _ Hv1)) x Hx). }
  assert (Wch1 : forallb wf_obj ch1 = true) by (apply forallb_forall; intros x Hx; exact (forallb_In _ _ _ Wcs1 (Hsub1 x Hx))).
  pose proof (tflat_seq_Forall2 _ _ _ _ _ Hs1) as F1. pose proof (tflat_seq_Forall2 _ _ _ _ _ Hs2) as F2.
  (* the step shared by all kinds: the children of the other node in this node's order *)
  assert (Hkids : forall ch2' ts2', Forall2 (Flat c fuel) ch2' ts2' -> forallb wf_obj ch2' = true ->
            join_kids (recount nd1 ts1) ts1 ts2' = Ok j -> exists oj, wf_obj oj = true /\ Flat c (S fuel) oj j).
  { intros ch2' ts2' F2' W2' Hk. unfold join_kids in Hk.
    destruct (join_list ts1 ts2') as [r|] eqn:Er; cbn [bind] in Hk; [|discriminate]. injection Hk as <-.
    destruct (join_list_realise c fuel ch1 ts1 ch2' ts2' r F1 F2' Wch1 W2') as (ojs & Lo & Wo & Fo); [|exact Er|].
    { intros x1 x2 u1 u2 j0 Hin Wx1 Wx2 (lx1 & bx1 & Hx1) (lx2 & bx2 & Hx2) Hj0.
      exact (IH x1 x2 lx1 u1 bx1 lx2 u2 bx2 j0 Wx1 Wx2 Hx1 Hx2 Hj0). }
    destruct (restore_spec c h1 cs1 ch1 ojs Wh1 Hv1 Lo) as (Lr & Vr & Inr).
    destruct (tflat_seq_of_Forall2 c fuel ojs r Fo) as (lsj & bj & Hsj).
    exists (Node h1 (restore c h1 ojs)). split.
    - simpl. rewrite Lr, Wh1. apply forallb_forall. intros x Hx. exact (forallb_In _ _ _ Wo (Inr x Hx)).
    - exists lsj, (bj || is_custom_kind k1).
      assert (Ek1' : get_kind c (Node h1 (restore c h1 ojs)) = (k1, cu1)) by (rewrite <- Ek1; reflexivity).
      assert (Wh1' : wf_hdr h1 (length (restore c h1 ojs)) = true) by (rewrite Lr; exact Wh1).
      assert (Hok1' : node_ok h1 (length (restore c h1 ojs))) by (unfold node_ok in *; rewrite Lr; exact Hok1).
      rewrite (tflat_node_intro c fuel h1 (restore c h1 ojs) ojs lsj r bj k1 cu1 (Hap _) Ek1' Kl1 Wh1' Hok1' Vr Hsj).
      unfold mkT. unfold nd1. rewrite recount_node_of with (a' := length r). reflexivity. }
  unfold mkT in Hj. rewrite st_join_unfold, Hna, Hnb in Hj.
  assert (Hk1 : nkind (recount nd1 ts1) = k1) by (cbn [recount nkind]; unfold nd1; apply node_of_kind).
  assert (Wch2 : forallb wf_obj ch2 = true).
  { apply forallb_forall. intros x Hx. apply (forallb_In _ _ _ Wcs2).
    destruct h2; cbn [visited] in Hv2; try (injection Hv2 as <-; exact Hx);
      exact (proj2 (proj2 (mapM_child_by_key _ _ _ _ Hv2)) x Hx). }
  rewrite Hk1 in Hj.
  destruct k1; try discriminate Kl1.
  - repeat match type of Hj with (if ?cc then _ else _) = _ => destruct cc; [discriminate|] end. exact (Hkids ch2 ts2 F2 Wch2 Hj).
  - destruct (kind_eqb _ KdNone); [|discriminate]. injection Hj as <-.
    exists (Node h1 cs1). split; [exact W10 | eexists; eexists; exact H1].
  - repeat match type of Hj with (if ?cc then _ else _) = _ => destruct cc; [discriminate|] end. exact (Hkids ch2 ts2 F2 Wch2 Hj).
  - repeat match type of Hj with (if ?cc then _ else _) = _ => destruct cc; [discriminate|] end. exact (Hkids ch2 ts2 F2 Wch2 Hj).
  - (* dict-like: the other node's children fetched by this node's keys *)
    destruct (is_dict_kind k2) eqn:Dk2.
    2:{ cbn [recount nkind] in Hj. unfold nd2 in Hj. rewrite node_of_kind, Dk2 in Hj. discriminate Hj. }
    cbn [recount nkind] in Hj. unfold nd2 in Hj. rewrite node_of_kind, Dk2 in Hj. cbn [negb] in Hj.
    destruct (dict_header_facts c h1 cs1 _ cu1 Ek1 eq_refl Wh1) as (ks1 & Hh1 & Vis1 & P1 & N1 & L1).
    destruct (dict_header_facts c h2 cs2 k2 cu2 Ek2 Dk2 Wh2) as (ks2 & Hh2 & Vis2 & P2 & N2 & L2).
    unfold nd1, nd2 in Hj. rewrite !node_of_keys in Hj by (first [reflexivity | exact Dk2 | exact Hh1 | exact Hh2]).
    destruct (keys_same_set (vkeys c h1) (vkeys c h2)) eqn:Sk; cbn [negb] in Hj; [|discriminate].
    assert (Nv1 : NoDup (vkeys c h1)) by (eapply Permutation_NoDup; [symmetry; exact P1 | exact N1]).
    assert (Nv2 : NoDup (vkeys c h2)) by (eapply Permutation_NoDup; [symmetry; exact P2 | exact N2]).
    assert (Hsubk : forall k, In k (vkeys c h1) -> In k (vkeys c h2)) by (exact (PrefixAntisym.same_set_incl _ _ Sk)).
    destruct (mapM_child_by_key_ok ks2 cs2 (vkeys c h1) N2 L2) as (ch2' & Hm2').
    { intros k Hk. eapply Permutation_in; [exact P2 | exact (Hsubk k Hk)]. }
    rewrite Vis2 in Hv2.
    destruct (trees_by_key c fuel ks2 cs2 (vkeys c h2) ch2 ts2 Nv2 Hv2 F2 (vkeys c h1) ch2' Hsubk Hm2') as (tso' & Hal & F2').
    rewrite Hal in Hj.
    apply (Hkids ch2' tso' F2'); [|exact Hj].
    apply forallb_forall. intros x Hx. apply (forallb_In _ _ _ Wcs2). exact (proj2 (proj2 (mapM_child_by_key _ _ _ _ Hm2')) x Hx).
  - repeat match type of Hj with (if ?cc then _ else _) = _ => destruct cc; [discriminate|] end. exact (Hkids ch2 ts2 F2 Wch2 Hj).
  - (* dict-like: the other node's children fetched by this node's keys *)
    destruct (is_dict_kind k2) eqn:Dk2.
    2:{ cbn [recount nkind] in Hj. unfold nd2 in Hj. rewrite node_of_kind, Dk2 in Hj. discriminate Hj. }
    cbn [recount nkind] in Hj. unfold nd2 in Hj. rewrite node_of_kind, Dk2 in Hj. cbn [negb] in Hj.
    destruct (dict_header_facts c h1 cs1 _ cu1 Ek1 eq_refl Wh1) as (ks1 & Hh1 & Vis1 & P1 & N1 & L1).
    destruct (dict_header_facts c h2 cs2 k2 cu2 Ek2 Dk2 Wh2) as (ks2 & Hh2 & Vis2 & P2 & N2 & L2).
    unfold nd1, nd2 in Hj. rewrite !node_of_keys in Hj by (first [reflexivity | exact Dk2 | exact Hh1 | exact Hh2]).
    destruct (keys_same_set (vkeys c h1) (vkeys c h2)) eqn:Sk; cbn [negb] in Hj; [|discriminate].
    assert (Nv1 : NoDup (vkeys c h1)) by (eapply Permutation_NoDup; [symmetry; exact P1 | exact N1]).
    assert (Nv2 : NoDup (vkeys c h2)) by (eapply Permutation_NoDup; [symmetry; exact P2 | exact N2]).
    assert (Hsubk : forall k, In k (vkeys c h1) -> In k (vkeys c h2)) by (exact (PrefixAntisym.same_set_incl _ _ Sk)).
    destruct (mapM_child_by_key_ok ks2 cs2 (vkeys c h1) N2 L2) as (ch2' & Hm2').
    { intros k Hk. eapply Permutation_in; [exact P2 | exact (Hsubk k Hk)]. }
    rewrite Vis2 in Hv2.
    destruct (trees_by_key c fuel ks2 cs2 (vkeys c h2) ch2 ts2 Nv2 Hv2 F2 (vkeys c h1) ch2' Hsubk Hm2') as (tso' & Hal & F2').
    rewrite Hal in Hj.
    apply (Hkids ch2' tso' F2'); [|exact Hj].
    apply forallb_forall. intros x Hx. apply (forallb_In _ _ _ Wcs2). exact (proj2 (proj2 (mapM_child_by_key _ _ _ _ Hm2')) x Hx).
  - (* dict-like: the other node's children fetched by this node's keys *)
    destruct (is_dict_kind k2) eqn:Dk2.
    2:{ cbn [recount nkind] in Hj. unfold nd2 in Hj. rewrite node_of_kind, Dk2 in Hj. discriminate Hj. }
    cbn [recount nkind] in Hj. unfold nd2 in Hj. rewrite node_of_kind, Dk2 in Hj. cbn [negb] in Hj.
    destruct (dict_header_facts c h1 cs1 _ cu1 Ek1 eq_refl Wh1) as (ks1 & Hh1 & Vis1 & P1 & N1 & L1).
    destruct (dict_header_facts c h2 cs2 k2 cu2 Ek2 Dk2 Wh2) as (ks2 & Hh2 & Vis2 & P2 & N2 & L2).
    unfold nd1, nd2 in Hj. rewrite !node_of_keys in Hj by (first [reflexivity | exact Dk2 | exact Hh1 | exact Hh2]).
    destruct (keys_same_set (vkeys c h1) (vkeys c h2)) eqn:Sk; cbn [negb] in Hj; [|discriminate].
    assert (Nv1 : NoDup (vkeys c h1)) by (eapply Permutation_NoDup; [symmetry; exact P1 | exact N1]).
    assert (Nv2 : NoDup (vkeys c h2)) by (eapply Permutation_NoDup; [symmetry; exact P2 | exact N2]).
    assert (Hsubk : forall k, In k (vkeys c h1) -> In k (vkeys c h2)) by (exact (PrefixAntisym.same_set_incl _ _ Sk)).
    destruct (mapM_child_by_key_ok ks2 cs2 (vkeys c h1) N2 L2) as (ch2' & Hm2').
    { intros k Hk. eapply Permutation_in; [exact P2 | exact (Hsubk k Hk)]. }
    rewrite Vis2 in Hv2.
    destruct (trees_by_key c fuel ks2 cs2 (vkeys c h2) ch2 ts2 Nv2 Hv2 F2 (vkeys c h1) ch2' Hsubk Hm2') as (tso' & Hal & F2').
    rewrite Hal in Hj.
    apply (Hkids ch2' tso' F2'); [|exact Hj].
    apply forallb_forall. intros x Hx. apply (forallb_In _ _ _ Wcs2). exact (proj2 (proj2 (mapM_child_by_key _ _ _ _ Hm2')) x Hx).
  - repeat match type of Hj with (if ?cc then _ else _) = _ => destruct cc; [discriminate|] end. exact (Hkids ch2 ts2 F2 Wch2 Hj).
  - repeat match type of Hj with (if ?cc then _ else _) = _ => destruct cc; [discriminate|] end. exact (Hkids ch2 ts2 F2 Wch2 Hj).
Qed.
