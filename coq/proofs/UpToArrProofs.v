(* UpToArrProofs.v — the C++ FlattenUpTo loop (reverse iterator, agenda, result filled from the end:
   theories/UpToArr.v) computes the tree-level flatten_up_to of the model (property C07). *)
From OptreeModel Require Import Base Tree Flatten Unflatten Spec Construct PrefixArr UpToArr.
From OptreeProofs Require Import BaseProofs RoundTrip SpecProofs InspectProofs EqProofs OrderProofs PrefixOrder JoinOrder
  ConstructProofs FlattenGood UpToPrefix PrefixArrProofs.

(* one level of the tree-level definition, in terms of the per-node case analysis of the loop *)
Lemma up_to_unfold c n ts o :
  good (T n ts) = true ->
  up_to c (T n ts) o =
  if is_leaf_node n then Ok [o]
  else do cu <- node_children c n o ;; do r <- mapM_rev2 (up_to c) ts cu ;; Ok (concat r).
Proof.
  intros G. destruct (good_node n ts G) as (_ & _ & _ & Nn & _ & _).
  cbn [up_to]. unfold node_children, is_leaf_node.
  destruct (nkind n) eqn:Ek; cbn [kind_eqb kind_code Z.eqb]; try reflexivity.
  - (* custom *)
    destruct o as [id|h cs]; [reflexivity|]. destruct h; try reflexivity.
    destruct (negb (opt_reg_eqb (lookup_reg c cls) (ncustom n))); [reflexivity|].
    destruct eb; try reflexivity;
      (destruct (negb (ndata_eqb (ndat n) _)); [reflexivity|]; destruct (negb (Nat.eqb (length cs) (narity n))); reflexivity).
  - (* None *)
    rewrite (Nn eq_refl). destruct o as [id|h cs]; [reflexivity|]. destruct h; reflexivity.
  - destruct o as [id|h cs]; [reflexivity|].
    destruct (match exact_kind_of (Node h cs) with Some k => kind_eqb k KdTuple | None => false end); [|reflexivity].
    destruct (Nat.eqb (length cs) (narity n)); reflexivity.
  - destruct o as [id|h cs]; [reflexivity|].
    destruct (match exact_kind_of (Node h cs) with Some k => kind_eqb k KdList | None => false end); [|reflexivity].
    destruct (Nat.eqb (length cs) (narity n)); reflexivity.
  - destruct o as [id|h cs]; [reflexivity|]. destruct (hdr_keys h); [|reflexivity].
    destruct (node_keys n); [|reflexivity]. destruct (keys_same_set _ _); reflexivity.
  - destruct o as [id|h cs]; [reflexivity|].
    destruct (negb _); [reflexivity|]. destruct (negb _); [reflexivity|]. destruct (negb _); reflexivity.
  - destruct o as [id|h cs]; [reflexivity|]. destruct (hdr_keys h); [|reflexivity].
    destruct (node_keys n); [|reflexivity]. destruct (keys_same_set _ _); reflexivity.
  - destruct o as [id|h cs]; [reflexivity|]. destruct (hdr_keys h); [|reflexivity].
    destruct (node_keys n); [|reflexivity]. destruct (keys_same_set _ _); reflexivity.
  - destruct o as [id|h cs]; [reflexivity|].
    destruct (match exact_kind_of (Node h cs) with Some k => kind_eqb k KdDeque | None => false end); [|reflexivity].
    destruct (Nat.eqb (length cs) (narity n)); reflexivity.
  - destruct o as [id|h cs]; [reflexivity|].
    destruct (negb _); [reflexivity|]. destruct (negb _); [reflexivity|]. destruct (negb _); reflexivity.
Qed.

Lemma node_children_length c n ts o cu : good (T n ts) = true -> is_leaf_node n = false ->
  node_children c n o = Ok cu -> length cu = length ts.
Proof.
  intros G Ln H. destruct (good_node n ts G) as (Ar & Dn & _ & Nn & _ & _). rewrite <- Ar.
  unfold node_children, is_leaf_node in *.
  assert (Hdict : is_dict_kind (nkind n) = true ->
            match o with
            | Node h cs => match hdr_keys h, node_keys n with
                           | Some oks, Some ks => if keys_same_set ks oks then mapM (child_by_key oks cs) ks else Err ValueError
                           | _, _ => Err ValueError end
            | _ => Err ValueError end = Ok cu -> length cu = narity n).
  { intros D Hd. destruct (Dn D) as (ks & Hks & Hl & _). rewrite Ar, <- Hl.
    destruct o as [id|h cs]; [discriminate|]. destruct (hdr_keys h) as [oks|]; [|discriminate]. rewrite Hks in Hd.
    destruct (keys_same_set ks oks); [|discriminate]. exact (proj1 (mapM_child_by_key _ _ _ _ Hd)). }
  destruct (nkind n) eqn:Ek; try discriminate Ln; try (apply Hdict; [reflexivity | exact H]).
  - destruct o as [id|h cs]; [discriminate|]. destruct h; try discriminate H.
    destruct (negb (opt_reg_eqb _ _)); [discriminate|].
    destruct eb; try discriminate H;
      (destruct (negb (ndata_eqb _ _)); [discriminate|]; destruct (Nat.eqb (length cs) (narity n)) eqn:E; [|discriminate];
       injection H as <-; apply Nat.eqb_eq; exact E).
  - rewrite Ar, (Nn eq_refl). destruct o as [id|h cs]; [discriminate|]. destruct h; try discriminate H. injection H as <-. reflexivity.
  - destruct o as [id|h cs]; [discriminate|].
    destruct (match exact_kind_of _ with Some _ => _ | None => _ end); [|discriminate].
    destruct (Nat.eqb (length cs) (narity n)) eqn:E; [|discriminate]. injection H as <-. apply Nat.eqb_eq. exact E.
  - destruct o as [id|h cs]; [discriminate|].
    destruct (match exact_kind_of _ with Some _ => _ | None => _ end); [|discriminate].
    destruct (Nat.eqb (length cs) (narity n)) eqn:E; [|discriminate]. injection H as <-. apply Nat.eqb_eq. exact E.
  - destruct o as [id|h cs]; [discriminate|].
    destruct (negb _); [discriminate|]. destruct (Nat.eqb (length cs) (narity n)) eqn:E; [|discriminate]. cbn [negb] in H.
    destruct (negb _); [discriminate|]. injection H as <-. apply Nat.eqb_eq. exact E.
  - destruct o as [id|h cs]; [discriminate|].
    destruct (match exact_kind_of _ with Some _ => _ | None => _ end); [|discriminate].
    destruct (Nat.eqb (length cs) (narity n)) eqn:E; [|discriminate]. injection H as <-. apply Nat.eqb_eq. exact E.
  - destruct o as [id|h cs]; [discriminate|].
    destruct (negb _); [discriminate|]. destruct (Nat.eqb (length cs) (narity n)) eqn:E; [|discriminate]. cbn [negb] in H.
    destruct (negb _); [discriminate|]. injection H as <-. apply Nat.eqb_eq. exact E.
Qed.

(* mapM_rev2 visits the last pair first *)
Lemma mapM_rev2_snoc {A B C} (f : A -> B -> res C) : forall l l' x y, length l = length l' ->
  mapM_rev2 f (l ++ [x]) (l' ++ [y]) = do r <- f x y ;; do rest <- mapM_rev2 f l l' ;; Ok (rest ++ [r]).
Proof.
  induction l as [|a l IH]; intros [|b l'] x y Hl; try discriminate Hl.
  - simpl. destruct (f x y); reflexivity.
  - injection Hl as Hl. cbn [app mapM_rev2]. rewrite (IH l' x y Hl).
    destruct (f x y) as [r|]; cbn [bind]; [|reflexivity].
    destruct (mapM_rev2 f l l') as [rest|]; cbn [bind]; [|reflexivity].
    destruct (f a b); reflexivity.
Qed.

(* the number of subtrees returned is the treespec's number of leaves *)
Lemma up_to_count c : forall t o subs, wf_stree t = true -> good t = true ->
  up_to c t o = Ok subs -> length subs = st_leaves t.
Proof.
  induction t as [n ts IH] using stree_ind'. intros o subs W G H.
  destruct (wf_unfold n ts W) as (Ar & _ & Lv & Wts). pose proof (good_children n ts G) as Gts.
  rewrite (up_to_unfold c n ts o G) in H. unfold st_leaves. cbn [st_node].
  destruct (is_leaf_node n) eqn:Ln.
  { injection H as <-. destruct Lv as [-> _]. reflexivity. }
  rewrite Lv. destruct (node_children c n o) as [cu|]; cbn [bind] in H; [|discriminate].
  destruct (mapM_rev2 (up_to c) ts cu) as [r|] eqn:Em; cbn [bind] in H; [|discriminate]. injection H as <-.
  clear - IH Wts Gts Em. revert cu r Em.
  induction ts as [|t ts IHl]; intros [|x cu] r Em; simpl in Em; try discriminate.
  - injection Em as <-. reflexivity.
  - destruct (mapM_rev2 (up_to c) ts cu) as [rest|] eqn:Er; cbn [bind] in Em; [|discriminate].
    destruct (up_to c t x) as [s|] eqn:Es; cbn [bind] in Em; [|discriminate]. injection Em as <-.
    inversion IH as [|? ? Ht IHts]; subst. simpl in Wts, Gts.
    apply andb_true_iff in Wts as [Wt Wts]. apply andb_true_iff in Gts as [Gt Gts].
    cbn [concat map sum_nat fold_right]. rewrite app_length, (Ht x s Wt Gt Es). f_equal.
    exact (IHl IHts Wts Gts cu rest Er).
Qed.

Definition FSim (c : cfg) (t : stree) : Prop := forall o ra' ag' acc rem,
  wf_stree t = true -> good t = true -> (st_leaves t <= rem)%nat ->
  fut c (renc t ++ ra') (o :: ag') acc rem =
  match up_to c t o with
  | Ok subs => fut c ra' ag' (subs ++ acc) (rem - st_leaves t)%nat
  | Err e => Err e
  end.

Lemma fsim_list c : forall lt, Forall (FSim c) lt -> forall lo ra' ag' acc rem,
  length lt = length lo -> forallb wf_stree lt = true -> forallb good lt = true ->
  (sum_nat (map st_leaves lt) <= rem)%nat ->
  fut c (flat_map renc lt ++ ra') (lo ++ ag') acc rem =
  match mapM_rev2 (up_to c) (rev lt) (rev lo) with
  | Ok rs => fut c ra' ag' (concat rs ++ acc) (rem - sum_nat (map st_leaves lt))%nat
  | Err e => Err e
  end.
Proof.
  induction lt as [|x lt IH]; intros HF [|y lo] ra' ag' acc rem Hl W G Hrem; try discriminate Hl.
  - simpl. rewrite Nat.sub_0_r. reflexivity.
  - injection Hl as Hl. inversion HF as [|? ? Fx Flt]; subst. simpl in W, G, Hrem.
    apply andb_true_iff in W as [Wx W]. apply andb_true_iff in G as [Gx G].
    cbn [flat_map app rev]. rewrite <- app_assoc.
    rewrite (Fx y _ (lo ++ ag') acc rem Wx Gx ltac:(lia)).
    rewrite mapM_rev2_snoc by (rewrite !rev_length; exact Hl).
    destruct (up_to c x y) as [sub|] eqn:Eu; cbn [bind]; [|reflexivity].
    rewrite (IH Flt lo ra' ag' (sub ++ acc) (rem - st_leaves x)%nat Hl W G) by lia.
    destruct (mapM_rev2 (up_to c) (rev lt) (rev lo)) as [rs|]; cbn [bind]; [|reflexivity].
    rewrite concat_app. cbn [concat]. rewrite app_nil_r, <- app_assoc.
    change (sum_nat (map st_leaves (x :: lt))) with (st_leaves x + sum_nat (map st_leaves lt))%nat.
    f_equal. lia.
Qed.

Theorem fsim c : forall t, FSim c t.
Proof.
  induction t as [n ts IH] using stree_ind'. intros o ra' ag' acc rem W G Hrem.
  destruct (wf_unfold n ts W) as (Ar & _ & Lv & Wts). pose proof (good_children n ts G) as Gts.
  rewrite (up_to_unfold c n ts o G), renc_unfold. cbn [app fut]. unfold st_leaves in *. cbn [st_node] in *.
  destruct (is_leaf_node n) eqn:Ln.
  - destruct Lv as [Hl ->]. rewrite Hl in *. cbn [rev flat_map app].
    destruct rem as [|rem']; [lia|]. cbn [app]. f_equal. lia.
  - rewrite Lv in *. destruct (node_children c n o) as [cu|] eqn:En; cbn [bind]; [|reflexivity].
    pose proof (node_children_length c n ts o cu G Ln En) as Hlen.
    rewrite (fsim_list c (rev ts) (Forall_rev IH) (rev cu) ra' ag' acc rem).
    + rewrite !rev_involutive. destruct (mapM_rev2 (up_to c) ts cu) as [r|]; cbn [bind]; [|reflexivity].
      rewrite map_rev, <- (sum_nat_perm _ _ (Permutation.Permutation_rev (map st_leaves ts))). reflexivity.
    + rewrite !rev_length. congruence.
    + apply forallb_rev. exact Wts.
    + apply forallb_rev. exact Gts.
    + rewrite map_rev. rewrite <- (sum_nat_perm _ _ (Permutation.Permutation_rev _)). exact Hrem.
Qed.

(* ---------- PyTreeSpec::FlattenUpTo ---------- *)
Theorem arr_flatten_up_to_spec c t nl ns o :
  wf_stree t = true -> good t = true ->
  arr_flatten_up_to c {| trav := encode t; snil := nl; sns := ns |} o = up_to c t o.
Proof.
  intros W G. unfold arr_flatten_up_to. cbn [trav].
  destruct (renc_head t) as (tl & Hh). unfold renc in Hh. rewrite Hh. rewrite <- Hh.
  pose proof (fsim c t o [] [] [] (st_leaves t) W G (le_n _)) as H.
  unfold renc in H. rewrite app_nil_r in H. unfold st_leaves in H at 1. rewrite H.
  destruct (up_to c t o) as [subs|]; [|reflexivity].
  rewrite Nat.sub_diag, app_nil_r. reflexivity.
Qed.

Theorem arr_flatten_up_to_of_flattened c o1 ls1 sp1 s1 o :
  wf_obj o1 = true -> flatten c o1 = Ok (ls1, sp1) -> sspec_of sp1 = Some s1 ->
  arr_flatten_up_to {| c_nil := snil sp1; c_ns := sns sp1; c_pred := None; c_reg := c_reg c; c_ins := []; c_limit := 0 |} sp1 o
  = ss_flatten_up_to (c_reg c) s1 o.
Proof.
  intros W F S.
  destruct (flatten_facts c o1 ls1 sp1 W F) as (s & E & <- & Wt & G & _). rewrite S in E. injection E as <-.
  unfold ss_flatten_up_to, spec_of. cbn [snil sns]. apply arr_flatten_up_to_spec; assumption.
Qed.
