(* RavelProofs.v — tree_ravel and its unravel function are mutually inverse (property C20). *)
From OptreeModel Require Import Ravel.

Lemma split_by_sizes_concat {A} (chunks : list (list A)) :
  split_by_sizes (map (@length A) chunks) (concat chunks) = chunks.
Proof.
  induction chunks as [|c cs IH]; [reflexivity|]. simpl.
  rewrite firstn_app, Nat.sub_diag, firstn_all. simpl. rewrite app_nil_r.
  rewrite skipn_app, Nat.sub_diag, skipn_all. simpl. rewrite IH. reflexivity.
Qed.

Lemma concat_split_by_sizes {A} sizes : forall (v : list A),
  fold_right Nat.add 0%nat sizes = length v -> concat (split_by_sizes sizes v) = v.
Proof.
  induction sizes as [|s sizes IH]; intros v H; simpl in *.
  - destruct v; [reflexivity | discriminate].
  - rewrite IH; [apply firstn_skipn|]. rewrite skipn_length. lia.
Qed.

(* splitting at the cumulative indices (all but the last) = splitting by sizes *)
Lemma skipn_skipn' {A} n : forall m (l : list A), skipn n (skipn m l) = skipn (m + n) l.
Proof.
  intros m; revert n. induction m as [|m IH]; intros n l; [reflexivity|].
  destruct l as [|x l]; [simpl; destruct n; reflexivity|]. simpl. apply IH.
Qed.

Lemma removelast_cons2 {A} (x y : A) l : removelast (x :: y :: l) = x :: removelast (y :: l).
Proof. reflexivity. Qed.

Lemma split_idx_sizes {A} sizes : forall prev (v : list A),
  sizes <> [] -> (prev + fold_right Nat.add 0 sizes = length v)%nat ->
  split_idx prev (removelast (cumsum_from prev sizes)) v = split_by_sizes sizes (skipn prev v).
Proof.
  induction sizes as [|s sizes IH]; intros prev v Hne Hlen; [congruence|].
  destruct sizes as [|s2 sizes].
  - simpl in *. rewrite firstn_all2; [reflexivity|]. rewrite skipn_length. lia.
  - assert (Hc : cumsum_from prev (s :: s2 :: sizes) =
                 (prev + s)%nat :: cumsum_from (prev + s) (s2 :: sizes)) by reflexivity.
    rewrite Hc. clear Hc.
    destruct (cumsum_from (prev + s) (s2 :: sizes)) as [|y l] eqn:Ec; [discriminate|].
    rewrite removelast_cons2. cbn [split_idx]. rewrite <- Ec.
    rewrite (IH (prev + s)%nat v ltac:(discriminate)) by (simpl in *; lia).
    change (split_by_sizes (s :: s2 :: sizes) (skipn prev v))
      with (firstn s (skipn prev v) :: split_by_sizes (s2 :: sizes) (skipn s (skipn prev v))).
    replace (prev + s - prev)%nat with s by lia. rewrite skipn_skipn'. reflexivity.
Qed.

Theorem indices_vs_sizes {A} sizes (v : list A) :
  sizes <> [] -> fold_right Nat.add 0%nat sizes = length v ->
  split_by_indices (removelast (cumsum sizes)) v = split_by_sizes sizes v.
Proof. intros Hne H. unfold split_by_indices, cumsum. rewrite split_idx_sizes by (auto; lia). reflexivity. Qed.

Theorem split_concat {A} (chunks : list (list A)) :
  chunks <> [] ->
  split_by_indices (removelast (cumsum (map (@length A) chunks))) (concat chunks) = chunks.
Proof.
  intros Hne. rewrite indices_vs_sizes.
  - apply split_by_sizes_concat.
  - destruct chunks; [congruence | discriminate].
  - clear Hne. induction chunks as [|c cs IH]; [reflexivity|]. simpl. rewrite app_length. lia.
Qed.

Lemma last_cumsum_from sizes : forall acc,
  sizes <> [] -> last (cumsum_from acc sizes) 0%nat = (acc + fold_right Nat.add 0 sizes)%nat.
Proof.
  induction sizes as [|s sizes IH]; intros acc Hne; [congruence|].
  destruct sizes as [|s2 sizes]; [simpl; lia|].
  cbn [cumsum_from]. cbn [cumsum_from] in IH.
  change (last ((acc + s)%nat :: (acc + s + s2)%nat :: cumsum_from (acc + s + s2) sizes) 0%nat)
    with (last ((acc + s + s2)%nat :: cumsum_from (acc + s + s2) sizes) 0%nat).
  rewrite (IH (acc + s)%nat) by discriminate. simpl. lia.
Qed.

Section RavelLaws.
  Variable promote : list Z -> Z.
  Variable cast : Z -> Z -> Z -> Z.

  Lemma map_combine_same {A B} (f : list A * B -> B) (g : B -> list A) (l : list B) :
    (forall b, In b l -> f (g b, b) = b) -> map f (combine (map g l) l) = l.
  Proof.
    induction l as [|b l IH]; intros H; [reflexivity|]. simpl.
    rewrite H by (left; reflexivity). rewrite IH by (intros; apply H; right; assumption). reflexivity.
  Qed.

  Lemma sizes_are_lengths leaves :
    Forall arr_wf leaves -> map (fun a => prod_nat (shape a)) leaves = map (@length Z) (map data leaves).
  Proof.
    induction 1 as [|a l Ha Hl IH]; [reflexivity|]. simpl. rewrite IH. f_equal. symmetry. exact Ha.
  Qed.

  (* unravel(ravel(t)) = t: structure is handled by C01; here the list of leaf arrays comes back with
     the original shapes, dtypes and values — single-dtype case, no hypothesis on casts needed *)
  Theorem unravel_ravel_single leaves :
    leaves <> [] -> Forall arr_wf leaves ->
    all_same (promote (map dtype leaves)) (map dtype leaves) = true ->
    let '(v, d) := ravel_leaves promote cast leaves in
    unravel promote cast leaves v d = ROk leaves.
  Proof.
    intros Hne Hwf Hsame. unfold ravel_leaves, unravel.
    destruct leaves as [|a0 l0] eqn:El; [congruence|]. rewrite <- El in *. rewrite Hsame.
    rewrite (sizes_are_lengths _ Hwf).
    assert (Hlen : length (concat (map data leaves)) =
                   last (cumsum (map (@length Z) (map data leaves))) 0%nat).
    { unfold cumsum. rewrite last_cumsum_from by (subst; discriminate). simpl.
      clear. induction leaves as [|a l IH]; [reflexivity|]. simpl. rewrite app_length. lia. }
    rewrite <- Hlen, Nat.eqb_refl. simpl.
    rewrite split_concat by (subst; discriminate).
    f_equal. apply map_combine_same. intros b Hb.
    assert (Hd : dtype b = promote (map dtype leaves)).
    { unfold all_same in Hsame. rewrite forallb_forall in Hsame.
      symmetry. apply Z.eqb_eq. apply Hsame. apply in_map. exact Hb. }
    destruct b as [sh dt da]. simpl in *. subst dt. reflexivity.
  Qed.

  (* mixed dtypes: values come back when the cast to the promoted dtype and back is the identity on
     them (the property's "representable" side condition) *)
  Theorem unravel_ravel_mixed leaves :
    leaves <> [] -> Forall arr_wf leaves ->
    all_same (promote (map dtype leaves)) (map dtype leaves) = false ->
    (forall a x, In a leaves -> In x (data a) ->
                 cast (promote (map dtype leaves)) (dtype a) (cast (dtype a) (promote (map dtype leaves)) x) = x) ->
    let '(v, d) := ravel_leaves promote cast leaves in
    unravel promote cast leaves v d = ROk leaves.
  Proof.
    intros Hne Hwf Hmixed Hcast. unfold ravel_leaves, unravel.
    destruct leaves as [|a0 l0] eqn:El; [congruence|]. rewrite <- El in *. rewrite Hmixed.
    set (to := promote (map dtype leaves)) in *.
    set (cdata := map (fun a => map (cast (dtype a) to) (data a)) leaves).
    assert (Hsz : map (fun a => prod_nat (shape a)) leaves = map (@length Z) cdata).
    { unfold cdata. rewrite map_map. generalize to. clear -Hwf. intros t.
      induction Hwf as [|a l Ha Hl IH]; [reflexivity|].
      simpl. rewrite map_length, IH. f_equal. symmetry. exact Ha. }
    rewrite Hsz.
    assert (Hlen : length (concat cdata) = last (cumsum (map (@length Z) cdata)) 0%nat).
    { unfold cumsum. rewrite last_cumsum_from by (unfold cdata; subst; discriminate). simpl.
      generalize cdata. clear. induction cdata as [|a l IH]; [reflexivity|]. simpl. rewrite app_length. lia. }
    rewrite <- Hlen, Nat.eqb_refl. simpl. rewrite Z.eqb_refl. simpl.
    rewrite split_concat by (unfold cdata; subst; discriminate).
    f_equal. unfold cdata. apply map_combine_same. intros b Hb.
    destruct b as [sh dt da] eqn:Eb. simpl. f_equal. rewrite map_map.
    rewrite <- (map_id da) at 2. apply map_ext_in. intros x Hx.
    apply (Hcast {| shape := sh; dtype := dt; data := da |} x Hb Hx).
  Qed.

  (* ravel is the concatenation, in leaf order, of the raveled leaves converted to the promoted dtype *)
  Theorem ravel_is_concat leaves :
    leaves <> [] ->
    fst (ravel_leaves promote cast leaves) =
    concat (map (fun a => if Z.eqb (dtype a) (promote (map dtype leaves)) then data a
                          else map (cast (dtype a) (promote (map dtype leaves))) (data a)) leaves) \/
    all_same (promote (map dtype leaves)) (map dtype leaves) = false.
  Proof.
    intros Hne. unfold ravel_leaves. destruct leaves as [|a0 l0] eqn:El; [congruence|]. rewrite <- El in *.
    destruct (all_same _ _) eqn:Es; [left | right; reflexivity]. simpl. f_equal.
    apply map_ext_in. intros a Ha. unfold all_same in Es. rewrite forallb_forall in Es.
    assert (Z.eqb (promote (map dtype leaves)) (dtype a) = true) by (apply Es; apply in_map; exact Ha).
    rewrite Z.eqb_sym, H. reflexivity.
  Qed.

  (* the unravel function rejects vectors of the wrong length, and of the wrong dtype exactly when the
     leaves had mixed dtypes; a tree without leaves ravels to the empty vector *)
  Theorem unravel_rejects_wrong_length leaves v vd :
    leaves <> [] ->
    length v <> last (cumsum (map (fun a => prod_nat (shape a)) leaves)) 0%nat ->
    unravel promote cast leaves v vd = RValueError.
  Proof.
    intros Hne Hl. unfold unravel. destruct leaves; [congruence|].
    apply Nat.eqb_neq in Hl. rewrite Hl. reflexivity.
  Qed.

  Theorem unravel_dtype_check leaves v vd :
    leaves <> [] ->
    length v = last (cumsum (map (fun a => prod_nat (shape a)) leaves)) 0%nat ->
    vd <> promote (map dtype leaves) ->
    (all_same (promote (map dtype leaves)) (map dtype leaves) = false ->
     unravel promote cast leaves v vd = RValueError) /\
    (all_same (promote (map dtype leaves)) (map dtype leaves) = true ->
     exists r, unravel promote cast leaves v vd = ROk r).
  Proof.
    intros Hne Hl Hd. unfold unravel. destruct leaves as [|a0 l0] eqn:El; [congruence|]. rewrite <- El in *.
    rewrite Hl, Nat.eqb_refl. simpl. split; intros ->.
    - apply Z.eqb_neq in Hd. rewrite Hd. reflexivity.
    - eexists. reflexivity.
  Qed.

  Theorem empty_tree : ravel_leaves promote cast [] = ([], 0%Z) /\ unravel promote cast [] [] 0%Z = ROk [].
  Proof. split; reflexivity. Qed.
End RavelLaws.
