(* Sort2Proofs.v — stage 2 of the key sort (keys of several types, ordered by (type name, key)):
   sorted, and independent of the insertion order (property C02). *)
From OptreeModel Require Import Base.
From OptreeProofs Require Import BaseProofs SortProofs.
From Coq Require Import Permutation Sorted.

Definition cmp2 (a b : key) : bool := match key2_lt a b with Some _ => true | None => false end.

Lemma cmp2_sym a b : cmp2 a b = cmp2 b a.
Proof.
  unfold cmp2, key2_lt. rewrite (Z.eqb_sym (key_rank b) (key_rank a)).
  destruct (Z.eqb (key_rank a) (key_rank b)); [|reflexivity].
  pose proof (comparable_sym a b) as H. unfold comparable in H.
  destruct (key_lt a b), (key_lt b a); try reflexivity; discriminate.
Qed.

Lemma key2_ltb_irrefl a : key2_ltb a a = false.
Proof.
  unfold key2_ltb, key2_lt. rewrite Z.eqb_refl. pose proof (key_ltb_irrefl a) as H. unfold key_ltb in H. exact H.
Qed.

Lemma key_lt_true_class a b : key_lt a b = Some true -> kclass a = kclass b /\ cl_ok (kclass a).
Proof. intros H. apply comparable_class. unfold comparable. rewrite H. reflexivity. Qed.

Lemma key2_ltb_trans a b c : key2_ltb a b = true -> key2_ltb b c = true -> key2_ltb a c = true.
Proof.
  unfold key2_ltb, key2_lt. intros H1 H2.
  destruct (Z.eqb (key_rank a) (key_rank b)) eqn:Eab, (Z.eqb (key_rank b) (key_rank c)) eqn:Ebc.
  - apply Z.eqb_eq in Eab, Ebc. rewrite Eab, Ebc, Z.eqb_refl.
    destruct (key_lt a b) as [[|]|] eqn:K1; try discriminate. destruct (key_lt b c) as [[|]|] eqn:K2; try discriminate.
    destruct (key_lt_true_class a b K1) as [C1 Ok1]. destruct (key_lt_true_class b c K2) as [C2 _].
    pose proof (key_ltb_trans (kclass a) a b c Ok1 eq_refl (eq_sym C1) ltac:(congruence)) as Ht.
    unfold key_ltb in Ht. rewrite K1, K2 in Ht. specialize (Ht eq_refl eq_refl).
    destruct (key_lt a c) as [[|]|]; try discriminate; reflexivity.
  - apply Z.eqb_eq in Eab. apply Z.eqb_neq in Ebc. rewrite Eab.
    destruct (Z.eqb (key_rank b) (key_rank c)) eqn:E; [apply Z.eqb_eq in E; contradiction|]. exact H2.
  - apply Z.eqb_neq in Eab. apply Z.eqb_eq in Ebc. rewrite <- Ebc.
    destruct (Z.eqb (key_rank a) (key_rank b)) eqn:E; [apply Z.eqb_eq in E; contradiction|]. exact H1.
  - apply Z.ltb_lt in H1, H2.
    destruct (Z.eqb (key_rank a) (key_rank c)) eqn:E; [apply Z.eqb_eq in E; lia|]. apply Z.ltb_lt. lia.
Qed.

Lemma key2_ltb_total a b : cmp2 a b = true -> a <> b -> key2_ltb a b = true \/ key2_ltb b a = true.
Proof.
  unfold cmp2, key2_ltb, key2_lt. rewrite (Z.eqb_sym (key_rank b) (key_rank a)).
  destruct (Z.eqb (key_rank a) (key_rank b)) eqn:E; intros Hc Hne.
  - destruct (key_lt a b) as [r|] eqn:K; [|discriminate].
    assert (Hcl : comparable a b = true) by (unfold comparable; rewrite K; reflexivity).
    apply comparable_class in Hcl as [C Ok].
    pose proof (key_ltb_total (kclass a) a b Ok eq_refl (eq_sym C) Hne) as Ht. unfold key_ltb in Ht.
    rewrite K in Ht. destruct Ht as [Ht|Ht]; [left; exact Ht | right; destruct (key_lt b a) as [[|]|]; try discriminate; reflexivity].
  - apply Z.eqb_neq in E. rewrite !Z.ltb_lt. lia.
Qed.

Lemma stage2_ok_perm ks ks' : Permutation ks ks' -> stage2_ok ks = true -> NoDup ks -> stage2_ok ks' = true.
Proof.
  intros Hp H Hnd. pose proof (all_pairs_forall cmp2 _ H cmp2_sym) as Hall.
  assert (Hnd' : NoDup ks') by (eapply Permutation_NoDup; eauto).
  assert (Hin : forall x, In x ks' -> In x ks) by (intros; eapply Permutation_in; [apply Permutation_sym; exact Hp | assumption]).
  clear H Hp. unfold stage2_ok. change (fun a b => match key2_lt a b with Some _ => true | None => false end) with cmp2.
  induction ks' as [|a l IH]; [reflexivity|].
  simpl. inversion Hnd'; subst. apply andb_true_iff. split.
  - apply forallb_forall. intros y Hy. apply Hall; [apply Hin; left; reflexivity | apply Hin; right; exact Hy |].
    intros ->. contradiction.
  - apply IH; [assumption | intros; apply Hin; right; assumption].
Qed.

Lemma stage1_fail_perm ks ks' : Permutation ks ks' -> NoDup ks -> stage1_ok ks = false -> stage1_ok ks' = false.
Proof.
  intros Hp Hnd H. destruct (stage1_ok ks') eqn:E; [|reflexivity].
  rewrite (stage1_ok_perm ks' ks (Permutation_sym Hp) E) in H; [discriminate|].
  eapply Permutation_NoDup; eauto.
Qed.

(* stage 2: the keys are not all mutually comparable but they are within each type: sorted by
   (type name, key) *)
Theorem sort_stage2_sorted ks :
  stage1_ok ks = false -> stage2_ok ks = true -> NoDup ks ->
  total_order_sort ks = isort key2_ltb ks /\
  StronglySorted (fun a b => key2_ltb a b = true) (isort key2_ltb ks).
Proof.
  intros H1 H2 Hnd. unfold total_order_sort. rewrite H1, H2. split; [reflexivity|].
  pose proof (all_pairs_forall cmp2 _ H2 cmp2_sym) as Hall.
  apply isort_sorted with (good := fun k => In k ks); auto using key2_ltb_irrefl.
  - intros x y z _ _ _. apply key2_ltb_trans.
  - intros x y Hx Hy Hne. apply key2_ltb_total; [apply Hall; assumption | exact Hne].
  - apply Forall_forall. auto.
Qed.

(* ... and the result does not depend on the insertion order *)
Theorem sort_stage2_perm_invariant ks ks' :
  stage1_ok ks = false -> stage2_ok ks = true -> NoDup ks -> Permutation ks ks' ->
  total_order_sort ks = total_order_sort ks'.
Proof.
  intros H1 H2 Hnd Hp. unfold total_order_sort.
  rewrite H1, H2, (stage1_fail_perm ks ks' Hp Hnd H1), (stage2_ok_perm ks ks' Hp H2 Hnd).
  pose proof (all_pairs_forall cmp2 _ H2 cmp2_sym) as Hall.
  apply isort_perm_invariant with (good := fun k => In k ks); auto using key2_ltb_irrefl.
  - intros x y z _ _ _. apply key2_ltb_trans.
  - intros x y Hx Hy Hne. apply key2_ltb_total; [apply Hall; assumption | exact Hne].
  - apply Forall_forall. auto.
Qed.

(* hence, in every case, the visiting order of a dict does not depend on its insertion order as long
   as the keys can be sorted at all (stage 1 or stage 2) *)
Theorem sort_perm_invariant ks ks' :
  (stage1_ok ks = true \/ stage2_ok ks = true) -> NoDup ks -> Permutation ks ks' ->
  total_order_sort ks = total_order_sort ks'.
Proof.
  intros H Hnd Hp. destruct (stage1_ok ks) eqn:E1.
  - apply sort_stage1_perm_invariant; assumption.
  - destruct H as [H|H]; [discriminate|]. apply sort_stage2_perm_invariant; assumption.
Qed.
