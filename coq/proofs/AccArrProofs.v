(* AccArrProofs.v — the C++ Accessors walk over the node array (theories/AccArr.v) returns the
   tree-level typed paths st_accessors (property C04). *)
From OptreeModel Require Import Base Tree Flatten Unflatten Spec Construct Accessor PrefixArr PathsArr AccArr.
From OptreeProofs Require Import BaseProofs RoundTrip SpecProofs TraversalProofs InspectProofs EqProofs OrderProofs PrefixOrder JoinOrder
  ConstructProofs FlattenGood UpToPrefix UpToPaths PrefixErrProofs PrefixArrProofs UpToArrProofs JoinArrProofs PathsArrProofs.

(* the inner loop of st_accessors as a function of its own *)
Definition acc_go (n : node) : list key -> list stree -> list tpath :=
  fix go (es : list key) (l : list stree) {struct l} : list tpath :=
    match l with
    | [] => []
    | c :: l' =>
      match es with
      | [] => []
      | e :: es' => map (cons (TE e (entry_class n) (node_type n) (nkind n))) (st_accessors c) ++ go es' l'
      end
    end.

Lemma st_accessors_unfold n cs :
  st_accessors (T n cs) = if is_leaf_node n then [[]] else acc_go n (node_entries n) cs.
Proof. reflexivity. Qed.

Definition wrap (n : node) (e : key) : tentry := TE e (entry_class n) (node_type n) (nkind n).

Fixpoint aemit_rev (n : node) (stk : list tentry) (el : list key) (la : list stree) : list tpath :=
  match el, la with
  | e :: el', x :: la' => rev (map (app (stk ++ [wrap n e])) (st_accessors x)) ++ aemit_rev n stk el' la'
  | _, _ => []
  end.

Lemma aemit_rev_snoc n stk : forall el la e x, length el = length la ->
  aemit_rev n stk (el ++ [e]) (la ++ [x]) = aemit_rev n stk el la ++ rev (map (app (stk ++ [wrap n e])) (st_accessors x)).
Proof.
  induction el as [|e0 el IH]; intros [|x0 la] e x Hl; try discriminate Hl.
  - simpl. rewrite app_nil_r. reflexivity.
  - injection Hl as Hl. cbn [app aemit_rev]. rewrite (IH la e x Hl), app_assoc. reflexivity.
Qed.

Lemma aemit_rev_acc n stk : forall es cs, length es = length cs ->
  aemit_rev n stk (rev es) (rev cs) = rev (map (app stk) (acc_go n es cs)).
Proof.
  induction es as [|e es IH]; intros [|c cs] Hl; try discriminate Hl; [reflexivity|].
  injection Hl as Hl. cbn [rev]. change (acc_go n (e :: es) (c :: cs)) with (map (cons (wrap n e)) (st_accessors c) ++ acc_go n es cs).
  rewrite aemit_rev_snoc by (rewrite !rev_length; exact Hl).
  rewrite (IH cs Hl), map_app, rev_app_distr, map_map. f_equal. f_equal. apply map_ext. intros p.
  rewrite <- app_assoc. reflexivity.
Qed.

Definition ARec (rec : list node -> list tentry -> res (list tpath * nat)) (x : stree) : Prop :=
  forall r0 stk, rec (renc x ++ r0) stk = Ok (rev (map (app stk) (st_accessors x)), st_nodes x).

Lemma aarr_loop_spec rec ra' stk root : forall la el cur emitted resta,
  length el = length la -> Forall (ARec rec) la -> forallb wf_stree la = true ->
  skipn cur ra' = flat_map renc la ++ resta ->
  aarr_loop rec ra' stk root el (length la) cur emitted =
  Ok (emitted ++ aemit_rev root stk el la, (cur + sum_nat (map st_nodes la))%nat).
Proof.
  induction la as [|x la IH]; intros [|e el] cur emitted resta Hl HR Wa Hsk; try discriminate Hl.
  - simpl. rewrite app_nil_r, Nat.add_0_r. reflexivity.
  - injection Hl as Hl. inversion HR as [|? ? Rx Rla]; subst. simpl in Wa. apply andb_true_iff in Wa as [Wx Wa].
    cbn [length aarr_loop]. cbn [flat_map] in Hsk. rewrite <- app_assoc in Hsk. rewrite Hsk, (Rx _ _). cbn [bind].
    rewrite (IH el (cur + st_nodes x)%nat _ resta Hl Rla Wa).
    + cbn [aemit_rev map sum_nat fold_right]. unfold wrap. rewrite <- app_assoc. f_equal. f_equal.
      change (fold_right Nat.add 0%nat (map st_nodes la)) with (sum_nat (map st_nodes la)). lia.
    + rewrite skipn_add, Hsk, <- (renc_length x Wx), skipn_app_exact. reflexivity.
Qed.

Lemma acc_go_length n : forall es cs, length es = length cs ->
  length (acc_go n es cs) = sum_nat (map (fun c => length (st_accessors c)) cs).
Proof.
  induction es as [|e es IH]; intros [|c cs] Hl; try discriminate Hl; [reflexivity|].
  injection Hl as Hl. change (acc_go n (e :: es) (c :: cs)) with (map (cons (wrap n e)) (st_accessors c) ++ acc_go n es cs).
  rewrite app_length, map_length. cbn [map sum_nat fold_right]. f_equal. exact (IH cs Hl).
Qed.

(* registered custom nodes carry their registration *)
Fixpoint cust_ok (t : stree) : bool :=
  match t with
  | T n cs => (match nkind n with KdCustom => match ncustom n with Some _ => true | None => false end | _ => true end)
              && forallb cust_ok cs
  end.

Theorem asim : forall t fuel, (st_nodes t <= fuel)%nat ->
  wf_stree t = true -> good t = true -> entries_wf t = true -> dok t = true -> cust_ok t = true -> ARec (aarr fuel) t.
Proof.
  induction t as [n cs IH] using stree_ind'. intros fuel Hf W G E D C r0 stk.
  destruct (wf_unfold n cs W) as (Ar & Nn & Lv & Wcs). pose proof (good_children n cs G) as Gcs.
  destruct (good_node n cs G) as (_ & Dn & _ & Nnone & _ & _).
  simpl in E, D, C. apply andb_true_iff in E as [En Ecs]. apply andb_true_iff in D as [Kd Dcs].
  apply andb_true_iff in C as [Cn Ccs].
  destruct fuel as [|fuel]; [pose proof (st_nodes_pos _ W); lia|].
  assert (HR : Forall (ARec (aarr fuel)) cs).
  { apply Forall_forall. intros x Hx. rewrite Forall_forall in IH.
    apply (IH x Hx fuel); try (eapply forallb_In; eassumption).
    pose proof (child_nodes_lt n cs x W Hx). unfold st_nodes in Hf. cbn [st_node] in Hf. lia. }
  pose proof (renc_length _ W) as Len. unfold st_nodes in Len. cbn [st_node] in Len.
  assert (L1 : Nat.ltb (length (renc (T n cs) ++ r0)) (nnodes n) = false) by (apply Nat.ltb_ge; rewrite app_length; lia).
  rewrite renc_unfold in L1 |- *. cbn [app] in *. cbn [aarr]. rewrite L1.
  assert (Hloop : forall es, node_entries n = es -> length es = length cs -> is_leaf_node n = false ->
            (do r <- aarr_loop (aarr fuel) (flat_map renc (rev cs) ++ r0) stk n (rev (firstn (narity n) es)) (narity n) 0 [] ;;
             let '(ps, cur) := r in Ok (ps, S cur)) =
            Ok (rev (map (app stk) (st_accessors (T n cs))), st_nodes (T n cs))).
  { intros es Hes Hl Ln. rewrite (firstn_all' es (narity n)) by congruence.
    rewrite Ar, <- (rev_length cs).
    rewrite (aarr_loop_spec (aarr fuel) _ stk n (rev cs) (rev es) 0 [] r0); try (apply forallb_rev; assumption).
    - cbn [bind app]. rewrite aemit_rev_acc by exact Hl. rewrite st_accessors_unfold, Ln, Hes.
      rewrite map_rev, sum_rev. unfold st_nodes at 2. cbn [st_node]. rewrite Nn. reflexivity.
    - rewrite !rev_length. exact Hl.
    - apply Forall_rev. exact HR.
    - reflexivity. }
  unfold kd_ok in Kd. unfold node_entries in Hloop.
  destruct (nentries n) as [es|] eqn:Ee.
  - destruct (nkind n) eqn:Kn; destruct (ndat n) as [| | | | |meta eb] eqn:Dd; try discriminate En; try discriminate Kd.
    destruct eb as [| |es0| |]; try discriminate En.
    apply andb_true_iff in En as [E1 E2]. apply keys_eqb_eq in E1. apply Nat.eqb_eq in E2. subst es0.
    destruct (ncustom n); [|discriminate Cn].
    apply (Hloop es eq_refl); [congruence | unfold is_leaf_node; rewrite Kn; reflexivity].
  - destruct (nkind n) eqn:Kn.
    + apply (Hloop _ eq_refl); [rewrite pos_keys_length; exact Ar | unfold is_leaf_node; rewrite Kn; reflexivity].
    + assert (Ln : is_leaf_node n = true) by (unfold is_leaf_node; rewrite Kn; reflexivity). rewrite Ln in Lv.
      destruct Lv as [_ ->]. rewrite st_accessors_unfold, Ln. simpl in Nn. unfold st_nodes. cbn [st_node map rev app].
      rewrite app_nil_r, Nn. reflexivity.
    + rewrite (Nnone eq_refl) in *. rewrite st_accessors_unfold. unfold is_leaf_node. rewrite Kn. cbn.
      simpl in Nn. unfold st_nodes. cbn [st_node]. rewrite Nn. reflexivity.
    + apply (Hloop _ eq_refl); [rewrite pos_keys_length; exact Ar | unfold is_leaf_node; rewrite Kn; reflexivity].
    + apply (Hloop _ eq_refl); [rewrite pos_keys_length; exact Ar | unfold is_leaf_node; rewrite Kn; reflexivity].
    + destruct (Dn eq_refl) as (ks & Hks & Hl & _). rewrite Hks in *.
      apply (Hloop ks eq_refl Hl). unfold is_leaf_node. rewrite Kn. reflexivity.
    + apply (Hloop _ eq_refl); [rewrite pos_keys_length; exact Ar | unfold is_leaf_node; rewrite Kn; reflexivity].
    + destruct (Dn eq_refl) as (ks & Hks & Hl & _). rewrite Hks in *.
      apply (Hloop ks eq_refl Hl). unfold is_leaf_node. rewrite Kn. reflexivity.
    + destruct (Dn eq_refl) as (ks & Hks & Hl & _). rewrite Hks in *.
      apply (Hloop ks eq_refl Hl). unfold is_leaf_node. rewrite Kn. reflexivity.
    + apply (Hloop _ eq_refl); [rewrite pos_keys_length; exact Ar | unfold is_leaf_node; rewrite Kn; reflexivity].
    + apply (Hloop _ eq_refl); [rewrite pos_keys_length; exact Ar | unfold is_leaf_node; rewrite Kn; reflexivity].
Qed.

Theorem st_accessors_count : forall t, wf_stree t = true -> good t = true -> entries_wf t = true -> dok t = true ->
  length (st_accessors t) = st_leaves t.
Proof.
  induction t as [n cs IH] using stree_ind'. intros W G E D.
  destruct (wf_unfold n cs W) as (_ & _ & Lv & Wcs). pose proof (good_children n cs G) as Gcs.
  pose proof E as E0.
  simpl in E, D. apply andb_true_iff in E as [_ Ecs]. apply andb_true_iff in D as [Kd Dcs].
  rewrite st_accessors_unfold. unfold st_leaves. cbn [st_node].
  destruct (is_leaf_node n) eqn:Ln; [destruct Lv as [-> _]; reflexivity|].
  rewrite Lv. transitivity (sum_nat (map (fun c => length (st_accessors c)) cs));
    [exact (acc_go_length n _ _ (node_entries_length n cs W G E0 Kd Ln))|]. f_equal.
  clear - IH Wcs Gcs Ecs Dcs. induction cs as [|c cs IHl]; [reflexivity|].
  inversion IH as [|? ? Hc IHcs]; subst. simpl in *.
  apply andb_true_iff in Wcs as [Wc Wcs]. apply andb_true_iff in Gcs as [Gc Gcs].
  apply andb_true_iff in Ecs as [Ec Ecs]. apply andb_true_iff in Dcs as [Dc Dcs].
  rewrite (Hc Wc Gc Ec Dc). f_equal. apply IHl; assumption.
Qed.

Theorem arr_accessors_spec t nl ns :
  wf_stree t = true -> good t = true -> entries_wf t = true -> dok t = true -> cust_ok t = true ->
  arr_accessors {| trav := encode t; snil := nl; sns := ns |} = Ok (st_accessors t).
Proof.
  intros W G E D C. unfold arr_accessors. cbn [trav].
  destruct (renc_head t) as (tl & Hh). unfold renc in Hh. rewrite Hh.
  pose proof (st_accessors_count t W G E D) as Hc. unfold st_leaves in Hc.
  destruct (Nat.eqb (nleaves (st_node t)) 0) eqn:Z0.
  { apply Nat.eqb_eq in Z0. rewrite Z0 in Hc. destruct (st_accessors t); [reflexivity | discriminate]. }
  rewrite (encode_length t W), <- Hh.
  pose proof (asim t (S (st_nodes t)) (le_S _ _ (le_n _)) W G E D C [] []) as H.
  unfold renc in H. rewrite app_nil_r in H. rewrite H. cbn [bind].
  rewrite Nat.eqb_refl. cbn [negb].
  match goal with |- (if negb (Nat.eqb ?x _) then _ else _) = _ =>
    replace x with (nleaves (st_node t)) by (rewrite rev_length, map_length; symmetry; exact Hc) end.
  rewrite Nat.eqb_refl. cbn [negb].
  rewrite rev_involutive. f_equal. rewrite <- (map_id (st_accessors t)) at 2. apply map_ext. reflexivity.
Qed.

Lemma spec_ok_cust c : forall t, spec_ok c t = true -> cust_ok t = true.
Proof.
  induction t as [n cs IH] using stree_ind'. simpl. intros H. apply andb_true_iff in H as [Hn Hcs].
  apply andb_true_iff. split.
  - destruct (nkind n); try reflexivity. exact Hn.
  - apply forallb_forall. intros x Hx. rewrite Forall_forall in IH. apply (IH x Hx). exact (forallb_In _ _ _ Hcs Hx).
Qed.

Theorem arr_accessors_of_flattened c o ls sp s :
  wf_obj o = true -> flatten c o = Ok (ls, sp) -> sspec_of sp = Some s ->
  arr_accessors sp = Ok (st_accessors (stree_of s)).
Proof.
  intros W F HS. pose proof (flatten_entries_wf c o ls sp s F HS) as Hew.
  assert (Hcu : cust_ok (stree_of s) = true).
  { destruct (flatten_tflat c o ls sp F) as (t & b & Ht & -> & Hw).
    unfold sspec_of in HS. cbn [trav snil sns] in HS. rewrite (decode_encode t (wf_arity_ok t Hw)) in HS.
    injection HS as <-. cbn [stree_of]. apply (spec_ok_cust c). exact (proj1 (tflat_spec_ok c _ o _ _ _ Ht)). }
  destruct (flatten_facts c o ls sp W F) as (s' & E & <- & Wt & G & D). rewrite HS in E. injection E as <-.
  unfold spec_of. apply arr_accessors_spec; assumption.
Qed.
