(* JoinArrProofs.v — the C++ BroadcastToCommonSuffix walk over the two node arrays
   (theories/JoinArr.v) computes the tree-level join st_join: same result array (reversed emission,
   counters patched in place), same walked counts, same error (property C09). *)
From OptreeModel Require Import Base Tree Flatten Unflatten Spec PrefixArr JoinArr.
From OptreeProofs Require Import BaseProofs RoundTrip SpecProofs InspectProofs EqProofs OrderProofs PrefixOrder JoinOrder JoinLeast
  PrefixAntisym JoinFold PrefixArrProofs UpToArrProofs.

Lemma join_list_is_mapM : forall l l', join_list l l' = mapM_rev2 st_join l l'.
Proof. induction l as [|x l IH]; intros [|y l']; simpl; try reflexivity. Qed.

Lemma sum_nat_app l l' : sum_nat (l ++ l') = (sum_nat l + sum_nat l')%nat.
Proof. induction l; simpl; lia. Qed.

Lemma flat_map_renc_length l : forallb wf_stree l = true -> length (flat_map renc l) = sum_nat (map st_nodes l).
Proof.
  induction l as [|x l IH]; intros H; [reflexivity|]. simpl in H. apply andb_true_iff in H as [Hx Hl].
  simpl. rewrite app_length, (renc_length x Hx), (IH Hl). reflexivity.
Qed.

(* ---------- the table of the other node's children positions ---------- *)
Fixpoint offs_of (l : list stree) (off : nat) : list nat :=
  match l with [] => [] | x :: l' => off :: offs_of l' (off + st_nodes x) end.

Lemma nth_error_app_exact {A} (pre l : list A) x : nth_error (pre ++ x :: l) (length pre) = Some x.
Proof. induction pre; simpl; auto. Qed.

Lemma child_offsets_spec : forall l pre rest, forallb wf_stree l = true ->
  child_offsets (length l) (pre ++ flat_map renc l ++ rest) (length pre) =
  Ok (offs_of l (length pre), (length pre + sum_nat (map st_nodes l))%nat).
Proof.
  induction l as [|x l IH]; intros pre rest Hw.
  - simpl. rewrite Nat.add_0_r. reflexivity.
  - simpl in Hw. apply andb_true_iff in Hw as [Hx Hl].
    cbn [length child_offsets flat_map]. destruct (renc_head x) as (tl & Hh).
    rewrite <- app_assoc.
    assert (Hn : nth_error (pre ++ renc x ++ flat_map renc l ++ rest) (length pre) = Some (st_node x)).
    { rewrite Hh. apply nth_error_app_exact. }
    rewrite Hn.
    pose proof (IH (pre ++ renc x) rest Hl) as H. rewrite app_length, (renc_length x Hx), <- app_assoc in H.
    unfold st_nodes in H at 1 2. rewrite H. cbn [bind offs_of map sum_nat fold_right].
    change (fold_right Nat.add 0%nat (map st_nodes l)) with (sum_nat (map st_nodes l)).
    change (nnodes (st_node x)) with (st_nodes x). rewrite Nat.add_assoc. reflexivity.
Qed.

(* what sits at each of those positions *)
Definition At (rb : list node) (o : nat) (y : stree) : Prop := exists tail, skipn o rb = renc y ++ tail.

Lemma offs_of_at : forall l pre rest, forallb wf_stree l = true ->
  Forall2 (At (pre ++ flat_map renc l ++ rest)) (offs_of l (length pre)) l.
Proof.
  induction l as [|x l IH]; intros pre rest Hw; [constructor|].
  simpl in Hw. apply andb_true_iff in Hw as [Hx Hl]. cbn [offs_of flat_map]. constructor.
  - exists (flat_map renc l ++ rest). rewrite skipn_app_exact, <- app_assoc. reflexivity.
  - pose proof (IH (pre ++ renc x) rest Hl) as H. rewrite app_length, (renc_length x Hx) in H.
    rewrite <- !app_assoc in H. rewrite <- app_assoc. exact H.
Qed.

(* ---------- the loop over the children ---------- *)
(* the result record the walk returns for a pair of subtrees whose join is j *)
Definition bres_of (x y j : stree) : bres :=
  {| b_nodes := renc j; b_walked := st_nodes x; b_owalked := st_nodes y; b_nn := st_nodes j; b_nl := st_leaves j |}.

Definition RecOK (rec : list node -> list node -> res bres) (x : stree) : Prop :=
  forall y ra0 rb0, wf_stree y = true -> good y = true ->
  rec (renc x ++ ra0) (renc y ++ rb0) =
  match st_join x y with Ok j => Ok (bres_of x y j) | Err e => Err e end.

(* where the loop finds the other node's child at each step *)
Fixpoint StepOK (rb' : list node) (offs : option (list nat)) (cb : nat) (lb : list stree) : Prop :=
  match lb with
  | [] => True
  | y :: lb' =>
    match offs with
    | None => At rb' cb y /\ StepOK rb' None (cb + st_nodes y) lb'
    | Some (o :: ol) => At rb' o y /\ StepOK rb' (Some ol) (cb + st_nodes y) lb'
    | Some [] => False
    end
  end.

Lemma skipn_add {A} (l : list A) a b : skipn (a + b) l = skipn b (skipn a l).
Proof. revert l. induction a as [|a IH]; intros l; [reflexivity|]. destruct l as [|x l]; [destruct b; reflexivity|]. simpl. apply IH. Qed.

Lemma bloop_spec rec ra' rb' : forall la lb offs ca cb emitted nn nl resta,
  length la = length lb -> Forall (RecOK rec) la ->
  forallb wf_stree la = true -> forallb wf_stree lb = true -> forallb good lb = true ->
  skipn ca ra' = flat_map renc la ++ resta -> StepOK rb' offs cb lb ->
  bloop rec ra' rb' (length la) offs ca cb emitted nn nl =
  match mapM_rev2 st_join (rev la) (rev lb) with
  | Ok r => Ok (emitted ++ flat_map renc (rev r), (ca + sum_nat (map st_nodes la))%nat,
                (cb + sum_nat (map st_nodes lb))%nat, (nn + sum_nat (map st_nodes r))%nat,
                (nl + sum_nat (map st_leaves r))%nat)
  | Err e => Err e
  end.
Proof.
  induction la as [|x la IH]; intros [|y lb] offs ca cb emitted nn nl resta Hl HR Wa Wb Gb Hsk Hst; try discriminate Hl.
  - simpl. rewrite app_nil_r, !Nat.add_0_r. reflexivity.
  - injection Hl as Hl. inversion HR as [|? ? Rx Rla]; subst. simpl in Wa, Wb, Gb.
    apply andb_true_iff in Wa as [Wx Wa]. apply andb_true_iff in Wb as [Wy Wb]. apply andb_true_iff in Gb as [Gy Gb].
    cbn [length bloop].
    assert (Hstep : exists ob offs', (match offs with None => (Some cb, None) | Some (o :: l) => (Some o, Some l)
                                      | Some [] => (None, Some []) end) = (Some ob, offs') /\
                                     At rb' ob y /\ StepOK rb' offs' (cb + st_nodes y) lb).
    { cbn [StepOK] in Hst. destruct offs as [[|o ol]|]; [contradiction | |]; destruct Hst as [H1 H2]; eauto. }
    destruct Hstep as (ob & offs' & -> & (tail & Hat) & Hst').
    cbn [flat_map] in Hsk. rewrite <- app_assoc in Hsk. rewrite Hsk, Hat.
    rewrite (Rx y _ tail Wy Gy).
    cbn [rev]. rewrite mapM_rev2_snoc by (rewrite !rev_length; exact Hl).
    destruct (st_join x y) as [j|] eqn:Ej; cbn [bind]; [|reflexivity].
    cbn [bres_of b_nodes b_walked b_owalked b_nn b_nl].
    rewrite (IH lb offs' (ca + st_nodes x)%nat (cb + st_nodes y)%nat (emitted ++ renc j) (nn + st_nodes j)%nat
                (nl + st_leaves j)%nat resta Hl Rla Wa Wb Gb); [| | exact Hst'].
    + destruct (mapM_rev2 st_join (rev la) (rev lb)) as [r|]; cbn [bind]; [|reflexivity].
      rewrite rev_app_distr. cbn [rev app flat_map]. rewrite <- app_assoc.
      rewrite !map_app, !sum_nat_app.
      change (sum_nat (map st_nodes (x :: la))) with (st_nodes x + sum_nat (map st_nodes la))%nat.
      change (sum_nat (map st_nodes (y :: lb))) with (st_nodes y + sum_nat (map st_nodes lb))%nat.
      change (sum_nat (map st_nodes [j])) with (st_nodes j + 0)%nat.
      change (sum_nat (map st_leaves [j])) with (st_leaves j + 0)%nat.
      f_equal. repeat (apply f_equal2; [|lia]). reflexivity.
    + rewrite skipn_add, Hsk, <- (renc_length x Wx), skipn_app_exact. reflexivity.
Qed.

Lemma stepok_some rb' : forall ol lb cb, Forall2 (At rb') ol lb -> StepOK rb' (Some ol) cb lb.
Proof.
  induction ol as [|o ol IH]; intros lb cb H; inversion H; subst; cbn [StepOK]; [exact I|].
  split; [assumption | apply IH; assumption].
Qed.

Lemma stepok_none rb' : forall lb cb rest, forallb wf_stree lb = true ->
  skipn cb rb' = flat_map renc lb ++ rest -> StepOK rb' None cb lb.
Proof.
  induction lb as [|y lb IH]; intros cb rest Hw Hsk; cbn [StepOK]; [exact I|].
  simpl in Hw. apply andb_true_iff in Hw as [Wy Wl]. cbn [flat_map] in Hsk. rewrite <- app_assoc in Hsk.
  split; [eexists; exact Hsk|].
  apply (IH (cb + st_nodes y)%nat rest Wl).
  rewrite skipn_add, Hsk, <- (renc_length y Wy), skipn_app_exact. reflexivity.
Qed.

Lemma lookup_rel (R : nat -> stree -> Prop) k : forall kb vs cs, Forall2 R vs cs ->
  match lookup k (combine kb vs), lookup k (combine kb cs) with
  | Some o, Some y => R o y
  | None, None => True
  | _, _ => False
  end.
Proof.
  induction kb as [|k0 kb IH]; intros vs cs H; [exact I|].
  inversion H as [|o y vs' cs' Hoy Hrest]; subst; [exact I|].
  simpl. destruct (key_eqb k k0); [exact Hoy | apply IH; exact Hrest].
Qed.

Lemma omapM_rel (R : nat -> stree -> Prop) kb vs cs : Forall2 R vs cs ->
  forall ka cb', omapM (child_at_key kb cs) ka = Some cb' ->
  exists os, omapM (fun k => lookup k (combine kb vs)) ka = Some os /\ Forall2 R os cb'.
Proof.
  intros HR. induction ka as [|k ka IH]; intros cb' H; simpl in H.
  - injection H as <-. exists []. split; [reflexivity | constructor].
  - unfold child_at_key in H at 1.
    pose proof (lookup_rel R k kb vs cs HR) as Hk.
    destruct (lookup k (combine kb cs)) as [y|]; simpl in H; [|discriminate].
    destruct (omapM (child_at_key kb cs) ka) as [r|] eqn:Er; simpl in H; [|discriminate]. injection H as <-.
    destruct (lookup k (combine kb vs)) as [o|] eqn:Eo; [|contradiction].
    destruct (IH r eq_refl) as (os & Hos & HF).
    exists (o :: os). split; [simpl; rewrite Eo, Hos; reflexivity | constructor; assumption].
Qed.

Lemma Forall2_rev {A B} (R : A -> B -> Prop) l l' : Forall2 R l l' -> Forall2 R (rev l) (rev l').
Proof.
  induction 1 as [|x y l l' Hxy _ IH]; [constructor|]. simpl. apply Forall2_app; [exact IH | constructor; [exact Hxy | constructor]].
Qed.

(* patching the counters of the emitted node in place gives the re-counted node *)
Lemma patch_recount n r : narity n = length r -> is_leaf_node n = false ->
  patch n (1 + sum_nat (map st_nodes r)) (0 + sum_nat (map st_leaves r)) = recount n r.
Proof.
  intros Ha Ln. unfold patch, recount. rewrite Ha. f_equal.
  unfold is_leaf_node in Ln. destruct (nkind n); try reflexivity. discriminate Ln.
Qed.

Lemma sum_rev l : sum_nat (rev l) = sum_nat l.
Proof. apply sum_nat_perm. apply Permutation.Permutation_sym. apply Permutation.Permutation_rev. Qed.

Lemma bfinish_spec rec na ca nb cb cb' ra0 rb' offs ototal :
  wf_stree (T na ca) = true -> is_leaf_node na = false ->
  Forall (RecOK rec) ca -> length ca = length cb' ->
  forallb wf_stree cb' = true -> forallb good cb' = true ->
  StepOK rb' offs 0 (rev cb') ->
  S (match ototal with Some t => t | None => sum_nat (map st_nodes cb') end) = nnodes nb ->
  bfinish rec na (flat_map renc (rev ca) ++ ra0) rb' offs ototal =
  match join_kids na ca cb' with Ok j => Ok (bres_of (T na ca) (T nb cb) j) | Err e => Err e end.
Proof.
  intros Wa Ln HR Hl Wb Gb Hst Hot.
  destruct (wf_unfold na ca Wa) as (Ar & Nn & _ & Wca).
  unfold bfinish, join_kids. rewrite Ar, <- (rev_length ca).
  rewrite (bloop_spec rec _ rb' (rev ca) (rev cb') offs 0 0 [] 1 0 ra0); try (apply forallb_rev; assumption).
  - rewrite !rev_involutive, <- join_list_is_mapM.
    destruct (join_list ca cb') as [r|] eqn:Ej; cbn [bind]; [|reflexivity].
    destruct (join_list_length ca cb' r Ej) as [Lr _].
    unfold bres_of, mkT. rewrite renc_unfold. cbn [app].
    rewrite (patch_recount na r) by (congruence || assumption).
    rewrite !map_rev, !sum_rev. unfold st_nodes at 3 4, st_leaves at 2. cbn [st_node recount nnodes nleaves].
    f_equal. f_equal.
    + unfold st_nodes. cbn [st_node]. rewrite Nn. reflexivity.
    + unfold st_nodes. cbn [st_node]. rewrite <- Hot. destruct ototal; reflexivity.
    + unfold is_leaf_node in Ln. destruct (nkind na); try reflexivity. discriminate Ln.
  - rewrite !rev_length. exact Hl.
  - apply Forall_rev. exact HR.
  - reflexivity.
  - exact Hst.
Qed.

Lemma st_nodes_pos t : wf_stree t = true -> (1 <= st_nodes t)%nat.
Proof. destruct t as [n cs]. intros W. destruct (wf_unfold n cs W) as (_ & Nn & _). unfold st_nodes. cbn [st_node]. lia. Qed.

Lemma child_nodes_lt n cs x : wf_stree (T n cs) = true -> In x cs -> (st_nodes x < nnodes n)%nat.
Proof.
  intros W Hx. destruct (wf_unfold n cs W) as (_ & Nn & _ & _). rewrite Nn. apply le_n_S.
  clear - Hx. induction cs as [|c cs IH]; [destruct Hx|]. simpl. destruct Hx as [->|Hx]; [lia | specialize (IH Hx); lia].
Qed.

Theorem jsim : forall ta fuel, (st_nodes ta <= fuel)%nat -> wf_stree ta = true -> good ta = true -> RecOK (bc fuel) ta.
Proof.
  induction ta as [na ca IH] using stree_ind'. intros fuel Hf Wa Ga [nb cb] ra0 rb0 Wb Gb.
  destruct (wf_unfold na ca Wa) as (Aa & Na & La' & Wca). destruct (wf_unfold nb cb Wb) as (Ab & Nb & Lb' & Wcb).
  pose proof (good_children na ca Ga) as Gca. pose proof (good_children nb cb Gb) as Gcb.
  destruct fuel as [|fuel]; [pose proof (st_nodes_pos _ Wa); lia|].
  (* the children against any fuel' >= their size *)
  assert (HR : Forall (RecOK (bc fuel)) ca).
  { apply Forall_forall. intros x Hx. rewrite Forall_forall in IH.
    apply (IH x Hx fuel); [|exact (forallb_In _ _ _ Wca Hx) | exact (forallb_In _ _ _ Gca Hx)].
    pose proof (child_nodes_lt na ca x Wa Hx). unfold st_nodes in Hf. cbn [st_node] in Hf. lia. }
  pose proof (renc_length _ Wa) as Lena. pose proof (renc_length _ Wb) as Lenb.
  unfold st_nodes in Lena, Lenb. cbn [st_node] in Lena, Lenb.
  assert (L1 : Nat.ltb (length (renc (T na ca) ++ ra0)) (nnodes na) = false) by (apply Nat.ltb_ge; rewrite app_length; lia).
  assert (L2 : Nat.ltb (length (renc (T nb cb) ++ rb0)) (nnodes nb) = false) by (apply Nat.ltb_ge; rewrite app_length; lia).
  assert (F1 : firstn (nnodes nb) (renc (T nb cb) ++ rb0) = renc (T nb cb)) by (rewrite <- Lenb; apply firstn_app_exact).
  assert (F2 : firstn (nnodes na) (renc (T na ca) ++ ra0) = renc (T na ca)) by (rewrite <- Lena; apply firstn_app_exact).
  rewrite renc_unfold in L1, L2, F1, F2 |- *. rewrite (renc_unfold nb cb). cbn [app] in *.
  cbn [bc]. rewrite L1, L2, st_join_unfold.
  destruct (is_leaf_node na) eqn:Ln.
  { rewrite F1. unfold bres_of, st_nodes, st_leaves. cbn [st_node]. rewrite <- renc_unfold.
    destruct La' as [_ ->]. simpl in Na. rewrite Na. reflexivity. }
  destruct (is_leaf_node nb) eqn:Lb.
  { rewrite F2. unfold bres_of, st_nodes, st_leaves. cbn [st_node]. rewrite <- renc_unfold.
    destruct Lb' as [_ ->]. simpl in Nb. rewrite Nb. reflexivity. }
  destruct (good_node na ca Ga) as (_ & Dna & _ & Nna & _ & _).
  destruct (good_node nb cb Gb) as (_ & Dnb & _ & Nnb & _ & _).
  (* the positional case: the other node's children are met one after the other *)
  assert (Hpos : narity na = narity nb ->
            bfinish (bc fuel) na (flat_map renc (rev ca) ++ ra0) (flat_map renc (rev cb) ++ rb0) None None =
            match join_kids na ca cb with Ok j => Ok (bres_of (T na ca) (T nb cb) j) | Err e => Err e end).
  { intros Har. apply bfinish_spec; try assumption.
    - congruence.
    - apply (stepok_none _ (rev cb) 0 rb0); [apply forallb_rev; exact Wcb | reflexivity].
    - symmetry. exact Nb. }
  destruct (nkind na) eqn:Ka.
  - (* custom *)
    repeat match goal with |- context[if ?c then _ else _] =>
             match c with context[if _ then _ else _] => fail 1 | _ => destruct c eqn:?; [reflexivity|] end end.
    apply Hpos. match goal with H : negb (Nat.eqb _ _) = false |- _ => apply negb_false_iff, Nat.eqb_eq in H; exact H end.
  - unfold is_leaf_node in Ln. rewrite Ka in Ln. discriminate Ln.
  - (* None *)
    destruct (kind_eqb (nkind nb) KdNone) eqn:Kn; [|reflexivity].
    unfold bres_of, st_nodes, st_leaves. cbn [st_node]. rewrite (Nna eq_refl). cbn [rev flat_map renc].
    apply kind_eqb_eq in Kn. rewrite (Nnb Kn) in Nb. simpl in Nb. rewrite Nb.
    rewrite renc_unfold. rewrite (Nna eq_refl) in Na. simpl in Na. rewrite Na. reflexivity.
  - repeat match goal with |- context[if ?c then _ else _] =>
             match c with context[if _ then _ else _] => fail 1 | _ => destruct c eqn:?; [reflexivity|] end end.
    apply Hpos. match goal with H : negb (Nat.eqb _ _) = false |- _ => apply negb_false_iff, Nat.eqb_eq in H; exact H end.
  - repeat match goal with |- context[if ?c then _ else _] =>
             match c with context[if _ then _ else _] => fail 1 | _ => destruct c eqn:?; [reflexivity|] end end.
    apply Hpos. match goal with H : negb (Nat.eqb _ _) = false |- _ => apply negb_false_iff, Nat.eqb_eq in H; exact H end.
  - (* dict-like: the other node's children through the table of positions *)
    destruct (is_dict_kind (nkind nb)) eqn:Db; cbn [negb]; [|reflexivity].
    destruct (Dna eq_refl) as (ka & Hka & Lka & Nka). destruct (Dnb eq_refl) as (kb & Hkb & Lkb & Nkb).
    rewrite Hka, Hkb. destruct (keys_same_set ka kb) eqn:S; cbn [negb]; [|reflexivity].
    rewrite Ab, <- (rev_length cb).
    pose proof (child_offsets_spec (rev cb) [] rb0 (forallb_rev _ _ Wcb)) as Hco. cbn [app length] in Hco.
    rewrite Hco. cbn [bind].
    pose proof (offs_of_at (rev cb) [] rb0 (forallb_rev _ _ Wcb)) as Hat. cbn [app length] in Hat.
    apply Forall2_rev in Hat. rewrite rev_involutive in Hat.
    destruct (omapM_exists (child_at_key kb cb) ka) as (cb' & Hcb').
    { intros k Hk. apply lookup_exists; [exact Lkb | exact (same_set_incl ka kb S k Hk)]. }
    rewrite Hcb'.
    destruct (omapM_rel _ kb _ cb Hat ka cb' Hcb') as (os & Hos & HF). rewrite Hos.
    apply bfinish_spec; try assumption.
    + rewrite (omapM_length _ _ _ Hcb'). congruence.
    + exact (forallb_sub _ cb cb' Wcb (omapM_child_in kb cb ka cb' Hcb')).
    + exact (forallb_sub _ cb cb' Gcb (omapM_child_in kb cb ka cb' Hcb')).
    + apply stepok_some. apply Forall2_rev. exact HF.
    + rewrite map_rev, sum_rev. cbn [Nat.add]. symmetry. exact Nb.
  - repeat match goal with |- context[if ?c then _ else _] =>
             match c with context[if _ then _ else _] => fail 1 | _ => destruct c eqn:?; [reflexivity|] end end.
    apply Hpos. match goal with H : negb (Nat.eqb _ _) = false |- _ => apply negb_false_iff, Nat.eqb_eq in H; exact H end.
  - (* dict-like: the other node's children through the table of positions *)
    destruct (is_dict_kind (nkind nb)) eqn:Db; cbn [negb]; [|reflexivity].
    destruct (Dna eq_refl) as (ka & Hka & Lka & Nka). destruct (Dnb eq_refl) as (kb & Hkb & Lkb & Nkb).
    rewrite Hka, Hkb. destruct (keys_same_set ka kb) eqn:S; cbn [negb]; [|reflexivity].
    rewrite Ab, <- (rev_length cb).
    pose proof (child_offsets_spec (rev cb) [] rb0 (forallb_rev _ _ Wcb)) as Hco. cbn [app length] in Hco.
    rewrite Hco. cbn [bind].
    pose proof (offs_of_at (rev cb) [] rb0 (forallb_rev _ _ Wcb)) as Hat. cbn [app length] in Hat.
    apply Forall2_rev in Hat. rewrite rev_involutive in Hat.
    destruct (omapM_exists (child_at_key kb cb) ka) as (cb' & Hcb').
    { intros k Hk. apply lookup_exists; [exact Lkb | exact (same_set_incl ka kb S k Hk)]. }
    rewrite Hcb'.
    destruct (omapM_rel _ kb _ cb Hat ka cb' Hcb') as (os & Hos & HF). rewrite Hos.
    apply bfinish_spec; try assumption.
    + rewrite (omapM_length _ _ _ Hcb'). congruence.
    + exact (forallb_sub _ cb cb' Wcb (omapM_child_in kb cb ka cb' Hcb')).
    + exact (forallb_sub _ cb cb' Gcb (omapM_child_in kb cb ka cb' Hcb')).
    + apply stepok_some. apply Forall2_rev. exact HF.
    + rewrite map_rev, sum_rev. cbn [Nat.add]. symmetry. exact Nb.
  - (* dict-like: the other node's children through the table of positions *)
    destruct (is_dict_kind (nkind nb)) eqn:Db; cbn [negb]; [|reflexivity].
    destruct (Dna eq_refl) as (ka & Hka & Lka & Nka). destruct (Dnb eq_refl) as (kb & Hkb & Lkb & Nkb).
    rewrite Hka, Hkb. destruct (keys_same_set ka kb) eqn:S; cbn [negb]; [|reflexivity].
    rewrite Ab, <- (rev_length cb).
    pose proof (child_offsets_spec (rev cb) [] rb0 (forallb_rev _ _ Wcb)) as Hco. cbn [app length] in Hco.
    rewrite Hco. cbn [bind].
    pose proof (offs_of_at (rev cb) [] rb0 (forallb_rev _ _ Wcb)) as Hat. cbn [app length] in Hat.
    apply Forall2_rev in Hat. rewrite rev_involutive in Hat.
    destruct (omapM_exists (child_at_key kb cb) ka) as (cb' & Hcb').
    { intros k Hk. apply lookup_exists; [exact Lkb | exact (same_set_incl ka kb S k Hk)]. }
    rewrite Hcb'.
    destruct (omapM_rel _ kb _ cb Hat ka cb' Hcb') as (os & Hos & HF). rewrite Hos.
    apply bfinish_spec; try assumption.
    + rewrite (omapM_length _ _ _ Hcb'). congruence.
    + exact (forallb_sub _ cb cb' Wcb (omapM_child_in kb cb ka cb' Hcb')).
    + exact (forallb_sub _ cb cb' Gcb (omapM_child_in kb cb ka cb' Hcb')).
    + apply stepok_some. apply Forall2_rev. exact HF.
    + rewrite map_rev, sum_rev. cbn [Nat.add]. symmetry. exact Nb.
  - repeat match goal with |- context[if ?c then _ else _] =>
             match c with context[if _ then _ else _] => fail 1 | _ => destruct c eqn:?; [reflexivity|] end end.
    apply Hpos. match goal with H : negb (Nat.eqb _ _) = false |- _ => apply negb_false_iff, Nat.eqb_eq in H; exact H end.
  - repeat match goal with |- context[if ?c then _ else _] =>
             match c with context[if _ then _ else _] => fail 1 | _ => destruct c eqn:?; [reflexivity|] end end.
    apply Hpos. match goal with H : negb (Nat.eqb _ _) = false |- _ => apply negb_false_iff, Nat.eqb_eq in H; exact H end.
Qed.

(* ---------- the join of well-formed treespecs is well-formed ---------- *)
Lemma join_list_wf : forall ca cb' r,
  Forall (fun a => forall b j, wf_stree a = true -> wf_stree b = true -> st_join a b = Ok j -> wf_stree j = true) ca ->
  forallb wf_stree ca = true -> forallb wf_stree cb' = true ->
  join_list ca cb' = Ok r -> forallb wf_stree r = true.
Proof.
  induction ca as [|x ca IH]; intros [|y cb'] r HF Wa Wb Hj; simpl in Hj; try discriminate.
  - injection Hj as <-. reflexivity.
  - destruct (join_list ca cb') as [rest|] eqn:Er; simpl in Hj; [|discriminate].
    destruct (st_join x y) as [rx|] eqn:Ex; simpl in Hj; [|discriminate]. injection Hj as <-.
    inversion HF as [|? ? Hx HFca]; subst. simpl in Wa, Wb.
    apply andb_true_iff in Wa as [Wx Wca]. apply andb_true_iff in Wb as [Wy Wcb].
    simpl. rewrite (Hx y rx Wx Wy Ex), (IH cb' rest HFca Wca Wcb Er). reflexivity.
Qed.

Lemma wf_mkT n r : is_leaf_node n = false -> forallb wf_stree r = true -> wf_stree (mkT n r) = true.
Proof.
  intros Ln Wr. unfold mkT. cbn [wf_stree]. unfold recount at 1 2 3 4 5. cbn [narity nnodes nleaves nkind].
  unfold is_leaf_node in *. cbn [nkind recount]. rewrite Ln, !Nat.eqb_refl. cbn [andb].
  destruct (nkind n); try discriminate Ln; rewrite Nat.eqb_refl; exact Wr.
Qed.

Theorem join_wf : forall a b j, wf_stree a = true -> wf_stree b = true -> st_join a b = Ok j -> wf_stree j = true.
Proof.
  induction a as [na ca IH] using stree_ind'. intros [nb cb] j Wa Wb Hj.
  rewrite st_join_unfold in Hj.
  destruct (is_leaf_node na) eqn:La; [injection Hj as <-; exact Wb|].
  destruct (is_leaf_node nb) eqn:Lb; [injection Hj as <-; exact Wa|].
  destruct (wf_unfold na ca Wa) as (_ & _ & _ & Wca). destruct (wf_unfold nb cb Wb) as (_ & _ & _ & Wcb).
  assert (Hkids : forall cb', forallb wf_stree cb' = true -> join_kids na ca cb' = Ok j -> wf_stree j = true).
  { intros cb' Wcb' H. unfold join_kids in H.
    destruct (join_list ca cb') as [r|] eqn:Er; simpl in H; [|discriminate]. injection H as <-.
    apply (wf_mkT na r La). exact (join_list_wf ca cb' r IH Wca Wcb' Er). }
  destruct (nkind na) eqn:Ek.
  - repeat match type of Hj with (if ?c then _ else _) = _ => destruct c; [discriminate|] end. exact (Hkids cb Wcb Hj).
  - discriminate Hj.
  - destruct (kind_eqb (nkind nb) KdNone); [injection Hj as <-; exact Wa | discriminate].
  - repeat match type of Hj with (if ?c then _ else _) = _ => destruct c; [discriminate|] end. exact (Hkids cb Wcb Hj).
  - repeat match type of Hj with (if ?c then _ else _) = _ => destruct c; [discriminate|] end. exact (Hkids cb Wcb Hj).
  - destruct (negb (is_dict_kind (nkind nb))); [discriminate|].
    destruct (node_keys na) as [ka|]; [|discriminate]. destruct (node_keys nb) as [kb|]; [|discriminate].
    destruct (negb (keys_same_set ka kb)); [discriminate|].
    destruct (omapM (child_at_key kb cb) ka) as [cb'|] eqn:Eo; [|discriminate].
    exact (Hkids cb' (forallb_sub _ cb cb' Wcb (omapM_child_in kb cb ka cb' Eo)) Hj).
  - repeat match type of Hj with (if ?c then _ else _) = _ => destruct c; [discriminate|] end. exact (Hkids cb Wcb Hj).
  - destruct (negb (is_dict_kind (nkind nb))); [discriminate|].
    destruct (node_keys na) as [ka|]; [|discriminate]. destruct (node_keys nb) as [kb|]; [|discriminate].
    destruct (negb (keys_same_set ka kb)); [discriminate|].
    destruct (omapM (child_at_key kb cb) ka) as [cb'|] eqn:Eo; [|discriminate].
    exact (Hkids cb' (forallb_sub _ cb cb' Wcb (omapM_child_in kb cb ka cb' Eo)) Hj).
  - destruct (negb (is_dict_kind (nkind nb))); [discriminate|].
    destruct (node_keys na) as [ka|]; [|discriminate]. destruct (node_keys nb) as [kb|]; [|discriminate].
    destruct (negb (keys_same_set ka kb)); [discriminate|].
    destruct (omapM (child_at_key kb cb) ka) as [cb'|] eqn:Eo; [|discriminate].
    exact (Hkids cb' (forallb_sub _ cb cb' Wcb (omapM_child_in kb cb ka cb' Eo)) Hj).
  - repeat match type of Hj with (if ?c then _ else _) = _ => destruct c; [discriminate|] end. exact (Hkids cb Wcb Hj).
  - repeat match type of Hj with (if ?c then _ else _) = _ => destruct c; [discriminate|] end. exact (Hkids cb Wcb Hj).
Qed.

(* ---------- PyTreeSpec::BroadcastToCommonSuffix ---------- *)
Theorem arr_broadcast_spec a b :
  wf_stree (stree_of a) = true -> good (stree_of a) = true ->
  wf_stree (stree_of b) = true -> good (stree_of b) = true ->
  arr_broadcast (spec_of a) (spec_of b) =
  match ss_broadcast a b with Ok j => Ok (spec_of j) | Err e => Err e end.
Proof.
  intros Wa Ga Wb Gb. unfold arr_broadcast, ss_broadcast, spec_of. cbn [trav snil sns].
  destruct (negb (Bool.eqb (ss_nil a) (ss_nil b))); [reflexivity|].
  unfold ns_compatible. rewrite <- !negb_orb.
  destruct (negb (Z.eqb (ss_ns a) 0 || Z.eqb (ss_ns b) 0 || Z.eqb (ss_ns a) (ss_ns b))); [reflexivity|].
  pose proof (jsim (stree_of a) (S (length (encode (stree_of a))))) as H.
  rewrite (encode_length _ Wa) in H. specialize (H (le_S _ _ (le_n _)) Wa Ga (stree_of b) [] [] Wb Gb).
  unfold renc in H. rewrite !app_nil_r in H. rewrite (encode_length _ Wa). rewrite H.
  destruct (st_join (stree_of a) (stree_of b)) as [j|] eqn:Ej; cbn [bind]; [|reflexivity].
  pose proof (join_wf _ _ _ Wa Wb Ej) as Wj.
  cbn [bres_of b_walked b_owalked b_nn b_nl b_nodes].
  rewrite (encode_length _ Wb), !Nat.eqb_refl. cbn [negb].
  rewrite (renc_length j Wj), Nat.eqb_refl. cbn [negb].
  destruct (renc_head j) as (tl & Hh). rewrite Hh. unfold st_leaves. rewrite Nat.eqb_refl. cbn [negb].
  rewrite <- Hh. unfold renc. rewrite rev_involutive. unfold ns_merge. cbn [stree_of ss_nil ss_ns]. reflexivity.
Qed.

Theorem arr_broadcast_of_flattened c1 o1 ls1 sp1 s1 c2 o2 ls2 sp2 s2 :
  wf_obj o1 = true -> wf_obj o2 = true ->
  flatten c1 o1 = Ok (ls1, sp1) -> flatten c2 o2 = Ok (ls2, sp2) ->
  sspec_of sp1 = Some s1 -> sspec_of sp2 = Some s2 ->
  arr_broadcast sp1 sp2 = match ss_broadcast s1 s2 with Ok j => Ok (spec_of j) | Err e => Err e end.
Proof.
  intros W1 W2 F1 F2 S1 S2.
  destruct (flatten_facts c1 o1 ls1 sp1 W1 F1) as (s1' & E1 & <- & Wt1 & G1 & _). rewrite S1 in E1. injection E1 as <-.
  destruct (flatten_facts c2 o2 ls2 sp2 W2 F2) as (s2' & E2 & <- & Wt2 & G2 & _). rewrite S2 in E2. injection E2 as <-.
  apply arr_broadcast_spec; assumption.
Qed.
