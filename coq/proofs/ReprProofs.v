(* ReprProofs.v — the agenda machine of ToStringImpl computes the tree-level repr; one star per leaf;
   the suffixes say exactly none_is_leaf and the namespace. *)
From OptreeModel Require Import Base Tree Spec Repr.
From OptreeProofs Require Import BaseProofs RoundTrip SpecProofs InspectProofs ValidateProofs PrefixArrProofs PrefixErrProofs BroadcastEquiv.
From OptreeModel Require Import Flatten.
From OptreeModel Require Import Pickle.

Definition st_repr_list : list stree -> res (list (list rtok)) :=
  fix go (l : list stree) : res (list (list rtok)) :=
    match l with
    | [] => Ok []
    | c :: l' => do r <- st_repr c ;; do rs <- go l' ;; Ok (r :: rs)
    end.

Lemma st_repr_unfold n cs : st_repr (T n cs) = (do rs <- st_repr_list cs ;; repr_node n rs).
Proof. reflexivity. Qed.

Lemma st_repr_list_length : forall cs rs, st_repr_list cs = Ok rs -> length rs = length cs.
Proof.
  induction cs as [|c cs IH]; intros rs H; simpl in H; [injection H as <-; reflexivity|].
  destruct (st_repr c) as [r|]; cbn [bind] in H; [|discriminate].
  destruct (st_repr_list cs) as [rs'|] eqn:E; cbn [bind] in H; [|discriminate].
  injection H as <-. simpl. f_equal. exact (IH rs' eq_refl).
Qed.

(* the machine on the encoding of a tree: pushes the tree's text, or stops with the tree's error *)
Lemma repr_go_encode t : arity_ok t = true ->
  forall rest agenda,
    repr_go (encode t ++ rest) agenda =
    match st_repr t with Ok r => repr_go rest (r :: agenda) | Err e => Err e end.
Proof.
  induction t as [n cs IH] using stree_ind'. intros Hok rest agenda.
  simpl in Hok. apply andb_true_iff in Hok as [Har Hcs]. apply Nat.eqb_eq in Har.
  assert (Hlist : forall rest agenda,
            repr_go (flat_map encode cs ++ rest) agenda =
            match st_repr_list cs with Ok rs => repr_go rest (rev rs ++ agenda) | Err e => Err e end).
  { clear Har. induction cs as [|x cs IHcs]; intros rest0 agenda0; [reflexivity|].
    cbn [flat_map st_repr_list]. rewrite <- app_assoc. inversion IH as [|? ? Hx Hrest]; subst.
    simpl in Hcs. apply andb_true_iff in Hcs as [Hx' Hcs'].
    rewrite (Hx Hx'). destruct (st_repr x) as [r|e]; cbn [bind]; [|reflexivity].
    rewrite (IHcs Hrest Hcs'). destruct (st_repr_list cs) as [rs|e]; cbn [bind]; [|reflexivity].
    cbn [rev]. rewrite <- app_assoc. reflexivity. }
  cbn [encode]. rewrite <- app_assoc, Hlist, st_repr_unfold.
  destruct (st_repr_list cs) as [rs|e] eqn:Ers; cbn [bind]; [|reflexivity].
  pose proof (st_repr_list_length cs rs Ers) as Hl.
  cbn [app repr_go]. rewrite Har.
  assert (Hlt : Nat.ltb (length (rev rs ++ agenda)) (length cs) = false).
  { apply Nat.ltb_ge. rewrite app_length, rev_length. lia. }
  rewrite Hlt, <- Hl, firstn_rev_app, skipn_rev_app, rev_involutive.
  destruct (repr_node n rs); reflexivity.
Qed.

Theorem arr_repr_spec s : wf_stree (stree_of s) = true -> arr_repr (spec_of s) = ss_repr s.
Proof.
  intros W. unfold arr_repr, ss_repr, spec_of. cbn [trav snil sns].
  rewrite <- (app_nil_r (encode (stree_of s))), (repr_go_encode _ (wf_arity_ok _ W)).
  destruct (st_repr (stree_of s)); reflexivity.
Qed.

(* ---------- one star per leaf ---------- *)
Lemma count_stars_app a b : count_stars (a ++ b) = (count_stars a + count_stars b)%nat.
Proof. unfold count_stars. rewrite filter_app, app_length. reflexivity. Qed.

Lemma count_stars_cons_other t l : (match t with RL LStar => false | _ => true end) = true ->
  count_stars (t :: l) = count_stars l.
Proof. unfold count_stars. simpl. destruct t as [[]| | | | | | | | | |]; simpl; intros H; try discriminate; reflexivity. Qed.

Lemma join_sep_stars : forall l, count_stars (join_sep l) = sum_nat (map count_stars l).
Proof.
  induction l as [|x l IH]; [reflexivity|]. destruct l as [|y l].
  - simpl. lia.
  - change (join_sep (x :: y :: l)) with (x ++ RL LSep :: join_sep (y :: l)).
    rewrite count_stars_app, count_stars_cons_other by reflexivity. rewrite IH. simpl. reflexivity.
Qed.

Lemma items_stars : forall hs cs, length hs = length cs -> Forall (fun h => count_stars h = 0%nat) hs ->
  sum_nat (map count_stars (items hs cs)) = sum_nat (map count_stars cs).
Proof.
  induction hs as [|h hs IH]; intros [|c cs] Hl Hz; simpl in *; try discriminate; [reflexivity|].
  inversion Hz as [|? ? Hh Hrest]; subst. rewrite count_stars_app, Hh. simpl. f_equal. apply IH; [lia | exact Hrest].
Qed.

Lemma key_heads_stars ks : Forall (fun h => count_stars h = 0%nat) (key_heads ks).
Proof. unfold key_heads. apply Forall_forall. intros h Hh. apply in_map_iff in Hh as (k & <- & _). reflexivity. Qed.

Lemma field_heads_stars f n : (forall i, match f i with RL LStar => false | _ => true end = true) ->
  Forall (fun h => count_stars h = 0%nat) (field_heads f n).
Proof.
  intros Hf. unfold field_heads. apply Forall_forall. intros h Hh. apply in_map_iff in Hh as (i & <- & _).
  rewrite count_stars_cons_other by apply Hf. reflexivity.
Qed.

(* a node whose data fits its kind and whose key list is as long as its arity always has a text *)
Lemma repr_node_total nil n rs : kd_ok n = true -> node_payload_ok nil n = true -> length rs = narity n ->
  exists r, repr_node n rs = Ok r /\
            count_stars r = if is_leaf_node n then 1%nat
                            else if kind_eqb (nkind n) KdNone then 0%nat else sum_nat (map count_stars rs).
Proof.
  intros Hk Hp Hl. unfold kd_ok in Hk. unfold node_payload_ok in Hp. apply andb_true_iff in Hp as [Hp _].
  unfold repr_node, is_leaf_node.
  destruct (nkind n) eqn:K; destruct (ndat n) as [|ks|f ks|cls|m|meta eb] eqn:D; try discriminate Hk;
    repeat match goal with |- context [kind_eqb ?a ?b] =>
             let v := eval vm_compute in (kind_eqb a b) in change (kind_eqb a b) with v end;
    cbn iota.
  - (* custom *) eexists; split; [reflexivity|]. cbn [app].
    rewrite !count_stars_cons_other, count_stars_app, join_sep_stars by reflexivity. cbn. lia.
  - eexists; split; reflexivity.
  - eexists; split; reflexivity.
  - eexists; split; [reflexivity|].
    rewrite count_stars_cons_other, !count_stars_app, join_sep_stars by reflexivity.
    destruct (Nat.eqb (narity n) 1); cbn; lia.
  - eexists; split; [reflexivity|].
    rewrite count_stars_cons_other, count_stars_app, join_sep_stars by reflexivity. cbn. lia.
  - (* dict *) rewrite Hp. cbn [negb kind_eqb orb app].
    eexists; split; [reflexivity|].
    rewrite count_stars_cons_other, !count_stars_app, join_sep_stars, items_stars by
      (try reflexivity; try apply key_heads_stars; unfold key_heads; rewrite map_length; apply Nat.eqb_eq in Hp; lia).
    cbn. lia.
  - (* namedtuple *) eexists; split; [reflexivity|].
    rewrite !count_stars_cons_other, count_stars_app, join_sep_stars, items_stars by
      (try reflexivity; try (apply field_heads_stars; reflexivity); unfold field_heads; rewrite map_length, seq_length; lia).
    cbn. lia.
  - (* ordered dict *) rewrite Hp. cbn [negb kind_eqb orb].
    eexists; split; [reflexivity|].
    assert (Hi : sum_nat (map count_stars (items (key_heads ks) rs)) = sum_nat (map count_stars rs)).
    { apply items_stars; [unfold key_heads; rewrite map_length; apply Nat.eqb_eq in Hp; lia | apply key_heads_stars]. }
    destruct (negb (Nat.eqb (narity n) 0)); cbn [app];
      repeat (rewrite ?count_stars_app, ?join_sep_stars, ?Hi; try rewrite count_stars_cons_other by reflexivity); cbn; lia.
  - (* defaultdict *) rewrite Hp. cbn [negb].
    eexists; split; [reflexivity|].
    rewrite !count_stars_cons_other, count_stars_app, join_sep_stars, items_stars by
      (try reflexivity; try apply key_heads_stars; unfold key_heads; rewrite map_length; apply Nat.eqb_eq in Hp; lia).
    cbn. lia.
  - (* deque *) eexists; split; [reflexivity|].
    rewrite count_stars_cons_other, count_stars_app, join_sep_stars by reflexivity.
    destruct m; cbn; lia.
  - (* struct sequence *) eexists; split; [reflexivity|].
    rewrite !count_stars_cons_other, count_stars_app, join_sep_stars, items_stars by
      (try reflexivity; try (apply field_heads_stars; reflexivity); unfold field_heads; rewrite map_length, seq_length; lia).
    cbn. lia.
Qed.

(* THE REPR OF EVERY VALID TREESPEC: it exists (no internal error) and shows exactly one * per leaf *)
Theorem repr_total_stars nil : forall t, wf_stree t = true -> payload_ok nil t = true -> dok t = true ->
  exists r, st_repr t = Ok r /\ count_stars r = st_leaves t.
Proof.
  induction t as [n cs IH] using stree_ind'. intros W P D.
  destruct (wf_unfold n cs W) as (Ar & Nn & Ll & Wcs).
  cbn [payload_ok] in P. apply andb_true_iff in P as [Pn Pcs].
  cbn [dok] in D. apply andb_true_iff in D as [Dn Dcs].
  assert (Hl : exists rs, st_repr_list cs = Ok rs /\ length rs = length cs /\
                          sum_nat (map count_stars rs) = sum_nat (map st_leaves cs)).
  { clear Ar Nn Ll W. induction cs as [|c cs IHcs]; [exists []; repeat split|].
    inversion IH as [|? ? Hc Hrest]; subst. simpl in Wcs, Pcs, Dcs.
    apply andb_true_iff in Wcs as [Wc Wcs]. apply andb_true_iff in Pcs as [Pc Pcs]. apply andb_true_iff in Dcs as [Dc Dcs].
    destruct (Hc Wc Pc Dc) as (r & Hr & Hs). destruct (IHcs Hrest Pcs Dcs Wcs) as (rs & Hrs & Hlen & Hsum).
    exists (r :: rs). cbn [st_repr_list]. rewrite Hr, Hrs. cbn [bind]. repeat split; simpl; [lia|].
    unfold sum_nat in *. simpl. rewrite Hs, Hsum. reflexivity. }
  destruct Hl as (rs & Hrs & Hlen & Hsum).
  rewrite st_repr_unfold, Hrs. cbn [bind].
  destruct (repr_node_total nil n rs Dn Pn) as (r & Hr & Hc); [lia|].
  exists r. split; [exact Hr|]. rewrite Hc. unfold st_leaves. cbn [st_node].
  destruct (is_leaf_node n) eqn:Leaf; [destruct Ll as [-> _]; reflexivity|].
  rewrite Ll, Hsum.
  destruct (kind_eqb (nkind n) KdNone) eqn:KN; [|reflexivity].
  (* a None node has no children *)
  unfold node_payload_ok in Pn. destruct (nkind n); try discriminate KN.
  apply andb_true_iff in Pn as [Pn _]. apply andb_true_iff in Pn as [Pn _]. apply Nat.eqb_eq in Pn.
  destruct cs; [reflexivity | simpl in Ar; lia].
Qed.

(* the suffixes: ", NoneIsLeaf" exactly for none_is_leaf treespecs, ", namespace=..." exactly for a non-empty namespace *)
Theorem wrap_suffixes nil ns body :
  (In (RL LNil) (wrap nil ns body) <-> nil = true \/ In (RL LNil) body) /\
  (In (RL LNsPre) (wrap nil ns body) <-> ns <> 0%Z \/ In (RL LNsPre) body).
Proof.
  unfold wrap. split; split.
  - intros [H|H]; [discriminate|]. apply in_app_or in H as [H|H]; [right; exact H|].
    apply in_app_or in H as [H|H].
    + destruct nil; [left; reflexivity | destruct H].
    + apply in_app_or in H as [H|H].
      * destruct (Z.eqb ns 0); [destruct H | destruct H as [H|[H|[]]]; discriminate].
      * destruct H as [H|[]]; discriminate.
  - intros [->|H]; right; apply in_or_app; [right; left; reflexivity | left; exact H].
  - intros [H|H]; [discriminate|]. apply in_app_or in H as [H|H]; [right; exact H|].
    apply in_app_or in H as [H|H].
    + destruct nil; [destruct H as [H|[]]; discriminate | destruct H].
    + apply in_app_or in H as [H|H].
      * destruct (Z.eqb ns 0) eqn:E; [destruct H | left; intros ->; discriminate].
      * destruct H as [H|[]]; discriminate.
  - intros [Hn|H]; right; apply in_or_app.
    + right. apply in_or_app. right. apply in_or_app. left.
      destruct (Z.eqb ns 0) eqn:E; [apply Z.eqb_eq in E; contradiction | left; reflexivity].
    + left. exact H.
Qed.

Lemma count_stars_wrap nil ns body : count_stars (wrap nil ns body) = count_stars body.
Proof.
  unfold wrap. rewrite count_stars_cons_other, !count_stars_app by reflexivity.
  destruct nil, (Z.eqb ns 0); cbn; lia.
Qed.

(* THE REPR OF EVERY FLATTENED TREE: ToStringImpl succeeds on the treespec of any tree that flattens and
   shows exactly one * per leaf *)
Theorem repr_of_flattened c o ls sp :
  wf_obj o = true -> flatten c o = Ok (ls, sp) ->
  exists r, arr_repr sp = Ok r /\ count_stars r = length ls.
Proof.
  intros W F. destruct (flatten_tflat c o ls sp F) as (t & b & Ht & -> & Wt).
  destruct (repr_total_stars (c_nil c) t Wt (tflat_payload c _ o ls t b W Ht) (tflat_dok c _ o ls t b Ht)) as (r & Hr & Hs).
  pose proof (arr_repr_spec {| stree_of := t; ss_nil := c_nil c; ss_ns := spec_ns c b |} Wt) as Ha.
  unfold spec_of in Ha. cbn [stree_of ss_nil ss_ns] in Ha. rewrite Ha. unfold ss_repr. cbn [stree_of ss_nil ss_ns].
  rewrite Hr. cbn [bind]. eexists; split; [reflexivity|].
  rewrite count_stars_wrap, Hs. symmetry. exact (tflat_count c _ o ls t b Ht).
Qed.
