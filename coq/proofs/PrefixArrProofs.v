(* PrefixArrProofs.v — the C++ IsPrefix loop over reverse iterators with its working copy and block
   permutation (theories/PrefixArr.v) computes the tree-level prefix relation st_prefix on the
   encodings of well-formed treespecs (property C07). *)
From OptreeModel Require Import Base Tree Flatten Unflatten Spec PrefixArr.
From OptreeProofs Require Import BaseProofs RoundTrip SpecProofs InspectProofs EqProofs OrderProofs PrefixOrder JoinOrder JoinLeast PrefixAntisym.
From Coq Require Import Permutation.

(* the reversed encoding: the node, then the children from the last to the first *)
Definition renc (t : stree) : list node := rev (encode t).

Lemma rev_flat_map {A B} (f : A -> list B) l : rev (flat_map f l) = flat_map (fun x => rev (f x)) (rev l).
Proof.
  induction l as [|x l IH]; simpl; [reflexivity|].
  rewrite rev_app_distr, IH, flat_map_app. simpl. rewrite app_nil_r. reflexivity.
Qed.

Lemma renc_unfold n cs : renc (T n cs) = n :: flat_map renc (rev cs).
Proof. unfold renc. simpl. rewrite rev_app_distr. simpl. rewrite rev_flat_map. reflexivity. Qed.

Lemma renc_length t : wf_stree t = true -> length (renc t) = st_nodes t.
Proof. intros H. unfold renc. rewrite rev_length. apply encode_length. exact H. Qed.

Lemma renc_head t : exists l, renc t = st_node t :: l.
Proof. destruct t as [n cs]. rewrite renc_unfold. eexists; reflexivity. Qed.

Lemma firstn_app_exact {A} (l l' : list A) : firstn (length l) (l ++ l') = l.
Proof. induction l; simpl; [destruct l'; reflexivity | f_equal; assumption]. Qed.
Lemma skipn_app_exact {A} (l l' : list A) : skipn (length l) (l ++ l') = l'.
Proof. induction l; simpl; auto. Qed.

Lemma rblocks_cons k blk rest n tl :
  blk = n :: tl -> length blk = nnodes n ->
  rblocks (S k) (blk ++ rest) = do r <- rblocks k rest ;; let '(bs, rest') := r in Ok (blk :: bs, rest').
Proof.
  intros Hb Hl. cbn [rblocks].
  assert (Hm : blk ++ rest = n :: (tl ++ rest)) by (rewrite Hb; reflexivity).
  rewrite Hm at 1. rewrite <- Hl.
  assert (Hlt : Nat.ltb (length (blk ++ rest)) (length blk) = false).
  { apply Nat.ltb_ge. rewrite app_length. lia. }
  rewrite Hlt, skipn_app_exact, firstn_app_exact. reflexivity.
Qed.

(* the blocks the engine cuts off by num_nodes are the reversed encodings of the children *)
Lemma rblocks_spec : forall l rest, forallb wf_stree l = true ->
  rblocks (length l) (flat_map renc l ++ rest) = Ok (map renc l, rest).
Proof.
  induction l as [|x l IH]; intros rest Hw; [reflexivity|].
  simpl in Hw. apply andb_true_iff in Hw as [Hx Hl].
  cbn [length flat_map map]. rewrite <- app_assoc.
  destruct (renc_head x) as (tl & Hh).
  rewrite (rblocks_cons (length l) (renc x) (flat_map renc l ++ rest) (st_node x) tl Hh (renc_length x Hx)).
  rewrite (IH rest Hl). reflexivity.
Qed.

Lemma lookup_combine_map {A B} (f : A -> B) k : forall ks (vs : list A),
  lookup k (combine ks (map f vs)) = option_map f (lookup k (combine ks vs)).
Proof.
  induction ks as [|k0 ks IH]; intros [|v vs]; simpl; try reflexivity.
  destruct (key_eqb k k0); [reflexivity | apply IH].
Qed.

Lemma omapM_map {A B C} (g : A -> option B) (f : B -> C) : forall l r,
  omapM g l = Some r -> omapM (fun k => option_map f (g k)) l = Some (map f r).
Proof.
  induction l as [|a l IH]; intros r H; simpl in H.
  - injection H as <-. reflexivity.
  - destruct (g a) as [b|] eqn:Ea; simpl in H; [|discriminate].
    destruct (omapM g l) as [r'|] eqn:Er; simpl in H; [|discriminate]. injection H as <-.
    simpl. rewrite Ea. simpl. rewrite (IH r' eq_refl). reflexivity.
Qed.

Lemma concat_map_flat_map {A B} (f : A -> list B) l : concat (map f l) = flat_map f l.
Proof. symmetry. apply flat_map_concat_map. Qed.

(* the permutation of the children blocks puts the children into the order of the expected keys *)
Lemma reorder_spec ka kb cb cb' rest :
  forallb wf_stree cb = true -> omapM (child_at_key kb cb) ka = Some cb' ->
  reorder ka kb (length cb) (flat_map renc (rev cb) ++ rest) = Ok (flat_map renc (rev cb') ++ rest).
Proof.
  intros Hw Hal. unfold reorder.
  assert (Hw' : forallb wf_stree (rev cb) = true).
  { apply forallb_forall. intros x Hx. apply in_rev in Hx. exact (forallb_In _ _ _ Hw Hx). }
  rewrite <- (rev_length cb), (rblocks_spec (rev cb) rest Hw'). cbn [bind].
  rewrite <- map_rev, rev_involutive.
  rewrite (omapM_ext _ (fun k => option_map renc (child_at_key kb cb k))).
  2:{ intros k _. unfold child_at_key. apply lookup_combine_map. }
  rewrite (omapM_map _ renc ka cb' Hal).
  rewrite <- map_rev, concat_map_flat_map. reflexivity.
Qed.

(* ---------- a prefix has at most as many nodes ---------- *)
Lemma Forall2_as_map (f : key -> option stree) : forall l x,
  Forall2 (fun k y => f k = Some y) l x -> x = map (fun k => match f k with Some y => y | None => st_leaf end) l.
Proof. induction 1 as [|k y l x Hk _ IH]; simpl; [reflexivity|]. rewrite Hk, <- IH. reflexivity. Qed.

Lemma keys_perm ka kb : NoDup ka -> keys_same_set ka kb = true -> Permutation ka kb.
Proof.
  intros Hn H. unfold keys_same_set in H. apply andb_true_iff in H as [Hl Hs]. apply Nat.eqb_eq in Hl.
  apply NoDup_Permutation_bis; [exact Hn | rewrite Hl; apply le_n|].
  intros k Hk. unfold keys_subset in Hs. rewrite forallb_forall in Hs. apply key_mem_In. apply Hs. exact Hk.
Qed.

Lemma aligned_perm ka kb (cb cb' : list stree) :
  NoDup ka -> NoDup kb -> length kb = length cb -> keys_same_set ka kb = true ->
  omapM (child_at_key kb cb) ka = Some cb' -> Permutation cb' cb.
Proof.
  intros Na Nb Lb S Hal.
  pose proof (Forall2_as_map _ _ _ (omapM_Forall2 _ _ _ Hal)) as E1.
  pose proof (Forall2_as_map _ _ _ (Forall2_lookup_self kb cb Nb Lb)) as E2.
  rewrite E1. eapply Permutation_trans; [apply Permutation_map; apply keys_perm; eassumption|].
  rewrite <- E2. apply Permutation_refl.
Qed.

Lemma sum_nat_perm l l' : Permutation l l' -> sum_nat l = sum_nat l'.
Proof. induction 1; simpl; lia. Qed.

Lemma aligned_cases na nb (cb cb' : list stree) :
  good (T nb cb) = true -> (forall ka, node_keys na = Some ka -> is_dict_kind (nkind na) = true -> NoDup ka) ->
  prefix_node_ok na nb = true -> aligned na nb cb = Some cb' -> Permutation cb' cb.
Proof.
  intros Gb Hna O A. unfold aligned in A. destruct (is_dict_kind (nkind na)) eqn:Da.
  - destruct (pno_dict na nb O Da) as (Db & ka & kb & Hka & Hkb & S). rewrite Hka, Hkb in A.
    destruct (good_keys nb cb Gb kb Hkb Db) as [Nb Lb].
    apply (aligned_perm ka kb cb cb' (Hna ka Hka eq_refl) Nb Lb S A).
  - injection A as <-. apply Permutation_refl.
Qed.

Lemma sum_nodes_le : forall ca cb',
  Forall (fun a => forall b, wf_stree a = true -> wf_stree b = true -> good a = true -> good b = true ->
                             P a b -> (st_nodes a <= st_nodes b)%nat) ca ->
  Forall2 P ca cb' -> forallb wf_stree ca = true -> forallb wf_stree cb' = true ->
  forallb good ca = true -> forallb good cb' = true ->
  (sum_nat (map st_nodes ca) <= sum_nat (map st_nodes cb'))%nat.
Proof.
  induction ca as [|x ca IHl]; intros cb' IH F Wca Wcb' Gca Gcb'; inversion F as [|? y ? cb0 Hxy Frest]; subst; [simpl; lia|].
  inversion IH as [|? ? Hx IHca]; subst. simpl in *.
  apply andb_true_iff in Wca as [Wx Wca]. apply andb_true_iff in Wcb' as [Wy Wcb'].
  apply andb_true_iff in Gca as [Gx Gca]. apply andb_true_iff in Gcb' as [Gy Gcb'].
  specialize (Hx y Wx Wy Gx Gy Hxy). specialize (IHl cb0 IHca Frest Wca Wcb' Gca Gcb'). lia.
Qed.

Theorem prefix_nodes_le : forall a b, wf_stree a = true -> wf_stree b = true -> good a = true -> good b = true ->
  P a b -> (st_nodes a <= st_nodes b)%nat.
Proof.
  induction a as [na ca IH] using stree_ind'. intros [nb cb] Wa Wb Ga Gb Hp.
  destruct (wf_unfold na ca Wa) as (Aa & Na & La & Wca). destruct (wf_unfold nb cb Wb) as (Ab & Nb & Lb & Wcb).
  unfold st_nodes. cbn [st_node]. rewrite Na, Nb.
  destruct (is_leaf_node na) eqn:Leaf.
  { destruct La as [_ ->]. simpl. lia. }
  destruct (P_inv na ca nb cb Leaf Hp) as (O & cb' & A & F).
  assert (Hperm : Permutation cb' cb).
  { apply (aligned_cases na nb cb cb' Gb); [|exact O | exact A].
    intros ka Hk D. exact (proj1 (good_keys na ca Ga ka Hk D)). }
  rewrite <- (sum_nat_perm _ _ (Permutation_map st_nodes Hperm)).
  apply le_n_S.
  assert (Wcb' : forallb wf_stree cb' = true).
  { apply forallb_forall. intros x Hx. apply (forallb_In _ _ _ Wcb). eapply Permutation_in; eauto. }
  assert (Gcb' : forallb good cb' = true).
  { apply forallb_forall. intros x Hx. apply (forallb_In _ _ _ (good_children nb cb Gb)). eapply Permutation_in; eauto. }
  exact (sum_nodes_le ca cb' IH F Wca Wcb' (good_children na ca Ga) Gcb').
Qed.

(* ---------- node level: the C++ tests are the model's prefix_node_ok ---------- *)
(* the node_data object fits the kind (what flatten and the load-time validation produce) *)
Definition kd_ok (n : node) : bool :=
  match nkind n, ndat n with
  | (KdLeaf | KdNone | KdTuple | KdList), DNone => true
  | (KdDict | KdODict), DKeys _ => true
  | KdDDict, DDefault _ _ => true
  | (KdNamed | KdStruct), DClass _ => true
  | KdDeque, DMaxlen _ => true
  | KdCustom, DMeta _ _ => true
  | _, _ => false
  end.

Fixpoint dok (t : stree) : bool := match t with T n cs => kd_ok n && forallb dok cs end.

Lemma cpp_node_ok_spec a b : kd_ok a = true -> kd_ok b = true -> cpp_node_ok a b = prefix_node_ok a b.
Proof.
  unfold kd_ok, cpp_node_ok, prefix_node_ok, has_data. intros Ha Hb.
  destruct (Nat.eqb (narity a) (narity b)); [|reflexivity].
  destruct (opt_reg_eqb (ncustom a) (ncustom b)); [|rewrite andb_false_r; reflexivity].
  cbn [andb]. rewrite andb_true_r.
  destruct (nkind a) eqn:Ka; destruct (ndat a) eqn:Da; try discriminate Ha;
    destruct (nkind b) eqn:Kb; destruct (ndat b) eqn:Db; try discriminate Hb;
    cbn; try reflexivity; rewrite ?andb_true_r, ?andb_false_r; try reflexivity.
Qed.

(* ---------- the children, from the last to the first ---------- *)
Lemma prefix_list_app : forall l1 l1' l2 l2', length l1 = length l1' ->
  prefix_list (l1 ++ l2) (l1' ++ l2') =
  (fst (prefix_list l1 l1') && fst (prefix_list l2 l2'), snd (prefix_list l1 l1') && snd (prefix_list l2 l2')).
Proof.
  induction l1 as [|x l1 IH]; intros [|y l1'] l2 l2' Hl; try discriminate Hl.
  - simpl. destruct (prefix_list l2 l2'); reflexivity.
  - injection Hl as Hl. cbn [app prefix_list]. rewrite (IH l1' l2 l2' Hl).
    destruct (st_prefix x y) as [p1 m1]. destruct (prefix_list l1 l1') as [p2 m2].
    destruct (prefix_list l2 l2') as [p3 m3]. cbn [fst snd]. rewrite !andb_assoc. reflexivity.
Qed.

Lemma prefix_list_rev : forall l l', length l = length l' -> prefix_list (rev l) (rev l') = prefix_list l l'.
Proof.
  induction l as [|x l IH]; intros [|y l'] Hl; try discriminate Hl; [reflexivity|].
  injection Hl as Hl. cbn [rev]. rewrite prefix_list_app by (rewrite !rev_length; exact Hl).
  rewrite (IH l' Hl). cbn [prefix_list]. destruct (st_prefix x y) as [p1 m1]. destruct (prefix_list l l') as [p2 m2].
  cbn [fst snd]. rewrite !andb_true_r, (andb_comm p2 p1), (andb_comm m2 m1). reflexivity.
Qed.

Definition Sim (ta : stree) : Prop := forall tb ra' rb' m,
  wf_stree ta = true -> good ta = true -> dok ta = true ->
  wf_stree tb = true -> good tb = true -> dok tb = true ->
  isp (renc ta ++ ra') (renc tb ++ rb') m =
  match st_prefix ta tb with (true, m1) => isp ra' rb' (m && m1) | (false, _) => Ok None end.

Lemma sim_list : forall la, Forall Sim la -> forall lb ra' rb' m,
  length la = length lb ->
  forallb wf_stree la = true -> forallb good la = true -> forallb dok la = true ->
  forallb wf_stree lb = true -> forallb good lb = true -> forallb dok lb = true ->
  isp (flat_map renc la ++ ra') (flat_map renc lb ++ rb') m =
  match prefix_list la lb with (true, m1) => isp ra' rb' (m && m1) | (false, _) => Ok None end.
Proof.
  induction la as [|x la IH]; intros HS [|y lb] ra' rb' m Hl Wa Ga Da Wb Gb Db; try discriminate Hl.
  - simpl. rewrite andb_true_r. reflexivity.
  - injection Hl as Hl. inversion HS as [|? ? Sx Sla]; subst.
    simpl in Wa, Ga, Da, Wb, Gb, Db.
    apply andb_true_iff in Wa as [Wx Wa]. apply andb_true_iff in Ga as [Gx Ga]. apply andb_true_iff in Da as [Dx Da].
    apply andb_true_iff in Wb as [Wy Wb]. apply andb_true_iff in Gb as [Gy Gb]. apply andb_true_iff in Db as [Dy Db].
    cbn [flat_map prefix_list]. rewrite <- !app_assoc.
    rewrite (Sx y _ _ m Wx Gx Dx Wy Gy Dy).
    destruct (st_prefix x y) as [p1 m1]. destruct p1.
    + rewrite (IH Sla lb ra' rb' (m && m1) Hl Wa Ga Da Wb Gb Db).
      destruct (prefix_list la lb) as [p2 m2]. destruct p2; cbn [andb]; [rewrite andb_assoc; reflexivity | reflexivity].
    + destruct (prefix_list la lb) as [p2 m2]. reflexivity.
Qed.

Lemma forallb_rev {A} (p : A -> bool) l : forallb p l = true -> forallb p (rev l) = true.
Proof. intros H. apply forallb_forall. intros x Hx. apply in_rev in Hx. exact (forallb_In _ _ _ H Hx). Qed.

Lemma forallb_sub {A} (p : A -> bool) l l' : forallb p l = true -> (forall x, In x l' -> In x l) -> forallb p l' = true.
Proof. intros H Hs. apply forallb_forall. intros x Hx. exact (forallb_In _ _ _ H (Hs x Hx)). Qed.

Lemma omapM_length {A B} (f : A -> option B) : forall l r, omapM f l = Some r -> length r = length l.
Proof. intros l r H. pose proof (omapM_Forall2 f l r H) as F. clear H. induction F; simpl; [reflexivity | f_equal; assumption]. Qed.

Theorem sim : forall ta, Sim ta.
Proof.
  induction ta as [na ca IH] using stree_ind'. intros [nb cb] ra' rb' m Wa Ga Da Wb Gb Db.
  destruct (wf_unfold na ca Wa) as (Aa & Na & La' & Wca). destruct (wf_unfold nb cb Wb) as (Ab & Nb & _ & Wcb).
  pose proof (renc_length (T nb cb) Wb) as Hlenb. unfold st_nodes in Hlenb. cbn [st_node] in Hlenb.
  simpl in Da, Db. apply andb_true_iff in Da as [Kda Dca]. apply andb_true_iff in Db as [Kdb Dcb].
  rewrite st_prefix_unfold.
  destruct (is_leaf_node na) eqn:La.
  - (* this treespec has a leaf here: skip the other's subtree *)
    destruct La' as [_ ->]. rewrite renc_unfold. cbn [rev flat_map app].
    destruct (renc_head (T nb cb)) as (tl & Hh). cbn [st_node] in Hh.
    rewrite Hh. cbn [app isp]. rewrite La.
    assert (E0 : Nat.eqb (nnodes nb) 0 = false) by (rewrite Nb; reflexivity). rewrite E0.
    change (nb :: tl ++ rb') with ((nb :: tl) ++ rb'). rewrite <- Hh, <- Hlenb.
    assert (Hlt : Nat.ltb (length (renc (T nb cb) ++ rb')) (length (renc (T nb cb))) = false).
    { apply Nat.ltb_ge. rewrite app_length. lia. }
    rewrite Hlt, skipn_app_exact. reflexivity.
  - rewrite !renc_unfold. cbn [app isp]. rewrite La.
    rewrite (cpp_node_ok_spec na nb Kda Kdb).
    destruct (prefix_node_ok na nb) eqn:O; cbn [negb]; [|reflexivity].
    pose proof (good_children na ca Ga) as Gca. pose proof (good_children nb cb Gb) as Gcb.
    destruct (pno_common na nb O) as [Har _].
    (* both sides arrive at the same re-ordered children of the other node *)
    assert (Hmid : exists cb', aligned na nb cb = Some cb' /\ length cb' = length ca /\
               (forall x, In x cb' -> In x cb) /\
               (match node_keys na, node_keys nb with
                | Some ka, Some kb =>
                  if is_dict_kind (nkind na) && negb (keys_eqb ka kb)
                  then reorder ka kb (narity nb) (flat_map renc (rev cb) ++ rb')
                  else Ok (flat_map renc (rev cb) ++ rb')
                | _, _ => Ok (flat_map renc (rev cb) ++ rb')
                end) = Ok (flat_map renc (rev cb') ++ rb')).
    { unfold aligned. destruct (is_dict_kind (nkind na)) eqn:Dk.
      - destruct (pno_dict na nb O Dk) as (Dkb & ka & kb & Hka & Hkb & S). rewrite Hka, Hkb.
        destruct (good_keys na ca Ga ka Hka Dk) as [Nka Lka]. destruct (good_keys nb cb Gb kb Hkb Dkb) as [Nkb Lkb].
        destruct (omapM_exists (child_at_key kb cb) ka) as (cb' & Hcb').
        { intros k Hk. apply lookup_exists; [exact Lkb | exact (same_set_incl ka kb S k Hk)]. }
        exists cb'. split; [exact Hcb'|]. split; [rewrite (omapM_length _ _ _ Hcb'); exact Lka|].
        split; [exact (omapM_child_in kb cb ka cb' Hcb')|].
        cbn [andb]. destruct (keys_eqb ka kb) eqn:Ek; cbn [negb].
        + apply keys_eqb_eq in Ek. subst kb. rewrite (omapM_child_at_key_self ka cb Nka Lkb) in Hcb'.
          injection Hcb' as <-. reflexivity.
        + rewrite Ab. apply reorder_spec; assumption.
      - exists cb. split; [reflexivity|]. split; [congruence|]. split; [auto|].
        destruct (node_keys na); destruct (node_keys nb); reflexivity. }
    destruct Hmid as (cb' & Hal & Hlen & Hsub & ->). rewrite Hal. cbn [bind].
    assert (Wcb' : forallb wf_stree cb' = true) by (exact (forallb_sub _ cb cb' Wcb Hsub)).
    assert (Gcb' : forallb good cb' = true) by (exact (forallb_sub _ cb cb' Gcb Hsub)).
    assert (Dcb' : forallb dok cb' = true) by (exact (forallb_sub _ cb cb' Dcb Hsub)).
    destruct (Nat.ltb (nnodes nb) (nnodes na)) eqn:Hn.
    + (* the other node is smaller: not a prefix *)
      destruct (prefix_list ca cb') as [p m1] eqn:Epl. destruct p; [|reflexivity]. exfalso.
      assert (HP : P (T na ca) (T nb cb)).
      { apply (P_of_parts na ca nb cb cb' La O Hal). apply prefix_list_Forall2. rewrite Epl. reflexivity. }
      pose proof (prefix_nodes_le _ _ Wa Wb Ga Gb HP) as Hle. unfold st_nodes in Hle. cbn [st_node] in Hle.
      apply Nat.ltb_lt in Hn. lia.
    + rewrite <- (prefix_list_rev ca cb') by congruence.
      apply sim_list; try (apply forallb_rev; assumption).
      * apply Forall_rev. exact IH.
      * rewrite !rev_length. congruence.
Qed.

(* ---------- PyTreeSpec::IsPrefix ---------- *)
Theorem arr_is_prefix_spec a b strict :
  wf_stree (stree_of a) = true -> good (stree_of a) = true -> dok (stree_of a) = true ->
  wf_stree (stree_of b) = true -> good (stree_of b) = true -> dok (stree_of b) = true ->
  arr_is_prefix (spec_of a) (spec_of b) strict = Ok (ss_is_prefix a b strict).
Proof.
  intros Wa Ga Da Wb Gb Db. unfold arr_is_prefix, ss_is_prefix, spec_of. cbn [trav snil sns].
  destruct (negb (Bool.eqb (ss_nil a) (ss_nil b))); [reflexivity|].
  unfold ns_compatible. rewrite <- !negb_orb.
  destruct (negb (Z.eqb (ss_ns a) 0 || Z.eqb (ss_ns b) 0 || Z.eqb (ss_ns a) (ss_ns b))); [reflexivity|].
  rewrite (encode_length _ Wa), (encode_length _ Wb).
  destruct (Nat.ltb (st_nodes (stree_of b)) (st_nodes (stree_of a))); [reflexivity|].
  pose proof (sim (stree_of a) (stree_of b) [] [] true Wa Ga Da Wb Gb Db) as H.
  unfold renc in H. rewrite !app_nil_r in H. rewrite H.
  destruct (st_prefix (stree_of a) (stree_of b)) as [p m1]. destruct p; reflexivity.
Qed.

(* every treespec flatten produces carries node data that fits its kinds *)
From OptreeModel Require Import Construct.
From OptreeProofs Require Import ConstructProofs FlattenGood UpToPrefix.

Theorem tflat_dok c : forall fuel o ls t b, tflat c fuel o = Ok (ls, t, b) -> dok t = true.
Proof.
  induction fuel as [|fuel IH]; intros o ls t b Hr; [discriminate|].
  cbn [tflat] in Hr.
  destruct (apply_pred c o); [injection Hr as <- <- <-; reflexivity|].
  destruct (get_kind c o) as [k cu] eqn:Ek.
  destruct o as [id|h cs]; [injection Hr as <- <- <-; reflexivity|].
  assert (Hseq : forall l ls0 ts b0, tflat_seq (tflat c fuel) l = Ok (ls0, ts, b0) -> forallb dok ts = true).
  { intros l ls0 ts b0 H.
    pose proof (tflat_seq_inv (fun t _ => dok t = true) (tflat c fuel) l ls0 ts b0
                  (fun x lx tx bx _ Hf => IH x lx tx bx Hf) H) as Hall.
    apply forallb_forall. intros t0 Ht. rewrite Forall_forall in Hall. destruct (Hall t0 Ht) as (bx & Hs & _). exact Hs. }
  destruct k.
  - destruct h; try discriminate Hr.
    destruct eb; try discriminate Hr;
      (destruct (tflat_seq (tflat c fuel) cs) as [[[ls0 ts] b0]|] eqn:E; simpl in Hr; [|discriminate]);
      pose proof (Hseq _ _ _ _ E) as Hs.
    + injection Hr as <- <- <-. simpl. exact Hs.
    + injection Hr as <- <- <-. simpl. exact Hs.
    + destruct (Nat.eqb (length es) (length cs)) eqn:El; [|discriminate]. injection Hr as <- <- <-. simpl. exact Hs.
  - injection Hr as <- <- <-. reflexivity.
  - injection Hr as <- <- <-. reflexivity.
  - destruct (tflat_seq (tflat c fuel) cs) as [[[ls0 ts] b0]|] eqn:E; simpl in Hr; [|discriminate].
    injection Hr as <- <- <-. simpl. exact (Hseq _ _ _ _ E).
  - destruct (tflat_seq (tflat c fuel) cs) as [[[ls0 ts] b0]|] eqn:E; simpl in Hr; [|discriminate].
    injection Hr as <- <- <-. simpl. exact (Hseq _ _ _ _ E).
  - destruct (hdr_keys h) as [ks|] eqn:Hk; [|discriminate Hr]. cbn zeta in Hr.
    destruct (mapM _ _) as [ch|]; simpl in Hr; [|discriminate].
    destruct (tflat_seq (tflat c fuel) ch) as [[[ls0 ts] b0]|] eqn:E; simpl in Hr; [|discriminate].
    injection Hr as <- <- <-.
    destruct h; simpl in Ek; try discriminate Ek; try (destruct (c_nil c); discriminate Ek);
      try (destruct (lookup_reg c cls); discriminate Ek).
    simpl. exact (Hseq _ _ _ _ E).
  - destruct (tflat_seq (tflat c fuel) cs) as [[[ls0 ts] b0]|] eqn:E; simpl in Hr; [|discriminate].
    injection Hr as <- <- <-. simpl. exact (Hseq _ _ _ _ E).
  - destruct (hdr_keys h) as [ks|] eqn:Hk; [|discriminate Hr]. cbn zeta in Hr.
    destruct (mapM _ _) as [ch|]; simpl in Hr; [|discriminate].
    destruct (tflat_seq (tflat c fuel) ch) as [[[ls0 ts] b0]|] eqn:E; simpl in Hr; [|discriminate].
    injection Hr as <- <- <-.
    destruct h; simpl in Ek; try discriminate Ek; try (destruct (c_nil c); discriminate Ek);
      try (destruct (lookup_reg c cls); discriminate Ek).
    simpl. exact (Hseq _ _ _ _ E).
  - destruct (hdr_keys h) as [ks|] eqn:Hk; [|discriminate Hr]. cbn zeta in Hr.
    destruct (mapM _ _) as [ch|]; simpl in Hr; [|discriminate].
    destruct (tflat_seq (tflat c fuel) ch) as [[[ls0 ts] b0]|] eqn:E; simpl in Hr; [|discriminate].
    injection Hr as <- <- <-.
    destruct h; simpl in Ek; try discriminate Ek; try (destruct (c_nil c); discriminate Ek);
      try (destruct (lookup_reg c cls); discriminate Ek).
    simpl. exact (Hseq _ _ _ _ E).
  - destruct (tflat_seq (tflat c fuel) cs) as [[[ls0 ts] b0]|] eqn:E; simpl in Hr; [|discriminate].
    injection Hr as <- <- <-. simpl. exact (Hseq _ _ _ _ E).
  - destruct (tflat_seq (tflat c fuel) cs) as [[[ls0 ts] b0]|] eqn:E; simpl in Hr; [|discriminate].
    injection Hr as <- <- <-. simpl. exact (Hseq _ _ _ _ E).
Qed.

Lemma flatten_facts c o ls sp : wf_obj o = true -> flatten c o = Ok (ls, sp) ->
  exists s, sspec_of sp = Some s /\ spec_of s = sp /\
            wf_stree (stree_of s) = true /\ good (stree_of s) = true /\ dok (stree_of s) = true.
Proof.
  intros Hw Hf. destruct (flatten_good c o ls sp Hw Hf) as (s & Hs & Hg). exists s. split; [exact Hs|].
  unfold flatten in Hf. destruct (flat c (S (c_limit c)) o) as [[[ls' ns] b]|] eqn:E; [|discriminate].
  cbn [bind] in Hf. injection Hf as <- <-.
  destruct (tflat_of_flat c _ o _ _ _ E) as (t & Ht & -> & Hwt).
  unfold sspec_of in Hs. cbn [trav snil sns] in Hs. rewrite (decode_encode t (wf_arity_ok t Hwt)) in Hs.
  injection Hs as <-. cbn [stree_of] in *. unfold spec_of. cbn [stree_of ss_nil ss_ns].
  split; [reflexivity|]. split; [exact Hwt|]. split; [exact Hg|]. exact (tflat_dok c _ o _ _ _ Ht).
Qed.

(* for the treespecs of any two flattened trees, the C++ loop returns what the model's is_prefix says *)
Theorem arr_is_prefix_of_flattened c1 o1 ls1 sp1 s1 c2 o2 ls2 sp2 s2 strict :
  wf_obj o1 = true -> wf_obj o2 = true ->
  flatten c1 o1 = Ok (ls1, sp1) -> flatten c2 o2 = Ok (ls2, sp2) ->
  sspec_of sp1 = Some s1 -> sspec_of sp2 = Some s2 ->
  arr_is_prefix sp1 sp2 strict = Ok (ss_is_prefix s1 s2 strict).
Proof.
  intros W1 W2 F1 F2 S1 S2.
  destruct (flatten_facts c1 o1 ls1 sp1 W1 F1) as (s1' & E1 & <- & Wt1 & G1 & D1). rewrite S1 in E1. injection E1 as <-.
  destruct (flatten_facts c2 o2 ls2 sp2 W2 F2) as (s2' & E2 & <- & Wt2 & G2 & D2). rewrite S2 in E2. injection E2 as <-.
  apply arr_is_prefix_spec; assumption.
Qed.
