(* BroadcastEquiv.v — the treespec obtained by putting, at every leaf of a prefix treespec t, the
   treespec of the subtree flatten_up_to finds there, is equivalent to the treespec of the whole tree
   (same tree up to dict kind / key order / maxlen, with t's own nodes above): the results of
   tree_broadcast_prefix / tree_broadcast_common have the structure of the full tree / of the common
   suffix (property C09). *)
From OptreeModel Require Import Base Tree Flatten Unflatten Spec Construct UpToArr.
From OptreeProofs Require Import JoinArrProofs BaseProofs RoundTrip SpecProofs InspectProofs EqProofs OrderProofs PrefixOrder JoinOrder JoinLeast
  FaultProofs DepthProofs Replace ConstructProofs FlattenGood UpToPrefix PrefixAntisym PrefixErrProofs PrefixArrProofs UpToArrProofs Subst TransposeProofs JoinRealise BroadcastProofs.
From Coq Require Import Permutation.

Definition nondict_hdr (h : hdr) : Prop := match h with HDict _ | HODict _ | HDDict _ _ => False | _ => True end.

Lemma node_children_cases c n h cs cu : wf_hdr h (length cs) = true -> node_children c n (Node h cs) = Ok cu ->
  (is_dict_kind (nkind n) = false /\ cu = cs /\ nondict_hdr h) \/
  (is_dict_kind (nkind n) = true /\ exists oks ks, hdr_keys h = Some oks /\ node_keys n = Some ks /\
     keys_same_set ks oks = true /\ mapM (child_by_key oks cs) ks = Ok cu).
Proof.
  unfold node_children. intros Hw H.
  assert (Hseq : forall want, (want = KdTuple \/ want = KdList \/ want = KdDeque) ->
            (if match exact_kind_of (Node h cs) with Some k => kind_eqb k want | None => false end
             then if Nat.eqb (length cs) (narity n) then Ok cs else Err ValueError else Err ValueError) = Ok cu ->
            cu = cs /\ nondict_hdr h).
  { intros want Hwant Hs. destruct (match exact_kind_of (Node h cs) with Some k => kind_eqb k want | None => false end) eqn:Ex; [|discriminate].
    destruct (Nat.eqb (length cs) (narity n)); [|discriminate]. injection Hs as <-. split; [reflexivity|].
    destruct h; try exact I; simpl in Ex; destruct Hwant as [->|[->| ->]]; discriminate Ex. }
  destruct (nkind n) eqn:Kn; try discriminate H.
  - left. destruct h; try discriminate H. destruct (negb _); [discriminate|].
    destruct eb; try discriminate H; (destruct (negb _); [discriminate|]; destruct (negb _); [discriminate|]; injection H as <-; repeat split).
  - left. destruct h; try discriminate H. injection H as <-. simpl in Hw. apply Nat.eqb_eq in Hw. destruct cs; [|discriminate]. repeat split.
  - left. destruct (Hseq KdTuple (or_introl eq_refl) H) as [-> Hh]. auto.
  - left. destruct (Hseq KdList (or_intror (or_introl eq_refl)) H) as [-> Hh]. auto.
  - right. split; [reflexivity|]. destruct (hdr_keys h) as [oks|]; [|discriminate]. destruct (node_keys n) as [ks|]; [|discriminate].
    destruct (keys_same_set ks oks) eqn:S; [|discriminate]. exists oks, ks. auto.
  - left. destruct h; try discriminate H; cbn in H;
      repeat match type of H with (if ?b then _ else _) = _ => destruct b; try discriminate H end; injection H as <-; repeat split.
  - right. split; [reflexivity|]. destruct (hdr_keys h) as [oks|]; [|discriminate]. destruct (node_keys n) as [ks|]; [|discriminate].
    destruct (keys_same_set ks oks) eqn:S; [|discriminate]. exists oks, ks. auto.
  - right. split; [reflexivity|]. destruct (hdr_keys h) as [oks|]; [|discriminate]. destruct (node_keys n) as [ks|]; [|discriminate].
    destruct (keys_same_set ks oks) eqn:S; [|discriminate]. exists oks, ks. auto.
  - left. destruct (Hseq KdDeque (or_intror (or_intror eq_refl)) H) as [-> Hh]. auto.
  - left. destruct h; try discriminate H; cbn in H;
      repeat match type of H with (if ?b then _ else _) = _ => destruct b; try discriminate H end; injection H as <-; repeat split.
Qed.

Lemma subst_length : forall t ts t', Subst t ts t' -> wf_stree t = true -> length ts = st_leaves t.
Proof.
  apply (Subst_ind2
           (fun t ts t' => wf_stree t = true -> length ts = st_leaves t)
           (fun cs tss cs' => forallb wf_stree cs = true -> length (concat tss) = sum_nat (map st_leaves cs))).
  - intros n x Ln W. destruct (wf_unfold n [] W) as (_ & _ & Lv & _). rewrite Ln in Lv. destruct Lv as [Hl _].
    unfold st_leaves. cbn [st_node]. rewrite Hl. reflexivity.
  - intros n cs tss cs' Ln _ IH W. destruct (wf_unfold n cs W) as (_ & _ & Lv & Wcs). rewrite Ln in Lv.
    unfold st_leaves. cbn [st_node]. rewrite Lv. exact (IH Wcs).
  - reflexivity.
  - intros c cs ts tss c' cs' _ IHc _ IHl W. simpl in W. apply andb_true_iff in W as [Wc Wcs].
    cbn [concat map sum_nat fold_right]. rewrite app_length, (IHc Wc), (IHl Wcs). reflexivity.
Qed.

Lemma Forall2_app_split {A B} (R : A -> B -> Prop) : forall l1 l2 l1' l2', length l1 = length l1' ->
  Forall2 R (l1 ++ l2) (l1' ++ l2') -> Forall2 R l1 l1' /\ Forall2 R l2 l2'.
Proof.
  induction l1 as [|x l1 IH]; intros l2 [|y l1'] l2' Hl H; try discriminate Hl; [split; [constructor | exact H]|].
  injection Hl as Hl. inversion H; subst. destruct (IH l2 l1' l2' Hl) as [H1 H2]; [assumption|]. split; [constructor; assumption | exact H2].
Qed.

(* tflat is deterministic and independent of the budget once it succeeds *)
Lemma flat_unique c f x u u' : Flat c f x u -> Flat c f x u' -> u = u'.
Proof. intros (l & b & H) (l' & b' & H'). rewrite H in H'. injection H' as _ <- _. reflexivity. Qed.

Definition EQ (c : cfg) (t : stree) : Prop :=
  good t = true -> spec_ok c t = true -> wf_stree t = true ->
  forall f o lo to bo subs us t', wf_obj o = true -> tflat c f o = Ok (lo, to, bo) ->
  up_to c t o = Ok subs -> Forall2 (Flat c f) subs us -> Subst t us t' -> E t' to.

Lemma eq_children c f : forall ts, Forall (EQ c) ts ->
  forallb good ts = true -> forallb (spec_ok c) ts = true -> forallb wf_stree ts = true ->
  forall cu tso lss tss ts', forallb wf_obj cu = true -> Forall2 (Flat c f) cu tso ->
  mapM_rev2 (up_to c) ts cu = Ok lss -> Forall2 (Flat c f) (concat lss) (concat tss) -> SubstL ts tss ts' ->
  Forall2 E ts' tso.
Proof.
  induction ts as [|t ts IH]; intros HE G S W cu tso lss tss ts' Wcu Fcu Hm HF HS.
  - inversion HS; subst. destruct cu; simpl in Hm; [|discriminate]. inversion Fcu; subst. constructor.
  - inversion HS as [|? ? us uss c' cs' HSc HSl]; subst.
    destruct cu as [|x cu]; simpl in Hm; [discriminate|].
    destruct (mapM_rev2 (up_to c) ts cu) as [rest|] eqn:Er; cbn [bind] in Hm; [|discriminate].
    destruct (up_to c t x) as [sub|] eqn:Eu; cbn [bind] in Hm; [|discriminate]. injection Hm as <-.
    inversion Fcu as [|? u ? tso' Hx Frest]; subst. inversion HE as [|? ? Et Ets]; subst.
    simpl in G, S, W, Wcu. apply andb_true_iff in G as [Gt G]. apply andb_true_iff in S as [St S].
    apply andb_true_iff in W as [Wt W]. apply andb_true_iff in Wcu as [Wx Wcu].
    cbn [concat] in HF.
    assert (Hl : length sub = length us).
    { rewrite (up_to_count c t x sub Wt Gt Eu). symmetry. exact (subst_length t us c' HSc Wt). }
    destruct (Forall2_app_split _ sub (concat rest) us (concat uss) Hl HF) as [HF1 HF2].
    destruct Hx as (lx & bx & Hx).
    constructor.
    + exact (Et Gt St Wt f x lx u bx sub us c' Wx Hx Eu HF1 HSc).
    + exact (IH Ets G S W cu tso' rest uss cs' Wcu Frest Er HF2 HSl).
Qed.

Lemma tflat_good c f o lo to bo : wf_obj o = true -> tflat c f o = Ok (lo, to, bo) -> good to = true /\ wf_stree to = true.
Proof.
  intros W H. destruct (flat_of_tflat c f o lo to bo H) as [Hf Hw]. split; [|exact Hw].
  destruct (flat_good c f o _ W Hf) as (t & Hn & Wt & _ & Gt). unfold r_ns in Hn. cbn [fst snd] in Hn.
  rewrite (TransposeProofs.encode_inj to t Hw Wt Hn). exact Gt.
Qed.

Theorem eq_main c : c_pred c = None -> forall t, EQ c t.
Proof.
  intros Hp. assert (Hap : forall x, apply_pred c x = false) by (intros; unfold apply_pred; rewrite Hp; reflexivity).
  induction t as [n ts IH] using stree_ind'. intros G S W f o lo to bo subs us t' Wo Ht Hu HF HS.
  destruct (tflat_good c f o lo to bo Wo Ht) as [Gto Wto].
  pose proof Hu as Hu0. rewrite (up_to_unfold c n ts o G) in Hu.
  inversion HS as [n0 x Ln | n0 cs0 tss cs' Ln HSL]; subst.
  - (* a leaf of the prefix: the whole subtree *)
    rewrite Ln in Hu. injection Hu as <-. inversion HF as [|? ? ? ? Hx Hrest]; subst. inversion Hrest; subst.
    rewrite (flat_unique c f o t' to Hx (ex_intro _ lo (ex_intro _ bo Ht))).
    destruct to as [nto cto]. destruct (good_node nto cto Gto) as (_ & _ & _ & _ & Hk & Ha). exact (prefix_refl _ Hk Ha).
  - rewrite Ln in Hu. destruct (node_children c n o) as [cu|] eqn:En; cbn [bind] in Hu; [|discriminate].
    destruct (mapM_rev2 (up_to c) ts cu) as [lss|] eqn:Em; cbn [bind] in Hu; [|discriminate]. injection Hu as <-.
    (* the prefix relation holds, node level and alignment *)
    assert (HP : P (T n ts) to).
    { apply (proj1 (up_to_iff_prefix c Hp (T n ts) G S f o lo to bo Wo Ht)). eexists; exact Hu0. }
    destruct to as [nto cto]. destruct (P_inv n ts nto cto Ln HP) as (O & cu' & Hal & _).
    (* the object side *)
    destruct o as [id|h cs]; [unfold node_children in En; destruct (nkind n); discriminate En|].
    pose proof Wo as Wo0. simpl in Wo. apply andb_true_iff in Wo as [Wh Wcs].
    destruct f as [|f]; [discriminate Ht|].
    destruct (get_kind c (Node h cs)) as [k cu0] eqn:Ek.
    destruct (kind_eqb k KdLeaf) eqn:Kl.
    { (* the object is a leaf for the configuration: the prefix node cannot match it *)
      exfalso. apply kind_eqb_eq in Kl. subst k. cbn [tflat] in Ht. rewrite Hap, Ek in Ht. injection Ht as _ <- <- _.
      apply prefix_node_ok_nonleaf in O. discriminate O. }
    destruct (tflat_node_inv c f h cs lo (T nto cto) bo k cu0 (Hap _) Ek Kl Wh Ht) as (ch & tso & b0 & Hv & Hseq & Hto & _ & _).
    unfold mkT in Hto. injection Hto as -> ->.
    pose proof (tflat_seq_Forall2 _ _ _ _ _ Hseq) as Fch.
    (* the children flatten_up_to descends into, and their treespecs = the aligned children of `to` *)
    assert (Hcu : forallb wf_obj cu = true /\ Forall2 (Flat c f) cu cu').
    { destruct (node_children_cases c n h cs cu Wh En) as [(Dk & -> & Hh) | (Dk & oks & ks & Hok & Hks & Sk & Hmk)].
      - split; [exact Wcs|]. unfold aligned in Hal. rewrite Dk in Hal. injection Hal as <-.
        destruct h; try contradiction; cbn [visited] in Hv; injection Hv as <-; exact Fch.
      - split.
        + apply forallb_forall. intros x Hx. apply (forallb_In _ _ _ Wcs). exact (proj2 (proj2 (mapM_child_by_key _ _ _ _ Hmk)) x Hx).
        + assert (Dkk : is_dict_kind k = true).
          { destruct h; simpl in Hok; try discriminate Hok; simpl in Ek; injection Ek as <- _; reflexivity. }
          destruct (dict_header_facts c h cs k cu0 Ek Dkk Wh) as (ks0 & Hh & Vis & Pv & Nk & Lk).
          assert (Hvk : Permutation (vkeys c h) oks).
          { destruct h; try contradiction; simpl in Hok; injection Hok as <-; cbn [vkeys]; apply visit_keys_perm. }
          assert (Hvis : visited c h cs = mapM (child_by_key oks cs) (vkeys c h)).
          { destruct h; try contradiction; simpl in Hok; injection Hok as <-; reflexivity. }
          assert (Nko : NoDup oks).
          { destruct h; try contradiction; simpl in Hok; injection Hok as <-; simpl in Wh;
              apply andb_true_iff in Wh as [_ Hn]; apply keys_nodup_NoDup; exact Hn. }
          clear Vis Pv Nk Lk ks0. rename Hvk into Pv. rename Hvis into Vis. rename Nko into Nk.
          rewrite Vis in Hv.
          assert (Nv : NoDup (vkeys c h)) by (eapply Permutation_NoDup; [symmetry; exact Pv | exact Nk]).
          destruct (trees_by_key c f oks cs (vkeys c h) ch tso Nv Hv Fch ks cu) as (tso' & Hts & Ftso'); [|exact Hmk|].
          { intros k0 Hk0. eapply Permutation_in; [symmetry; exact Pv|]. exact (same_set_incl ks oks Sk k0 Hk0). }
          unfold aligned in Hal. rewrite Dk, Hks in Hal.
          assert (Hnk : node_keys (recount (node_of k cu0 h (vkeys c h) (length tso)) tso) = Some (vkeys c h)).
          { apply node_of_keys; [|destruct h; try contradiction; exact I].
            exact Dkk. }
          rewrite Hnk, Hts in Hal. injection Hal as <-. exact Ftso'. }
    destruct Hcu as [Wcu Fcu].
    assert (Fcu' : Forall2 (Flat c (Datatypes.S f)) cu cu').
    { clear - Fcu. induction Fcu as [|x u l l' (lx & bx & Hx) _ IHf]; constructor; [|exact IHf].
      exists lx, bx. apply tflat_fuel_mono. exact Hx. }
    pose proof (good_children n ts G) as Gts. simpl in S, W. apply andb_true_iff in S as [_ Sts].
    destruct (wf_unfold n ts W) as (Ar & _ & _ & Wts).
    pose proof (eq_children c (Datatypes.S f) ts IH Gts Sts Wts cu cu' lss tss cs' Wcu Fcu' Em HF HSL) as HE.
    unfold mkT. apply (E_inv (recount n cs') cs').
    + unfold is_leaf_node. cbn [recount nkind]. exact Ln.
    + split; [|exists cu'; split; [rewrite aligned_recount; exact Hal | exact HE]].
      rewrite pno_recount; [exact O|]. rewrite (SubstL_length _ _ _ HSL). exact Ar.
Qed.

(* ---------- tree_broadcast_prefix: the result has the structure of the full tree ---------- *)
From OptreeModel Require Import Ops.

Theorem tree_broadcast_prefix_structure c p full lsp spp s subs rs lf spf :
  c_pred c = None -> wf_obj p = true -> wf_obj full = true ->
  flatten c p = Ok (lsp, spp) -> sspec_of spp = Some s ->
  ss_flatten_up_to (c_reg c) s full = Ok subs ->
  Forall2 (fun sub r => flatten c sub = Ok r) subs rs ->
  flatten c full = Ok (lf, spf) ->
  exists r t' tf b,
    tree_broadcast_prefix c p full = Ok r /\ wf_obj r = true /\
    tflat c (S (c_limit c) + S (c_limit c)) r =
      Ok (concat (map (fun xq => repeat (fst xq) (length (fst (snd xq)))) (combine lsp rs)), t', b) /\
    decode (trav spf) = Some tf /\ E t' tf.
Proof.
  intros Hp Wp Wf Fp Hs Hu HF Ff.
  destruct (tree_broadcast_prefix_spec c p full lsp spp s subs rs Hp Wp Wf Fp Hs Hu HF) as (r & t & t' & b & Hr & Wr & Hd & HS & HT).
  destruct (flatten_tflat c full lf spf Ff) as (tf & bf & Htf & Hspf & Wtf).
  exists r, t', tf, b. split; [exact Hr|]. split; [exact Wr|]. split; [exact HT|].
  split; [subst spf; cbn [trav]; apply decode_encode; apply wf_arity_ok; exact Wtf|].
  (* the prefix's treespec *)
  destruct (flatten_tflat c p lsp spp Fp) as (tp & bp & Htp & Hspp & Wtp).
  assert (Htt : t = tp).
  { subst spp. cbn [trav] in Hd. rewrite (decode_encode tp (wf_arity_ok tp Wtp)) in Hd. injection Hd as <-. reflexivity. }
  subst t.
  destruct (up_to_spec c p lsp spp s full Fp Hs) as (tp' & bp' & Htp' & Heq). rewrite Htp in Htp'. injection Htp' as <- <-.
  rewrite Heq in Hu.
  destruct (tflat_good c _ p lsp tp bp Wp Htp) as [Gtp _].
  pose proof (proj1 (tflat_spec_ok c _ p _ _ _ Htp)) as Stp.
  apply (eq_main c Hp tp Gtp Stp Wtp (S (c_limit c)) full lf tf bf subs
           (map (fun q : list obj * spec => match decode (trav (snd q)) with Some u => u | None => st_leaf end) rs) t' Wf Htf Hu); [|exact HS].
  clear - HF. induction HF as [|sub [lq spq] subs rs Hq _ IH]; cbn [map]; constructor; [|exact IH].
  destruct (flatten_tflat c sub lq spq Hq) as (u & bu & Hu & Hsp & Wu). exists lq, bu.
  subst spq. cbn [snd trav]. rewrite (decode_encode u (wf_arity_ok u Wu)). exact Hu.
Qed.

(* ---------- equivalent treespecs have equally many leaves ---------- *)
Lemma sum_leaves_eq : forall ca cb',
  Forall (fun a => forall b, wf_stree a = true -> wf_stree b = true -> good a = true -> good b = true ->
                             E a b -> st_leaves a = st_leaves b) ca ->
  Forall2 E ca cb' -> forallb wf_stree ca = true -> forallb wf_stree cb' = true ->
  forallb good ca = true -> forallb good cb' = true ->
  sum_nat (map st_leaves ca) = sum_nat (map st_leaves cb').
Proof.
  induction ca as [|x ca IHl]; intros cb' IH F Wca Wcb' Gca Gcb'; inversion F as [|? y ? cb0 Hxy Frest]; subst; [reflexivity|].
  inversion IH as [|? ? Hx IHca]; subst. simpl in *.
  apply andb_true_iff in Wca as [Wx Wca]. apply andb_true_iff in Wcb' as [Wy Wcb'].
  apply andb_true_iff in Gca as [Gx Gca]. apply andb_true_iff in Gcb' as [Gy Gcb'].
  rewrite (Hx y Wx Wy Gx Gy Hxy), (IHl cb0 IHca Frest Wca Wcb' Gca Gcb'). reflexivity.
Qed.

Theorem E_leaves : forall a b, wf_stree a = true -> wf_stree b = true -> good a = true -> good b = true ->
  E a b -> st_leaves a = st_leaves b.
Proof.
  induction a as [na ca IH] using stree_ind'. intros [nb cb] Wa Wb Ga Gb He.
  destruct (wf_unfold na ca Wa) as (Aa & Na & La & Wca). destruct (wf_unfold nb cb Wb) as (Ab & Nb & Lb & Wcb).
  unfold st_leaves. cbn [st_node].
  destruct (is_leaf_node na) eqn:Leaf.
  { unfold E in He. rewrite st_prefix_unfold, Leaf in He. injection He as He. rewrite He in Lb.
    destruct La as [-> _]. destruct Lb as [-> _]. reflexivity. }
  destruct (proj1 (E_inv na ca nb cb Leaf) He) as (O & cb' & A & F).
  rewrite (prefix_node_ok_nonleaf na nb O) in Lb. rewrite La, Lb.
  assert (Hperm : Permutation cb' cb).
  { apply (aligned_cases na nb cb cb' Gb); [|exact O | exact A].
    intros ka Hk D. exact (proj1 (good_keys na ca Ga ka Hk D)). }
  rewrite <- (sum_nat_perm _ _ (Permutation_map st_leaves Hperm)).
  assert (Wcb' : forallb wf_stree cb' = true).
  { apply forallb_forall. intros x Hx. apply (forallb_In _ _ _ Wcb). eapply Permutation_in; eauto. }
  assert (Gcb' : forallb good cb' = true).
  { apply forallb_forall. intros x Hx. apply (forallb_In _ _ _ (good_children nb cb Gb)). eapply Permutation_in; eauto. }
  exact (sum_leaves_eq ca cb' IH F Wca Wcb' (good_children na ca Ga) Gcb').
Qed.

Lemma tflat_count c f o l t b : tflat c f o = Ok (l, t, b) -> length l = st_leaves t.
Proof.
  intros H. destruct (flat_of_tflat c f o l t b H) as [Hf Hw].
  destruct (flat_enc _ _ _ _ Hf) as (t2 & Hn & Hw2 & Hl). unfold r_ns, r_ls in *. cbn [fst snd] in *.
  rewrite (TransposeProofs.encode_inj t t2 Hw Hw2 Hn). symmetry. exact Hl.
Qed.

(* ---------- tree_broadcast_common: both results have the common structure ---------- *)
Theorem tree_broadcast_common_structure c t o ls1 sp1 s1 ls2 sp2 s2 cs :
  c_pred c = None -> wf_obj t = true -> wf_obj o = true ->
  flatten c t = Ok (ls1, sp1) -> sspec_of sp1 = Some s1 ->
  flatten c o = Ok (ls2, sp2) -> sspec_of sp2 = Some s2 ->
  ss_broadcast s1 s2 = Ok cs ->
  exists b1 b2 l1 t1' bb1 l2 t2' bb2,
    tree_broadcast_common c t o = Ok (b1, b2) /\ wf_obj b1 = true /\ wf_obj b2 = true /\
    tflat c (S (c_limit c) + S (c_limit c)) b1 = Ok (l1, t1', bb1) /\
    tflat c (S (c_limit c) + S (c_limit c)) b2 = Ok (l2, t2', bb2) /\
    E t1' (stree_of cs) /\ E t2' (stree_of cs) /\
    length l1 = st_leaves (stree_of cs) /\ length l2 = st_leaves (stree_of cs).
Proof.
  intros Hp Wt Wo F1 S1 F2 S2 Hcs.
  destruct (tree_broadcast_common_spec c t o ls1 sp1 s1 ls2 sp2 s2 cs Hp Wt Wo F1 S1 F2 S2 Hcs)
    as (ctree & spc & b1 & b2 & Wc & Fc & Htr & Hbc & Hb1 & Hb2).
  destruct (flatten_tflat c ctree _ spc Fc) as (tc & bc & Htc & Hspc & Wtc).
  destruct (flatten_facts c t ls1 sp1 Wt F1) as (sa & Ea & _ & Wa & _). rewrite S1 in Ea. injection Ea as <-.
  destruct (flatten_facts c o ls2 sp2 Wo F2) as (sb & Eb & _ & Wb & _). rewrite S2 in Eb. injection Eb as <-.
  pose proof Hcs as Hcs'. unfold ss_broadcast in Hcs'. destruct (negb _); [discriminate|]. destruct (negb _); [discriminate|].
  destruct (st_join (stree_of s1) (stree_of s2)) as [j|] eqn:Ej; cbn [bind] in Hcs'; [|discriminate].
  assert (Hj : stree_of cs = j) by (injection Hcs' as <-; reflexivity).
  assert (Htcj : tc = j).
  { subst spc. cbn [trav] in Htr. rewrite Hj in Htr. symmetry.
    apply TransposeProofs.encode_inj; [exact (join_wf _ _ _ Wa Wb Ej) | exact Wtc | symmetry; exact Htr]. }
  set (sc := {| stree_of := tc; ss_nil := snil spc; ss_ns := sns spc |}).
  assert (Hsc : sspec_of spc = Some sc).
  { unfold sspec_of. subst spc. cbn [trav snil sns]. rewrite (decode_encode tc (wf_arity_ok tc Wtc)). reflexivity. }
  assert (Hside : forall x lsx spx sx bx, wf_obj x = true -> flatten c x = Ok (lsx, spx) -> sspec_of spx = Some sx ->
            P (stree_of sx) tc -> tree_broadcast_prefix c x ctree = Ok bx ->
            exists l t' bb, wf_obj bx = true /\ tflat c (S (c_limit c) + S (c_limit c)) bx = Ok (l, t', bb) /\ E t' tc /\
                            length l = st_leaves tc).
  { intros x lsx spx sx bx Wx Fx Sx HP Hbx.
    destruct (proj2 (flattened_up_to_iff_prefix c x ctree lsx spx sx _ spc sc Hp Wx Wc Fx Sx Fc Hsc) HP) as (subs & Hu).
    destruct (flattened_subs_flatten c x ctree lsx spx sx _ spc subs Hp Wx Wc Fx Sx Fc Hu) as (rs & HF).
    destruct (tree_broadcast_prefix_structure c x ctree lsx spx sx subs rs _ spc Hp Wx Wc Fx Sx Hu HF Fc)
      as (r & t' & tf & bb & Hr & Wr & HT & Hd & HE).
    rewrite Hbx in Hr. injection Hr as <-.
    assert (tf = tc). { subst spc. cbn [trav] in Hd. rewrite (decode_encode tc (wf_arity_ok tc Wtc)) in Hd. injection Hd as <-. reflexivity. }
    subst tf. eexists _, t', bb. split; [exact Wr|]. split; [exact HT|]. split; [exact HE|].
    destruct (tflat_good c _ bx _ t' bb Wr HT) as [Gt' Wt'].
    destruct (tflat_good c _ ctree _ tc bc Wc Htc) as [Gtc _].
    rewrite (tflat_count c _ bx _ t' bb HT). exact (E_leaves t' tc Wt' Wtc Gt' Gtc HE). }
  destruct (flatten_good c t ls1 sp1 Wt F1) as (s1' & E1 & G1). rewrite S1 in E1. injection E1 as <-.
  destruct (flatten_good c o ls2 sp2 Wo F2) as (s2' & E2 & G2). rewrite S2 in E2. injection E2 as <-.
  destruct (join_upper_bound (stree_of s1) (stree_of s2) j G1 G2 Ej) as [P1 P2]. rewrite <- Htcj in P1, P2.
  destruct (Hside t ls1 sp1 s1 b1 Wt F1 S1 P1 Hb1) as (l1 & t1' & bb1 & Wb1 & T1 & HE1 & HL1).
  destruct (Hside o ls2 sp2 s2 b2 Wo F2 S2 P2 Hb2) as (l2 & t2' & bb2 & Wb2 & T2 & HE2 & HL2).
  exists b1, b2, l1, t1', bb1, l2, t2', bb2. rewrite Hj, <- Htcj.
  repeat split; assumption.
Qed.
