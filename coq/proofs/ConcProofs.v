(* ConcProofs.v — under the lock discipline no schedule deadlocks; the shared iterator hands every leaf
   to at most one consumer (property C17). *)
From OptreeModel Require Import Conc.
From Coq Require Import Permutation.

Lemma mem_In l h : mem l h = true <-> In l h.
Proof.
  induction h as [|x h IH]; simpl; [split; [discriminate | tauto]|].
  rewrite orb_true_iff, Nat.eqb_eq, IH. split; intros [H|H]; auto.
Qed.

Lemma rem_In l x h : In x (rem l h) <-> In x h /\ x <> l.
Proof.
  induction h as [|y h IH]; simpl; [tauto|].
  destruct (Nat.eqb l y) eqn:E.
  - apply Nat.eqb_eq in E. subst y. rewrite IH. split; [intros [H1 H2]; auto | intros [[H|H] H2]; [congruence | auto]].
  - apply Nat.eqb_neq in E. simpl. rewrite IH. split.
    + intros [H|[H1 H2]]; [subst; auto | auto].
    + intros [[H|H] H2]; auto.
Qed.

Lemma upd_same {A} (f : nat -> A) i v : upd f i v i = v.
Proof. unfold upd. rewrite Nat.eqb_refl. reflexivity. Qed.
Lemma upd_other {A} (f : nat -> A) i j v : j <> i -> upd f i v j = f j.
Proof. unfold upd. intros H. apply Nat.eqb_neq in H. rewrite H. reflexivity. Qed.

(* every mutex that is taken is taken by the thread that holds the GIL; that thread's remaining
   program is well formed for the set it holds; every other thread holds nothing *)
Definition CInv (s : cstate) : Prop :=
  exists held,
    (forall l t, owner s l = Some t -> t = gil s /\ In l held) /\
    (forall l, In l held -> owner s l = Some (gil s)) /\
    wf held (progs s (gil s)) = true /\
    (forall t, t <> gil s -> wf [] (progs s t) = true).

Lemma wf_nil_held held : wf held [] = true -> held = [].
Proof. destruct held; [reflexivity | discriminate]. Qed.

Lemma cstep_inv s s' : CInv s -> cstep s s' -> CInv s'.
Proof.
  intros (held & Hown & Hheld & Hwf & Hoth) Hstep.
  destruct Hstep as [s p Hp | s l p Hp Hfree | s l p Hp Hmine | s p t' Hp | s t' Hp Hne]; rewrite Hp in Hwf; cbn [wf] in Hwf.
  - exists held. cbn [progs owner gil]. rewrite upd_same.
    split; [exact Hown | split; [exact Hheld | split; [exact Hwf|]]].
    intros t Ht. rewrite upd_other by exact Ht. auto.
  - apply andb_true_iff in Hwf as [Hnm Hwf]. exists (l :: held). cbn [progs owner gil]. rewrite upd_same.
    split; [|split; [|split; [exact Hwf|]]].
    + intros l0 t0 H0. unfold upd in H0. destruct (Nat.eqb l0 l) eqn:E.
      * apply Nat.eqb_eq in E. subst l0. injection H0 as <-. split; [reflexivity | left; reflexivity].
      * destruct (Hown l0 t0 H0) as [H1 H2]. split; [exact H1 | right; exact H2].
    + intros l0 [<-|Hin]; [apply upd_same|]. unfold upd. destruct (Nat.eqb l0 l); auto.
    + intros t Ht. rewrite upd_other by exact Ht. auto.
  - apply andb_true_iff in Hwf as [Hm Hwf]. exists (rem l held). cbn [progs owner gil]. rewrite upd_same.
    split; [|split; [|split; [exact Hwf|]]].
    + intros l0 t0 H0. unfold upd in H0. destruct (Nat.eqb l0 l) eqn:E; [discriminate|]. apply Nat.eqb_neq in E.
      destruct (Hown l0 t0 H0) as [H1 H2]. split; [exact H1 | apply rem_In; auto].
    + intros l0 Hin. apply rem_In in Hin as [Hin Hne]. rewrite upd_other by exact Hne. auto.
    + intros t Ht. rewrite upd_other by exact Ht. auto.
  - destruct held as [|h0 held]; [|discriminate]. exists []. cbn [progs owner gil].
    assert (Hnone : forall l t, owner s l = Some t -> False) by (intros l t H; destruct (Hown l t H) as [_ []]).
    split; [|split; [|split]].
    + intros l0 t0 H0. exfalso; eauto.
    + intros l0 [].
    + unfold upd. destruct (Nat.eqb t' (gil s)) eqn:E; [exact Hwf|]. apply Nat.eqb_neq in E. auto.
    + intros t Ht. unfold upd. destruct (Nat.eqb t (gil s)) eqn:E; [exact Hwf|]. apply Nat.eqb_neq in E. auto.
  - apply wf_nil_held in Hwf. subst held. exists []. cbn [progs owner gil].
    assert (Hnone : forall l t, owner s l = Some t -> False) by (intros l t H; destruct (Hown l t H) as [_ []]).
    split; [|split; [|split]].
    + intros l0 t0 H0. exfalso; eauto.
    + intros l0 [].
    + destruct (Nat.eq_dec t' (gil s)) as [->|E]; [rewrite Hp; reflexivity | auto].
    + intros t Ht. destruct (Nat.eq_dec t (gil s)) as [->|E]; [rewrite Hp; reflexivity | auto].
Qed.

Lemma cstep_progress s : CInv s -> unfinished s -> exists s', cstep s s'.
Proof.
  intros (held & Hown & Hheld & Hwf & Hoth) (t & Ht).
  destruct (progs s (gil s)) as [|a p] eqn:Hp.
  - eexists. apply (SExit s t Hp Ht).
  - destruct a as [l|l| |]; cbn [wf] in Hwf.
    + apply andb_true_iff in Hwf as [Hnm _]. eexists. apply (SLock s l p Hp).
      destruct (owner s l) as [t0|] eqn:Eo; [|reflexivity].
      destruct (Hown l t0 Eo) as [_ Hin]. apply mem_In in Hin. rewrite Hin in Hnm. discriminate.
    + apply andb_true_iff in Hwf as [Hm _]. eexists. apply (SUnlock s l p Hp). apply Hheld. apply mem_In. exact Hm.
    + eexists. apply (SCall s p (gil s) Hp).
    + eexists. apply (SWork s p Hp).
Qed.

Lemma creach_inv s0 s : CInv s0 -> creach s0 s -> CInv s.
Proof. intros H0 Hr. induction Hr as [|s s' s'' Hr' IH Hs]; [exact H0 | eapply cstep_inv; [apply IH; exact H0 | exact Hs]]. Qed.

(* initial states: nothing is locked and every thread's program obeys the discipline *)
Definition cinit (s : cstate) : Prop :=
  (forall l, owner s l = None) /\ (forall t, wf [] (progs s t) = true).

Lemma cinit_inv s : cinit s -> CInv s.
Proof.
  intros [Ho Hw]. exists []. split; [|split; [|split]]; auto.
  - intros l t H. rewrite Ho in H. discriminate.
  - intros l [].
Qed.

(* For any number of threads, any programs that obey the discipline and EVERY schedule (every choice of
   which thread gets the GIL at every callback and at every thread exit): no reachable state is a
   deadlock. *)
Theorem no_deadlock s0 s : cinit s0 -> creach s0 s -> ~ deadlocked s.
Proof.
  intros Hi Hr [Hu Hstuck].
  destruct (cstep_progress s (creach_inv s0 s (cinit_inv s0 Hi) Hr) Hu) as (s' & Hs).
  exact (Hstuck s' Hs).
Qed.

(* a callback while a mutex is held (the seeded variant of the type cache; the registry before fix
   F7/F11): a schedule that deadlocks *)
Definition bad_progs (t : nat) : prog :=
  match t with
  | 0 => [ALock 0; ACall; AUnlock 0]
  | 1 => [ALock 0; AUnlock 0]
  | _ => []
  end.

Theorem callback_under_lock_deadlocks :
  exists s, creach {| progs := bad_progs; owner := fun _ => None; gil := 0 |} s /\ deadlocked s.
Proof.
  set (s0 := {| progs := bad_progs; owner := fun _ => None; gil := 0 |}).
  set (s1 := {| progs := upd bad_progs 0 [ACall; AUnlock 0]; owner := upd (fun _ => None) 0 (Some 0); gil := 0 |}).
  set (s2 := {| progs := upd (progs s1) 0 [AUnlock 0]; owner := owner s1; gil := 1 |}).
  exists s2. split.
  - apply RStep with s1; [apply RStep with s0; [apply RRefl|]|].
    + apply (SLock s0 0 [ACall; AUnlock 0]); reflexivity.
    + apply (SCall s1 [AUnlock 0] 1). reflexivity.
  - split; [exists 1; discriminate|].
    intros s' Hs. inversion Hs; subst; cbn in *; try discriminate.
    match goal with H : ALock _ :: _ = ALock _ :: _ |- _ => injection H as <- <- end.
    match goal with H : upd _ _ _ _ = None |- _ => cbn in H; discriminate end.
Qed.

(* ================= the shared iterator ================= *)
(* everything that is not lost: handed out, in some consumer's hands, or still on the agenda *)
Fixpoint pend_list (p : nat -> option nat) (n : nat) : list nat :=
  match n with
  | O => []
  | S n' => (match p n' with Some x => [x] | None => [] end) ++ pend_list p n'
  end.

Definition account (n : nat) (s : istate) : list nat := emitted s ++ pend_list (pending s) n ++ agenda s.

Lemma pend_list_upd_ge p n t v : (n <= t)%nat -> pend_list (upd p t v) n = pend_list p n.
Proof.
  induction n as [|n IH]; intros H; [reflexivity|]. simpl. rewrite IH by lia.
  rewrite upd_other by lia. reflexivity.
Qed.

Lemma pend_list_take p : forall n t x, (t < n)%nat -> p t = None ->
  Permutation (pend_list (upd p t (Some x)) n) (x :: pend_list p n).
Proof.
  induction n as [|n IH]; intros t x Ht Hp; [lia|]. simpl.
  destruct (Nat.eq_dec t n) as [->|Hne].
  - rewrite upd_same, Hp, pend_list_upd_ge by lia. simpl. reflexivity.
  - rewrite upd_other by auto. rewrite (IH t x) by (lia || assumption).
    destruct (p n); simpl; [apply perm_swap | reflexivity].
Qed.

Lemma pend_list_return p : forall n t x, (t < n)%nat -> p t = Some x ->
  Permutation (x :: pend_list (upd p t None) n) (pend_list p n).
Proof.
  induction n as [|n IH]; intros t x Ht Hp; [lia|]. simpl.
  destruct (Nat.eq_dec t n) as [->|Hne].
  - rewrite upd_same, Hp, pend_list_upd_ge by lia. simpl. reflexivity.
  - rewrite upd_other by auto.
    destruct (p n) as [y|]; simpl.
    + rewrite perm_swap. apply perm_skip. apply IH; [lia | assumption].
    + apply IH; [lia | assumption].
Qed.

Lemma istep_account n s s' : istep true n s s' -> Permutation (account n s') (account n s).
Proof.
  intros Hs. destruct Hs as [s t x a Hlt Ha Hp | s t x Hlt Hp].
  - unfold account. cbn. rewrite Ha.
    rewrite (pend_list_take (pending s) n t x Hlt Hp).
    apply Permutation_app_head. simpl. apply Permutation_middle.
  - unfold account. cbn. rewrite <- app_assoc. apply Permutation_app_head. simpl.
    rewrite <- (pend_list_return (pending s) n t x Hlt Hp). reflexivity.
Qed.

Lemma pend_list_none n : pend_list (fun _ => None) n = [].
Proof. induction n; simpl; auto. Qed.

(* For any number of consumers and EVERY interleaving of their take / hand-out steps: what has been
   handed out, what consumers hold and what is still on the agenda is, together, exactly the initial
   agenda — nothing is delivered twice, nothing is lost. *)
Theorem iterator_conservation n l s :
  ireach true n (ifresh l) s -> Permutation (emitted s ++ pend_list (pending s) n ++ agenda s) l.
Proof.
  intros Hr. remember (ifresh l) as s0 eqn:E. induction Hr as [s|s s' s'' Hr IH Hs].
  - subst s. unfold ifresh. cbn. rewrite pend_list_none. reflexivity.
  - rewrite <- (IH E). apply (istep_account n s' s'' Hs).
Qed.

Lemma NoDup_app_l {A} (l l' : list A) : NoDup (l ++ l') -> NoDup l.
Proof.
  induction l as [|x l IH]; intros H; [constructor|].
  simpl in H. inversion H as [|? ? Hn Hnd]; subst. constructor; [|apply IH; exact Hnd].
  intros Hin. apply Hn. apply in_or_app. left. exact Hin.
Qed.

Corollary iterator_exactly_once n l s :
  NoDup l -> ireach true n (ifresh l) s -> NoDup (emitted s) /\ (forall x, In x (emitted s) -> In x l).
Proof.
  intros Hnd Hr. pose proof (iterator_conservation n l s Hr) as Hp.
  assert (Hnd' : NoDup (emitted s ++ pend_list (pending s) n ++ agenda s)).
  { eapply Permutation_NoDup; [apply Permutation_sym; exact Hp | exact Hnd]. }
  split.
  - apply NoDup_app_l in Hnd'. exact Hnd'.
  - intros x Hx. eapply Permutation_in; [exact Hp | apply in_or_app; left; exact Hx].
Qed.

(* taking the node off the agenda only after the callback (the seeded variant): two consumers get the
   same leaf *)
Theorem pop_after_callback_duplicates :
  exists s, ireach false 2 (ifresh [7; 8]) s /\ emitted s = [7; 7].
Proof.
  eexists. split.
  - eapply IStep; [eapply IStep; [eapply IStep; [eapply IStep; [apply IRefl|]|]|]|].
    + apply (ITake false 2 (ifresh [7; 8]) 0 7 [8]); [lia | reflexivity | reflexivity].
    + eapply (ITake false 2 _ 1 7 [8]); [lia | reflexivity | reflexivity].
    + eapply (IReturn false 2 _ 0 7); [lia | reflexivity].
    + eapply (IReturn false 2 _ 1 7); [lia | reflexivity].
  - reflexivity.
Qed.
