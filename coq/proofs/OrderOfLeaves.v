(* OrderOfLeaves.v — consequences of the sort for flatten (property C02). *)
From OptreeModel Require Import Base Tree Flatten Unflatten Spec.
From OptreeProofs Require Import BaseProofs RoundTrip SpecProofs SortProofs Sort2Proofs EqProofs.
From Coq Require Import Permutation.

Lemma lookup_perm {V} (l l' : list (key * V)) k :
  Permutation l l' -> NoDup (map fst l) -> lookup k l = lookup k l'.
Proof.
  intros Hp. induction Hp as [|[a v] l l' Hp IH|[a v] [b w] l|l l' l'' H1 IH1 H2 IH2]; intros Hnd.
  - reflexivity.
  - simpl in *. inversion Hnd; subst. destruct (key_eqb k a); [reflexivity | auto].
  - simpl in *. inversion Hnd as [|? ? Hn Hnd']; subst.
    destruct (key_eqb k b) eqn:E1, (key_eqb k a) eqn:E2; try reflexivity.
    apply key_eqb_eq in E1, E2. subst. exfalso. apply Hn. left. reflexivity.
  - rewrite IH1 by exact Hnd. apply IH2.
    eapply Permutation_NoDup; [apply Permutation_map; exact H1 | exact Hnd].
Qed.

Lemma mapM_ext_in {A B} (f g : A -> res B) l :
  (forall x, In x l -> f x = g x) -> mapM f l = mapM g l.
Proof.
  induction l as [|x l IH]; intros H; [reflexivity|]. simpl.
  rewrite (H x (or_introl eq_refl)), IH by (intros; apply H; right; assumption). reflexivity.
Qed.

(* Two dicts with the same items inserted in different orders (sorted mode, pairwise comparable
   keys) flatten to the same leaves and to node arrays that == cannot tell apart. *)
Theorem dict_insertion_order_irrelevant c fuel ks cs ks' cs' r :
  ins_ordered c = false ->
  apply_pred c (Node (HDict ks) cs) = false -> apply_pred c (Node (HDict ks') cs') = false ->
  length ks = length cs -> length ks' = length cs' ->
  Permutation (combine ks cs) (combine ks' cs') ->
  NoDup ks -> stage1_ok ks = true ->
  flat c fuel (Node (HDict ks) cs) = Ok r ->
  exists r', flat c fuel (Node (HDict ks') cs') = Ok r' /\
             r_ls r' = r_ls r /\ map core (r_ns r') = map core (r_ns r).
Proof.
  intros Hins Hp1 Hp2 Hl1 Hl2 Hperm Hnd Hs1 Hr.
  destruct fuel as [|fuel]; [discriminate|]. simpl in Hr |- *. rewrite Hp1 in Hr. rewrite Hp2.
  rewrite Hins in *.
  assert (Hpk : Permutation ks ks').
  { rewrite <- (map_fst_combine ks cs Hl1), <- (map_fst_combine ks' cs' Hl2). apply Permutation_map. exact Hperm. }
  rewrite <- (sort_stage1_perm_invariant ks ks' Hs1 Hnd Hpk).
  assert (Hch : mapM (child_by_key ks' cs') (total_order_sort ks) = mapM (child_by_key ks cs) (total_order_sort ks)).
  { apply mapM_ext_in. intros k _. unfold child_by_key.
    rewrite (lookup_perm _ _ k Hperm) by (rewrite map_fst_combine by exact Hl1; exact Hnd). reflexivity. }
  rewrite Hch.
  destruct (mapM (child_by_key ks cs) (total_order_sort ks)) as [ch|]; simpl in Hr |- *; [|discriminate].
  destruct (flat_seq (flat c fuel) ch) as [[[ls ns] b]|]; simpl in Hr |- *; [|discriminate].
  injection Hr as <-. eexists. split; [reflexivity|]. unfold r_ls, r_ns. simpl. split; [reflexivity|].
  rewrite !map_app. simpl. unfold core. simpl.
  rewrite (Permutation_length Hpk). reflexivity.
Qed.

(* the same for every dict whose keys can be sorted at all: by "<" (stage 1) or by (type name, key)
   (stage 2) *)
Theorem dict_insertion_order_irrelevant_any c fuel ks cs ks' cs' r :
  ins_ordered c = false ->
  apply_pred c (Node (HDict ks) cs) = false -> apply_pred c (Node (HDict ks') cs') = false ->
  length ks = length cs -> length ks' = length cs' ->
  Permutation (combine ks cs) (combine ks' cs') ->
  NoDup ks -> (stage1_ok ks = true \/ stage2_ok ks = true) ->
  flat c fuel (Node (HDict ks) cs) = Ok r ->
  exists r', flat c fuel (Node (HDict ks') cs') = Ok r' /\
             r_ls r' = r_ls r /\ map core (r_ns r') = map core (r_ns r).
Proof.
  intros Hins Hp1 Hp2 Hl1 Hl2 Hperm Hnd Hs1 Hr.
  destruct fuel as [|fuel]; [discriminate|]. simpl in Hr |- *. rewrite Hp1 in Hr. rewrite Hp2.
  rewrite Hins in *.
  assert (Hpk : Permutation ks ks').
  { rewrite <- (map_fst_combine ks cs Hl1), <- (map_fst_combine ks' cs' Hl2). apply Permutation_map. exact Hperm. }
  rewrite <- (sort_perm_invariant ks ks' Hs1 Hnd Hpk).
  assert (Hch : mapM (child_by_key ks' cs') (total_order_sort ks) = mapM (child_by_key ks cs) (total_order_sort ks)).
  { apply mapM_ext_in. intros k _. unfold child_by_key.
    rewrite (lookup_perm _ _ k Hperm) by (rewrite map_fst_combine by exact Hl1; exact Hnd). reflexivity. }
  rewrite Hch.
  destruct (mapM (child_by_key ks cs) (total_order_sort ks)) as [ch|]; simpl in Hr |- *; [|discriminate].
  destruct (flat_seq (flat c fuel) ch) as [[[ls ns] b]|]; simpl in Hr |- *; [|discriminate].
  injection Hr as <-. eexists. split; [reflexivity|]. unfold r_ls, r_ns. simpl. split; [reflexivity|].
  rewrite !map_app. simpl. unfold core. simpl.
  rewrite (Permutation_length Hpk). reflexivity.
Qed.

(* an is_leaf predicate that returns true makes the object a leaf before any registry lookup *)
Theorem pred_before_registry c fuel o :
  apply_pred c o = true -> flat c (S fuel) o = Ok ([o], [leaf_node], false).
Proof. intros H. simpl. rewrite H. reflexivity. Qed.

(* an instance of a class that is registered neither in the namespace nor globally is a leaf *)
Theorem unregistered_is_leaf c fuel cls meta eb cs :
  apply_pred c (Node (HCustom cls meta eb) cs) = false -> lookup_reg c cls = None ->
  flat c (S fuel) (Node (HCustom cls meta eb) cs) = Ok ([Node (HCustom cls meta eb) cs], [leaf_node], false).
Proof. intros Hp H. simpl. rewrite Hp, H. reflexivity. Qed.

(* a registration in the requested namespace shadows the global one; without one the global applies *)
Theorem lookup_shadowing c cls :
  lookup_reg c cls =
  match (if Z.eqb (c_ns c) 0 then None else find_reg cls (c_ns c) (c_reg c)) with
  | Some r => Some r
  | None => find_reg cls 0 (c_reg c)
  end.
Proof. unfold lookup_reg. destruct (Z.eqb (c_ns c) 0); reflexivity. Qed.

(* None is a childless node unless none_is_leaf *)
Theorem none_node_or_leaf c fuel :
  apply_pred c ONone = false ->
  flat c (S fuel) ONone =
  if c_nil c then Ok ([ONone], [leaf_node], false)
  else Ok ([], [{| nkind := KdNone; narity := 0; ndat := DNone; nentries := None; ncustom := None;
                  nleaves := 0; nnodes := 1; norig := None |}], false).
Proof. intros H. simpl. unfold ONone in *. rewrite H. simpl. destruct (c_nil c); reflexivity. Qed.

(* OrderedDict is visited in insertion order whatever the mode *)
Theorem ordereddict_insertion_order c ks : visit_keys c KdODict ks = ks.
Proof. reflexivity. Qed.

(* dict / defaultdict: sorted unless the insertion-ordered mode applies *)
Theorem dict_visit_order c k ks :
  k = KdDict \/ k = KdDDict ->
  visit_keys c k ks = if ins_ordered c then ks else total_order_sort ks.
Proof. intros [-> | ->]; reflexivity. Qed.
