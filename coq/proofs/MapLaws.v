(* MapLaws.v — tree_map of one tree: the identity law and the composition law (property C05). *)
From OptreeModel Require Import Base Tree Flatten Unflatten Spec Ops.
From OptreeProofs Require Import BaseProofs RoundTrip SpecProofs FlattenGood Replace OpsProofs.

(* a pure, total leaf function as the mapped callable *)
Definition lift (f : obj -> obj) : nat -> list obj -> res obj :=
  fun _ row => match row with x :: _ => Ok (f x) | [] => Err InternalError end.

Lemma zip_cols_go_single {A} : forall (l : list A) n, (length l <= n)%nat -> zip_cols_go n [l] = map (fun x => [x]) l.
Proof.
  induction l as [|x l IH]; intros n Hn.
  - destruct n; reflexivity.
  - destruct n as [|n]; [simpl in Hn; lia|]. simpl. f_equal. apply IH. simpl in Hn. lia.
Qed.

Lemma mapM_trace_lift f : forall l i, fst (mapM_trace (lift f) i (map (fun x => [x]) l)) = Ok (map f l).
Proof.
  induction l as [|x l IH]; intros i; [reflexivity|]. simpl.
  specialize (IH (S i)). destruct (mapM_trace (lift f) (S i) (map (fun x0 => [x0]) l)) as [r tr]. simpl in *.
  rewrite IH. reflexivity.
Qed.

Theorem map_single c f t ls sp :
  flatten c t = Ok (ls, sp) -> tree_map c (lift f) t [] = unflatten sp (map f ls).
Proof.
  intros F. destruct (flatten_decodes c t ls sp F) as (s & Hs & _).
  unfold tree_map, tree_map_trace, sspec_res. rewrite F, Hs. cbn [mapM].
  unfold zip_cols. rewrite (zip_cols_go_single ls (length ls) (le_n _)).
  pose proof (mapM_trace_lift f ls 0) as H. destruct (mapM_trace (lift f) 0 (map (fun x => [x]) ls)) as [r tr].
  simpl in *. rewrite H. reflexivity.
Qed.

(* mapping the identity rebuilds the same tree *)
Theorem map_identity c t ls sp :
  wf_obj t = true -> flatten c t = Ok (ls, sp) -> tree_map c (lift (fun x => x)) t [] = Ok t.
Proof.
  intros W F. rewrite (map_single c _ t ls sp F), map_id. exact (unflatten_flatten c t ls sp W F).
Qed.

(* map (f o g) = map f o map g, for leaf-valued g (no predicate) *)
Theorem map_compose c f g t t' :
  c_pred c = None -> wf_obj t = true -> (forall x, leaflike c (g x) = true) ->
  tree_map c (lift g) t [] = Ok t' ->
  tree_map c (lift f) t' [] = tree_map c (lift (fun x => f (g x))) t [].
Proof.
  intros Hp W Hg Hm.
  destruct (flatten c t) as [[ls sp]|e] eqn:F.
  2:{ unfold tree_map, tree_map_trace in Hm. rewrite F in Hm. discriminate Hm. }
  rewrite (map_single c g t ls sp F) in Hm.
  destruct (flatten_unflatten_replace c t ls sp (map g ls) Hp W F) as (o' & Hu & Hf').
  { apply map_length. }
  { apply forallb_forall. intros y Hy. apply in_map_iff in Hy as (x & <- & _). apply Hg. }
  rewrite Hu in Hm. injection Hm as <-.
  rewrite (map_single c f o' (map g ls) sp Hf'), (map_single c _ t ls sp F), map_map. reflexivity.
Qed.
