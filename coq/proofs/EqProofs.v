(* EqProofs.v — treespec equality is an equivalence (on compatible namespaces), and equal treespecs
   feed the same sequence of values to the hash (property C06). *)
From OptreeModel Require Import Base Tree Flatten Unflatten Spec.
From OptreeProofs Require Import BaseProofs RoundTrip SpecProofs InspectProofs.

(* ---------- reflection of the boolean equalities ---------- *)
Lemma kind_eqb_eq a b : kind_eqb a b = true <-> a = b.
Proof.
  unfold kind_eqb. rewrite Z.eqb_eq. split; [|intros ->; reflexivity].
  destruct a, b; simpl; intros H; try reflexivity; discriminate.
Qed.

Lemma opt_Z_eqb_eq a b : opt_Z_eqb a b = true <-> a = b.
Proof.
  destruct a, b; simpl; split; intros H; try congruence; try reflexivity.
  - apply Z.eqb_eq in H. congruence.
  - injection H as ->. apply Z.eqb_refl.
Qed.

Lemma ebeh_eqb_eq a b : ebeh_eqb a b = true <-> a = b.
Proof.
  destruct a, b; simpl; split; intros H; try congruence; try reflexivity;
    try (apply keys_eqb_eq in H; congruence);
    try (injection H as ->; apply keys_eqb_eq; reflexivity);
    try (apply Z.eqb_eq in H; congruence);
    try (injection H as ->; apply Z.eqb_refl).
Qed.

Lemma ndata_eqb_eq a b : ndata_eqb a b = true <-> a = b.
Proof.
  destruct a, b; simpl; split; intros H; try congruence; try reflexivity.
  - apply keys_eqb_eq in H. congruence.
  - injection H as ->. apply keys_eqb_eq. reflexivity.
  - apply andb_true_iff in H as [H1 H2]. apply Z.eqb_eq in H1. apply keys_eqb_eq in H2. congruence.
  - injection H as -> ->. rewrite Z.eqb_refl. apply keys_eqb_eq. reflexivity.
  - apply Z.eqb_eq in H. congruence.
  - injection H as ->. apply Z.eqb_refl.
  - apply opt_Z_eqb_eq in H. congruence.
  - injection H as ->. apply opt_Z_eqb_eq. reflexivity.
  - apply andb_true_iff in H as [H1 H2]. apply Z.eqb_eq in H1. apply ebeh_eqb_eq in H2. congruence.
  - injection H as -> ->. rewrite Z.eqb_refl. apply ebeh_eqb_eq. reflexivity.
Qed.

Lemma reg_eqb_eq a b : reg_eqb a b = true <-> a = b.
Proof.
  unfold reg_eqb. destruct a, b; simpl. rewrite !andb_true_iff, !Z.eqb_eq. split.
  - intros [[[-> ->] ->] ->]. reflexivity.
  - intros [= -> -> -> ->]. auto.
Qed.

Lemma opt_reg_eqb_eq a b : opt_reg_eqb a b = true <-> a = b.
Proof.
  destruct a, b; simpl; split; intros H; try congruence; try reflexivity.
  - apply reg_eqb_eq in H. congruence.
  - injection H as ->. apply reg_eqb_eq. reflexivity.
Qed.

Lemma cons_eq_inv {A} (x y : A) l l' : x :: l = y :: l' -> x = y /\ l = l'.
Proof. intros H. injection H as -> ->. auto. Qed.

(* what == compares of a node *)
Definition core (n : node) := (nkind n, narity n, ncustom n, ndat n).

Lemma node_eqb_core a b : node_eqb a b = true <-> core a = core b.
Proof.
  unfold node_eqb, core. rewrite !andb_true_iff, kind_eqb_eq, Nat.eqb_eq, opt_reg_eqb_eq, ndata_eqb_eq.
  split; [intros [[[-> ->] ->] ->]; reflexivity | intros [= -> -> -> ->]; auto].
Qed.

Lemma nodes_eqb_core a b : nodes_eqb a b = true <-> map core a = map core b.
Proof.
  revert b; induction a as [|x a IH]; intros [|y b]; simpl; split; intros H; try congruence; try reflexivity.
  - apply andb_true_iff in H as [H1 H2]. apply node_eqb_core in H1. apply IH in H2. congruence.
  - apply cons_eq_inv in H as [H1 H2]. apply andb_true_iff. split; [apply node_eqb_core; exact H1 | apply IH; exact H2].
Qed.

Lemma ns_compatible_sym a b : ns_compatible a b = ns_compatible b a.
Proof.
  unfold ns_compatible. rewrite (Z.eqb_sym a b).
  destruct (Z.eqb a 0), (Z.eqb b 0); reflexivity.
Qed.

Theorem spec_eqb_refl s : spec_eqb s s = true.
Proof.
  unfold spec_eqb. rewrite Nat.eqb_refl, Bool.eqb_reflx. simpl.
  assert (ns_compatible (sns s) (sns s) = true) as ->.
  { unfold ns_compatible. rewrite Z.eqb_refl. destruct (Z.eqb (sns s) 0); reflexivity. }
  simpl. apply nodes_eqb_core. reflexivity.
Qed.

Theorem spec_eqb_sym a b : spec_eqb a b = spec_eqb b a.
Proof.
  unfold spec_eqb. rewrite (Nat.eqb_sym (length (trav a))), (ns_compatible_sym (sns a)).
  assert (Bool.eqb (snil a) (snil b) = Bool.eqb (snil b) (snil a)) as -> by (destruct (snil a), (snil b); reflexivity).
  f_equal. destruct (nodes_eqb (trav a) (trav b)) eqn:E1, (nodes_eqb (trav b) (trav a)) eqn:E2; try reflexivity.
  - apply nodes_eqb_core in E1. symmetry in E1. apply nodes_eqb_core in E1. congruence.
  - apply nodes_eqb_core in E2. symmetry in E2. apply nodes_eqb_core in E2. congruence.
Qed.

(* transitive among treespecs whose namespaces are pairwise compatible *)
Theorem spec_eqb_trans a b c :
  spec_eqb a b = true -> spec_eqb b c = true -> ns_compatible (sns a) (sns c) = true ->
  spec_eqb a c = true.
Proof.
  unfold spec_eqb. intros H1 H2 Hns.
  repeat (apply andb_true_iff in H1 as [H1 ?]). repeat (apply andb_true_iff in H2 as [H2 ?]).
  apply Nat.eqb_eq in H1, H2.
  repeat match goal with H : Bool.eqb _ _ = true |- _ => apply Bool.eqb_prop in H end.
  repeat match goal with H : nodes_eqb _ _ = true |- _ => apply nodes_eqb_core in H end.
  rewrite Hns. repeat (apply andb_true_iff; split); try reflexivity.
  - apply Nat.eqb_eq. congruence.
  - apply Bool.eqb_true_iff. congruence.
  - apply nodes_eqb_core. congruence.
Qed.

(* transitivity fails across namespaces 'a', '', 'b' (the property excludes this) *)
Theorem spec_eqb_trans_refuted_across_ns :
  exists a b c, spec_eqb a b = true /\ spec_eqb b c = true /\ spec_eqb a c = false.
Proof.
  exists {| trav := [leaf_node]; snil := false; sns := 1 |},
         {| trav := [leaf_node]; snil := false; sns := 0 |},
         {| trav := [leaf_node]; snil := false; sns := 2 |}.
  vm_compute. auto.
Qed.

(* ---------- decode is sound: a decodable array is the encoding of what it decodes to ---------- *)
Lemma decode_go_sound ns : forall st t,
  decode_go ns st = Some t -> flat_map encode (rev st) ++ ns = encode t.
Proof.
  induction ns as [|n ns IH]; intros st t H; simpl in H.
  - destruct st as [|x [|y st]]; try discriminate. injection H as <-. simpl. rewrite !app_nil_r. reflexivity.
  - destruct (Nat.ltb (length st) (narity n)); [discriminate|].
    apply IH in H. rewrite <- H. simpl. rewrite flat_map_app. simpl. rewrite app_nil_r.
    rewrite <- !app_assoc. simpl.
    rewrite <- (firstn_skipn (narity n) st) at 1. rewrite rev_app_distr, flat_map_app, <- app_assoc.
    reflexivity.
Qed.

Theorem decode_sound ns t : decode ns = Some t -> encode t = ns.
Proof. intros H. apply decode_go_sound in H. simpl in H. symmetry. exact H. Qed.

(* ---------- lockstep decoding of two arrays with equal cores ---------- *)
Inductive TR : stree -> stree -> Prop :=
| TRn n n' cs cs' : core n = core n' -> Forall2 TR cs cs' -> TR (T n cs) (T n' cs').

Lemma Forall2_firstn {A B} (R : A -> B -> Prop) n : forall l l',
  Forall2 R l l' -> Forall2 R (firstn n l) (firstn n l').
Proof.
  induction n as [|n IH]; intros l l' H; [constructor|].
  destruct H; simpl; constructor; auto.
Qed.
Lemma Forall2_skipn {A B} (R : A -> B -> Prop) n : forall l l',
  Forall2 R l l' -> Forall2 R (skipn n l) (skipn n l').
Proof.
  induction n as [|n IH]; intros l l' H; [exact H|].
  destruct H; simpl; [constructor | auto].
Qed.
Lemma Forall2_rev {A B} (R : A -> B -> Prop) l l' :
  Forall2 R l l' -> Forall2 R (rev l) (rev l').
Proof.
  induction 1; simpl; [constructor|]. apply Forall2_app; [assumption | constructor; [assumption | constructor]].
Qed.

Lemma Forall2_len {A B} (R : A -> B -> Prop) l l' : Forall2 R l l' -> length l = length l'.
Proof. induction 1; simpl; congruence. Qed.

Lemma decode_lockstep a : forall b st st' s,
  map core a = map core b -> Forall2 TR st st' ->
  decode_go a st = Some s -> exists t, decode_go b st' = Some t /\ TR s t.
Proof.
  induction a as [|x a IH]; intros [|y b] st st' s Hc Hst H; simpl in Hc; try discriminate.
  - simpl in *. destruct Hst as [|p q l l' Hpq Hl]; [discriminate|].
    destruct Hl; [|destruct l; discriminate]. injection H as <-. exists q. split; [reflexivity | exact Hpq].
  - apply cons_eq_inv in Hc as [Hxy Hc]. simpl in *.
    assert (Har : narity x = narity y) by (unfold core in Hxy; congruence).
    rewrite <- (Forall2_len _ _ _ Hst), <- Har.
    destruct (Nat.ltb (length st) (narity x)); [discriminate|].
    eapply IH; [exact Hc | | exact H].
    constructor.
    + constructor; [exact Hxy|]. apply Forall2_rev. apply Forall2_firstn. exact Hst.
    + apply Forall2_skipn. exact Hst.
Qed.

Definition cnt (n : node) := (nleaves n, nnodes n).

Lemma TR_counts s : forall t, TR s t -> wf_stree s = true -> wf_stree t = true ->
  map cnt (encode s) = map cnt (encode t).
Proof.
  induction s as [n cs IH] using stree_ind'. intros t Htr Hs Ht.
  inversion Htr as [? n' ? cs' Hcore Hkids]; subst.
  destruct (wf_unfold n cs Hs) as (Ha & Hn & Hlv & Hcs).
  destruct (wf_unfold n' cs' Ht) as (Ha' & Hn' & Hlv' & Hcs').
  assert (Hk : forall (l : list stree) l', Forall2 TR l l' -> Forall (fun a => forall t, TR a t -> wf_stree a = true -> wf_stree t = true -> map cnt (encode a) = map cnt (encode t)) l ->
             forallb wf_stree l = true -> forallb wf_stree l' = true ->
             map cnt (flat_map encode l) = map cnt (flat_map encode l') /\
             map st_leaves l = map st_leaves l' /\ map st_nodes l = map st_nodes l').
  { clear. intros l l' H. induction H as [|a b l l' Hab Hl IHl]; intros HF Hw Hw'; [repeat split|].
    simpl in Hw, Hw'. apply andb_true_iff in Hw as [Hwa Hw]. apply andb_true_iff in Hw' as [Hwb Hw'].
    inversion HF as [|? ? Ha HF']; subst.
    destruct (IHl HF' Hw Hw') as (H1 & H2 & H3).
    pose proof (Ha b Hab Hwa Hwb) as Hc.
    simpl. rewrite !map_app, Hc, H1. split; [reflexivity|].
    assert (Hlast : st_leaves a = st_leaves b /\ st_nodes a = st_nodes b).
    { destruct a as [na ca], b as [nb cb]. simpl in Hc. rewrite !map_app in Hc. simpl in Hc.
      apply (f_equal (@rev _)) in Hc. rewrite !rev_app_distr in Hc. simpl in Hc.
      apply cons_eq_inv in Hc as [Hc _]. unfold cnt in Hc. injection Hc as Hc1 Hc2. unfold st_leaves, st_nodes. simpl. auto. }
    destruct Hlast as [-> ->]. rewrite H2, H3. split; reflexivity. }
  destruct (Hk cs cs' Hkids IH Hcs Hcs') as (H1 & H2 & H3).
  simpl. rewrite !map_app, H1. simpl. f_equal. f_equal. unfold cnt.
  assert (Hkind : nkind n = nkind n') by (unfold core in Hcore; congruence).
  unfold is_leaf_node in Hlv, Hlv'. rewrite <- Hkind in Hlv'.
  rewrite Hn, Hn', H3. f_equal.
  destruct (kind_eqb (nkind n) KdLeaf).
  - destruct Hlv as [-> _], Hlv' as [-> _]. reflexivity.
  - rewrite Hlv, Hlv', H2. reflexivity.
Qed.

(* ---------- equal treespecs feed the same values to the hash ---------- *)
Lemma node_hash_seq_core n n' :
  core n = core n' -> cnt n = cnt n' -> node_hash_seq n = node_hash_seq n'.
Proof.
  unfold core, cnt, node_hash_seq. intros [= -> -> -> ->] [= -> ->]. reflexivity.
Qed.

Lemma hash_seq_nodes a : forall b,
  map core a = map core b -> map cnt a = map cnt b ->
  flat_map node_hash_seq a = flat_map node_hash_seq b.
Proof.
  induction a as [|x a IH]; intros [|y b] H1 H2; try discriminate; [reflexivity|].
  cbn [map] in H1, H2. cbn [flat_map].
  apply cons_eq_inv in H1 as [H1 H1']. apply cons_eq_inv in H2 as [H2 H2'].
  rewrite (node_hash_seq_core x y H1 H2), (IH b H1' H2'). reflexivity.
Qed.

Lemma last_cnt (a b : list node) :
  map cnt a = map cnt b ->
  (match rev a with n :: _ => nleaves n | [] => O end) =
  (match rev b with n :: _ => nleaves n | [] => O end) /\
  last_nnodes a = last_nnodes b.
Proof.
  intros H. apply (f_equal (@rev _)) in H. rewrite <- !map_rev in H. unfold last_nnodes.
  destruct (rev a) as [|x ra], (rev b) as [|y rb]; simpl in H; try discriminate; [auto|].
  apply cons_eq_inv in H as [H _]. unfold cnt in H. injection H as -> ->. auto.
Qed.

(* hash_ns = false is the repaired implementation (the namespace is not hashed) *)
Theorem eq_hash a b ta tb :
  decode (trav a) = Some ta -> decode (trav b) = Some tb ->
  wf_stree ta = true -> wf_stree tb = true ->
  spec_eqb a b = true -> spec_hash_seq false a = spec_hash_seq false b.
Proof.
  intros Da Db Wa Wb H. unfold spec_eqb in H.
  repeat (apply andb_true_iff in H as [H ?]).
  match goal with Hn : nodes_eqb _ _ = true |- _ => apply nodes_eqb_core in Hn; rename Hn into Hcore end.
  match goal with Hb : Bool.eqb _ _ = true |- _ => apply Bool.eqb_prop in Hb; rename Hb into Hnil end.
  pose proof (decode_sound _ _ Da) as Ea. pose proof (decode_sound _ _ Db) as Eb.
  destruct (decode_lockstep (trav a) (trav b) [] [] ta Hcore (Forall2_nil _) Da) as (t' & Dt & Htr).
  unfold decode in Db. rewrite Db in Dt. injection Dt as <-.
  pose proof (TR_counts ta tb Htr Wa Wb) as Hcnt. rewrite Ea, Eb in Hcnt.
  destruct (last_cnt _ _ Hcnt) as (Hl & Hn).
  unfold spec_hash_seq. rewrite Hl, Hn, Hnil. simpl.
  rewrite (hash_seq_nodes _ _ Hcore Hcnt). reflexivity.
Qed.

(* for treespecs produced by flatten the side conditions always hold *)
Theorem eq_hash_flatten c1 o1 l1 a c2 o2 l2 b :
  flatten c1 o1 = Ok (l1, a) -> flatten c2 o2 = Ok (l2, b) ->
  spec_eqb a b = true -> spec_hash_seq false a = spec_hash_seq false b.
Proof.
  intros F1 F2 H.
  destruct (flatten_decodes _ _ _ _ F1) as (s1 & D1 & W1 & _ & _).
  destruct (flatten_decodes _ _ _ _ F2) as (s2 & D2 & W2 & _ & _).
  unfold sspec_of in D1, D2.
  destruct (decode (trav a)) as [ta|] eqn:Ea; [|discriminate].
  destruct (decode (trav b)) as [tb|] eqn:Eb; [|discriminate].
  injection D1 as <-. injection D2 as <-. simpl in W1, W2.
  eapply eq_hash; eauto.
Qed.

(* the unchanged implementation hashed the namespace although == treats '' as a wildcard *)
Theorem eq_hash_refuted_when_namespace_hashed :
  exists a b, spec_eqb a b = true /\ spec_hash_seq true a <> spec_hash_seq true b.
Proof.
  exists {| trav := [leaf_node]; snil := false; sns := 0 |},
         {| trav := [leaf_node]; snil := false; sns := 1 |}.
  split; [reflexivity | vm_compute; discriminate].
Qed.
