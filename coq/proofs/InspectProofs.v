(* InspectProofs.v — consistency of treespec inspection, compose, transform (property C08). *)
From OptreeModel Require Import Base Tree Flatten Unflatten Spec.
From OptreeProofs Require Import BaseProofs RoundTrip SpecProofs.

Lemma wf_unfold n cs :
  wf_stree (T n cs) = true ->
  narity n = length cs /\ nnodes n = S (sum_nat (map st_nodes cs)) /\
  (if is_leaf_node n then nleaves n = 1%nat /\ cs = [] else nleaves n = sum_nat (map st_leaves cs)) /\
  forallb wf_stree cs = true.
Proof.
  simpl. intros H. repeat (apply andb_true_iff in H as [H ?]).
  apply Nat.eqb_eq in H. repeat split; auto.
  - apply Nat.eqb_eq. assumption.
  - destruct (is_leaf_node n).
    + match goal with Hx : _ && _ = true |- _ => apply andb_true_iff in Hx as [Ha Hb] end.
      apply Nat.eqb_eq in Ha, Hb. split; [exact Ha | destruct cs; [reflexivity | discriminate]].
    + apply Nat.eqb_eq. assumption.
Qed.

(* the children's counts sum to the parent's *)
Theorem children_counts t :
  wf_stree t = true -> is_leaf_node (st_node t) = false ->
  sum_nat (map st_leaves (st_children t)) = st_leaves t /\
  S (sum_nat (map st_nodes (st_children t))) = st_nodes t /\
  length (st_children t) = narity (st_node t).
Proof.
  destruct t as [n cs]. intros Hwf Hl. destruct (wf_unfold _ _ Hwf) as (Ha & Hn & Hlv & _).
  simpl in *. rewrite Hl in Hlv. unfold st_leaves, st_nodes. simpl. auto.
Qed.

(* recount is the identity on a well-formed node *)
Lemma recount_wf n cs : wf_stree (T n cs) = true -> recount n cs = n.
Proof.
  intros Hwf. destruct (wf_unfold _ _ Hwf) as (Ha & Hn & Hlv & _).
  unfold recount. destruct n as [k ar d e cu nl nn og]. simpl in *. subst ar nn.
  unfold is_leaf_node in Hlv. simpl in Hlv.
  destruct k; simpl in *; try (rewrite <- Hlv; reflexivity).
  destruct Hlv as [-> ->]. reflexivity.
Qed.

(* rebuilding the root from its one-level treespec and its children gives the treespec back *)
Theorem rebuild_from_children t :
  wf_stree t = true ->
  mkT (st_node (st_one_level t)) (st_children t) = t.
Proof.
  destruct t as [n cs]. intros Hwf. simpl. unfold mkT. f_equal.
  rewrite <- (recount_wf n cs Hwf) at 2.
  unfold recount. simpl. reflexivity.
Qed.

Lemma one_level_is_one_level t :
  is_leaf_node (st_node t) = false -> st_is_one_level (st_one_level t) = true.
Proof.
  destruct t as [n cs]. simpl. intros Hl. unfold st_is_one_level. simpl.
  unfold is_leaf_node in *. simpl. rewrite Hl. simpl.
  induction cs; simpl; auto.
Qed.

(* ---------- compose ---------- *)
Lemma sum_nat_map_mul {A} (f g : A -> nat) (k : nat) l :
  (forall x, In x l -> g x = (f x * k)%nat) -> sum_nat (map g l) = (sum_nat (map f l) * k)%nat.
Proof.
  induction l as [|x l IH]; intros H; simpl; [reflexivity|].
  unfold sum_nat in *. simpl. rewrite H by (left; reflexivity). rewrite IH by (intros; apply H; right; assumption).
  lia.
Qed.

Theorem compose_leaves a b :
  wf_stree a = true -> st_leaves (st_compose a b) = (st_leaves a * st_leaves b)%nat.
Proof.
  induction a as [n cs IH] using stree_ind'. intros Hwf.
  destruct (wf_unfold _ _ Hwf) as (Ha & Hn & Hlv & Hcs).
  simpl. destruct (is_leaf_node n) eqn:El.
  - destruct Hlv as [H1 _]. unfold st_leaves at 2. simpl. rewrite H1. lia.
  - unfold st_leaves at 1 2. simpl.
    assert (Hk : match nkind n with KdLeaf => 1%nat | _ => sum_nat (map st_leaves (map (fun c => st_compose c b) cs)) end
                 = sum_nat (map st_leaves (map (fun c => st_compose c b) cs))).
    { unfold is_leaf_node in El. destruct (nkind n); try reflexivity. discriminate. }
    rewrite Hk, Hlv, map_map.
    apply sum_nat_map_mul. intros x Hx. rewrite Forall_forall in IH. apply IH; [exact Hx|].
    eapply forallb_In; eauto.
Qed.

Theorem compose_wf a b :
  wf_stree a = true -> wf_stree b = true -> wf_stree (st_compose a b) = true.
Proof.
  induction a as [n cs IH] using stree_ind'. intros Hwf Hb.
  destruct (wf_unfold _ _ Hwf) as (Ha & Hn & Hlv & Hcs).
  simpl. destruct (is_leaf_node n) eqn:El; [exact Hb|].
  simpl. unfold is_leaf_node in *. simpl. rewrite El.
  rewrite map_length, !Nat.eqb_refl. simpl.
  assert (Hk : match nkind n with KdLeaf => 1%nat | _ => sum_nat (map st_leaves (map (fun c => st_compose c b) cs)) end
               = sum_nat (map st_leaves (map (fun c => st_compose c b) cs))).
  { destruct (nkind n); try reflexivity. discriminate. }
  rewrite Hk, Nat.eqb_refl. simpl.
  rewrite forallb_forall. intros x Hx. apply in_map_iff in Hx as (y & <- & Hy).
  rewrite Forall_forall in IH. apply IH; auto. eapply forallb_In; eauto.
Qed.

(* replacing every leaf through transform is compose (same tree; the namespaces agree whenever the
   two are compatible, which both operations require) *)
Theorem transform_leaves_is_compose a b s :
  st_leaves (stree_of a) <> O ->
  ss_transform_leaves a (Some b) = Ok s ->
  exists s', ss_compose a b = Ok s' /\ stree_of s' = stree_of s /\ ss_nil s' = ss_nil s /\
             (ss_ns s' = ss_ns s).
Proof.
  unfold ss_transform_leaves, ss_compose. intros Hl.
  destruct (Nat.eqb (st_leaves (stree_of a)) 0) eqn:E; [apply Nat.eqb_eq in E; contradiction|].
  destruct (negb (Bool.eqb (ss_nil a) (ss_nil b))); [discriminate|].
  destruct (negb (ns_compatible (ss_ns a) (ss_ns b))) eqn:Ec; [discriminate|].
  intros [= <-]. eexists. split; [reflexivity|]. simpl. repeat split.
  apply negb_false_iff in Ec. unfold ns_compatible in Ec. unfold ns_merge.
  destruct (Z.eqb (ss_ns a) 0) eqn:Ea, (Z.eqb (ss_ns b) 0) eqn:Eb; simpl in *; try reflexivity.
  - apply Z.eqb_eq in Ea, Eb. congruence.
  - apply Z.eqb_eq in Ec. congruence.
Qed.

Theorem transform_identity a : ss_transform_leaves a None = Ok a.
Proof. reflexivity. Qed.

(* ---------- indexing ---------- *)
Theorem norm_index_spec i n :
  (- Z.of_nat n <= i < Z.of_nat n -> norm_index i n = Ok (Z.to_nat (i mod Z.of_nat n))) /\
  (~ (- Z.of_nat n <= i < Z.of_nat n) -> norm_index i n = Err IndexError).
Proof.
  unfold norm_index. split; intros H.
  - destruct (i <? - Z.of_nat n) eqn:E1; [apply Z.ltb_lt in E1; lia|].
    destruct (Z.of_nat n <=? i) eqn:E2; [apply Z.leb_le in E2; lia|]. simpl.
    f_equal. f_equal. destruct (i <? 0) eqn:E3.
    + apply Z.ltb_lt in E3. apply Z.mod_unique with (q := -1); lia.
    + apply Z.ltb_ge in E3. symmetry. apply Z.mod_small. lia.
  - destruct (i <? - Z.of_nat n) eqn:E1; [reflexivity|].
    destruct (Z.of_nat n <=? i) eqn:E2; [reflexivity|].
    apply Z.ltb_ge in E1. apply Z.leb_gt in E2. lia.
Qed.

Theorem child_eq_nth t i c :
  wf_stree t = true -> st_child t i = Ok c ->
  - Z.of_nat (narity (st_node t)) <= i < Z.of_nat (narity (st_node t)) /\
  nth_error (st_children t) (Z.to_nat (i mod Z.of_nat (narity (st_node t)))) = Some c.
Proof.
  intros Hwf. unfold st_child.
  destruct (norm_index_spec i (narity (st_node t))) as [Hin Hout].
  destruct (Z_le_dec (- Z.of_nat (narity (st_node t))) i) as [H1|H1];
    [destruct (Z_lt_dec i (Z.of_nat (narity (st_node t)))) as [H2|H2]|].
  - rewrite Hin by lia. simpl.
    destruct (nth_error _ _) eqn:E; [intros [= <-]; split; [lia | reflexivity] | discriminate].
  - rewrite Hout by lia. discriminate.
  - rewrite Hout by lia. discriminate.
Qed.

Theorem child_out_of_range t i :
  ~ (- Z.of_nat (narity (st_node t)) <= i < Z.of_nat (narity (st_node t))) ->
  st_child t i = Err IndexError /\ st_entry t i = Err IndexError.
Proof.
  intros H. unfold st_child, st_entry.
  destruct (norm_index_spec i (narity (st_node t))) as [_ Hout]. rewrite Hout by exact H. split; reflexivity.
Qed.
