(* TransformArrProofs.v — the C++ Transform pass with its stack of pending counters
   (theories/TransformArr.v) returns the encoding of the tree-level composition (property C08). *)
From OptreeModel Require Import Base Tree Flatten Unflatten Spec Pickle PrefixArr JoinArr TransformArr.
From OptreeProofs Require Import BaseProofs RoundTrip SpecProofs InspectProofs EqProofs OrderProofs PrefixArrProofs JoinArrProofs ComposeArrProofs.

Definition cnt (t : stree) : nat * nat := (st_leaves t, st_nodes t).

Lemma sum_fst_app l l' : sum_fst (l ++ l') = (sum_fst l + sum_fst l')%nat.
Proof. unfold sum_fst. induction l; simpl; lia. Qed.
Lemma sum_snd_app l l' : sum_snd (l ++ l') = (sum_snd l + sum_snd l')%nat.
Proof. unfold sum_snd. induction l; simpl; lia. Qed.
Lemma sum_fst_rev_cnt l : sum_fst (rev (map cnt l)) = sum_nat (map st_leaves l).
Proof. induction l as [|x l IH]; [reflexivity|]. simpl. rewrite sum_fst_app, IH. unfold sum_fst. simpl. lia. Qed.
Lemma sum_snd_rev_cnt l : sum_snd (rev (map cnt l)) = sum_nat (map st_nodes l).
Proof. induction l as [|x l IH]; [reflexivity|]. simpl. rewrite sum_snd_app, IH. unfold sum_snd. simpl. lia. Qed.

Definition TSim (b : stree) (t : stree) : Prop := forall rest out stack,
  tr_go (encode b) (st_leaves b) (st_nodes b) (encode t ++ rest) out stack =
  tr_go (encode b) (st_leaves b) (st_nodes b) rest (out ++ encode (st_compose t b)) (cnt (st_compose t b) :: stack).

Lemma tsim_list b : forall cs, Forall (TSim b) cs -> forall rest out stack,
  tr_go (encode b) (st_leaves b) (st_nodes b) (flat_map encode cs ++ rest) out stack =
  tr_go (encode b) (st_leaves b) (st_nodes b) rest (out ++ flat_map encode (map (fun c => st_compose c b) cs))
        (rev (map cnt (map (fun c => st_compose c b) cs)) ++ stack).
Proof.
  induction cs as [|c cs IH]; intros HF rest out stack; [simpl; rewrite app_nil_r; reflexivity|].
  inversion HF as [|? ? Hc Hcs]; subst. cbn [flat_map map rev]. rewrite <- !app_assoc, Hc, (IH Hcs).
  rewrite <- !app_assoc. reflexivity.
Qed.

Theorem tsim b : wf_stree b = true -> forall t, wf_stree t = true -> TSim b t.
Proof.
  intros Wb. induction t as [n cs IH] using stree_ind'. intros W rest out stack.
  destruct (wf_unfold n cs W) as (Ar & Nn & Lv & Wcs).
  cbn [encode st_compose]. rewrite <- app_assoc.
  destruct (is_leaf_node n) eqn:Ln.
  - destruct Lv as [_ ->]. cbn [flat_map app tr_go]. rewrite Ln. reflexivity.
  - assert (HF : Forall (TSim b) cs).
    { apply Forall_forall. intros x Hx. rewrite Forall_forall in IH. apply (IH x Hx). exact (forallb_In _ _ _ Wcs Hx). }
    rewrite (tsim_list b cs HF). cbn [app tr_go]. rewrite Ln.
    set (cs' := map (fun c => st_compose c b) cs).
    assert (Hlen : length (rev (map cnt cs')) = narity n) by (unfold cs'; rewrite rev_length, !map_length; congruence).
    assert (Hlt : Nat.ltb (length (rev (map cnt cs') ++ stack)) (narity n) = false).
    { apply Nat.ltb_ge. rewrite app_length. lia. }
    rewrite Hlt. rewrite <- Hlen. rewrite firstn_app_exact, skipn_app_exact.
    rewrite sum_fst_rev_cnt, sum_snd_rev_cnt.
    unfold mkT. cbn [encode]. rewrite <- app_assoc.
    assert (Hp : patch n (S (sum_nat (map st_nodes cs'))) (sum_nat (map st_leaves cs')) = recount n cs').
    { rewrite <- (patch_recount n cs'); [reflexivity | unfold cs'; rewrite map_length; exact Ar | exact Ln]. }
    rewrite Hp. unfold cnt, st_leaves, st_nodes. cbn [st_node recount nleaves nnodes].
    unfold is_leaf_node in Ln. destruct (nkind n) eqn:Kn; try reflexivity. discriminate Ln.
Qed.

Theorem arr_transform_leaves_spec a b :
  wf_stree (stree_of a) = true -> wf_stree (stree_of b) = true ->
  arr_transform_leaves (spec_of a) (spec_of b) =
  match ss_transform_leaves a (Some b) with Ok j => Ok (spec_of j) | Err e => Err e end.
Proof.
  intros Wa Wb. unfold arr_transform_leaves, ss_transform_leaves, spec_of. cbn [trav snil sns].
  destruct (encode_last (stree_of a)) as (la & Ha). destruct (encode_last (stree_of b)) as (lb & Hb).
  rewrite Ha, Hb, !rev_app_distr. cbn [rev app]. rewrite <- Ha, <- Hb.
  change (nleaves (st_node (stree_of a))) with (st_leaves (stree_of a)).
  change (nleaves (st_node (stree_of b))) with (st_leaves (stree_of b)).
  destruct (Nat.eqb (st_leaves (stree_of a)) 0); [reflexivity|].
  destruct (negb (Bool.eqb (ss_nil a) (ss_nil b))); [reflexivity|].
  unfold ns_compatible. rewrite <- !negb_orb.
  destruct (negb (Z.eqb (ss_ns a) 0 || Z.eqb (ss_ns b) 0 || Z.eqb (ss_ns a) (ss_ns b))); [reflexivity|].
  rewrite (encode_length _ Wb), (encode_length _ Wa).
  pose proof (tsim (stree_of b) Wb (stree_of a) Wa [] [] []) as H. rewrite app_nil_r in H. rewrite H. cbn [tr_go bind app].
  destruct (encode_last (st_compose (stree_of a) (stree_of b))) as (lc & Hc).
  rewrite Hc, rev_app_distr. cbn [rev app]. rewrite <- Hc.
  change (nleaves (st_node (st_compose (stree_of a) (stree_of b)))) with (st_leaves (st_compose (stree_of a) (stree_of b))).
  change (nnodes (st_node (st_compose (stree_of a) (stree_of b)))) with (st_nodes (st_compose (stree_of a) (stree_of b))).
  rewrite (compose_leaves _ (stree_of b) Wa), (compose_nodes _ (stree_of b) Wa), !Nat.eqb_refl. cbn [negb].
  rewrite (encode_length _ (compose_wf _ _ Wa Wb)), (compose_nodes _ (stree_of b) Wa), Nat.eqb_refl. cbn [negb].
  reflexivity.
Qed.
