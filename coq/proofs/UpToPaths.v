(* UpToPaths.v — the i-th subtree flatten_up_to returns is the subtree found at the i-th path of the
   treespec (properties C07 and C04: FlattenUpTo, PathsImpl and the accessor semantics agree). *)
From OptreeModel Require Import Base Tree Flatten Unflatten Spec Construct Accessor.
From OptreeProofs Require Import BaseProofs RoundTrip SpecProofs TraversalProofs EqProofs OrderProofs PrefixOrder JoinOrder
  AccessorProofs ConstructProofs UpToPrefix.

Definition Sub (o : obj) (p : path) (x : obj) : Prop := get_path o p = Some x.

(* the entries a treespec node declares are those of its node data (what flatten stores) *)
Fixpoint entries_wf (t : stree) : bool :=
  match t with
  | T n cs =>
    (match nkind n, ndat n with
     | KdCustom, DMeta _ (EGiven es) =>
       match nentries n with Some es' => keys_eqb es' es | None => false end && Nat.eqb (length es) (narity n)
     | _, _ => match nentries n with None => true | Some _ => false end
     end) && forallb entries_wf cs
  end.

Definition R (c : cfg) (t : stree) : Prop :=
  good t = true -> entries_wf t = true ->
  forall o subs, entries_ok o = true -> up_to c t o = Ok subs -> Forall2 (Sub o) (st_paths t) subs.

Lemma sub_cons o e x ps subs : obj_child o e = Some x -> Forall2 (Sub x) ps subs -> Forall2 (Sub o) (map (cons e) ps) subs.
Proof.
  intros Hc H. induction H as [|p s ps subs Hp _ IH]; simpl; constructor; [|exact IH].
  unfold Sub in *. simpl. rewrite Hc. exact Hp.
Qed.

Lemma paths_seq c o : forall ts, Forall (R c) ts -> forallb good ts = true -> forallb entries_wf ts = true ->
  forall es cu lss, length es = length ts ->
  (forall e x, In (e, x) (combine es cu) -> obj_child o e = Some x /\ entries_ok x = true) ->
  mapM_rev2 (up_to c) ts cu = Ok lss ->
  Forall2 (Sub o) (paths_go es ts) (concat lss).
Proof.
  induction ts as [|t ts IH]; intros HR Hg Hw es cu lss Hl Hc Hm.
  - destruct cu; simpl in Hm; [|discriminate]. injection Hm as <-. simpl. constructor.
  - destruct cu as [|x cu]; simpl in Hm; [discriminate|].
    destruct es as [|e es]; [discriminate Hl|]. simpl in Hl. injection Hl as Hl.
    destruct (mapM_rev2 (up_to c) ts cu) as [rest|] eqn:Er; simpl in Hm; [|discriminate].
    destruct (up_to c t x) as [sub|] eqn:Eu; simpl in Hm; [|discriminate]. injection Hm as <-.
    simpl in Hg, Hw. apply andb_true_iff in Hg as [Hg1 Hg2]. apply andb_true_iff in Hw as [Hw1 Hw2].
    inversion HR as [|? ? R1 R2]; subst.
    destruct (Hc e x (or_introl eq_refl)) as [Hch Hex].
    cbn [paths_go concat]. apply Forall2_app.
    + apply (sub_cons o e x); [exact Hch|]. apply (R1 Hg1 Hw1 x sub Hex Eu).
    + apply (IH R2 Hg2 Hw2 es cu rest Hl); [|exact Er].
      intros e' x' Hin. apply Hc. right. exact Hin.
Qed.

Ltac dict_paths :=
  match goal with
  | Dn : is_dict_kind _ = true -> _, Hu : match node_keys ?n with Some _ => _ | None => _ end = Ok _,
    IH : Forall (fun t => R ?c t) ?ts, Hecs : forallb entries_ok ?cs = true |- Forall2 (Sub ?o) _ _ =>
    let nks := fresh "nks" in let Hnk := fresh "Hnk" in let Hlen := fresh "Hlen" in let Hnd := fresh "Hnd" in
    let Hss := fresh "Hss" in let cu := fresh "cu" in let Ecu := fresh "Ecu" in let lss := fresh "lss" in
    let Em := fresh "Em" in
    destruct (Dn eq_refl) as (nks & Hnk & Hlen & Hnd); rewrite Hnk in Hu |- *;
    match type of Hu with (if keys_same_set nks ?ks then _ else _) = _ =>
      destruct (keys_same_set nks ks) eqn:Hss; [|discriminate Hu];
      destruct (mapM (child_by_key ks cs) nks) as [cu|] eqn:Ecu; cbn [bind] in Hu; [|discriminate Hu];
      destruct (mapM_rev2 (up_to c) ts cu) as [lss|] eqn:Em; cbn [bind] in Hu; [|discriminate Hu];
      injection Hu as <-;
      apply (paths_seq c o ts IH ltac:(assumption) ltac:(assumption) nks cu lss Hlen); [|exact Em];
      let e := fresh "e" in let x := fresh "x" in let Hin := fresh "Hin" in
      intros e x Hin; split;
      [ simpl; exact (dict_children ks cs nks cu Ecu e x Hin)
      | apply in_combine_r in Hin; apply (forallb_In _ _ _ Hecs);
        apply (proj2 (proj2 (mapM_child_by_key _ _ _ _ Ecu))); exact Hin ]
    end
  end.

Theorem up_to_paths c : forall t, R c t.
Proof.
  induction t as [n ts IH] using stree_ind'. intros Hg Hw o subs He Hu.
  rewrite st_paths_unfold.
  destruct (is_leaf_node n) eqn:Ln.
  { unfold is_leaf_node in Ln. apply kind_eqb_eq in Ln. cbn [up_to] in Hu. rewrite Ln in Hu. injection Hu as <-.
    constructor; [reflexivity | constructor]. }
  destruct (good_node n ts Hg) as (Ar & Dn & Cn & Nn & _ & _).
  pose proof (good_children n ts Hg) as Gts.
  simpl in Hw. apply andb_true_iff in Hw as [Wn Wts].
  destruct o as [id|h cs].
  { exfalso. apply (up_to_leaf_obj c n ts id Ln). eexists; exact Hu. }
  simpl in He. apply andb_true_iff in He as [Heh Hecs].
  cbn [up_to] in Hu.
  assert (Hpos : node_entries n = pos_keys (narity n) 0 -> obj_child (Node h cs) = nth_by_key cs ->
            (length cs =? narity n)%nat = true ->
            forall lss, mapM_rev2 (up_to c) ts cs = Ok lss ->
            Forall2 (Sub (Node h cs)) (paths_go (node_entries n) ts) (concat lss)).
  { intros Hes Hoc Hlen lss Hm. apply Nat.eqb_eq in Hlen.
    apply (paths_seq c (Node h cs) ts IH Gts Wts (node_entries n) cs lss); [rewrite Hes, pos_keys_length; exact Ar | | exact Hm].
    intros e x Hin. rewrite Hes, <- Hlen in Hin. split.
    - rewrite Hoc. apply seq_children. exact Hin.
    - apply in_combine_r in Hin. eapply forallb_In; eauto. }
  assert (Hnone : nkind n <> KdCustom -> nentries n = None).
  { intros Hk. destruct (nkind n); try congruence; destruct (nentries n); try discriminate Wn; try reflexivity;
      destruct (ndat n); discriminate Wn. }
  unfold node_entries in *.
  destruct (nkind n) eqn:En; try (exfalso; unfold is_leaf_node in Ln; rewrite En in Ln; discriminate Ln);
    try (rewrite (Hnone ltac:(discriminate)) in * ); destruct h; simpl in Hu; try discriminate Hu.
  all: repeat match type of Hu with (if ?bb then _ else _) = _ => destruct bb eqn:?; try discriminate Hu end.
  all: repeat match goal with H : negb _ = false |- _ => apply negb_false_iff in H end.
  all: try solve [ destruct (mapM_rev2 (up_to c) ts cs) as [lss|] eqn:Em; simpl in Hu; [|discriminate Hu]; injection Hu as <-;
                   apply Hpos; auto ].
  all: try solve [dict_paths].
  - (* custom *)
    destruct eb as [| |es|x|x]; try discriminate Hu.
    all: repeat match type of Hu with (if ?bb then _ else _) = _ => destruct bb eqn:?; try discriminate Hu end.
    all: repeat match goal with H : negb _ = false |- _ => apply negb_false_iff in H end.
    all: match goal with H : ndata_eqb _ _ = true |- _ => apply ndata_eqb_eq in H; rewrite H in Wn end.
    all: destruct (mapM_rev2 (up_to c) ts cs) as [lss|] eqn:Em; simpl in Hu; [|discriminate Hu]; injection Hu as <-.
    1,2: destruct (nentries n); [discriminate Wn|]; apply Hpos; auto.
    apply andb_true_iff in Wn as [W1 W2]. destruct (nentries n) as [es'|]; [|discriminate W1].
    apply keys_eqb_eq in W1. subst es'. apply Nat.eqb_eq in W2.
    match goal with H : (length cs =? narity n)%nat = true |- _ => apply Nat.eqb_eq in H; rename H into Hlen end.
    apply (paths_seq c _ ts IH Gts Wts es cs lss); [congruence | | exact Em].
    intros e x Hin. split.
    + destruct (key_index_combine es cs e x (proj1 (keys_nodup_NoDup es) Heh) Hin) as (i & Hi & Hx).
      simpl. rewrite Hi. exact Hx.
    + apply in_combine_r in Hin. eapply forallb_In; eauto.
  - (* None *) injection Hu as <-. rewrite (Nn eq_refl). constructor.
Qed.

(* every treespec flatten produces declares its entries this way *)
Theorem tflat_entries_wf c : forall fuel o ls t b, tflat c fuel o = Ok (ls, t, b) -> entries_wf t = true.
Proof.
  induction fuel as [|fuel IH]; intros o ls t b Hr; [discriminate|].
  cbn [tflat] in Hr.
  destruct (apply_pred c o); [injection Hr as <- <- <-; reflexivity|].
  destruct (get_kind c o) as [k cu] eqn:Ek.
  destruct o as [id|h cs]; [injection Hr as <- <- <-; reflexivity|].
  assert (Hseq : forall l ls0 ts b0, tflat_seq (tflat c fuel) l = Ok (ls0, ts, b0) ->
            forallb entries_wf ts = true /\ length ts = length l).
  { intros l ls0 ts b0 H. split; [|eapply tflat_seq_length; exact H].
    pose proof (tflat_seq_inv (fun t _ => entries_wf t = true) (tflat c fuel) l ls0 ts b0
                  (fun x lx tx bx _ Hf => IH x lx tx bx Hf) H) as Hall.
    apply forallb_forall. intros t0 Ht. rewrite Forall_forall in Hall. destruct (Hall t0 Ht) as (bx & Hs & _). exact Hs. }
  destruct k.
  - destruct h; try discriminate Hr.
    destruct eb; try discriminate Hr;
      (destruct (tflat_seq (tflat c fuel) cs) as [[[ls0 ts] b0]|] eqn:E; simpl in Hr; [|discriminate]);
      destruct (Hseq _ _ _ _ E) as [Hs Hl].
    + injection Hr as <- <- <-. simpl. exact Hs.
    + injection Hr as <- <- <-. simpl. exact Hs.
    + destruct (Nat.eqb (length es) (length cs)) eqn:El; [|discriminate]. injection Hr as <- <- <-.
      simpl. rewrite (proj2 (keys_eqb_eq es es) eq_refl), Hl, El. exact Hs.
  - injection Hr as <- <- <-. reflexivity.
  - injection Hr as <- <- <-. reflexivity.
  - destruct (tflat_seq (tflat c fuel) cs) as [[[ls0 ts] b0]|] eqn:E; simpl in Hr; [|discriminate].
    injection Hr as <- <- <-. destruct (Hseq _ _ _ _ E) as [Hs _]. simpl. exact Hs.
  - destruct (tflat_seq (tflat c fuel) cs) as [[[ls0 ts] b0]|] eqn:E; simpl in Hr; [|discriminate].
    injection Hr as <- <- <-. destruct (Hseq _ _ _ _ E) as [Hs _]. simpl. exact Hs.
  - destruct (hdr_keys h) as [ks|]; [|discriminate Hr]. cbn zeta in Hr.
    destruct (mapM _ _) as [ch|]; simpl in Hr; [|discriminate].
    destruct (tflat_seq (tflat c fuel) ch) as [[[ls0 ts] b0]|] eqn:E; simpl in Hr; [|discriminate].
    injection Hr as <- <- <-. destruct (Hseq _ _ _ _ E) as [Hs _]. destruct h; simpl; exact Hs.
  - destruct (tflat_seq (tflat c fuel) cs) as [[[ls0 ts] b0]|] eqn:E; simpl in Hr; [|discriminate].
    injection Hr as <- <- <-. destruct (Hseq _ _ _ _ E) as [Hs _]. simpl. exact Hs.
  - destruct (hdr_keys h) as [ks|]; [|discriminate Hr]. cbn zeta in Hr.
    destruct (mapM _ _) as [ch|]; simpl in Hr; [|discriminate].
    destruct (tflat_seq (tflat c fuel) ch) as [[[ls0 ts] b0]|] eqn:E; simpl in Hr; [|discriminate].
    injection Hr as <- <- <-. destruct (Hseq _ _ _ _ E) as [Hs _]. destruct h; simpl; exact Hs.
  - destruct (hdr_keys h) as [ks|]; [|discriminate Hr]. cbn zeta in Hr.
    destruct (mapM _ _) as [ch|]; simpl in Hr; [|discriminate].
    destruct (tflat_seq (tflat c fuel) ch) as [[[ls0 ts] b0]|] eqn:E; simpl in Hr; [|discriminate].
    injection Hr as <- <- <-. destruct (Hseq _ _ _ _ E) as [Hs _]. destruct h; simpl; exact Hs.
  - destruct (tflat_seq (tflat c fuel) cs) as [[[ls0 ts] b0]|] eqn:E; simpl in Hr; [|discriminate].
    injection Hr as <- <- <-. destruct (Hseq _ _ _ _ E) as [Hs _]. simpl. exact Hs.
  - destruct (tflat_seq (tflat c fuel) cs) as [[[ls0 ts] b0]|] eqn:E; simpl in Hr; [|discriminate].
    injection Hr as <- <- <-. destruct (Hseq _ _ _ _ E) as [Hs _]. simpl. exact Hs.
Qed.
