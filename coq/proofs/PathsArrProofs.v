(* PathsArrProofs.v — the C++ Paths walk over the node array (theories/PathsArr.v) returns the
   tree-level st_paths (property C04). *)
From OptreeModel Require Import Base Tree Flatten Unflatten Spec Construct Accessor PrefixArr PathsArr.
From OptreeProofs Require Import BaseProofs RoundTrip SpecProofs TraversalProofs InspectProofs EqProofs OrderProofs PrefixOrder JoinOrder
  ConstructProofs FlattenGood UpToPrefix UpToPaths PrefixArrProofs UpToArrProofs JoinArrProofs.

(* what the loop emits for children / entries listed last-first *)
Fixpoint emit_rev (stk : list key) (el : list key) (la : list stree) : list path :=
  match el, la with
  | e :: el', x :: la' => rev (map (app (stk ++ [e])) (st_paths x)) ++ emit_rev stk el' la'
  | _, _ => []
  end.

Lemma emit_rev_snoc stk : forall el la e x, length el = length la ->
  emit_rev stk (el ++ [e]) (la ++ [x]) = emit_rev stk el la ++ rev (map (app (stk ++ [e])) (st_paths x)).
Proof.
  induction el as [|e0 el IH]; intros [|x0 la] e x Hl; try discriminate Hl.
  - simpl. rewrite app_nil_r. reflexivity.
  - injection Hl as Hl. cbn [app emit_rev]. rewrite (IH la e x Hl), app_assoc. reflexivity.
Qed.

Lemma emit_rev_paths stk : forall es cs, length es = length cs ->
  emit_rev stk (rev es) (rev cs) = rev (map (app stk) (paths_go es cs)).
Proof.
  induction es as [|e es IH]; intros [|c cs] Hl; try discriminate Hl; [reflexivity|].
  injection Hl as Hl. cbn [rev paths_go]. rewrite emit_rev_snoc by (rewrite !rev_length; exact Hl).
  rewrite (IH cs Hl), map_app, rev_app_distr, map_map. f_equal. f_equal. apply map_ext. intros p.
  rewrite <- app_assoc. reflexivity.
Qed.

Definition PRec (rec : list node -> list key -> res (list path * nat)) (x : stree) : Prop :=
  forall r0 stk, rec (renc x ++ r0) stk = Ok (rev (map (app stk) (st_paths x)), st_nodes x).

Lemma parr_loop_spec rec ra' stk : forall la el cur emitted resta,
  length el = length la -> Forall (PRec rec) la -> forallb wf_stree la = true ->
  skipn cur ra' = flat_map renc la ++ resta ->
  parr_loop rec ra' stk el (length la) cur emitted =
  Ok (emitted ++ emit_rev stk el la, (cur + sum_nat (map st_nodes la))%nat).
Proof.
  induction la as [|x la IH]; intros [|e el] cur emitted resta Hl HR Wa Hsk; try discriminate Hl.
  - simpl. rewrite app_nil_r, Nat.add_0_r. reflexivity.
  - injection Hl as Hl. inversion HR as [|? ? Rx Rla]; subst. simpl in Wa. apply andb_true_iff in Wa as [Wx Wa].
    cbn [length parr_loop]. cbn [flat_map] in Hsk. rewrite <- app_assoc in Hsk. rewrite Hsk, (Rx _ (stk ++ [e])). cbn [bind].
    rewrite (IH el (cur + st_nodes x)%nat _ resta Hl Rla Wa).
    + cbn [emit_rev map sum_nat fold_right]. rewrite <- app_assoc. f_equal. f_equal.
      change (fold_right Nat.add 0%nat (map st_nodes la)) with (sum_nat (map st_nodes la)). lia.
    + rewrite skipn_add, Hsk, <- (renc_length x Wx), skipn_app_exact. reflexivity.
Qed.

Lemma firstn_all' {A} (l : list A) n : n = length l -> firstn n l = l.
Proof. intros ->. apply firstn_all. Qed.

Theorem psim : forall t fuel, (st_nodes t <= fuel)%nat ->
  wf_stree t = true -> good t = true -> entries_wf t = true -> dok t = true -> PRec (parr fuel) t.
Proof.
  induction t as [n cs IH] using stree_ind'. intros fuel Hf W G E D r0 stk.
  destruct (wf_unfold n cs W) as (Ar & Nn & Lv & Wcs). pose proof (good_children n cs G) as Gcs.
  destruct (good_node n cs G) as (_ & Dn & _ & Nnone & _ & _).
  simpl in E, D. apply andb_true_iff in E as [En Ecs]. apply andb_true_iff in D as [Kd Dcs].
  destruct fuel as [|fuel]; [pose proof (st_nodes_pos _ W); lia|].
  assert (HR : Forall (PRec (parr fuel)) cs).
  { apply Forall_forall. intros x Hx. rewrite Forall_forall in IH.
    apply (IH x Hx fuel); try (eapply forallb_In; eassumption).
    pose proof (child_nodes_lt n cs x W Hx). unfold st_nodes in Hf. cbn [st_node] in Hf. lia. }
  pose proof (renc_length _ W) as Len. unfold st_nodes in Len. cbn [st_node] in Len.
  assert (L1 : Nat.ltb (length (renc (T n cs) ++ r0)) (nnodes n) = false) by (apply Nat.ltb_ge; rewrite app_length; lia).
  rewrite renc_unfold in L1 |- *. cbn [app] in *. cbn [parr]. rewrite L1.
  (* the loop over the children with entries es *)
  assert (Hloop : forall es, node_entries n = es -> length es = length cs -> is_leaf_node n = false ->
            (do r <- parr_loop (parr fuel) (flat_map renc (rev cs) ++ r0) stk (rev (firstn (narity n) es)) (narity n) 0 [] ;;
             let '(ps, cur) := r in Ok (ps, S cur)) =
            Ok (rev (map (app stk) (st_paths (T n cs))), st_nodes (T n cs))).
  { intros es Hes Hl Ln. rewrite (firstn_all' es (narity n)) by congruence.
    rewrite Ar, <- (rev_length cs).
    rewrite (parr_loop_spec (parr fuel) _ stk (rev cs) (rev es) 0 [] r0); try (apply forallb_rev; assumption).
    - cbn [bind app]. rewrite emit_rev_paths by exact Hl. rewrite st_paths_unfold, Ln, Hes.
      rewrite map_rev, sum_rev. unfold st_nodes at 2. cbn [st_node]. rewrite Nn. reflexivity.
    - rewrite !rev_length. exact Hl.
    - apply Forall_rev. exact HR.
    - reflexivity. }
  unfold kd_ok in Kd. unfold node_entries in Hloop.
  destruct (nentries n) as [es|] eqn:Ee.
  - (* declared entries: a custom node *)
    destruct (nkind n) eqn:Kn; destruct (ndat n) as [| | | | |meta eb] eqn:Dd; try discriminate En; try discriminate Kd.
    destruct eb as [| |es0| |]; try discriminate En.
    apply andb_true_iff in En as [E1 E2]. apply keys_eqb_eq in E1. apply Nat.eqb_eq in E2. subst es0.
    apply (Hloop es eq_refl); [congruence | unfold is_leaf_node; rewrite Kn; reflexivity].
  - destruct (nkind n) eqn:Kn.
    + apply (Hloop _ eq_refl); [rewrite pos_keys_length; exact Ar | unfold is_leaf_node; rewrite Kn; reflexivity].
    + (* leaf *)
      assert (Ln : is_leaf_node n = true) by (unfold is_leaf_node; rewrite Kn; reflexivity). rewrite Ln in Lv.
      destruct Lv as [_ ->]. rewrite st_paths_unfold, Ln. simpl in Nn. unfold st_nodes. cbn [st_node map rev app].
      rewrite app_nil_r, Nn. reflexivity.
    + rewrite (Nnone eq_refl) in *. rewrite st_paths_unfold. unfold is_leaf_node. rewrite Kn. cbn.
      simpl in Nn. unfold st_nodes. cbn [st_node]. rewrite Nn. reflexivity.
    + apply (Hloop _ eq_refl); [rewrite pos_keys_length; exact Ar | unfold is_leaf_node; rewrite Kn; reflexivity].
    + apply (Hloop _ eq_refl); [rewrite pos_keys_length; exact Ar | unfold is_leaf_node; rewrite Kn; reflexivity].
    + destruct (Dn eq_refl) as (ks & Hks & Hl & _). rewrite Hks in *.
      apply (Hloop ks eq_refl Hl). unfold is_leaf_node. rewrite Kn. reflexivity.
    + apply (Hloop _ eq_refl); [rewrite pos_keys_length; exact Ar | unfold is_leaf_node; rewrite Kn; reflexivity].
    + destruct (Dn eq_refl) as (ks & Hks & Hl & _). rewrite Hks in *.
      apply (Hloop ks eq_refl Hl). unfold is_leaf_node. rewrite Kn. reflexivity.
    + destruct (Dn eq_refl) as (ks & Hks & Hl & _). rewrite Hks in *.
      apply (Hloop ks eq_refl Hl). unfold is_leaf_node. rewrite Kn. reflexivity.
    + apply (Hloop _ eq_refl); [rewrite pos_keys_length; exact Ar | unfold is_leaf_node; rewrite Kn; reflexivity].
    + apply (Hloop _ eq_refl); [rewrite pos_keys_length; exact Ar | unfold is_leaf_node; rewrite Kn; reflexivity].
Qed.

(* ---------- as many paths as leaves ---------- *)
Lemma node_entries_length n cs :
  wf_stree (T n cs) = true -> good (T n cs) = true -> entries_wf (T n cs) = true -> kd_ok n = true ->
  is_leaf_node n = false -> length (node_entries n) = length cs.
Proof.
  intros W G E Kd Ln. destruct (wf_unfold n cs W) as (Ar & _ & _ & _).
  destruct (good_node n cs G) as (_ & Dn & _ & Nnone & _ & _).
  simpl in E. apply andb_true_iff in E as [En _]. unfold kd_ok in Kd. unfold node_entries, is_leaf_node in *.
  destruct (nentries n) as [es|] eqn:Ee.
  - destruct (nkind n) eqn:Kn; destruct (ndat n) as [| | | | |meta eb] eqn:Dd; try discriminate En; try discriminate Kd.
    destruct eb as [| |es0| |]; try discriminate En.
    apply andb_true_iff in En as [E1 E2]. apply keys_eqb_eq in E1. apply Nat.eqb_eq in E2. congruence.
  - destruct (nkind n) eqn:Kn; try discriminate Ln; try (rewrite pos_keys_length; exact Ar);
      try (destruct (Dn eq_refl) as (ks & Hks & Hl & _); rewrite Hks; exact Hl).
    rewrite (Nnone eq_refl). reflexivity.
Qed.

Lemma paths_go_length : forall es cs, length es = length cs ->
  length (paths_go es cs) = sum_nat (map (fun c => length (st_paths c)) cs).
Proof.
  induction es as [|e es IH]; intros [|c cs] Hl; try discriminate Hl; [reflexivity|].
  injection Hl as Hl. change (paths_go (e :: es) (c :: cs)) with (map (cons e) (st_paths c) ++ paths_go es cs).
  rewrite app_length, map_length. cbn [map sum_nat fold_right]. f_equal. exact (IH cs Hl).
Qed.

Theorem st_paths_count : forall t, wf_stree t = true -> good t = true -> entries_wf t = true -> dok t = true ->
  length (st_paths t) = st_leaves t.
Proof.
  induction t as [n cs IH] using stree_ind'. intros W G E D.
  destruct (wf_unfold n cs W) as (_ & _ & Lv & Wcs). pose proof (good_children n cs G) as Gcs.
  pose proof E as E0. pose proof D as D0.
  simpl in E, D. apply andb_true_iff in E as [_ Ecs]. apply andb_true_iff in D as [Kd Dcs].
  rewrite st_paths_unfold. unfold st_leaves. cbn [st_node].
  destruct (is_leaf_node n) eqn:Ln; [destruct Lv as [-> _]; reflexivity|].
  rewrite Lv, (paths_go_length _ _ (node_entries_length n cs W G E0 Kd Ln)). f_equal.
  clear - IH Wcs Gcs Ecs Dcs. induction cs as [|c cs IHl]; [reflexivity|].
  inversion IH as [|? ? Hc IHcs]; subst. simpl in *.
  apply andb_true_iff in Wcs as [Wc Wcs]. apply andb_true_iff in Gcs as [Gc Gcs].
  apply andb_true_iff in Ecs as [Ec Ecs]. apply andb_true_iff in Dcs as [Dc Dcs].
  rewrite (Hc Wc Gc Ec Dc). f_equal. apply IHl; assumption.
Qed.

(* ---------- PyTreeSpec::Paths ---------- *)
Theorem arr_paths_spec t nl ns :
  wf_stree t = true -> good t = true -> entries_wf t = true -> dok t = true ->
  arr_paths {| trav := encode t; snil := nl; sns := ns |} = Ok (st_paths t).
Proof.
  intros W G E D. unfold arr_paths. cbn [trav].
  destruct (renc_head t) as (tl & Hh). unfold renc in Hh. rewrite Hh.
  pose proof (st_paths_count t W G E D) as Hc. unfold st_leaves in Hc.
  destruct (Nat.eqb (nleaves (st_node t)) 0) eqn:Z0.
  { apply Nat.eqb_eq in Z0. rewrite Z0 in Hc. destruct (st_paths t); [reflexivity | discriminate]. }
  rewrite (encode_length t W).
  destruct (Nat.eqb (st_nodes t) 1 && Nat.eqb (nleaves (st_node t)) 1) eqn:One.
  { apply andb_true_iff in One as [N1 L1]. apply Nat.eqb_eq in N1, L1.
    destruct t as [n cs]. destruct (wf_unfold n cs W) as (_ & Nn & Lv & Wcs). unfold st_nodes in N1. cbn [st_node] in *.
    rewrite st_paths_unfold. destruct (is_leaf_node n) eqn:Ln; [reflexivity|].
    exfalso. rewrite Nn in N1. injection N1 as N1. destruct cs as [|c cs].
    - simpl in Lv. congruence.
    - simpl in Wcs. apply andb_true_iff in Wcs as [Wc _].
      pose proof (st_nodes_pos c Wc). simpl in N1. lia. }
  rewrite <- Hh.
  pose proof (psim t (S (st_nodes t)) (le_S _ _ (le_n _)) W G E D [] []) as H.
  unfold renc in H. rewrite app_nil_r in H. rewrite H. cbn [bind].
  rewrite Nat.eqb_refl. cbn [negb].
  match goal with |- (if negb (Nat.eqb ?x _) then _ else _) = _ =>
    replace x with (nleaves (st_node t)) by (rewrite rev_length, map_length; symmetry; exact Hc) end.
  rewrite Nat.eqb_refl. cbn [negb].
  rewrite rev_involutive. f_equal. rewrite <- (map_id (st_paths t)) at 2. apply map_ext. reflexivity.
Qed.

(* for everything flatten produces *)
Lemma flatten_entries_wf c o ls sp s :
  flatten c o = Ok (ls, sp) -> sspec_of sp = Some s -> entries_wf (stree_of s) = true.
Proof.
  intros F HS. unfold flatten in F. destruct (flat c (S (c_limit c)) o) as [[[l1 n1] b1]|] eqn:E1; [|discriminate].
  cbn [bind] in F. injection F as <- <-.
  destruct (tflat_of_flat c _ o _ _ _ E1) as (t1 & Ht1 & -> & Hw1).
  unfold sspec_of in HS. cbn [trav snil sns] in HS. rewrite (decode_encode t1 (wf_arity_ok t1 Hw1)) in HS.
  injection HS as <-. cbn [stree_of]. exact (tflat_entries_wf c _ o _ _ _ Ht1).
Qed.

Theorem arr_paths_of_flattened c o ls sp s :
  wf_obj o = true -> flatten c o = Ok (ls, sp) -> sspec_of sp = Some s ->
  arr_paths sp = Ok (st_paths (stree_of s)).
Proof.
  intros W F HS. pose proof (flatten_entries_wf c o ls sp s F HS) as Hew.
  destruct (flatten_facts c o ls sp W F) as (s' & E & <- & Wt & G & D). rewrite HS in E. injection E as <-.
  unfold spec_of. apply arr_paths_spec; assumption.
Qed.
