(* ComposeArrProofs.v — the C++ Compose pass over the outer array (theories/ComposeArr.v) returns the
   encoding of the tree-level composition (property C08). *)
From OptreeModel Require Import Base Tree Flatten Unflatten Spec PrefixArr ComposeArr.
From OptreeProofs Require Import BaseProofs RoundTrip SpecProofs InspectProofs EqProofs OrderProofs PrefixArrProofs JoinArrProofs.

Lemma leaves_le_nodes : forall t, wf_stree t = true -> (st_leaves t <= st_nodes t)%nat.
Proof.
  induction t as [n cs IH] using stree_ind'. intros W. destruct (wf_unfold n cs W) as (_ & Nn & Lv & Wcs).
  unfold st_leaves, st_nodes. cbn [st_node]. rewrite Nn.
  destruct (is_leaf_node n); [destruct Lv as [-> _]; lia|]. rewrite Lv. apply le_S.
  clear - IH Wcs. induction cs as [|c cs IHl]; [simpl; lia|].
  inversion IH as [|? ? Hc IHcs]; subst. simpl in Wcs. apply andb_true_iff in Wcs as [Wc Wcs].
  specialize (Hc Wc). specialize (IHl IHcs Wcs). simpl. lia.
Qed.

Lemma sum_leaves_le : forall cs, forallb wf_stree cs = true ->
  (sum_nat (map st_leaves cs) <= sum_nat (map st_nodes cs))%nat.
Proof.
  induction cs as [|c cs IH]; intros W; [simpl; lia|]. simpl in W. apply andb_true_iff in W as [Wc W].
  pose proof (leaves_le_nodes c Wc). specialize (IH W). simpl. lia.
Qed.

Lemma sum_scaled : forall (cs : list stree) (f : stree -> nat) k,
  (forall c, In c cs -> wf_stree c = true) ->
  (forall c, In c cs -> f c = (st_nodes c - st_leaves c + st_leaves c * k)%nat) ->
  sum_nat (map f cs) = (sum_nat (map st_nodes cs) - sum_nat (map st_leaves cs) + sum_nat (map st_leaves cs) * k)%nat.
Proof.
  induction cs as [|c cs IH]; intros f k W H; [reflexivity|].
  cbn [map sum_nat fold_right].
  change (fold_right Nat.add 0%nat (map f cs)) with (sum_nat (map f cs)).
  change (fold_right Nat.add 0%nat (map st_nodes cs)) with (sum_nat (map st_nodes cs)).
  change (fold_right Nat.add 0%nat (map st_leaves cs)) with (sum_nat (map st_leaves cs)).
  rewrite (H c (or_introl eq_refl)), (IH f k (fun x Hx => W x (or_intror Hx)) (fun x Hx => H x (or_intror Hx))).
  pose proof (leaves_le_nodes c (W c (or_introl eq_refl))) as Hc.
  assert (Hs : (sum_nat (map st_leaves cs) <= sum_nat (map st_nodes cs))%nat).
  { clear - W. induction cs as [|x cs IHl]; [simpl; lia|].
    pose proof (leaves_le_nodes x (W x (or_intror (or_introl eq_refl)))).
    assert (forall y, In y (c :: cs) -> wf_stree y = true) as W' by (intros y [->|Hy]; apply W; [left; reflexivity | right; right; exact Hy]).
    specialize (IHl W'). simpl. lia. }
  nia.
Qed.

Theorem compose_nodes : forall a b, wf_stree a = true ->
  st_nodes (st_compose a b) = (st_nodes a - st_leaves a + st_leaves a * st_nodes b)%nat.
Proof.
  induction a as [n cs IH] using stree_ind'. intros b W.
  destruct (wf_unfold n cs W) as (_ & Nn & Lv & Wcs).
  cbn [st_compose]. destruct (is_leaf_node n) eqn:Ln.
  - destruct Lv as [Hl ->]. simpl in Nn. change (st_nodes (T n [])) with (nnodes n). change (st_leaves (T n [])) with (nleaves n).
    rewrite Nn, Hl. simpl. rewrite Nat.add_0_r. reflexivity.
  - unfold mkT. unfold st_nodes at 1 2, st_leaves. cbn [st_node recount nnodes]. rewrite Nn, Lv, map_map.
    rewrite (sum_scaled cs (fun c => st_nodes (st_compose c b)) (st_nodes b)).
    + pose proof (sum_leaves_le cs Wcs) as Hle. lia.
    + intros c Hc. exact (forallb_In _ _ _ Wcs Hc).
    + intros c Hc. rewrite Forall_forall in IH. apply (IH c Hc b). exact (forallb_In _ _ _ Wcs Hc).
Qed.

Definition cstep (b : stree) (n : node) : list node :=
  if is_leaf_node n then encode b else [rescale n (st_leaves b) (st_nodes b)].

Theorem compose_encode : forall a b, wf_stree a = true ->
  flat_map (cstep b) (encode a) = encode (st_compose a b).
Proof.
  induction a as [n cs IH] using stree_ind'. intros b W.
  destruct (wf_unfold n cs W) as (Ar & Nn & Lv & Wcs).
  cbn [encode]. rewrite flat_map_app. cbn [flat_map]. rewrite app_nil_r.
  assert (Hkids : flat_map (cstep b) (flat_map encode cs) = flat_map encode (map (fun c => st_compose c b) cs)).
  { clear - IH Wcs. induction cs as [|c cs IHl]; [reflexivity|].
    inversion IH as [|? ? Hc IHcs]; subst. simpl in Wcs. apply andb_true_iff in Wcs as [Wc Wcs].
    cbn [flat_map map]. rewrite flat_map_app, (Hc b Wc), (IHl IHcs Wcs). reflexivity. }
  rewrite Hkids. unfold cstep at 1. cbn [st_compose]. destruct (is_leaf_node n) eqn:Ln.
  - destruct Lv as [_ ->]. reflexivity.
  - unfold mkT. cbn [encode]. f_equal. f_equal.
    pose proof (compose_leaves (T n cs) b W) as HL. pose proof (compose_nodes (T n cs) b W) as HN.
    cbn [st_compose] in HL, HN. rewrite Ln in HL, HN. unfold mkT, st_leaves, st_nodes in HL, HN. cbn [st_node] in HL, HN.
    unfold rescale, recount in *. cbn [nleaves nnodes] in HL, HN. rewrite map_length, <- Ar.
    rewrite HL, HN. reflexivity.
Qed.

Lemma encode_last t : exists l, encode t = l ++ [st_node t].
Proof. destruct t as [n cs]. simpl. eexists; reflexivity. Qed.

Theorem arr_compose_spec a b :
  wf_stree (stree_of a) = true -> wf_stree (stree_of b) = true ->
  arr_compose (spec_of a) (spec_of b) = match ss_compose a b with Ok j => Ok (spec_of j) | Err e => Err e end.
Proof.
  intros Wa Wb. unfold arr_compose, ss_compose, spec_of. cbn [trav snil sns].
  destruct (negb (Bool.eqb (ss_nil a) (ss_nil b))); [reflexivity|].
  unfold ns_compatible. rewrite <- !negb_orb.
  destruct (negb (Z.eqb (ss_ns a) 0 || Z.eqb (ss_ns b) 0 || Z.eqb (ss_ns a) (ss_ns b))); [reflexivity|].
  destruct (encode_last (stree_of a)) as (la & Ha). destruct (encode_last (stree_of b)) as (lb & Hb).
  rewrite Ha, Hb, !rev_app_distr. cbn [rev app]. rewrite <- Ha, <- Hb.
  rewrite (encode_length _ Wb), (encode_length _ Wa).
  change (nleaves (st_node (stree_of b))) with (st_leaves (stree_of b)).
  change (nleaves (st_node (stree_of a))) with (st_leaves (stree_of a)).
  change (fun n => if is_leaf_node n then encode (stree_of b) else [rescale n (st_leaves (stree_of b)) (st_nodes (stree_of b))])
    with (cstep (stree_of b)).
  rewrite (compose_encode _ (stree_of b) Wa).
  destruct (encode_last (st_compose (stree_of a) (stree_of b))) as (lc & Hc).
  rewrite Hc, rev_app_distr. cbn [rev app]. rewrite <- Hc.
  change (nleaves (st_node (st_compose (stree_of a) (stree_of b)))) with (st_leaves (st_compose (stree_of a) (stree_of b))).
  change (nnodes (st_node (st_compose (stree_of a) (stree_of b)))) with (st_nodes (st_compose (stree_of a) (stree_of b))).
  rewrite (compose_leaves _ (stree_of b) Wa), (compose_nodes _ (stree_of b) Wa), !Nat.eqb_refl. cbn [negb].
  unfold ns_merge. cbn [stree_of ss_nil ss_ns]. reflexivity.
Qed.
