(* AliasProofs.v — a treespec is unaffected by whatever user code does to the lists it can reach, and
   the garbage collector sees every reference a treespec owns (property C14). *)
From OptreeModel Require Import Base Tree Flatten Alias.
From OptreeProofs Require Import BaseProofs.

(* ================= heap lemmas ================= *)
Lemma hget_hset_other c : forall i j v, i <> j -> hget_cells (hset_cells c j v) i = hget_cells c i.
Proof.
  induction c as [|[k w] c IH]; intros i j v Hne; simpl; [reflexivity|].
  destruct (Nat.eqb j k) eqn:Ejk; simpl.
  - apply Nat.eqb_eq in Ejk. subst k. destruct (Nat.eqb i j) eqn:Eij; [apply Nat.eqb_eq in Eij; contradiction | reflexivity].
  - destruct (Nat.eqb i k); [reflexivity | apply IH; exact Hne].
Qed.

Lemma hget_halloc_old h v i : (i < next h)%nat -> hget (fst (halloc h v)) i = hget h i.
Proof.
  intros Hlt. unfold hget, halloc. simpl. destruct (Nat.eqb i (next h)) eqn:E; [|reflexivity].
  apply Nat.eqb_eq in E. lia.
Qed.

(* invariant of a run: the ids the treespec owns exist, and the user holds none of them *)
Definition AInv (s : dspec) (u : ustate) : Prop :=
  (d_keys s < next (u_heap u))%nat /\ (d_orig s < next (u_heap u))%nat /\
  (forall i, In i (u_held u) -> i <> d_keys s /\ i <> d_orig s /\ (i < next (u_heap u))%nat).

Lemma astep_inv s u o : AInv s u -> AInv s (astep true s u o) /\ observe (u_heap (astep true s u o)) s = observe (u_heap u) s.
Proof.
  intros (Hk & Ho & Hheld). destruct o as [n v|]; simpl.
  - destruct (nth_error (u_held u) n) as [i|] eqn:En; [|split; [unfold AInv; auto | reflexivity]].
    destruct (Hheld i (nth_error_In _ _ En)) as (H1 & H2 & H3).
    split.
    + unfold AInv. cbn [u_heap u_held hset next]. repeat split; auto; apply Hheld; assumption.
    + unfold observe, hget, hset. cbn [cells u_heap]. rewrite !hget_hset_other by auto. reflexivity.
  - unfold entries.
    set (ks := match hget (u_heap u) (d_keys s) with Some ks => ks | None => [] end).
    assert (Hal : (match hget (u_heap u) (d_keys s) with
                   | Some ks0 => halloc (u_heap u) ks0 | None => halloc (u_heap u) [] end) = halloc (u_heap u) ks).
    { unfold ks. destruct (hget (u_heap u) (d_keys s)); reflexivity. }
    rewrite Hal. unfold halloc. simpl. split.
    + repeat split; simpl; try lia.
      * destruct H as [<-|H]; [lia | apply Hheld; exact H].
      * destruct H as [<-|H]; [lia | apply Hheld; exact H].
      * destruct H as [<-|H]; [lia | destruct (Hheld i H) as (_ & _ & H3); lia].
    + unfold observe, hget. simpl.
      destruct (Nat.eqb (d_keys s) (next (u_heap u))) eqn:E1; [apply Nat.eqb_eq in E1; lia|].
      destruct (Nat.eqb (d_orig s) (next (u_heap u))) eqn:E2; [apply Nat.eqb_eq in E2; lia|]. reflexivity.
Qed.

Lemma arun_inv s : forall p u, AInv s u -> observe (u_heap (arun true s u p)) s = observe (u_heap u) s.
Proof.
  induction p as [|o p IH]; intros u Hinv; [reflexivity|].
  destruct (astep_inv s u o Hinv) as [Hinv' Hobs].
  change (arun true s u (o :: p)) with (arun true s (astep true s u o) p).
  rewrite IH by exact Hinv'. exact Hobs.
Qed.

(* After flatten, for EVERY program of the user — any sequence of mutations of the source list and of
   every list ever returned by entries(), interleaved with further entries() calls — the treespec
   still says what it said right after it was created. *)
Theorem spec_immutable h src h1 s p :
  (src < next h)%nat -> flatten_dict true h src = Some (h1, s) ->
  observe (u_heap (arun true s {| u_heap := h1; u_held := [src] |} p)) s = observe h1 s.
Proof.
  intros Hsrc Hf. unfold flatten_dict in Hf.
  destruct (hget h src) as [ks|]; [|discriminate]. simpl in Hf. injection Hf as <- <-.
  apply arun_inv. unfold AInv. simpl. repeat split; try lia.
  all: destruct H as [<-|[]]; lia.
Qed.

(* and what it says is the source's keys at flatten time: sorted, and in insertion order *)
Theorem spec_describes_source h src ks h1 s :
  hget h src = Some ks -> flatten_dict true h src = Some (h1, s) ->
  observe h1 s = (Some (total_order_sort ks), Some ks).
Proof.
  intros Hg Hf. unfold flatten_dict in Hf. rewrite Hg in Hf. cbn -[Nat.eqb total_order_sort] in Hf.
  injection Hf as <- <-.
  unfold observe, hget. cbn -[Nat.eqb total_order_sort].
  assert (E : Nat.eqb (next h) (S (next h)) = false) by (apply Nat.eqb_neq; lia).
  rewrite E, !Nat.eqb_refl. reflexivity.
Qed.

(* without the copies the claim is false: mutating the source, or the list entries() returned,
   changes the treespec *)
Theorem aliasing_refuted :
  (exists h src h1 s p, flatten_dict false h src = Some (h1, s) /\
     observe (u_heap (arun true s {| u_heap := h1; u_held := [src] |} p)) s <> observe h1 s) /\
  (exists h src h1 s p, flatten_dict true h src = Some (h1, s) /\
     observe (u_heap (arun false s {| u_heap := h1; u_held := [src] |} p)) s <> observe h1 s).
Proof.
  split.
  - exists {| cells := [(0%nat, [KInt 2; KInt 1])]; next := 1%nat |}, 0%nat.
    eexists _, _, [AMutate 0 []]. split; [reflexivity|]. vm_compute. discriminate.
  - exists {| cells := [(0%nat, [KInt 2; KInt 1])]; next := 1%nat |}, 0%nat.
    eexists _, _, [AEntries; AMutate 0 []]. split; [reflexivity|]. vm_compute. discriminate.
Qed.

(* ================= garbage collection ================= *)
Lemma visited_all n : visited GcAll n = owned n.
Proof.
  unfold visited, owned, passed. simpl.
  destruct (has_data n), (has_entries n), (has_orig n); reflexivity.
Qed.

(* the traversal reports exactly the references the treespec owns, for every treespec *)
Theorem gc_complete sp : spec_visited GcAll sp = spec_owned sp.
Proof. unfold spec_visited, spec_owned. apply map_ext. exact visited_all. Qed.

(* both shortcuts miss a reference on treespecs that flatten really produces *)
Definition c0 : cfg :=
  {| c_nil := false; c_ns := 0; c_pred := None; c_reg := [{| rcls := 0; rns := 0; rid := 1; rpet := 0 |}];
     c_ins := []; c_limit := 1000 |}.

Theorem gc_shortcuts_refuted :
  (exists o ls sp, flatten c0 o = Ok (ls, sp) /\ spec_visited GcSkipChildless sp <> spec_owned sp) /\
  (exists o ls sp, flatten c0 o = Ok (ls, sp) /\ spec_visited GcByKind sp <> spec_owned sp).
Proof.
  split.
  - exists (Node (HCustom 0 7 EAbsent) []). eexists _, _. split; [reflexivity|]. vm_compute. discriminate.
  - exists (Node (HDDict 1 [KInt 2; KInt 1]) [Leaf 1; Leaf 2]). eexists _, _. split; [reflexivity|].
    vm_compute. discriminate.
Qed.

(* ---------- the leaf iterator: every owned reference is reported, in every state ---------- *)
Theorem iter_gc_complete s : iter_visited IGcAll s = iter_owned s.
Proof. reflexivity. Qed.

(* the traversal without the predicate (the code before fix F18) and the one that stops reporting once
   the iterator is exhausted both miss a reference the iterator still owns *)
Theorem iter_gc_variants_refuted :
  (exists s, iter_visited IGcNoPredicate s <> iter_owned s) /\
  (exists s, it_agenda s = [] /\ iter_visited IGcSkipExhausted s <> iter_owned s).
Proof.
  split.
  - exists {| it_root := Leaf 1; it_agenda := []; it_has_pred := true |}. vm_compute. discriminate.
  - exists {| it_root := Leaf 1; it_agenda := []; it_has_pred := false |}. split; [reflexivity|]. vm_compute. discriminate.
Qed.

(* without a predicate the two coincide: the pre-fix traversal was complete exactly for iterators that
   were given no is_leaf function *)
Theorem iter_gc_no_predicate_complete_iff s :
  iter_visited IGcNoPredicate s = iter_owned s <-> it_has_pred s = false.
Proof.
  unfold iter_visited, iter_owned. split.
  - intros H. destruct (it_has_pred s); [|reflexivity]. exfalso.
    apply (f_equal (@length iref)) in H. rewrite !app_length in H. simpl in H. lia.
  - intros ->. rewrite app_nil_r. reflexivity.
Qed.
