(* FlattenGood.v — every treespec that flatten produces from a well-formed object satisfies the side
   conditions (`good`) under which the order theorems of C07 / C09 are stated: dict nodes carry as many
   distinct keys as children, arities match, only custom nodes carry a registration. *)
From OptreeModel Require Import Base Tree Flatten Unflatten Spec.
From OptreeProofs Require Import BaseProofs RoundTrip SpecProofs InspectProofs EqProofs OrderProofs PrefixOrder JoinOrder.
From Coq Require Import Permutation.

Definition GEnc (r : fres) : Prop :=
  exists t, r_ns r = encode t /\ wf_stree t = true /\ st_leaves t = length (r_ls r) /\ good t = true.

Lemma good_leaf : good st_leaf = true.
Proof. reflexivity. Qed.

Lemma GEnc_leaf o b : GEnc ([o], [leaf_node], b).
Proof. exists st_leaf. repeat split. Qed.

Lemma flat_seq_genc (f : obj -> res fres) ch :
  (forall x r, In x ch -> f x = Ok r -> GEnc r) ->
  forall r, flat_seq f ch = Ok r ->
  exists ts, r_ns r = flat_map encode ts /\ forallb wf_stree ts = true /\
             length ts = length ch /\
             sum_nat (map st_leaves ts) = length (r_ls r) /\
             sum_nat (map st_nodes ts) = length (r_ns r) /\ forallb good ts = true.
Proof.
  induction ch as [|x ch IH]; intros Hf r Hr; simpl in Hr.
  - injection Hr as <-. exists []. repeat split.
  - destruct (f x) as [[[ls1 ns1] b1]|] eqn:E1; simpl in Hr; [|discriminate].
    destruct (flat_seq f ch) as [[[ls2 ns2] b2]|] eqn:E2; simpl in Hr; [|discriminate].
    injection Hr as <-.
    destruct (Hf x _ (or_introl eq_refl) E1) as (t & Hn & Hw & Hl & Hg).
    destruct (IH (fun y r H => Hf y r (or_intror H)) _ eq_refl) as (ts & Hns & Hws & Hlen & Hsl & Hsn & Hgs).
    unfold r_ns, r_ls in *. simpl in *. exists (t :: ts). simpl. repeat split.
    + congruence.
    + rewrite Hw, Hws. reflexivity.
    + congruence.
    + rewrite app_length. unfold sum_nat in *. simpl. congruence.
    + rewrite app_length. unfold sum_nat in *. simpl. rewrite Hsn.
      f_equal. rewrite Hn. symmetry. apply encode_length. exact Hw.
    + rewrite Hg, Hgs. reflexivity.
Qed.

Lemma forallb_good_split ts : forallb good ts = true ->
  forallb keys_ok ts = true /\ forallb arity_ok ts = true /\ forallb custom_ok ts = true.
Proof.
  induction ts as [|t ts IH]; simpl; [auto|]. intros H. apply andb_true_iff in H as [Ht Hts].
  destruct (IH Hts) as (A & B & C). unfold good in Ht.
  apply andb_true_iff in Ht as [Ht Hc]. apply andb_true_iff in Ht as [Hk Ha].
  rewrite Hk, Ha, Hc, A, B, C. auto.
Qed.

Lemma mk_node_genc (f : obj -> res fres) ch k ar d ent cu orig r b' :
  (forall x r, In x ch -> f x = Ok r -> GEnc r) ->
  flat_seq f ch = Ok r -> kind_eqb k KdLeaf = false -> ar = length ch ->
  (is_dict_kind k = true ->
   exists ks, match d with DKeys ks' | DDefault _ ks' => Some ks' | _ => None end = Some ks /\
              length ks = length ch /\ keys_nodup ks = true) ->
  (k <> KdCustom -> cu = None) -> (k = KdNone -> ch = []) ->
  GEnc (mk_node k ar d ent cu orig (r_ls r, r_ns r, b')).
Proof.
  intros Hf Hr Hk Har Hd Hc Hn.
  destruct (flat_seq_genc f ch Hf r Hr) as (ts & Hns & Hws & Hlen & Hsl & Hsn & Hgs).
  destruct (forallb_good_split ts Hgs) as (Gk & Ga & Gc).
  rewrite mk_node_eq.
  exists (T {| nkind := k; narity := ar; ndat := d; nentries := ent; ncustom := cu;
               nleaves := length (r_ls r); nnodes := S (length (r_ns r)); norig := orig |} ts).
  unfold r_ns, r_ls in *. simpl. repeat split.
  - rewrite Hns. reflexivity.
  - unfold is_leaf_node. simpl. rewrite Hk, Hws.
    rewrite Har, Hlen, Nat.eqb_refl. rewrite Hsn, Hsl, !Nat.eqb_refl. reflexivity.
  - unfold good. simpl. rewrite Gk, Ga, Gc, Har, Hlen, Nat.eqb_refl, !andb_true_r.
    apply andb_true_iff. split.
    + destruct (is_dict_kind k) eqn:Dk; [|reflexivity].
      destruct (Hd eq_refl) as (ks & Hks & Hl & Hnd). unfold node_keys. simpl. rewrite Hks, Hl, Nat.eqb_refl, Hnd. reflexivity.
    + destruct k; try reflexivity; try (rewrite (Hc ltac:(discriminate)); reflexivity).
      rewrite (Hc ltac:(discriminate)), (Hn eq_refl). reflexivity.
Qed.

Lemma visit_keys_nodup c k ks : NoDup ks -> keys_nodup (visit_keys c k ks) = true.
Proof.
  intros H. apply keys_nodup_NoDup. eapply Permutation_NoDup; [apply Permutation_sym; apply visit_keys_perm | exact H].
Qed.

Theorem flat_good c fuel : forall o r, wf_obj o = true -> flat c fuel o = Ok r -> GEnc r.
Proof.
  induction fuel as [|fuel IH]; intros o r Hwf Hr; [discriminate|].
  simpl in Hr.
  destruct (apply_pred c o); [injection Hr as <-; apply GEnc_leaf|].
  destruct (get_kind c o) as [k cu] eqn:Ek.
  destruct o as [id|h cs]; [injection Hr as <-; apply GEnc_leaf|].
  simpl in Hwf. apply andb_true_iff in Hwf as [Hwh Hwcs].
  assert (IH' : forall ch, (forall x, In x ch -> In x cs) ->
                forall x r, In x ch -> flat c fuel x = Ok r -> GEnc r).
  { intros ch Hsub x r0 Hx Hf. eapply IH; [|exact Hf]. eapply forallb_In; [exact Hwcs | apply Hsub; exact Hx]. }
  assert (Hdictkeys : forall ks, hdr_keys h = Some ks -> length ks = length cs /\ NoDup ks).
  { intros ks Hk. destruct h; simpl in Hk; try discriminate; injection Hk as ->; simpl in Hwh;
      apply andb_true_iff in Hwh as [Hl Hn]; apply Nat.eqb_eq in Hl; apply keys_nodup_NoDup in Hn; auto. }
  assert (Hnondict : forall k0, is_dict_kind k0 = false -> is_dict_kind k0 = true ->
            exists ks : list key, @None (list key) = Some ks /\ length ks = length cs /\ keys_nodup ks = true)
    by (intros k0 H1 H2; congruence).
  destruct k.
  - (* custom *)
    destruct h; try discriminate. destruct eb; try discriminate;
      (destruct (flat_seq (flat c fuel) cs) as [[[ls ns] b]|] eqn:E; simpl in Hr; [|discriminate]).
    + injection Hr as <-.
      apply (mk_node_genc (flat c fuel) cs KdCustom _ _ _ _ _ (ls, ns, b) true (IH' cs (fun x H => H)) E);
        try reflexivity; try discriminate; congruence.
    + injection Hr as <-.
      apply (mk_node_genc (flat c fuel) cs KdCustom _ _ _ _ _ (ls, ns, b) true (IH' cs (fun x H => H)) E);
        try reflexivity; try discriminate; congruence.
    + destruct (Nat.eqb (length es) (length cs)); [|discriminate]. injection Hr as <-.
      apply (mk_node_genc (flat c fuel) cs KdCustom _ _ _ _ _ (ls, ns, b) true (IH' cs (fun x H => H)) E);
        try reflexivity; try discriminate; congruence.
  - injection Hr as <-; apply GEnc_leaf.
  - injection Hr as <-.
    exists (T {| nkind := KdNone; narity := 0; ndat := DNone; nentries := None; ncustom := None;
                 nleaves := 0; nnodes := 1; norig := None |} []). repeat split.
  - destruct (flat_seq (flat c fuel) cs) as [[[ls ns] b]|] eqn:E; simpl in Hr; [|discriminate].
    injection Hr as <-.
    apply (mk_node_genc (flat c fuel) cs KdTuple _ _ _ _ _ (ls, ns, b) b (IH' cs (fun x H => H)) E);
      try reflexivity; try discriminate; congruence.
  - destruct (flat_seq (flat c fuel) cs) as [[[ls ns] b]|] eqn:E; simpl in Hr; [|discriminate].
    injection Hr as <-.
    apply (mk_node_genc (flat c fuel) cs KdList _ _ _ _ _ (ls, ns, b) b (IH' cs (fun x H => H)) E);
      try reflexivity; try discriminate; congruence.
  - destruct (hdr_keys h) as [ks|] eqn:Hk; [|discriminate].
    destruct (mapM (child_by_key ks cs) _) as [ch|] eqn:Em; simpl in Hr; [|discriminate].
    destruct (flat_seq (flat c fuel) ch) as [[[ls ns] b]|] eqn:E; simpl in Hr; [|discriminate].
    injection Hr as <-. destruct (mapM_child_by_key _ _ _ _ Em) as (Hl & _ & Hsub).
    destruct (Hdictkeys ks eq_refl) as [Hlen Hnd].
    assert (Hvl : length (visit_keys c KdDict ks) = length ks) by (apply Permutation_length; apply visit_keys_perm).
    apply (mk_node_genc (flat c fuel) ch KdDict _ _ _ _ _ (ls, ns, b) b (IH' ch Hsub) E); try reflexivity; try discriminate.
    + congruence.
    + intros _. exists (visit_keys c KdDict ks). split; [destruct h; reflexivity|].
      split; [congruence | apply visit_keys_nodup; exact Hnd].
  - destruct (flat_seq (flat c fuel) cs) as [[[ls ns] b]|] eqn:E; simpl in Hr; [|discriminate].
    injection Hr as <-.
    apply (mk_node_genc (flat c fuel) cs KdNamed _ _ _ _ _ (ls, ns, b) b (IH' cs (fun x H => H)) E);
      try reflexivity; try discriminate; congruence.
  - destruct (hdr_keys h) as [ks|] eqn:Hk; [|discriminate].
    destruct (mapM (child_by_key ks cs) _) as [ch|] eqn:Em; simpl in Hr; [|discriminate].
    destruct (flat_seq (flat c fuel) ch) as [[[ls ns] b]|] eqn:E; simpl in Hr; [|discriminate].
    injection Hr as <-. destruct (mapM_child_by_key _ _ _ _ Em) as (Hl & _ & Hsub).
    destruct (Hdictkeys ks eq_refl) as [Hlen Hnd].
    assert (Hvl : length (visit_keys c KdODict ks) = length ks) by (apply Permutation_length; apply visit_keys_perm).
    apply (mk_node_genc (flat c fuel) ch KdODict _ _ _ _ _ (ls, ns, b) b (IH' ch Hsub) E); try reflexivity; try discriminate.
    + congruence.
    + intros _. exists (visit_keys c KdODict ks). split; [destruct h; reflexivity|].
      split; [congruence | apply visit_keys_nodup; exact Hnd].
  - destruct (hdr_keys h) as [ks|] eqn:Hk; [|discriminate].
    destruct (mapM (child_by_key ks cs) _) as [ch|] eqn:Em; simpl in Hr; [|discriminate].
    destruct (flat_seq (flat c fuel) ch) as [[[ls ns] b]|] eqn:E; simpl in Hr; [|discriminate].
    injection Hr as <-. destruct (mapM_child_by_key _ _ _ _ Em) as (Hl & _ & Hsub).
    destruct (Hdictkeys ks eq_refl) as [Hlen Hnd].
    assert (Hvl : length (visit_keys c KdDDict ks) = length ks) by (apply Permutation_length; apply visit_keys_perm).
    apply (mk_node_genc (flat c fuel) ch KdDDict _ _ _ _ _ (ls, ns, b) b (IH' ch Hsub) E); try reflexivity; try discriminate.
    + congruence.
    + intros _. exists (visit_keys c KdDDict ks). split; [destruct h; reflexivity|].
      split; [congruence | apply visit_keys_nodup; exact Hnd].
  - destruct (flat_seq (flat c fuel) cs) as [[[ls ns] b]|] eqn:E; simpl in Hr; [|discriminate].
    injection Hr as <-.
    apply (mk_node_genc (flat c fuel) cs KdDeque _ _ _ _ _ (ls, ns, b) b (IH' cs (fun x H => H)) E);
      try reflexivity; try discriminate; congruence.
  - destruct (flat_seq (flat c fuel) cs) as [[[ls ns] b]|] eqn:E; simpl in Hr; [|discriminate].
    injection Hr as <-.
    apply (mk_node_genc (flat c fuel) cs KdStruct _ _ _ _ _ (ls, ns, b) b (IH' cs (fun x H => H)) E);
      try reflexivity; try discriminate; congruence.
Qed.

Theorem flatten_good c o ls sp :
  wf_obj o = true -> flatten c o = Ok (ls, sp) ->
  exists s, sspec_of sp = Some s /\ good (stree_of s) = true.
Proof.
  unfold flatten. intros Hwf H.
  destruct (flat c (S (c_limit c)) o) as [[[ls' ns] b]|] eqn:E; [|discriminate].
  cbn [bind] in H. injection H as <- <-.
  destruct (flat_good _ _ _ _ Hwf E) as (t & Hn & Hw & Hl & Hg). unfold r_ns, r_ls in *. cbn [fst snd] in *.
  exists {| stree_of := t; ss_nil := c_nil c; ss_ns := spec_ns c b |}.
  unfold sspec_of. cbn [trav snil sns stree_of ss_nil ss_ns].
  rewrite Hn, decode_encode by (apply wf_arity_ok; exact Hw). split; [reflexivity | exact Hg].
Qed.
