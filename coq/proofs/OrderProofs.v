(* OrderProofs.v — the prefix order and the join (broadcast) on structured treespecs
   (properties C07 and C09). *)
From OptreeModel Require Import Base Tree Flatten Unflatten Spec.
From OptreeProofs Require Import BaseProofs RoundTrip SpecProofs InspectProofs EqProofs.

(* dict nodes carry as many distinct keys as they have children *)
Fixpoint keys_ok (t : stree) : bool :=
  match t with
  | T n cs =>
    (if is_dict_kind (nkind n)
     then match node_keys n with
          | Some ks => Nat.eqb (length ks) (length cs) && keys_nodup ks
          | None => false
          end
     else true) && forallb keys_ok cs
  end.

Lemma omapM_ext {A B} (f g : A -> option B) l :
  (forall x, In x l -> f x = g x) -> omapM f l = omapM g l.
Proof.
  induction l as [|x l IH]; intros H; [reflexivity|]. simpl.
  rewrite (H x (or_introl eq_refl)), IH by (intros; apply H; right; assumption). reflexivity.
Qed.

Lemma omapM_child_at_key_self ks : forall (cs : list stree),
  NoDup ks -> length ks = length cs -> omapM (child_at_key ks cs) ks = Some cs.
Proof.
  induction ks as [|k ks IH]; intros [|c cs] Hnd Hlen; simpl in *; try discriminate; [reflexivity|].
  inversion Hnd as [|? ? Hnin Hnd']; subst.
  unfold child_at_key at 1. simpl. rewrite key_eqb_refl. simpl.
  rewrite (omapM_ext _ (child_at_key ks cs)).
  - rewrite IH by (auto; congruence). reflexivity.
  - intros x Hx. unfold child_at_key. simpl.
    destruct (key_eqb x k) eqn:E; [apply key_eqb_eq in E; subst; contradiction | reflexivity].
Qed.

Lemma keys_same_set_refl ks : keys_same_set ks ks = true.
Proof.
  unfold keys_same_set. rewrite Nat.eqb_refl. simpl. unfold keys_subset.
  apply forallb_forall. intros k Hk. apply key_mem_In. exact Hk.
Qed.

Lemma kind_eqb_refl k : kind_eqb k k = true.
Proof. apply kind_eqb_eq. reflexivity. Qed.
Lemma ndata_eqb_refl d : ndata_eqb d d = true.
Proof. apply ndata_eqb_eq. reflexivity. Qed.
Lemma opt_reg_eqb_refl r : opt_reg_eqb r r = true.
Proof. apply opt_reg_eqb_eq. reflexivity. Qed.

Lemma prefix_node_ok_refl n :
  is_leaf_node n = false ->
  (is_dict_kind (nkind n) = true -> exists ks, node_keys n = Some ks) ->
  prefix_node_ok n n = true.
Proof.
  unfold prefix_node_ok, is_leaf_node. intros Hl Hd.
  rewrite Nat.eqb_refl, opt_reg_eqb_refl. simpl.
  destruct (nkind n) eqn:Ek; simpl in *; try reflexivity; try discriminate;
    try (rewrite ndata_eqb_refl; reflexivity);
    try (destruct (Hd eq_refl) as (ks & ->); apply keys_same_set_refl).
Qed.

(* the prefix relation is reflexive; comparing a treespec with itself all leaves match *)
Theorem prefix_refl t :
  keys_ok t = true -> arity_ok t = true -> st_prefix t t = (true, true).
Proof.
  induction t as [n cs IH] using stree_ind'. intros Hk Ha.
  simpl in Hk, Ha. apply andb_true_iff in Hk as [Hkn Hkc]. apply andb_true_iff in Ha as [Har Hac].
  cbn [st_prefix]. destruct (is_leaf_node n) eqn:El; [reflexivity|].
  rewrite prefix_node_ok_refl; [|exact El|].
  2:{ intros Hd. rewrite Hd in Hkn. destruct (node_keys n) as [ks|]; [eauto | discriminate]. }
  cbn [negb].
  assert (Hbs : (if is_dict_kind (nkind n)
                 then match node_keys n, node_keys n with
                      | Some ka, Some kb => omapM (child_at_key kb cs) ka
                      | _, _ => None
                      end
                 else Some cs) = Some cs).
  { destruct (is_dict_kind (nkind n)); [|reflexivity].
    destruct (node_keys n) as [ks|]; [|discriminate].
    apply andb_true_iff in Hkn as [Hlen Hnd]. apply Nat.eqb_eq in Hlen. apply keys_nodup_NoDup in Hnd.
    apply omapM_child_at_key_self; assumption. }
  rewrite Hbs. clear Hbs Hkn Har El.
  induction cs as [|c cs IHcs]; [reflexivity|].
  simpl in Hkc, Hac. apply andb_true_iff in Hkc as [Hc1 Hc2]. apply andb_true_iff in Hac as [Ha1 Ha2].
  inversion IH as [|? ? Hc Hrest]; subst.
  rewrite (Hc Hc1 Ha1). rewrite (IHcs Hrest Hc2 Ha2). reflexivity.
Qed.

(* a leaf is a prefix of everything; it is a strict prefix exactly of non-leaves *)
Theorem leaf_prefix t : st_prefix st_leaf t = (true, is_leaf_node (st_node t)).
Proof. destruct t. reflexivity. Qed.

Theorem ss_is_prefix_refl s :
  keys_ok (stree_of s) = true -> arity_ok (stree_of s) = true ->
  ss_is_prefix s s false = true /\ ss_is_prefix s s true = false.
Proof.
  intros Hk Ha. unfold ss_is_prefix. rewrite Bool.eqb_reflx. simpl.
  assert (ns_compatible (ss_ns s) (ss_ns s) = true) as ->.
  { unfold ns_compatible. rewrite Z.eqb_refl. destruct (Z.eqb (ss_ns s) 0); reflexivity. }
  simpl. rewrite Nat.ltb_irrefl, (prefix_refl _ Hk Ha). split; reflexivity.
Qed.

(* a < b iff a <= b and not all of a's leaves are leaves of b *)
Theorem strict_prefix_def a b :
  ss_is_prefix a b true =
  ss_is_prefix a b false && negb (snd (st_prefix (stree_of a) (stree_of b))).
Proof.
  unfold ss_is_prefix.
  destruct (negb (Bool.eqb (ss_nil a) (ss_nil b))); [reflexivity|].
  destruct (negb (ns_compatible (ss_ns a) (ss_ns b))); [reflexivity|].
  destruct (Nat.ltb _ _); [reflexivity|].
  destruct (st_prefix (stree_of a) (stree_of b)) as [p m]. simpl.
  destruct p, m; reflexivity.
Qed.

(* mismatching none_is_leaf or incompatible namespaces are never prefixes *)
Theorem prefix_requires_same_options a b strict :
  ss_is_prefix a b strict = true ->
  ss_nil a = ss_nil b /\ ns_compatible (ss_ns a) (ss_ns b) = true.
Proof.
  unfold ss_is_prefix.
  destruct (Bool.eqb (ss_nil a) (ss_nil b)) eqn:E1; simpl; [|discriminate].
  destruct (ns_compatible (ss_ns a) (ss_ns b)) eqn:E2; simpl; [|discriminate].
  intros _. split; [apply Bool.eqb_prop; exact E1 | reflexivity].
Qed.

(* ================= join (broadcast_to_common_suffix) ================= *)
Theorem join_leaf_l b : st_join st_leaf b = Ok b.
Proof. destruct b. reflexivity. Qed.

Theorem join_leaf_r a : is_leaf_node (st_node a) = false -> st_join a st_leaf = Ok a.
Proof. destruct a as [n cs]. simpl. intros ->. reflexivity. Qed.

(* where the first operand is not a leaf (and the second is not either), the result's node is the
   first operand's own node: kind, node data (key order), path entries, registration, original keys *)
Theorem join_keeps_own_node a b j :
  st_join a b = Ok j -> is_leaf_node (st_node a) = false -> is_leaf_node (st_node b) = false ->
  nkind (st_node j) = nkind (st_node a) /\ ndat (st_node j) = ndat (st_node a) /\
  nentries (st_node j) = nentries (st_node a) /\ ncustom (st_node j) = ncustom (st_node a) /\
  norig (st_node j) = norig (st_node a).
Proof.
  destruct a as [na ca], b as [nb cb]. cbn [st_join st_node]. intros H Ha Hb. rewrite Ha, Hb in H.
  assert (Hkids : forall l l' t,
             (do r <- (fix go (l l' : list stree) : res (list stree) :=
                         match l, l' with
                         | [], [] => Ok []
                         | x :: t, y :: t' => do rest <- go t t' ;; do r <- st_join x y ;; Ok (r :: rest)
                         | _, _ => Err InternalError
                         end) l l' ;; Ok (mkT na r)) = Ok t ->
             nkind (st_node t) = nkind na /\ ndat (st_node t) = ndat na /\
             nentries (st_node t) = nentries na /\ ncustom (st_node t) = ncustom na /\
             norig (st_node t) = norig na).
  { intros l l' t Ht. destruct ((fix go (l l' : list stree) : res (list stree) := _) l l') as [r|];
      simpl in Ht; [|discriminate]. injection Ht as <-. simpl. auto. }
  destruct (nkind na) eqn:Ek; try discriminate.
  - (* custom *)
    repeat match type of H with (if ?c then _ else _) = _ => destruct c; [discriminate|] end.
    eapply Hkids in H. exact H.
  - destruct (kind_eqb (nkind nb) KdNone); [|discriminate]. injection H as <-. simpl. auto.
  - repeat match type of H with (if ?c then _ else _) = _ => destruct c; [discriminate|] end.
    eapply Hkids in H. exact H.
  - repeat match type of H with (if ?c then _ else _) = _ => destruct c; [discriminate|] end.
    eapply Hkids in H. exact H.
  - destruct (negb (is_dict_kind (nkind nb))); [discriminate|].
    destruct (node_keys na) as [ka|]; [|discriminate]. destruct (node_keys nb) as [kb|]; [|discriminate].
    destruct (negb (keys_same_set ka kb)); [discriminate|].
    destruct (omapM (child_at_key kb cb) ka) as [cb'|]; [|discriminate].
    eapply Hkids in H. exact H.
  - repeat match type of H with (if ?c then _ else _) = _ => destruct c; [discriminate|] end.
    eapply Hkids in H. exact H.
  - destruct (negb (is_dict_kind (nkind nb))); [discriminate|].
    destruct (node_keys na) as [ka|]; [|discriminate]. destruct (node_keys nb) as [kb|]; [|discriminate].
    destruct (negb (keys_same_set ka kb)); [discriminate|].
    destruct (omapM (child_at_key kb cb) ka) as [cb'|]; [|discriminate].
    eapply Hkids in H. exact H.
  - destruct (negb (is_dict_kind (nkind nb))); [discriminate|].
    destruct (node_keys na) as [ka|]; [|discriminate]. destruct (node_keys nb) as [kb|]; [|discriminate].
    destruct (negb (keys_same_set ka kb)); [discriminate|].
    destruct (omapM (child_at_key kb cb) ka) as [cb'|]; [|discriminate].
    eapply Hkids in H. exact H.
  - repeat match type of H with (if ?c then _ else _) = _ => destruct c; [discriminate|] end.
    eapply Hkids in H. exact H.
  - repeat match type of H with (if ?c then _ else _) = _ => destruct c; [discriminate|] end.
    eapply Hkids in H. exact H.
Qed.

(* mismatching none_is_leaf or incompatible namespaces: ValueError *)
Theorem broadcast_option_errors a b :
  (ss_nil a <> ss_nil b \/ ns_compatible (ss_ns a) (ss_ns b) = false) ->
  ss_broadcast a b = Err ValueError.
Proof.
  unfold ss_broadcast. intros [H|H].
  - destruct (Bool.eqb (ss_nil a) (ss_nil b)) eqn:E; [apply Bool.eqb_prop in E; contradiction | reflexivity].
  - destruct (negb (Bool.eqb _ _)); [reflexivity|]. rewrite H. reflexivity.
Qed.

(* the namespace of the result: the other operand's if it has one, else this operand's *)
Theorem broadcast_namespace a b j :
  ss_broadcast a b = Ok j -> ss_nil j = ss_nil a /\ ss_ns j = ns_merge (ss_ns a) (ss_ns b).
Proof.
  unfold ss_broadcast.
  destruct (negb (Bool.eqb _ _)); [discriminate|]. destruct (negb (ns_compatible _ _)); [discriminate|].
  destruct (st_join _ _); simpl; [|discriminate]. intros [= <-]. split; reflexivity.
Qed.
