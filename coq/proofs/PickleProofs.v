(* PickleProofs.v — pickling a treespec preserves it exactly (property C11). *)
From OptreeModel Require Import Base Tree Flatten Unflatten Pickle.
From OptreeProofs Require Import BaseProofs RoundTrip ValidateProofs.

(* what from_pnode needs of a node to give it back *)
Definition node_ok (regs : list reg) (ns : Z) (n : node) : Prop :=
  (match nkind n with KdDict | KdDDict => norig n <> None | _ => norig n = None end) /\
  (match nkind n with KdLeaf | KdNone | KdTuple | KdList => ndat n = DNone | _ => True end) /\
  (match nkind n with
   | KdCustom => exists r, ncustom n = Some r /\ lookup_in regs ns (rcls r) = Some r
   | _ => ncustom n = None /\ nentries n = None
   end).

Lemma from_to_pnode regs ns n : node_ok regs ns n -> from_pnode regs ns (to_pnode n) = Ok n.
Proof.
  intros (Ho & Hd & Hc). unfold from_pnode, to_pnode. destruct n as [k ar d e cu nl nn og]. simpl in *.
  destruct k; simpl in *;
    try (destruct Hc as [-> ->]); try (destruct Hc as (r & -> & Hl));
    try subst og; try subst d; simpl;
    try (destruct og; [|congruence]); simpl; try reflexivity.
  rewrite Hl. reflexivity.
Qed.

Theorem pickle_roundtrip regs s :
  Forall (node_ok regs (sns s)) (trav s) -> sanity s = true -> validate (snil s) (trav s) = true ->
  from_pickle regs (to_pickle s) = Ok s.
Proof.
  intros Hok.
  assert (Hm : mapM (from_pnode regs (sns s)) (map to_pnode (trav s)) = Ok (trav s)).
  { induction Hok as [|n l Hn Hl IH]; [reflexivity|]. simpl. rewrite (from_to_pnode _ _ _ Hn), IH. reflexivity. }
  intros Hs Hv. unfold from_pickle, to_pickle.
  rewrite Hm. simpl. destruct s as [t nl nsp]. simpl in *. rewrite Hs, Hv. reflexivity.
Qed.

(* a custom type that is not registered in the recorded namespace (nor globally): loading raises *)
Theorem unpickle_missing_registration regs s :
  (exists n cls, In n (trav s) /\ nkind n = KdCustom /\
                 (exists r, ncustom n = Some r /\ rcls r = cls) /\ lookup_in regs (sns s) cls = None) ->
  exists e, from_pickle regs (to_pickle s) = Err e.
Proof.
  intros (n & cls & Hin & Hk & (r & Hr & Hcls) & Hl). unfold from_pickle, to_pickle.
  assert (Hm : exists e, mapM (from_pnode regs (sns s)) (map to_pnode (trav s)) = Err e).
  { induction (trav s) as [|x l IH]; [contradiction|]. simpl.
    destruct (from_pnode regs (sns s) (to_pnode x)) eqn:E; simpl; [|eauto].
    destruct Hin as [->|Hin].
    - exfalso. unfold from_pnode, to_pnode in E. rewrite Hk, Hr in E. simpl in E.
      destruct (norig n); simpl in E; try discriminate.
      rewrite Hcls, Hl in E. discriminate.
    - destruct (IH Hin) as (e & ->). simpl. eauto. }
  destruct Hm as (e & ->). simpl. eauto.
Qed.

(* ---------- every treespec produced by flatten satisfies the conditions ---------- *)
Definition has_custom (ns : list node) : bool :=
  existsb (fun n => kind_eqb (nkind n) KdCustom) ns.

Definition flat_ok (c : cfg) (r : fres) : Prop :=
  Forall (node_ok (c_reg c) (c_ns c)) (r_ns r) /\ (snd r = false -> has_custom (r_ns r) = false).

Lemma lookup_in_reg c cls : lookup_in (c_reg c) (c_ns c) cls = lookup_reg c cls.
Proof. reflexivity. Qed.

Lemma leaf_node_ok regs ns : node_ok regs ns leaf_node.
Proof. repeat split. Qed.

Lemma has_custom_app a b : has_custom (a ++ b) = has_custom a || has_custom b.
Proof. unfold has_custom. apply existsb_app. Qed.

Lemma flat_seq_ok c (f : obj -> res fres) ch :
  (forall x r, In x ch -> f x = Ok r -> flat_ok c r) ->
  forall r, flat_seq f ch = Ok r -> flat_ok c r.
Proof.
  induction ch as [|x ch IH]; intros Hf r Hr; simpl in Hr.
  - injection Hr as <-. split; [constructor | reflexivity].
  - destruct (f x) as [[[ls1 ns1] b1]|] eqn:E1; simpl in Hr; [|discriminate].
    destruct (flat_seq f ch) as [[[ls2 ns2] b2]|] eqn:E2; simpl in Hr; [|discriminate].
    injection Hr as <-.
    destruct (Hf x _ (or_introl eq_refl) E1) as (H1 & H1').
    destruct (IH (fun y r H => Hf y r (or_intror H)) _ eq_refl) as (H2 & H2').
    unfold flat_ok, r_ns in *. simpl in *. split; [apply Forall_app; auto|].
    intros Hb. apply orb_false_iff in Hb as [Hb1 Hb2]. rewrite has_custom_app, H1', H2'; auto.
Qed.

Lemma mk_node_ok c k ar d e cu og r b' :
  flat_ok c r ->
  node_ok (c_reg c) (c_ns c) {| nkind := k; narity := ar; ndat := d; nentries := e; ncustom := cu;
                               nleaves := length (r_ls r); nnodes := S (length (r_ns r)); norig := og |} ->
  (b' = false -> kind_eqb k KdCustom = false /\ snd r = false) ->
  flat_ok c (mk_node k ar d e cu og (r_ls r, r_ns r, b')).
Proof.
  intros (H1 & H2) Hn Hb. rewrite mk_node_eq. unfold flat_ok, r_ns, r_ls in *. simpl in *. split.
  - apply Forall_app. split; [exact H1 | constructor; [exact Hn | constructor]].
  - intros ->. destruct (Hb eq_refl) as [Hk Hr]. rewrite has_custom_app, (H2 Hr). simpl. rewrite Hk. reflexivity.
Qed.

Theorem flat_nodes_ok c fuel : forall o r, flat c fuel o = Ok r -> flat_ok c r.
Proof.
  induction fuel as [|fuel IH]; intros o r Hr; [discriminate|].
  simpl in Hr.
  assert (Hleaf : forall x b, flat_ok c ([x], [leaf_node], b)).
  { intros x b. split; [constructor; [apply leaf_node_ok | constructor] | reflexivity]. }
  destruct (apply_pred c o); [injection Hr as <-; apply Hleaf|].
  destruct (get_kind c o) as [k cu] eqn:Ek.
  destruct o as [id|h cs]; [injection Hr as <-; apply Hleaf|].
  assert (IH' : forall ch r0, flat_seq (flat c fuel) ch = Ok r0 -> flat_ok c r0).
  { intros ch r0. apply flat_seq_ok. intros x r1 _. apply IH. }
  destruct k.
  - (* custom *)
    destruct h; try discriminate. simpl in Ek.
    destruct (lookup_reg c cls) as [rg|] eqn:El; [|discriminate]. injection Ek as <-.
    assert (Hc : exists r1, Some rg = Some r1 /\ lookup_in (c_reg c) (c_ns c) (rcls r1) = Some r1).
    { exists rg. split; [reflexivity|]. rewrite lookup_in_reg, (lookup_reg_cls _ _ _ El). exact El. }
    destruct eb; try discriminate;
      (destruct (flat_seq (flat c fuel) cs) as [[[ls ns] b]|] eqn:E; simpl in Hr; [|discriminate]).
    + injection Hr as <-. apply (mk_node_ok c KdCustom _ _ _ _ _ (ls, ns, b) true (IH' _ _ E)); [|discriminate].
      repeat split; auto.
    + injection Hr as <-. apply (mk_node_ok c KdCustom _ _ _ _ _ (ls, ns, b) true (IH' _ _ E)); [|discriminate].
      repeat split; auto.
    + destruct (Nat.eqb (length es) (length cs)); [|discriminate]. injection Hr as <-.
      apply (mk_node_ok c KdCustom _ _ _ _ _ (ls, ns, b) true (IH' _ _ E)); [|discriminate].
      repeat split; auto.
  - injection Hr as <-; apply Hleaf.
  - injection Hr as <-. split; [constructor; [repeat split | constructor] | reflexivity].
  - destruct (flat_seq (flat c fuel) cs) as [[[ls ns] b]|] eqn:E; simpl in Hr; [|discriminate].
    injection Hr as <-. apply (mk_node_ok c KdTuple _ _ _ _ _ (ls, ns, b) b (IH' _ _ E)); [repeat split | auto].
  - destruct (flat_seq (flat c fuel) cs) as [[[ls ns] b]|] eqn:E; simpl in Hr; [|discriminate].
    injection Hr as <-. apply (mk_node_ok c KdList _ _ _ _ _ (ls, ns, b) b (IH' _ _ E)); [repeat split | auto].
  - destruct (hdr_keys h) as [ks|]; [|discriminate].
    destruct (mapM (child_by_key ks cs) _) as [ch|]; simpl in Hr; [|discriminate].
    destruct (flat_seq (flat c fuel) ch) as [[[ls ns] b]|] eqn:E; simpl in Hr; [|discriminate].
    injection Hr as <-. apply (mk_node_ok c KdDict _ _ _ _ _ (ls, ns, b) b (IH' _ _ E)); [|auto].
    repeat split; simpl; auto; discriminate.
  - destruct (flat_seq (flat c fuel) cs) as [[[ls ns] b]|] eqn:E; simpl in Hr; [|discriminate].
    injection Hr as <-. apply (mk_node_ok c KdNamed _ _ _ _ _ (ls, ns, b) b (IH' _ _ E)); [repeat split | auto].
  - destruct (hdr_keys h) as [ks|]; [|discriminate].
    destruct (mapM (child_by_key ks cs) _) as [ch|]; simpl in Hr; [|discriminate].
    destruct (flat_seq (flat c fuel) ch) as [[[ls ns] b]|] eqn:E; simpl in Hr; [|discriminate].
    injection Hr as <-. apply (mk_node_ok c KdODict _ _ _ _ _ (ls, ns, b) b (IH' _ _ E)); [|auto].
    repeat split; simpl; auto.
  - destruct (hdr_keys h) as [ks|]; [|discriminate].
    destruct (mapM (child_by_key ks cs) _) as [ch|]; simpl in Hr; [|discriminate].
    destruct (flat_seq (flat c fuel) ch) as [[[ls ns] b]|] eqn:E; simpl in Hr; [|discriminate].
    injection Hr as <-. apply (mk_node_ok c KdDDict _ _ _ _ _ (ls, ns, b) b (IH' _ _ E)); [|auto].
    repeat split; simpl; auto; discriminate.
  - destruct (flat_seq (flat c fuel) cs) as [[[ls ns] b]|] eqn:E; simpl in Hr; [|discriminate].
    injection Hr as <-. apply (mk_node_ok c KdDeque _ _ _ _ _ (ls, ns, b) b (IH' _ _ E)); [repeat split | auto].
  - destruct (flat_seq (flat c fuel) cs) as [[[ls ns] b]|] eqn:E; simpl in Hr; [|discriminate].
    injection Hr as <-. apply (mk_node_ok c KdStruct _ _ _ _ _ (ls, ns, b) b (IH' _ _ E)); [repeat split | auto].
Qed.

Lemma node_ok_no_custom regs ns ns' n :
  kind_eqb (nkind n) KdCustom = false -> node_ok regs ns n -> node_ok regs ns' n.
Proof.
  intros Hk (H1 & H2 & H3). repeat split; auto. destruct (nkind n); auto. discriminate.
Qed.

(* pickling then unpickling, with the registry unchanged, gives back the identical treespec: every
   field of every node (kind, arity, node data, path entries, registration, counters, original keys),
   none_is_leaf and namespace *)
Theorem flatten_pickle_roundtrip c o ls sp :
  wf_obj o = true -> flatten c o = Ok (ls, sp) -> from_pickle (c_reg c) (to_pickle sp) = Ok sp.
Proof.
  intros Hwf H. pose proof (flatten_validates c o ls sp Hwf H) as Hval. revert H.
  unfold flatten. intros H.
  destruct (flat c (S (c_limit c)) o) as [[[ls' ns] b]|] eqn:E; [|discriminate].
  cbn [bind] in H. injection H as <- <-. cbn [snil trav] in Hval.
  destruct (flat_nodes_ok _ _ _ _ E) as (Hok & Hnc).
  destruct (flat_sanity _ _ _ _ E) as [Hne Hlast].
  unfold r_ns in Hok, Hnc, Hne, Hlast. cbn [fst snd] in Hok, Hnc, Hne, Hlast.
  apply pickle_roundtrip; cbn [trav sns snil]; [| |exact Hval].
  - unfold spec_ns. destruct b; cbn [orb]; [exact Hok|].
    destruct (ins_ordered_here c); [exact Hok|].
    specialize (Hnc eq_refl). unfold has_custom in Hnc.
    apply Forall_forall. intros n Hn. rewrite Forall_forall in Hok.
    apply (node_ok_no_custom _ (c_ns c)); [|apply Hok; exact Hn].
    destruct (kind_eqb (nkind n) KdCustom) eqn:Ek; [|reflexivity].
    assert (existsb (fun n => kind_eqb (nkind n) KdCustom) ns = true) by (apply existsb_exists; eauto). congruence.
  - unfold sanity. cbn [trav]. destruct ns; [congruence|]. rewrite Hlast. apply Nat.eqb_refl.
Qed.
