(* JoinFold.v — broadcasting more than two treespecs (property C09): the join preserves the side
   conditions, the left fold of joins is an upper bound of every operand, and joining it with any
   operand once more changes nothing up to the dict-kind / key-order equivalence — which is why the
   second pass of the n-ary Python broadcast (ops.py _tree_broadcast_common) suffices. *)
From OptreeModel Require Import Base Tree Flatten Unflatten Spec.
From OptreeProofs Require Import BaseProofs RoundTrip SpecProofs InspectProofs EqProofs OrderProofs PrefixOrder JoinOrder JoinLeast PrefixAntisym.

Lemma join_list_good : forall ca cb' r,
  Forall (fun a => forall b j, good a = true -> good b = true -> st_join a b = Ok j -> good j = true) ca ->
  forallb good ca = true -> forallb good cb' = true ->
  join_list ca cb' = Ok r -> forallb good r = true /\ length r = length ca.
Proof.
  induction ca as [|x ca IH]; intros [|y cb'] r HF Ga Gb Hj; simpl in Hj; try discriminate.
  - injection Hj as <-. split; reflexivity.
  - destruct (join_list ca cb') as [rest|] eqn:Er; simpl in Hj; [|discriminate].
    destruct (st_join x y) as [rx|] eqn:Ex; simpl in Hj; [|discriminate]. injection Hj as <-.
    inversion HF as [|? ? Hx HFca]; subst. simpl in Ga, Gb.
    apply andb_true_iff in Ga as [Gx Gca]. apply andb_true_iff in Gb as [Gy Gcb].
    destruct (IH cb' rest HFca Gca Gcb Er) as [Gr Lr]. split.
    + simpl. rewrite (Hx y rx Gx Gy Ex), Gr. reflexivity.
    + simpl. rewrite Lr. reflexivity.
Qed.

Lemma good_mkT na ca r :
  good (T na ca) = true -> is_leaf_node na = false -> nkind na <> KdNone ->
  forallb good r = true -> length r = length ca -> good (mkT na r) = true.
Proof.
  intros G La Nn Gr Lr. destruct (good_node na ca G) as (Ar & Dn & Cn & _ & Hk & Ha).
  unfold good in *. apply andb_true_iff in G as [G Gc]. apply andb_true_iff in G as [Gk Ga].
  assert (Hr : forall x, In x r -> keys_ok x = true /\ arity_ok x = true /\ custom_ok x = true).
  { intros x Hx. pose proof (forallb_In _ _ _ Gr Hx) as Gx.
    apply andb_true_iff in Gx as [Gx G3]. apply andb_true_iff in Gx as [G1 G2]. auto. }
  unfold mkT. apply andb_true_iff. split; [apply andb_true_iff; split|].
  - (* keys *)
    cbn [keys_ok]. unfold recount at 1 2. cbn [nkind]. unfold node_keys, recount. cbn [ndat].
    apply andb_true_iff. split; [|apply forallb_forall; intros x Hx; apply (Hr x Hx)].
    destruct (is_dict_kind (nkind na)) eqn:D; [|reflexivity].
    destruct (Dn eq_refl) as (ks & Hks & Hl & Hn). unfold node_keys in Hks. rewrite Hks.
    rewrite Lr, <- Hl, Nat.eqb_refl. apply keys_nodup_NoDup in Hn. rewrite Hn. reflexivity.
  - cbn [arity_ok]. unfold recount. cbn [narity]. rewrite Nat.eqb_refl. cbn [andb].
    apply forallb_forall. intros x Hx. apply (Hr x Hx).
  - simpl in Gc. apply andb_true_iff in Gc as [Gc _].
    cbn [custom_ok]. unfold recount at 1 2. cbn [nkind ncustom].
    apply andb_true_iff. split; [|apply forallb_forall; intros x Hx; apply (Hr x Hx)].
    destruct (nkind na); try exact Gc. congruence.
Qed.

Theorem join_good : forall a b j, good a = true -> good b = true -> st_join a b = Ok j -> good j = true.
Proof.
  induction a as [na ca IH] using stree_ind'. intros [nb cb] j Ga Gb Hj.
  rewrite st_join_unfold in Hj.
  destruct (is_leaf_node na) eqn:La; [injection Hj as <-; exact Gb|].
  destruct (is_leaf_node nb) eqn:Lb; [injection Hj as <-; exact Ga|].
  pose proof (good_children na ca Ga) as Gca. pose proof (good_children nb cb Gb) as Gcb.
  assert (Hkids : forall cb', forallb good cb' = true -> nkind na <> KdNone ->
            join_kids na ca cb' = Ok j -> good j = true).
  { intros cb' Gcb' Nn H. unfold join_kids in H.
    destruct (join_list ca cb') as [r|] eqn:Er; simpl in H; [|discriminate]. injection H as <-.
    destruct (join_list_good ca cb' r IH Gca Gcb' Er) as [Gr Lr].
    apply (good_mkT na ca r Ga La Nn Gr Lr). }
  destruct (nkind na) eqn:Ek.
  - repeat match type of Hj with (if ?c then _ else _) = _ => destruct c; [discriminate|] end.
    apply (Hkids cb Gcb); [discriminate | exact Hj].
  - discriminate Hj.
  - destruct (kind_eqb (nkind nb) KdNone); [injection Hj as <-; exact Ga | discriminate].
  - repeat match type of Hj with (if ?c then _ else _) = _ => destruct c; [discriminate|] end.
    apply (Hkids cb Gcb); [discriminate | exact Hj].
  - repeat match type of Hj with (if ?c then _ else _) = _ => destruct c; [discriminate|] end.
    apply (Hkids cb Gcb); [discriminate | exact Hj].
  - destruct (negb (is_dict_kind (nkind nb))); [discriminate|].
    destruct (node_keys na) as [ka|]; [|discriminate]. destruct (node_keys nb) as [kb|]; [|discriminate].
    destruct (negb (keys_same_set ka kb)); [discriminate|].
    destruct (omapM (child_at_key kb cb) ka) as [cb'|] eqn:Eo; [|discriminate].
    apply (Hkids cb'); [apply (forallb_good_sub cb cb' Gcb (omapM_child_in kb cb ka cb' Eo)) | discriminate | exact Hj].
  - repeat match type of Hj with (if ?c then _ else _) = _ => destruct c; [discriminate|] end.
    apply (Hkids cb Gcb); [discriminate | exact Hj].
  - destruct (negb (is_dict_kind (nkind nb))); [discriminate|].
    destruct (node_keys na) as [ka|]; [|discriminate]. destruct (node_keys nb) as [kb|]; [|discriminate].
    destruct (negb (keys_same_set ka kb)); [discriminate|].
    destruct (omapM (child_at_key kb cb) ka) as [cb'|] eqn:Eo; [|discriminate].
    apply (Hkids cb'); [apply (forallb_good_sub cb cb' Gcb (omapM_child_in kb cb ka cb' Eo)) | discriminate | exact Hj].
  - destruct (negb (is_dict_kind (nkind nb))); [discriminate|].
    destruct (node_keys na) as [ka|]; [|discriminate]. destruct (node_keys nb) as [kb|]; [|discriminate].
    destruct (negb (keys_same_set ka kb)); [discriminate|].
    destruct (omapM (child_at_key kb cb) ka) as [cb'|] eqn:Eo; [|discriminate].
    apply (Hkids cb'); [apply (forallb_good_sub cb cb' Gcb (omapM_child_in kb cb ka cb' Eo)) | discriminate | exact Hj].
  - repeat match type of Hj with (if ?c then _ else _) = _ => destruct c; [discriminate|] end.
    apply (Hkids cb Gcb); [discriminate | exact Hj].
  - repeat match type of Hj with (if ?c then _ else _) = _ => destruct c; [discriminate|] end.
    apply (Hkids cb Gcb); [discriminate | exact Hj].
Qed.

(* ---------- more than two operands ---------- *)
Definition join_fold (s0 : stree) (l : list stree) : res stree :=
  fold_left (fun acc s => do a <- acc ;; st_join a s) l (Ok s0).

Lemma join_fold_err l e : fold_left (fun acc s => do a <- acc ;; st_join a s) l (Err e) = Err e.
Proof. induction l; simpl; auto. Qed.

(* the fold of joins is good and an upper bound of every operand *)
Theorem join_fold_upper_bound : forall l s0 J,
  good s0 = true -> forallb good l = true -> join_fold s0 l = Ok J ->
  good J = true /\ P s0 J /\ Forall (fun s => P s J) l.
Proof.
  unfold join_fold. induction l as [|s l IH]; intros s0 J G0 Gl H; simpl in H.
  - injection H as <-. split; [exact G0 | split; [apply P_refl; exact G0 | constructor]].
  - simpl in Gl. apply andb_true_iff in Gl as [Gs Gl].
    destruct (st_join s0 s) as [j|] eqn:Ej; [|rewrite join_fold_err in H; discriminate].
    pose proof (join_good s0 s j G0 Gs Ej) as Gj.
    destruct (join_upper_bound s0 s j G0 Gs Ej) as [P0 Ps].
    destruct (IH j J Gj Gl H) as (GJ & PjJ & Frest).
    split; [exact GJ | split; [exact (prefix_trans s0 j J P0 PjJ)|]].
    constructor; [exact (prefix_trans s j J Ps PjJ) | exact Frest].
Qed.

(* joining the result with an operand once more gives an equivalent treespec: the second pass of the
   n-ary broadcast reaches a fixed point *)
Theorem join_absorbs_up_to_equiv J s :
  good J = true -> good s = true -> P s J ->
  exists j, st_join J s = Ok j /\ E J j /\ E j J.
Proof.
  intros GJ Gs Hs.
  destruct (join_least J s J GJ Gs (P_refl J GJ) Hs) as (j & Hj & PjJ).
  destruct (join_upper_bound J s j GJ Gs Hj) as [PJj _].
  pose proof (join_good J s j GJ Gs Hj) as Gj.
  exists j. split; [exact Hj|]. exact (prefix_antisym J j GJ Gj PJj PjJ).
Qed.

Theorem second_pass_is_a_fixed_point l s0 J :
  good s0 = true -> forallb good l = true -> join_fold s0 l = Ok J ->
  Forall (fun s => exists j, st_join J s = Ok j /\ E J j /\ E j J) (s0 :: l).
Proof.
  intros G0 Gl H. destruct (join_fold_upper_bound l s0 J G0 Gl H) as (GJ & P0 & Frest).
  constructor; [apply join_absorbs_up_to_equiv; assumption|].
  apply Forall_forall. intros s Hs. rewrite Forall_forall in Frest.
  apply join_absorbs_up_to_equiv; [exact GJ | exact (forallb_In _ _ _ Gl Hs) | exact (Frest s Hs)].
Qed.

(* if the operands have any common upper bound the fold succeeds, whatever the order *)
Theorem join_fold_exists : forall l s0 u,
  good s0 = true -> forallb good l = true -> P s0 u -> Forall (fun s => P s u) l ->
  exists J, join_fold s0 l = Ok J /\ P J u.
Proof.
  unfold join_fold. induction l as [|s l IH]; intros s0 u G0 Gl P0 Pl; simpl.
  - exists s0. auto.
  - simpl in Gl. apply andb_true_iff in Gl as [Gs Gl]. inversion Pl as [|? ? Ps Prest]; subst.
    destruct (join_least s0 s u G0 Gs P0 Ps) as (j & Hj & Pj). rewrite Hj.
    apply (IH j u (join_good s0 s j G0 Gs Hj) Gl Pj Prest).
Qed.

(* ---------- the lattice laws, up to the dict-kind / key-order equivalence ---------- *)
(* independent of the argument order *)
Theorem join_comm_equiv a b j :
  good a = true -> good b = true -> st_join a b = Ok j ->
  exists j', st_join b a = Ok j' /\ E j j' /\ E j' j.
Proof.
  intros Ga Gb Hj.
  destruct (join_upper_bound a b j Ga Gb Hj) as [Pa Pb].
  destruct (join_least b a j Gb Ga Pb Pa) as (j' & Hj' & Pj'j).
  destruct (join_upper_bound b a j' Gb Ga Hj') as [Pb' Pa'].
  destruct (join_least a b j' Ga Gb Pa' Pb') as (j0 & Hj0 & Pjj'). rewrite Hj in Hj0. injection Hj0 as <-.
  exists j'. split; [exact Hj'|].
  exact (prefix_antisym j j' (join_good a b j Ga Gb Hj) (join_good b a j' Gb Ga Hj') Pjj' Pj'j).
Qed.

(* idempotent *)
Theorem join_idem_equiv a : good a = true -> exists j, st_join a a = Ok j /\ E a j /\ E j a.
Proof. intros Ga. exact (join_absorbs_up_to_equiv a a Ga Ga (P_refl a Ga)). Qed.

(* equal (up to the equivalence) to the other operand when one is already a prefix of it *)
Theorem join_prefix_equiv a b :
  good a = true -> good b = true -> P a b -> exists j, st_join a b = Ok j /\ E b j /\ E j b.
Proof.
  intros Ga Gb Pab.
  destruct (join_least a b b Ga Gb Pab (P_refl b Gb)) as (j & Hj & Pjb).
  destruct (join_upper_bound a b j Ga Gb Hj) as [_ Pbj].
  exists j. split; [exact Hj|]. exact (prefix_antisym b j Gb (join_good a b j Ga Gb Hj) Pbj Pjb).
Qed.
