(* TraversalProofs.v — the three traversals agree (property C03):
   flatten-with-path returns what flatten returns, plus paths that are the treespec's own paths;
   draining the leaf iterator yields flatten's leaves. *)
From OptreeModel Require Import Base Tree Flatten Unflatten Spec.
From OptreeProofs Require Import BaseProofs RoundTrip SpecProofs.
From Coq Require Import Permutation.

(* ================= the iterator ================= *)

Lemma iter_drain_leaf c steps o fuel ag :
  (apply_pred c o = true \/ fst (get_kind c o) = KdLeaf) ->
  iter_drain c (S steps) ((o, S fuel) :: ag) = (do rest <- iter_drain c steps ag ;; Ok (o :: rest)).
Proof.
  intros H. simpl. unfold iter_expand.
  destruct (apply_pred c o) eqn:Ep; [reflexivity|].
  destruct H as [H|H]; [discriminate|].
  destruct (get_kind c o) as [k cu]. simpl in H. subst k.
  destruct o; reflexivity.
Qed.

(* pushing children: the agenda processes them in order, then continues *)
Definition drain_ok c (o : obj) (fuel : nat) (ls : list obj) (n : nat) : Prop :=
  forall steps ag,
    iter_drain c (n + steps) ((o, fuel) :: ag) = (do rest <- iter_drain c steps ag ;; Ok (ls ++ rest)).

Lemma drain_children c fuel (f : obj -> res fres) ch :
  (forall x r, In x ch -> f x = Ok r -> drain_ok c x fuel (r_ls r) (length (r_ns r))) ->
  forall r, flat_seq f ch = Ok r ->
  forall steps ag,
    iter_drain c (length (r_ns r) + steps) (push_children ch fuel ag) =
    (do rest <- iter_drain c steps ag ;; Ok (r_ls r ++ rest)).
Proof.
  induction ch as [|x ch IH]; intros Hf r Hr steps ag; simpl in Hr.
  - injection Hr as <-. simpl. unfold push_children. simpl.
    destruct (iter_drain c steps ag); reflexivity.
  - destruct (f x) as [[[ls1 ns1] b1]|] eqn:E1; simpl in Hr; [|discriminate].
    destruct (flat_seq f ch) as [[[ls2 ns2] b2]|] eqn:E2; simpl in Hr; [|discriminate].
    injection Hr as <-. unfold r_ns, r_ls. simpl.
    unfold push_children. simpl. rewrite app_length, <- Nat.add_assoc.
    pose proof (Hf x _ (or_introl eq_refl) E1) as Hx. unfold drain_ok, r_ns, r_ls in Hx. simpl in Hx.
    rewrite Hx.
    pose proof (IH (fun y r H => Hf y r (or_intror H)) _ eq_refl steps ag) as Hrest.
    unfold r_ns, r_ls, push_children in Hrest. simpl in Hrest. rewrite Hrest.
    destruct (iter_drain c steps ag); simpl; [rewrite app_assoc; reflexivity | reflexivity].
Qed.

(* one expansion step of an internal node *)
Lemma iter_drain_node c steps o fuel ag ch :
  apply_pred c o = false ->
  iter_expand c o fuel ag = Ok (None, push_children ch fuel ag) ->
  iter_drain c (S steps) ((o, S fuel) :: ag) = iter_drain c steps (push_children ch fuel ag).
Proof. intros Hp He. simpl. rewrite He. reflexivity. Qed.

Theorem flat_drain c fuel : forall o r,
  flat c fuel o = Ok r -> drain_ok c o fuel (r_ls r) (length (r_ns r)).
Proof.
  induction fuel as [|fuel IH]; intros o r Hr; [discriminate|].
  simpl in Hr. intros steps ag.
  destruct (apply_pred c o) eqn:Ep.
  { injection Hr as <-. apply iter_drain_leaf. left. exact Ep. }
  destruct (get_kind c o) as [k cu] eqn:Ek.
  destruct o as [id|h cs].
  { injection Hr as <-. apply iter_drain_leaf. right. reflexivity. }
  assert (IH' : forall ch x r, In x ch -> flat c fuel x = Ok r ->
                               drain_ok c x fuel (r_ls r) (length (r_ns r))) by (intros; eauto).
  (* common tail: after the children, one more node was emitted *)
  assert (Hnode : forall ch r0 k0 ar d e cu0 og b',
             flat_seq (flat c fuel) ch = Ok r0 ->
             iter_expand c (Node h cs) fuel ag = Ok (None, push_children ch fuel ag) ->
             let r1 := mk_node k0 ar d e cu0 og (r_ls r0, r_ns r0, b') in
             iter_drain c (length (r_ns r1) + steps) ((Node h cs, S fuel) :: ag) =
             (do rest <- iter_drain c steps ag ;; Ok (r_ls r1 ++ rest))).
  { intros ch r0 k0 ar d e cu0 og b' Hs He r1. subst r1. rewrite mk_node_eq. unfold r_ns, r_ls. simpl.
    rewrite app_length. simpl. rewrite Nat.add_1_r. simpl plus.
    rewrite (iter_drain_node c _ _ _ _ ch Ep He).
    apply (drain_children c fuel (flat c fuel) ch (IH' ch) r0 Hs). }
  unfold iter_expand in Hnode. rewrite Ep, Ek in Hnode.
  destruct k.
  - (* custom *)
    destruct h; try discriminate. destruct eb; try discriminate;
      (destruct (flat_seq (flat c fuel) cs) as [[[ls ns] b]|] eqn:E; simpl in Hr; [|discriminate]).
    + injection Hr as <-. apply (Hnode cs (ls, ns, b) KdCustom _ _ _ _ _ true E). reflexivity.
    + injection Hr as <-. apply (Hnode cs (ls, ns, b) KdCustom _ _ _ _ _ true E). reflexivity.
    + destruct (Nat.eqb (length es) (length cs)) eqn:El; [|discriminate]. injection Hr as <-.
      apply (Hnode cs (ls, ns, b) KdCustom _ _ _ _ _ true E). reflexivity.
  - injection Hr as <-. apply iter_drain_leaf. right. rewrite Ek. reflexivity.
  - (* None *)
    injection Hr as <-. simpl. unfold iter_expand. rewrite Ep, Ek. simpl.
    destruct (iter_drain c steps ag); reflexivity.
  - destruct (flat_seq (flat c fuel) cs) as [[[ls ns] b]|] eqn:E; simpl in Hr; [|discriminate].
    injection Hr as <-. apply (Hnode cs (ls, ns, b) KdTuple _ _ _ _ _ b E). reflexivity.
  - destruct (flat_seq (flat c fuel) cs) as [[[ls ns] b]|] eqn:E; simpl in Hr; [|discriminate].
    injection Hr as <-. apply (Hnode cs (ls, ns, b) KdList _ _ _ _ _ b E). reflexivity.
  - destruct (hdr_keys h) as [ks|]; [|discriminate].
    destruct (mapM (child_by_key ks cs) _) as [ch|] eqn:Em; simpl in Hr; [|discriminate].
    destruct (flat_seq (flat c fuel) ch) as [[[ls ns] b]|] eqn:E; simpl in Hr; [|discriminate].
    injection Hr as <-. apply (Hnode ch (ls, ns, b) KdDict _ _ _ _ _ b E). reflexivity.
  - destruct (flat_seq (flat c fuel) cs) as [[[ls ns] b]|] eqn:E; simpl in Hr; [|discriminate].
    injection Hr as <-. apply (Hnode cs (ls, ns, b) KdNamed _ _ _ _ _ b E). reflexivity.
  - destruct (hdr_keys h) as [ks|]; [|discriminate].
    destruct (mapM (child_by_key ks cs) _) as [ch|] eqn:Em; simpl in Hr; [|discriminate].
    destruct (flat_seq (flat c fuel) ch) as [[[ls ns] b]|] eqn:E; simpl in Hr; [|discriminate].
    injection Hr as <-. apply (Hnode ch (ls, ns, b) KdODict _ _ _ _ _ b E). reflexivity.
  - destruct (hdr_keys h) as [ks|]; [|discriminate].
    destruct (mapM (child_by_key ks cs) _) as [ch|] eqn:Em; simpl in Hr; [|discriminate].
    destruct (flat_seq (flat c fuel) ch) as [[[ls ns] b]|] eqn:E; simpl in Hr; [|discriminate].
    injection Hr as <-. apply (Hnode ch (ls, ns, b) KdDDict _ _ _ _ _ b E). reflexivity.
  - destruct (flat_seq (flat c fuel) cs) as [[[ls ns] b]|] eqn:E; simpl in Hr; [|discriminate].
    injection Hr as <-. apply (Hnode cs (ls, ns, b) KdDeque _ _ _ _ _ b E). reflexivity.
  - destruct (flat_seq (flat c fuel) cs) as [[[ls ns] b]|] eqn:E; simpl in Hr; [|discriminate].
    injection Hr as <-. apply (Hnode cs (ls, ns, b) KdStruct _ _ _ _ _ b E). reflexivity.
Qed.

(* with enough steps, draining a tree's iterator yields exactly flatten's leaves *)
Theorem iter_agrees_steps c o ls sp :
  flatten c o = Ok (ls, sp) ->
  iter_drain c (S (length (trav sp))) [(o, S (c_limit c))] = Ok ls.
Proof.
  unfold flatten. intros H.
  destruct (flat c (S (c_limit c)) o) as [[[ls' ns] b]|] eqn:E; [|discriminate].
  cbn [bind] in H. injection H as <- <-. cbn [trav].
  pose proof (flat_drain c _ o _ E 1%nat []) as Hd. unfold r_ns, r_ls in Hd. cbn [fst snd] in Hd.
  rewrite Nat.add_1_r in Hd. rewrite Hd. simpl. rewrite app_nil_r. reflexivity.
Qed.

(* ================= flatten with path ================= *)
Definition pdrop (r : pres) : fres :=
  let '(ps, ls, ns, b) := r in (ls, ns, b).
Definition p_ps (r : pres) : list path := let '(ps, _, _, _) := r in ps.

Lemma pos_keys_length n s : length (pos_keys n s) = n.
Proof. revert s; induction n; intros; simpl; auto. Qed.

Lemma map_snd_combine_pos (cs : list obj) s : map snd (combine (pos_keys (length cs) s) cs) = cs.
Proof. apply map_snd_combine. apply pos_keys_length. Qed.

Lemma flatp_custom_combine f stk es cs :
  length es = length cs -> flatp_custom f stk es cs = flatp_seq f stk (combine es cs).
Proof.
  revert es; induction cs as [|x cs IH]; intros [|e es] H; simpl in *; try discriminate; try reflexivity.
  rewrite IH by congruence. reflexivity.
Qed.

Lemma flatp_seq_A (f : list key -> obj -> res pres) (g : obj -> res fres) stk l :
  (forall e x r, In (e, x) l -> f (e :: stk) x = Ok r -> g x = Ok (pdrop r)) ->
  forall R, flatp_seq f stk l = Ok R -> flat_seq g (map snd l) = Ok (pdrop R).
Proof.
  induction l as [|[e x] l IH]; intros Hf R HR; simpl in HR.
  - injection HR as <-. reflexivity.
  - destruct (f (e :: stk) x) as [[[[ps1 ls1] ns1] b1]|] eqn:E1; simpl in HR; [|discriminate].
    destruct (flatp_seq f stk l) as [[[[ps2 ls2] ns2] b2]|] eqn:E2; simpl in HR; [|discriminate].
    injection HR as <-. simpl.
    rewrite (Hf e x _ (or_introl eq_refl) E1). simpl.
    rewrite (IH (fun e' x' r H => Hf e' x' r (or_intror H)) _ eq_refl). reflexivity.
Qed.

Lemma flatp_seq_B (f : list key -> obj -> res pres) (g : obj -> res fres) stk l :
  (forall e x r, In (e, x) l -> g x = Ok r ->
                 exists ps, f (e :: stk) x = Ok (ps, r_ls r, r_ns r, snd r) /\ length ps = length (r_ls r)) ->
  forall r, flat_seq g (map snd l) = Ok r ->
  exists ps, flatp_seq f stk l = Ok (ps, r_ls r, r_ns r, snd r) /\ length ps = length (r_ls r).
Proof.
  induction l as [|[e x] l IH]; intros Hf r Hr; simpl in Hr.
  - injection Hr as <-. exists []. split; reflexivity.
  - destruct (g x) as [[[ls1 ns1] b1]|] eqn:E1; simpl in Hr; [|discriminate].
    destruct (flat_seq g (map snd l)) as [[[ls2 ns2] b2]|] eqn:E2; simpl in Hr; [|discriminate].
    injection Hr as <-.
    destruct (Hf e x _ (or_introl eq_refl) E1) as (ps1 & H1 & L1).
    destruct (IH (fun e' x' r H => Hf e' x' r (or_intror H)) _ eq_refl) as (ps2 & H2 & L2).
    unfold r_ls, r_ns in *. simpl in *. exists (ps1 ++ ps2). rewrite H1. simpl. rewrite H2. simpl.
    split; [reflexivity | rewrite !app_length; congruence].
Qed.

Lemma combine_map_snd {A B} (l : list (A * B)) : combine (map fst l) (map snd l) = l.
Proof. induction l as [|[a b] l IH]; simpl; congruence. Qed.

Ltac pnode_A Hseq E :=
  match goal with
  | Hr : Ok (mk_pnode _ _ _ _ _ _ ?R) = Ok _ |- _ =>
    destruct R as [[[ps ls] ns] b] eqn:ER; injection Hr as <-; simpl;
    rewrite (Hseq _ E); simpl; reflexivity
  end.

Theorem flat_path_flat c fuel : forall o stk r,
  flat_path c fuel stk o = Ok r -> flat c fuel o = Ok (pdrop r).
Proof.
  induction fuel as [|fuel IH]; intros o stk r Hr; [discriminate|].
  simpl in Hr. simpl.
  destruct (apply_pred c o); [injection Hr as <-; reflexivity|].
  destruct (get_kind c o) as [k cu].
  destruct o as [id|h cs]; [injection Hr as <-; reflexivity|].
  assert (HA : forall l R, flatp_seq (flat_path c fuel) stk l = Ok R ->
                           flat_seq (flat c fuel) (map snd l) = Ok (pdrop R)).
  { intros l R. apply flatp_seq_A. intros e x r0 _ H0. eapply IH; eauto. }
  destruct k.
  - destruct h; try discriminate. destruct eb; try discriminate.
    + destruct (flatp_seq _ _ _) as [[[[ps ls] ns] b]|] eqn:E; simpl in Hr; [|discriminate].
      injection Hr as <-. apply HA in E. rewrite map_snd_combine_pos in E. rewrite E. reflexivity.
    + destruct (flatp_seq _ _ _) as [[[[ps ls] ns] b]|] eqn:E; simpl in Hr; [|discriminate].
      injection Hr as <-. apply HA in E. rewrite map_snd_combine_pos in E. rewrite E. reflexivity.
    + destruct (flatp_custom _ _ _ _) as [[[[ps ls] ns] b]|] eqn:E; simpl in Hr; [|discriminate].
      destruct (Nat.eqb (length es) (length cs)) eqn:El; [|discriminate].
      injection Hr as <-. apply Nat.eqb_eq in El. rewrite flatp_custom_combine in E by exact El.
      apply HA in E. rewrite map_snd_combine in E by exact El. rewrite E. simpl.
      rewrite El. reflexivity.
  - injection Hr as <-; reflexivity.
  - injection Hr as <-; reflexivity.
  - destruct (flatp_seq _ _ _) as [[[[ps ls] ns] b]|] eqn:E; simpl in Hr; [|discriminate].
    injection Hr as <-. apply HA in E. rewrite map_snd_combine_pos in E. rewrite E. reflexivity.
  - destruct (flatp_seq _ _ _) as [[[[ps ls] ns] b]|] eqn:E; simpl in Hr; [|discriminate].
    injection Hr as <-. apply HA in E. rewrite map_snd_combine_pos in E. rewrite E. reflexivity.
  - destruct (hdr_keys h) as [ks|]; [|discriminate].
    destruct (mapM (child_by_key ks cs) _) as [ch|] eqn:Em; simpl in Hr; [|discriminate].
    destruct (flatp_seq _ _ _) as [[[[ps ls] ns] b]|] eqn:E; simpl in Hr; [|discriminate].
    injection Hr as <-. apply HA in E. destruct (mapM_child_by_key _ _ _ _ Em) as (Hl & _ & _).
    rewrite map_snd_combine in E by (symmetry; exact Hl). simpl. rewrite E. reflexivity.
  - destruct (flatp_seq _ _ _) as [[[[ps ls] ns] b]|] eqn:E; simpl in Hr; [|discriminate].
    injection Hr as <-. apply HA in E. rewrite map_snd_combine_pos in E. rewrite E. reflexivity.
  - destruct (hdr_keys h) as [ks|]; [|discriminate].
    destruct (mapM (child_by_key ks cs) _) as [ch|] eqn:Em; simpl in Hr; [|discriminate].
    destruct (flatp_seq _ _ _) as [[[[ps ls] ns] b]|] eqn:E; simpl in Hr; [|discriminate].
    injection Hr as <-. apply HA in E. destruct (mapM_child_by_key _ _ _ _ Em) as (Hl & _ & _).
    rewrite map_snd_combine in E by (symmetry; exact Hl). simpl. rewrite E. reflexivity.
  - destruct (hdr_keys h) as [ks|]; [|discriminate].
    destruct (mapM (child_by_key ks cs) _) as [ch|] eqn:Em; simpl in Hr; [|discriminate].
    destruct (flatp_seq _ _ _) as [[[[ps ls] ns] b]|] eqn:E; simpl in Hr; [|discriminate].
    injection Hr as <-. apply HA in E. destruct (mapM_child_by_key _ _ _ _ Em) as (Hl & _ & _).
    rewrite map_snd_combine in E by (symmetry; exact Hl). simpl. rewrite E. reflexivity.
  - destruct (flatp_seq _ _ _) as [[[[ps ls] ns] b]|] eqn:E; simpl in Hr; [|discriminate].
    injection Hr as <-. apply HA in E. rewrite map_snd_combine_pos in E. rewrite E. reflexivity.
  - destruct (flatp_seq _ _ _) as [[[[ps ls] ns] b]|] eqn:E; simpl in Hr; [|discriminate].
    injection Hr as <-. apply HA in E. rewrite map_snd_combine_pos in E. rewrite E. reflexivity.
Qed.

Theorem with_path_agrees c o ps ls sp :
  flatten_with_path c o = Ok (ps, ls, sp) -> flatten c o = Ok (ls, sp).
Proof.
  unfold flatten_with_path, flatten. intros H.
  destruct (flat_path c (S (c_limit c)) [] o) as [[[[ps' ls'] ns] b]|] eqn:E; [|discriminate].
  cbn [bind] in H. injection H as <- <- <-.
  rewrite (flat_path_flat _ _ _ _ _ E). reflexivity.
Qed.

(* ---------- converse: whenever flatten succeeds, flatten-with-path succeeds with the same result ---------- *)
Lemma combine_pos_snd (cs : list obj) s l :
  l = combine (pos_keys (length cs) s) cs -> map snd l = cs.
Proof. intros ->. apply map_snd_combine_pos. Qed.

Theorem flat_flat_path c fuel : forall o stk r,
  flat c fuel o = Ok r ->
  exists ps, flat_path c fuel stk o = Ok (ps, r_ls r, r_ns r, snd r) /\ length ps = length (r_ls r).
Proof.
  induction fuel as [|fuel IH]; intros o stk r Hr; [discriminate|].
  simpl in Hr. simpl.
  destruct (apply_pred c o); [injection Hr as <-; eexists; split; reflexivity|].
  destruct (get_kind c o) as [k cu].
  destruct o as [id|h cs]; [injection Hr as <-; eexists; split; reflexivity|].
  assert (HB : forall l r0, flat_seq (flat c fuel) (map snd l) = Ok r0 ->
             exists ps, flatp_seq (flat_path c fuel) stk l = Ok (ps, r_ls r0, r_ns r0, snd r0) /\
                        length ps = length (r_ls r0)).
  { intros l r0. apply flatp_seq_B. intros e x r1 _ H1. apply IH. exact H1. }
  assert (Hpos : forall r0, flat_seq (flat c fuel) cs = Ok r0 ->
             exists ps, flatp_seq (flat_path c fuel) stk (combine (pos_keys (length cs) 0) cs)
                        = Ok (ps, r_ls r0, r_ns r0, snd r0) /\ length ps = length (r_ls r0)).
  { intros r0 H0. apply HB. rewrite map_snd_combine_pos. exact H0. }
  destruct k.
  - destruct h; try discriminate. destruct eb; try discriminate;
      (destruct (flat_seq (flat c fuel) cs) as [[[ls ns] b]|] eqn:E; simpl in Hr; [|discriminate]).
    + injection Hr as <-. destruct (Hpos _ eq_refl) as (ps & Hp & Lp). rewrite Hp. simpl.
      exists ps. split; [reflexivity | exact Lp].
    + injection Hr as <-. destruct (Hpos _ eq_refl) as (ps & Hp & Lp). rewrite Hp. simpl.
      exists ps. split; [reflexivity | exact Lp].
    + destruct (Nat.eqb (length es) (length cs)) eqn:El; [|discriminate]. injection Hr as <-.
      apply Nat.eqb_eq in El. rewrite flatp_custom_combine by exact El.
      destruct (HB (combine es cs) (ls, ns, b)) as (ps & Hp & Lp).
      { rewrite map_snd_combine by exact El. exact E. }
      rewrite Hp. simpl. exists ps. rewrite El. split; [reflexivity | exact Lp].
  - injection Hr as <-; eexists; split; reflexivity.
  - injection Hr as <-; exists []; split; reflexivity.
  - destruct (flat_seq (flat c fuel) cs) as [[[ls ns] b]|] eqn:E; simpl in Hr; [|discriminate].
    injection Hr as <-. destruct (Hpos _ eq_refl) as (ps & Hp & Lp). rewrite Hp. simpl.
    exists ps. split; [reflexivity | exact Lp].
  - destruct (flat_seq (flat c fuel) cs) as [[[ls ns] b]|] eqn:E; simpl in Hr; [|discriminate].
    injection Hr as <-. destruct (Hpos _ eq_refl) as (ps & Hp & Lp). rewrite Hp. simpl.
    exists ps. split; [reflexivity | exact Lp].
  - destruct (hdr_keys h) as [ks|]; [|discriminate].
    destruct (mapM (child_by_key ks cs) _) as [ch|] eqn:Em; simpl in Hr; [|discriminate].
    destruct (flat_seq (flat c fuel) ch) as [[[ls ns] b]|] eqn:E; simpl in Hr; [|discriminate].
    injection Hr as <-. destruct (mapM_child_by_key _ _ _ _ Em) as (Hl & _ & _). simpl.
    destruct (HB (combine (visit_keys c KdDict ks) ch) (ls, ns, b)) as (ps & Hp & Lp).
    { rewrite map_snd_combine by (symmetry; exact Hl). exact E. }
    simpl in Hp. rewrite Hp. simpl. exists ps. split; [reflexivity | exact Lp].
  - destruct (flat_seq (flat c fuel) cs) as [[[ls ns] b]|] eqn:E; simpl in Hr; [|discriminate].
    injection Hr as <-. destruct (Hpos _ eq_refl) as (ps & Hp & Lp). rewrite Hp. simpl.
    exists ps. split; [reflexivity | exact Lp].
  - destruct (hdr_keys h) as [ks|]; [|discriminate].
    destruct (mapM (child_by_key ks cs) _) as [ch|] eqn:Em; simpl in Hr; [|discriminate].
    destruct (flat_seq (flat c fuel) ch) as [[[ls ns] b]|] eqn:E; simpl in Hr; [|discriminate].
    injection Hr as <-. destruct (mapM_child_by_key _ _ _ _ Em) as (Hl & _ & _). simpl.
    destruct (HB (combine ks ch) (ls, ns, b)) as (ps & Hp & Lp).
    { rewrite map_snd_combine by (symmetry; exact Hl). exact E. }
    simpl in Hp. rewrite Hp. simpl. exists ps. split; [reflexivity | exact Lp].
  - destruct (hdr_keys h) as [ks|]; [|discriminate].
    destruct (mapM (child_by_key ks cs) _) as [ch|] eqn:Em; simpl in Hr; [|discriminate].
    destruct (flat_seq (flat c fuel) ch) as [[[ls ns] b]|] eqn:E; simpl in Hr; [|discriminate].
    injection Hr as <-. destruct (mapM_child_by_key _ _ _ _ Em) as (Hl & _ & _). simpl.
    destruct (HB (combine (visit_keys c KdDDict ks) ch) (ls, ns, b)) as (ps & Hp & Lp).
    { rewrite map_snd_combine by (symmetry; exact Hl). exact E. }
    simpl in Hp. rewrite Hp. simpl. exists ps. split; [reflexivity | exact Lp].
  - destruct (flat_seq (flat c fuel) cs) as [[[ls ns] b]|] eqn:E; simpl in Hr; [|discriminate].
    injection Hr as <-. destruct (Hpos _ eq_refl) as (ps & Hp & Lp). rewrite Hp. simpl.
    exists ps. split; [reflexivity | exact Lp].
  - destruct (flat_seq (flat c fuel) cs) as [[[ls ns] b]|] eqn:E; simpl in Hr; [|discriminate].
    injection Hr as <-. destruct (Hpos _ eq_refl) as (ps & Hp & Lp). rewrite Hp. simpl.
    exists ps. split; [reflexivity | exact Lp].
Qed.

Theorem with_path_agrees_conv c o ls sp :
  flatten c o = Ok (ls, sp) ->
  exists ps, flatten_with_path c o = Ok (ps, ls, sp) /\ length ps = length ls.
Proof.
  unfold flatten_with_path, flatten. intros H.
  destruct (flat c (S (c_limit c)) o) as [[[ls' ns] b]|] eqn:E; [|discriminate].
  cbn [bind] in H. injection H as <- <-.
  destruct (flat_flat_path c _ o [] _ E) as (ps & Hp & Lp). unfold r_ls, r_ns in *. cbn [fst snd] in *.
  rewrite Hp. exists ps. split; [reflexivity | exact Lp].
Qed.

(* ---------- the paths flatten-with-path returns are the treespec's own paths ---------- *)
Definition p_ns (r : pres) : list node := let '(_, _, ns, _) := r in ns.
Definition addp (stk : list key) (ps : list path) : list path := map (fun p => rev stk ++ p) ps.

Fixpoint paths_go (es : list key) (l : list stree) {struct l} : list path :=
  match l with
  | [] => []
  | c :: l' =>
    match es with
    | [] => []
    | e :: es' => map (cons e) (st_paths c) ++ paths_go es' l'
    end
  end.

Lemma st_paths_unfold n cs :
  st_paths (T n cs) = if is_leaf_node n then [[]] else paths_go (node_entries n) cs.
Proof. reflexivity. Qed.

Lemma addp_cons e stk ps : addp (e :: stk) ps = addp stk (map (cons e) ps).
Proof.
  unfold addp. rewrite map_map. apply map_ext. intros p. simpl. rewrite <- app_assoc. reflexivity.
Qed.

Lemma addp_app stk a b : addp stk (a ++ b) = addp stk a ++ addp stk b.
Proof. unfold addp. apply map_app. Qed.

Definition PathsOk (stk : list key) (r : pres) : Prop :=
  exists t, p_ns r = encode t /\ p_ps r = addp stk (st_paths t) /\ arity_ok t = true.

Lemma flatp_seq_paths (f : list key -> obj -> res pres) stk l :
  (forall e x r, In (e, x) l -> f (e :: stk) x = Ok r -> PathsOk (e :: stk) r) ->
  forall R, flatp_seq f stk l = Ok R ->
  exists ts, p_ns R = flat_map encode ts /\ length ts = length l /\ forallb arity_ok ts = true /\
             p_ps R = addp stk (paths_go (map fst l) ts).
Proof.
  induction l as [|[e x] l IH]; intros Hf R HR; simpl in HR.
  - injection HR as <-. exists []. repeat split.
  - destruct (f (e :: stk) x) as [[[[ps1 ls1] ns1] b1]|] eqn:E1; simpl in HR; [|discriminate].
    destruct (flatp_seq f stk l) as [[[[ps2 ls2] ns2] b2]|] eqn:E2; simpl in HR; [|discriminate].
    injection HR as <-.
    destruct (Hf e x _ (or_introl eq_refl) E1) as (t & Hn & Hp & Ha).
    destruct (IH (fun e' x' r H => Hf e' x' r (or_intror H)) _ eq_refl) as (ts & Hns & Hlen & Has & Hps).
    simpl in *. exists (t :: ts). simpl. repeat split.
    + congruence.
    + congruence.
    + rewrite Ha, Has. reflexivity.
    + rewrite addp_app, <- addp_cons. congruence.
Qed.

Lemma PathsOk_node stk ps ls ns b ts k ar d ent cu og es :
  ns = flat_map encode ts -> length ts = ar -> forallb arity_ok ts = true ->
  ps = addp stk (paths_go es ts) -> kind_eqb k KdLeaf = false ->
  node_entries {| nkind := k; narity := ar; ndat := d; nentries := ent; ncustom := cu;
                  nleaves := length ls; nnodes := S (length ns); norig := og |} = es ->
  PathsOk stk (mk_pnode k ar d ent cu og (ps, ls, ns, b)).
Proof.
  intros Hns Hlen Has Hps Hk He.
  exists (T {| nkind := k; narity := ar; ndat := d; nentries := ent; ncustom := cu;
               nleaves := length ls; nnodes := S (length ns); norig := og |} ts).
  split; [simpl; rewrite Hns; reflexivity|]. split.
  - unfold mk_pnode, p_ps. rewrite st_paths_unfold. unfold is_leaf_node. cbn [nkind].
    rewrite Hk, He. exact Hps.
  - simpl. rewrite Hlen, Nat.eqb_refl, Has. reflexivity.
Qed.

Lemma PathsOk_leaf stk o b : PathsOk stk ([rev stk], [o], [leaf_node], b).
Proof.
  exists st_leaf. simpl. repeat split. unfold addp. simpl. rewrite app_nil_r. reflexivity.
Qed.

Theorem flat_path_paths c fuel : forall o stk r,
  flat_path c fuel stk o = Ok r -> PathsOk stk r.
Proof.
  induction fuel as [|fuel IH]; intros o stk r Hr; [discriminate|].
  simpl in Hr.
  destruct (apply_pred c o); [injection Hr as <-; apply PathsOk_leaf|].
  destruct (get_kind c o) as [k cu].
  destruct o as [id|h cs]; [injection Hr as <-; apply PathsOk_leaf|].
  assert (HS : forall l R, flatp_seq (flat_path c fuel) stk l = Ok R ->
             exists ts, p_ns R = flat_map encode ts /\ length ts = length l /\
                        forallb arity_ok ts = true /\ p_ps R = addp stk (paths_go (map fst l) ts)).
  { intros l R. apply flatp_seq_paths. intros e x r0 _ H0. eapply IH; eauto. }
  assert (Hposfst : map fst (combine (pos_keys (length cs) 0) cs) = pos_keys (length cs) 0).
  { apply map_fst_combine. apply pos_keys_length. }
  assert (Hposlen : length (combine (pos_keys (length cs) 0) cs) = length cs).
  { rewrite combine_length, pos_keys_length. apply Nat.min_id. }
  destruct k.
  - destruct h; try discriminate. destruct eb; try discriminate.
    + destruct (flatp_seq _ _ _) as [[[[ps ls] ns] b]|] eqn:E; simpl in Hr; [|discriminate].
      injection Hr as <-. destruct (HS _ _ E) as (ts & Hns & Hlen & Has & Hps). simpl in *.
      eapply PathsOk_node; eauto; try (simpl; congruence).
    + destruct (flatp_seq _ _ _) as [[[[ps ls] ns] b]|] eqn:E; simpl in Hr; [|discriminate].
      injection Hr as <-. destruct (HS _ _ E) as (ts & Hns & Hlen & Has & Hps). simpl in *.
      eapply PathsOk_node; eauto; try (simpl; congruence).
    + destruct (flatp_custom _ _ _ _) as [[[[ps ls] ns] b]|] eqn:E; simpl in Hr; [|discriminate].
      destruct (Nat.eqb (length es) (length cs)) eqn:El; [|discriminate].
      injection Hr as <-. apply Nat.eqb_eq in El. rewrite flatp_custom_combine in E by exact El.
      destruct (HS _ _ E) as (ts & Hns & Hlen & Has & Hps). simpl in *.
      rewrite map_fst_combine in Hps by exact El.
      rewrite combine_length, El, Nat.min_id in Hlen.
      eapply PathsOk_node; eauto; try (simpl; congruence).
  - injection Hr as <-; apply PathsOk_leaf.
  - injection Hr as <-.
    exists (T {| nkind := KdNone; narity := 0; ndat := DNone; nentries := None; ncustom := None;
                 nleaves := 0; nnodes := 1; norig := None |} []). repeat split.
  - destruct (flatp_seq _ _ _) as [[[[ps ls] ns] b]|] eqn:E; simpl in Hr; [|discriminate].
    injection Hr as <-. destruct (HS _ _ E) as (ts & Hns & Hlen & Has & Hps). simpl in *.
    eapply PathsOk_node; eauto; try (simpl; congruence).
  - destruct (flatp_seq _ _ _) as [[[[ps ls] ns] b]|] eqn:E; simpl in Hr; [|discriminate].
    injection Hr as <-. destruct (HS _ _ E) as (ts & Hns & Hlen & Has & Hps). simpl in *.
    eapply PathsOk_node; eauto; try (simpl; congruence).
  - destruct (hdr_keys h) as [ks|] eqn:Eh; [|discriminate].
    destruct (mapM (child_by_key ks cs) _) as [ch|] eqn:Em; simpl in Hr; [|discriminate].
    destruct (flatp_seq _ _ _) as [[[[ps ls] ns] b]|] eqn:E; simpl in Hr; [|discriminate].
    injection Hr as <-. destruct (mapM_child_by_key _ _ _ _ Em) as (Hl & _ & _).
    destruct (HS _ _ E) as (ts & Hns & Hlen & Has & Hps). simpl in *.
    rewrite map_fst_combine in Hps by (symmetry; exact Hl).
    rewrite combine_length, Hl, Nat.min_id in Hlen.
    assert (Hvl : length (visit_keys c KdDict ks) = length ks)
      by (apply Permutation_length; apply visit_keys_perm).
    change (if ins_ordered c then ks else total_order_sort ks) with (visit_keys c KdDict ks) in *.
    rewrite Hvl in Hlen.
    eapply PathsOk_node; eauto; try (simpl; congruence).
    destruct h; try discriminate; reflexivity.
  - destruct (flatp_seq _ _ _) as [[[[ps ls] ns] b]|] eqn:E; simpl in Hr; [|discriminate].
    injection Hr as <-. destruct (HS _ _ E) as (ts & Hns & Hlen & Has & Hps). simpl in *.
    eapply PathsOk_node; eauto; try (simpl; congruence).
  - destruct (hdr_keys h) as [ks|] eqn:Eh; [|discriminate].
    destruct (mapM (child_by_key ks cs) _) as [ch|] eqn:Em; simpl in Hr; [|discriminate].
    destruct (flatp_seq _ _ _) as [[[[ps ls] ns] b]|] eqn:E; simpl in Hr; [|discriminate].
    injection Hr as <-. destruct (mapM_child_by_key _ _ _ _ Em) as (Hl & _ & _).
    destruct (HS _ _ E) as (ts & Hns & Hlen & Has & Hps). simpl in *.
    rewrite map_fst_combine in Hps by (symmetry; exact Hl).
    rewrite combine_length, Hl, Nat.min_id in Hlen.
    eapply PathsOk_node; eauto; try (simpl; congruence).
    destruct h; try discriminate; reflexivity.
  - destruct (hdr_keys h) as [ks|] eqn:Eh; [|discriminate].
    destruct (mapM (child_by_key ks cs) _) as [ch|] eqn:Em; simpl in Hr; [|discriminate].
    destruct (flatp_seq _ _ _) as [[[[ps ls] ns] b]|] eqn:E; simpl in Hr; [|discriminate].
    injection Hr as <-. destruct (mapM_child_by_key _ _ _ _ Em) as (Hl & _ & _).
    destruct (HS _ _ E) as (ts & Hns & Hlen & Has & Hps). simpl in *.
    rewrite map_fst_combine in Hps by (symmetry; exact Hl).
    rewrite combine_length, Hl, Nat.min_id in Hlen.
    assert (Hvl : length (visit_keys c KdDDict ks) = length ks)
      by (apply Permutation_length; apply visit_keys_perm).
    change (if ins_ordered c then ks else total_order_sort ks) with (visit_keys c KdDDict ks) in *.
    rewrite Hvl in Hlen.
    eapply PathsOk_node; eauto; try (simpl; congruence).
    destruct h; try discriminate; reflexivity.
  - destruct (flatp_seq _ _ _) as [[[[ps ls] ns] b]|] eqn:E; simpl in Hr; [|discriminate].
    injection Hr as <-. destruct (HS _ _ E) as (ts & Hns & Hlen & Has & Hps). simpl in *.
    eapply PathsOk_node; eauto; try (simpl; congruence).
  - destruct (flatp_seq _ _ _) as [[[[ps ls] ns] b]|] eqn:E; simpl in Hr; [|discriminate].
    injection Hr as <-. destruct (HS _ _ E) as (ts & Hns & Hlen & Has & Hps). simpl in *.
    eapply PathsOk_node; eauto; try (simpl; congruence).
Qed.

(* the paths returned with the leaves are the ones recomputed from the treespec alone *)
Theorem paths_from_spec c o ps ls sp :
  flatten_with_path c o = Ok (ps, ls, sp) ->
  exists s, sspec_of sp = Some s /\ st_paths (stree_of s) = ps.
Proof.
  unfold flatten_with_path. intros H.
  destruct (flat_path c (S (c_limit c)) [] o) as [[[[ps' ls'] ns] b]|] eqn:E; [|discriminate].
  cbn [bind] in H. injection H as <- <- <-.
  destruct (flat_path_paths _ _ _ _ _ E) as (t & Hn & Hp & Ha). simpl in Hn, Hp.
  exists {| stree_of := t; ss_nil := c_nil c; ss_ns := spec_ns c b |}.
  unfold sspec_of. cbn [trav snil sns stree_of]. rewrite Hn, decode_encode by exact Ha.
  split; [reflexivity|]. rewrite Hp. unfold addp. simpl. rewrite map_id. reflexivity.
Qed.

Theorem iter_agrees c o ls sp :
  flatten c o = Ok (ls, sp) -> tree_iter_list c o = Ok ls.
Proof.
  intros H. unfold tree_iter_list, iter_bound.
  pose proof (iter_agrees_steps c o ls sp H) as Hs.
  unfold flatten in H. destruct (flat c (S (c_limit c)) o) as [[[ls' ns] b]|] eqn:E; [|discriminate].
  cbn [bind] in H. injection H as <- <-. exact Hs.
Qed.

(* ================= tree_is_leaf ================= *)
Lemma app_single_eq {A} (l : list A) x y : l ++ [x] = [y] -> l = [] /\ x = y.
Proof.
  destruct l as [|a l]; simpl; [intros [= ->]; auto|].
  intros H. injection H as _ H. destruct l; discriminate.
Qed.

Lemma mk_node_not_leaf k ar d e cu og r ls b :
  kind_eqb k KdLeaf = false -> mk_node k ar d e cu og r <> (ls, [leaf_node], b).
Proof.
  destruct r as [[ls0 ns0] b0]. rewrite mk_node_eq. intros Hk H. injection H as _ H _.
  apply app_single_eq in H as [_ H]. apply (f_equal nkind) in H. simpl in H. subst k. discriminate.
Qed.

Theorem is_leaf_iff c o :
  tree_is_leaf c o = true <->
  flatten c o = Ok ([o], {| trav := [leaf_node]; snil := c_nil c; sns := spec_ns c false |}).
Proof.
  unfold tree_is_leaf, flatten. cbn [flat].
  destruct (apply_pred c o) eqn:Ep; [simpl; split; reflexivity|]. simpl.
  destruct (get_kind c o) as [k cu] eqn:Ek. simpl.
  destruct o as [id|h cs].
  { simpl in Ek. injection Ek as <- <-. split; reflexivity. }
  split.
  - intros Hk. destruct k; try discriminate. reflexivity.
  - intros H. destruct k; try reflexivity; exfalso.
    + destruct h; try discriminate. destruct eb; try discriminate;
        (destruct (flat_seq _ cs) as [[[ls ns] b]|]; cbn [bind] in H; [|discriminate]).
      * injection H as _ H2 _. apply app_single_eq in H2 as [_ H2]. discriminate.
      * injection H as _ H2 _. apply app_single_eq in H2 as [_ H2]. discriminate.
      * destruct (Nat.eqb (length es) (length cs)); [|discriminate].
        injection H as _ H2 _. apply app_single_eq in H2 as [_ H2]. discriminate.
    + injection H as H1 H2. discriminate.
    + destruct (flat_seq _ cs) as [r|]; simpl in H; [|discriminate].
      destruct (mk_node KdTuple (length cs) DNone None None None r) as [[ls ns] b] eqn:Em.
      injection H as -> -> _. eapply (mk_node_not_leaf KdTuple); [reflexivity | exact Em].
    + destruct (flat_seq _ cs) as [r|]; simpl in H; [|discriminate].
      destruct (mk_node KdList (length cs) DNone None None None r) as [[ls ns] b] eqn:Em.
      injection H as -> -> _. eapply (mk_node_not_leaf KdList); [reflexivity | exact Em].
    + destruct (hdr_keys h); [|discriminate]. destruct (mapM _ _); simpl in H; [|discriminate].
      destruct (flat_seq _ _) as [r|]; simpl in H; [|discriminate].
      destruct (mk_node KdDict _ _ _ _ _ r) as [[ls ns] b] eqn:Em.
      injection H as -> -> _. eapply (mk_node_not_leaf KdDict); [reflexivity | exact Em].
    + destruct (flat_seq _ cs) as [r|]; simpl in H; [|discriminate].
      destruct (mk_node KdNamed _ _ _ _ _ r) as [[ls ns] b] eqn:Em.
      injection H as -> -> _. eapply (mk_node_not_leaf KdNamed); [reflexivity | exact Em].
    + destruct (hdr_keys h); [|discriminate]. destruct (mapM _ _); simpl in H; [|discriminate].
      destruct (flat_seq _ _) as [r|]; simpl in H; [|discriminate].
      destruct (mk_node KdODict _ _ _ _ _ r) as [[ls ns] b] eqn:Em.
      injection H as -> -> _. eapply (mk_node_not_leaf KdODict); [reflexivity | exact Em].
    + destruct (hdr_keys h); [|discriminate]. destruct (mapM _ _); simpl in H; [|discriminate].
      destruct (flat_seq _ _) as [r|]; simpl in H; [|discriminate].
      destruct (mk_node KdDDict _ _ _ _ _ r) as [[ls ns] b] eqn:Em.
      injection H as -> -> _. eapply (mk_node_not_leaf KdDDict); [reflexivity | exact Em].
    + destruct (flat_seq _ cs) as [r|]; simpl in H; [|discriminate].
      destruct (mk_node KdDeque _ _ _ _ _ r) as [[ls ns] b] eqn:Em.
      injection H as -> -> _. eapply (mk_node_not_leaf KdDeque); [reflexivity | exact Em].
    + destruct (flat_seq _ cs) as [r|]; simpl in H; [|discriminate].
      destruct (mk_node KdStruct _ _ _ _ _ r) as [[ls ns] b] eqn:Em.
      injection H as -> -> _. eapply (mk_node_not_leaf KdStruct); [reflexivity | exact Em].
Qed.
