(* JoinLeast.v — broadcast_to_common_suffix is the LEAST upper bound: whenever two treespecs have a common
   upper bound u in the prefix order, their join exists and is itself a prefix of u (property C09). *)
From OptreeModel Require Import Base Tree Flatten Unflatten Spec.
From OptreeProofs Require Import BaseProofs RoundTrip SpecProofs InspectProofs EqProofs OrderProofs PrefixOrder JoinOrder.

Definition Least (a : stree) : Prop :=
  forall b u, good a = true -> good b = true -> P a u -> P b u ->
  exists j, st_join a b = Ok j /\ P j u.

(* what P x u says when x is not a leaf *)
Lemma P_inv na ca nu cu :
  is_leaf_node na = false -> P (T na ca) (T nu cu) ->
  prefix_node_ok na nu = true /\ exists cu', aligned na nu cu = Some cu' /\ Forall2 P ca cu'.
Proof.
  intros La H. unfold P in H. rewrite st_prefix_unfold, La in H.
  destruct (prefix_node_ok na nu); [|discriminate H]. cbn [negb] in H.
  destruct (aligned na nu cu) as [cu'|]; [|discriminate H].
  split; [reflexivity|]. exists cu'. split; [reflexivity|]. apply prefix_list_Forall2. exact H.
Qed.

(* children joined pairwise under a list of common upper bounds *)
Lemma join_list_least : forall ca cb' cu',
  Forall Least ca -> forallb good ca = true -> forallb good cb' = true ->
  Forall2 P ca cu' -> Forall2 P cb' cu' ->
  exists r, join_list ca cb' = Ok r /\ Forall2 P r cu'.
Proof.
  induction ca as [|x ca IH]; intros cb' cu' Hl Ga Gb Ha Hb.
  - inversion Ha; subst. inversion Hb; subst. exists []. split; [reflexivity | constructor].
  - inversion Ha as [|? u ? cu'' Hxu Ha']; subst. inversion Hb as [|y ? cb'' ? Hyu Hb']; subst.
    inversion Hl as [|? ? Hx Hl']; subst.
    simpl in Ga, Gb. apply andb_true_iff in Ga as [Gx Gca]. apply andb_true_iff in Gb as [Gy Gcb].
    destruct (IH cb'' cu'' Hl' Gca Gcb Ha' Hb') as (r & Hr & Hp).
    destruct (Hx y u Gx Gy Hxu Hyu) as (jx & Hj & Hju).
    exists (jx :: r). simpl. rewrite Hr. simpl. rewrite Hj. simpl. split; [reflexivity | constructor; assumption].
Qed.

Lemma pno_recount na r nu :
  narity na = length r -> prefix_node_ok (recount na r) nu = prefix_node_ok na nu.
Proof.
  intros H. unfold prefix_node_ok, recount, node_keys. cbn [nkind narity ndat ncustom]. rewrite H. reflexivity.
Qed.

Lemma aligned_recount na r nu cu : aligned (recount na r) nu cu = aligned na nu cu.
Proof. reflexivity. Qed.

Lemma pno_common a u : prefix_node_ok a u = true -> narity a = narity u /\ ncustom a = ncustom u.
Proof.
  unfold prefix_node_ok. intros H. apply andb_true_iff in H as [H _]. apply andb_true_iff in H as [H1 H2].
  apply Nat.eqb_eq in H1. apply opt_reg_eqb_eq in H2. auto.
Qed.

Lemma pno_kind a u : prefix_node_ok a u = true ->
  match nkind a with
  | KdNone | KdTuple | KdList | KdDeque => nkind u = nkind a
  | KdNamed | KdStruct | KdCustom => nkind u = nkind a /\ ndat u = ndat a
  | KdDict | KdODict | KdDDict =>
    is_dict_kind (nkind u) = true /\
    exists ka ku, node_keys a = Some ka /\ node_keys u = Some ku /\ keys_same_set ka ku = true
  | KdLeaf => False
  end.
Proof.
  unfold prefix_node_ok. intros H. apply andb_true_iff in H as [_ H].
  destruct (nkind a); try discriminate H;
    try (apply kind_eqb_eq in H; congruence);
    try (apply andb_true_iff in H as [H1 H2]; apply kind_eqb_eq in H1; apply ndata_eqb_eq in H2; split; congruence);
    (apply andb_true_iff in H as [H1 H2]; split; [exact H1|];
     destruct (node_keys a) as [ka|]; [|discriminate H2]; destruct (node_keys u) as [ku|]; [|discriminate H2]; eauto).
Qed.

Lemma omapM_exists {A B} (f : A -> option B) : forall l,
  (forall k, In k l -> exists y, f k = Some y) -> exists r, omapM f l = Some r.
Proof.
  induction l as [|k l IH]; intros H; [exists []; reflexivity|].
  destruct (H k (or_introl eq_refl)) as (y & Hy). destruct (IH (fun k' H' => H k' (or_intror H'))) as (r & Hr).
  exists (y :: r). simpl. rewrite Hy, Hr. reflexivity.
Qed.

Lemma lookup_exists (kb : list key) : forall (cb : list stree) k,
  length kb = length cb -> In k kb -> exists y, child_at_key kb cb k = Some y.
Proof.
  unfold child_at_key. induction kb as [|k0 kb IH]; intros [|y cb] k Hl Hin; simpl in *; try discriminate; [contradiction|].
  destruct (key_eqb k k0) eqn:E; [eauto|]. apply key_eqb_neq in E. destruct Hin as [->|Hin]; [contradiction|].
  apply IH; [lia | exact Hin].
Qed.

Lemma Forall2_zip_P (f g : key -> option stree) : forall ka l1 l2,
  Forall2 (fun k y => f k = Some y) ka l1 -> Forall2 (fun k z => g k = Some z) ka l2 ->
  (forall k y, f k = Some y -> exists z, g k = Some z /\ P y z) -> Forall2 P l1 l2.
Proof.
  induction ka as [|k ka IH]; intros l1 l2 H1 H2 H; inversion H1; subst; inversion H2; subst; constructor.
  - destruct (H k _ H4) as (z & Hz & Hp). match goal with Hg : g k = Some _ |- _ => rewrite Hg in Hz; injection Hz as <- end. exact Hp.
  - eapply IH; eauto.
Qed.

Lemma pno_pair_nondict na nb nu :
  prefix_node_ok na nu = true -> prefix_node_ok nb nu = true -> is_dict_kind (nkind na) = false ->
  nkind nb = nkind na /\
  match nkind na with KdNamed | KdStruct | KdCustom => ndat nb = ndat na | _ => True end.
Proof.
  intros Oa Ob Hd. pose proof (pno_kind na nu Oa) as Ka. pose proof (pno_kind nb nu Ob) as Kb.
  destruct (nkind na) eqn:Ea; try discriminate Hd; try contradiction;
    destruct (nkind nb) eqn:Eb; try contradiction;
    repeat match goal with H : _ /\ _ |- _ => destruct H end;
    try (match goal with H : is_dict_kind (nkind nu) = true, H' : nkind nu = _ |- _ => rewrite H' in H; discriminate H end);
    try congruence; split; congruence || exact I.
Qed.

Lemma pno_dict a u : prefix_node_ok a u = true -> is_dict_kind (nkind a) = true ->
  is_dict_kind (nkind u) = true /\
  exists ka ku, node_keys a = Some ka /\ node_keys u = Some ku /\ keys_same_set ka ku = true.
Proof. intros O D. pose proof (pno_kind a u O) as K. destruct (nkind a); try discriminate D; exact K. Qed.

Lemma pno_dict_back b u : prefix_node_ok b u = true -> is_leaf_node b = false ->
  is_dict_kind (nkind u) = true -> is_dict_kind (nkind b) = true.
Proof.
  intros O L D. pose proof (pno_kind b u O) as K. unfold is_leaf_node in L.
  destruct (nkind b); try reflexivity; try contradiction;
    repeat match goal with H : _ /\ _ |- _ => destruct H end;
    match goal with H : nkind u = _ |- _ => rewrite H in D; discriminate D end.
Qed.

Theorem join_least : forall a, Least a.
Proof.
  intros a. induction a as [na ca IH] using stree_ind'. intros [nb cb] [nu cu] Ga Gb Pa Pb.
  rewrite st_join_unfold.
  destruct (is_leaf_node na) eqn:La; [eexists; split; [reflexivity | exact Pb]|].
  destruct (is_leaf_node nb) eqn:Lb; [eexists; split; [reflexivity | exact Pa]|].
  destruct (P_inv na ca nu cu La Pa) as (Oa & cua & Aa & Fa).
  destruct (P_inv nb cb nu cu Lb Pb) as (Ob & cub & Ab & Fb).
  destruct (pno_common na nu Oa) as [Ara Cua]. destruct (pno_common nb nu Ob) as [Arb Cub].
  destruct (good_node na ca Ga) as (Aca & Da & Ca & Na & _ & _).
  destruct (good_node nb cb Gb) as (Acb & Db & Cb & Nb & _ & _).
  pose proof (good_children na ca Ga) as Gca. pose proof (good_children nb cb Gb) as Gcb.
  assert (Hfin : forall cb' cbd, forallb good cb' = true -> Forall2 P ca cbd -> Forall2 P cb' cbd ->
            aligned na nu cu = Some cbd ->
            exists j, join_kids na ca cb' = Ok j /\ P j (T nu cu)).
  { intros cb' cbd Gcb' F1 F2 Hal.
    destruct (join_list_least ca cb' cbd IH Gca Gcb' F1 F2) as (r & Hr & Hp).
    unfold join_kids. rewrite Hr. cbn [bind]. eexists. split; [reflexivity|].
    destruct (join_list_length ca cb' r Hr) as [L1 _].
    unfold P, mkT. rewrite st_prefix_unfold.
    assert (Hlf : is_leaf_node (recount na r) = false) by exact La.
    rewrite Hlf, (pno_recount na r nu ltac:(congruence)), Oa, aligned_recount, Hal. cbn [negb].
    apply prefix_list_Forall2. exact Hp. }
  assert (Hare : Nat.eqb (narity na) (narity nb) = true) by (apply Nat.eqb_eq; congruence).
  assert (Hcue : opt_reg_eqb (ncustom na) (ncustom nb) = true) by (apply opt_reg_eqb_eq; congruence).
  destruct (is_dict_kind (nkind na)) eqn:Dk.
  - (* dict kinds *)
    destruct (pno_dict na nu Oa Dk) as (Du & ka & ku & Hka & Hku & Sau).
    pose proof (pno_dict_back nb nu Ob Lb Du) as Dkb.
    destruct (pno_dict nb nu Ob Dkb) as (_ & kb & ku' & Hkb & Hku' & Sbu).
    rewrite Hku in Hku'. injection Hku' as <-.
    destruct (Da eq_refl) as (ka0 & Hka0 & Lka & Nka). rewrite Hka in Hka0. injection Hka0 as <-.
    destruct (Db Dkb) as (kb0 & Hkb0 & Lkb & Nkb). rewrite Hkb in Hkb0. injection Hkb0 as <-.
    assert (Sab : keys_same_set ka kb = true).
    { eapply keys_same_set_trans; [exact Sau|]. apply keys_same_set_sym; assumption. }
    (* b's children fetched by a's keys *)
    destruct (omapM_exists (child_at_key kb cb) ka) as (cb' & Hcb').
    { intros k Hk. apply lookup_exists; [exact Lkb|].
      unfold keys_same_set, keys_subset in Sab. apply andb_true_iff in Sab as [_ Hs].
      rewrite forallb_forall in Hs. apply key_mem_In. apply Hs. exact Hk. }
    unfold aligned in Aa, Ab. rewrite Dk, Hka, Hku in Aa. rewrite Dkb, Hkb, Hku in Ab.
    assert (F2 : Forall2 P cb' cua).
    { apply (Forall2_zip_P (child_at_key kb cb) (child_at_key ku cu) ka);
        [apply omapM_Forall2; exact Hcb' | apply omapM_Forall2; exact Aa |].
      intros k y Hy. apply (lookup_related ku cu kb cb cub (omapM_Forall2 _ _ _ Ab) Fb k y Hy). }
    assert (Gcb' : forallb good cb' = true).
    { apply (forallb_good_sub cb cb' Gcb). apply (omapM_child_in kb cb ka cb' Hcb'). }
    assert (Hj : exists j, join_kids na ca cb' = Ok j /\ P j (T nu cu)).
    { apply (Hfin cb' cua Gcb' Fa F2). unfold aligned. rewrite Dk, Hka, Hku. exact Aa. }
    rewrite Dkb, Hka, Hkb, Sab, Hcb'. cbn [negb].
    destruct (nkind na); try discriminate Dk; exact Hj.
  - destruct (pno_pair_nondict na nb nu Oa Ob Dk) as [Hk Hdat].
    assert (Hpos : exists j, join_kids na ca cb = Ok j /\ P j (T nu cu)).
    { unfold aligned in Aa, Ab. rewrite Hk in Ab. rewrite Dk in Aa, Ab.
      injection Aa as <-. injection Ab as <-. apply (Hfin cb cu Gcb Fa Fb). unfold aligned. rewrite Dk. reflexivity. }
    destruct (nkind na) eqn:Ek; try discriminate Dk; rewrite ?Hk, ?kind_eqb_refl, ?Hare, ?Hcue; cbn [negb];
      try (rewrite <- Hdat, ndata_eqb_refl; cbn [negb]); try exact Hpos.
    + unfold is_leaf_node in La. rewrite Ek in La. discriminate La.
    + (* None: no children on either side *)
      eexists. split; [reflexivity | exact Pa].
Qed.
