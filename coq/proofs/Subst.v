(* Subst.v — unflattening a treespec with ARBITRARY trees in the leaf positions and flattening the
   result: the leaves are the concatenation of the replacement trees' leaves and the treespec is the
   original one with every leaf replaced by the replacement tree's treespec.  This is what
   tree_broadcast_prefix / tree_broadcast_common / tree_map with tree-valued functions / tree_transpose
   build on (properties C01, C05, C09, C10). *)
From OptreeModel Require Import Base Tree Flatten Unflatten Spec Construct Depth.
From OptreeProofs Require Import BaseProofs RoundTrip SpecProofs EqProofs FaultProofs DepthProofs Replace ConstructProofs UpToPrefix.
From Coq Require Import Permutation.

(* t with its leaves replaced, in order, by the trees of [tss] (one list per child, concatenated) *)
Inductive Subst : stree -> list stree -> stree -> Prop :=
| SubLeaf n x : is_leaf_node n = true -> Subst (T n []) [x] x
| SubNode n cs tss cs' : is_leaf_node n = false -> SubstL cs tss cs' -> Subst (T n cs) (concat tss) (mkT n cs')
with SubstL : list stree -> list (list stree) -> list stree -> Prop :=
| SubNil : SubstL [] [] []
| SubCons c cs ts tss c' cs' : Subst c ts c' -> SubstL cs tss cs' -> SubstL (c :: cs) (ts :: tss) (c' :: cs').

Lemma SubstL_length cs tss cs' : SubstL cs tss cs' -> length cs' = length cs.
Proof. induction 1; simpl; congruence. Qed.

Lemma tflat_fuel_mono_plus c k : forall fuel o r, tflat c fuel o = Ok r -> tflat c (fuel + k) o = Ok r.
Proof.
  induction k as [|k IH]; intros fuel o r H; [rewrite Nat.add_0_r; exact H|].
  rewrite Nat.add_succ_r. apply tflat_fuel_mono. apply IH. exact H.
Qed.

(* ---------- rebuilding one node around new children ---------- *)
(* the children of an object with header h, given in visiting order, put back in the header's order *)
Definition restore (c : cfg) (h : hdr) (ch' : list obj) : list obj :=
  match h with
  | HDict ks => unvisit ks (visit_keys c KdDict ks) ch'
  | HODict ks => unvisit ks (visit_keys c KdODict ks) ch'
  | HDDict _ ks => unvisit ks (visit_keys c KdDDict ks) ch'
  | _ => ch'
  end.

(* the children of (Node h cs) in the order the traversal visits them *)
Definition visited (c : cfg) (h : hdr) (cs : list obj) : res (list obj) :=
  match h with
  | HDict ks => mapM (child_by_key ks cs) (visit_keys c KdDict ks)
  | HODict ks => mapM (child_by_key ks cs) (visit_keys c KdODict ks)
  | HDDict _ ks => mapM (child_by_key ks cs) (visit_keys c KdDDict ks)
  | _ => Ok cs
  end.

Lemma restore_spec c h cs ch ch' :
  wf_hdr h (length cs) = true -> visited c h cs = Ok ch -> length ch' = length ch ->
  length (restore c h ch') = length cs /\ visited c h (restore c h ch') = Ok ch' /\
  (forall x, In x (restore c h ch') -> In x ch').
Proof.
  intros Hw Hv Hl.
  assert (Hd : forall ks k, wf_hdr (HDict ks) (length cs) = true ->
            mapM (child_by_key ks cs) (visit_keys c k ks) = Ok ch ->
            length (unvisit ks (visit_keys c k ks) ch') = length cs /\
            mapM (child_by_key ks (unvisit ks (visit_keys c k ks) ch')) (visit_keys c k ks) = Ok ch' /\
            (forall x, In x (unvisit ks (visit_keys c k ks) ch') -> In x ch')).
  { intros ks k Hwk Hm. simpl in Hwk. apply andb_true_iff in Hwk as [Hlen Hnd].
    apply Nat.eqb_eq in Hlen. apply keys_nodup_NoDup in Hnd.
    pose proof (visit_keys_perm c k ks) as Hp.
    destruct (unvisit_spec ks (visit_keys c k ks) ch') as (H1 & H2 & H3).
    - eapply Permutation_NoDup; [symmetry; exact Hp | exact Hnd].
    - rewrite Hl. symmetry. exact (proj1 (mapM_child_by_key _ _ _ _ Hm)).
    - intros x Hx. eapply Permutation_in; [exact Hp | exact Hx].
    - intros x Hx. eapply Permutation_in; [symmetry; exact Hp | exact Hx].
    - split; [congruence | split; assumption]. }
  destruct h; simpl in Hv |- *; try (injection Hv as <-; split; [exact Hl | split; [reflexivity | auto]]).
  - exact (Hd ks KdDict Hw Hv).
  - exact (Hd ks KdODict Hw Hv).
  - exact (Hd ks KdDDict Hw Hv).
Qed.

(* ---------- one node of tflat, taken apart and put together ---------- *)
Definition vkeys (c : cfg) (h : hdr) : list key :=
  match h with
  | HDict ks => visit_keys c KdDict ks
  | HODict ks => visit_keys c KdODict ks
  | HDDict _ ks => visit_keys c KdDDict ks
  | _ => []
  end.

Definition is_custom_kind (k : kind) : bool := match k with KdCustom => true | _ => false end.

(* the flatten function of a custom node behaves (depends on the header and the number of children only) *)
Definition node_ok (h : hdr) (n : nat) : Prop :=
  match h with
  | HCustom _ _ eb => custom_clean eb n = true
  | _ => True
  end.

Lemma tflat_node_inv c fuel h cs ls t b k cu :
  apply_pred c (Node h cs) = false -> get_kind c (Node h cs) = (k, cu) -> kind_eqb k KdLeaf = false ->
  wf_hdr h (length cs) = true ->
  tflat c (S fuel) (Node h cs) = Ok (ls, t, b) ->
  exists ch ts b0, visited c h cs = Ok ch /\ tflat_seq (tflat c fuel) ch = Ok (ls, ts, b0) /\
                   t = mkT (node_of k cu h (vkeys c h) (length ts)) ts /\ b = b0 || is_custom_kind k /\
                   node_ok h (length cs).
Proof.
  intros Hap Ek Kl Hw Hr. cbn [tflat] in Hr. rewrite Hap, Ek in Hr.
  destruct h; simpl in Ek.
  - destruct (c_nil c); injection Ek as <- <-; [discriminate Kl|].
    injection Hr as <- <- <-. simpl in Hw. apply Nat.eqb_eq in Hw. destruct cs; [|discriminate].
    exists [], [], false. repeat split.
  - injection Ek as <- <-. destruct (tflat_seq (tflat c fuel) cs) as [[[ls0 ts] b0]|] eqn:E; simpl in Hr; [|discriminate].
    injection Hr as <- <- <-. exists cs, ts, b0. repeat split; assumption.
  - injection Ek as <- <-. destruct (tflat_seq (tflat c fuel) cs) as [[[ls0 ts] b0]|] eqn:E; simpl in Hr; [|discriminate].
    injection Hr as <- <- <-. exists cs, ts, b0. repeat split; assumption.
  - injection Ek as <- <-. cbn [hdr_keys] in Hr. cbn zeta in Hr.
    destruct (mapM (child_by_key ks cs) (visit_keys c KdDict ks)) as [ch|] eqn:Em; simpl in Hr; [|discriminate].
    destruct (tflat_seq (tflat c fuel) ch) as [[[ls0 ts] b0]|] eqn:E; simpl in Hr; [|discriminate].
    injection Hr as <- <- <-. exists ch, ts, b0. repeat split; assumption.
  - injection Ek as <- <-. cbn [hdr_keys] in Hr. cbn zeta in Hr.
    destruct (mapM (child_by_key ks cs) (visit_keys c KdODict ks)) as [ch|] eqn:Em; simpl in Hr; [|discriminate].
    destruct (tflat_seq (tflat c fuel) ch) as [[[ls0 ts] b0]|] eqn:E; simpl in Hr; [|discriminate].
    injection Hr as <- <- <-. exists ch, ts, b0. repeat split; assumption.
  - injection Ek as <- <-. cbn [hdr_keys] in Hr. cbn zeta in Hr.
    destruct (mapM (child_by_key ks cs) (visit_keys c KdDDict ks)) as [ch|] eqn:Em; simpl in Hr; [|discriminate].
    destruct (tflat_seq (tflat c fuel) ch) as [[[ls0 ts] b0]|] eqn:E; simpl in Hr; [|discriminate].
    injection Hr as <- <- <-. exists ch, ts, b0. repeat split; assumption.
  - injection Ek as <- <-. destruct (tflat_seq (tflat c fuel) cs) as [[[ls0 ts] b0]|] eqn:E; simpl in Hr; [|discriminate].
    injection Hr as <- <- <-. exists cs, ts, b0. repeat split; assumption.
  - injection Ek as <- <-. destruct (tflat_seq (tflat c fuel) cs) as [[[ls0 ts] b0]|] eqn:E; simpl in Hr; [|discriminate].
    injection Hr as <- <- <-. exists cs, ts, b0. repeat split; assumption.
  - injection Ek as <- <-. destruct (tflat_seq (tflat c fuel) cs) as [[[ls0 ts] b0]|] eqn:E; simpl in Hr; [|discriminate].
    injection Hr as <- <- <-. exists cs, ts, b0. repeat split; assumption.
  - destruct (lookup_reg c cls) as [rg|]; injection Ek as <- <-; [|discriminate Kl].
    destruct eb as [| |es|x|x]; try discriminate Hr;
      (destruct (tflat_seq (tflat c fuel) cs) as [[[ls0 ts] b0]|] eqn:E; simpl in Hr; [|discriminate]).
    + injection Hr as <- <- <-. exists cs, ts, b0. repeat split; try assumption; reflexivity.
    + injection Hr as <- <- <-. exists cs, ts, b0. repeat split; try assumption; reflexivity.
    + destruct (Nat.eqb (length es) (length cs)) eqn:El; [|discriminate]. injection Hr as <- <- <-.
      exists cs, ts, b0. repeat split; try assumption; reflexivity.
Qed.

Lemma tflat_node_intro c fuel h cs ch ls ts b0 k cu :
  apply_pred c (Node h cs) = false -> get_kind c (Node h cs) = (k, cu) -> kind_eqb k KdLeaf = false ->
  wf_hdr h (length cs) = true -> node_ok h (length cs) ->
  visited c h cs = Ok ch -> tflat_seq (tflat c fuel) ch = Ok (ls, ts, b0) ->
  tflat c (S fuel) (Node h cs) = Ok (ls, mkT (node_of k cu h (vkeys c h) (length ts)) ts, b0 || is_custom_kind k).
Proof.
  intros Hap Ek Kl Hw Hok Hv Hs. cbn [tflat]. rewrite Hap, Ek.
  destruct h; simpl in Ek; cbn [visited] in Hv.
  - destruct (c_nil c); injection Ek as <- <-; [discriminate Kl|]. injection Hv as <-.
    simpl in Hw. apply Nat.eqb_eq in Hw. destruct cs; [|discriminate]. simpl in Hs. injection Hs as <- <- <-. reflexivity.
  - injection Ek as <- <-. injection Hv as <-. rewrite Hs. reflexivity.
  - injection Ek as <- <-. injection Hv as <-. rewrite Hs. reflexivity.
  - injection Ek as <- <-. cbn [hdr_keys]. cbn zeta. rewrite Hv. cbn [bind]. rewrite Hs. reflexivity.
  - injection Ek as <- <-. cbn [hdr_keys]. cbn zeta. rewrite Hv. cbn [bind]. rewrite Hs. reflexivity.
  - injection Ek as <- <-. cbn [hdr_keys]. cbn zeta. rewrite Hv. cbn [bind]. rewrite Hs. reflexivity.
  - injection Ek as <- <-. injection Hv as <-. rewrite Hs. reflexivity.
  - injection Ek as <- <-. injection Hv as <-. rewrite Hs. reflexivity.
  - injection Ek as <- <-. injection Hv as <-. rewrite Hs. reflexivity.
  - destruct (lookup_reg c cls) as [rg|]; injection Ek as <- <-; [|discriminate Kl]. injection Hv as <-.
    simpl in Hok. destruct eb as [| |es|x|x]; try discriminate Hok; rewrite Hs; cbn [bind]; try reflexivity.
    simpl in Hok. rewrite Hok. reflexivity.
Qed.

Lemma make_node_rebuild c h cs ch k cu n ts :
  get_kind c (Node h cs) = (k, cu) -> kind_eqb k KdLeaf = false -> wf_hdr h (length cs) = true ->
  visited c h cs = Ok ch -> length ch = length ts ->
  make_node (recount (node_of k cu h (vkeys c h) n) ts) ch = Ok (Node h cs).
Proof.
  intros Ek Kl Hw Hv Hl. unfold make_node. cbn [recount narity]. rewrite Hl, Nat.eqb_refl. cbn [negb].
  assert (Hdict : forall ks kk orig, wf_hdr (HDict ks) (length cs) = true ->
            mapM (child_by_key ks cs) (visit_keys c kk ks) = Ok ch ->
            (orig = Some ks \/ orig = None /\ visit_keys c kk ks = ks) ->
            dict_build orig (visit_keys c kk ks) ch = combine ks cs).
  { intros ks kk orig Hwk Hm Ho. simpl in Hwk. apply andb_true_iff in Hwk as [Hlen Hnd].
    apply Nat.eqb_eq in Hlen. apply keys_nodup_NoDup in Hnd.
    apply (dict_build_roundtrip ks cs _ ch orig Hnd Hlen (visit_keys_perm c kk ks) Hm Ho). }
  destruct h; simpl in Ek; cbn [visited] in Hv.
  - destruct (c_nil c); injection Ek as <- <-; [discriminate Kl|].
    simpl in Hw. apply Nat.eqb_eq in Hw. destruct cs; [|discriminate]. reflexivity.
  - injection Ek as <- <-. injection Hv as <-. reflexivity.
  - injection Ek as <- <-. injection Hv as <-. reflexivity.
  - injection Ek as <- <-. cbn [recount node_of raw_node nkind ndat norig vkeys hdr_keys].
    rewrite (Hdict ks KdDict (Some ks) Hw Hv (or_introl eq_refl)).
    simpl in Hw. apply andb_true_iff in Hw as [Hlen _]. apply Nat.eqb_eq in Hlen.
    rewrite map_fst_combine, map_snd_combine by exact Hlen. reflexivity.
  - injection Ek as <- <-. cbn [recount node_of raw_node nkind ndat norig vkeys hdr_keys].
    rewrite (Hdict ks KdODict None Hw Hv (or_intror (conj eq_refl eq_refl))).
    simpl in Hw. apply andb_true_iff in Hw as [Hlen _]. apply Nat.eqb_eq in Hlen.
    rewrite map_fst_combine, map_snd_combine by exact Hlen. reflexivity.
  - injection Ek as <- <-. cbn [recount node_of raw_node nkind ndat norig vkeys hdr_keys].
    rewrite (Hdict ks KdDDict (Some ks) Hw Hv (or_introl eq_refl)).
    simpl in Hw. apply andb_true_iff in Hw as [Hlen _]. apply Nat.eqb_eq in Hlen.
    rewrite map_fst_combine, map_snd_combine by exact Hlen. reflexivity.
  - injection Ek as <- <-. injection Hv as <-. reflexivity.
  - injection Ek as <- <-. injection Hv as <-. reflexivity.
  - injection Ek as <- <-. injection Hv as <-. reflexivity.
  - destruct (lookup_reg c cls) as [rg|] eqn:El; injection Ek as <- <-; [|discriminate Kl]. injection Hv as <-.
    apply lookup_reg_cls in El. cbn [recount node_of raw_node nkind ndat ncustom]. rewrite El. reflexivity.
Qed.

(* ---------- the substitution theorem ---------- *)
Definition r_l (r : tres) : list obj := fst (fst r).
Definition r_t (r : tres) : stree := snd (fst r).
Definition r_b (r : tres) : bool := snd r.

Definition SOK (c : cfg) (fuel : nat) (t : stree) (ls : list obj) (b : bool) : Prop :=
  forall f2 outs rs, length outs = length ls ->
  Forall2 (fun x r => tflat c f2 x = Ok r) outs rs -> forallb wf_obj outs = true ->
  exists o' t', wf_obj o' = true /\ Subst t (map r_t rs) t' /\
    (forall rn rl st, unflat (encode t ++ rn) (outs ++ rl) st = unflat rn rl (o' :: st)) /\
    tflat c (fuel + f2) o' = Ok (concat (map r_l rs), t', b || existsb r_b rs).

Lemma Forall2_firstn {A B} (R : A -> B -> Prop) n : forall l l', Forall2 R l l' -> Forall2 R (firstn n l) (firstn n l').
Proof. induction n; intros l l' H; [constructor|]. destruct H; simpl; constructor; auto. Qed.
Lemma Forall2_skipn {A B} (R : A -> B -> Prop) n : forall l l', Forall2 R l l' -> Forall2 R (skipn n l) (skipn n l').
Proof. induction n; intros l l' H; [exact H|]. destruct H; simpl; [constructor | auto]. Qed.
Lemma Forall2_len {A B} (R : A -> B -> Prop) l l' : Forall2 R l l' -> length l = length l'.
Proof. induction 1; simpl; congruence. Qed.

Lemma subst_seq c fuel : forall ch ls ts b0,
  (forall x lx tx bx, In x ch -> tflat c fuel x = Ok (lx, tx, bx) -> SOK c fuel tx lx bx) ->
  tflat_seq (tflat c fuel) ch = Ok (ls, ts, b0) ->
  forall f2 outs rs, length outs = length ls ->
  Forall2 (fun x r => tflat c f2 x = Ok r) outs rs -> forallb wf_obj outs = true ->
  exists ch' tss ts', length ch' = length ch /\ forallb wf_obj ch' = true /\
    SubstL ts tss ts' /\ concat tss = map r_t rs /\
    (forall rn rl st, unflat (flat_map encode ts ++ rn) (outs ++ rl) st = unflat rn rl (rev ch' ++ st)) /\
    tflat_seq (tflat c (fuel + f2)) ch' = Ok (concat (map r_l rs), ts', b0 || existsb r_b rs).
Proof.
  induction ch as [|x ch IH]; intros ls ts b0 HS Hr f2 outs rs Hl HF Hw; cbn [tflat_seq] in Hr.
  - injection Hr as <- <- <-. destruct outs; [|discriminate Hl]. inversion HF; subst.
    exists [], [], []. repeat split; try constructor.
  - destruct (tflat c fuel x) as [[[ls1 t1] b1]|] eqn:E1; cbn [bind] in Hr; [|discriminate].
    destruct (tflat_seq (tflat c fuel) ch) as [[[ls2 ts2] b2]|] eqn:E2; cbn [bind] in Hr; [|discriminate].
    injection Hr as <- <- <-. rewrite app_length in Hl.
    set (o1 := firstn (length ls1) outs). set (o2 := skipn (length ls1) outs).
    set (r1 := firstn (length ls1) rs). set (r2 := skipn (length ls1) rs).
    assert (L1 : length o1 = length ls1) by (unfold o1; rewrite firstn_length; lia).
    assert (L2 : length o2 = length ls2) by (unfold o2; rewrite skipn_length; lia).
    assert (F1 : Forall2 (fun x r => tflat c f2 x = Ok r) o1 r1) by (apply Forall2_firstn; exact HF).
    assert (F2 : Forall2 (fun x r => tflat c f2 x = Ok r) o2 r2) by (apply Forall2_skipn; exact HF).
    assert (Ho : outs = o1 ++ o2) by (symmetry; apply firstn_skipn).
    assert (Hrs : rs = r1 ++ r2) by (symmetry; apply firstn_skipn).
    rewrite Ho in Hw. rewrite forallb_app in Hw. apply andb_true_iff in Hw as [W1 W2].
    destruct (HS x ls1 t1 b1 (or_introl eq_refl) E1 f2 o1 r1 L1 F1 W1) as (x' & t1' & Wx & S1 & U1 & T1).
    destruct (IH ls2 ts2 b2 (fun y ly ty by0 Hy => HS y ly ty by0 (or_intror Hy)) eq_refl f2 o2 r2 L2 F2 W2)
      as (ch' & tss & ts' & Lc & Wc & SL & Hc & U2 & T2).
    exists (x' :: ch'), (map r_t r1 :: tss), (t1' :: ts'). repeat split.
    + simpl. congruence.
    + simpl. rewrite Wx, Wc. reflexivity.
    + constructor; assumption.
    + cbn [concat]. rewrite Hc, Hrs, map_app. reflexivity.
    + intros rn rl st. cbn [flat_map]. rewrite Ho, <- !app_assoc, U1, U2. cbn [rev]. rewrite <- app_assoc. reflexivity.
    + cbn [tflat_seq]. rewrite T1, T2. cbn [bind]. rewrite Hrs, !map_app, concat_app, existsb_app.
      f_equal. f_equal. destruct b1, b2, (existsb r_b r1), (existsb r_b r2); reflexivity.
Qed.

Lemma recount_node_of k cu h vks a a' ts ts' :
  recount (recount (node_of k cu h vks a) ts) ts' = recount (node_of k cu h vks a') ts'.
Proof.
  unfold recount. cbn [nkind ndat nentries ncustom norig].
  assert (H : forall x y, (nkind (node_of k cu h vks x), ndat (node_of k cu h vks x), nentries (node_of k cu h vks x),
                           ncustom (node_of k cu h vks x), norig (node_of k cu h vks x)) =
                          (nkind (node_of k cu h vks y), ndat (node_of k cu h vks y), nentries (node_of k cu h vks y),
                           ncustom (node_of k cu h vks y), norig (node_of k cu h vks y))).
  { intros x y. destruct k; try reflexivity; destruct h; reflexivity. }
  specialize (H a a'). injection H as -> -> -> -> ->. reflexivity.
Qed.

Lemma leaf_sok c fuel o : SOK c (S fuel) st_leaf [o] false.
Proof.
  intros f2 outs rs Hl HF Hw.
  destruct outs as [|x [|? ?]]; try discriminate Hl. inversion HF as [|? r ? rs' Hx Hrest]; subst. inversion Hrest; subst.
  simpl in Hw. rewrite andb_true_r in Hw.
  exists x, (r_t r). split; [exact Hw|]. split; [constructor; reflexivity|]. split; [intros; reflexivity|].
  rewrite Nat.add_comm. rewrite (tflat_fuel_mono_plus c (S fuel) f2 x r Hx).
  destruct r as [[l t] b]. simpl. rewrite app_nil_r, orb_false_r. reflexivity.
Qed.

Theorem subst_ok c : c_pred c = None -> forall fuel o ls t b,
  wf_obj o = true -> tflat c fuel o = Ok (ls, t, b) -> SOK c fuel t ls b.
Proof.
  intros Hp. assert (Hap : forall x, apply_pred c x = false) by (intros; unfold apply_pred; rewrite Hp; reflexivity).
  induction fuel as [|fuel IH]; intros o ls t b Hwf Hr; [discriminate|].
  destruct o as [id|h cs].
  { cbn [tflat] in Hr. rewrite Hap in Hr. destruct (get_kind c (Leaf id)). injection Hr as <- <- <-. apply leaf_sok. }
  destruct (get_kind c (Node h cs)) as [k cu] eqn:Ek.
  destruct (kind_eqb k KdLeaf) eqn:Kl.
  { apply kind_eqb_eq in Kl. subst k. cbn [tflat] in Hr. rewrite Hap, Ek in Hr. injection Hr as <- <- <-. apply leaf_sok. }
  simpl in Hwf. apply andb_true_iff in Hwf as [Hwh Hwcs].
  destruct (tflat_node_inv c fuel h cs ls t b k cu (Hap _) Ek Kl Hwh Hr) as (ch & ts & b0 & Hv & Hseq & -> & -> & Hok).
  intros f2 outs rs Hl HF Hw.
  assert (Hsub : forall x, In x ch -> In x cs).
  { intros x Hx. destruct h; cbn [visited] in Hv; try (injection Hv as <-; exact Hx);
      exact (proj2 (proj2 (mapM_child_by_key _ _ _ _ Hv)) x Hx). }
  destruct (subst_seq c fuel ch ls ts b0) with (f2 := f2) (outs := outs) (rs := rs)
    as (ch' & tss & ts' & Lc & Wc & SL & Hc & U & Tq); try assumption.
  { intros x lx tx bx Hx Hf. apply (IH x lx tx bx); [|exact Hf]. exact (forallb_In _ _ _ Hwcs (Hsub x Hx)). }
  destruct (restore_spec c h cs ch ch' Hwh Hv Lc) as (Lr & Vr & Inr).
  set (cs' := restore c h ch') in *.
  assert (Hwh' : wf_hdr h (length cs') = true) by (rewrite Lr; exact Hwh).
  assert (Ek' : get_kind c (Node h cs') = (k, cu)) by (rewrite <- Ek; reflexivity).
  pose proof (tflat_seq_length _ _ _ _ _ Hseq) as Lts. pose proof (SubstL_length _ _ _ SL) as Lts'.
  exists (Node h cs'), (mkT (node_of k cu h (vkeys c h) (length ts')) ts').
  split; [|split; [|split]].
  - simpl. rewrite Hwh'. apply forallb_forall. intros x Hx. exact (forallb_In _ _ _ Wc (Inr x Hx)).
  - rewrite <- Hc. unfold mkT at 2. rewrite <- (recount_node_of k cu h (vkeys c h) (length ts) (length ts') ts ts').
    unfold mkT. apply (SubNode (recount (node_of k cu h (vkeys c h) (length ts)) ts) ts tss ts'); [|exact SL].
    unfold is_leaf_node. cbn [recount nkind]. rewrite node_of_kind. exact Kl.
  - intros rn rl st. unfold mkT. cbn [encode]. rewrite <- app_assoc. cbn [app]. rewrite U.
    apply unflat_node.
    + cbn [recount nkind]. rewrite node_of_kind. intros ->. discriminate Kl.
    + cbn [recount narity]. congruence.
    + apply (make_node_rebuild c h cs' ch' k cu (length ts) ts Ek' Kl Hwh' Vr). congruence.
  - change (S fuel + f2)%nat with (S (fuel + f2)).
    rewrite (tflat_node_intro c (fuel + f2) h cs' ch' (concat (map r_l rs)) ts' (b0 || existsb r_b rs) k cu (Hap _) Ek' Kl Hwh'); [| |exact Vr | exact Tq].
    + f_equal. f_equal. destruct b0, (is_custom_kind k), (existsb r_b rs); reflexivity.
    + unfold node_ok in *. rewrite Lr. exact Hok.
Qed.

(* ---------- at the level of flatten / unflatten ---------- *)
Theorem unflatten_trees_then_flatten c o ls sp outs rs f2 :
  c_pred c = None -> wf_obj o = true -> flatten c o = Ok (ls, sp) ->
  length outs = length ls -> Forall2 (fun x r => tflat c f2 x = Ok r) outs rs -> forallb wf_obj outs = true ->
  exists o' t t' b, decode (trav sp) = Some t /\
    unflatten sp outs = Ok o' /\ wf_obj o' = true /\ Subst t (map r_t rs) t' /\
    tflat c (S (c_limit c) + f2) o' = Ok (concat (map r_l rs), t', b || existsb r_b rs).
Proof.
  intros Hp Hwf Hf Hl HF Hw. unfold flatten in Hf.
  destruct (flat c (S (c_limit c)) o) as [[[ls' ns] b]|] eqn:E; [|discriminate].
  cbn [bind] in Hf. injection Hf as <- <-.
  destruct (tflat_of_flat c _ o _ _ _ E) as (t & Ht & -> & Hwt).
  destruct (subst_ok c Hp _ o ls' t b Hwf Ht f2 outs rs Hl HF Hw) as (o' & t' & Wo & HS & U & HT).
  exists o', t, t', b. split; [cbn [trav]; apply decode_encode; apply wf_arity_ok; exact Hwt|].
  split; [|split; [exact Wo | split; [exact HS | exact HT]]].
  unfold unflatten. destruct (flat_sanity _ _ _ _ E) as [Hne Hlast]. unfold r_ns in Hne, Hlast. cbn [fst snd] in Hne, Hlast.
  unfold sanity. cbn [trav]. rewrite Hlast, Nat.eqb_refl. destruct (encode t) as [|n0 ns0] eqn:En; [contradiction|].
  pose proof (U [] [] []) as H. rewrite !app_nil_r in H. exact H.
Qed.

(* the leaves flatten returns are leaves for the configuration (no predicate) and well-formed *)
Lemma tflat_leaves_leaflike c : c_pred c = None -> forall fuel o ls t b,
  wf_obj o = true -> tflat c fuel o = Ok (ls, t, b) -> forallb (leaflike c) ls = true.
Proof.
  intros Hp. assert (Hap : forall x, apply_pred c x = false) by (intros; unfold apply_pred; rewrite Hp; reflexivity).
  induction fuel as [|fuel IH]; intros o ls t b Hwf Hr; [discriminate|].
  assert (Hleaf : forall k cu, get_kind c o = (k, cu) -> k = KdLeaf -> forallb (leaflike c) [o] = true).
  { intros k cu Ek ->. simpl. rewrite andb_true_r. unfold leaflike. rewrite Hwf. destruct o; [reflexivity|]. rewrite Ek. reflexivity. }
  destruct o as [id|h cs].
  { cbn [tflat] in Hr. rewrite Hap in Hr. destruct (get_kind c (Leaf id)). injection Hr as <- <- <-. reflexivity. }
  destruct (get_kind c (Node h cs)) as [k cu] eqn:Ek.
  destruct (kind_eqb k KdLeaf) eqn:Kl.
  { apply kind_eqb_eq in Kl. subst k. cbn [tflat] in Hr. rewrite Hap, Ek in Hr. injection Hr as <- <- <-. apply (Hleaf _ _ eq_refl eq_refl). }
  pose proof Hwf as Hwf0. simpl in Hwf. apply andb_true_iff in Hwf as [Hwh Hwcs].
  destruct (tflat_node_inv c fuel h cs ls t b k cu (Hap _) Ek Kl Hwh Hr) as (ch & ts & b0 & Hv & Hseq & _ & _ & _).
  assert (Hsub : forall x, In x ch -> In x cs).
  { intros x Hx. destruct h; cbn [visited] in Hv; try (injection Hv as <-; exact Hx);
      exact (proj2 (proj2 (mapM_child_by_key _ _ _ _ Hv)) x Hx). }
  clear - IH Hseq Hsub Hwcs. revert ls ts b0 Hseq. induction ch as [|x ch IHc]; intros ls ts b0 Hseq; cbn [tflat_seq] in Hseq.
  - injection Hseq as <- <- <-. reflexivity.
  - destruct (tflat c fuel x) as [[[ls1 t1] b1]|] eqn:E1; cbn [bind] in Hseq; [|discriminate].
    destruct (tflat_seq (tflat c fuel) ch) as [[[ls2 ts2] b2]|] eqn:E2; cbn [bind] in Hseq; [|discriminate].
    injection Hseq as <- <- <-. rewrite forallb_app.
    rewrite (IH x ls1 t1 b1 (forallb_In _ _ _ Hwcs (Hsub x (or_introl eq_refl))) E1).
    rewrite (IHc (fun y Hy => Hsub y (or_intror Hy)) ls2 ts2 b2 eq_refl). reflexivity.
Qed.
