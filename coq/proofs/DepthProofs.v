(* DepthProofs.v — the three traversals hit the depth limit at exactly the same depth (property C16),
   and the checked item accesses keep a traversal of a container that user code mutates in bounds. *)
From OptreeModel Require Import Base Tree Flatten Unflatten Spec Depth.
From OptreeProofs Require Import BaseProofs RoundTrip SpecProofs TraversalProofs FaultProofs.
From Coq Require Import Permutation.

(* ================= maxd ================= *)
Lemma maxd_le d l n : (maxd d l <= n)%nat <-> (forall x, In x l -> (d x <= n)%nat).
Proof.
  induction l as [|y l IH]; simpl.
  - split; [intros _ x [] | intros _; lia].
  - split.
    + intros H x [<-|Hx]; [lia | apply IH; [lia | exact Hx]].
    + intros H. apply Nat.max_lub; [apply H; left; reflexivity | apply IH; intros; apply H; right; assumption].
Qed.

Lemma maxd_gt d l n : (n < maxd d l)%nat <-> (exists x, In x l /\ (n < d x)%nat).
Proof.
  induction l as [|y l IH]; simpl.
  - split; [lia | intros (x & [] & _)].
  - split.
    + intros H. destruct (le_lt_dec (d y) n) as [Hy|Hy].
      * destruct (proj1 IH ltac:(lia)) as (x & Hx & Hd). exists x. auto.
      * exists y. auto.
    + intros (x & [<-|Hx] & Hd); [lia|]. assert (n < maxd d l)%nat by (apply IH; eauto). lia.
Qed.

Lemma maxd_same_elements d l l' :
  (forall x, In x l -> In x l') -> (forall x, In x l' -> In x l) -> maxd d l = maxd d l'.
Proof.
  intros H1 H2. apply Nat.le_antisymm; apply maxd_le; intros x Hx.
  - assert (Hle : (maxd d l' <= maxd d l')%nat) by lia. apply (proj1 (maxd_le d l' _) Hle). auto.
  - assert (Hle : (maxd d l <= maxd d l)%nat) by lia. apply (proj1 (maxd_le d l _) Hle). auto.
Qed.

(* ================= unfolding ================= *)
Lemma vdepth_pos c o : (1 <= vdepth c o)%nat.
Proof.
  destruct o as [id|h cs]; cbn [vdepth].
  - destruct (apply_pred c (Leaf id)); lia.
  - destruct (apply_pred c (Node h cs)); [lia|].
    destruct (fst (get_kind c (Node h cs))); lia.
Qed.

Lemma vdepth_node c h cs :
  vdepth c (Node h cs) =
  if apply_pred c (Node h cs) then 1%nat else
  match fst (get_kind c (Node h cs)) with
  | KdLeaf | KdNone => 1%nat
  | _ => S (maxd (vdepth c) cs)
  end.
Proof. reflexivity. Qed.

Lemma clean_node c h cs :
  clean c (Node h cs) =
  if apply_pred c (Node h cs) then true else
  match fst (get_kind c (Node h cs)) with
  | KdLeaf | KdNone => true
  | KdCustom =>
    match h with HCustom _ _ eb => custom_clean eb (length cs) | _ => false end && forallb (clean c) cs
  | _ => forallb (clean c) cs
  end.
Proof. reflexivity. Qed.

(* ================= the recursive flatten ================= *)
Definition thr (f : obj -> res fres) (d : obj -> nat) (fuel : nat) (x : obj) : Prop :=
  ((d x <= fuel)%nat -> exists r, f x = Ok r) /\ ((fuel < d x)%nat -> f x = Err RecursionError).

Lemma flat_seq_thr (f : obj -> res fres) d fuel ch :
  (forall x, In x ch -> thr f d fuel x) ->
  ((maxd d ch <= fuel)%nat -> exists r, flat_seq f ch = Ok r) /\
  ((fuel < maxd d ch)%nat -> flat_seq f ch = Err RecursionError).
Proof.
  induction ch as [|x ch IH]; intros H; simpl.
  - split; [eauto | lia].
  - destruct (H x (or_introl eq_refl)) as [Hok Herr].
    destruct (IH (fun y Hy => H y (or_intror Hy))) as [IHok IHerr].
    split.
    + intros Hm. destruct (Hok ltac:(lia)) as (r1 & ->). destruct (IHok ltac:(lia)) as (r2 & ->).
      simpl. destruct r1 as [[? ?] ?], r2 as [[? ?] ?]. eauto.
    + intros Hm. destruct (le_lt_dec (d x) fuel) as [Hx|Hx].
      * destruct (Hok Hx) as (r1 & ->). rewrite (IHerr ltac:(lia)). reflexivity.
      * rewrite (Herr Hx). reflexivity.
Qed.

Lemma mapM_In_result {A B} (f : A -> res B) : forall l r a b,
  mapM f l = Ok r -> In a l -> f a = Ok b -> In b r.
Proof.
  induction l as [|x l IH]; intros r a b Hm Ha Hf; [destruct Ha|].
  simpl in Hm. destruct (f x) as [y|] eqn:Ex; simpl in Hm; [|discriminate].
  destruct (mapM f l) as [ys|] eqn:Em; simpl in Hm; [|discriminate]. injection Hm as <-.
  destruct Ha as [<-|Ha]; [left; congruence | right; eapply IH; eauto].
Qed.

Lemma lookup_combine_nth ks : forall (cs : list obj) i x,
  NoDup ks -> length ks = length cs -> nth_error cs i = Some x ->
  exists k, nth_error ks i = Some k /\ lookup k (combine ks cs) = Some x.
Proof.
  induction ks as [|k ks IH]; intros [|c0 cs] i x Hnd Hlen Hn; simpl in *; try discriminate.
  - destruct i; discriminate.
  - inversion Hnd as [|? ? Hnin Hnd']; subst. destruct i as [|i].
    + injection Hn as <-. exists k. rewrite key_eqb_refl. auto.
    + destruct (IH cs i x Hnd' ltac:(lia) Hn) as (k' & Hk' & Hl). exists k'. split; [exact Hk'|].
      destruct (key_eqb k' k) eqn:E; [|exact Hl].
      apply key_eqb_eq in E. subst. exfalso. apply Hnin. eapply nth_error_In; eauto.
Qed.

Lemma children_all_visited ks cs vks ch :
  NoDup ks -> length ks = length cs -> (forall k, In k ks -> In k vks) ->
  mapM (child_by_key ks cs) vks = Ok ch -> forall x, In x cs -> In x ch.
Proof.
  intros Hnd Hlen Hsub Hm x Hx.
  apply In_nth_error in Hx as (i & Hi).
  destruct (lookup_combine_nth ks cs i x Hnd Hlen Hi) as (k & Hk & Hl).
  eapply mapM_In_result; [exact Hm | apply Hsub; eapply nth_error_In; eauto |].
  unfold child_by_key. rewrite Hl. reflexivity.
Qed.

Lemma get_kind_dict_hdr c h cs k cu :
  get_kind c (Node h cs) = (k, cu) -> (k = KdDict \/ k = KdODict \/ k = KdDDict) ->
  exists ks, hdr_keys h = Some ks.
Proof.
  intros H Hk. destruct h; simpl in H; try (destruct (c_nil c)); try (destruct (lookup_reg c cls));
    injection H as <- <-; destruct Hk as [Hk|[Hk|Hk]]; try discriminate; simpl; eauto.
Qed.

Theorem flat_threshold c : forall fuel o,
  wf_obj o = true -> clean c o = true -> thr (flat c fuel) (vdepth c) fuel o.
Proof.
  induction fuel as [|fuel IH]; intros o Hwf Hcl.
  { split; [pose proof (vdepth_pos c o); lia | reflexivity]. }
  destruct o as [id|h cs].
  { unfold thr. cbn [vdepth flat]. destruct (apply_pred c (Leaf id)); cbn [get_kind]; split; intros; try lia; eauto. }
  unfold thr. rewrite vdepth_node. rewrite clean_node in Hcl. cbn [flat].
  destruct (apply_pred c (Node h cs)) eqn:Ep; [split; intros; [eauto | lia]|].
  destruct (get_kind c (Node h cs)) as [k cu] eqn:Ek. cbn [fst] in *.
  simpl in Hwf. apply andb_true_iff in Hwf as [Hwh Hwcs].
  assert (Hch : forall ch, (forall x, In x ch -> In x cs) -> forallb (clean c) cs = true ->
                forall x, In x ch -> thr (flat c fuel) (vdepth c) fuel x).
  { intros ch Hsub Hc x Hx. apply IH; eapply forallb_In; eauto. }
  assert (Hseq : forall (g : fres -> fres), forallb (clean c) cs = true ->
     ((S (maxd (vdepth c) cs) <= S fuel)%nat ->
        exists r, (do r <- flat_seq (flat c fuel) cs ;; Ok (g r)) = Ok r) /\
     ((S fuel < S (maxd (vdepth c) cs))%nat ->
        (do r <- flat_seq (flat c fuel) cs ;; Ok (g r)) = Err RecursionError)).
  { intros g Hc. destruct (flat_seq_thr (flat c fuel) (vdepth c) fuel cs (Hch cs (fun x H => H) Hc)) as [A B].
    split; intros Hd.
    - destruct (A ltac:(lia)) as (r & ->). simpl. eauto.
    - rewrite (B ltac:(lia)). reflexivity. }
  assert (Hdict : forall ks (g : list obj -> fres -> fres), hdr_keys h = Some ks ->
     forallb (clean c) cs = true ->
     ((S (maxd (vdepth c) cs) <= S fuel)%nat ->
        exists r, (do ch <- mapM (child_by_key ks cs) (visit_keys c k ks) ;;
                   do r <- flat_seq (flat c fuel) ch ;; Ok (g ch r)) = Ok r) /\
     ((S fuel < S (maxd (vdepth c) cs))%nat ->
        (do ch <- mapM (child_by_key ks cs) (visit_keys c k ks) ;;
         do r <- flat_seq (flat c fuel) ch ;; Ok (g ch r)) = Err RecursionError)).
  { intros ks g Hk Hc.
    assert (Hw : length ks = length cs /\ NoDup ks).
    { destruct h; simpl in Hk; try discriminate; injection Hk as ->; simpl in Hwh;
        apply andb_true_iff in Hwh as [Hl Hn]; apply Nat.eqb_eq in Hl; apply keys_nodup_NoDup in Hn; auto. }
    destruct Hw as [Hlen Hnd].
    destruct (mapM_child_by_key_ok ks cs (visit_keys c k ks) Hnd Hlen) as (ch & Hm).
    { intros k0 Hk0. eapply Permutation_in; [apply visit_keys_perm | exact Hk0]. }
    rewrite Hm. cbn [bind].
    destruct (mapM_child_by_key _ _ _ _ Hm) as (_ & _ & Hsub).
    assert (Hsup : forall x, In x cs -> In x ch).
    { apply (children_all_visited ks cs (visit_keys c k ks) ch Hnd Hlen); [|exact Hm]. intros k0 Hk0.
      eapply Permutation_in; [symmetry; apply visit_keys_perm | exact Hk0]. }
    rewrite (maxd_same_elements (vdepth c) cs ch Hsup Hsub).
    destruct (flat_seq_thr (flat c fuel) (vdepth c) fuel ch (Hch ch Hsub Hc)) as [A B].
    split; intros Hd.
    - destruct (A ltac:(lia)) as (r & ->). simpl. eauto.
    - rewrite (B ltac:(lia)). reflexivity. }
  destruct k.
  - (* custom *)
    apply andb_true_iff in Hcl as [Hcb Hcc].
    destruct h; try discriminate Hcb.
    destruct eb; try discriminate Hcb.
    + destruct (Hseq (fun r => r) Hcc) as [A B]. split; intros Hd.
      * destruct (flat_seq_thr (flat c fuel) (vdepth c) fuel cs (Hch cs (fun x H => H) Hcc)) as [A' _].
        destruct (A' ltac:(lia)) as ([[ls ns] b] & ->). simpl. eauto.
      * destruct (flat_seq_thr (flat c fuel) (vdepth c) fuel cs (Hch cs (fun x H => H) Hcc)) as [_ B'].
        rewrite (B' ltac:(lia)). reflexivity.
    + split; intros Hd.
      * destruct (flat_seq_thr (flat c fuel) (vdepth c) fuel cs (Hch cs (fun x H => H) Hcc)) as [A' _].
        destruct (A' ltac:(lia)) as ([[ls ns] b] & ->). simpl. eauto.
      * destruct (flat_seq_thr (flat c fuel) (vdepth c) fuel cs (Hch cs (fun x H => H) Hcc)) as [_ B'].
        rewrite (B' ltac:(lia)). reflexivity.
    + simpl in Hcb. split; intros Hd.
      * destruct (flat_seq_thr (flat c fuel) (vdepth c) fuel cs (Hch cs (fun x H => H) Hcc)) as [A' _].
        destruct (A' ltac:(lia)) as ([[ls ns] b] & ->). simpl. rewrite Hcb. eauto.
      * destruct (flat_seq_thr (flat c fuel) (vdepth c) fuel cs (Hch cs (fun x H => H) Hcc)) as [_ B'].
        rewrite (B' ltac:(lia)). reflexivity.
  - split; intros; [eauto | lia].
  - split; intros; [eauto | lia].
  - apply (Hseq (mk_node KdTuple (length cs) DNone None None None) Hcl).
  - apply (Hseq (mk_node KdList (length cs) DNone None None None) Hcl).
  - destruct (get_kind_dict_hdr c h cs _ _ Ek ltac:(auto)) as (ks & Hk). rewrite Hk.
    apply (Hdict ks (fun ch r => mk_node KdDict (length ks)
             match h with HDDict f _ => DDefault f (visit_keys c KdDict ks) | _ => DKeys (visit_keys c KdDict ks) end
             None None (Some ks) r) Hk Hcl).
  - apply (Hseq (mk_node KdNamed (length cs) (DClass match h with HNamed x | HStruct x => x | _ => 0 end) None None None) Hcl).
  - destruct (get_kind_dict_hdr c h cs _ _ Ek ltac:(auto)) as (ks & Hk). rewrite Hk.
    apply (Hdict ks (fun ch r => mk_node KdODict (length ks)
             match h with HDDict f _ => DDefault f (visit_keys c KdODict ks) | _ => DKeys (visit_keys c KdODict ks) end
             None None None r) Hk Hcl).
  - destruct (get_kind_dict_hdr c h cs _ _ Ek ltac:(auto)) as (ks & Hk). rewrite Hk.
    apply (Hdict ks (fun ch r => mk_node KdDDict (length ks)
             match h with HDDict f _ => DDefault f (visit_keys c KdDDict ks) | _ => DKeys (visit_keys c KdDDict ks) end
             None None (Some ks) r) Hk Hcl).
  - apply (Hseq (mk_node KdDeque (length cs) (DMaxlen match h with HDeque m => m | _ => None end) None None None) Hcl).
  - apply (Hseq (mk_node KdStruct (length cs) (DClass match h with HNamed x | HStruct x => x | _ => 0 end) None None None) Hcl).
Qed.

(* ================= flatten with path ================= *)
Lemma flatp_seq_err (f : list key -> obj -> res pres) stk l e :
  flatp_seq f stk l = Err e -> exists e' x, In (e', x) l /\ f (e' :: stk) x = Err e.
Proof.
  induction l as [|[e' x] l IH]; simpl; [discriminate|].
  destruct (f (e' :: stk) x) as [[[[ps1 ls1] ns1] b1]|e1] eqn:E1; simpl.
  - destruct (flatp_seq f stk l) as [[[[ps2 ls2] ns2] b2]|e2] eqn:E2; simpl; [discriminate|].
    intros [= <-]. destruct (IH eq_refl) as (e'' & y & Hy & Hf). eauto.
  - intros [= <-]. eauto.
Qed.

(* on a clean tree the only way flatten-with-path can fail is the depth limit *)
Theorem flat_path_only_rec c : forall fuel o stk e,
  wf_obj o = true -> clean c o = true -> flat_path c fuel stk o = Err e -> e = RecursionError.
Proof.
  induction fuel as [|fuel IH]; intros o stk e Hwf Hcl He; [injection He as <-; reflexivity|].
  destruct o as [id|h cs].
  { cbn [flat_path] in He. destruct (apply_pred c (Leaf id)); discriminate. }
  rewrite clean_node in Hcl. cbn [flat_path] in He.
  destruct (apply_pred c (Node h cs)) eqn:Ep; [discriminate|].
  destruct (get_kind c (Node h cs)) as [k cu] eqn:Ek. cbn [fst] in *.
  simpl in Hwf. apply andb_true_iff in Hwf as [Hwh Hwcs].
  assert (Hseq : forall l, (forall e' x, In (e', x) l -> In x cs) -> forallb (clean c) cs = true ->
                 flatp_seq (flat_path c fuel) stk l = Err e -> e = RecursionError).
  { intros l Hsub Hc Hs. destruct (flatp_seq_err _ _ _ _ Hs) as (e' & x & Hx & Hf).
    eapply IH; [| |exact Hf]; eapply forallb_In; eauto. }
  assert (Hpos : forall e' x, In (e', x) (combine (pos_keys (length cs) 0) cs) -> In x cs).
  { intros e' x H. eapply in_combine_r; eauto. }
  assert (Hdict : forall ks, hdr_keys h = Some ks -> forallb (clean c) cs = true ->
     forall (g : list obj -> pres -> pres),
     (do ch <- mapM (child_by_key ks cs) (visit_keys c k ks) ;;
      do r <- flatp_seq (flat_path c fuel) stk (combine (visit_keys c k ks) ch) ;; Ok (g ch r)) = Err e ->
     e = RecursionError).
  { intros ks Hk Hc g Hd.
    assert (Hw : length ks = length cs /\ NoDup ks).
    { destruct h; simpl in Hk; try discriminate; injection Hk as ->; simpl in Hwh;
        apply andb_true_iff in Hwh as [Hl Hn]; apply Nat.eqb_eq in Hl; apply keys_nodup_NoDup in Hn; auto. }
    destruct Hw as [Hlen Hnd].
    destruct (mapM_child_by_key_ok ks cs (visit_keys c k ks) Hnd Hlen) as (ch & Hm).
    { intros k0 Hk0. eapply Permutation_in; [apply visit_keys_perm | exact Hk0]. }
    rewrite Hm in Hd. cbn [bind] in Hd.
    destruct (mapM_child_by_key _ _ _ _ Hm) as (_ & _ & Hsub).
    destruct (flatp_seq (flat_path c fuel) stk (combine (visit_keys c k ks) ch)) as [r|e1] eqn:E;
      simpl in Hd; [discriminate|]. injection Hd as <-.
    eapply (Hseq _ (fun e' x H => Hsub x (in_combine_r _ _ _ _ H)) Hc E). }
  destruct k; try discriminate;
    try (destruct (flatp_seq (flat_path c fuel) stk (combine (pos_keys (length cs) 0) cs)) as [r|e1] eqn:E;
         simpl in He; [discriminate|]; injection He as <-; apply (Hseq _ Hpos Hcl E)).
  - (* custom *)
    apply andb_true_iff in Hcl as [Hcb Hcc].
    destruct h; try discriminate Hcb.
    destruct eb; try discriminate Hcb.
    + destruct (flatp_seq (flat_path c fuel) stk (combine (pos_keys (length cs) 0) cs)) as [[[[ps ls] ns] b]|e1] eqn:E;
        simpl in He; [discriminate|]. injection He as <-. apply (Hseq _ Hpos Hcc E).
    + destruct (flatp_seq (flat_path c fuel) stk (combine (pos_keys (length cs) 0) cs)) as [[[[ps ls] ns] b]|e1] eqn:E;
        simpl in He; [discriminate|]. injection He as <-. apply (Hseq _ Hpos Hcc E).
    + simpl in Hcb. rewrite flatp_custom_combine in He by (apply Nat.eqb_eq; exact Hcb).
      destruct (flatp_seq (flat_path c fuel) stk (combine es cs)) as [[[[ps ls] ns] b]|e1] eqn:E; simpl in He.
      * rewrite Hcb in He. discriminate.
      * injection He as <-. apply (Hseq _ (fun e' x H => in_combine_r _ _ _ _ H) Hcc E).
  - destruct (get_kind_dict_hdr c h cs _ _ Ek ltac:(auto)) as (ks & Hk). rewrite Hk in He.
    eapply (Hdict ks Hk Hcl (fun ch r => mk_pnode KdDict (length ks) _ None None (Some ks) r)). exact He.
  - destruct (get_kind_dict_hdr c h cs _ _ Ek ltac:(auto)) as (ks & Hk). rewrite Hk in He.
    eapply (Hdict ks Hk Hcl (fun ch r => mk_pnode KdODict (length ks) _ None None None r)). exact He.
  - destruct (get_kind_dict_hdr c h cs _ _ Ek ltac:(auto)) as (ks & Hk). rewrite Hk in He.
    eapply (Hdict ks Hk Hcl (fun ch r => mk_pnode KdDDict (length ks) _ None None (Some ks) r)). exact He.
Qed.

Theorem flat_path_threshold c fuel o stk :
  wf_obj o = true -> clean c o = true ->
  ((vdepth c o <= fuel)%nat -> exists r, flat_path c fuel stk o = Ok r) /\
  ((fuel < vdepth c o)%nat -> flat_path c fuel stk o = Err RecursionError).
Proof.
  intros Hwf Hcl. destruct (flat_threshold c fuel o Hwf Hcl) as [A B]. split; intros Hd.
  - destruct (A Hd) as (r & Hr). destruct (flat_flat_path c fuel o stk r Hr) as (ps & Hp & _). eauto.
  - destruct (flat_path c fuel stk o) as [r|e] eqn:E.
    + apply flat_path_flat in E. rewrite (B Hd) in E. discriminate.
    + f_equal. eapply flat_path_only_rec; eauto.
Qed.

(* ================= the iterator ================= *)
Definition osum (l : list obj) : nat := fold_right (fun x a => obj_size x + a)%nat 0%nat l.

Lemma obj_size_node h cs : obj_size (Node h cs) = S (osum cs).
Proof. reflexivity. Qed.

Lemma osum_perm l l' : Permutation l l' -> osum l = osum l'.
Proof. induction 1; simpl; lia. Qed.

Lemma obj_size_pos o : (1 <= obj_size o)%nat.
Proof. destruct o; simpl; lia. Qed.

Lemma mapM_child_map ks cs : forall vks ch,
  mapM (child_by_key ks cs) vks = Ok ch ->
  map Some ch = map (fun k => lookup k (combine ks cs)) vks.
Proof.
  induction vks as [|k vks IH]; intros ch H; simpl in H.
  - injection H as <-. reflexivity.
  - unfold child_by_key at 1 in H. destruct (lookup k (combine ks cs)) as [x|] eqn:El; simpl in H; [|discriminate].
    destruct (mapM (child_by_key ks cs) vks) as [ch'|] eqn:Em; simpl in H; [|discriminate].
    injection H as <-. simpl. rewrite El, (IH ch' eq_refl). reflexivity.
Qed.

Lemma lookup_all ks : forall (cs : list obj),
  NoDup ks -> length ks = length cs ->
  map (fun k => lookup k (combine ks cs)) ks = map Some cs.
Proof.
  induction ks as [|k ks IH]; intros [|x cs] Hnd Hlen; simpl in *; try discriminate; [reflexivity|].
  inversion Hnd as [|? ? Hnin Hnd']; subst. rewrite key_eqb_refl. f_equal.
  rewrite <- (IH cs Hnd' ltac:(lia)). apply map_ext_in. intros k' Hk'.
  destruct (key_eqb k' k) eqn:E; [|reflexivity]. apply key_eqb_eq in E. subst. contradiction.
Qed.

Lemma map_Some_inj {A} : forall (l l' : list A), map Some l = map Some l' -> l = l'.
Proof.
  induction l as [|x l IH]; intros [|y l'] H; simpl in H; try discriminate; [reflexivity|].
  injection H as -> H. f_equal. auto.
Qed.

Lemma children_perm ks cs vks ch :
  NoDup ks -> length ks = length cs -> Permutation vks ks ->
  mapM (child_by_key ks cs) vks = Ok ch -> Permutation ch cs.
Proof.
  intros Hnd Hlen Hp Hm.
  pose proof (mapM_child_map ks cs vks ch Hm) as H1.
  pose proof (Permutation_map (fun k => lookup k (combine ks cs)) Hp) as H2.
  rewrite <- H1, (lookup_all ks cs Hnd Hlen) in H2.
  apply Permutation_sym in H2.
  destruct (Permutation_map_inv _ _ H2) as (l3 & Heq & Hp3).
  apply map_Some_inj in Heq. subst l3. exact Hp3.
Qed.

(* one visit of a clean object, as both the recursive flatten and the iterator see it *)
Definition view (c : cfg) (f : nat) (o : obj) : Prop :=
  ((forall ag, iter_expand c o f ag = Ok (Some o, ag)) /\
   flat c (S f) o = Ok ([o], [leaf_node], false)) \/
  (exists ch (G : fres -> fres),
     (exists h cs, o = Node h cs /\ Permutation ch cs) /\
     (forall ag, iter_expand c o f ag = Ok (None, push_children ch f ag)) /\
     flat c (S f) o = (do r <- flat_seq (flat c f) ch ;; Ok (G r)) /\
     (forall r, length (r_ns (G r)) = S (length (r_ns r)))).

Lemma clean_view c f o : wf_obj o = true -> clean c o = true -> view c f o.
Proof.
  intros Hwf Hcl. unfold view. destruct o as [id|h cs].
  { left. cbn [flat]. unfold iter_expand. destruct (apply_pred c (Leaf id)); cbn [get_kind]; auto. }
  rewrite clean_node in Hcl. cbn [flat]. unfold iter_expand.
  destruct (apply_pred c (Node h cs)) eqn:Ep; [left; auto|].
  destruct (get_kind c (Node h cs)) as [k cu] eqn:Ek. cbn [fst] in *.
  simpl in Hwf. apply andb_true_iff in Hwf as [Hwh Hwcs].
  assert (Hseq : forall (G0 : fres -> fres), (forall r, length (r_ns (G0 r)) = S (length (r_ns r))) ->
            exists ch (G : fres -> fres),
              (exists h0 cs0, Node h cs = Node h0 cs0 /\ Permutation ch cs0) /\
              (forall ag, Ok (A:=option obj * agenda) (None, push_children cs f ag) = Ok (None, push_children ch f ag)) /\
              (do r <- flat_seq (flat c f) cs ;; Ok (G0 r)) = (do r <- flat_seq (flat c f) ch ;; Ok (G r)) /\
              (forall r, length (r_ns (G r)) = S (length (r_ns r)))).
  { intros G0 HG. exists cs, G0. repeat split; eauto. }
  assert (Hmk : forall k0 ar d e cu0 og r,
            length (r_ns (mk_node k0 ar d e cu0 og r)) = S (length (r_ns r))).
  { intros. destruct r as [[ls ns] b]. rewrite mk_node_eq. unfold r_ns. simpl. rewrite app_length. simpl. lia. }
  assert (Hdict : forall ks, hdr_keys h = Some ks -> forall d og,
     exists ch (G : fres -> fres),
       (exists h0 cs0, Node h cs = Node h0 cs0 /\ Permutation ch cs0) /\
       (forall ag, (do ch0 <- mapM (child_by_key ks cs) (visit_keys c k ks) ;; Ok (@None obj, push_children ch0 f ag))
                   = Ok (None, push_children ch f ag)) /\
       (do ch0 <- mapM (child_by_key ks cs) (visit_keys c k ks) ;;
        do r <- flat_seq (flat c f) ch0 ;; Ok (mk_node k (length ks) d None None og r))
       = (do r <- flat_seq (flat c f) ch ;; Ok (G r)) /\
       (forall r, length (r_ns (G r)) = S (length (r_ns r)))).
  { intros ks Hk d og.
    assert (Hw : length ks = length cs /\ NoDup ks).
    { destruct h; simpl in Hk; try discriminate; injection Hk as ->; simpl in Hwh;
        apply andb_true_iff in Hwh as [Hl Hn]; apply Nat.eqb_eq in Hl; apply keys_nodup_NoDup in Hn; auto. }
    destruct Hw as [Hlen Hnd].
    destruct (mapM_child_by_key_ok ks cs (visit_keys c k ks) Hnd Hlen) as (ch & Hm).
    { intros k0 Hk0. eapply Permutation_in; [apply visit_keys_perm | exact Hk0]. }
    exists ch, (mk_node k (length ks) d None None og). rewrite Hm. cbn [bind].
    repeat split; auto.
    exists h, cs. split; [reflexivity|]. apply (children_perm ks cs (visit_keys c k ks) ch Hnd Hlen (visit_keys_perm c k ks) Hm). }
  destruct k.
  - (* custom *)
    apply andb_true_iff in Hcl as [Hcb Hcc].
    destruct h; try discriminate Hcb.
    destruct eb; try discriminate Hcb; right.
    + exists cs, (fun r => let '(ls, ns, _) := r in
                           mk_node KdCustom (length cs) (DMeta meta EAbsent) None cu None (ls, ns, true)).
      repeat split; eauto.
      * destruct (flat_seq (flat c f) cs) as [[[ls ns] b]|]; reflexivity.
      * intros [[ls ns] b]. apply (Hmk _ _ _ _ _ _ (ls, ns, true)).
    + exists cs, (fun r => let '(ls, ns, _) := r in
                           mk_node KdCustom (length cs) (DMeta meta ENone) None cu None (ls, ns, true)).
      repeat split; eauto.
      * destruct (flat_seq (flat c f) cs) as [[[ls ns] b]|]; reflexivity.
      * intros [[ls ns] b]. apply (Hmk _ _ _ _ _ _ (ls, ns, true)).
    + simpl in Hcb. rewrite Hcb.
      exists cs, (fun r => let '(ls, ns, _) := r in
                           mk_node KdCustom (length cs) (DMeta meta (EGiven es)) (Some es) cu None (ls, ns, true)).
      repeat split; eauto.
      * destruct (flat_seq (flat c f) cs) as [[[ls ns] b]|]; reflexivity.
      * intros [[ls ns] b]. apply (Hmk _ _ _ _ _ _ (ls, ns, true)).
  - left. auto.
  - (* None: no children *)
    right. assert (cs = []).
    { destruct h; simpl in Ek; try discriminate Ek; try (destruct (c_nil c); discriminate Ek);
        try (destruct (lookup_reg c cls); discriminate Ek).
      simpl in Hwh. apply Nat.eqb_eq in Hwh. destruct cs; [reflexivity | discriminate]. }
    subst cs. exists [], (mk_node KdNone 0 DNone None None None). repeat split; eauto.
  - right. apply Hseq. apply Hmk.
  - right. apply Hseq. apply Hmk.
  - right. destruct (get_kind_dict_hdr c h cs _ _ Ek ltac:(auto)) as (ks & Hk). rewrite Hk. apply (Hdict ks Hk).
  - right. apply Hseq. apply Hmk.
  - right. destruct (get_kind_dict_hdr c h cs _ _ Ek ltac:(auto)) as (ks & Hk). rewrite Hk. apply (Hdict ks Hk).
  - right. destruct (get_kind_dict_hdr c h cs _ _ Ek ltac:(auto)) as (ks & Hk). rewrite Hk. apply (Hdict ks Hk).
  - right. apply Hseq. apply Hmk.
  - right. apply Hseq. apply Hmk.
Qed.

Lemma perm_forallb {A} (p : A -> bool) l l' : Permutation l l' -> forallb p l' = true -> forallb p l = true.
Proof.
  intros Hp H. apply forallb_forall. intros x Hx. eapply forallb_In; [exact H|].
  eapply Permutation_in; eauto.
Qed.

Lemma clean_children c h cs :
  clean c (Node h cs) = true -> apply_pred c (Node h cs) = false ->
  fst (get_kind c (Node h cs)) <> KdLeaf -> fst (get_kind c (Node h cs)) <> KdNone ->
  forallb (clean c) cs = true.
Proof.
  rewrite clean_node. intros H Hp H1 H2. rewrite Hp in H.
  destruct (fst (get_kind c (Node h cs))); try congruence.
  apply andb_true_iff in H as [_ H]. exact H.
Qed.

(* children of a visited node are well formed and clean again *)
Lemma view_children c f o ch h cs :
  wf_obj o = true -> clean c o = true -> o = Node h cs -> Permutation ch cs ->
  (forall ag, iter_expand c o f ag = Ok (None, push_children ch f ag)) ->
  forallb wf_obj ch = true /\ forallb (clean c) ch = true.
Proof.
  intros Hwf Hcl -> Hp Hex.
  simpl in Hwf. apply andb_true_iff in Hwf as [_ Hwcs].
  split; [eapply perm_forallb; eauto|].
  destruct cs as [|x0 cs0].
  { apply Permutation_sym, Permutation_nil in Hp. subst. reflexivity. }
  eapply perm_forallb; [exact Hp|].
  specialize (Hex []). unfold iter_expand in Hex.
  destruct (apply_pred c (Node h (x0 :: cs0))) eqn:Ep; [discriminate|].
  apply (clean_children c h (x0 :: cs0)); auto.
  - destruct (get_kind c (Node h (x0 :: cs0))) as [k cu]. simpl. intros ->. discriminate.
  - destruct (get_kind c (Node h (x0 :: cs0))) as [k cu] eqn:Ek. simpl. intros ->.
    destruct h; simpl in Ek; try discriminate Ek; try (destruct (c_nil c); discriminate Ek);
      try (destruct (lookup_reg c cls); discriminate Ek).
    simpl in Hex. injection Hex as Hex. unfold push_children in Hex. simpl in Hex.
    apply (f_equal (@length _)) in Hex. rewrite app_length, map_length in Hex.
    apply Permutation_length in Hp. simpl in Hp, Hex. lia.
Qed.

Lemma flat_seq_nodes (f : obj -> res fres) ch r :
  (forall x r0, In x ch -> f x = Ok r0 -> (length (r_ns r0) <= obj_size x)%nat) ->
  flat_seq f ch = Ok r -> (length (r_ns r) <= osum ch)%nat.
Proof.
  revert r. induction ch as [|x ch IH]; intros r H Hr; simpl in Hr.
  - injection Hr as <-. simpl. lia.
  - destruct (f x) as [[[ls1 ns1] b1]|] eqn:E1; simpl in Hr; [|discriminate].
    destruct (flat_seq f ch) as [[[ls2 ns2] b2]|] eqn:E2; simpl in Hr; [|discriminate].
    injection Hr as <-. unfold r_ns. simpl. rewrite app_length.
    pose proof (H x _ (or_introl eq_refl) E1) as H1. unfold r_ns in H1. simpl in H1.
    pose proof (IH _ (fun y r0 Hy => H y r0 (or_intror Hy)) eq_refl) as H2. unfold r_ns in H2. simpl in H2.
    lia.
Qed.

Theorem nodes_le_size c : forall fuel o r,
  wf_obj o = true -> clean c o = true -> flat c fuel o = Ok r -> (length (r_ns r) <= obj_size o)%nat.
Proof.
  induction fuel as [|fuel IH]; intros o r Hwf Hcl Hr; [discriminate|].
  destruct (clean_view c fuel o Hwf Hcl) as [[_ Hf] | (ch & G & (h & cs & Ho & Hp) & Hex & Hf & HG)].
  - rewrite Hf in Hr. injection Hr as <-. pose proof (obj_size_pos o). unfold r_ns. simpl. lia.
  - destruct (view_children c fuel o ch h cs Hwf Hcl Ho Hp Hex) as [Hwch Hcch].
    rewrite Hf in Hr.
    destruct (flat_seq (flat c fuel) ch) as [r0|] eqn:Es; simpl in Hr; [|discriminate].
    injection Hr as <-. rewrite HG. subst o. rewrite obj_size_node, <- (osum_perm _ _ Hp).
    apply le_n_S. eapply flat_seq_nodes; [|exact Es].
    intros x r1 Hx Hfx. eapply IH; [| |exact Hfx]; eapply forallb_In; eauto.
Qed.

Lemma drain_children_err c fuel : forall ch steps ag,
  (forall x r, In x ch -> flat c fuel x = Ok r ->
               drain_ok c x fuel (r_ls r) (length (r_ns r)) /\ (length (r_ns r) <= obj_size x)%nat) ->
  (forall x, In x ch -> flat c fuel x = Err RecursionError ->
             forall steps ag, (obj_size x <= steps)%nat ->
                              iter_drain c steps ((x, fuel) :: ag) = Err RecursionError) ->
  flat_seq (flat c fuel) ch = Err RecursionError -> (osum ch <= steps)%nat ->
  iter_drain c steps (push_children ch fuel ag) = Err RecursionError.
Proof.
  induction ch as [|x ch IH]; intros steps ag Hok Herr Hs Hsteps; simpl in Hs; [discriminate|].
  unfold push_children. simpl. simpl in Hsteps.
  destruct (flat c fuel x) as [[[ls1 ns1] b1]|e1] eqn:E1; simpl in Hs.
  - destruct (flat_seq (flat c fuel) ch) as [[[ls2 ns2] b2]|e2] eqn:E2; simpl in Hs; [discriminate|].
    injection Hs as ->.
    destruct (Hok x _ (or_introl eq_refl) E1) as [Hd Hn]. unfold r_ns, r_ls in Hd, Hn. simpl in Hd, Hn.
    replace steps with (length ns1 + (steps - length ns1))%nat by lia.
    rewrite Hd.
    pose proof (IH (steps - length ns1)%nat ag (fun y r Hy => Hok y r (or_intror Hy))
                   (fun y Hy => Herr y (or_intror Hy)) eq_refl ltac:(lia)) as Hrest.
    unfold push_children in Hrest. rewrite Hrest. reflexivity.
  - injection Hs as ->. apply (Herr x (or_introl eq_refl) E1). lia.
Qed.

(* a clean tree too deep for the recursive flatten is too deep for the iterator, at the same depth *)
Theorem drain_err c : forall fuel o,
  wf_obj o = true -> clean c o = true -> flat c fuel o = Err RecursionError ->
  forall steps ag, (obj_size o <= steps)%nat ->
                   iter_drain c steps ((o, fuel) :: ag) = Err RecursionError.
Proof.
  induction fuel as [|fuel IH]; intros o Hwf Hcl Hr steps ag Hsteps.
  { pose proof (obj_size_pos o). destruct steps; [lia | reflexivity]. }
  destruct (clean_view c fuel o Hwf Hcl) as [[_ Hf] | (ch & G & (h & cs & Ho & Hp) & Hex & Hf & HG)].
  - rewrite Hf in Hr. discriminate.
  - destruct (view_children c fuel o ch h cs Hwf Hcl Ho Hp Hex) as [Hwch Hcch].
    rewrite Hf in Hr.
    destruct (flat_seq (flat c fuel) ch) as [r0|e] eqn:Es; simpl in Hr; [discriminate|].
    injection Hr as ->.
    pose proof (obj_size_pos o). destruct steps as [|steps]; [lia|].
    cbn [iter_drain]. rewrite Hex. cbn [bind].
    apply drain_children_err; [| |exact Es|].
    + intros x r Hx Hfx. split; [apply flat_drain; exact Hfx|].
      eapply nodes_le_size; [| |exact Hfx]; eapply forallb_In; eauto.
    + intros x Hx Hfx. apply IH; [eapply forallb_In; eauto | eapply forallb_In; eauto | exact Hfx].
    + subst o. rewrite obj_size_node in Hsteps. rewrite (osum_perm _ _ Hp). lia.
Qed.

(* ================= all three, at the public entry points ================= *)
Theorem same_threshold c o :
  wf_obj o = true -> clean c o = true ->
  ((vdepth c o <= S (c_limit c))%nat /\
   (exists ls sp, flatten c o = Ok (ls, sp) /\
                  (exists ps, flatten_with_path c o = Ok (ps, ls, sp)) /\ tree_iter_list c o = Ok ls)) \/
  ((S (c_limit c) < vdepth c o)%nat /\
   flatten c o = Err RecursionError /\ flatten_with_path c o = Err RecursionError /\
   tree_iter_list c o = Err RecursionError).
Proof.
  intros Hwf Hcl. destruct (le_lt_dec (vdepth c o) (S (c_limit c))) as [Hd|Hd].
  - left. split; [exact Hd|].
    destruct (proj1 (flat_threshold c _ o Hwf Hcl) Hd) as ([[ls ns] b] & Hf).
    assert (Hfl : flatten c o = Ok (ls, {| trav := ns; snil := c_nil c; sns := spec_ns c b |})).
    { unfold flatten. rewrite Hf. reflexivity. }
    exists ls, {| trav := ns; snil := c_nil c; sns := spec_ns c b |}. split; [exact Hfl|]. split.
    + destruct (with_path_agrees_conv c o _ _ Hfl) as (ps & Hp & _). eauto.
    + eapply iter_agrees. exact Hfl.
  - right. split; [exact Hd|].
    pose proof (proj2 (flat_threshold c _ o Hwf Hcl) Hd) as Hf.
    split; [unfold flatten; rewrite Hf; reflexivity|]. split.
    + unfold flatten_with_path.
      rewrite (proj2 (flat_path_threshold c (S (c_limit c)) o [] Hwf Hcl) Hd). reflexivity.
    + unfold tree_iter_list, iter_bound. rewrite Hf.
      apply drain_err; auto.
Qed.

(* ================= chains: one-child containers around a bottom ================= *)
Definition chain_hdr (h : hdr) : bool :=
  match h with HTuple | HList | HDeque None | HNamed _ | HStruct _ => true | _ => false end.
Definition chain_bottom (o : obj) : bool :=
  match o with Leaf _ => true | Node HTuple [] | Node HList [] => true | _ => false end.

Lemma nest_wf_clean c h n o :
  c_pred c = None -> chain_hdr h = true -> chain_bottom o = true ->
  wf_obj (nest h n o) = true /\ clean c (nest h n o) = true /\ vdepth c (nest h n o) = S n.
Proof.
  intros Hp Hh Ho. assert (Hap : forall x, apply_pred c x = false) by (intros; unfold apply_pred; rewrite Hp; reflexivity).
  induction n as [|n (IH1 & IH2 & IH3)].
  - simpl nest. destruct o as [id|[] [|? ?]]; try discriminate Ho;
      (split; [reflexivity|]); cbn [clean vdepth]; rewrite Hap; auto.
  - cbn [nest]. split; [|split].
    + simpl. rewrite IH1. destruct h; try discriminate Hh; try reflexivity. destruct maxlen; [discriminate | reflexivity].
    + rewrite clean_node, Hap. destruct h; try discriminate Hh; simpl; rewrite IH2; reflexivity.
    + rewrite vdepth_node, Hap. destruct h; try discriminate Hh; simpl; rewrite IH3; lia.
Qed.

(* a chain of n nested containers works in all three traversals iff n <= MAX_RECURSION_DEPTH, whatever
   sits at the bottom: a leaf or a childless node *)
Theorem chain_threshold c h n o :
  c_pred c = None -> chain_hdr h = true -> chain_bottom o = true ->
  ((n <= c_limit c)%nat ->
     exists ls sp, flatten c (nest h n o) = Ok (ls, sp) /\
                   (exists ps, flatten_with_path c (nest h n o) = Ok (ps, ls, sp)) /\
                   tree_iter_list c (nest h n o) = Ok ls) /\
  ((c_limit c < n)%nat ->
     flatten c (nest h n o) = Err RecursionError /\
     flatten_with_path c (nest h n o) = Err RecursionError /\
     tree_iter_list c (nest h n o) = Err RecursionError).
Proof.
  intros Hp Hh Ho. destruct (nest_wf_clean c h n o Hp Hh Ho) as (Hwf & Hcl & Hd).
  destruct (same_threshold c (nest h n o) Hwf Hcl) as [[Hle H]|[Hlt H]]; rewrite Hd in *.
  - split; [intros _; exact H | intros; lia].
  - split; [intros; lia | intros _; exact H].
Qed.

(* ================= mutation during traversal ================= *)
(* whatever user code does to the list between two item accesses, the checked loop ends with a result
   or with IndexError *)
Theorem trav_list_checked : forall remaining i script l e,
  trav_list true remaining i script l = Err e -> e = IndexError.
Proof.
  induction remaining as [|r IH]; intros i script l e H; simpl in H; [discriminate|].
  destruct (nth_error l i) as [x|]; [|injection H as <-; reflexivity].
  destruct (trav_list true r (S i) script (mut_list (nth i script MNone) l)) as [rest|e1] eqn:E; simpl in H;
    [discriminate|]. injection H as <-. eapply IH; eauto.
Qed.

(* a result has exactly as many children as the arity captured before the loop *)
Theorem trav_list_consistent b : forall remaining i script l vs,
  trav_list b remaining i script l = Ok vs -> length vs = remaining.
Proof.
  induction remaining as [|r IH]; intros i script l vs H; simpl in H; [injection H as <-; reflexivity|].
  destruct (nth_error l i) as [x|]; [|discriminate].
  destruct (trav_list b r (S i) script (mut_list (nth i script MNone) l)) as [rest|e1] eqn:E; simpl in H;
    [|discriminate]. injection H as <-. simpl. f_equal. eapply IH; eauto.
Qed.

Lemma nth_nil_mut i : nth i [] MNone = MNone.
Proof. destruct i; reflexivity. Qed.

Lemma trav_list_no_mutation b : forall l pre,
  trav_list b (length l) (length pre) [] (pre ++ l) = Ok l.
Proof.
  induction l as [|x l IH]; intros pre; [reflexivity|].
  cbn [length trav_list]. rewrite nth_error_app2 by lia. rewrite Nat.sub_diag. cbn [nth_error].
  rewrite nth_nil_mut. cbn [mut_list].
  replace (pre ++ x :: l) with ((pre ++ [x]) ++ l) by (rewrite <- app_assoc; reflexivity).
  replace (S (length pre)) with (length (pre ++ [x])) by (rewrite app_length; simpl; lia).
  rewrite IH. reflexivity.
Qed.

Theorem flatten_list_no_mutation b l : flatten_list_mut b [] l = Ok l.
Proof. apply (trav_list_no_mutation b l []). Qed.

Theorem flatten_list_mut_safe script l :
  (exists vs, flatten_list_mut true script l = Ok vs /\ length vs = length l) \/
  flatten_list_mut true script l = Err IndexError.
Proof.
  unfold flatten_list_mut. destruct (trav_list true (length l) 0 script l) as [vs|e] eqn:E.
  - left. exists vs. split; [reflexivity | eapply trav_list_consistent; eauto].
  - right. f_equal. eapply trav_list_checked; eauto.
Qed.

(* the unchecked item access (PyList_GET_ITEM on a list that user code shrank) reads out of bounds *)
Theorem unchecked_list_refuted :
  exists script l, flatten_list_mut false script l = Err Crash.
Proof. exists [MClear], [1; 2; 3]%Z. reflexivity. Qed.

Theorem trav_dict_checked : forall keys i script d e,
  trav_dict true keys i script d = Err e -> e = KeyError.
Proof.
  induction keys as [|k keys IH]; intros i script d e H; simpl in H; [discriminate|].
  destruct (zlookup k d) as [v|]; [|injection H as <-; reflexivity].
  destruct (trav_dict true keys (S i) script (mut_dict (nth i script MNone) d)) as [rest|e1] eqn:E; simpl in H;
    [discriminate|]. injection H as <-. eapply IH; eauto.
Qed.

Theorem trav_dict_consistent b : forall keys i script d vs,
  trav_dict b keys i script d = Ok vs -> length vs = length keys.
Proof.
  induction keys as [|k keys IH]; intros i script d vs H; simpl in H; [injection H as <-; reflexivity|].
  destruct (zlookup k d) as [v|]; [|discriminate].
  destruct (trav_dict b keys (S i) script (mut_dict (nth i script MNone) d)) as [rest|e1] eqn:E; simpl in H;
    [|discriminate]. injection H as <-. simpl. f_equal. eapply IH; eauto.
Qed.

Theorem flatten_dict_mut_safe script d :
  (exists vs, flatten_dict_mut true script d = Ok vs /\ length vs = length d) \/
  flatten_dict_mut true script d = Err KeyError.
Proof.
  unfold flatten_dict_mut. destruct (trav_dict true (map fst d) 0 script d) as [vs|e] eqn:E.
  - left. exists vs. split; [reflexivity|]. rewrite <- (map_length fst d). eapply trav_dict_consistent; eauto.
  - right. f_equal. eapply trav_dict_checked; eauto.
Qed.

Theorem unchecked_dict_refuted :
  exists script d, flatten_dict_mut false script d = Err Crash.
Proof. exists [MDelLast], [(1, 10); (2, 20)]%Z. reflexivity. Qed.

(* ---------- unflatten while user code mutates the list of leaves ---------- *)
Theorem unfl_loop_checked : forall r i script cur s l e,
  unfl_loop r i script cur s l = Err e -> e = ValueError.
Proof.
  induction r as [|r IH]; intros i script cur s l e H; simpl in H.
  - destruct cur; [injection H as <-; reflexivity | discriminate].
  - destruct cur as [x|]; [|injection H as <-; reflexivity].
    destruct (lit_next s l) as [nx s'].
    destruct (unfl_loop r (S i) script nx s' (mut_list (nth i script MNone) l)) as [rest|e1] eqn:E; simpl in H;
      [discriminate|]. injection H as <-. eapply IH; eauto.
Qed.

Theorem unfl_loop_consistent : forall r i script cur s l vs,
  unfl_loop r i script cur s l = Ok vs -> length vs = r.
Proof.
  induction r as [|r IH]; intros i script cur s l vs H; simpl in H.
  - destruct cur; [discriminate|]. injection H as <-. reflexivity.
  - destruct cur as [x|]; [|discriminate].
    destruct (lit_next s l) as [nx s'].
    destruct (unfl_loop r (S i) script nx s' (mut_list (nth i script MNone) l)) as [rest|e1] eqn:E; simpl in H;
      [|discriminate]. injection H as <-. simpl. f_equal. eapply IH; eauto.
Qed.

Theorem unflatten_leaves_mut_safe script n l :
  (exists vs, unflatten_leaves_mut true script n l = Ok vs /\ length vs = n) \/
  unflatten_leaves_mut true script n l = Err ValueError.
Proof.
  unfold unflatten_leaves_mut. destruct (lit_next _ l) as [c0 s0].
  destruct (unfl_loop n 0 script c0 s0 l) as [vs|e] eqn:E.
  - left. exists vs. split; [reflexivity | eapply unfl_loop_consistent; eauto].
  - right. f_equal. eapply unfl_loop_checked; eauto.
Qed.

(* every value handed to the rebuilt tree was an element of the list when it was fetched: an original
   leaf or a value the script appended — never anything else *)
Definition appended (script : list mut) : list Z :=
  flat_map (fun m => match m with MAppend x => [x] | _ => [] end) script.

Lemma mut_list_incl m l pool : incl l pool -> (forall x, m = MAppend x -> In x pool) -> incl (mut_list m l) pool.
Proof.
  intros Hl Hm. destruct m; simpl.
  - exact Hl.
  - intros y Hy. apply Hl. destruct l; [destruct Hy | right; exact Hy].
  - intros y Hy. apply Hl. revert Hy. clear. induction l as [|a l IH]; simpl; [tauto|].
    destruct l; [simpl; tauto|]. intros [->|H]; [left; reflexivity | right; apply IH; exact H].
  - intros y [].
  - intros y Hy. apply in_app_or in Hy as [Hy|[<-|[]]]; [apply Hl; exact Hy | apply Hm; reflexivity].
Qed.

Lemma nth_script_appended i script x : nth i script MNone = MAppend x -> In x (appended script).
Proof.
  revert i. induction script as [|m script IH]; intros [|i] H; simpl in *; try discriminate.
  - subst m. left. reflexivity.
  - apply in_or_app. right. eapply IH; eauto.
Qed.

Lemma lit_next_in s l x s' : lit_next s l = (Some x, s') -> In x l.
Proof.
  unfold lit_next. destruct (li_done s); [discriminate|].
  destruct (nth_error l (li_idx s)) as [y|] eqn:E; [|discriminate].
  intros H. injection H as <- _. eapply nth_error_In; eauto.
Qed.

Theorem unfl_loop_provenance pool : forall r i script cur s l vs,
  incl l pool -> incl (appended script) pool -> (forall x, cur = Some x -> In x pool) ->
  unfl_loop r i script cur s l = Ok vs -> incl vs pool.
Proof.
  induction r as [|r IH]; intros i script cur s l vs Hl Hs Hc H; simpl in H.
  - destruct cur; [discriminate|]. injection H as <-. intros y [].
  - destruct cur as [x|]; [|discriminate].
    destruct (lit_next s l) as [nx s'] eqn:En.
    destruct (unfl_loop r (S i) script nx s' (mut_list (nth i script MNone) l)) as [rest|e1] eqn:E; simpl in H;
      [|discriminate]. injection H as <-.
    intros y [<-|Hy]; [apply Hc; reflexivity|].
    refine (IH (S i) script nx s' _ rest _ Hs _ E y Hy).
    + apply mut_list_incl; [exact Hl|]. intros z Hz. apply Hs. eapply nth_script_appended; eauto.
    + intros z ->. apply Hl. eapply lit_next_in; eauto.
Qed.

Theorem unflatten_leaves_mut_provenance script n l vs :
  unflatten_leaves_mut true script n l = Ok vs -> incl vs (l ++ appended script).
Proof.
  unfold unflatten_leaves_mut. destruct (lit_next _ l) as [c0 s0] eqn:E0. intros H.
  eapply unfl_loop_provenance; [| | |exact H].
  - apply incl_appl, incl_refl.
  - apply incl_appr, incl_refl.
  - intros x ->. apply in_or_app. left. eapply lit_next_in; eauto.
Qed.

Lemma unfl_loop_no_mutation : forall l pre x,
  unfl_loop (S (length l)) (length pre) [] (Some x) {| li_idx := S (length pre); li_done := false |} (pre ++ x :: l)
  = Ok (x :: l).
Proof.
  induction l as [|y l IH]; intros pre x.
  - assert (E : lit_next {| li_idx := S (length pre); li_done := false |} (pre ++ [x])
                = (None, {| li_idx := S (length pre); li_done := true |})).
    { unfold lit_next. cbn [li_done li_idx].
      replace (nth_error (pre ++ [x]) (S (length pre))) with (@None Z); [reflexivity|].
      symmetry. apply nth_error_None. rewrite app_length. simpl. lia. }
    cbn [length unfl_loop]. rewrite E. reflexivity.
  - assert (E : lit_next {| li_idx := S (length pre); li_done := false |} (pre ++ x :: y :: l)
                = (Some y, {| li_idx := S (S (length pre)); li_done := false |})).
    { unfold lit_next. cbn [li_done li_idx].
      replace (nth_error (pre ++ x :: y :: l) (S (length pre))) with (Some y); [reflexivity|].
      symmetry. rewrite nth_error_app2 by lia. replace (S (length pre) - length pre)%nat with 1%nat by lia. reflexivity. }
    change (unfl_loop (S (length (y :: l))) (length pre) [] (Some x) {| li_idx := S (length pre); li_done := false |} (pre ++ x :: y :: l))
      with (let '(nx, s') := lit_next {| li_idx := S (length pre); li_done := false |} (pre ++ x :: y :: l) in
            do rest <- unfl_loop (S (length l)) (S (length pre)) [] nx s' (mut_list (nth (length pre) [] MNone) (pre ++ x :: y :: l)) ;;
            Ok (x :: rest)).
    rewrite E, nth_nil_mut. cbn [mut_list].
    specialize (IH (pre ++ [x]) y).
    replace (length (pre ++ [x])) with (S (length pre)) in IH by (rewrite app_length; simpl; lia).
    replace ((pre ++ [x]) ++ y :: l) with (pre ++ x :: y :: l) in IH by (rewrite <- app_assoc; reflexivity).
    rewrite IH. reflexivity.
Qed.

Theorem unflatten_no_mutation l : unflatten_leaves_mut true [] (length l) l = Ok l.
Proof.
  unfold unflatten_leaves_mut, lit_next. cbn [li_done li_idx]. destruct l as [|x l]; [reflexivity|].
  cbn [nth_error]. exact (unfl_loop_no_mutation l [] x).
Qed.

(* the captured-array variant reads out of bounds as soon as a callback shrinks the list *)
Theorem unflatten_raw_refuted :
  exists script n l, unflatten_leaves_mut false script n l = Err Crash.
Proof. exists [MClear], 3%nat, [1; 2; 3]%Z. reflexivity. Qed.
