(* TransformGenProofs.v — the C++ Transform pass when the leaf function returns a different treespec for
   every leaf (theories/TransformArr.v tr_gen / arr_transform_gen) returns the encoding of the outer tree
   with its i-th leaf replaced by the i-th treespec: the substitution relation of Subst.v, i.e. the treespec
   of the tree obtained by unflattening the outer treespec with trees of those treespecs (property C08). *)
From OptreeModel Require Import Base Tree Flatten Unflatten Spec Pickle PrefixArr JoinArr TransformArr.
From OptreeProofs Require Import BaseProofs RoundTrip SpecProofs InspectProofs EqProofs OrderProofs PrefixArrProofs JoinArrProofs
  ComposeArrProofs TransformArrProofs Subst TransposeProofs.

Scheme Subst_indg := Minimality for Subst Sort Prop
  with SubstL_indg := Minimality for SubstL Sort Prop.

Definition wfs (ts : list stree) : Prop := Forall (fun t => wf_stree t = true) ts.

Lemma root_leaves_encode t : root_leaves (encode t) = st_leaves t.
Proof. unfold root_leaves. destruct (encode_last t) as (l & ->). rewrite rev_app_distr. reflexivity. Qed.

Lemma wfs_app l l' : wfs (l ++ l') <-> wfs l /\ wfs l'.
Proof. unfold wfs. apply Forall_app. Qed.

(* ---------- the simulation ---------- *)
Definition GSim (t : stree) (ts : list stree) (t' : stree) : Prop :=
  wf_stree t = true -> wfs ts -> forall rest irest out stack,
  tr_gen (encode t ++ rest) (map encode ts ++ irest) out stack =
  tr_gen rest irest (out ++ encode t') (cnt t' :: stack).
Definition GSimL (cs : list stree) (tss : list (list stree)) (cs' : list stree) : Prop :=
  forallb wf_stree cs = true -> wfs (concat tss) -> forall rest irest out stack,
  tr_gen (flat_map encode cs ++ rest) (map encode (concat tss) ++ irest) out stack =
  tr_gen rest irest (out ++ flat_map encode cs') (rev (map cnt cs') ++ stack).

Theorem gsim : forall t ts t', Subst t ts t' -> GSim t ts t'.
Proof.
  apply (Subst_indg GSim GSimL).
  - intros n x Ln W Wx rest irest out stack.
    destruct (wf_unfold n [] W) as (_ & _ & _ & _).
    inversion Wx as [|? ? Wx1 _]; subst.
    cbn [encode flat_map app map tr_gen]. rewrite Ln.
    rewrite root_leaves_encode, (encode_length _ Wx1). reflexivity.
  - intros n cs tss cs' Ln HSL IH W Wt rest irest out stack.
    destruct (wf_unfold n cs W) as (Ar & _ & _ & Wcs).
    cbn [encode]. rewrite <- app_assoc. rewrite (IH Wcs Wt). cbn [app tr_gen]. rewrite Ln.
    pose proof (SubstL_length _ _ _ HSL) as Lc.
    assert (Hlen : length (rev (map cnt cs')) = narity n) by (rewrite rev_length, map_length; congruence).
    assert (Hlt : Nat.ltb (length (rev (map cnt cs') ++ stack)) (narity n) = false).
    { apply Nat.ltb_ge. rewrite app_length. lia. }
    rewrite Hlt. rewrite <- Hlen. rewrite firstn_app_exact, skipn_app_exact.
    rewrite sum_fst_rev_cnt, sum_snd_rev_cnt.
    unfold mkT. cbn [encode]. rewrite <- app_assoc.
    assert (Hp : patch n (S (sum_nat (map st_nodes cs'))) (sum_nat (map st_leaves cs')) = recount n cs').
    { rewrite <- (patch_recount n cs'); [reflexivity | congruence | exact Ln]. }
    rewrite Hp. unfold cnt, st_leaves, st_nodes. cbn [st_node recount nleaves nnodes].
    unfold is_leaf_node in Ln. destruct (nkind n) eqn:Kn; try reflexivity. discriminate Ln.
  - intros _ _ rest irest out stack. cbn. rewrite app_nil_r. reflexivity.
  - intros c cs ts tss c' cs' _ IHc _ IHl W Wt rest irest out stack.
    cbn [forallb] in W. apply andb_true_iff in W as [Wc Wcs].
    cbn [concat] in Wt. apply wfs_app in Wt as [Wts Wtss].
    cbn [flat_map concat map rev]. rewrite map_app, <- !app_assoc.
    rewrite (IHc Wc Wts), (IHl Wcs Wtss). rewrite <- !app_assoc. reflexivity.
Qed.

(* ---------- the substituted tree: well-formed, counters ---------- *)
Lemma sum_nat_app l l' : sum_nat (l ++ l') = (sum_nat l + sum_nat l')%nat.
Proof. unfold sum_nat. induction l; simpl; lia. Qed.

Definition GOk (t : stree) (ts : list stree) (t' : stree) : Prop :=
  wf_stree t = true -> wfs ts ->
  wf_stree t' = true /\ st_leaves t' = sum_nat (map st_leaves ts) /\
  (st_nodes t' + length ts = st_nodes t + sum_nat (map st_nodes ts))%nat /\ length ts = st_leaves t.
Definition GOkL (cs : list stree) (tss : list (list stree)) (cs' : list stree) : Prop :=
  forallb wf_stree cs = true -> wfs (concat tss) ->
  forallb wf_stree cs' = true /\ sum_nat (map st_leaves cs') = sum_nat (map st_leaves (concat tss)) /\
  (sum_nat (map st_nodes cs') + length (concat tss) = sum_nat (map st_nodes cs) + sum_nat (map st_nodes (concat tss)))%nat /\
  length (concat tss) = sum_nat (map st_leaves cs).


Lemma st_leaves_mkT n cs : is_leaf_node n = false -> st_leaves (mkT n cs) = sum_nat (map st_leaves cs).
Proof. intros Ln. unfold mkT, st_leaves at 1. cbn [st_node recount nleaves]. unfold is_leaf_node in Ln. destruct (nkind n); try reflexivity. discriminate Ln. Qed.
Lemma st_nodes_mkT n cs : st_nodes (mkT n cs) = S (sum_nat (map st_nodes cs)).
Proof. reflexivity. Qed.

Theorem gok : forall t ts t', Subst t ts t' -> GOk t ts t'.
Proof.
  apply (Subst_indg GOk GOkL).
  - intros n x Ln W Wx. inversion Wx as [|? ? Wx1 _]; subst.
    destruct (wf_unfold n [] W) as (_ & Nn & Lv & _). rewrite Ln in Lv. destruct Lv as [Lv _].
    unfold st_leaves, st_nodes in *. cbn [st_node map sum_nat fold_right length] in *.
    repeat split; try lia. exact Wx1.
  - intros n cs tss cs' Ln HSL IH W Wt.
    destruct (wf_unfold n cs W) as (Ar & Nn & Lv & Wcs). rewrite Ln in Lv.
    destruct (IH Wcs Wt) as (W' & L' & N' & Len).
    split; [apply wf_mkT; assumption|].
    rewrite (st_leaves_mkT _ _ Ln), st_nodes_mkT.
    change (st_nodes (T n cs)) with (nnodes n). change (st_leaves (T n cs)) with (nleaves n).
    rewrite Nn, Lv. repeat split; lia.
  - intros _ _. cbn. repeat split; reflexivity.
  - intros c cs ts tss c' cs' _ IHc _ IHl W Wt.
    cbn [forallb] in W. apply andb_true_iff in W as [Wc Wcs].
    cbn [concat] in Wt. apply wfs_app in Wt as [Wts Wtss].
    destruct (IHc Wc Wts) as (W1 & L1 & N1 & Len1). destruct (IHl Wcs Wtss) as (W2 & L2 & N2 & Len2).
    cbn [forallb map concat]. rewrite W1, W2, !map_app, !sum_nat_app, app_length.
    change (sum_nat (?x :: ?l)) with (x + sum_nat l)%nat.
    repeat split; try lia.
Qed.

(* ---------- every list of one treespec per leaf can be substituted ---------- *)
Theorem subst_exists : forall t, wf_stree t = true -> forall ts, length ts = st_leaves t -> exists t', Subst t ts t'.
Proof.
  induction t as [n cs IH] using stree_ind'. intros W ts Hl.
  destruct (wf_unfold n cs W) as (Ar & Nn & Lv & Wcs).
  destruct (is_leaf_node n) eqn:Ln.
  - destruct Lv as [Lv ->]. unfold st_leaves in Hl. cbn [st_node] in Hl. rewrite Lv in Hl.
    destruct ts as [|x [|? ?]]; try discriminate Hl. exists x. constructor. exact Ln.
  - unfold st_leaves in Hl. cbn [st_node] in Hl. rewrite Lv in Hl.
    assert (HL : exists tss cs', SubstL cs tss cs' /\ concat tss = ts).
    { clear - IH Wcs Hl. revert ts Hl. induction cs as [|c cs IHcs]; intros ts Hl.
      - destruct ts; [|discriminate Hl]. exists [], []. split; constructor.
      - cbn [forallb] in Wcs. apply andb_true_iff in Wcs as [Wc Wcs].
        inversion IH as [|? ? Hc Hcs]; subst.
        change (sum_nat (map st_leaves (c :: cs))) with (st_leaves c + sum_nat (map st_leaves cs))%nat in Hl.
        destruct (Hc Wc (firstn (st_leaves c) ts)) as (c' & Sc); [rewrite firstn_length; lia|].
        destruct (IHcs Hcs Wcs (skipn (st_leaves c) ts)) as (tss & cs' & SL & Ec); [rewrite skipn_length; lia|].
        exists (firstn (st_leaves c) ts :: tss), (c' :: cs'). split; [constructor; assumption|].
        cbn [concat]. rewrite Ec. apply firstn_skipn. }
    destruct HL as (tss & cs' & SL & <-). exists (mkT n cs'). constructor; assumption.
Qed.

(* ---------- the whole operation ---------- *)
Definition tr_opts_s (nil0 : bool) (common : Z) (bs : list sspec) : res Z :=
  tr_opts nil0 common (map spec_of bs).

Lemma sum_Z_leaves bs : Forall (fun b => wf_stree (stree_of b) = true) bs ->
  (Z.of_nat (length bs) + sum_Z (map (fun b => Z.of_nat (root_leaves (trav b)) - 1) (map spec_of bs)) =
   Z.of_nat (sum_nat (map st_leaves (map stree_of bs))))%Z.
Proof.
  induction 1 as [|b bs Wb _ IH]; [reflexivity|]. cbn [map sum_Z fold_right length trav spec_of].
  change (fold_right Z.add 0%Z ?l) with (sum_Z l). rewrite root_leaves_encode.
  change (sum_nat (?x :: ?l)) with (x + sum_nat l)%nat. lia.
Qed.
Lemma sum_Z_nodes bs : Forall (fun b => wf_stree (stree_of b) = true) bs ->
  (Z.of_nat (length bs) + sum_Z (map (fun b => Z.of_nat (length (trav b)) - 1) (map spec_of bs)) =
   Z.of_nat (sum_nat (map st_nodes (map stree_of bs))))%Z.
Proof.
  induction 1 as [|b bs Wb _ IH]; [reflexivity|]. cbn [map sum_Z fold_right length trav spec_of].
  change (fold_right Z.add 0%Z ?l) with (sum_Z l). rewrite (encode_length _ Wb).
  change (sum_nat (?x :: ?l)) with (x + sum_nat l)%nat. lia.
Qed.

Theorem arr_transform_gen_spec a bs t' :
  wf_stree (stree_of a) = true -> Forall (fun b => wf_stree (stree_of b) = true) bs ->
  Subst (stree_of a) (map stree_of bs) t' ->
  arr_transform_gen (spec_of a) (map spec_of bs) =
  match tr_opts_s (ss_nil a) (ss_ns a) bs with
  | Ok ns => Ok (spec_of {| stree_of := t'; ss_nil := ss_nil a; ss_ns := ns |})
  | Err e => Err e
  end.
Proof.
  intros Wa Wbs HS.
  assert (Wts : wfs (map stree_of bs)) by (unfold wfs; rewrite Forall_map; exact Wbs).
  destruct (gok _ _ _ HS Wa Wts) as (W' & L' & N' & Len). rewrite map_length in Len, N'.
  pose proof (sum_Z_leaves bs Wbs) as SL. pose proof (sum_Z_nodes bs Wbs) as SN.
  assert (E1 : Z.eqb (Z.of_nat (st_leaves t'))
     (Z.of_nat (length bs) + sum_Z (map (fun b => Z.of_nat (root_leaves (trav b)) - 1) (map spec_of bs))) = true) by (apply Z.eqb_eq; lia).
  assert (E2 : Z.eqb (Z.of_nat (st_nodes t'))
     (Z.of_nat (st_nodes (stree_of a)) + sum_Z (map (fun b => Z.of_nat (length (trav b)) - 1) (map spec_of bs))) = true) by (apply Z.eqb_eq; lia).
  clear SL SN L' N'.
  unfold arr_transform_gen, tr_opts_s.
  change (trav (spec_of a)) with (encode (stree_of a)). change (snil (spec_of a)) with (ss_nil a). change (sns (spec_of a)) with (ss_ns a).
  destruct (encode_last (stree_of a)) as (la & Ha). rewrite Ha, rev_app_distr. cbn [rev app]. rewrite <- Ha.
  change (nleaves (st_node (stree_of a))) with (st_leaves (stree_of a)).
  rewrite map_length, Len, Nat.eqb_refl. cbn [negb].
  destruct (tr_opts (ss_nil a) (ss_ns a) (map spec_of bs)) as [ns|e]; [|reflexivity]. cbn [bind].
  pose proof (gsim _ _ _ HS Wa Wts [] [] [] []) as H. rewrite !app_nil_r in H.
  rewrite map_map in H. cbn [trav spec_of] in H. rewrite (map_map spec_of trav). cbn [trav spec_of]. rewrite H. cbn [tr_gen bind app].
  destruct (encode_last t') as (lc & Hc). rewrite Hc, rev_app_distr. cbn [rev app]. rewrite <- Hc.
  change (nleaves (st_node t')) with (st_leaves t'). change (nnodes (st_node t')) with (st_nodes t').
  rewrite (encode_length _ Wa), (encode_length _ W').
  rewrite <- Len.
  rewrite E1, E2, Nat.eqb_refl. reflexivity.
Qed.

(* the option checks: all namespaces empty or equal to one name, all none_is_leaf flags equal *)
Lemma tr_opts_ok nil0 : forall bs common ns, tr_opts nil0 common bs = Ok ns ->
  Forall (fun b => snil b = nil0 /\ (sns b = 0%Z \/ sns b = ns)) bs /\ (common = 0%Z \/ common = ns).
Proof.
  induction bs as [|b bs IH]; intros common ns H; cbn [tr_opts] in H.
  - injection H as ->. split; [constructor | right; reflexivity].
  - destruct (Bool.eqb nil0 (snil b)) eqn:En; [|discriminate H]. cbn [negb] in H. apply eqb_prop in En.
    destruct (Z.eqb (sns b) 0) eqn:E0.
    + apply Z.eqb_eq in E0. destruct (IH _ _ H) as [HF Hc]. split; [|exact Hc].
      constructor; [|exact HF]. split; [symmetry; exact En | left; exact E0].
    + destruct (Z.eqb common 0) eqn:Ec.
      * apply Z.eqb_eq in Ec. destruct (IH _ _ H) as [HF Hc]. split; [|left; exact Ec].
        constructor; [|exact HF]. split; [symmetry; exact En | exact Hc].
      * destruct (Z.eqb (sns b) common) eqn:Eb; [|discriminate H]. apply Z.eqb_eq in Eb.
        destruct (IH _ _ H) as [HF Hc]. split; [|exact Hc]. constructor; [|exact HF]. split; [symmetry; exact En|].
        destruct Hc as [Hc|Hc]; [apply Z.eqb_neq in Ec; contradiction | right; congruence].
Qed.

(* with the same answer for every leaf this is the constant-f_leaf pass: composition *)
Theorem transform_gen_repeat a b t' :
  Subst (stree_of a) (repeat (stree_of b) (st_leaves (stree_of a))) t' -> t' = st_compose (stree_of a) (stree_of b).
Proof. intros H. exact (subst_repeat _ _ _ _ H _ eq_refl). Qed.

(* the substituted tree is unique: the pass is a function of (outer, answers) *)
Theorem subst_functional t ts t1 t2 :
  wf_stree t = true -> wfs ts -> Subst t ts t1 -> Subst t ts t2 -> t1 = t2.
Proof.
  intros W Wts H1 H2.
  pose proof (gsim _ _ _ H1 W Wts [] [] [] []) as G1. pose proof (gsim _ _ _ H2 W Wts [] [] [] []) as G2.
  rewrite G1 in G2. cbn [tr_gen app] in G2. injection G2 as E _.
  destruct (gok _ _ _ H1 W Wts) as (W1 & _). destruct (gok _ _ _ H2 W Wts) as (W2 & _).
  exact (encode_inj _ _ W1 W2 E).
Qed.
