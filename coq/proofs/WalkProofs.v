(* WalkProofs.v — PyTreeSpec.traverse: with identity functions it is unflatten; the stack machine over
   the node array is the tree recursion "children first, then the node function" (property C05). *)
From OptreeModel Require Import Base Tree Flatten Unflatten Spec Walk.
From OptreeProofs Require Import BaseProofs RoundTrip SpecProofs ValidateProofs.

Theorem walk_identity : forall ns leaves stack il inn tr,
  walk_go None None ns leaves stack il inn tr = (unflat ns leaves stack, tr).
Proof.
  induction ns as [|n ns IH]; intros leaves stack il inn tr; simpl.
  - destruct leaves; [destruct stack as [|x [|? ?]]; reflexivity | reflexivity].
  - destruct (Nat.ltb (length stack) (narity n)); [reflexivity|].
    destruct (nkind n); try (destruct (make_node n _); [apply IH | reflexivity]).
    destruct leaves; [reflexivity | apply IH].
Qed.

Theorem traverse_identity s leaves : fst (traverse None None s leaves) = unflatten s leaves.
Proof.
  unfold traverse, unflatten. destruct (sanity s); [|reflexivity]. rewrite walk_identity. reflexivity.
Qed.

(* ---------- the children loop of twalk as a function of its own ---------- *)
Definition twalk_list (fl fn : option wfun) : list stree -> wstate -> res (list obj) * wstate :=
  fix go (l : list stree) (st0 : wstate) : res (list obj) * wstate :=
    match l with
    | [] => (Ok [], st0)
    | c :: l' =>
      match twalk fl fn c st0 with
      | (Err e, st') => (Err e, st')
      | (Ok y, st') =>
        match go l' st' with
        | (Err e, st'') => (Err e, st'')
        | (Ok ys, st'') => (Ok (y :: ys), st'')
        end
      end
    end.

Lemma twalk_list_cons fl fn c l st0 :
  twalk_list fl fn (c :: l) st0 =
  match twalk fl fn c st0 with
  | (Err e, st') => (Err e, st')
  | (Ok y, st') =>
    match twalk_list fl fn l st' with
    | (Err e, st'') => (Err e, st'')
    | (Ok ys, st'') => (Ok (y :: ys), st'')
    end
  end.
Proof. reflexivity. Qed.

Lemma twalk_unfold fl fn n cs st :
  twalk fl fn (T n cs) st =
  let '(leaves, il, inn, tr) := st in
  if is_leaf_node n then
    match leaves with
    | [] => (Err ValueError, st)
    | x :: leaves' =>
      match fl with
      | None => (Ok x, (leaves', il, inn, tr))
      | Some f => match f il x with
                  | Err e => (Err e, (leaves', il, inn, tr ++ [WLeaf x]))
                  | Ok y => (Ok y, (leaves', S il, inn, tr ++ [WLeaf x]))
                  end
      end
    end
  else
    let '(rcs, st1) := twalk_list fl fn cs st in
    match rcs with
    | Err e => (Err e, st1)
    | Ok cs' =>
      match make_node n cs' with
      | Err e => (Err e, st1)
      | Ok o =>
        let '(leaves1, il1, inn1, tr1) := st1 in
        match fn with
        | None => (Ok o, st1)
        | Some f => match f inn1 o with
                    | Err e => (Err e, (leaves1, il1, inn1, tr1 ++ [WNode o]))
                    | Ok y => (Ok y, (leaves1, il1, S inn1, tr1 ++ [WNode o]))
                    end
        end
      end
    end.
Proof. destruct st as [[[leaves il] inn] tr]. reflexivity. Qed.

(* what the array machine does on the encoding of t, in terms of the tree recursion *)
Definition Sim (fl fn : option wfun) (t : stree) : Prop :=
  forall rest leaves stack il inn tr,
    match twalk fl fn t (leaves, il, inn, tr) with
    | (Ok y, (leaves', il', inn', tr')) =>
      walk_go fl fn (encode t ++ rest) leaves stack il inn tr = walk_go fl fn rest leaves' (y :: stack) il' inn' tr'
    | (Err e, (_, _, _, tr')) =>
      walk_go fl fn (encode t ++ rest) leaves stack il inn tr = (Err e, tr')
    end.

Lemma sim_list fl fn : forall cs,
  Forall (Sim fl fn) cs ->
  forall rest leaves stack il inn tr,
    match twalk_list fl fn cs (leaves, il, inn, tr) with
    | (Ok ys, (leaves', il', inn', tr')) =>
      walk_go fl fn (flat_map encode cs ++ rest) leaves stack il inn tr =
      walk_go fl fn rest leaves' (rev ys ++ stack) il' inn' tr' /\ length ys = length cs
    | (Err e, (_, _, _, tr')) =>
      walk_go fl fn (flat_map encode cs ++ rest) leaves stack il inn tr = (Err e, tr')
    end.
Proof.
  induction 1 as [|c cs Hc _ IH]; intros rest leaves stack il inn tr; [cbn; auto|].
  rewrite twalk_list_cons. cbn [flat_map]. rewrite <- app_assoc.
  specialize (Hc (flat_map encode cs ++ rest) leaves stack il inn tr).
  destruct (twalk fl fn c (leaves, il, inn, tr)) as [[y|e] [[[l1 i1] n1] t1]]; [|exact Hc].
  rewrite Hc. specialize (IH rest l1 (y :: stack) i1 n1 t1).
  destruct (twalk_list fl fn cs (l1, i1, n1, t1)) as [[ys|e] [[[l2 i2] n2] t2]]; [|exact IH].
  destruct IH as [IH Hl]. rewrite IH. simpl. rewrite <- app_assoc. simpl. split; [reflexivity | congruence].
Qed.

Theorem walk_twalk fl fn : forall t, wf_stree t = true -> Sim fl fn t.
Proof.
  induction t as [n cs IH] using stree_ind'. intros Hw. cbn [wf_stree] in Hw.
  apply andb_true_iff in Hw as [Hw Hwc]. apply andb_true_iff in Hw as [Hw Hlv]. apply andb_true_iff in Hw as [Har _].
  apply Nat.eqb_eq in Har.
  intros rest leaves stack il inn tr. rewrite twalk_unfold. cbn [encode]. rewrite <- app_assoc.
  destruct (is_leaf_node n) eqn:El.
  - (* a leaf has no children *)
    apply andb_true_iff in Hlv as [_ H0]. apply Nat.eqb_eq in H0. destruct cs; [|discriminate].
    simpl in Har. cbn [flat_map app walk_go]. rewrite Har. cbn [Nat.ltb Nat.leb].
    unfold is_leaf_node in El. apply EqProofs.kind_eqb_eq in El. rewrite El.
    destruct leaves as [|x leaves']; [reflexivity|].
    destruct fl as [f|]; [destruct (f il x); reflexivity | reflexivity].
  - assert (Hsim : Forall (Sim fl fn) cs).
    { apply Forall_forall. intros c Hc. rewrite Forall_forall in IH. apply IH; [exact Hc | eapply forallb_In; eauto]. }
    pose proof (sim_list fl fn cs Hsim ([n] ++ rest) leaves stack il inn tr) as Hl.
    destruct (twalk_list fl fn cs (leaves, il, inn, tr)) as [[ys|e] [[[l1 i1] n1] t1]]; [|exact Hl].
    destruct Hl as [Hl Hlen]. rewrite Hl. cbn [app walk_go].
    assert (Hge : Nat.ltb (length (rev ys ++ stack)) (narity n) = false).
    { apply Nat.ltb_ge. rewrite app_length, rev_length. lia. }
    rewrite Hge.
    assert (Hk : forall A (a b : A), match nkind n with KdLeaf => a | _ => b end = b).
    { intros A a b. unfold is_leaf_node in El. destruct (nkind n); try reflexivity. discriminate. }
    rewrite Hk.
    replace (narity n) with (length (rev ys)) by (rewrite rev_length; congruence).
    rewrite firstn_len_app, skipn_len_app, rev_involutive.
    destruct (make_node n ys) as [o|e]; [|reflexivity].
    destruct fn as [f|]; [destruct (f n1 o); reflexivity | reflexivity].
Qed.

(* at the entry point: traverse on the treespec of a structured treespec is the tree recursion *)
Theorem traverse_is_tree_recursion fl fn s leaves :
  wf_stree (stree_of s) = true ->
  traverse fl fn (spec_of s) leaves =
  match twalk fl fn (stree_of s) (leaves, 0%nat, 0%nat, []) with
  | (Ok y, ([], _, _, tr')) => (Ok y, tr')
  | (Ok _, (_ :: _, _, _, tr')) => (Err ValueError, tr')     (* too many leaves *)
  | (Err e, (_, _, _, tr')) => (Err e, tr')
  end.
Proof.
  intros Hw. unfold traverse.
  assert (Hs : sanity (spec_of s) = true).
  { unfold sanity, spec_of. cbn [trav]. destruct (stree_of s) as [n cs] eqn:Et. cbn [encode].
    destruct (flat_map encode cs ++ [n]) eqn:E; [destruct (flat_map encode cs); discriminate|]. rewrite <- E.
    unfold last_nnodes. rewrite rev_app_distr. simpl.
    pose proof (encode_length (T n cs) Hw) as Hl. cbn [encode] in Hl. rewrite Hl. apply Nat.eqb_refl. }
  rewrite Hs. unfold spec_of. cbn [trav].
  pose proof (walk_twalk fl fn (stree_of s) Hw [] leaves [] 0%nat 0%nat []) as H. rewrite app_nil_r in H.
  destruct (twalk fl fn (stree_of s) (leaves, 0%nat, 0%nat, [])) as [[y|e] [[[l1 i1] n1] t1]]; [|exact H].
  rewrite H. cbn [walk_go]. destruct l1; reflexivity.
Qed.
