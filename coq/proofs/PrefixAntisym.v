(* PrefixAntisym.v — the prefix relation is antisymmetric up to the equivalence that identifies the
   three dict kinds with one key set (any key order, any default factory) and deques of any maxlen
   (property C07).  The equivalence is E a b := st_prefix a b = (true, true): a is a prefix of b and
   every leaf of a sits on a leaf of b — i.e. `a <= b and not a < b`. *)
From OptreeModel Require Import Base Tree Flatten Unflatten Spec.
From OptreeProofs Require Import BaseProofs RoundTrip SpecProofs InspectProofs EqProofs OrderProofs PrefixOrder JoinOrder JoinLeast.

Definition E (x y : stree) : Prop := st_prefix x y = (true, true).

Lemma E_P x y : E x y -> P x y.
Proof. unfold E, P. intros ->. reflexivity. Qed.

Lemma prefix_list_E l : forall l', prefix_list l l' = (true, true) <-> Forall2 E l l'.
Proof.
  induction l as [|x l IH]; intros [|y l']; simpl.
  - split; [constructor | reflexivity].
  - split; [discriminate | intros H; inversion H].
  - split; [discriminate | intros H; inversion H].
  - unfold E at 1. destruct (st_prefix x y) as [p1 m1] eqn:E1.
    destruct (prefix_list l l') as [p2 m2] eqn:E2.
    specialize (IH l'). rewrite E2 in IH. split.
    + intros H. injection H as H1 H2. apply andb_true_iff in H1 as [-> ->]. apply andb_true_iff in H2 as [-> ->].
      constructor; [exact E1 | apply IH; reflexivity].
    + intros H. inversion H as [|? ? ? ? Hx Hl]; subst. unfold E in Hx. rewrite E1 in Hx. injection Hx as -> ->.
      apply IH in Hl. injection Hl as -> ->. reflexivity.
Qed.

(* a child list aligned by key against another: the relation holds position-wise iff it holds key-wise *)
Lemma aligned_pointwise (R : stree -> stree -> Prop) kb (cb : list stree) : forall ka ca cb',
  NoDup ka -> length ka = length ca ->
  omapM (child_at_key kb cb) ka = Some cb' ->
  (Forall2 R ca cb' <->
   (forall k, In k ka -> exists x y, child_at_key ka ca k = Some x /\ child_at_key kb cb k = Some y /\ R x y)).
Proof.
  induction ka as [|k0 ka IH]; intros ca cb' Hnd Hlen Hal.
  - destruct ca; [|discriminate Hlen]. simpl in Hal. injection Hal as <-. split; [intros _ k [] | constructor].
  - destruct ca as [|x0 ca]; [discriminate Hlen|]. simpl in Hlen. injection Hlen as Hlen.
    inversion Hnd as [|? ? Hnin Hnd']; subst.
    simpl in Hal. destruct (child_at_key kb cb k0) as [y0|] eqn:Ey; simpl in Hal; [|discriminate].
    destruct (omapM (child_at_key kb cb) ka) as [cb0|] eqn:Er; simpl in Hal; [|discriminate]. injection Hal as <-.
    specialize (IH ca cb0 Hnd' Hlen eq_refl).
    assert (Hother : forall k, In k ka -> child_at_key (k0 :: ka) (x0 :: ca) k = child_at_key ka ca k).
    { intros k Hk. unfold child_at_key. simpl. destruct (key_eqb k k0) eqn:Ek; [|reflexivity].
      apply key_eqb_eq in Ek. subst. contradiction. }
    split.
    + intros H. inversion H as [|? ? ? ? Hxy Hrest]; subst. intros k [<-|Hk].
      * exists x0, y0. unfold child_at_key at 1. simpl. rewrite key_eqb_refl. auto.
      * rewrite (Hother k Hk). apply IH; assumption.
    + intros H. constructor.
      * destruct (H k0 (or_introl eq_refl)) as (x & y & Hx & Hy & Hr).
        unfold child_at_key in Hx at 1. simpl in Hx. rewrite key_eqb_refl in Hx. injection Hx as <-.
        rewrite Ey in Hy. injection Hy as <-. exact Hr.
      * apply IH. intros k Hk. destruct (H k (or_intror Hk)) as (x & y & Hx & Hy & Hr).
        rewrite (Hother k Hk) in Hx. eauto.
Qed.

Lemma child_at_key_In ks (cs : list stree) k x : child_at_key ks cs k = Some x -> In x cs.
Proof.
  unfold child_at_key. revert cs. induction ks as [|k0 ks IH]; intros [|c cs] H; simpl in H; try discriminate.
  destruct (key_eqb k k0); [injection H as <-; left; reflexivity | right; eapply IH; eauto].
Qed.

Lemma E_inv na ca nb cb :
  is_leaf_node na = false ->
  (E (T na ca) (T nb cb) <->
   prefix_node_ok na nb = true /\ exists cb', aligned na nb cb = Some cb' /\ Forall2 E ca cb').
Proof.
  intros La. unfold E. rewrite st_prefix_unfold, La. split.
  - intros H. destruct (prefix_node_ok na nb); [|discriminate H]. cbn [negb] in H.
    destruct (aligned na nb cb) as [cb'|]; [|discriminate H].
    split; [reflexivity|]. exists cb'. split; [reflexivity|]. apply prefix_list_E. exact H.
  - intros (-> & cb' & -> & H). cbn [negb]. apply prefix_list_E. exact H.
Qed.

Lemma P_of_parts na ca nb cb cb' :
  is_leaf_node na = false -> prefix_node_ok na nb = true -> aligned na nb cb = Some cb' -> Forall2 P ca cb' ->
  P (T na ca) (T nb cb).
Proof.
  intros La O A H. unfold P. rewrite st_prefix_unfold, La, O, A. cbn [negb]. apply prefix_list_Forall2. exact H.
Qed.

(* node-level compatibility is symmetric on nodes with pairwise distinct keys *)
Lemma pno_sym a b :
  (forall ka, node_keys a = Some ka -> is_dict_kind (nkind a) = true -> NoDup ka) ->
  prefix_node_ok a b = true -> prefix_node_ok b a = true.
Proof.
  intros Hnd H. pose proof (pno_common a b H) as [Ar Cu]. pose proof (pno_kind a b H) as K.
  unfold prefix_node_ok. rewrite <- Ar, <- Cu, Nat.eqb_refl, opt_reg_eqb_refl. cbn [andb].
  destruct (nkind a) eqn:Ka; try contradiction;
    try (rewrite K; rewrite kind_eqb_refl; reflexivity);
    try (destruct K as [K1 K2]; rewrite K1, K2, kind_eqb_refl, ndata_eqb_refl; reflexivity).
  all: destruct K as (D & ka & kb & Na & Nb & S); rewrite Na, Nb;
       pose proof (keys_same_set_sym ka kb (Hnd ka Na eq_refl) S) as S';
       destruct (nkind b); try discriminate D; rewrite S'; reflexivity.
Qed.

Definition Anti (a : stree) : Prop :=
  forall b, good a = true -> good b = true -> (E a b -> E b a) /\ (P a b -> P b a -> E a b).

Lemma anti_lists : forall ca cb, Forall Anti ca -> forallb good ca = true -> forallb good cb = true ->
  (Forall2 E ca cb -> Forall2 E cb ca) /\ (Forall2 P ca cb -> Forall2 P cb ca -> Forall2 E ca cb).
Proof.
  induction ca as [|x ca IH]; intros cb HA Ga Gb.
  - split; [intros H; inversion H; constructor | intros H; inversion H; constructor].
  - inversion HA as [|? ? Ax Aca]; subst. simpl in Ga. apply andb_true_iff in Ga as [Gx Gca].
    split.
    + intros H. inversion H as [|? y ? cb0 Hxy Hrest]; subst. simpl in Gb. apply andb_true_iff in Gb as [Gy Gcb].
      constructor; [apply (proj1 (Ax y Gx Gy)); exact Hxy | apply (proj1 (IH cb0 Aca Gca Gcb)); exact Hrest].
    + intros H1 H2. inversion H1 as [|? y ? cb0 Hxy Hrest]; subst. inversion H2 as [|? ? ? ? Hyx Hrest']; subst.
      simpl in Gb. apply andb_true_iff in Gb as [Gy Gcb].
      constructor; [apply (proj2 (Ax y Gx Gy)); assumption | apply (proj2 (IH cb0 Aca Gca Gcb)); assumption].
Qed.

Lemma same_set_incl ka kb : keys_same_set ka kb = true -> forall k, In k ka -> In k kb.
Proof.
  unfold keys_same_set, keys_subset. intros H k Hk. apply andb_true_iff in H as [_ H].
  rewrite forallb_forall in H. apply key_mem_In. apply H. exact Hk.
Qed.

(* turning an aligned comparison around: the children of b listed by b's keys against the children
   of a fetched by those keys *)
Lemma dict_flip (R1 R2 : stree -> stree -> Prop) ka ca kb cb cb' :
  NoDup ka -> length ka = length ca -> NoDup kb -> length kb = length cb ->
  keys_same_set ka kb = true -> omapM (child_at_key kb cb) ka = Some cb' ->
  (forall x y, In x ca -> In y cb -> R1 x y -> R2 y x) ->
  Forall2 R1 ca cb' ->
  exists ca', omapM (child_at_key ka ca) kb = Some ca' /\ Forall2 R2 cb ca'.
Proof.
  intros Na La Nb Lb S Hal Hflip H.
  pose proof (keys_same_set_sym ka kb Na S) as S'.
  pose proof (proj1 (aligned_pointwise R1 kb cb ka ca cb' Na La Hal) H) as H'. clear H. rename H' into H.
  destruct (omapM_exists (child_at_key ka ca) kb) as (ca' & Hca').
  { intros k Hk. apply lookup_exists; [exact La | exact (same_set_incl kb ka S' k Hk)]. }
  exists ca'. split; [exact Hca'|].
  apply (aligned_pointwise R2 ka ca kb cb ca' Nb Lb Hca').
  intros k Hk. destruct (H k (same_set_incl kb ka S' k Hk)) as (x & y & Hx & Hy & Hr).
  exists y, x. split; [exact Hy | split; [exact Hx|]].
  apply Hflip; [eapply child_at_key_In; eauto | eapply child_at_key_In; eauto | exact Hr].
Qed.

Lemma dict_meet (R1 R2 R3 : stree -> stree -> Prop) ka ca kb cb cb' ca' :
  NoDup ka -> length ka = length ca -> NoDup kb -> length kb = length cb ->
  keys_same_set ka kb = true ->
  omapM (child_at_key kb cb) ka = Some cb' -> omapM (child_at_key ka ca) kb = Some ca' ->
  (forall x y, In x ca -> In y cb -> R1 x y -> R2 y x -> R3 x y) ->
  Forall2 R1 ca cb' -> Forall2 R2 cb ca' -> Forall2 R3 ca cb'.
Proof.
  intros Na La Nb Lb S Hal Hal' Hmeet H1 H2.
  pose proof (proj1 (aligned_pointwise R1 kb cb ka ca cb' Na La Hal) H1) as H1'.
  pose proof (proj1 (aligned_pointwise R2 ka ca kb cb ca' Nb Lb Hal') H2) as H2'. clear H1 H2. rename H1' into H1. rename H2' into H2.
  apply (aligned_pointwise R3 kb cb ka ca cb' Na La Hal).
  intros k Hk. destruct (H1 k Hk) as (x & y & Hx & Hy & Hr1).
  destruct (H2 k (same_set_incl ka kb S k Hk)) as (y' & x' & Hy' & Hx' & Hr2).
  rewrite Hx in Hx'. injection Hx' as <-. rewrite Hy in Hy'. injection Hy' as <-.
  exists x, y. split; [exact Hx | split; [exact Hy|]].
  apply Hmeet; [eapply child_at_key_In; eauto | eapply child_at_key_In; eauto | exact Hr1 | exact Hr2].
Qed.

Lemma good_keys n cs : good (T n cs) = true ->
  forall ka, node_keys n = Some ka -> is_dict_kind (nkind n) = true -> NoDup ka /\ length ka = length cs.
Proof.
  intros G ka Hk D. destruct (good_node n cs G) as (_ & Dn & _). destruct (Dn D) as (ks & Hks & Hl & Hn).
  rewrite Hk in Hks. injection Hks as <-. auto.
Qed.

Theorem anti : forall a, Anti a.
Proof.
  induction a as [na ca IH] using stree_ind'. intros [nb cb] Ga Gb.
  destruct (is_leaf_node na) eqn:La.
  { split.
    - intros He. unfold E in *. rewrite st_prefix_unfold, La in He. injection He as Lb.
      rewrite st_prefix_unfold, Lb, La. reflexivity.
    - intros _ Hba. unfold E. rewrite st_prefix_unfold, La. f_equal.
      destruct (is_leaf_node nb) eqn:Lb; [reflexivity|]. exfalso.
      destruct (P_inv nb cb na ca Lb Hba) as (O & _). apply prefix_node_ok_nonleaf in O. congruence. }
  pose proof (good_children na ca Ga) as Gca. pose proof (good_children nb cb Gb) as Gcb.
  pose proof (anti_lists ca) as AL.
  (* from node compatibility in one direction to everything needed for the other *)
  assert (Hturn : prefix_node_ok na nb = true ->
            is_leaf_node nb = false /\ prefix_node_ok nb na = true).
  { intros O. split; [exact (prefix_node_ok_nonleaf na nb O)|].
    apply pno_sym; [|exact O]. intros ka Hk D. exact (proj1 (good_keys na ca Ga ka Hk D)). }
  destruct (is_dict_kind (nkind na)) eqn:Da.
  - (* dict-like *)
    assert (Hd : prefix_node_ok na nb = true ->
              exists ka kb, node_keys na = Some ka /\ node_keys nb = Some kb /\ keys_same_set ka kb = true /\
                            NoDup ka /\ length ka = length ca /\ NoDup kb /\ length kb = length cb /\
                            is_dict_kind (nkind nb) = true).
    { intros O. destruct (pno_dict na nb O Da) as (Db & ka & kb & Hka & Hkb & S).
      destruct (good_keys na ca Ga ka Hka Da) as [Na La']. destruct (good_keys nb cb Gb kb Hkb Db) as [Nb Lb'].
      exists ka, kb. repeat split; assumption. }
    split.
    + intros He. apply (E_inv na ca nb cb La) in He as (O & cb' & Hal & HE).
      destruct (Hturn O) as [Lb O']. destruct (Hd O) as (ka & kb & Hka & Hkb & S & Na & La' & Nb & Lb' & Db).
      unfold aligned in Hal. rewrite Da, Hka, Hkb in Hal.
      destruct (dict_flip E E ka ca kb cb cb' Na La' Nb Lb' S Hal) as (ca' & Hca' & HE'); [|exact HE|].
      { intros x y Hx Hy Hxy. rewrite Forall_forall in IH.
        apply (proj1 (IH x Hx y (forallb_In _ _ _ Gca Hx) (forallb_In _ _ _ Gcb Hy))). exact Hxy. }
      apply (E_inv nb cb na ca Lb). split; [exact O'|]. exists ca'. split; [|exact HE'].
      unfold aligned. rewrite Db, Hkb, Hka. exact Hca'.
    + intros Hab Hba. destruct (P_inv na ca nb cb La Hab) as (O & cb' & Hal & HP).
      destruct (Hturn O) as [Lb O']. destruct (Hd O) as (ka & kb & Hka & Hkb & S & Na & La' & Nb & Lb' & Db).
      destruct (P_inv nb cb na ca Lb Hba) as (_ & ca' & Hal' & HP').
      unfold aligned in Hal, Hal'. rewrite Da, Hka, Hkb in Hal. rewrite Db, Hkb, Hka in Hal'.
      apply (E_inv na ca nb cb La). split; [exact O|]. exists cb'. split; [unfold aligned; rewrite Da, Hka, Hkb; exact Hal|].
      apply (dict_meet P P E ka ca kb cb cb' ca' Na La' Nb Lb' S Hal Hal'); [|exact HP | exact HP'].
      intros x y Hx Hy Hxy Hyx. rewrite Forall_forall in IH.
      apply (proj2 (IH x Hx y (forallb_In _ _ _ Gca Hx) (forallb_In _ _ _ Gcb Hy))); assumption.
  - (* positional *)
    assert (Db : prefix_node_ok na nb = true -> is_dict_kind (nkind nb) = false).
    { intros O. rewrite (prefix_node_ok_dict na nb O). exact Da. }
    split.
    + intros He. apply (E_inv na ca nb cb La) in He as (O & cb' & Hal & HE).
      destruct (Hturn O) as [Lb O']. unfold aligned in Hal. rewrite Da in Hal. injection Hal as <-.
      apply (E_inv nb cb na ca Lb). split; [exact O'|]. exists ca. split; [unfold aligned; rewrite (Db O); reflexivity|].
      apply (proj1 (AL cb IH Gca Gcb)). exact HE.
    + intros Hab Hba. destruct (P_inv na ca nb cb La Hab) as (O & cb' & Hal & HP).
      destruct (Hturn O) as [Lb O']. destruct (P_inv nb cb na ca Lb Hba) as (_ & ca' & Hal' & HP').
      unfold aligned in Hal, Hal'. rewrite Da in Hal. rewrite (Db O) in Hal'. injection Hal as <-. injection Hal' as <-.
      apply (E_inv na ca nb cb La). split; [exact O|]. exists cb. split; [unfold aligned; rewrite Da; reflexivity|].
      apply (proj2 (AL cb IH Gca Gcb)); assumption.
Qed.

(* ---------- the statements ---------- *)
Theorem prefix_antisym a b : good a = true -> good b = true -> P a b -> P b a -> E a b /\ E b a.
Proof.
  intros Ga Gb Hab Hba. split; [exact (proj2 (anti a b Ga Gb) Hab Hba) | exact (proj2 (anti b a Gb Ga) Hba Hab)].
Qed.

Theorem E_sym a b : good a = true -> good b = true -> E a b -> E b a.
Proof. intros Ga Gb. exact (proj1 (anti a b Ga Gb)). Qed.

Theorem E_iff_mutual_prefix a b : good a = true -> good b = true -> (E a b <-> P a b /\ P b a).
Proof.
  intros Ga Gb. split.
  - intros H. split; [exact (E_P a b H) | exact (E_P b a (E_sym a b Ga Gb H))].
  - intros [H1 H2]. exact (proj1 (prefix_antisym a b Ga Gb H1 H2)).
Qed.

(* at the level of PyTreeSpec.is_prefix: mutual prefixes are never strict prefixes of each other *)
Theorem is_prefix_antisym a b :
  good (stree_of a) = true -> good (stree_of b) = true ->
  ss_is_prefix a b false = true -> ss_is_prefix b a false = true ->
  ss_is_prefix a b true = false /\ ss_is_prefix b a true = false /\
  st_prefix (stree_of a) (stree_of b) = (true, true).
Proof.
  intros Ga Gb Hab Hba.
  assert (Pab : P (stree_of a) (stree_of b)).
  { unfold ss_is_prefix in Hab. destruct (negb _); [discriminate|]. destruct (negb _); [discriminate|].
    destruct (Nat.ltb _ _); [discriminate|]. unfold P. destruct (st_prefix _ _) as [p m]. simpl in *.
    apply andb_true_iff in Hab as [-> _]. reflexivity. }
  assert (Pba : P (stree_of b) (stree_of a)).
  { unfold ss_is_prefix in Hba. destruct (negb _); [discriminate|]. destruct (negb _); [discriminate|].
    destruct (Nat.ltb _ _); [discriminate|]. unfold P. destruct (st_prefix _ _) as [p m]. simpl in *.
    apply andb_true_iff in Hba as [-> _]. reflexivity. }
  destruct (prefix_antisym _ _ Ga Gb Pab Pba) as [Eab Eba]. unfold E in Eab, Eba.
  rewrite (strict_prefix_def a b), (strict_prefix_def b a), Hab, Hba, Eab, Eba. auto.
Qed.
