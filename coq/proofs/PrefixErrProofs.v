(* PrefixErrProofs.v — the third decider: prefix_errors (Python, tree against tree) reports nothing
   exactly when flatten_up_to of the prefix tree's treespec succeeds on the full tree (property C07). *)
From OptreeModel Require Import Base Tree Flatten Unflatten Spec Construct PrefixErr.
From OptreeProofs Require Import BaseProofs RoundTrip SpecProofs TraversalProofs EqProofs OrderProofs PrefixOrder JoinOrder
  FaultProofs ConstructProofs FlattenGood UpToProofs UpToPrefix UpToPartition.
From Coq Require Import Permutation.

Definition Leg (c : cfg) (fuel : nat) (x : obj) (t : stree) : Prop :=
  forall f stk, wf_obj f = true -> (Succeeds (up_to c t f) <-> perr c fuel stk x f = Ok []).

Lemma perr_list_iff c fuel : forall cp ts, Forall2 (Leg c fuel) cp ts ->
  forall es cf stk, length es = length cp -> forallb wf_obj cf = true ->
  (Succeeds (mapM_rev2 (up_to c) ts cf) <-> (length cp = length cf /\ perr_list (perr c fuel) stk es cp cf = Ok [])).
Proof.
  induction 1 as [|x t cp ts Hx _ IH]; intros es cf stk Hl Hw.
  - destruct es; [|discriminate Hl]. destruct cf; simpl.
    + split; [intros _; auto | intros _; eexists; reflexivity].
    + split; [intros (r & H); discriminate | intros [H _]; discriminate].
  - destruct es as [|e es]; [discriminate Hl|]. injection Hl as Hl.
    destruct cf as [|y cf].
    + simpl. split; [intros (r & H); discriminate | intros [H _]; discriminate].
    + simpl in Hw. apply andb_true_iff in Hw as [Hwy Hwcf].
      rewrite mapM_rev2_succeeds. cbn [perr_list length].
      specialize (IH es cf stk Hl Hwcf). rewrite mapM_rev2_succeeds in IH.
      split.
      * intros H. inversion H as [|? ? ? ? H1 H2]; subst. apply IH in H2 as [H2 H3].
        apply (Hx y (e :: stk) Hwy) in H1. rewrite H1, H3. simpl. split; [congruence | reflexivity].
      * intros [H1 H2]. injection H1 as H1.
        destruct (perr c fuel (e :: stk) x y) as [r1|] eqn:E1; simpl in H2; [|discriminate].
        destruct (perr_list (perr c fuel) stk es cp cf) as [r2|] eqn:E2; simpl in H2; [|discriminate].
        injection H2 as H2. apply app_eq_nil in H2 as [-> ->].
        constructor; [apply (Hx y (e :: stk) Hwy); exact E1 | apply IH; auto].
Qed.

Lemma legs_of_seq c fuel :
  (forall p t lsp b, wf_obj p = true -> tflat c fuel p = Ok (lsp, t, b) -> Leg c fuel p t) ->
  forall cl ls ts b, forallb wf_obj cl = true -> tflat_seq (tflat c fuel) cl = Ok (ls, ts, b) ->
  Forall2 (Leg c fuel) cl ts.
Proof.
  intros IH cl ls ts b Hw H. pose proof (tflat_seq_Forall2 _ _ _ _ _ H) as F. clear H.
  induction F as [|x t cl ts (lx & bx & Hx) _ IHF]; constructor.
  - simpl in Hw. apply andb_true_iff in Hw as [Hw _]. exact (IH x t lx bx Hw Hx).
  - simpl in Hw. apply andb_true_iff in Hw as [_ Hw]. exact (IHF Hw).
Qed.

Lemma incompat_types h cs hf csf :
  kinds_compat (hdr_kind h) (hdr_kind hf) = false ->
  same_type (Node h cs) (Node hf csf) = false /\ is_dict_obj (Node h cs) && is_dict_obj (Node hf csf) = false.
Proof. destruct h, hf; simpl; intros H; try discriminate H; split; reflexivity. Qed.

Lemma pos_finish c fuel cs ts es csf stk :
  Forall2 (Leg c fuel) cs ts -> length es = length cs -> forallb wf_obj csf = true ->
  (Succeeds (do r <- mapM_rev2 (up_to c) ts csf ;; Ok (concat r)) <->
   (length cs = length csf /\ perr_list (perr c fuel) stk es cs csf = Ok [])).
Proof.
  intros HL He Hw. rewrite succeeds_bind_concat. apply perr_list_iff; assumption.
Qed.

Lemma pos_finish2 c fuel cs ts es csf stk (e : err) (pe : perrs) :
  Forall2 (Leg c fuel) cs ts -> length es = length cs -> forallb wf_obj csf = true -> pe <> [] ->
  (Succeeds (if Nat.eqb (length csf) (length ts) then do r <- mapM_rev2 (up_to c) ts csf ;; Ok (concat r) else Err e) <->
   (if negb (Nat.eqb (length cs) (length csf)) then Ok pe else perr_list (perr c fuel) stk es cs csf) = Ok []).
Proof.
  intros HL He Hw Hpe. rewrite <- (Forall2_length' _ _ _ HL), (Nat.eqb_sym (length csf)).
  destruct (Nat.eqb (length cs) (length csf)) eqn:El; cbn [negb].
  - rewrite (pos_finish c fuel cs ts es csf stk HL He Hw). apply Nat.eqb_eq in El. tauto.
  - split; [intros (x & Hx); discriminate | intros Hx; injection Hx as Hx; contradiction].
Qed.

Ltac both_false' := split; [intros (?x & ?Hx); discriminate | intros ?Hx; discriminate].

Lemma subset_incl a b : keys_subset a b = true <-> incl a b.
Proof.
  unfold keys_subset. rewrite forallb_forall. split; intros H k Hk; [apply key_mem_In | apply key_mem_In]; auto.
Qed.

Lemma same_set_as_subsets vks ksf vkf : NoDup vks -> NoDup ksf -> Permutation vkf ksf ->
  keys_same_set vks ksf = keys_subset vks vkf && keys_subset vkf vks.
Proof.
  intros N1 N2 Hp.
  destruct (keys_subset vks vkf && keys_subset vkf vks) eqn:B.
  - apply andb_true_iff in B as [B1 B2]. apply subset_incl in B1, B2.
    unfold keys_same_set. apply andb_true_iff. split.
    + apply Nat.eqb_eq. rewrite <- (Permutation_length Hp). apply Nat.le_antisymm.
      * apply NoDup_incl_length; assumption.
      * apply NoDup_incl_length; [|assumption]. eapply Permutation_NoDup; [symmetry; exact Hp | exact N2].
    + apply subset_incl. intros k Hk. eapply Permutation_in; [exact Hp | apply B1; exact Hk].
  - destruct (keys_same_set vks ksf) eqn:S; [|reflexivity].
    pose proof (same_set_perm vks ksf N1 S) as Hperm.
    assert (keys_subset vks vkf && keys_subset vkf vks = true); [|congruence].
    apply andb_true_iff. split; apply subset_incl; intros k Hk.
    + eapply Permutation_in; [symmetry; exact Hp|]. eapply Permutation_in; [exact Hperm | exact Hk].
    + eapply Permutation_in; [symmetry; exact Hperm|]. eapply Permutation_in; [exact Hp | exact Hk].
Qed.

Lemma dict_finish c fuel stk ks cs vks ch ts ksf csf vkf :
  mapM (child_by_key ks cs) vks = Ok ch -> Forall2 (Leg c fuel) ch ts ->
  NoDup vks -> NoDup ksf -> length ksf = length csf -> forallb wf_obj csf = true -> Permutation vkf ksf ->
  (Succeeds (if keys_same_set vks ksf
             then do ch0 <- mapM (child_by_key ksf csf) vks ;; do r <- mapM_rev2 (up_to c) ts ch0 ;; Ok (concat r)
             else Err ValueError) <->
   (if negb (keys_subset vks vkf && keys_subset vkf vks) then Ok [(rev stk, PEKeys)]
    else do cf' <- mapM (child_by_key ksf csf) vks ;;
         if negb (Nat.eqb (length ch) (length cf')) then Ok [(rev stk, PEArity)]
         else perr_list (perr c fuel) stk vks ch cf') = Ok []).
Proof.
  intros Ech HL N1 N2 Hlen Hw Hp.
  rewrite <- (same_set_as_subsets vks ksf vkf N1 N2 Hp).
  destruct (keys_same_set vks ksf) eqn:S; cbn [negb]; [|both_false'].
  pose proof (same_set_perm vks ksf N1 S) as Hperm.
  destruct (mapM_child_by_key_ok ksf csf vks N2 Hlen) as (cf' & Ecf).
  { intros k Hk. eapply Permutation_in; [exact Hperm | exact Hk]. }
  rewrite Ecf. cbn [bind].
  assert (Hwcf : forallb wf_obj cf' = true).
  { apply forallb_forall. intros x Hx. apply (forallb_In _ _ _ Hw). apply (proj2 (proj2 (mapM_child_by_key _ _ _ _ Ecf))). exact Hx. }
  assert (Hl : length vks = length ch) by (symmetry; apply (proj1 (mapM_child_by_key _ _ _ _ Ech))).
  rewrite (pos_finish c fuel ch ts vks cf' stk HL Hl Hwcf).
  destruct (Nat.eqb (length ch) (length cf')) eqn:El; cbn [negb].
  - apply Nat.eqb_eq in El. tauto.
  - apply Nat.eqb_neq in El. split; [intros [H _]; contradiction | intros H; discriminate H].
Qed.

Ltac both_false := split; [intros (?x & ?Hx); discriminate | intros ?Hx; discriminate].

Ltac dict_dict :=
  match goal with
  | Hwhf : wf_hdr _ (length ?csf) = true, Ech : mapM (child_by_key _ _) _ = Ok _
    |- context[mapM (child_by_key ?ksf ?csf) (visit_keys ?c ?KF ?ksf)] =>
    let Hlf := fresh "Hlf" in let Hndf := fresh "Hndf" in let chf := fresh "chf" in let Echf := fresh "Echf" in
    simpl in Hwhf; apply andb_true_iff in Hwhf as [Hlf Hndf]; apply Nat.eqb_eq in Hlf; apply keys_nodup_NoDup in Hndf;
    destruct (mapM_child_by_key_ok ksf csf (visit_keys c KF ksf) Hndf Hlf) as (chf & Echf);
    [ let k0 := fresh "k" in let Hk0 := fresh "Hk" in
      intros k0 Hk0; eapply Permutation_in; [apply visit_keys_perm | exact Hk0] |];
    rewrite Echf, Ech; cbn -[visit_keys];
    eapply dict_finish; eauto using visit_keys_perm
  end.

Theorem perr_iff c : forall fuel p t lsp b, wf_obj p = true -> tflat c fuel p = Ok (lsp, t, b) -> Leg c fuel p t.
Proof.
  induction fuel as [|fuel IH]; intros p t lsp b Hwp Hr f stk Hwf; [discriminate|].
  cbn [tflat] in Hr. cbn [perr]. unfold tree_is_leaf.
  destruct (apply_pred c p) eqn:Hap.
  { injection Hr as <- <- <-. simpl. split; [reflexivity | intros _; eexists; reflexivity]. }
  destruct (get_kind c p) as [k cu] eqn:Ek. cbn [orb fst].
  destruct p as [id|h cs].
  { injection Hr as <- <- <-. simpl in Ek. injection Ek as <- <-. simpl. split; [reflexivity | intros _; eexists; reflexivity]. }
  destruct (kind_eqb k KdLeaf) eqn:Kl.
  { apply kind_eqb_eq in Kl. subst k. injection Hr as <- <- <-. split; [reflexivity | intros _; eexists; reflexivity]. }
  simpl in Hwp. apply andb_true_iff in Hwp as [Hwh Hwcs].
  pose proof (legs_of_seq c fuel IH) as Legs.
  assert (Hroot : forall n ts, t = T n ts -> nkind n = k).
  { intros n ts ->. pose proof (tflat_root_kind c fuel h cs lsp (T n ts) b k cu Hap Ek) as H. cbn [tflat] in H.
    rewrite Hap, Ek in H. exact (H Hr). }
  destruct f as [idf|hf csf].
  { (* the full tree has a leaf here *)
    cbn [same_type is_dict_obj]. rewrite andb_false_r. cbn [negb andb]. destruct t as [n ts]. split; [|intros H; discriminate H].
    intros H. exfalso. apply (up_to_leaf_obj c n ts idf); [|exact H].
    unfold is_leaf_node. rewrite (Hroot n ts eq_refl). exact Kl. }
  simpl in Hwf. apply andb_true_iff in Hwf as [Hwhf Hwcsf].
  destruct k; try discriminate Kl.
  - (* custom *)
    destruct h; simpl in Ek; try discriminate Ek; try (destruct (c_nil c); discriminate Ek).
    destruct (lookup_reg c cls) as [r|] eqn:El; [|discriminate Ek]. injection Ek as <-.
    assert (Hx : exists ls0 ts b0, tflat_seq (tflat c fuel) cs = Ok (ls0, ts, b0) /\
               t = mkT (node_of KdCustom (Some r) (HCustom cls meta eb) [] (length ts)) ts /\
               match eb with EAbsent | ENone => True | EGiven es => length es = length cs | _ => False end).
    { destruct eb as [| |es|x|x]; try discriminate Hr;
        (destruct (tflat_seq (tflat c fuel) cs) as [[[ls0 ts] b0]|] eqn:E; simpl in Hr; [|discriminate Hr]).
      - injection Hr as <- <- <-. exists ls0, ts, b0. auto.
      - injection Hr as <- <- <-. exists ls0, ts, b0. auto.
      - destruct (Nat.eqb (length es) (length cs)) eqn:Ee; [|discriminate Hr]. injection Hr as <- <- <-.
        exists ls0, ts, b0. apply Nat.eqb_eq in Ee. auto. }
    destruct Hx as (ls0 & ts & b0 & E & -> & Heb). clear Hr.
    pose proof (Legs cs ls0 ts b0 Hwcs E) as HL.
    pose proof (Forall2_length' _ _ _ HL) as Hlen.
    destruct hf as [| | | | | | | | |cls' meta' eb']; try (destruct eb; cbn; both_false).
    (* both are instances of registered classes? *)
    unfold mkT. cbn [up_to]. unfold recount. cbn [nkind narity ndat ncustom node_of raw_node].
    cbn [same_type is_dict_obj is_deque_obj andb negb one_level get_kind]. rewrite El. cbn [andb].
    destruct (Z.eqb cls cls') eqn:Ec.
    2:{ (* different classes *)
      cbn [negb]. split; [|intros H; discriminate H]. intros (x & Hx). exfalso.
      destruct (lookup_reg c cls') as [r'|] eqn:El'; [|discriminate Hx].
      destruct (opt_reg_eqb (Some r') (Some r)) eqn:Er; [|discriminate Hx].
      apply opt_reg_eqb_eq in Er. injection Er as ->.
      apply lookup_reg_cls in El, El'. apply Z.eqb_neq in Ec. congruence. }
    apply Z.eqb_eq in Ec. subst cls'. rewrite El, opt_reg_eqb_refl. cbn [negb].
    destruct eb as [| |es|x|x]; try contradiction; destruct eb' as [| |es'|x'|x']; try (cbn; both_false).
    all: cbn [node_of raw_node ndat ndata_eqb ebeh_eqb andb bind negb].
    all: rewrite ?(proj2 (Nat.eqb_eq _ _) Heb), ?andb_false_r, ?andb_true_r; cbn [negb andb bind].
    all: repeat match goal with
         | |- context[if ?bb then _ else _] =>
           match bb with
           | context[if _ then _ else _] => fail 1
           | _ => let Hb := fresh "Hb" in destruct bb eqn:Hb; cbn [negb andb bind]
           end
         end.
    all: try both_false.
    all: pose proof (fun es He => pos_finish c fuel cs ts es csf stk HL He Hwcsf) as PF.
    all: repeat match goal with
         | H : (_ =? _)%nat = true |- _ => apply Nat.eqb_eq in H
         | H : (_ =? _)%nat = false |- _ => apply Nat.eqb_neq in H
         | H : negb _ = true |- _ => apply negb_true_iff in H
         | H : negb _ = false |- _ => apply negb_false_iff in H
         | H : _ && _ = true |- _ => apply andb_true_iff in H; destruct H
         | H : Z.eqb _ _ = true |- _ => apply Z.eqb_eq in H; subst
         | H : keys_eqb _ _ = true |- _ => apply keys_eqb_eq in H; subst
         | H : ndata_eqb _ _ = true |- _ => apply ndata_eqb_eq in H; try discriminate H; injection H as ?; subst
         end.
    all: rewrite ?ndata_eqb_refl in *.
    all: try (rewrite ?Z.eqb_refl, ?(proj2 (keys_eqb_eq _ _) eq_refl) in *; cbn [andb] in * ).
    all: try congruence.
    all: try (exfalso; congruence).
    all: try (match goal with |- _ <-> perr_list _ _ ?es0 _ _ = _ =>
                rewrite (PF es0) by (rewrite ?pos_keys_length; congruence); tauto end).
  - (* None *)
    destruct h; simpl in Ek; try discriminate Ek; try (destruct (lookup_reg c cls); discriminate Ek).
    destruct (c_nil c) eqn:Hnil; [discriminate Ek|]. injection Hr as <- <- <-.
    destruct hf; cbn; rewrite ?Hnil; cbn; try both_false.
    split; [reflexivity | intros _; eexists; reflexivity].
  - (* tuple *)
    destruct h; simpl in Ek; try discriminate Ek; try (destruct (c_nil c); discriminate Ek);
      try (destruct (lookup_reg c cls); discriminate Ek).
    destruct (tflat_seq (tflat c fuel) cs) as [[[ls0 ts] b0]|] eqn:E; simpl in Hr; [|discriminate Hr].
    injection Hr as <- <- <-. pose proof (Legs cs ls0 ts b0 Hwcs E) as HL.
    destruct hf; cbn; try both_false.
    apply pos_finish2; auto using pos_keys_length. discriminate.
  - (* list *)
    destruct h; simpl in Ek; try discriminate Ek; try (destruct (c_nil c); discriminate Ek);
      try (destruct (lookup_reg c cls); discriminate Ek).
    destruct (tflat_seq (tflat c fuel) cs) as [[[ls0 ts] b0]|] eqn:E; simpl in Hr; [|discriminate Hr].
    injection Hr as <- <- <-. pose proof (Legs cs ls0 ts b0 Hwcs E) as HL.
    destruct hf; cbn; try both_false.
    apply pos_finish2; auto using pos_keys_length. discriminate.
  - (* dict *)
    destruct h; simpl in Ek; try discriminate Ek; try (destruct (c_nil c); discriminate Ek);
      try (destruct (lookup_reg c cls); discriminate Ek).
    cbn [hdr_keys] in Hr. cbn zeta in Hr.
    destruct (mapM (child_by_key ks cs) (visit_keys c KdDict ks)) as [ch|] eqn:Ech; cbn [bind] in Hr; [|discriminate Hr].
    destruct (tflat_seq (tflat c fuel) ch) as [[[ls0 ts] b0]|] eqn:E; cbn [bind] in Hr; [|discriminate Hr].
    injection Hr as <- <- <-.
    assert (Hwch : forallb wf_obj ch = true).
    { apply forallb_forall. intros x Hx. apply (forallb_In _ _ _ Hwcs). apply (proj2 (proj2 (mapM_child_by_key _ _ _ _ Ech))). exact Hx. }
    pose proof (Legs ch ls0 ts b0 Hwch E) as HL.
    simpl in Hwh. apply andb_true_iff in Hwh as [_ Hnd]. apply keys_nodup_NoDup in Hnd.
    assert (Nv : NoDup (visit_keys c KdDict ks)).
    { eapply Permutation_NoDup; [symmetry; apply visit_keys_perm | exact Hnd]. }
    destruct hf; cbn -[visit_keys]; try both_false.
    all: dict_dict.
  - (* namedtuple *)
    destruct h; simpl in Ek; try discriminate Ek; try (destruct (c_nil c); discriminate Ek);
      try (destruct (lookup_reg c cls); discriminate Ek).
    destruct (tflat_seq (tflat c fuel) cs) as [[[ls0 ts] b0]|] eqn:E; simpl in Hr; [|discriminate Hr].
    injection Hr as <- <- <-. pose proof (Legs cs ls0 ts b0 Hwcs E) as HL.
    destruct hf; cbn; try both_false.
    rewrite (Z.eqb_sym cls0 cls), <- (Forall2_length' _ _ _ HL), (Nat.eqb_sym (length csf)).
    destruct (Z.eqb cls cls0); destruct (Nat.eqb (length cs) (length csf)) eqn:El; cbn; try both_false.
    rewrite (pos_finish c fuel cs ts (pos_keys (length cs) 0) csf stk HL (pos_keys_length _ _) Hwcsf).
    apply Nat.eqb_eq in El. tauto.
  - (* OrderedDict *)
    destruct h; simpl in Ek; try discriminate Ek; try (destruct (c_nil c); discriminate Ek);
      try (destruct (lookup_reg c cls); discriminate Ek).
    cbn [hdr_keys] in Hr. cbn zeta in Hr.
    destruct (mapM (child_by_key ks cs) (visit_keys c KdODict ks)) as [ch|] eqn:Ech; cbn [bind] in Hr; [|discriminate Hr].
    destruct (tflat_seq (tflat c fuel) ch) as [[[ls0 ts] b0]|] eqn:E; cbn [bind] in Hr; [|discriminate Hr].
    injection Hr as <- <- <-.
    assert (Hwch : forallb wf_obj ch = true).
    { apply forallb_forall. intros x Hx. apply (forallb_In _ _ _ Hwcs). apply (proj2 (proj2 (mapM_child_by_key _ _ _ _ Ech))). exact Hx. }
    pose proof (Legs ch ls0 ts b0 Hwch E) as HL.
    simpl in Hwh. apply andb_true_iff in Hwh as [_ Hnd]. apply keys_nodup_NoDup in Hnd.
    assert (Nv : NoDup (visit_keys c KdODict ks)).
    { eapply Permutation_NoDup; [symmetry; apply visit_keys_perm | exact Hnd]. }
    destruct hf; cbn -[visit_keys]; try both_false.
    all: dict_dict.
  - (* defaultdict *)
    destruct h; simpl in Ek; try discriminate Ek; try (destruct (c_nil c); discriminate Ek);
      try (destruct (lookup_reg c cls); discriminate Ek).
    cbn [hdr_keys] in Hr. cbn zeta in Hr.
    destruct (mapM (child_by_key ks cs) (visit_keys c KdDDict ks)) as [ch|] eqn:Ech; cbn [bind] in Hr; [|discriminate Hr].
    destruct (tflat_seq (tflat c fuel) ch) as [[[ls0 ts] b0]|] eqn:E; cbn [bind] in Hr; [|discriminate Hr].
    injection Hr as <- <- <-.
    assert (Hwch : forallb wf_obj ch = true).
    { apply forallb_forall. intros x Hx. apply (forallb_In _ _ _ Hwcs). apply (proj2 (proj2 (mapM_child_by_key _ _ _ _ Ech))). exact Hx. }
    pose proof (Legs ch ls0 ts b0 Hwch E) as HL.
    simpl in Hwh. apply andb_true_iff in Hwh as [_ Hnd]. apply keys_nodup_NoDup in Hnd.
    assert (Nv : NoDup (visit_keys c KdDDict ks)).
    { eapply Permutation_NoDup; [symmetry; apply visit_keys_perm | exact Hnd]. }
    destruct hf; cbn -[visit_keys]; try both_false.
    all: dict_dict.
  - (* deque *)
    destruct h; simpl in Ek; try discriminate Ek; try (destruct (c_nil c); discriminate Ek);
      try (destruct (lookup_reg c cls); discriminate Ek).
    destruct (tflat_seq (tflat c fuel) cs) as [[[ls0 ts] b0]|] eqn:E; simpl in Hr; [|discriminate Hr].
    injection Hr as <- <- <-. pose proof (Legs cs ls0 ts b0 Hwcs E) as HL.
    destruct hf; cbn; try both_false.
    apply pos_finish2; auto using pos_keys_length. discriminate.
  - (* struct sequence *)
    destruct h; simpl in Ek; try discriminate Ek; try (destruct (c_nil c); discriminate Ek);
      try (destruct (lookup_reg c cls); discriminate Ek).
    destruct (tflat_seq (tflat c fuel) cs) as [[[ls0 ts] b0]|] eqn:E; simpl in Hr; [|discriminate Hr].
    injection Hr as <- <- <-. pose proof (Legs cs ls0 ts b0 Hwcs E) as HL.
    destruct hf; cbn; try both_false.
    rewrite (Z.eqb_sym cls0 cls), <- (Forall2_length' _ _ _ HL), (Nat.eqb_sym (length csf)).
    destruct (Z.eqb cls cls0); destruct (Nat.eqb (length cs) (length csf)) eqn:El; cbn; try both_false.
    rewrite (pos_finish c fuel cs ts (pos_keys (length cs) 0) csf stk HL (pos_keys_length _ _) Hwcsf).
    apply Nat.eqb_eq in El. tauto.
Qed.

(* ---------- only ValueError, and prefix_errors itself never raises, on well-behaved trees ---------- *)
(* every instance of a registered class has a flatten function that returns a proper tuple with as
   many entries as children *)
Fixpoint wb (c : cfg) (o : obj) : bool :=
  match o with
  | Leaf _ => true
  | Node h cs =>
    match h with
    | HCustom cls _ eb =>
      match lookup_reg c cls with
      | Some _ => match eb with EAbsent | ENone => true | EGiven es => Nat.eqb (length es) (length cs) | _ => false end
      | None => true
      end
    | _ => true
    end && forallb (wb c) cs
  end.

Definition Leg2 (c : cfg) (fuel : nat) (x : obj) (t : stree) : Prop :=
  forall f stk, wf_obj f = true -> wb c f = true ->
  (exists l, perr c fuel stk x f = Ok l) /\ (Succeeds (up_to c t f) \/ up_to c t f = Err ValueError).

Lemma list_total c fuel : forall cp ts, Forall2 (Leg2 c fuel) cp ts ->
  forall es cf stk, length cp = length cf -> forallb wf_obj cf = true -> forallb (wb c) cf = true ->
  (exists l, perr_list (perr c fuel) stk es cp cf = Ok l) /\
  (Succeeds (mapM_rev2 (up_to c) ts cf) \/ mapM_rev2 (up_to c) ts cf = Err ValueError).
Proof.
  induction 1 as [|x t cp ts Hx _ IH]; intros es cf stk Hl Hw Hb.
  - destruct cf; [|discriminate Hl]. split; [destruct es; eexists; reflexivity | left; eexists; reflexivity].
  - destruct cf as [|y cf]; [discriminate Hl|]. injection Hl as Hl.
    simpl in Hw, Hb. apply andb_true_iff in Hw as [Hwy Hwcf]. apply andb_true_iff in Hb as [Hby Hbcf].
    split.
    + destruct es as [|e es]; [eexists; reflexivity|]. cbn [perr_list].
      destruct (Hx y (e :: stk) Hwy Hby) as [(l1 & ->) _].
      destruct (IH es cf stk Hl Hwcf Hbcf) as [(l2 & ->) _]. simpl. eexists; reflexivity.
    + cbn [mapM_rev2]. destruct (IH [] cf stk Hl Hwcf Hbcf) as [_ [(rest & ->) | ->]]; [|right; reflexivity].
      cbn [bind]. destruct (Hx y [] Hwy Hby) as [_ [(v & ->) | ->]]; [left; eexists; reflexivity | right; reflexivity].
Qed.

Lemma bind_concat_total {A} (m : res (list (list A))) :
  Succeeds m \/ m = Err ValueError ->
  Succeeds (do r <- m ;; Ok (concat r)) \/ (do r <- m ;; Ok (concat r)) = Err ValueError.
Proof. intros [(x & ->) | ->]; [left; eexists; reflexivity | right; reflexivity]. Qed.

Lemma pos_total c fuel cs ts es csf stk (pe : perrs) :
  Forall2 (Leg2 c fuel) cs ts -> forallb wf_obj csf = true -> forallb (wb c) csf = true ->
  (exists l, (if negb (Nat.eqb (length cs) (length csf)) then Ok pe else perr_list (perr c fuel) stk es cs csf) = Ok l) /\
  (Succeeds (if Nat.eqb (length csf) (length ts) then do r <- mapM_rev2 (up_to c) ts csf ;; Ok (concat r) else Err ValueError) \/
   (if Nat.eqb (length csf) (length ts) then do r <- mapM_rev2 (up_to c) ts csf ;; Ok (concat r) else Err ValueError) = Err ValueError).
Proof.
  intros HL Hw Hb. rewrite <- (Forall2_length' _ _ _ HL), (Nat.eqb_sym (length csf)).
  destruct (Nat.eqb (length cs) (length csf)) eqn:El; cbn [negb].
  - apply Nat.eqb_eq in El. destruct (list_total c fuel cs ts HL es csf stk El Hw Hb) as [H1 H2].
    split; [exact H1 | apply bind_concat_total; exact H2].
  - split; [eexists; reflexivity | right; reflexivity].
Qed.

Lemma dict_total c fuel stk ks cs vks ch ts ksf csf vkf :
  mapM (child_by_key ks cs) vks = Ok ch -> Forall2 (Leg2 c fuel) ch ts ->
  NoDup vks -> NoDup ksf -> length ksf = length csf -> forallb wf_obj csf = true -> forallb (wb c) csf = true ->
  Permutation vkf ksf ->
  (exists l, (if negb (keys_subset vks vkf && keys_subset vkf vks) then Ok [(rev stk, PEKeys)]
              else do cf' <- mapM (child_by_key ksf csf) vks ;;
                   if negb (Nat.eqb (length ch) (length cf')) then Ok [(rev stk, PEArity)]
                   else perr_list (perr c fuel) stk vks ch cf') = Ok l) /\
  (Succeeds (if keys_same_set vks ksf
             then do ch0 <- mapM (child_by_key ksf csf) vks ;; do r <- mapM_rev2 (up_to c) ts ch0 ;; Ok (concat r)
             else Err ValueError) \/
   (if keys_same_set vks ksf
    then do ch0 <- mapM (child_by_key ksf csf) vks ;; do r <- mapM_rev2 (up_to c) ts ch0 ;; Ok (concat r)
    else Err ValueError) = Err ValueError).
Proof.
  intros Ech HL N1 N2 Hlen Hw Hb Hp.
  rewrite <- (same_set_as_subsets vks ksf vkf N1 N2 Hp).
  destruct (keys_same_set vks ksf) eqn:S; cbn [negb]; [|split; [eexists; reflexivity | right; reflexivity]].
  pose proof (same_set_perm vks ksf N1 S) as Hperm.
  destruct (mapM_child_by_key_ok ksf csf vks N2 Hlen) as (cf' & Ecf).
  { intros k Hk. eapply Permutation_in; [exact Hperm | exact Hk]. }
  rewrite Ecf. cbn [bind].
  assert (Hsub : forall x, In x cf' -> In x csf) by (apply (proj2 (proj2 (mapM_child_by_key _ _ _ _ Ecf)))).
  assert (Hwcf : forallb wf_obj cf' = true).
  { apply forallb_forall. intros x Hx. apply (forallb_In _ _ _ Hw). auto. }
  assert (Hbcf : forallb (wb c) cf' = true).
  { apply forallb_forall. intros x Hx. apply (forallb_In _ _ _ Hb). auto. }
  assert (El : length ch = length cf').
  { rewrite (proj1 (mapM_child_by_key _ _ _ _ Ech)), (proj1 (mapM_child_by_key _ _ _ _ Ecf)). reflexivity. }
  rewrite (proj2 (Nat.eqb_eq _ _) El). cbn [negb].
  destruct (list_total c fuel ch ts HL vks cf' stk El Hwcf Hbcf) as [H1 H2].
  split; [exact H1 | apply bind_concat_total; exact H2].
Qed.

Ltac dict_dict2 :=
  match goal with
  | Hwhf : wf_hdr _ (length ?csf) = true, Ech : mapM (child_by_key _ _) _ = Ok _
    |- context[mapM (child_by_key ?ksf ?csf) (visit_keys ?c ?KF ?ksf)] =>
    let Hlf := fresh "Hlf" in let Hndf := fresh "Hndf" in let chf := fresh "chf" in let Echf := fresh "Echf" in
    simpl in Hwhf; apply andb_true_iff in Hwhf as [Hlf Hndf]; apply Nat.eqb_eq in Hlf; apply keys_nodup_NoDup in Hndf;
    destruct (mapM_child_by_key_ok ksf csf (visit_keys c KF ksf) Hndf Hlf) as (chf & Echf);
    [ let k0 := fresh "k" in let Hk0 := fresh "Hk" in
      intros k0 Hk0; eapply Permutation_in; [apply visit_keys_perm | exact Hk0] |];
    rewrite Echf, Ech; cbn -[visit_keys];
    eapply dict_total; eauto using visit_keys_perm
  end.

Lemma legs2_of_seq c fuel :
  (forall p t lsp b, wf_obj p = true -> tflat c fuel p = Ok (lsp, t, b) -> Leg2 c fuel p t) ->
  forall cl ls ts b, forallb wf_obj cl = true -> tflat_seq (tflat c fuel) cl = Ok (ls, ts, b) ->
  Forall2 (Leg2 c fuel) cl ts.
Proof.
  intros IH cl ls ts b Hw H. pose proof (tflat_seq_Forall2 _ _ _ _ _ H) as F. clear H.
  induction F as [|x t cl ts (lx & bx & Hx) _ IHF]; constructor.
  - simpl in Hw. apply andb_true_iff in Hw as [Hw _]. exact (IH x t lx bx Hw Hx).
  - simpl in Hw. apply andb_true_iff in Hw as [_ Hw]. exact (IHF Hw).
Qed.

Ltac triv := split; [eexists; reflexivity | first [right; reflexivity | left; eexists; reflexivity]].

Theorem perr_total c : forall fuel p t lsp b, wf_obj p = true -> tflat c fuel p = Ok (lsp, t, b) -> Leg2 c fuel p t.
Proof.
  induction fuel as [|fuel IH]; intros p t lsp b Hwp Hr f stk Hwf Hbf; [discriminate|].
  cbn [tflat] in Hr. cbn [perr]. unfold tree_is_leaf.
  destruct (apply_pred c p) eqn:Hap.
  { injection Hr as <- <- <-. simpl. triv. }
  destruct (get_kind c p) as [k cu] eqn:Ek. cbn [orb fst].
  destruct p as [id|h cs].
  { injection Hr as <- <- <-. simpl in Ek. injection Ek as <- <-. simpl. triv. }
  destruct (kind_eqb k KdLeaf) eqn:Kl.
  { apply kind_eqb_eq in Kl. subst k. injection Hr as <- <- <-. triv. }
  simpl in Hwp. apply andb_true_iff in Hwp as [Hwh Hwcs].
  pose proof (legs2_of_seq c fuel IH) as Legs.
  assert (Hroot : forall n ts, t = T n ts -> nkind n = k).
  { intros n ts ->. pose proof (tflat_root_kind c fuel h cs lsp (T n ts) b k cu Hap Ek) as H. cbn [tflat] in H.
    rewrite Hap, Ek in H. exact (H Hr). }
  destruct f as [idf|hf csf].
  { cbn [same_type is_dict_obj]. rewrite andb_false_r. cbn [negb andb]. split; [eexists; reflexivity|].
    right. destruct t as [n ts]. pose proof (Hroot n ts eq_refl) as Hk. cbn [up_to]. rewrite Hk.
    destruct k; try discriminate Kl; reflexivity. }
  simpl in Hwf. apply andb_true_iff in Hwf as [Hwhf Hwcsf].
  simpl in Hbf. apply andb_true_iff in Hbf as [Hbhf Hbcsf].
  destruct k; try discriminate Kl.
  - (* custom *)
    destruct h; simpl in Ek; try discriminate Ek; try (destruct (c_nil c); discriminate Ek).
    destruct (lookup_reg c cls) as [r|] eqn:El; [|discriminate Ek]. injection Ek as <-.
    assert (Hx : exists ls0 ts b0, tflat_seq (tflat c fuel) cs = Ok (ls0, ts, b0) /\
               t = mkT (node_of KdCustom (Some r) (HCustom cls meta eb) [] (length ts)) ts /\
               match eb with EAbsent | ENone => True | EGiven es => length es = length cs | _ => False end).
    { destruct eb as [| |es|x|x]; try discriminate Hr;
        (destruct (tflat_seq (tflat c fuel) cs) as [[[ls0 ts] b0]|] eqn:E; simpl in Hr; [|discriminate Hr]).
      - injection Hr as <- <- <-. exists ls0, ts, b0. auto.
      - injection Hr as <- <- <-. exists ls0, ts, b0. auto.
      - destruct (Nat.eqb (length es) (length cs)) eqn:Ee; [|discriminate Hr]. injection Hr as <- <- <-.
        exists ls0, ts, b0. apply Nat.eqb_eq in Ee. auto. }
    destruct Hx as (ls0 & ts & b0 & E & -> & Heb). clear Hr.
    pose proof (Legs cs ls0 ts b0 Hwcs E) as HL.
    pose proof (Forall2_length' _ _ _ HL) as Hlen.
    destruct hf as [| | | | | | | | |cls' meta' eb']; try (destruct eb; cbn; triv).
    unfold mkT. cbn [up_to]. unfold recount. cbn [nkind narity ndat ncustom node_of raw_node].
    cbn [same_type is_dict_obj is_deque_obj andb negb one_level get_kind]. rewrite El. cbn [andb].
    destruct (Z.eqb cls cls') eqn:Ec.
    2:{ cbn [negb]. split; [eexists; reflexivity|]. right.
      destruct (lookup_reg c cls') as [r'|] eqn:El'; [|reflexivity].
      destruct (opt_reg_eqb (Some r') (Some r)) eqn:Er; [|reflexivity].
      apply opt_reg_eqb_eq in Er. injection Er as ->.
      apply lookup_reg_cls in El, El'. apply Z.eqb_neq in Ec. congruence. }
    apply Z.eqb_eq in Ec. subst cls'. rewrite El, opt_reg_eqb_refl. cbn [negb].
    rewrite El in Hbhf.
    destruct eb as [| |es|x|x]; try contradiction; destruct eb' as [| |es'|x'|x']; try discriminate Hbhf.
    all: cbn [node_of raw_node ndat ndata_eqb ebeh_eqb andb bind negb].
    all: rewrite ?(proj2 (Nat.eqb_eq _ _) Heb), ?andb_false_r, ?andb_true_r in *; cbn [negb andb bind].
    all: try (apply Nat.eqb_eq in Hbhf).
    all: repeat match goal with
         | |- context[if ?bb then _ else _] =>
           match bb with
           | context[if _ then _ else _] => fail 1
           | _ => let Hb := fresh "Hb" in destruct bb eqn:Hb; cbn [negb andb bind]
           end
         end.
    all: try triv.
    all: repeat match goal with
         | H : (_ =? _)%nat = true |- _ => apply Nat.eqb_eq in H
         | H : (_ =? _)%nat = false |- _ => apply Nat.eqb_neq in H
         | H : negb _ = true |- _ => apply negb_true_iff in H
         | H : negb _ = false |- _ => apply negb_false_iff in H
         | H : _ && _ = true |- _ => apply andb_true_iff in H; destruct H
         | H : Z.eqb _ _ = true |- _ => apply Z.eqb_eq in H; subst
         | H : keys_eqb _ _ = true |- _ => apply keys_eqb_eq in H; subst
         | H : ndata_eqb _ _ = true |- _ => apply ndata_eqb_eq in H; try discriminate H; injection H as ?; subst
         end.
    all: rewrite ?ndata_eqb_refl in *.
    all: try (rewrite ?Z.eqb_refl, ?(proj2 (keys_eqb_eq _ _) eq_refl) in *; cbn [andb] in * ).
    all: try congruence.
    all: try (exfalso; congruence).
    all: split; [ try (eexists; reflexivity) | try (right; reflexivity) ].
    all: try (assert (El0 : length cs = length csf) by congruence;
              match goal with
              | |- exists l, perr_list _ _ ?es0 _ _ = Ok l =>
                exact (proj1 (list_total c fuel cs ts HL es0 csf stk El0 Hwcsf Hbcsf))
              | |- _ \/ _ =>
                apply bind_concat_total; exact (proj2 (list_total c fuel cs ts HL [] csf stk El0 Hwcsf Hbcsf))
              end).
  - (* None *)
    destruct h; simpl in Ek; try discriminate Ek; try (destruct (lookup_reg c cls); discriminate Ek).
    destruct (c_nil c) eqn:Hnil; [discriminate Ek|]. injection Hr as <- <- <-.
    destruct hf; cbn; rewrite ?Hnil; cbn; triv.
  - (* tuple *)
    destruct h; simpl in Ek; try discriminate Ek; try (destruct (c_nil c); discriminate Ek);
      try (destruct (lookup_reg c cls); discriminate Ek).
    destruct (tflat_seq (tflat c fuel) cs) as [[[ls0 ts] b0]|] eqn:E; simpl in Hr; [|discriminate Hr].
    injection Hr as <- <- <-. pose proof (Legs cs ls0 ts b0 Hwcs E) as HL.
    destruct hf; cbn; try triv.
    apply pos_total; assumption.
  - (* list *)
    destruct h; simpl in Ek; try discriminate Ek; try (destruct (c_nil c); discriminate Ek);
      try (destruct (lookup_reg c cls); discriminate Ek).
    destruct (tflat_seq (tflat c fuel) cs) as [[[ls0 ts] b0]|] eqn:E; simpl in Hr; [|discriminate Hr].
    injection Hr as <- <- <-. pose proof (Legs cs ls0 ts b0 Hwcs E) as HL.
    destruct hf; cbn; try triv.
    apply pos_total; assumption.
  - (* dict *)
    destruct h; simpl in Ek; try discriminate Ek; try (destruct (c_nil c); discriminate Ek);
      try (destruct (lookup_reg c cls); discriminate Ek).
    cbn [hdr_keys] in Hr. cbn zeta in Hr.
    destruct (mapM (child_by_key ks cs) (visit_keys c KdDict ks)) as [ch|] eqn:Ech; cbn [bind] in Hr; [|discriminate Hr].
    destruct (tflat_seq (tflat c fuel) ch) as [[[ls0 ts] b0]|] eqn:E; cbn [bind] in Hr; [|discriminate Hr].
    injection Hr as <- <- <-.
    assert (Hwch : forallb wf_obj ch = true).
    { apply forallb_forall. intros x Hx. apply (forallb_In _ _ _ Hwcs). apply (proj2 (proj2 (mapM_child_by_key _ _ _ _ Ech))). exact Hx. }
    pose proof (Legs ch ls0 ts b0 Hwch E) as HL.
    simpl in Hwh. apply andb_true_iff in Hwh as [_ Hnd]. apply keys_nodup_NoDup in Hnd.
    assert (Nv : NoDup (visit_keys c KdDict ks)).
    { eapply Permutation_NoDup; [symmetry; apply visit_keys_perm | exact Hnd]. }
    destruct hf; cbn -[visit_keys]; try triv.
    all: dict_dict2.
  - (* namedtuple *)
    destruct h; simpl in Ek; try discriminate Ek; try (destruct (c_nil c); discriminate Ek);
      try (destruct (lookup_reg c cls); discriminate Ek).
    destruct (tflat_seq (tflat c fuel) cs) as [[[ls0 ts] b0]|] eqn:E; simpl in Hr; [|discriminate Hr].
    injection Hr as <- <- <-. pose proof (Legs cs ls0 ts b0 Hwcs E) as HL.
    destruct hf; cbn; try triv.
    rewrite (Z.eqb_sym cls0 cls), <- (Forall2_length' _ _ _ HL), (Nat.eqb_sym (length csf)).
    destruct (Z.eqb cls cls0); destruct (Nat.eqb (length cs) (length csf)) eqn:El; cbn; try triv.
    apply Nat.eqb_eq in El.
    destruct (list_total c fuel cs ts HL (pos_keys (length cs) 0) csf stk El Hwcsf Hbcsf) as [H1 H2].
    split; [exact H1 | apply bind_concat_total; exact H2].
  - (* OrderedDict *)
    destruct h; simpl in Ek; try discriminate Ek; try (destruct (c_nil c); discriminate Ek);
      try (destruct (lookup_reg c cls); discriminate Ek).
    cbn [hdr_keys] in Hr. cbn zeta in Hr.
    destruct (mapM (child_by_key ks cs) (visit_keys c KdODict ks)) as [ch|] eqn:Ech; cbn [bind] in Hr; [|discriminate Hr].
    destruct (tflat_seq (tflat c fuel) ch) as [[[ls0 ts] b0]|] eqn:E; cbn [bind] in Hr; [|discriminate Hr].
    injection Hr as <- <- <-.
    assert (Hwch : forallb wf_obj ch = true).
    { apply forallb_forall. intros x Hx. apply (forallb_In _ _ _ Hwcs). apply (proj2 (proj2 (mapM_child_by_key _ _ _ _ Ech))). exact Hx. }
    pose proof (Legs ch ls0 ts b0 Hwch E) as HL.
    simpl in Hwh. apply andb_true_iff in Hwh as [_ Hnd]. apply keys_nodup_NoDup in Hnd.
    assert (Nv : NoDup (visit_keys c KdODict ks)).
    { eapply Permutation_NoDup; [symmetry; apply visit_keys_perm | exact Hnd]. }
    destruct hf; cbn -[visit_keys]; try triv.
    all: dict_dict2.
  - (* defaultdict *)
    destruct h; simpl in Ek; try discriminate Ek; try (destruct (c_nil c); discriminate Ek);
      try (destruct (lookup_reg c cls); discriminate Ek).
    cbn [hdr_keys] in Hr. cbn zeta in Hr.
    destruct (mapM (child_by_key ks cs) (visit_keys c KdDDict ks)) as [ch|] eqn:Ech; cbn [bind] in Hr; [|discriminate Hr].
    destruct (tflat_seq (tflat c fuel) ch) as [[[ls0 ts] b0]|] eqn:E; cbn [bind] in Hr; [|discriminate Hr].
    injection Hr as <- <- <-.
    assert (Hwch : forallb wf_obj ch = true).
    { apply forallb_forall. intros x Hx. apply (forallb_In _ _ _ Hwcs). apply (proj2 (proj2 (mapM_child_by_key _ _ _ _ Ech))). exact Hx. }
    pose proof (Legs ch ls0 ts b0 Hwch E) as HL.
    simpl in Hwh. apply andb_true_iff in Hwh as [_ Hnd]. apply keys_nodup_NoDup in Hnd.
    assert (Nv : NoDup (visit_keys c KdDDict ks)).
    { eapply Permutation_NoDup; [symmetry; apply visit_keys_perm | exact Hnd]. }
    destruct hf; cbn -[visit_keys]; try triv.
    all: dict_dict2.
  - (* deque *)
    destruct h; simpl in Ek; try discriminate Ek; try (destruct (c_nil c); discriminate Ek);
      try (destruct (lookup_reg c cls); discriminate Ek).
    destruct (tflat_seq (tflat c fuel) cs) as [[[ls0 ts] b0]|] eqn:E; simpl in Hr; [|discriminate Hr].
    injection Hr as <- <- <-. pose proof (Legs cs ls0 ts b0 Hwcs E) as HL.
    destruct hf; cbn; try triv.
    apply pos_total; assumption.
  - (* struct sequence *)
    destruct h; simpl in Ek; try discriminate Ek; try (destruct (c_nil c); discriminate Ek);
      try (destruct (lookup_reg c cls); discriminate Ek).
    destruct (tflat_seq (tflat c fuel) cs) as [[[ls0 ts] b0]|] eqn:E; simpl in Hr; [|discriminate Hr].
    injection Hr as <- <- <-. pose proof (Legs cs ls0 ts b0 Hwcs E) as HL.
    destruct hf; cbn; try triv.
    rewrite (Z.eqb_sym cls0 cls), <- (Forall2_length' _ _ _ HL), (Nat.eqb_sym (length csf)).
    destruct (Z.eqb cls cls0); destruct (Nat.eqb (length cs) (length csf)) eqn:El; cbn; try triv.
    apply Nat.eqb_eq in El.
    destruct (list_total c fuel cs ts HL (pos_keys (length cs) 0) csf stk El Hwcsf Hbcsf) as [H1 H2].
    split; [exact H1 | apply bind_concat_total; exact H2].
Qed.

(* ---------- at the level of the API ---------- *)
Lemma flatten_tflat c p ls sp : flatten c p = Ok (ls, sp) ->
  exists t b, tflat c (S (c_limit c)) p = Ok (ls, t, b) /\ sp = {| trav := encode t; snil := c_nil c; sns := spec_ns c b |} /\
              wf_stree t = true.
Proof.
  unfold flatten. intros Hf. destruct (flat c (S (c_limit c)) p) as [[[ls' ns] b]|] eqn:E; [|discriminate].
  cbn [bind] in Hf. injection Hf as <- <-.
  destruct (tflat_of_flat c _ p _ _ _ E) as (t & Ht & -> & Hw). exists t, b. auto.
Qed.

Lemma up_to_spec c p ls sp s f : flatten c p = Ok (ls, sp) -> sspec_of sp = Some s ->
  exists t b, tflat c (S (c_limit c)) p = Ok (ls, t, b) /\ ss_flatten_up_to (c_reg c) s f = up_to c t f.
Proof.
  intros Hf Hs. destruct (flatten_tflat c p ls sp Hf) as (t & b & Ht & -> & Hw). exists t, b. split; [exact Ht|].
  unfold sspec_of in Hs. cbn [trav snil sns] in Hs. rewrite (decode_encode t (wf_arity_ok t Hw)) in Hs.
  injection Hs as <-. unfold ss_flatten_up_to. cbn [stree_of ss_nil ss_ns].
  destruct (tflat_spec_ok c _ p _ _ _ Ht) as [_ Hnc].
  unfold spec_ns. destruct b; cbn [orb].
  - apply up_to_ext. intros cls. reflexivity.
  - destruct (ins_ordered_here c).
    + apply up_to_ext. intros cls. reflexivity.
    + apply up_to_ext_nocustom. apply Hnc. reflexivity.
Qed.

(* THE THIRD DECIDER AGREES: prefix_errors(prefix, full, is_leaf, none_is_leaf, namespace) is empty
   exactly when tree_structure(prefix, is_leaf, ...).flatten_up_to(full) succeeds *)
Theorem prefix_errors_iff_flatten_up_to c p f ls sp s :
  wf_obj p = true -> wf_obj f = true -> flatten c p = Ok (ls, sp) -> sspec_of sp = Some s ->
  (prefix_errors c p f = Ok [] <-> exists subs, ss_flatten_up_to (c_reg c) s f = Ok subs).
Proof.
  intros Hwp Hwf Hfl Hs. destruct (up_to_spec c p ls sp s f Hfl Hs) as (t & b & Ht & ->).
  unfold prefix_errors. symmetry. exact (perr_iff c _ p t ls b Hwp Ht f [] Hwf).
Qed.

(* NEVER ANOTHER EXCEPTION: on a full tree whose custom nodes are well behaved, prefix_errors returns
   a list (it does not raise), and flatten_up_to either succeeds or raises ValueError *)
Theorem prefix_total c p f ls sp s :
  wf_obj p = true -> wf_obj f = true -> wb c f = true -> flatten c p = Ok (ls, sp) -> sspec_of sp = Some s ->
  (exists l, prefix_errors c p f = Ok l) /\
  ((exists subs, ss_flatten_up_to (c_reg c) s f = Ok subs) \/ ss_flatten_up_to (c_reg c) s f = Err ValueError).
Proof.
  intros Hwp Hwf Hb Hfl Hs. destruct (up_to_spec c p ls sp s f Hfl Hs) as (t & b & Ht & ->).
  exact (perr_total c _ p t ls b Hwp Ht f [] Hwf Hb).
Qed.

(* ... so a mismatch is reported by both: a non-empty error list and a ValueError *)
Corollary mismatch_reported_by_both c p f ls sp s :
  wf_obj p = true -> wf_obj f = true -> wb c f = true -> flatten c p = Ok (ls, sp) -> sspec_of sp = Some s ->
  ((exists e l, prefix_errors c p f = Ok (e :: l)) <-> ss_flatten_up_to (c_reg c) s f = Err ValueError).
Proof.
  intros Hwp Hwf Hb Hfl Hs.
  destruct (prefix_total c p f ls sp s Hwp Hwf Hb Hfl Hs) as [(l & Hl) Hu].
  pose proof (prefix_errors_iff_flatten_up_to c p f ls sp s Hwp Hwf Hfl Hs) as Hiff.
  split.
  - intros (e & l' & He). destruct Hu as [Hok | Herr]; [|exact Herr].
    apply Hiff in Hok. rewrite Hok in He. discriminate He.
  - intros Herr. destruct l as [|e l'].
    + apply Hiff in Hl as (subs & Hsubs). rewrite Hsubs in Herr. discriminate Herr.
    + exists e, l'. exact Hl.
Qed.
