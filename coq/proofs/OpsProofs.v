(* OpsProofs.v — tree_map calls (C05) and the transposition list lemma (C10). *)
From OptreeModel Require Import Base Tree Flatten Unflatten Spec Ops.
From OptreeProofs Require Import BaseProofs.

(* ================= zip / chunks ================= *)
Section Zip.
  Context {A : Type} (d : A).

  Lemma omapM_hd (M : list (list A)) :
    (forall row, In row M -> row <> []) ->
    omapM (@hd_error A) M = Some (map (fun row => nth 0 row d) M).
  Proof.
    induction M as [|r M IH]; intros H; [reflexivity|].
    simpl. destruct r as [|x r]; [exfalso; apply (H []); [left; reflexivity | reflexivity]|].
    simpl. rewrite IH by (intros; apply H; right; assumption). reflexivity.
  Qed.

  Lemma zip_cols_go_spec k : forall (M : list (list A)),
    (forall row, In row M -> length row = k) ->
    zip_cols_go k M = map (fun j => map (fun row => nth j row d) M) (seq 0 k).
  Proof.
    induction k as [|k IH]; intros M H; [reflexivity|].
    cbn [zip_cols_go]. rewrite omapM_hd.
    2:{ intros row Hr E. apply H in Hr. subst row. discriminate. }
    rewrite IH.
    2:{ intros row Hr. apply in_map_iff in Hr as (r0 & <- & Hr0). apply H in Hr0.
        destruct r0; [discriminate | simpl in *; congruence]. }
    cbn [seq map]. f_equal. rewrite <- seq_shift, map_map. apply map_ext. intros j.
    rewrite map_map. apply map_ext. intros row. destruct row; [destruct j; reflexivity | reflexivity].
  Qed.

  Lemma nth_firstn' n : forall j (l : list A), (j < n)%nat -> nth j (firstn n l) d = nth j l d.
  Proof.
    induction n as [|n IH]; intros j l Hj; [lia|].
    destruct l as [|x l]; [destruct j; reflexivity|]. destruct j as [|j]; [reflexivity|].
    simpl. apply IH. lia.
  Qed.

  Lemma nth_skipn' n : forall j (l : list A), nth j (skipn n l) d = nth (n + j) l d.
  Proof.
    induction n as [|n IH]; intros j l; [reflexivity|].
    destruct l as [|x l]; [destruct j; reflexivity|]. simpl. apply IH.
  Qed.

  Lemma chunks_rows n : forall m (ls : list A),
    length ls = (m * n)%nat -> forall row, In row (chunks n m ls) -> length row = n.
  Proof.
    induction m as [|m IH]; intros ls Hl row Hr; simpl in Hr; [contradiction|].
    destruct Hr as [<-|Hr].
    - rewrite firstn_length. simpl in Hl. lia.
    - apply (IH (skipn n ls)); [rewrite skipn_length; simpl in Hl; lia | exact Hr].
  Qed.

  Lemma chunks_nth n : forall m (ls : list A) i j,
    length ls = (m * n)%nat -> (i < m)%nat -> (j < n)%nat ->
    nth j (nth i (chunks n m ls) []) d = nth (i * n + j) ls d.
  Proof.
    induction m as [|m IH]; intros ls i j Hl Hi Hj; [lia|].
    simpl. destruct i as [|i].
    - simpl. rewrite nth_firstn' by exact Hj. reflexivity.
    - rewrite IH; [|rewrite skipn_length; simpl in Hl; lia | lia | exact Hj].
      rewrite nth_skipn'. f_equal. simpl. lia.
  Qed.

  Lemma chunks_length n : forall m (ls : list A), length (chunks n m ls) = m.
  Proof. induction m; intros; simpl; auto. Qed.

  (* the value at (inner j, outer i) of the transposed grouping is the value at (outer i, inner j) *)
  Theorem transpose_nth n m (ls : list A) i j :
    length ls = (m * n)%nat -> (i < m)%nat -> (j < n)%nat ->
    nth i (nth j (zip_cols n (chunks n m ls)) []) d = nth (i * n + j) ls d.
  Proof.
    intros Hl Hi Hj. unfold zip_cols.
    destruct (chunks n m ls) as [|r0 M0] eqn:Ec.
    { pose proof (chunks_length n m ls) as Hlen. rewrite Ec in Hlen. simpl in Hlen. lia. }
    rewrite <- Ec. rewrite zip_cols_go_spec by (apply chunks_rows; exact Hl).
    rewrite (nth_indep _ [] (map (fun row => nth n row d) (chunks n m ls)))
      by (rewrite map_length, seq_length; exact Hj).
    rewrite (map_nth (fun j0 => map (fun row => nth j0 row d) (chunks n m ls)) (seq 0 n) n j).
    rewrite seq_nth by exact Hj. simpl.
    rewrite (nth_indep _ d (nth j [] d)) by (rewrite map_length, chunks_length; exact Hi).
    rewrite (map_nth (fun row => nth j row d) (chunks n m ls) [] i).
    apply chunks_nth; assumption.
  Qed.

  Theorem transpose_shape n m (ls : list A) :
    length ls = (m * n)%nat -> (0 < m)%nat ->
    length (zip_cols n (chunks n m ls)) = n /\
    forall row, In row (zip_cols n (chunks n m ls)) -> length row = m.
  Proof.
    intros Hl Hm. unfold zip_cols.
    destruct (chunks n m ls) as [|r0 M0] eqn:Ec.
    { pose proof (chunks_length n m ls) as Hlen. rewrite Ec in Hlen. simpl in Hlen. lia. }
    rewrite <- Ec. rewrite zip_cols_go_spec by (apply chunks_rows; exact Hl).
    split; [rewrite map_length, seq_length; reflexivity|].
    intros row Hr. apply in_map_iff in Hr as (j & <- & _). rewrite map_length. apply chunks_length.
  Qed.
End Zip.

(* ================= tree_transpose: documented errors ================= *)
Theorem transpose_errors c outer inner t :
  (Bool.eqb (ss_nil outer) (ss_nil inner) = false \/
   st_leaves (stree_of outer) = O \/ st_leaves (stree_of inner) = O) ->
  tree_transpose c outer inner t = Err ValueError.
Proof.
  unfold tree_transpose. intros [H|[H|H]].
  - rewrite H. reflexivity.
  - destruct (Bool.eqb _ _); [|reflexivity]. rewrite H. reflexivity.
  - destruct (Bool.eqb _ _); [|reflexivity]. rewrite H. simpl. rewrite orb_true_r. reflexivity.
Qed.

Theorem transpose_ns_error c outer inner t :
  ns_compatible (ss_ns outer) (ss_ns inner) = false ->
  tree_transpose c outer inner t = Err ValueError.
Proof.
  unfold tree_transpose. intros H.
  destruct (negb (Bool.eqb _ _)); [reflexivity|].
  destruct (_ || _); [reflexivity|]. rewrite H. reflexivity.
Qed.

(* a tree with the wrong number of leaves is rejected with TypeError *)
Theorem transpose_wrong_count c outer inner t ls sp :
  Bool.eqb (ss_nil outer) (ss_nil inner) = true ->
  st_leaves (stree_of outer) <> O -> st_leaves (stree_of inner) <> O ->
  ns_compatible (ss_ns outer) (ss_ns inner) = true ->
  flatten {| c_nil := ss_nil outer;
             c_ns := if Z.eqb (ss_ns outer) 0 then ss_ns inner else ss_ns outer;
             c_pred := c_pred c; c_reg := c_reg c; c_ins := c_ins c; c_limit := c_limit c |} t
    = Ok (ls, sp) ->
  length ls <> (st_leaves (stree_of outer) * st_leaves (stree_of inner))%nat ->
  tree_transpose c outer inner t = Err TypeError.
Proof.
  unfold tree_transpose. intros H1 H2 H3 H4 Hf Hl. rewrite H1. simpl.
  apply Nat.eqb_neq in H2, H3. rewrite H2, H3, H4. simpl. rewrite Hf. simpl.
  apply Nat.eqb_neq in Hl. rewrite Hl. reflexivity.
Qed.

(* ================= tree_map: calls ================= *)
Lemma mapM_trace_total {A B} (f : nat -> A -> res B) :
  (forall i x, exists y, f i x = Ok y) ->
  forall l i, snd (mapM_trace f i l) = l /\ exists ys, fst (mapM_trace f i l) = Ok ys /\ length ys = length l.
Proof.
  intros Hf. induction l as [|x l IH]; intros i; simpl.
  - split; [reflexivity | exists []; split; reflexivity].
  - destruct (Hf i x) as (y & Hy). rewrite Hy.
    destruct (IH (S i)) as (Htr & ys & Hys & Hlen).
    destruct (mapM_trace f (S i) l) as [r tr]. simpl in *. subst tr. split; [reflexivity|].
    rewrite Hys. exists (y :: ys). split; [reflexivity | simpl; congruence].
Qed.

(* f is called exactly on the rows (leaf_i, sub_i(rest_1), ...), once each, in leaf order *)
Theorem map_calls c f t rests ls sp s cols :
  (forall i row, exists y, f i row = Ok y) ->
  flatten c t = Ok (ls, sp) -> sspec_of sp = Some s ->
  mapM (ss_flatten_up_to (c_reg c) s) rests = Ok cols ->
  snd (tree_map_trace c f t rests) = zip_cols (length ls) (ls :: cols).
Proof.
  intros Hf Hfl Hs Hc. unfold tree_map_trace, sspec_res. rewrite Hfl, Hs, Hc.
  destruct (mapM_trace_total f Hf (zip_cols (length ls) (ls :: cols)) 0%nat) as (Htr & _).
  destruct (mapM_trace f 0 _) as [r tr]. simpl in *. exact Htr.
Qed.

(* if some rest does not have the structure of t as a prefix, f is never called *)
Theorem map_rejects_before_calling c f t rests ls sp s e :
  flatten c t = Ok (ls, sp) -> sspec_of sp = Some s ->
  mapM (ss_flatten_up_to (c_reg c) s) rests = Err e ->
  tree_map_trace c f t rests = (Err e, []).
Proof.
  intros Hfl Hs Hc. unfold tree_map_trace, sspec_res. rewrite Hfl, Hs, Hc. reflexivity.
Qed.

(* the underscore variant makes the same calls and returns the original tree *)
Theorem map_underscore c f t rests r :
  tree_map c f t rests = Ok r -> tree_map_ c f t rests = Ok t.
Proof.
  unfold tree_map, tree_map_. destruct (tree_map_trace c f t rests) as [[x|e] tr]; simpl; [reflexivity | discriminate].
Qed.

(* the result is the treespec of t filled with the values of f *)
Theorem map_result c f t rests ls sp s cols :
  (forall i row, exists y, f i row = Ok y) ->
  flatten c t = Ok (ls, sp) -> sspec_of sp = Some s ->
  mapM (ss_flatten_up_to (c_reg c) s) rests = Ok cols ->
  exists outs, length outs = length (zip_cols (length ls) (ls :: cols)) /\
               tree_map c f t rests = unflatten sp outs.
Proof.
  intros Hf Hfl Hs Hc. unfold tree_map, tree_map_trace, sspec_res. rewrite Hfl, Hs, Hc.
  destruct (mapM_trace_total f Hf (zip_cols (length ls) (ls :: cols)) 0%nat) as (_ & ys & Hys & Hlen).
  destruct (mapM_trace f 0 _) as [r tr]. simpl in *. subst r. exists ys. split; [exact Hlen | reflexivity].
Qed.
