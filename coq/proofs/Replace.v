(* Replace.v — unflattening a treespec with ANY leaf-typed replacement objects and flattening the
   result returns exactly those objects and the same treespec (the third clause of property C01). *)
From OptreeModel Require Import Base Tree Flatten Unflatten Spec.
From OptreeProofs Require Import BaseProofs RoundTrip EqProofs FaultProofs DepthProofs.
From Coq Require Import Permutation.

(* an object the traversal of configuration c treats as a leaf (no predicate) *)
Definition leaflike (c : cfg) (x : obj) : bool :=
  wf_obj x && match x with Leaf _ => true | Node _ _ => kind_eqb (fst (get_kind c x)) KdLeaf end.

Lemma leaflike_flat c fuel x :
  c_pred c = None -> leaflike c x = true -> flat c (S fuel) x = Ok ([x], [leaf_node], false).
Proof.
  intros Hp H. unfold leaflike in H. apply andb_true_iff in H as [_ H].
  cbn [flat]. unfold apply_pred. rewrite Hp.
  destruct x as [id|h cs]; [destruct (get_kind c (Leaf id)); reflexivity|].
  destruct (get_kind c (Node h cs)) as [k cu]. simpl in H. apply kind_eqb_eq in H. subst k. reflexivity.
Qed.

Definition Realisable (c : cfg) (fuel : nat) (r : fres) : Prop :=
  forall ls', length ls' = length (r_ls r) -> forallb (leaflike c) ls' = true ->
  exists o', wf_obj o' = true /\ flat c fuel o' = Ok (ls', r_ns r, snd r).

Lemma forallb_app_l {A} (p : A -> bool) l l' : forallb p (l ++ l') = true -> forallb p l = true /\ forallb p l' = true.
Proof. rewrite forallb_app. apply andb_true_iff. Qed.

Lemma flat_seq_realisable c fuel : forall ch r,
  (forall x r0, In x ch -> flat c fuel x = Ok r0 -> Realisable c fuel r0) ->
  flat_seq (flat c fuel) ch = Ok r ->
  forall ls', length ls' = length (r_ls r) -> forallb (leaflike c) ls' = true ->
  exists ch', length ch' = length ch /\ forallb wf_obj ch' = true /\
              flat_seq (flat c fuel) ch' = Ok (ls', r_ns r, snd r).
Proof.
  induction ch as [|x ch IH]; intros r Hre Hr ls' Hlen Hll; simpl in Hr.
  - injection Hr as <-. destruct ls'; [|discriminate]. exists []. repeat split.
  - destruct (flat c fuel x) as [[[ls1 ns1] b1]|] eqn:E1; simpl in Hr; [|discriminate].
    destruct (flat_seq (flat c fuel) ch) as [[[ls2 ns2] b2]|] eqn:E2; simpl in Hr; [|discriminate].
    injection Hr as <-. unfold r_ls, r_ns in *. cbn [fst snd] in *. rewrite app_length in Hlen.
    rewrite <- (firstn_skipn (length ls1) ls') in Hll |- *.
    destruct (forallb_app_l _ _ _ Hll) as [Hl1 Hl2].
    assert (L1 : length (firstn (length ls1) ls') = length ls1) by (rewrite firstn_length; lia).
    assert (L2 : length (skipn (length ls1) ls') = length ls2) by (rewrite skipn_length; lia).
    destruct (Hre x _ (or_introl eq_refl) E1 _ L1 Hl1) as (x' & Wx & Fx).
    destruct (IH _ (fun y r0 Hy => Hre y r0 (or_intror Hy)) eq_refl _ L2 Hl2) as (ch' & Lc & Wc & Fc).
    exists (x' :: ch'). simpl. rewrite Wx, Wc, Fx, Fc. unfold r_ns. simpl. repeat split. congruence.
Qed.

Lemma get_kind_hdr c h cs cs' : get_kind c (Node h cs) = get_kind c (Node h cs').
Proof. reflexivity. Qed.

(* children in key order rebuilt from children in visiting order *)
Definition unvisit (ks vks : list key) (ch' : list obj) : list obj :=
  map (fun k => match lookup k (combine vks ch') with Some x => x | None => Leaf 0 end) ks.

Lemma mapM_ok_map {A B} (f : A -> res B) (g : A -> B) l :
  (forall k, In k l -> f k = Ok (g k)) -> mapM f l = Ok (map g l).
Proof.
  induction l as [|x l IH]; intros H; [reflexivity|]. simpl.
  rewrite (H x (or_introl eq_refl)). simpl. rewrite IH by (intros; apply H; right; assumption). reflexivity.
Qed.

Definition lk (vks : list key) (ch' : list obj) (k : key) : obj :=
  match lookup k (combine vks ch') with Some x => x | None => Leaf 0 end.

Lemma map_lk_self vks : forall ch', NoDup vks -> length vks = length ch' -> map (lk vks ch') vks = ch'.
Proof.
  induction vks as [|k vks IH]; intros [|y ch'] Nv Lv; simpl in *; try discriminate; [reflexivity|].
  inversion Nv as [|? ? Hnin Nv']; subst. unfold lk at 1. simpl. rewrite key_eqb_refl. f_equal.
  rewrite <- (IH ch' Nv' ltac:(lia)) at 2. apply map_ext_in. intros k' Hk'. unfold lk. simpl.
  destruct (key_eqb k' k) eqn:E; [apply key_eqb_eq in E; subst; contradiction | reflexivity].
Qed.

Lemma unvisit_spec ks vks ch' :
  NoDup vks -> length vks = length ch' -> (forall k, In k vks -> In k ks) -> (forall k, In k ks -> In k vks) ->
  length (unvisit ks vks ch') = length ks /\
  mapM (child_by_key ks (unvisit ks vks ch')) vks = Ok ch' /\
  (forall x, In x (unvisit ks vks ch') -> In x ch').
Proof.
  intros Nv Lv Hvk Hkv. split; [unfold unvisit; apply map_length|]. split.
  - rewrite (mapM_ok_map _ (lk vks ch')); [rewrite map_lk_self by assumption; reflexivity|].
    intros k Hk. unfold child_by_key, unvisit. rewrite (lookup_combine_map ks _ k (Hvk k Hk)). reflexivity.
  - intros x Hx. unfold unvisit in Hx. apply in_map_iff in Hx as (k & Hk & Hin).
    destruct (lookup k (combine vks ch')) as [y|] eqn:E.
    + subst y. clear - E. revert ch' E. induction vks as [|k0 vks IH]; intros [|y ch']; simpl; try discriminate.
      destruct (key_eqb k k0); [intros [= ->]; auto | intros; right; eauto].
    + exfalso. apply lookup_None_notin in E. rewrite map_fst_combine in E by exact Lv. apply E. apply Hkv. exact Hin.
Qed.

Theorem flat_realisable c : c_pred c = None -> forall fuel o r,
  wf_obj o = true -> flat c fuel o = Ok r -> Realisable c fuel r.
Proof.
  intros Hp. assert (Hap : forall x, apply_pred c x = false) by (intros; unfold apply_pred; rewrite Hp; reflexivity).
  induction fuel as [|fuel IH]; intros o r Hwf Hr; [discriminate|].
  cbn [flat] in Hr. rewrite Hap in Hr.
  destruct (get_kind c o) as [k cu] eqn:Ek.
  assert (Hleaf : Realisable c (S fuel) ([o], [leaf_node], false)).
  { intros ls' Hl Hll. destruct ls' as [|x [|? ?]]; try discriminate. simpl in Hll. rewrite andb_true_r in Hll.
    exists x. split; [unfold leaflike in Hll; apply andb_true_iff in Hll as [H _]; exact H|].
    apply leaflike_flat; assumption. }
  destruct o as [id|h cs]; [injection Hr as <-; exact Hleaf|].
  simpl in Hwf. apply andb_true_iff in Hwf as [Hwh Hwcs].
  assert (IH' : forall ch, (forall x, In x ch -> In x cs) ->
                forall x r0, In x ch -> flat c fuel x = Ok r0 -> Realisable c fuel r0).
  { intros ch Hsub x r0 Hx Hf. eapply IH; [|exact Hf]. eapply forallb_In; [exact Hwcs | apply Hsub; exact Hx]. }
  destruct k.
  - (* custom *)
    destruct h; try discriminate. destruct eb; try discriminate;
      (destruct (flat_seq (flat c fuel) cs) as [[[ls ns] b]|] eqn:E; simpl in Hr; [|discriminate]).
    + injection Hr as <-. intros ls' Hl Hll. unfold r_ls in Hl. simpl in Hl.
      destruct (flat_seq_realisable c fuel cs _ (IH' cs (fun x H => H)) E ls' Hl Hll) as (cs' & Lc & Wc & Fc).
      exists (Node (HCustom cls meta EAbsent) cs'). split; [simpl; exact Wc|].
      cbn [flat]. rewrite Hap, (get_kind_hdr c _ cs' cs), Ek, Fc. unfold r_ns. cbn [bind fst snd].
      rewrite !mk_node_eq, Lc, Hl. reflexivity.
    + injection Hr as <-. intros ls' Hl Hll. unfold r_ls in Hl. simpl in Hl.
      destruct (flat_seq_realisable c fuel cs _ (IH' cs (fun x H => H)) E ls' Hl Hll) as (cs' & Lc & Wc & Fc).
      exists (Node (HCustom cls meta ENone) cs'). split; [simpl; exact Wc|].
      cbn [flat]. rewrite Hap, (get_kind_hdr c _ cs' cs), Ek, Fc. unfold r_ns. cbn [bind fst snd].
      rewrite !mk_node_eq, Lc, Hl. reflexivity.
    + destruct (Nat.eqb (length es) (length cs)) eqn:El; [|discriminate]. injection Hr as <-.
      intros ls' Hl Hll. unfold r_ls in Hl. simpl in Hl.
      destruct (flat_seq_realisable c fuel cs _ (IH' cs (fun x H => H)) E ls' Hl Hll) as (cs' & Lc & Wc & Fc).
      exists (Node (HCustom cls meta (EGiven es)) cs'). split; [simpl; exact Wc|].
      cbn [flat]. rewrite Hap, (get_kind_hdr c _ cs' cs), Ek, Fc. unfold r_ns. cbn [bind fst snd].
      rewrite Lc, El, !mk_node_eq, Hl. reflexivity.
  - injection Hr as <-. exact Hleaf.
  - (* None *)
    injection Hr as <-. intros ls' Hl Hll. destruct ls'; [|discriminate].
    exists (Node h cs). split; [simpl; rewrite Hwh, Hwcs; reflexivity|].
    cbn [flat]. rewrite Hap, Ek. reflexivity.
  - destruct (flat_seq (flat c fuel) cs) as [[[ls ns] b]|] eqn:E; simpl in Hr; [|discriminate].
    injection Hr as <-. intros ls' Hl Hll. unfold r_ls in Hl. simpl in Hl.
    destruct (flat_seq_realisable c fuel cs _ (IH' cs (fun x H => H)) E ls' Hl Hll) as (cs' & Lc & Wc & Fc).
    exists (Node h cs'). split; [simpl; rewrite Wc, Lc, Hwh; reflexivity|].
    cbn [flat]. rewrite Hap, (get_kind_hdr c h cs' cs), Ek, Fc. unfold r_ns. cbn [bind fst snd].
    rewrite !mk_node_eq, Lc, Hl. reflexivity.
  - destruct (flat_seq (flat c fuel) cs) as [[[ls ns] b]|] eqn:E; simpl in Hr; [|discriminate].
    injection Hr as <-. intros ls' Hl Hll. unfold r_ls in Hl. simpl in Hl.
    destruct (flat_seq_realisable c fuel cs _ (IH' cs (fun x H => H)) E ls' Hl Hll) as (cs' & Lc & Wc & Fc).
    exists (Node h cs'). split; [simpl; rewrite Wc, Lc, Hwh; reflexivity|].
    cbn [flat]. rewrite Hap, (get_kind_hdr c h cs' cs), Ek, Fc. unfold r_ns. cbn [bind fst snd].
    rewrite !mk_node_eq, Lc, Hl. reflexivity.
  - destruct (hdr_keys h) as [ks|] eqn:Hk; [|discriminate].
    destruct (mapM (child_by_key ks cs) (visit_keys c KdDict ks)) as [ch|] eqn:Em; simpl in Hr; [|discriminate].
    destruct (flat_seq (flat c fuel) ch) as [[[ls ns] b]|] eqn:E; simpl in Hr; [|discriminate].
    injection Hr as <-. intros ls' Hl Hll. unfold r_ls in Hl. simpl in Hl.
    destruct (mapM_child_by_key _ _ _ _ Em) as (Lch & _ & Hsub).
    destruct (flat_seq_realisable c fuel ch _ (IH' ch Hsub) E ls' Hl Hll) as (ch' & Lc & Wc & Fc).
    assert (Hw : length ks = length cs /\ NoDup ks).
    { destruct h; simpl in Hk; try discriminate; injection Hk as ->; simpl in Hwh;
        apply andb_true_iff in Hwh as [Hl0 Hn]; apply Nat.eqb_eq in Hl0; apply keys_nodup_NoDup in Hn; auto. }
    destruct Hw as [Hlen Hnd].
    pose proof (visit_keys_perm c KdDict ks) as Hperm.
    destruct (unvisit_spec ks (visit_keys c KdDict ks) ch') as (Lu & Mu & Su).
    { eapply Permutation_NoDup; [apply Permutation_sym; exact Hperm | exact Hnd]. }
    { congruence. }
    { intros k0 Hk0. eapply Permutation_in; [exact Hperm | exact Hk0]. }
    { intros k0 Hk0. eapply Permutation_in; [apply Permutation_sym; exact Hperm | exact Hk0]. }
    exists (Node h (unvisit ks (visit_keys c KdDict ks) ch')). split.
    + cbn [wf_obj]. rewrite Lu, Hlen, Hwh. cbn [andb]. apply forallb_forall. intros x Hx. eapply forallb_In; [exact Wc | apply Su; exact Hx].
    + cbn [flat]. rewrite Hap, (get_kind_hdr c h _ cs), Ek, Hk, Mu. cbn [bind]. rewrite Fc. unfold r_ns. cbn [bind fst snd].
      rewrite !mk_node_eq, Hl. reflexivity.
  - destruct (flat_seq (flat c fuel) cs) as [[[ls ns] b]|] eqn:E; simpl in Hr; [|discriminate].
    injection Hr as <-. intros ls' Hl Hll. unfold r_ls in Hl. simpl in Hl.
    destruct (flat_seq_realisable c fuel cs _ (IH' cs (fun x H => H)) E ls' Hl Hll) as (cs' & Lc & Wc & Fc).
    exists (Node h cs'). split; [simpl; rewrite Wc, Lc, Hwh; reflexivity|].
    cbn [flat]. rewrite Hap, (get_kind_hdr c h cs' cs), Ek, Fc. unfold r_ns. cbn [bind fst snd].
    rewrite !mk_node_eq, Lc, Hl. reflexivity.
  - destruct (hdr_keys h) as [ks|] eqn:Hk; [|discriminate].
    destruct (mapM (child_by_key ks cs) (visit_keys c KdODict ks)) as [ch|] eqn:Em; simpl in Hr; [|discriminate].
    destruct (flat_seq (flat c fuel) ch) as [[[ls ns] b]|] eqn:E; simpl in Hr; [|discriminate].
    injection Hr as <-. intros ls' Hl Hll. unfold r_ls in Hl. simpl in Hl.
    destruct (mapM_child_by_key _ _ _ _ Em) as (Lch & _ & Hsub).
    destruct (flat_seq_realisable c fuel ch _ (IH' ch Hsub) E ls' Hl Hll) as (ch' & Lc & Wc & Fc).
    assert (Hw : length ks = length cs /\ NoDup ks).
    { destruct h; simpl in Hk; try discriminate; injection Hk as ->; simpl in Hwh;
        apply andb_true_iff in Hwh as [Hl0 Hn]; apply Nat.eqb_eq in Hl0; apply keys_nodup_NoDup in Hn; auto. }
    destruct Hw as [Hlen Hnd].
    pose proof (visit_keys_perm c KdODict ks) as Hperm.
    destruct (unvisit_spec ks (visit_keys c KdODict ks) ch') as (Lu & Mu & Su).
    { eapply Permutation_NoDup; [apply Permutation_sym; exact Hperm | exact Hnd]. }
    { congruence. }
    { intros k0 Hk0. eapply Permutation_in; [exact Hperm | exact Hk0]. }
    { intros k0 Hk0. eapply Permutation_in; [apply Permutation_sym; exact Hperm | exact Hk0]. }
    exists (Node h (unvisit ks (visit_keys c KdODict ks) ch')). split.
    + cbn [wf_obj]. rewrite Lu, Hlen, Hwh. cbn [andb]. apply forallb_forall. intros x Hx. eapply forallb_In; [exact Wc | apply Su; exact Hx].
    + cbn [flat]. rewrite Hap, (get_kind_hdr c h _ cs), Ek, Hk, Mu. cbn [bind]. rewrite Fc. unfold r_ns. cbn [bind fst snd].
      rewrite !mk_node_eq, Hl. reflexivity.
  - destruct (hdr_keys h) as [ks|] eqn:Hk; [|discriminate].
    destruct (mapM (child_by_key ks cs) (visit_keys c KdDDict ks)) as [ch|] eqn:Em; simpl in Hr; [|discriminate].
    destruct (flat_seq (flat c fuel) ch) as [[[ls ns] b]|] eqn:E; simpl in Hr; [|discriminate].
    injection Hr as <-. intros ls' Hl Hll. unfold r_ls in Hl. simpl in Hl.
    destruct (mapM_child_by_key _ _ _ _ Em) as (Lch & _ & Hsub).
    destruct (flat_seq_realisable c fuel ch _ (IH' ch Hsub) E ls' Hl Hll) as (ch' & Lc & Wc & Fc).
    assert (Hw : length ks = length cs /\ NoDup ks).
    { destruct h; simpl in Hk; try discriminate; injection Hk as ->; simpl in Hwh;
        apply andb_true_iff in Hwh as [Hl0 Hn]; apply Nat.eqb_eq in Hl0; apply keys_nodup_NoDup in Hn; auto. }
    destruct Hw as [Hlen Hnd].
    pose proof (visit_keys_perm c KdDDict ks) as Hperm.
    destruct (unvisit_spec ks (visit_keys c KdDDict ks) ch') as (Lu & Mu & Su).
    { eapply Permutation_NoDup; [apply Permutation_sym; exact Hperm | exact Hnd]. }
    { congruence. }
    { intros k0 Hk0. eapply Permutation_in; [exact Hperm | exact Hk0]. }
    { intros k0 Hk0. eapply Permutation_in; [apply Permutation_sym; exact Hperm | exact Hk0]. }
    exists (Node h (unvisit ks (visit_keys c KdDDict ks) ch')). split.
    + cbn [wf_obj]. rewrite Lu, Hlen, Hwh. cbn [andb]. apply forallb_forall. intros x Hx. eapply forallb_In; [exact Wc | apply Su; exact Hx].
    + cbn [flat]. rewrite Hap, (get_kind_hdr c h _ cs), Ek, Hk, Mu. cbn [bind]. rewrite Fc. unfold r_ns. cbn [bind fst snd].
      rewrite !mk_node_eq, Hl. reflexivity.
  - destruct (flat_seq (flat c fuel) cs) as [[[ls ns] b]|] eqn:E; simpl in Hr; [|discriminate].
    injection Hr as <-. intros ls' Hl Hll. unfold r_ls in Hl. simpl in Hl.
    destruct (flat_seq_realisable c fuel cs _ (IH' cs (fun x H => H)) E ls' Hl Hll) as (cs' & Lc & Wc & Fc).
    exists (Node h cs'). split; [simpl; rewrite Wc, Lc, Hwh; reflexivity|].
    cbn [flat]. rewrite Hap, (get_kind_hdr c h cs' cs), Ek, Fc. unfold r_ns. cbn [bind fst snd].
    rewrite !mk_node_eq, Lc, Hl. reflexivity.
  - destruct (flat_seq (flat c fuel) cs) as [[[ls ns] b]|] eqn:E; simpl in Hr; [|discriminate].
    injection Hr as <-. intros ls' Hl Hll. unfold r_ls in Hl. simpl in Hl.
    destruct (flat_seq_realisable c fuel cs _ (IH' cs (fun x H => H)) E ls' Hl Hll) as (cs' & Lc & Wc & Fc).
    exists (Node h cs'). split; [simpl; rewrite Wc, Lc, Hwh; reflexivity|].
    cbn [flat]. rewrite Hap, (get_kind_hdr c h cs' cs), Ek, Fc. unfold r_ns. cbn [bind fst snd].
    rewrite !mk_node_eq, Lc, Hl. reflexivity.
Qed.

(* Unflattening a treespec with any n leaf-typed replacement objects and flattening the result returns
   exactly those n objects and the identical treespec (no predicate: a predicate could accept one of
   the rebuilt containers). *)
Theorem flatten_unflatten_replace c o ls sp ls' :
  c_pred c = None -> wf_obj o = true -> flatten c o = Ok (ls, sp) ->
  length ls' = length ls -> forallb (leaflike c) ls' = true ->
  exists o', unflatten sp ls' = Ok o' /\ flatten c o' = Ok (ls', sp).
Proof.
  intros Hp Hwf Hf Hlen Hll. unfold flatten in Hf.
  destruct (flat c (S (c_limit c)) o) as [[[ls0 ns] b]|] eqn:E; [|discriminate].
  cbn [bind] in Hf. injection Hf as <- <-.
  destruct (flat_realisable c Hp _ _ _ Hwf E ls' Hlen Hll) as (o' & Wo & Fo).
  unfold r_ns in Fo. cbn [fst snd] in Fo.
  assert (Hfl : flatten c o' = Ok (ls', {| trav := ns; snil := c_nil c; sns := spec_ns c b |})).
  { unfold flatten. rewrite Fo. reflexivity. }
  exists o'. split; [apply (unflatten_flatten c o' _ _ Wo Hfl) | exact Hfl].
Qed.

(* the same, also saying that the rebuilt tree is well-formed *)
Theorem flatten_unflatten_replace_wf c o ls sp ls' :
  c_pred c = None -> wf_obj o = true -> flatten c o = Ok (ls, sp) ->
  length ls' = length ls -> forallb (leaflike c) ls' = true ->
  exists o', wf_obj o' = true /\ unflatten sp ls' = Ok o' /\ flatten c o' = Ok (ls', sp).
Proof.
  intros Hp Hwf Hf Hlen Hll. unfold flatten in Hf.
  destruct (flat c (S (c_limit c)) o) as [[[ls0 ns] b]|] eqn:E; [|discriminate].
  cbn [bind] in Hf. injection Hf as <- <-.
  destruct (flat_realisable c Hp _ _ _ Hwf E ls' Hlen Hll) as (o' & Wo & Fo).
  unfold r_ns in Fo. cbn [fst snd] in Fo.
  assert (Hfl : flatten c o' = Ok (ls', {| trav := ns; snil := c_nil c; sns := spec_ns c b |})).
  { unfold flatten. rewrite Fo. reflexivity. }
  exists o'. split; [exact Wo | split; [apply (unflatten_flatten c o' _ _ Wo Hfl) | exact Hfl]].
Qed.
