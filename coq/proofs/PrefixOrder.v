(* PrefixOrder.v — the prefix relation on structured treespecs is transitive (property C07). *)
From OptreeModel Require Import Base Tree Flatten Unflatten Spec.
From OptreeProofs Require Import BaseProofs RoundTrip SpecProofs InspectProofs EqProofs OrderProofs.

(* the inner loop of st_prefix as a function of its own *)
Fixpoint prefix_list (l l' : list stree) : bool * bool :=
  match l, l' with
  | [], [] => (true, true)
  | x :: t, y :: t' =>
    let '(p1, m1) := st_prefix x y in
    let '(p2, m2) := prefix_list t t' in
    (p1 && p2, m1 && m2)
  | _, _ => (false, true)
  end.

Definition aligned (na nb : node) (cb : list stree) : option (list stree) :=
  if is_dict_kind (nkind na) then
    match node_keys na, node_keys nb with
    | Some ka, Some kb => omapM (child_at_key kb cb) ka
    | _, _ => None
    end
  else Some cb.

Lemma st_prefix_unfold na ca nb cb :
  st_prefix (T na ca) (T nb cb) =
  if is_leaf_node na then (true, is_leaf_node nb)
  else if negb (prefix_node_ok na nb) then (false, true)
  else match aligned na nb cb with
       | None => (false, true)
       | Some cb' => prefix_list ca cb'
       end.
Proof. reflexivity. Qed.

Definition P (x y : stree) : Prop := fst (st_prefix x y) = true.

Lemma prefix_list_Forall2 l : forall l', fst (prefix_list l l') = true <-> Forall2 P l l'.
Proof.
  induction l as [|x l IH]; intros [|y l']; simpl.
  - split; [constructor | reflexivity].
  - split; [discriminate | intros H; inversion H].
  - split; [discriminate | intros H; inversion H].
  - unfold P at 1. destruct (st_prefix x y) as [p1 m1] eqn:E1.
    destruct (prefix_list l l') as [p2 m2] eqn:E2. simpl.
    specialize (IH l'). rewrite E2 in IH. simpl in IH. split.
    + intros H. apply andb_true_iff in H as [-> ->]. constructor; [unfold P; rewrite E1; reflexivity | apply IH; reflexivity].
    + intros H. inversion H as [|? ? ? ? Hx Hl]; subst. unfold P in Hx. rewrite E1 in Hx. simpl in Hx. subst p1.
      apply IH in Hl. subst p2. reflexivity.
Qed.

(* ---------- node level ---------- *)
Lemma keys_subset_trans a b c : keys_subset a b = true -> keys_subset b c = true -> keys_subset a c = true.
Proof.
  unfold keys_subset. rewrite !forallb_forall. intros H1 H2 k Hk.
  apply H2. apply key_mem_In. apply H1. exact Hk.
Qed.

Lemma keys_same_set_trans a b c : keys_same_set a b = true -> keys_same_set b c = true -> keys_same_set a c = true.
Proof.
  unfold keys_same_set. intros H1 H2.
  apply andb_true_iff in H1 as [L1 S1]. apply andb_true_iff in H2 as [L2 S2].
  apply Nat.eqb_eq in L1, L2. apply andb_true_iff. split; [apply Nat.eqb_eq; congruence | eapply keys_subset_trans; eauto].
Qed.

Lemma prefix_node_ok_nonleaf a b : prefix_node_ok a b = true -> is_leaf_node b = false.
Proof.
  unfold prefix_node_ok, is_leaf_node. intros H.
  apply andb_true_iff in H as [_ H].
  destruct (nkind a); try discriminate;
    try (apply kind_eqb_eq in H; rewrite <- H; reflexivity);
    try (apply andb_true_iff in H as [H _]; apply kind_eqb_eq in H; rewrite <- H; reflexivity);
    (apply andb_true_iff in H as [H _]; destruct (nkind b); try discriminate; reflexivity).
Qed.

Lemma prefix_node_ok_dict a b : prefix_node_ok a b = true -> is_dict_kind (nkind b) = is_dict_kind (nkind a).
Proof.
  unfold prefix_node_ok. intros H. apply andb_true_iff in H as [_ H].
  destruct (nkind a); try discriminate;
    try (apply kind_eqb_eq in H; rewrite <- H; reflexivity);
    try (apply andb_true_iff in H as [H _]; apply kind_eqb_eq in H; rewrite <- H; reflexivity);
    (apply andb_true_iff in H as [H _]; rewrite H; reflexivity).
Qed.

Lemma prefix_node_ok_trans a b c :
  prefix_node_ok a b = true -> prefix_node_ok b c = true -> prefix_node_ok a c = true.
Proof.
  unfold prefix_node_ok. intros H1 H2.
  apply andb_true_iff in H1 as [H1 K1]. apply andb_true_iff in H1 as [A1 R1].
  apply andb_true_iff in H2 as [H2 K2]. apply andb_true_iff in H2 as [A2 R2].
  apply Nat.eqb_eq in A1, A2. apply opt_reg_eqb_eq in R1, R2.
  rewrite A1, A2, Nat.eqb_refl, R1, R2, opt_reg_eqb_refl. simpl.
  destruct (nkind a) eqn:Ka; try discriminate.
  - apply andb_true_iff in K1 as [E1 D1]. apply kind_eqb_eq in E1. rewrite <- E1 in K2.
    apply andb_true_iff in K2 as [E2 D2]. rewrite E2. apply ndata_eqb_eq in D1, D2. rewrite D1, D2, ndata_eqb_refl. reflexivity.
  - apply kind_eqb_eq in K1. rewrite <- K1 in K2. exact K2.
  - apply kind_eqb_eq in K1. rewrite <- K1 in K2. exact K2.
  - apply kind_eqb_eq in K1. rewrite <- K1 in K2. exact K2.
  - apply andb_true_iff in K1 as [D1 S1].
    destruct (node_keys a) as [ka|]; [|discriminate]. destruct (node_keys b) as [kb|] eqn:Kb; [|discriminate].
    destruct (nkind b); try discriminate D1; apply andb_true_iff in K2 as [D2 S2]; rewrite D2; simpl;
      (destruct (node_keys c) as [kc|]; [|discriminate]); eapply keys_same_set_trans; eauto.
  - apply andb_true_iff in K1 as [E1 D1]. apply kind_eqb_eq in E1. rewrite <- E1 in K2.
    apply andb_true_iff in K2 as [E2 D2]. rewrite E2. apply ndata_eqb_eq in D1, D2. rewrite D1, D2, ndata_eqb_refl. reflexivity.
  - apply andb_true_iff in K1 as [D1 S1].
    destruct (node_keys a) as [ka|]; [|discriminate]. destruct (node_keys b) as [kb|] eqn:Kb; [|discriminate].
    destruct (nkind b); try discriminate D1; apply andb_true_iff in K2 as [D2 S2]; rewrite D2; simpl;
      (destruct (node_keys c) as [kc|]; [|discriminate]); eapply keys_same_set_trans; eauto.
  - apply andb_true_iff in K1 as [D1 S1].
    destruct (node_keys a) as [ka|]; [|discriminate]. destruct (node_keys b) as [kb|] eqn:Kb; [|discriminate].
    destruct (nkind b); try discriminate D1; apply andb_true_iff in K2 as [D2 S2]; rewrite D2; simpl;
      (destruct (node_keys c) as [kc|]; [|discriminate]); eapply keys_same_set_trans; eauto.
  - apply kind_eqb_eq in K1. rewrite <- K1 in K2. exact K2.
  - apply andb_true_iff in K1 as [E1 D1]. apply kind_eqb_eq in E1. rewrite <- E1 in K2.
    apply andb_true_iff in K2 as [E2 D2]. rewrite E2. apply ndata_eqb_eq in D1, D2. rewrite D1, D2, ndata_eqb_refl. reflexivity.
Qed.

(* ---------- alignment of dict children by key ---------- *)
Lemma omapM_Forall2 {A B} (f : A -> option B) : forall l r,
  omapM f l = Some r -> Forall2 (fun a b => f a = Some b) l r.
Proof.
  induction l as [|a l IH]; intros r H; simpl in H.
  - injection H as <-. constructor.
  - destruct (f a) as [b|] eqn:Ea; simpl in H; [|discriminate].
    destruct (omapM f l) as [r'|] eqn:Er; simpl in H; [|discriminate].
    injection H as <-. constructor; [exact Ea | apply IH; reflexivity].
Qed.

Lemma Forall2_omapM {A B} (f : A -> option B) : forall l r,
  Forall2 (fun a b => f a = Some b) l r -> omapM f l = Some r.
Proof.
  induction 1 as [|a b l r Hab _ IH]; simpl; [reflexivity|]. rewrite Hab, IH. reflexivity.
Qed.

(* children of b listed by b's keys and compared with c's children fetched by those keys:
   whatever key finds a child in b finds a child in c, and the two are related *)
Lemma lookup_related (kc : list key) (cc : list stree) : forall kb cb cc',
  Forall2 (fun k z => child_at_key kc cc k = Some z) kb cc' -> Forall2 P cb cc' ->
  forall k y, lookup k (combine kb cb) = Some y ->
  exists z, child_at_key kc cc k = Some z /\ P y z.
Proof.
  induction kb as [|k0 kb IH]; intros cb cc' H1 H2 k y Hl; [destruct cb; discriminate|].
  destruct cb as [|y0 cb]; [discriminate|].
  inversion H2 as [|? z0 ? cc'' Hy0 Hrest]; subst.
  inversion H1 as [|? ? ? ? Hk0 Hks]; subst.
  simpl in Hl. destruct (key_eqb k k0) eqn:E.
  - apply key_eqb_eq in E. subst k0. injection Hl as <-. eauto.
  - eapply IH; eauto.
Qed.

Definition Trans (x : stree) : Prop := forall y z, P x y -> P y z -> P x z.

Lemma Forall2_trans_list : forall la lb lc,
  Forall Trans la -> Forall2 P la lb -> Forall2 P lb lc -> Forall2 P la lc.
Proof.
  induction la as [|x la IH]; intros lb lc Ht H1 H2.
  - inversion H1; subst. inversion H2; subst. constructor.
  - inversion H1 as [|? y ? lb' Hxy H1']; subst. inversion H2 as [|? z ? lc' Hyz H2']; subst.
    inversion Ht as [|? ? Hx Ht']; subst. constructor; [eapply Hx; eauto | eapply IH; eauto].
Qed.

Lemma aligned_trans (B : list (key * stree)) (fC : key -> option stree) : forall ca ka cb',
  Forall Trans ca -> Forall2 P ca cb' ->
  Forall2 (fun k y => lookup k B = Some y) ka cb' ->
  (forall k y, lookup k B = Some y -> exists z, fC k = Some z /\ P y z) ->
  exists cc'', Forall2 (fun k z => fC k = Some z) ka cc'' /\ Forall2 P ca cc''.
Proof.
  induction ca as [|x ca IH]; intros ka cb' Ht H1 H2 Hrel.
  - inversion H1; subst. inversion H2; subst. exists []. split; constructor.
  - inversion H1 as [|? y ? cb'' Hxy H1']; subst.
    inversion H2 as [|k ? ka' ? Hk H2']; subst.
    inversion Ht as [|? ? Hx Ht']; subst.
    destruct (Hrel k y Hk) as (z & Hz & Hyz).
    destruct (IH ka' cb'' Ht' H1' H2' Hrel) as (cc'' & Ha & Hb).
    exists (z :: cc''). split; constructor; auto. eapply Hx; eauto.
Qed.

(* ---------- transitivity ---------- *)
Theorem prefix_trans : forall a b c, P a b -> P b c -> P a c.
Proof.
  intros a. induction a as [na ca IH] using stree_ind'. intros [nb cb] [nc cc] H1 H2.
  unfold P in *. rewrite st_prefix_unfold in *.
  destruct (is_leaf_node na) eqn:La; [reflexivity|].
  destruct (prefix_node_ok na nb) eqn:Oab; [|discriminate H1]. cbn [negb] in H1.
  rewrite (prefix_node_ok_nonleaf na nb Oab) in H2.
  destruct (prefix_node_ok nb nc) eqn:Obc; [|discriminate H2]. cbn [negb] in H2.
  rewrite (prefix_node_ok_trans na nb nc Oab Obc). cbn [negb].
  destruct (aligned na nb cb) as [cb'|] eqn:Aab; [|discriminate H1].
  destruct (aligned nb nc cc) as [cc'|] eqn:Abc; [|discriminate H2].
  apply prefix_list_Forall2 in H1, H2.
  assert (IH' : Forall Trans ca).
  { apply Forall_forall. intros x Hx y z Hxy Hyz. rewrite Forall_forall in IH. exact (IH x Hx y z Hxy Hyz). }
  unfold aligned in *. rewrite (prefix_node_ok_dict na nb Oab) in Abc.
  destruct (is_dict_kind (nkind na)) eqn:Da.
  - destruct (node_keys na) as [ka|]; [|discriminate Aab].
    destruct (node_keys nb) as [kb|]; [|discriminate Aab].
    destruct (node_keys nc) as [kc|]; [|discriminate Abc].
    apply omapM_Forall2 in Aab, Abc.
    destruct (aligned_trans (combine kb cb) (child_at_key kc cc) ca ka cb' IH' H1 Aab
                            (lookup_related kc cc kb cb cc' Abc H2)) as (cc'' & Hk & Hp).
    rewrite (Forall2_omapM _ _ _ Hk). apply prefix_list_Forall2. exact Hp.
  - injection Aab as <-. injection Abc as <-. apply prefix_list_Forall2.
    eapply Forall2_trans_list; eauto.
Qed.

(* at the level of treespecs: transitive whenever the outer namespaces are compatible (they need not
   be: 'a' <= '' <= 'b' is the counterexample, as for ==) *)
Theorem ss_prefix_trans a b c :
  ns_compatible (ss_ns a) (ss_ns c) = true ->
  ss_is_prefix a b false = true -> ss_is_prefix b c false = true -> ss_is_prefix a c false = true.
Proof.
  unfold ss_is_prefix. intros Hns H1 H2.
  destruct (Bool.eqb (ss_nil a) (ss_nil b)) eqn:N1; [|discriminate H1].
  destruct (Bool.eqb (ss_nil b) (ss_nil c)) eqn:N2; [|discriminate H2].
  apply Bool.eqb_prop in N1, N2. rewrite N1, N2, Bool.eqb_reflx, Hns. cbn [negb] in *.
  destruct (ns_compatible (ss_ns a) (ss_ns b)); [|discriminate H1].
  destruct (ns_compatible (ss_ns b) (ss_ns c)); [|discriminate H2]. cbn [negb] in *.
  destruct (Nat.ltb (st_nodes (stree_of b)) (st_nodes (stree_of a))) eqn:L1; [discriminate H1|].
  destruct (Nat.ltb (st_nodes (stree_of c)) (st_nodes (stree_of b))) eqn:L2; [discriminate H2|].
  apply Nat.ltb_ge in L1, L2.
  destruct (Nat.ltb (st_nodes (stree_of c)) (st_nodes (stree_of a))) eqn:L3; [apply Nat.ltb_lt in L3; lia|].
  destruct (st_prefix (stree_of a) (stree_of b)) as [p1 m1] eqn:E1.
  destruct (st_prefix (stree_of b) (stree_of c)) as [p2 m2] eqn:E2.
  simpl in H1, H2. rewrite andb_true_r in H1, H2. subst p1 p2.
  assert (Hac : P (stree_of a) (stree_of c)).
  { apply (prefix_trans _ (stree_of b)); unfold P; [rewrite E1 | rewrite E2]; reflexivity. }
  unfold P in Hac. destruct (st_prefix (stree_of a) (stree_of c)) as [p3 m3]. simpl in Hac. subst p3. reflexivity.
Qed.

Theorem ss_prefix_trans_refuted_across_namespaces :
  exists a b c, ss_is_prefix a b false = true /\ ss_is_prefix b c false = true /\ ss_is_prefix a c false = false.
Proof.
  exists {| stree_of := st_leaf; ss_nil := false; ss_ns := 1 |},
         {| stree_of := st_leaf; ss_nil := false; ss_ns := 0 |},
         {| stree_of := st_leaf; ss_nil := false; ss_ns := 2 |}.
  vm_compute. auto.
Qed.
