(* TransposeInvol.v — transposing back returns the original tree (property C10). *)
From OptreeModel Require Import Base Tree Flatten Unflatten Spec Construct Ops.
From OptreeProofs Require Import BaseProofs RoundTrip SpecProofs InspectProofs OpsProofs Replace ConstructProofs Subst TransposeProofs PrefixErrProofs PrefixArrProofs BroadcastEquiv.

Section Matrix.
  Context {A : Type} (d : A).

  Lemma map_nth_seq : forall (row : list A), map (fun j => nth j row d) (seq 0 (length row)) = row.
  Proof.
    induction row as [|x row IH]; [reflexivity|].
    cbn [length seq map nth]. f_equal. rewrite <- seq_shift, map_map. exact IH.
  Qed.

  Lemma chunks_concat n : forall (rows : list (list A)),
    (forall row, In row rows -> length row = n) -> chunks n (length rows) (concat rows) = rows.
  Proof.
    induction rows as [|r rows IH]; intros H; [reflexivity|].
    cbn [length chunks concat]. pose proof (H r (or_introl eq_refl)) as Hr.
    replace (firstn n (r ++ concat rows)) with r by (rewrite <- Hr; symmetry; apply firstn_app_exact).
    replace (skipn n (r ++ concat rows)) with (concat rows) by (rewrite <- Hr; symmetry; apply skipn_app_exact).
    f_equal. apply IH. intros row Hrow. apply H. right. exact Hrow.
  Qed.

  Lemma concat_chunks n : forall m (ls : list A), length ls = (m * n)%nat -> concat (chunks n m ls) = ls.
  Proof.
    induction m as [|m IH]; intros ls Hl; [destruct ls; [reflexivity | discriminate]|].
    cbn [chunks concat]. rewrite IH by (rewrite skipn_length; simpl in Hl; lia). apply firstn_skipn.
  Qed.
End Matrix.

Lemma map_nth_seq_rows {A} (M : list (list A)) : map (fun i => nth i M []) (seq 0 (length M)) = M.
Proof. exact (map_nth_seq [] M). Qed.

(* the list-level involution: transposing the transposed grouping gives back the leaves *)
Theorem transpose_involutive {A} (d : A) n m (ls : list A) :
  length ls = (m * n)%nat -> (0 < m)%nat -> (0 < n)%nat ->
  concat (zip_cols m (chunks m n (concat (zip_cols n (chunks n m ls))))) = ls.
Proof.
  intros Hl Hm Hn.
  set (M := chunks n m ls).
  assert (HM : forall row, In row M -> length row = n) by (apply chunks_rows; exact Hl).
  assert (LM : length M = m) by apply chunks_length.
  assert (Hrows : zip_cols n M = map (fun j => map (fun row => nth j row d) M) (seq 0 n)).
  { unfold zip_cols. destruct M as [|r0 M0] eqn:EM; [simpl in LM; lia|]. rewrite <- EM.
    apply zip_cols_go_spec. rewrite EM. exact HM. }
  set (rows := zip_cols n M) in *.
  assert (Lrows : length rows = n) by (rewrite Hrows, map_length, seq_length; reflexivity).
  assert (Hrl : forall r, In r rows -> length r = m).
  { intros r Hr. rewrite Hrows in Hr. apply in_map_iff in Hr as (j & <- & _). rewrite map_length. exact LM. }
  rewrite <- Lrows at 1. rewrite (chunks_concat m rows Hrl).
  assert (Hz : zip_cols m rows = map (fun i => map (fun r => nth i r d) rows) (seq 0 m)).
  { unfold zip_cols. destruct rows as [|r0 R0] eqn:ER; [simpl in Lrows; lia|]. rewrite <- ER.
    apply zip_cols_go_spec. rewrite ER. exact Hrl. }
  rewrite Hz.
  assert (Hback : map (fun i => map (fun r => nth i r d) rows) (seq 0 m) = M).
  { transitivity (map (fun i => nth i M []) (seq 0 m)); [|rewrite <- LM; apply map_nth_seq_rows].
    apply map_ext_in. intros i Hi. apply in_seq in Hi.
    rewrite Hrows, map_map.
    transitivity (map (fun j => nth j (nth i M []) d) (seq 0 n)).
    - apply map_ext_in. intros j Hj.
      rewrite (nth_indep _ d (nth j [] d)) by (rewrite map_length; lia).
      exact (map_nth (fun row => nth j row d) M [] i).
    - rewrite <- (HM (nth i M [])) by (apply nth_In; lia). apply map_nth_seq. }
  rewrite Hback. unfold M. apply concat_chunks. exact Hl.
Qed.

(* a tree is what its own leaves and treespec unflatten to, at every fuel *)
Lemma tflat_unflatten c f o l T b nil ns :
  wf_obj o = true -> tflat c f o = Ok (l, T, b) ->
  unflatten {| trav := encode T; snil := nil; sns := ns |} l = Ok o.
Proof.
  intros W H. destruct (flat_of_tflat c f o l T b H) as [Hf _].
  unfold unflatten, sanity. cbn [trav].
  destruct (flat_sanity _ _ _ _ Hf) as [Hne Hlast]. unfold r_ns in Hne, Hlast. cbn [fst snd] in Hne, Hlast.
  destruct (encode T) as [|n0 ns0] eqn:En; [congruence|]. rewrite Hlast, Nat.eqb_refl.
  pose proof (flat_unflat c _ o _ W Hf [] [] []) as HU. unfold r_ns, r_ls in HU. cbn [fst snd] in HU.
  rewrite !app_nil_r in HU. exact HU.
Qed.

(* TRANSPOSING BACK RETURNS THE ORIGINAL TREE *)
Theorem transpose_back c outer inner o_out o_in lo spo li spi t ls sp r ls' sp' :
  let m := st_leaves (stree_of outer) in
  let n := st_leaves (stree_of inner) in
  let ct := {| c_nil := ss_nil outer;
               c_ns := if Z.eqb (ss_ns outer) 0 then ss_ns inner else ss_ns outer;
               c_pred := c_pred c; c_reg := c_reg c; c_ins := c_ins c; c_limit := c_limit c |} in
  Bool.eqb (ss_nil outer) (ss_nil inner) = true -> m <> O -> n <> O ->
  ns_compatible (ss_ns outer) (ss_ns inner) = true -> c_pred c = None ->
  wf_stree (stree_of outer) = true -> wf_stree (stree_of inner) = true ->
  wf_obj o_out = true -> wf_obj o_in = true -> wf_obj t = true ->
  flatten ct o_out = Ok (lo, spo) -> trav spo = encode (stree_of outer) ->
  flatten ct o_in = Ok (li, spi) -> trav spi = encode (stree_of inner) ->
  flatten ct t = Ok (ls, sp) -> trav sp = encode (st_compose (stree_of outer) (stree_of inner)) ->
  tree_transpose c outer inner t = Ok r ->
  flatten ct r = Ok (ls', sp') ->
  tree_transpose c inner outer r = Ok t.
Proof.
  intros m n ct Hnil Hm Hn Hns Hp Wouter Winner Wo Wi Wt Fo Eo Fi Ei Ft Et Hr Fr.
  (* t has m * n leaves *)
  destruct (flatten_tflat ct t ls sp Ft) as (tt & bt & Htt & Hsp & Wtt).
  assert (Htt' : tt = st_compose (stree_of outer) (stree_of inner)).
  { apply encode_inj; [exact Wtt | apply compose_wf; assumption|]. rewrite <- Et, Hsp. reflexivity. }
  assert (Hl : length ls = (m * n)%nat).
  { rewrite (tflat_count ct _ t ls tt bt Htt), Htt'. apply compose_leaves. exact Wouter. }
  (* forth *)
  destruct (transpose_tree c outer inner o_out o_in lo spo li spi t ls sp Hnil Hm Hn Hns Hp Wouter Winner Wo Wi Wt Fo Eo Fi Ei Ft Hl)
    as (r0 & b & Hr0 & Wr & HTr). fold ct in HTr.
  rewrite Hr in Hr0. injection Hr0 as <-.
  (* the flatten of r that succeeded is the one the theorem describes *)
  destruct (flatten_tflat ct r ls' sp' Fr) as (tr & br & Htr & Hsp' & Wtr).
  pose proof (tflat_fuel_mono_plus ct (S (c_limit c)) _ r _ Htr) as Hmono.
  change (c_limit ct) with (c_limit c) in Hmono. rewrite HTr in Hmono. injection Hmono as Hls' Htr' Hbr.
  (* the swapped configuration is the same configuration *)
  assert (Hct : {| c_nil := ss_nil inner;
                   c_ns := if Z.eqb (ss_ns inner) 0 then ss_ns outer else ss_ns inner;
                   c_pred := c_pred c; c_reg := c_reg c; c_ins := c_ins c; c_limit := c_limit c |} = ct).
  { unfold ct. apply Bool.eqb_prop in Hnil. rewrite Hnil. f_equal.
    unfold ns_compatible in Hns.
    destruct (Z.eqb (ss_ns outer) 0) eqn:E1; destruct (Z.eqb (ss_ns inner) 0) eqn:E2; cbn [orb] in Hns;
      try reflexivity.
    - apply Z.eqb_eq in E1, E2. congruence.
    - apply Z.eqb_eq in Hns. congruence. }
  assert (Hnil' : Bool.eqb (ss_nil inner) (ss_nil outer) = true).
  { apply Bool.eqb_prop in Hnil. rewrite Hnil. apply Bool.eqb_reflx. }
  assert (Hns' : ns_compatible (ss_ns inner) (ss_ns outer) = true).
  { unfold ns_compatible in *. rewrite (Z.eqb_sym (ss_ns inner) (ss_ns outer)).
    destruct (Z.eqb (ss_ns outer) 0), (Z.eqb (ss_ns inner) 0); cbn [orb] in *; auto. }
  assert (Hl' : length ls' = (n * m)%nat).
  { rewrite (tflat_count ct _ r ls' tr br Htr), <- Htr'. apply compose_leaves. exact Winner. }
  (* back *)
  pose proof (transpose_tree c inner outer o_in o_out li spi lo spo r ls' sp') as Back. cbv zeta in Back.
  rewrite Hct in Back.
  destruct (Back Hnil' Hn Hm Hns' Hp Winner Wouter Wi Wo Wr Fi Ei Fo Eo Fr Hl') as (r2 & b2 & Hr2 & Wr2 & HT2).
  rewrite Hr2. f_equal.
  (* r2 and t have the same leaves and the same treespec *)
  pose proof (transpose_involutive (Leaf 0) n m ls Hl ltac:(lia) ltac:(lia)) as Hinv.
  unfold m, n in Hinv. rewrite <- Hls' in HT2. rewrite Hinv in HT2.
  pose proof (tflat_unflatten ct _ r2 _ _ _ false 0%Z Wr2 HT2) as U2.
  pose proof (tflat_unflatten ct _ t _ _ _ false 0%Z Wt Htt) as Ut. rewrite Htt' in Ut.
  rewrite U2 in Ut. injection Ut as ->. reflexivity.
Qed.
