(* BaseProofs.v — reflection lemmas for keys, association lists, and the sort. *)
From OptreeModel Require Import Base.
From Coq Require Import Permutation Sorted.

Lemma list_Z_eqb_eq a b : list_Z_eqb a b = true <-> a = b.
Proof.
  revert b; induction a as [|x a IH]; intros [|y b]; simpl; split; try congruence; auto.
  - intros H. apply andb_true_iff in H as [H1 H2]. apply Z.eqb_eq in H1. apply IH in H2. congruence.
  - intros H. injection H as -> ->. rewrite Z.eqb_refl. simpl. apply IH. reflexivity.
Qed.

Lemma key_eqb_eq a b : key_eqb a b = true <-> a = b.
Proof.
  destruct a, b; simpl; split; intros H; try congruence; try reflexivity;
    try (apply Z.eqb_eq in H; congruence);
    try (apply list_Z_eqb_eq in H; congruence);
    try (injection H as ->; apply Z.eqb_refl);
    try (injection H as ->; apply list_Z_eqb_eq; reflexivity);
    try (apply andb_true_iff in H as [H1 H2]; apply Z.eqb_eq in H1, H2; congruence);
    try (injection H as -> ->; rewrite !Z.eqb_refl; reflexivity).
Qed.

Lemma key_eqb_refl a : key_eqb a a = true.
Proof. apply key_eqb_eq. reflexivity. Qed.

Lemma key_eqb_neq a b : key_eqb a b = false <-> a <> b.
Proof.
  split; intros H.
  - intros E. apply key_eqb_eq in E. congruence.
  - destruct (key_eqb a b) eqn:E; [apply key_eqb_eq in E; contradiction | reflexivity].
Qed.

Lemma key_eq_dec (a b : key) : {a = b} + {a <> b}.
Proof.
  destruct (key_eqb a b) eqn:E; [left; apply key_eqb_eq; exact E | right; apply key_eqb_neq; exact E].
Qed.

Lemma keys_eqb_eq a b : keys_eqb a b = true <-> a = b.
Proof.
  revert b; induction a as [|x a IH]; intros [|y b]; simpl; split; try congruence; auto.
  - intros H. apply andb_true_iff in H as [H1 H2]. apply key_eqb_eq in H1. apply IH in H2. congruence.
  - intros H. injection H as -> ->. rewrite key_eqb_refl. simpl. apply IH. reflexivity.
Qed.

Lemma key_mem_In k l : key_mem k l = true <-> In k l.
Proof.
  induction l as [|x l IH]; simpl; [split; [discriminate | tauto]|].
  rewrite orb_true_iff, IH, key_eqb_eq. split; intros [H|H]; auto.
Qed.

Lemma keys_nodup_NoDup l : keys_nodup l = true <-> NoDup l.
Proof.
  induction l as [|x l IH]; simpl; [split; [constructor | reflexivity]|].
  rewrite andb_true_iff, negb_true_iff, IH. split.
  - intros [H1 H2]. constructor; [|exact H2]. intros Hin. apply key_mem_In in Hin. congruence.
  - intros H. inversion H as [|? ? Hn Hd]; subst. split; [|exact Hd].
    destruct (key_mem x l) eqn:E; [apply key_mem_In in E; contradiction | reflexivity].
Qed.

(* ---------- association lists ---------- *)
Lemma lookup_In_fst {V} k (d : list (key * V)) v : lookup k d = Some v -> In k (map fst d).
Proof.
  induction d as [|[k' v'] d IH]; simpl; [discriminate|].
  destruct (key_eqb k k') eqn:E; [apply key_eqb_eq in E; auto | auto].
Qed.

Lemma lookup_None_notin {V} k (d : list (key * V)) : lookup k d = None <-> ~ In k (map fst d).
Proof.
  induction d as [|[k' v'] d IH]; simpl; [tauto|].
  destruct (key_eqb k k') eqn:E.
  - apply key_eqb_eq in E. subst. split; [discriminate | intros H; exfalso; apply H; auto].
  - apply key_eqb_neq in E. rewrite IH. split; [intros H [H1|H1]; [congruence | auto] | auto].
Qed.

Lemma assoc_ext {V} (d1 d2 : list (key * V)) :
  map fst d1 = map fst d2 -> NoDup (map fst d1) ->
  (forall k, In k (map fst d1) -> lookup k d1 = lookup k d2) -> d1 = d2.
Proof.
  revert d2; induction d1 as [|[k v] d1 IH]; intros [|[k2 v2] d2]; simpl; try discriminate; auto.
  intros Hf Hnd Hl. injection Hf as <- Hf. inversion Hnd as [|? ? Hnin Hnd']; subst.
  assert (v = v2) as <-.
  { specialize (Hl k (or_introl eq_refl)). simpl in Hl. rewrite key_eqb_refl in Hl. congruence. }
  f_equal. apply IH; auto. intros k' Hin. specialize (Hl k' (or_intror Hin)). simpl in Hl.
  destruct (key_eqb k' k) eqn:E; [apply key_eqb_eq in E; subst; contradiction | exact Hl].
Qed.

Lemma lookup_combine_map {V} (ks : list key) (f : key -> V) k :
  In k ks -> lookup k (combine ks (map f ks)) = Some (f k).
Proof.
  induction ks as [|x ks IH]; simpl; [tauto|]. intros H.
  destruct (key_eqb k x) eqn:E; [apply key_eqb_eq in E; subst; reflexivity|].
  apply key_eqb_neq in E. destruct H as [H|H]; [congruence | auto].
Qed.

Lemma map_fst_combine {A B} (l : list A) (l' : list B) :
  length l = length l' -> map fst (combine l l') = l.
Proof. revert l'; induction l; intros [|]; simpl; intros; try discriminate; f_equal; auto. Qed.

Lemma map_snd_combine {A B} (l : list A) (l' : list B) :
  length l = length l' -> map snd (combine l l') = l'.
Proof. revert l'; induction l; intros [|]; simpl; intros; try discriminate; f_equal; auto. Qed.

(* ---------- insertion sort is a permutation ---------- *)
Section SortFacts.
  Context {A : Type} (ltb : A -> A -> bool).
  Lemma insert_perm x l : Permutation (insert ltb x l) (x :: l).
  Proof.
    induction l as [|y l IH]; simpl; [reflexivity|].
    destruct (ltb y x); [|reflexivity].
    rewrite IH. apply perm_swap.
  Qed.
  Lemma isort_perm l : Permutation (isort ltb l) l.
  Proof.
    induction l as [|x l IH]; simpl; [reflexivity|].
    rewrite insert_perm. constructor. exact IH.
  Qed.
End SortFacts.

Lemma total_order_sort_perm ks : Permutation (total_order_sort ks) ks.
Proof.
  unfold total_order_sort. destruct (stage1_ok ks); [apply isort_perm|].
  destruct (stage2_ok ks); [apply isort_perm | reflexivity].
Qed.
