(* UpToProofs.v — flatten_up_to of a tree by its own treespec returns the tree's leaves (property C07:
   the degenerate case of the prefix partition, and the link between FlattenUpTo and flatten). *)
From OptreeModel Require Import Base Tree Flatten Unflatten Spec Construct.
From OptreeProofs Require Import BaseProofs RoundTrip SpecProofs EqProofs OrderProofs FaultProofs ConstructProofs.
From Coq Require Import Permutation.

Definition LookupSame (c c' : cfg) : Prop := forall cls, lookup_reg c' cls = lookup_reg c cls.

Lemma up_to_seq c' (f : obj -> res tres) : forall l ls ts b,
  (forall x lx tx bx, In x l -> f x = Ok (lx, tx, bx) -> (bx = true -> b = true) -> up_to c' tx x = Ok lx) ->
  tflat_seq f l = Ok (ls, ts, b) ->
  exists lss, mapM_rev2 (up_to c') ts l = Ok lss /\ concat lss = ls /\ length ts = length l.
Proof.
  induction l as [|x l IH]; intros ls ts b H Hr; simpl in Hr.
  - injection Hr as <- <- <-. exists []. auto.
  - destruct (f x) as [[[ls1 t1] b1]|] eqn:E1; simpl in Hr; [|discriminate].
    destruct (tflat_seq f l) as [[[ls2 ts2] b2]|] eqn:E2; simpl in Hr; [|discriminate].
    injection Hr as <- <- <-.
    destruct (IH ls2 ts2 b2) as (lss & Hm & Hc & Hl); [|reflexivity|].
    { intros y ly ty by0 Hy Hf Hb. apply (H y ly ty by0 (or_intror Hy) Hf). intros Hbt. rewrite (Hb Hbt). apply orb_true_r. }
    pose proof (H x ls1 t1 b1 (or_introl eq_refl) E1) as Hx.
    exists (ls1 :: lss). simpl. rewrite Hm. simpl. rewrite Hx.
    + simpl. rewrite Hc, Hl. auto.
    + intros ->. reflexivity.
Qed.

Lemma keys_same_set_perm a b : Permutation a b -> keys_same_set a b = true.
Proof.
  intros Hp. unfold keys_same_set. rewrite (Permutation_length Hp), Nat.eqb_refl. simpl.
  unfold keys_subset. apply forallb_forall. intros k Hk. apply key_mem_In. eapply Permutation_in; eauto.
Qed.

Theorem up_to_tflat c c' : c_pred c = None -> forall fuel o ls t b,
  wf_obj o = true -> tflat c fuel o = Ok (ls, t, b) -> (b = true -> LookupSame c c') ->
  up_to c' t o = Ok ls.
Proof.
  intros Hp. assert (Hap : forall x, apply_pred c x = false) by (intros; unfold apply_pred; rewrite Hp; reflexivity).
  induction fuel as [|fuel IH]; intros o ls t b Hwf Hr Hb; [discriminate|].
  cbn [tflat] in Hr. rewrite Hap in Hr.
  destruct (get_kind c o) as [k cu] eqn:Ek.
  destruct o as [id|h cs]; [injection Hr as <- <- <-; reflexivity|].
  simpl in Hwf. apply andb_true_iff in Hwf as [Hwh Hwcs].
  assert (Hseq : forall l ls0 ts b0, (forall x, In x l -> In x cs) -> (b0 = true -> b = true) ->
            tflat_seq (tflat c fuel) l = Ok (ls0, ts, b0) ->
            exists lss, mapM_rev2 (up_to c') ts l = Ok lss /\ concat lss = ls0 /\ length ts = length l).
  { intros l ls0 ts b0 Hsub Hbb. apply up_to_seq. intros x lx tx bx Hx Hf Hbx.
    eapply IH; [eapply forallb_In; [exact Hwcs | apply Hsub; exact Hx] | exact Hf |].
    intros Hbt. apply Hb. apply Hbb. apply Hbx. exact Hbt. }
  destruct k.
  - (* custom *)
    destruct h; try discriminate Hr.
    assert (Hcu : cu = lookup_reg c cls).
    { simpl in Ek. destruct (lookup_reg c cls); [injection Ek as <-; reflexivity | discriminate Ek]. }
    destruct eb; try discriminate Hr;
      (destruct (tflat_seq (tflat c fuel) cs) as [[[ls0 ts] b0]|] eqn:E; simpl in Hr; [|discriminate]).
    + injection Hr as <- <- <-.
      destruct (Hseq cs _ _ _ (fun x H => H) (fun _ => orb_true_r _) E) as (lss & Hm & Hc & Hl).
      unfold mkT. cbn [up_to]. unfold recount. cbn [nkind narity ndat ncustom node_of raw_node].
      rewrite (Hb (orb_true_r _) cls), <- Hcu, opt_reg_eqb_refl, ndata_eqb_refl, Hl, Nat.eqb_refl. cbn [negb].
      rewrite Hm. simpl. rewrite Hc. reflexivity.
    + injection Hr as <- <- <-.
      destruct (Hseq cs _ _ _ (fun x H => H) (fun _ => orb_true_r _) E) as (lss & Hm & Hc & Hl).
      unfold mkT. cbn [up_to]. unfold recount. cbn [nkind narity ndat ncustom node_of raw_node].
      rewrite (Hb (orb_true_r _) cls), <- Hcu, opt_reg_eqb_refl, ndata_eqb_refl, Hl, Nat.eqb_refl. cbn [negb].
      rewrite Hm. simpl. rewrite Hc. reflexivity.
    + destruct (Nat.eqb (length es) (length cs)); [|discriminate]. injection Hr as <- <- <-.
      destruct (Hseq cs _ _ _ (fun x H => H) (fun _ => orb_true_r _) E) as (lss & Hm & Hc & Hl).
      unfold mkT. cbn [up_to]. unfold recount. cbn [nkind narity ndat ncustom node_of raw_node].
      rewrite (Hb (orb_true_r _) cls), <- Hcu, opt_reg_eqb_refl, ndata_eqb_refl, Hl, Nat.eqb_refl. cbn [negb].
      rewrite Hm. simpl. rewrite Hc. reflexivity.
  - injection Hr as <- <- <-. reflexivity.
  - injection Hr as <- <- <-.
    destruct h; simpl in Ek; try discriminate Ek; try (destruct (lookup_reg c cls); discriminate Ek).
    reflexivity.
  - destruct (tflat_seq (tflat c fuel) cs) as [[[ls0 ts] b0]|] eqn:E; simpl in Hr; [|discriminate].
    injection Hr as <- <- <-.
    destruct (Hseq cs _ _ _ (fun x H => H) (fun H0 => eq_trans (orb_false_r b0) H0) E) as (lss & Hm & Hc & Hl).
    destruct h; simpl in Ek; try discriminate Ek; try (destruct (c_nil c); discriminate Ek);
      try (destruct (lookup_reg c cls); discriminate Ek).
    unfold mkT. cbn [up_to]. unfold recount. cbn [nkind narity ndat node_of raw_node exact_kind_of].
    rewrite ?kind_eqb_refl, Hl, Nat.eqb_refl. cbn [negb andb]. rewrite Hm. simpl. rewrite Hc. reflexivity.
  - destruct (tflat_seq (tflat c fuel) cs) as [[[ls0 ts] b0]|] eqn:E; simpl in Hr; [|discriminate].
    injection Hr as <- <- <-.
    destruct (Hseq cs _ _ _ (fun x H => H) (fun H0 => eq_trans (orb_false_r b0) H0) E) as (lss & Hm & Hc & Hl).
    destruct h; simpl in Ek; try discriminate Ek; try (destruct (c_nil c); discriminate Ek);
      try (destruct (lookup_reg c cls); discriminate Ek).
    unfold mkT. cbn [up_to]. unfold recount. cbn [nkind narity ndat node_of raw_node exact_kind_of].
    rewrite ?kind_eqb_refl, Hl, Nat.eqb_refl. cbn [negb andb]. rewrite Hm. simpl. rewrite Hc. reflexivity.
  - destruct (hdr_keys h) as [ks|] eqn:Hk; [|discriminate Hr]. cbn zeta in Hr.
    destruct (mapM (child_by_key ks cs) (visit_keys c KdDict ks)) as [ch|] eqn:Em; simpl in Hr; [|discriminate].
    destruct (tflat_seq (tflat c fuel) ch) as [[[ls0 ts] b0]|] eqn:E; simpl in Hr; [|discriminate].
    injection Hr as <- <- <-.
    destruct (mapM_child_by_key _ _ _ _ Em) as (_ & _ & Hsub).
    destruct (Hseq ch _ _ _ Hsub (fun H0 => eq_trans (orb_false_r b0) H0) E) as (lss & Hm & Hc & Hl).
    destruct h; simpl in Ek; try discriminate Ek; try (destruct (c_nil c); discriminate Ek);
      try (destruct (lookup_reg c cls); discriminate Ek).
    simpl in Hk. injection Hk as ->.
    unfold mkT. cbn [up_to]. unfold recount. cbn [nkind narity ndat node_of raw_node hdr_keys].
    unfold node_keys. cbn [ndat].
    pose proof (keys_same_set_perm _ _ (visit_keys_perm c KdDict ks)) as Hks.
    unfold visit_keys in Hks, Em |- *. rewrite Hks, Em. cbn [bind]. rewrite Hm. simpl. rewrite Hc. reflexivity.
  - destruct (tflat_seq (tflat c fuel) cs) as [[[ls0 ts] b0]|] eqn:E; simpl in Hr; [|discriminate].
    injection Hr as <- <- <-.
    destruct (Hseq cs _ _ _ (fun x H => H) (fun H0 => eq_trans (orb_false_r b0) H0) E) as (lss & Hm & Hc & Hl).
    destruct h; simpl in Ek; try discriminate Ek; try (destruct (c_nil c); discriminate Ek);
      try (destruct (lookup_reg c cls); discriminate Ek).
    unfold mkT. cbn [up_to]. unfold recount. cbn [nkind narity ndat node_of raw_node exact_kind_of].
    rewrite Z.eqb_refl. rewrite ?kind_eqb_refl, Hl, Nat.eqb_refl. cbn [negb andb]. rewrite Hm. simpl. rewrite Hc. reflexivity.
  - destruct (hdr_keys h) as [ks|] eqn:Hk; [|discriminate Hr]. cbn zeta in Hr.
    destruct (mapM (child_by_key ks cs) (visit_keys c KdODict ks)) as [ch|] eqn:Em; simpl in Hr; [|discriminate].
    destruct (tflat_seq (tflat c fuel) ch) as [[[ls0 ts] b0]|] eqn:E; simpl in Hr; [|discriminate].
    injection Hr as <- <- <-.
    destruct (mapM_child_by_key _ _ _ _ Em) as (_ & _ & Hsub).
    destruct (Hseq ch _ _ _ Hsub (fun H0 => eq_trans (orb_false_r b0) H0) E) as (lss & Hm & Hc & Hl).
    destruct h; simpl in Ek; try discriminate Ek; try (destruct (c_nil c); discriminate Ek);
      try (destruct (lookup_reg c cls); discriminate Ek).
    simpl in Hk. injection Hk as ->.
    unfold mkT. cbn [up_to]. unfold recount. cbn [nkind narity ndat node_of raw_node hdr_keys].
    unfold node_keys. cbn [ndat].
    pose proof (keys_same_set_perm _ _ (visit_keys_perm c KdODict ks)) as Hks.
    unfold visit_keys in Hks, Em |- *. rewrite Hks, Em. cbn [bind]. rewrite Hm. simpl. rewrite Hc. reflexivity.
  - destruct (hdr_keys h) as [ks|] eqn:Hk; [|discriminate Hr]. cbn zeta in Hr.
    destruct (mapM (child_by_key ks cs) (visit_keys c KdDDict ks)) as [ch|] eqn:Em; simpl in Hr; [|discriminate].
    destruct (tflat_seq (tflat c fuel) ch) as [[[ls0 ts] b0]|] eqn:E; simpl in Hr; [|discriminate].
    injection Hr as <- <- <-.
    destruct (mapM_child_by_key _ _ _ _ Em) as (_ & _ & Hsub).
    destruct (Hseq ch _ _ _ Hsub (fun H0 => eq_trans (orb_false_r b0) H0) E) as (lss & Hm & Hc & Hl).
    destruct h; simpl in Ek; try discriminate Ek; try (destruct (c_nil c); discriminate Ek);
      try (destruct (lookup_reg c cls); discriminate Ek).
    simpl in Hk. injection Hk as ->.
    unfold mkT. cbn [up_to]. unfold recount. cbn [nkind narity ndat node_of raw_node hdr_keys].
    unfold node_keys. cbn [ndat].
    pose proof (keys_same_set_perm _ _ (visit_keys_perm c KdDDict ks)) as Hks.
    unfold visit_keys in Hks, Em |- *. rewrite Hks, Em. cbn [bind]. rewrite Hm. simpl. rewrite Hc. reflexivity.
  - destruct (tflat_seq (tflat c fuel) cs) as [[[ls0 ts] b0]|] eqn:E; simpl in Hr; [|discriminate].
    injection Hr as <- <- <-.
    destruct (Hseq cs _ _ _ (fun x H => H) (fun H0 => eq_trans (orb_false_r b0) H0) E) as (lss & Hm & Hc & Hl).
    destruct h; simpl in Ek; try discriminate Ek; try (destruct (c_nil c); discriminate Ek);
      try (destruct (lookup_reg c cls); discriminate Ek).
    unfold mkT. cbn [up_to]. unfold recount. cbn [nkind narity ndat node_of raw_node exact_kind_of].
    rewrite ?kind_eqb_refl, Hl, Nat.eqb_refl. cbn [negb andb]. rewrite Hm. simpl. rewrite Hc. reflexivity.
  - destruct (tflat_seq (tflat c fuel) cs) as [[[ls0 ts] b0]|] eqn:E; simpl in Hr; [|discriminate].
    injection Hr as <- <- <-.
    destruct (Hseq cs _ _ _ (fun x H => H) (fun H0 => eq_trans (orb_false_r b0) H0) E) as (lss & Hm & Hc & Hl).
    destruct h; simpl in Ek; try discriminate Ek; try (destruct (c_nil c); discriminate Ek);
      try (destruct (lookup_reg c cls); discriminate Ek).
    unfold mkT. cbn [up_to]. unfold recount. cbn [nkind narity ndat node_of raw_node exact_kind_of].
    rewrite Z.eqb_refl. rewrite ?kind_eqb_refl, Hl, Nat.eqb_refl. cbn [negb andb]. rewrite Hm. simpl. rewrite Hc. reflexivity.
Qed.

(* flatten_up_to of a tree by its own treespec returns exactly the tree's leaves *)
Theorem flatten_up_to_self c o ls sp s :
  c_pred c = None -> wf_obj o = true -> flatten c o = Ok (ls, sp) -> sspec_of sp = Some s ->
  ss_flatten_up_to (c_reg c) s o = Ok ls.
Proof.
  intros Hp Hwf Hf Hs. unfold flatten in Hf.
  destruct (flat c (S (c_limit c)) o) as [[[ls' ns] b]|] eqn:E; [|discriminate].
  cbn [bind] in Hf. injection Hf as <- <-.
  destruct (tflat_of_flat c _ o _ _ _ E) as (t & Ht & -> & Hw).
  unfold sspec_of in Hs. cbn [trav snil sns] in Hs.
  rewrite (decode_encode t (wf_arity_ok t Hw)) in Hs. injection Hs as <-.
  unfold ss_flatten_up_to. cbn [stree_of ss_nil ss_ns].
  apply (up_to_tflat c _ Hp _ o ls' t b Hwf Ht).
  intros -> cls. unfold lookup_reg, spec_ns. cbn [c_ns c_reg orb]. reflexivity.
Qed.
