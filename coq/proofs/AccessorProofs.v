(* AccessorProofs.v — the i-th path, applied to the tree, reaches the i-th leaf (property C04). *)
From OptreeModel Require Import Base Tree Flatten Unflatten Spec Accessor.
From OptreeProofs Require Import BaseProofs RoundTrip SpecProofs TraversalProofs.
From Coq Require Import Permutation.

Lemma Forall2_impl {A B} (P Q : A -> B -> Prop) l l' :
  (forall a b, P a b -> Q a b) -> Forall2 P l l' -> Forall2 Q l l'.
Proof. intros H. induction 1; constructor; auto. Qed.

Definition p_ls (r : pres) : list obj := let '(_, ls, _, _) := r in ls.

Definition Hits (stk : list key) (o : obj) (r : pres) : Prop :=
  Forall2 (fun p lf => exists q, p = rev stk ++ q /\ get_path o q = Some lf) (p_ps r) (p_ls r).

Lemma Hits_leaf stk o b : Hits stk o ([rev stk], [o], [leaf_node], b).
Proof. constructor; [|constructor]. exists []. split; [rewrite app_nil_r; reflexivity | reflexivity]. Qed.

Lemma flatp_seq_hits (f : list key -> obj -> res pres) stk o l :
  (forall e x, In (e, x) l -> obj_child o e = Some x) ->
  (forall e x r, In (e, x) l -> f (e :: stk) x = Ok r -> Hits (e :: stk) x r) ->
  forall R, flatp_seq f stk l = Ok R -> Hits stk o R.
Proof.
  induction l as [|[e x] l IH]; intros Hc Hf R HR; simpl in HR.
  - injection HR as <-. constructor.
  - destruct (f (e :: stk) x) as [[[[ps1 ls1] ns1] b1]|] eqn:E1; simpl in HR; [|discriminate].
    destruct (flatp_seq f stk l) as [[[[ps2 ls2] ns2] b2]|] eqn:E2; simpl in HR; [|discriminate].
    injection HR as <-. unfold Hits. simpl. apply Forall2_app.
    + pose proof (Hf e x _ (or_introl eq_refl) E1) as H1. unfold Hits in H1. simpl in H1.
      eapply Forall2_impl; [|exact H1]. intros p lf (q & -> & Hq). cbv beta. exists (e :: q). split.
      * simpl. rewrite <- app_assoc. reflexivity.
      * simpl. rewrite (Hc e x (or_introl eq_refl)). exact Hq.
    + apply (IH (fun e' x' H => Hc e' x' (or_intror H)) (fun e' x' r H => Hf e' x' r (or_intror H)) _ eq_refl).
Qed.

Lemma pos_keys_combine_child (cs : list obj) : forall s e x,
  0 <= s -> In (e, x) (combine (pos_keys (length cs) s) cs) ->
  exists i, e = KInt (s + Z.of_nat i) /\ nth_error cs i = Some x.
Proof.
  induction cs as [|c cs IH]; intros s e x Hs Hin; [contradiction|].
  simpl in Hin. destruct Hin as [H|H].
  - injection H as <- <-. exists O. split; [f_equal; lia | reflexivity].
  - destruct (IH (s + 1) e x ltac:(lia) H) as (i & -> & Hn). exists (S i). split; [f_equal; lia | exact Hn].
Qed.

Lemma seq_children (cs : list obj) e x :
  In (e, x) (combine (pos_keys (length cs) 0) cs) -> nth_by_key cs e = Some x.
Proof.
  intros H. destruct (pos_keys_combine_child cs 0 e x ltac:(lia) H) as (i & -> & Hn).
  unfold nth_by_key. simpl. assert (Z.leb 0 (Z.of_nat i) = true) as -> by (apply Z.leb_le; lia).
  rewrite Nat2Z.id. exact Hn.
Qed.

Lemma dict_children ks cs vks ch :
  mapM (child_by_key ks cs) vks = Ok ch ->
  forall k x, In (k, x) (combine vks ch) -> lookup k (combine ks cs) = Some x.
Proof.
  revert ch; induction vks as [|v vks IH]; intros ch H k x Hin; simpl in H.
  - injection H as <-. contradiction.
  - unfold child_by_key at 1 in H. destruct (lookup v (combine ks cs)) as [o|] eqn:El; simpl in H; [|discriminate].
    destruct (mapM (child_by_key ks cs) vks) as [ch'|] eqn:Em; simpl in H; [|discriminate].
    injection H as <-. simpl in Hin. destruct Hin as [Hx|Hx]; [injection Hx as <- <-; exact El | eapply IH; eauto].
Qed.

Lemma key_index_combine es : forall (cs : list obj) e x,
  NoDup es -> In (e, x) (combine es cs) ->
  exists i, key_index e es = Some i /\ nth_error cs i = Some x.
Proof.
  induction es as [|k es IH]; intros [|c cs] e x Hnd Hin; simpl in Hin; try contradiction.
  inversion Hnd as [|? ? Hn Hnd']; subst. destruct Hin as [H|H].
  - injection H as <- <-. exists O. simpl. rewrite key_eqb_refl. auto.
  - destruct (IH cs e x Hnd' H) as (i & Hi & Hx). exists (S i). simpl.
    destruct (key_eqb e k) eqn:E.
    + apply key_eqb_eq in E. subst. exfalso. apply Hn. apply in_combine_l in H. exact H.
    + rewrite Hi. auto.
Qed.

Lemma Hits_same stk o r r' : p_ps r = p_ps r' -> p_ls r = p_ls r' -> Hits stk o r' -> Hits stk o r.
Proof. unfold Hits. intros -> ->. auto. Qed.

Ltac kill_h Ek :=
  simpl in Ek; try discriminate Ek;
  try (match type of Ek with context [c_nil ?c] => destruct (c_nil c); discriminate Ek end);
  try (match type of Ek with context [lookup_reg ?c ?x] => destruct (lookup_reg c x); discriminate Ek end).

Theorem flat_path_hits c fuel : forall o stk r,
  entries_ok o = true -> flat_path c fuel stk o = Ok r -> Hits stk o r.
Proof.
  induction fuel as [|fuel IH]; intros o stk r Hok Hr; [discriminate|].
  simpl in Hr.
  destruct (apply_pred c o); [injection Hr as <-; apply Hits_leaf|].
  destruct (get_kind c o) as [k cu] eqn:Ek.
  destruct o as [id|h cs]; [injection Hr as <-; apply Hits_leaf|].
  simpl in Hok. apply andb_true_iff in Hok as [Hent Hcs].
  assert (HS : forall l R, (forall e x, In (e, x) l -> obj_child (Node h cs) e = Some x /\ In x cs) ->
                           flatp_seq (flat_path c fuel) stk l = Ok R -> Hits stk (Node h cs) R).
  { intros l R Hc. apply flatp_seq_hits.
    - intros e x Hin. apply (Hc e x Hin).
    - intros e x r0 Hin H0. apply IH; [|exact H0]. eapply forallb_In; [exact Hcs | apply (Hc e x Hin)]. }
  assert (Hpos : forall e x, In (e, x) (combine (pos_keys (length cs) 0) cs) ->
                             nth_by_key cs e = Some x /\ In x cs).
  { intros e x Hin. split; [apply seq_children; exact Hin | apply in_combine_r in Hin; exact Hin]. }
  assert (Hdict : forall ks ch vks, hdr_keys h = Some ks -> mapM (child_by_key ks cs) vks = Ok ch ->
             forall e x, In (e, x) (combine vks ch) -> obj_child (Node h cs) e = Some x /\ In x cs).
  { intros ks ch vks Eh Em e x Hin. pose proof (dict_children _ _ _ _ Em e x Hin) as Hl.
    destruct (mapM_child_by_key _ _ _ _ Em) as (_ & _ & Hsub).
    split; [|apply Hsub; apply in_combine_r in Hin; exact Hin].
    destruct h; try discriminate; simpl in Eh; injection Eh as ->; exact Hl. }
  destruct k.
  - (* custom *)
    destruct h; kill_h Ek. destruct eb; try discriminate.
    + destruct (flatp_seq _ _ _) as [[[[ps ls] ns] b]|] eqn:E; simpl in Hr; [|discriminate].
      injection Hr as <-. apply (Hits_same stk _ _ (ps, ls, ns, b)); [reflexivity | reflexivity|]. eapply HS; [|exact E]. exact Hpos.
    + destruct (flatp_seq _ _ _) as [[[[ps ls] ns] b]|] eqn:E; simpl in Hr; [|discriminate].
      injection Hr as <-. apply (Hits_same stk _ _ (ps, ls, ns, b)); [reflexivity | reflexivity|]. eapply HS; [|exact E]. exact Hpos.
    + destruct (flatp_custom _ _ _ _) as [[[[ps ls] ns] b]|] eqn:E; simpl in Hr; [|discriminate].
      destruct (Nat.eqb (length es) (length cs)) eqn:El; [|discriminate].
      injection Hr as <-. apply Nat.eqb_eq in El. rewrite flatp_custom_combine in E by exact El.
      apply (Hits_same stk _ _ (ps, ls, ns, b)); [reflexivity | reflexivity|]. eapply HS; [|exact E].
      intros e x Hin. apply keys_nodup_NoDup in Hent.
      destruct (key_index_combine es cs e x Hent Hin) as (i & Hi & Hx).
      split; [simpl; rewrite Hi; exact Hx | apply in_combine_r in Hin; exact Hin].
  - injection Hr as <-; apply Hits_leaf.
  - injection Hr as <-. constructor.
  - destruct (flatp_seq _ _ _) as [[[[ps ls] ns] b]|] eqn:E; simpl in Hr; [|discriminate].
    injection Hr as <-. destruct h; kill_h Ek. apply (Hits_same stk _ _ (ps, ls, ns, b)); [reflexivity | reflexivity|]. eapply HS; [|exact E]. exact Hpos.
  - destruct (flatp_seq _ _ _) as [[[[ps ls] ns] b]|] eqn:E; simpl in Hr; [|discriminate].
    injection Hr as <-. destruct h; kill_h Ek. apply (Hits_same stk _ _ (ps, ls, ns, b)); [reflexivity | reflexivity|]. eapply HS; [|exact E]. exact Hpos.
  - destruct (hdr_keys h) as [ks|] eqn:Eh; [|discriminate].
    destruct (mapM (child_by_key ks cs) _) as [ch|] eqn:Em; simpl in Hr; [|discriminate].
    destruct (flatp_seq _ _ _) as [[[[ps ls] ns] b]|] eqn:E; simpl in Hr; [|discriminate].
    injection Hr as <-. apply (Hits_same stk _ _ (ps, ls, ns, b)); [reflexivity | reflexivity|]. eapply HS; [|exact E]. eapply Hdict; eauto.
  - destruct (flatp_seq _ _ _) as [[[[ps ls] ns] b]|] eqn:E; simpl in Hr; [|discriminate].
    injection Hr as <-. destruct h; kill_h Ek. apply (Hits_same stk _ _ (ps, ls, ns, b)); [reflexivity | reflexivity|]. eapply HS; [|exact E]. exact Hpos.
  - destruct (hdr_keys h) as [ks|] eqn:Eh; [|discriminate].
    destruct (mapM (child_by_key ks cs) _) as [ch|] eqn:Em; simpl in Hr; [|discriminate].
    destruct (flatp_seq _ _ _) as [[[[ps ls] ns] b]|] eqn:E; simpl in Hr; [|discriminate].
    injection Hr as <-. apply (Hits_same stk _ _ (ps, ls, ns, b)); [reflexivity | reflexivity|]. eapply HS; [|exact E]. eapply Hdict; eauto.
  - destruct (hdr_keys h) as [ks|] eqn:Eh; [|discriminate].
    destruct (mapM (child_by_key ks cs) _) as [ch|] eqn:Em; simpl in Hr; [|discriminate].
    destruct (flatp_seq _ _ _) as [[[[ps ls] ns] b]|] eqn:E; simpl in Hr; [|discriminate].
    injection Hr as <-. apply (Hits_same stk _ _ (ps, ls, ns, b)); [reflexivity | reflexivity|]. eapply HS; [|exact E]. eapply Hdict; eauto.
  - destruct (flatp_seq _ _ _) as [[[[ps ls] ns] b]|] eqn:E; simpl in Hr; [|discriminate].
    injection Hr as <-. destruct h; kill_h Ek. apply (Hits_same stk _ _ (ps, ls, ns, b)); [reflexivity | reflexivity|]. eapply HS; [|exact E]. exact Hpos.
  - destruct (flatp_seq _ _ _) as [[[[ps ls] ns] b]|] eqn:E; simpl in Hr; [|discriminate].
    injection Hr as <-. destruct h; kill_h Ek. apply (Hits_same stk _ _ (ps, ls, ns, b)); [reflexivity | reflexivity|]. eapply HS; [|exact E]. exact Hpos.
Qed.

(* the i-th path applied to the tree returns the i-th leaf *)
Theorem accessor_hits_leaf c o ps ls sp :
  entries_ok o = true -> flatten_with_path c o = Ok (ps, ls, sp) ->
  Forall2 (fun p lf => get_path o p = Some lf) ps ls.
Proof.
  unfold flatten_with_path. intros Hok H.
  destruct (flat_path c (S (c_limit c)) [] o) as [[[[ps' ls'] ns] b]|] eqn:E; [|discriminate].
  cbn [bind] in H. injection H as <- <- <-.
  pose proof (flat_path_hits _ _ _ _ _ Hok E) as Hh. unfold Hits in Hh. simpl in Hh.
  eapply Forall2_impl; [|exact Hh]. intros p lf (q & -> & Hq). exact Hq.
Qed.

(* slicing and concatenating paths composes access *)
Theorem get_path_app o p q :
  get_path o (p ++ q) = match get_path o p with Some x => get_path x q | None => None end.
Proof.
  revert o. induction p as [|e p IH]; intros o; [reflexivity|].
  cbn [app get_path]. destruct (obj_child o e) as [c|]; [apply IH | reflexivity].
Qed.
