(* JoinOrder.v — broadcast_to_common_suffix returns an upper bound of its operands in the prefix order
   (property C09). *)
From OptreeModel Require Import Base Tree Flatten Unflatten Spec.
From OptreeProofs Require Import BaseProofs RoundTrip SpecProofs InspectProofs EqProofs OrderProofs PrefixOrder.

(* nodes other than custom nodes carry no registration; None nodes have no children *)
Fixpoint custom_ok (t : stree) : bool :=
  match t with
  | T n cs =>
    (match nkind n with
     | KdCustom => true
     | KdNone => (match ncustom n with None => true | Some _ => false end) && Nat.eqb (length cs) 0
     | _ => match ncustom n with None => true | Some _ => false end
     end)
    && forallb custom_ok cs
  end.

Definition good (t : stree) : bool := keys_ok t && arity_ok t && custom_ok t.

Fixpoint join_list (l l' : list stree) : res (list stree) :=
  match l, l' with
  | [], [] => Ok []
  | x :: t, y :: t' =>
    do rest <- join_list t t' ;;
    do r <- st_join x y ;;
    Ok (r :: rest)
  | _, _ => Err InternalError
  end.

Definition join_kids (na : node) (ca cb' : list stree) : res stree :=
  do r <- join_list ca cb' ;; Ok (mkT na r).

Lemma st_join_unfold na ca nb cb :
  st_join (T na ca) (T nb cb) =
  if is_leaf_node na then Ok (T nb cb)
  else if is_leaf_node nb then Ok (T na ca)
  else
    match nkind na with
    | KdNone => if kind_eqb (nkind nb) KdNone then Ok (T na ca) else Err ValueError
    | KdTuple | KdList | KdDeque =>
      if negb (kind_eqb (nkind na) (nkind nb)) then Err ValueError
      else if negb (Nat.eqb (narity na) (narity nb)) then Err ValueError
      else join_kids na ca cb
    | KdDict | KdODict | KdDDict =>
      if negb (is_dict_kind (nkind nb)) then Err ValueError
      else match node_keys na, node_keys nb with
           | Some ka, Some kb =>
             if negb (keys_same_set ka kb) then Err ValueError
             else match omapM (child_at_key kb cb) ka with
                  | Some cb' => join_kids na ca cb'
                  | None => Err InternalError
                  end
           | _, _ => Err InternalError
           end
    | KdNamed | KdStruct =>
      if negb (kind_eqb (nkind na) (nkind nb)) then Err ValueError
      else if negb (Nat.eqb (narity na) (narity nb)) then Err ValueError
      else if negb (ndata_eqb (ndat na) (ndat nb)) then Err ValueError
      else join_kids na ca cb
    | KdCustom =>
      if negb (kind_eqb (nkind na) (nkind nb)) then Err ValueError
      else if negb (opt_reg_eqb (ncustom na) (ncustom nb)) then Err ValueError
      else if negb (Nat.eqb (narity na) (narity nb)) then Err ValueError
      else if negb (ndata_eqb (ndat na) (ndat nb)) then Err ValueError
      else join_kids na ca cb
    | KdLeaf => Err InternalError
    end.
Proof. reflexivity. Qed.

Definition UB (a : stree) : Prop :=
  forall b j, good a = true -> good b = true -> st_join a b = Ok j -> P a j /\ P b j.

Lemma good_children n cs : good (T n cs) = true -> forallb good cs = true.
Proof.
  unfold good. simpl. intros H.
  apply andb_true_iff in H as [H Hc]. apply andb_true_iff in H as [Hk Ha].
  apply andb_true_iff in Hk as [_ Hk]. apply andb_true_iff in Ha as [_ Ha]. apply andb_true_iff in Hc as [_ Hc].
  apply forallb_forall. intros x Hx.
  rewrite forallb_forall in Hk, Ha, Hc. rewrite (Hk x Hx), (Ha x Hx), (Hc x Hx). reflexivity.
Qed.

Lemma join_list_ub : forall ca cb' r,
  Forall UB ca -> forallb good ca = true -> forallb good cb' = true ->
  join_list ca cb' = Ok r -> Forall2 P ca r /\ Forall2 P cb' r.
Proof.
  induction ca as [|x ca IH]; intros [|y cb'] r Hub Hga Hgb Hj; simpl in Hj; try discriminate.
  - injection Hj as <-. split; constructor.
  - destruct (join_list ca cb') as [rest|] eqn:Er; simpl in Hj; [|discriminate].
    destruct (st_join x y) as [rx|] eqn:Ex; simpl in Hj; [|discriminate]. injection Hj as <-.
    simpl in Hga, Hgb. apply andb_true_iff in Hga as [Gx Gca]. apply andb_true_iff in Hgb as [Gy Gcb].
    inversion Hub as [|? ? Hx Hub']; subst.
    destruct (Hx y rx Gx Gy Ex) as [P1 P2]. destruct (IH cb' rest Hub' Gca Gcb Er) as [Q1 Q2].
    split; constructor; assumption.
Qed.

Lemma join_list_length : forall ca cb' r, join_list ca cb' = Ok r -> length r = length ca /\ length r = length cb'.
Proof.
  induction ca as [|x ca IH]; intros [|y cb'] r Hj; simpl in Hj; try discriminate.
  - injection Hj as <-. auto.
  - destruct (join_list ca cb') as [rest|] eqn:Er; simpl in Hj; [|discriminate].
    destruct (st_join x y) as [rx|]; simpl in Hj; [|discriminate]. injection Hj as <-.
    destruct (IH cb' rest Er). simpl. split; congruence.
Qed.

(* ---------- the node of the result against the operands' nodes ---------- *)
Lemma recount_fields n r :
  nkind (recount n r) = nkind n /\ ndat (recount n r) = ndat n /\ ncustom (recount n r) = ncustom n /\
  narity (recount n r) = length r /\ node_keys (recount n r) = node_keys n.
Proof. unfold recount, node_keys. simpl. auto. Qed.

Lemma keys_same_set_sym a b :
  NoDup a -> keys_same_set a b = true -> keys_same_set b a = true.
Proof.
  unfold keys_same_set, keys_subset. intros Hnd H. apply andb_true_iff in H as [Hl Hs].
  apply Nat.eqb_eq in Hl. rewrite forallb_forall in Hs.
  apply andb_true_iff. split; [apply Nat.eqb_eq; congruence|].
  apply forallb_forall. intros k Hk. apply key_mem_In.
  apply (@NoDup_length_incl _ a b Hnd); [lia | intros x Hx; apply key_mem_In; apply Hs; exact Hx | exact Hk].
Qed.

Lemma Forall2_lookup_self ks : forall (cs : list stree),
  NoDup ks -> length ks = length cs -> Forall2 (fun k y => child_at_key ks cs k = Some y) ks cs.
Proof.
  intros cs Hnd Hlen. apply omapM_Forall2. apply omapM_child_at_key_self; assumption.
Qed.

Lemma Forall2_zip3 {A B C} (R1 : A -> B -> Prop) (R2 : B -> C -> Prop) (R3 : A -> C -> Prop) :
  forall la lb lc, Forall2 R1 la lb -> Forall2 R2 lb lc -> Forall2 R3 la lc ->
  Forall (fun a => exists b c, R1 a b /\ R2 b c /\ R3 a c) la.
Proof.
  induction la as [|a la IH]; intros lb lc H1 H2 H3; [constructor|].
  inversion H1; subst. inversion H2; subst. inversion H3; subst. constructor; eauto.
Qed.

(* the dict case of "b <= join": b's children listed by b's keys against the result's children
   fetched by those keys *)
Lemma dict_back ka kb (cb cb' r : list stree) :
  NoDup ka -> NoDup kb -> length ka = length r -> length kb = length cb ->
  keys_subset kb ka = true ->
  Forall2 (fun k y => child_at_key kb cb k = Some y) ka cb' -> Forall2 P cb' r ->
  exists r', omapM (child_at_key ka r) kb = Some r' /\ Forall2 P cb r'.
Proof.
  intros Na Nb La Lb Hsub Hal Hp.
  pose proof (Forall2_zip3 _ _ _ ka cb' r Hal Hp (Forall2_lookup_self ka r Na La)) as Hz.
  rewrite Forall_forall in Hz.
  assert (Hpt : forall k y, child_at_key kb cb k = Some y -> In k kb ->
                            exists z, child_at_key ka r k = Some z /\ P y z).
  { intros k y Hk Hin. unfold keys_subset in Hsub. rewrite forallb_forall in Hsub.
    destruct (Hz k (proj1 (key_mem_In k ka) (Hsub k Hin))) as (y' & z & H1 & H2 & H3).
    rewrite Hk in H1. injection H1 as ->. eauto. }
  pose proof (Forall2_lookup_self kb cb Nb Lb) as Hself.
  clear - Hself Hpt.
  assert (Hgen : forall kb' cb0, Forall2 (fun k y => child_at_key kb cb k = Some y) kb' cb0 ->
                 (forall k, In k kb' -> In k kb) ->
                 exists r', omapM (child_at_key ka r) kb' = Some r' /\ Forall2 P cb0 r').
  { induction kb' as [|k kb' IH]; intros cb0 H Hin; inversion H as [|? y ? cb1 Hk Hrest]; subst.
    - exists []. split; [reflexivity | constructor].
    - destruct (Hpt k y Hk (Hin k (or_introl eq_refl))) as (z & Hz & Hyz).
      destruct (IH cb1 Hrest (fun k' H' => Hin k' (or_intror H'))) as (r' & Hr' & Hf).
      exists (z :: r'). split; [simpl; rewrite Hz, Hr'; reflexivity | constructor; assumption]. }
  apply (Hgen kb cb Hself). auto.
Qed.

(* ---------- what `good` says about one node ---------- *)
Lemma good_node n cs : good (T n cs) = true ->
  narity n = length cs /\
  (is_dict_kind (nkind n) = true -> exists ks, node_keys n = Some ks /\ length ks = length cs /\ NoDup ks) /\
  (nkind n <> KdCustom -> ncustom n = None) /\
  (nkind n = KdNone -> cs = []) /\
  keys_ok (T n cs) = true /\ arity_ok (T n cs) = true.
Proof.
  unfold good. intros H. apply andb_true_iff in H as [H Hc]. apply andb_true_iff in H as [Hk Ha].
  split; [|split; [|split; [|split; [|split; assumption]]]].
  - simpl in Ha. apply andb_true_iff in Ha as [Ha _]. apply Nat.eqb_eq. exact Ha.
  - intros Hd. simpl in Hk. rewrite Hd in Hk. apply andb_true_iff in Hk as [Hk _].
    destruct (node_keys n) as [ks|]; [|discriminate]. apply andb_true_iff in Hk as [Hl Hn].
    exists ks. split; [reflexivity | split; [apply Nat.eqb_eq; exact Hl | apply keys_nodup_NoDup; exact Hn]].
  - intros Hne. simpl in Hc. apply andb_true_iff in Hc as [Hc _].
    destruct (nkind n); try congruence; try (destruct (ncustom n); [discriminate | reflexivity]);
      try (apply andb_true_iff in Hc as [Hc _]; destruct (ncustom n); [discriminate | reflexivity]).
  - intros Hn. simpl in Hc. rewrite Hn in Hc. apply andb_true_iff in Hc as [Hc _].
    apply andb_true_iff in Hc as [_ Hc]. apply Nat.eqb_eq in Hc. destruct cs; [reflexivity | discriminate].
Qed.

Lemma P_refl t : good t = true -> P t t.
Proof.
  intros H. destruct t as [n cs]. destruct (good_node n cs H) as (_ & _ & _ & _ & Hk & Ha).
  unfold P. rewrite (prefix_refl _ Hk Ha). reflexivity.
Qed.

Lemma P_leaf n cs t : is_leaf_node n = true -> P (T n cs) t.
Proof. intros H. destruct t as [nb cb]. unfold P. rewrite st_prefix_unfold, H. reflexivity. Qed.

(* the step shared by all node kinds *)
Lemma ub_kids na ca nb cb cb' r :
  is_leaf_node na = false -> is_leaf_node nb = false ->
  Forall UB ca -> forallb good ca = true -> forallb good cb' = true ->
  join_list ca cb' = Ok r ->
  prefix_node_ok na (recount na r) = true -> aligned na (recount na r) r = Some r ->
  prefix_node_ok nb (recount na r) = true ->
  (Forall2 P cb' r -> exists r', aligned nb (recount na r) r = Some r' /\ Forall2 P cb r') ->
  P (T na ca) (mkT na r) /\ P (T nb cb) (mkT na r).
Proof.
  intros La Lb Hub Gca Gcb Hj Oa Aa Ob Ab.
  destruct (join_list_ub ca cb' r Hub Gca Gcb Hj) as [Pa Pb].
  unfold P, mkT. rewrite !st_prefix_unfold, La, Lb, Oa, Ob, Aa. cbn [negb]. split.
  - apply prefix_list_Forall2. exact Pa.
  - destruct (Ab Pb) as (r' & -> & Hr'). apply prefix_list_Forall2. exact Hr'.
Qed.

Lemma forallb_good_sub (cb cb' : list stree) :
  forallb good cb = true -> (forall x, In x cb' -> In x cb) -> forallb good cb' = true.
Proof. intros H Hs. apply forallb_forall. intros x Hx. eapply forallb_In; eauto. Qed.

Lemma omapM_child_in kb (cb : list stree) : forall ka cb',
  omapM (child_at_key kb cb) ka = Some cb' -> forall x, In x cb' -> In x cb.
Proof.
  induction ka as [|k ka IH]; intros cb' H x Hx; simpl in H.
  - injection H as <-. destruct Hx.
  - destruct (child_at_key kb cb k) as [y|] eqn:Ek; simpl in H; [|discriminate].
    destruct (omapM (child_at_key kb cb) ka) as [l|] eqn:El; simpl in H; [|discriminate].
    injection H as <-. destruct Hx as [<-|Hx]; [|eapply IH; eauto].
    unfold child_at_key in Ek. clear - Ek. revert cb Ek. induction kb as [|k0 kb IHk]; intros [|c cb]; simpl; try discriminate.
    destruct (key_eqb k k0); [intros [= ->]; auto | intros; right; eauto].
Qed.

Theorem join_upper_bound : forall a, UB a.
Proof.
  intros a. induction a as [na ca IH] using stree_ind'. intros [nb cb] j Ga Gb Hj.
  rewrite st_join_unfold in Hj.
  destruct (is_leaf_node na) eqn:La.
  { injection Hj as <-. split; [apply P_leaf; exact La | apply P_refl; exact Gb]. }
  destruct (is_leaf_node nb) eqn:Lb.
  { injection Hj as <-. split; [apply P_refl; exact Ga | apply P_leaf; exact Lb]. }
  destruct (good_node na ca Ga) as (Aa & Da & Ca & Na & _ & _).
  destruct (good_node nb cb Gb) as (Ab & Db & Cb & Nb & _ & _).
  pose proof (good_children na ca Ga) as Gca. pose proof (good_children nb cb Gb) as Gcb.
  (* non-dict kinds: same kind, same arity, children aligned by position *)
  assert (Hpos : forall r, join_list ca cb = Ok r ->
            kind_eqb (nkind na) (nkind nb) = true -> Nat.eqb (narity na) (narity nb) = true ->
            is_dict_kind (nkind na) = false ->
            (match nkind na with KdNamed | KdStruct | KdCustom => ndata_eqb (ndat na) (ndat nb) | _ => true end) = true ->
            opt_reg_eqb (ncustom na) (ncustom nb) = true ->
            P (T na ca) (mkT na r) /\ P (T nb cb) (mkT na r)).
  { intros r Hr Hk Har Hd Hdat Hcu.
    destruct (join_list_length ca cb r Hr) as [L1 L2].
    destruct (recount_fields na r) as (F1 & F2 & F3 & F4 & F5).
    apply kind_eqb_eq in Hk. apply Nat.eqb_eq in Har. apply opt_reg_eqb_eq in Hcu.
    apply (ub_kids na ca nb cb cb r La Lb IH Gca Gcb Hr).
    - unfold prefix_node_ok. rewrite F1, F2, F3, F4, Aa, L1, Nat.eqb_refl, opt_reg_eqb_refl. simpl.
      unfold is_leaf_node in La. destruct (nkind na); try discriminate; try reflexivity;
        rewrite ?kind_eqb_refl, ?ndata_eqb_refl; reflexivity.
    - unfold aligned. rewrite Hd. reflexivity.
    - unfold prefix_node_ok. rewrite F1, F2, F3, F4, Ab, <- L2, Nat.eqb_refl, <- Hcu, opt_reg_eqb_refl. simpl.
      rewrite <- Hk. unfold is_leaf_node in La.
      destruct (nkind na) eqn:Ek; try discriminate; try reflexivity;
        rewrite ?kind_eqb_refl; simpl; try (apply ndata_eqb_eq in Hdat; rewrite Hdat, ndata_eqb_refl; reflexivity).
    - intros Hp. exists r. split; [|exact Hp]. unfold aligned. rewrite <- Hk, Hd. reflexivity. }
  assert (Hdict : is_dict_kind (nkind na) = true -> is_dict_kind (nkind nb) = true ->
            forall ka kb cb' r, node_keys na = Some ka -> node_keys nb = Some kb ->
            keys_same_set ka kb = true -> omapM (child_at_key kb cb) ka = Some cb' ->
            join_list ca cb' = Ok r ->
            P (T na ca) (mkT na r) /\ P (T nb cb) (mkT na r)).
  { intros Dka Dkb ka kb cb' r Hka Hkb Hss Hal Hr.
    destruct (Da Dka) as (ka0 & Hka0 & Lka & Nka). rewrite Hka in Hka0. injection Hka0 as <-.
    destruct (Db Dkb) as (kb0 & Hkb0 & Lkb & Nkb). rewrite Hkb in Hkb0. injection Hkb0 as <-.
    destruct (join_list_length ca cb' r Hr) as [L1 L2].
    destruct (recount_fields na r) as (F1 & F2 & F3 & F4 & F5).
    pose proof (keys_same_set_sym ka kb Nka Hss) as Hss'.
    assert (Lab : length ka = length kb).
    { unfold keys_same_set in Hss. apply andb_true_iff in Hss as [Hl _]. apply Nat.eqb_eq. exact Hl. }
    assert (Cna : ncustom na = None) by (apply Ca; intros E; rewrite E in Dka; discriminate).
    assert (Cnb : ncustom nb = None) by (apply Cb; intros E; rewrite E in Dkb; discriminate).
    apply (ub_kids na ca nb cb cb' r La Lb IH Gca).
    - apply (forallb_good_sub cb cb' Gcb). apply (omapM_child_in kb cb ka cb' Hal).
    - exact Hr.
    - unfold prefix_node_ok. rewrite F1, F2, F3, F4, F5, Aa, L1, Nat.eqb_refl, opt_reg_eqb_refl, Hka. simpl.
      destruct (nkind na); try discriminate Dka; simpl; apply keys_same_set_refl.
    - unfold aligned. rewrite Dka, F5, Hka. apply omapM_child_at_key_self; [exact Nka | congruence].
    - unfold prefix_node_ok. rewrite F1, F3, F4, F5, Ab, Cna, Cnb, Hka, Hkb, Dka.
      replace (Nat.eqb (length cb) (length r)) with true by (symmetry; apply Nat.eqb_eq; congruence). simpl.
      destruct (nkind nb); try discriminate Dkb; exact Hss'.
    - intros Hp. unfold aligned. rewrite Dkb, F5, Hka, Hkb.
      apply (dict_back ka kb cb cb' r Nka Nkb); try congruence.
      + unfold keys_same_set in Hss'. apply andb_true_iff in Hss' as [_ Hs]. exact Hs.
      + apply omapM_Forall2. exact Hal. }
  destruct (nkind na) eqn:Ek; try discriminate Hj.
  - (* custom *)
    destruct (kind_eqb KdCustom (nkind nb)) eqn:E1; [|discriminate Hj]. cbn [negb] in Hj.
    destruct (opt_reg_eqb (ncustom na) (ncustom nb)) eqn:E2; [|discriminate Hj]. cbn [negb] in Hj.
    destruct (Nat.eqb (narity na) (narity nb)) eqn:E3; [|discriminate Hj]. cbn [negb] in Hj.
    destruct (ndata_eqb (ndat na) (ndat nb)) eqn:E4; [|discriminate Hj]. cbn [negb] in Hj.
    unfold join_kids in Hj. destruct (join_list ca cb) as [r|] eqn:Er; simpl in Hj; [|discriminate]. injection Hj as <-.
    apply (Hpos r); auto.
  - (* None *)
    destruct (kind_eqb (nkind nb) KdNone) eqn:E1; [|discriminate Hj]. injection Hj as <-.
    split; [apply P_refl; exact Ga|].
    apply kind_eqb_eq in E1. rewrite (Na eq_refl) in *. rewrite (Nb E1) in *.
    unfold P. rewrite st_prefix_unfold, Lb.
    unfold prefix_node_ok, aligned. rewrite Aa, Ab, E1, Ek, (Ca ltac:(congruence)), (Cb ltac:(congruence)). cbn. reflexivity.
  - destruct (kind_eqb KdTuple (nkind nb)) eqn:E1; [|discriminate Hj]. cbn [negb] in Hj.
    destruct (Nat.eqb (narity na) (narity nb)) eqn:E3; [|discriminate Hj]. cbn [negb] in Hj.
    unfold join_kids in Hj. destruct (join_list ca cb) as [r|] eqn:Er; simpl in Hj; [|discriminate]. injection Hj as <-.
    apply (Hpos r); auto.
    apply kind_eqb_eq in E1. rewrite (Ca ltac:(congruence)), (Cb ltac:(congruence)). reflexivity.
  - destruct (kind_eqb KdList (nkind nb)) eqn:E1; [|discriminate Hj]. cbn [negb] in Hj.
    destruct (Nat.eqb (narity na) (narity nb)) eqn:E3; [|discriminate Hj]. cbn [negb] in Hj.
    unfold join_kids in Hj. destruct (join_list ca cb) as [r|] eqn:Er; simpl in Hj; [|discriminate]. injection Hj as <-.
    apply (Hpos r); auto.
    apply kind_eqb_eq in E1. rewrite (Ca ltac:(congruence)), (Cb ltac:(congruence)). reflexivity.
  - destruct (is_dict_kind (nkind nb)) eqn:Dnb; [|discriminate Hj]. cbn [negb] in Hj.
    destruct (node_keys na) as [ka|] eqn:Hka; [|discriminate Hj].
    destruct (node_keys nb) as [kb|] eqn:Hkb; [|discriminate Hj].
    destruct (keys_same_set ka kb) eqn:Hss; [|discriminate Hj]. cbn [negb] in Hj.
    destruct (omapM (child_at_key kb cb) ka) as [cb'|] eqn:Hal; [|discriminate Hj].
    unfold join_kids in Hj. destruct (join_list ca cb') as [r|] eqn:Er; simpl in Hj; [|discriminate]. injection Hj as <-.
    apply (Hdict eq_refl eq_refl ka kb cb' r); auto.
  - destruct (kind_eqb KdNamed (nkind nb)) eqn:E1; [|discriminate Hj]. cbn [negb] in Hj.
    destruct (Nat.eqb (narity na) (narity nb)) eqn:E3; [|discriminate Hj]. cbn [negb] in Hj.
    destruct (ndata_eqb (ndat na) (ndat nb)) eqn:E4; [|discriminate Hj]. cbn [negb] in Hj.
    unfold join_kids in Hj. destruct (join_list ca cb) as [r|] eqn:Er; simpl in Hj; [|discriminate]. injection Hj as <-.
    apply (Hpos r); auto.
    apply kind_eqb_eq in E1. rewrite (Ca ltac:(congruence)), (Cb ltac:(congruence)). reflexivity.
  - destruct (is_dict_kind (nkind nb)) eqn:Dnb; [|discriminate Hj]. cbn [negb] in Hj.
    destruct (node_keys na) as [ka|] eqn:Hka; [|discriminate Hj].
    destruct (node_keys nb) as [kb|] eqn:Hkb; [|discriminate Hj].
    destruct (keys_same_set ka kb) eqn:Hss; [|discriminate Hj]. cbn [negb] in Hj.
    destruct (omapM (child_at_key kb cb) ka) as [cb'|] eqn:Hal; [|discriminate Hj].
    unfold join_kids in Hj. destruct (join_list ca cb') as [r|] eqn:Er; simpl in Hj; [|discriminate]. injection Hj as <-.
    apply (Hdict eq_refl eq_refl ka kb cb' r); auto.
  - destruct (is_dict_kind (nkind nb)) eqn:Dnb; [|discriminate Hj]. cbn [negb] in Hj.
    destruct (node_keys na) as [ka|] eqn:Hka; [|discriminate Hj].
    destruct (node_keys nb) as [kb|] eqn:Hkb; [|discriminate Hj].
    destruct (keys_same_set ka kb) eqn:Hss; [|discriminate Hj]. cbn [negb] in Hj.
    destruct (omapM (child_at_key kb cb) ka) as [cb'|] eqn:Hal; [|discriminate Hj].
    unfold join_kids in Hj. destruct (join_list ca cb') as [r|] eqn:Er; simpl in Hj; [|discriminate]. injection Hj as <-.
    apply (Hdict eq_refl eq_refl ka kb cb' r); auto.
  - destruct (kind_eqb KdDeque (nkind nb)) eqn:E1; [|discriminate Hj]. cbn [negb] in Hj.
    destruct (Nat.eqb (narity na) (narity nb)) eqn:E3; [|discriminate Hj]. cbn [negb] in Hj.
    unfold join_kids in Hj. destruct (join_list ca cb) as [r|] eqn:Er; simpl in Hj; [|discriminate]. injection Hj as <-.
    apply (Hpos r); auto.
    apply kind_eqb_eq in E1. rewrite (Ca ltac:(congruence)), (Cb ltac:(congruence)). reflexivity.
  - destruct (kind_eqb KdStruct (nkind nb)) eqn:E1; [|discriminate Hj]. cbn [negb] in Hj.
    destruct (Nat.eqb (narity na) (narity nb)) eqn:E3; [|discriminate Hj]. cbn [negb] in Hj.
    destruct (ndata_eqb (ndat na) (ndat nb)) eqn:E4; [|discriminate Hj]. cbn [negb] in Hj.
    unfold join_kids in Hj. destruct (join_list ca cb) as [r|] eqn:Er; simpl in Hj; [|discriminate]. injection Hj as <-.
    apply (Hpos r); auto.
    apply kind_eqb_eq in E1. rewrite (Ca ltac:(congruence)), (Cb ltac:(congruence)). reflexivity.
Qed.
