(* SortProofs.v — the total-order sort of dict keys (property C02):
   it returns a permutation; when the keys are pairwise comparable (stage 1) or comparable within each
   type-name group (stage 2) the result is sorted and does not depend on the insertion order;
   otherwise the keys stay in insertion order. *)
From OptreeModel Require Import Base.
From OptreeProofs Require Import BaseProofs.
From Coq Require Import Permutation Sorted.

(* ================= abstract: insertion sort with an order that is strict-total on a set ================= *)
Section Abstract.
  Context {A : Type} (ltb : A -> A -> bool) (good : A -> Prop).
  Hypothesis irrefl : forall x, ltb x x = false.
  Hypothesis trans : forall x y z, good x -> good y -> good z ->
                                   ltb x y = true -> ltb y z = true -> ltb x z = true.
  Hypothesis total : forall x y, good x -> good y -> x <> y -> ltb x y = true \/ ltb y x = true.

  Definition lt (x y : A) : Prop := ltb x y = true.

  Lemma insert_sorted x l :
    good x -> Forall good l -> ~ In x l -> StronglySorted lt l -> StronglySorted lt (insert ltb x l).
  Proof.
    intros Gx Gl Hn Hs. induction l as [|y l IH]; simpl; [repeat constructor|].
    inversion Hs as [|? ? Hs' Hall]; subst. inversion Gl as [|? ? Gy Gl']; subst.
    destruct (ltb y x) eqn:E.
    - constructor.
      + apply IH; [exact Gl' | intros H; apply Hn; right; exact H | exact Hs'].
      + (* y below everything of insert x l *)
        assert (Hperm : Permutation (insert ltb x l) (x :: l)) by apply insert_perm.
        apply Forall_forall. intros z Hz. apply (Permutation_in _ Hperm) in Hz.
        destruct Hz as [<-|Hz]; [exact E|]. rewrite Forall_forall in Hall. apply Hall. exact Hz.
    - constructor; [exact Hs|].
      assert (Hxy : lt x y).
      { destruct (total x y Gx Gy) as [H|H]; [intros ->; apply Hn; left; reflexivity | exact H | congruence]. }
      constructor; [exact Hxy|].
      apply Forall_forall. intros z Hz. rewrite Forall_forall in Hall, Gl'.
      apply (trans x y z Gx Gy (Gl' z Hz) Hxy (Hall z Hz)).
  Qed.

  Lemma isort_sorted l : Forall good l -> NoDup l -> StronglySorted lt (isort ltb l).
  Proof.
    induction l as [|x l IH]; intros G Hnd; simpl; [constructor|].
    inversion G; subst. inversion Hnd; subst.
    apply insert_sorted; auto.
    - apply Forall_forall. intros z Hz. apply (Permutation_in _ (isort_perm ltb l)) in Hz.
      rewrite Forall_forall in H2. auto.
    - intros Hin. apply (Permutation_in _ (isort_perm ltb l)) in Hin. contradiction.
  Qed.

  (* two sorted permutations of each other are equal *)
  Lemma sorted_unique a : forall b,
    Forall good a -> StronglySorted lt a -> StronglySorted lt b -> Permutation a b -> a = b.
  Proof.
    induction a as [|x a IH]; intros b G Ha Hb Hp.
    - apply Permutation_nil in Hp. congruence.
    - destruct b as [|y b]; [apply Permutation_sym, Permutation_nil in Hp; discriminate|].
      inversion Ha as [|? ? Ha' Hax]; subst. inversion Hb as [|? ? Hb' Hby]; subst.
      inversion G as [|? ? Gx Ga]; subst.
      assert (Hxy : x = y).
      { destruct (Permutation_in x Hp (or_introl eq_refl)) as [E|Hx]; [congruence|].
        assert (Hy : In y (x :: a)) by (apply (Permutation_in y (Permutation_sym Hp)); left; reflexivity).
        destruct Hy as [E|Hy]; [congruence|].
        rewrite Forall_forall in Hax, Hby.
        pose proof (Hax y Hy) as H1. pose proof (Hby x Hx) as H2.
        assert (Gy : good y) by (rewrite Forall_forall in Ga; auto).
        pose proof (trans x y x Gx Gy Gx H1 H2) as H3. unfold lt in H3. rewrite irrefl in H3. discriminate. }
      subst y. f_equal. apply IH; auto. apply Permutation_cons_inv in Hp. exact Hp.
  Qed.

  Theorem isort_perm_invariant l l' :
    Forall good l -> NoDup l -> Permutation l l' -> isort ltb l = isort ltb l'.
  Proof.
    intros G Hnd Hp.
    assert (G' : Forall good l').
    { apply Forall_forall. intros z Hz. apply (Permutation_in _ (Permutation_sym Hp)) in Hz.
      rewrite Forall_forall in G. auto. }
    assert (Hnd' : NoDup l') by (eapply Permutation_NoDup; eauto).
    apply sorted_unique.
    - apply Forall_forall. intros z Hz. apply (Permutation_in _ (isort_perm ltb l)) in Hz.
      rewrite Forall_forall in G. auto.
    - apply isort_sorted; assumption.
    - apply isort_sorted; assumption.
    - rewrite (isort_perm ltb l), (isort_perm ltb l'). exact Hp.
  Qed.
End Abstract.

(* ================= the order on keys ================= *)
Lemma list_Z_ltb_irrefl a : list_Z_ltb a a = false.
Proof. induction a as [|x a IH]; simpl; [reflexivity|]. rewrite Z.ltb_irrefl. exact IH. Qed.

Lemma list_Z_ltb_trans a : forall b c,
  list_Z_ltb a b = true -> list_Z_ltb b c = true -> list_Z_ltb a c = true.
Proof.
  induction a as [|x a IH]; intros [|y b] [|z c]; simpl; try discriminate; auto.
  destruct (Z.ltb x y) eqn:E1, (Z.ltb y x) eqn:E2, (Z.ltb y z) eqn:E3, (Z.ltb z y) eqn:E4,
           (Z.ltb x z) eqn:E5, (Z.ltb z x) eqn:E6; try discriminate; try reflexivity;
    try (rewrite ?Z.ltb_lt, ?Z.ltb_ge in *; lia).
  apply IH.
Qed.

Lemma list_Z_ltb_total a : forall b, a <> b -> list_Z_ltb a b = true \/ list_Z_ltb b a = true.
Proof.
  induction a as [|x a IH]; intros [|y b] H; simpl; auto; try congruence.
  destruct (Z.ltb x y) eqn:E1; [auto|]. destruct (Z.ltb y x) eqn:E2; [auto|].
  rewrite Z.ltb_ge in E1, E2. assert (x = y) by lia. subst y. apply IH. congruence.
Qed.

(* comparability class: tag -1 = incomparable with everything, itself included *)
Definition kclass (k : key) : Z * Z :=
  match k with
  | KInt _ | KFloat _ => (0, 0) | KStr _ => (1, 0) | KTup _ => (2, 0) | KOrd c _ => (3, c)
  | KNone | KCplx _ | KUn _ _ => (-1, 0)
  end.
Definition cl_ok (cl : Z * Z) : Prop := fst cl <> -1.

Lemma comparable_class a b : comparable a b = true <-> (kclass a = kclass b /\ cl_ok (kclass a)).
Proof.
  unfold comparable, key_lt, cl_ok. split.
  - destruct a as [z|z|s| |l|z|c z|c z], b as [z'|z'|s'| |l'|z'|c' z'|c' z']; cbn [kclass knum fst];
      intros H; try discriminate; try (split; [reflexivity | lia]).
    destruct (Z.eqb c c') eqn:E; [apply Z.eqb_eq in E; subst; split; [reflexivity | lia] | discriminate].
  - destruct a as [z|z|s| |l|z|c z|c z], b as [z'|z'|s'| |l'|z'|c' z'|c' z']; cbn [kclass knum fst];
      intros [H1 H2]; try discriminate; try reflexivity; try (exfalso; apply H2; reflexivity).
    injection H1 as ->. rewrite Z.eqb_refl. reflexivity.
Qed.

Lemma key_ltb_irrefl a : key_ltb a a = false.
Proof.
  unfold key_ltb, key_lt. destruct a; cbn [knum]; try reflexivity; try apply Z.ltb_irrefl; try apply list_Z_ltb_irrefl.
  rewrite Z.eqb_refl. apply Z.ltb_irrefl.
Qed.

Lemma key_ltb_trans cl a b c :
  cl_ok cl -> kclass a = cl -> kclass b = cl -> kclass c = cl ->
  key_ltb a b = true -> key_ltb b c = true -> key_ltb a c = true.
Proof.
  intros Hcl Ha Hb Hc. unfold key_ltb, key_lt, cl_ok in *. subst cl.
  destruct a as [z|z|s| |l|z|c1 z|c1 z], b as [z'|z'|s'| |l'|z'|c2 z'|c2 z'],
           c as [z''|z''|s''| |l''|z''|c3 z''|c3 z'']; cbn [kclass knum fst] in *;
    try discriminate; try (exfalso; apply Hcl; reflexivity);
    try (rewrite !Z.ltb_lt; lia); try apply list_Z_ltb_trans.
  injection Hb as ->. injection Hc as ->.
  rewrite !Z.eqb_refl. rewrite !Z.ltb_lt. lia.
Qed.

Lemma key_ltb_total cl a b :
  cl_ok cl -> kclass a = cl -> kclass b = cl -> a <> b -> key_ltb a b = true \/ key_ltb b a = true.
Proof.
  intros Hcl Ha Hb Hne. unfold key_ltb, key_lt, cl_ok in *. subst cl.
  destruct a as [z|z|s| |l|z|c1 z|c1 z], b as [z'|z'|s'| |l'|z'|c2 z'|c2 z']; cbn [kclass knum fst] in *;
    try discriminate; try (exfalso; apply Hcl; reflexivity);
    try (rewrite !Z.ltb_lt; assert (z <> z') by congruence; lia);
    try (rewrite !Z.ltb_lt; lia).
  - apply list_Z_ltb_total. congruence.
  - apply list_Z_ltb_total. congruence.
  - injection Hb as ->. rewrite Z.eqb_refl. rewrite !Z.ltb_lt.
    assert (z <> z') by congruence. lia.
Qed.

(* all pairs comparable: with two or more keys they all share one class *)
Lemma all_pairs_forall {A} (p : A -> A -> bool) l :
  all_pairs p l = true -> (forall x y, p x y = p y x) ->
  forall x y, In x l -> In y l -> x <> y -> p x y = true.
Proof.
  induction l as [|a l IH]; intros H Hs x y Hx Hy Hne; [contradiction|].
  simpl in H. apply andb_true_iff in H as [H1 H2]. rewrite forallb_forall in H1.
  destruct Hx as [<-|Hx], Hy as [<-|Hy].
  - congruence.
  - apply H1. exact Hy.
  - rewrite Hs. apply H1. exact Hx.
  - apply IH; auto.
Qed.

Lemma comparable_sym a b : comparable a b = comparable b a.
Proof.
  destruct (comparable a b) eqn:E1, (comparable b a) eqn:E2; try reflexivity.
  - apply comparable_class in E1 as [H1 H2]. assert (comparable b a = true) by (apply comparable_class; split; congruence). congruence.
  - apply comparable_class in E2 as [H1 H2]. assert (comparable a b = true) by (apply comparable_class; split; congruence). congruence.
Qed.

Lemma stage1_common_class ks :
  stage1_ok ks = true -> NoDup ks -> (2 <= length ks)%nat ->
  exists cl, cl_ok cl /\ Forall (fun k => kclass k = cl) ks.
Proof.
  intros H Hnd Hlen. destruct ks as [|a [|b ks]]; simpl in Hlen; try lia.
  pose proof (all_pairs_forall comparable _ H comparable_sym) as Hp.
  exists (kclass a).
  assert (Hab : a <> b) by (inversion Hnd as [|? ? Hn _]; subst; intros ->; apply Hn; left; reflexivity).
  assert (Ha : cl_ok (kclass a)).
  { apply (comparable_class a b). apply Hp; simpl; auto. }
  split; [exact Ha|]. apply Forall_forall. intros k Hk.
  destruct (key_eq_dec a k) as [<-|Hne]; [reflexivity|].
  symmetry. apply (comparable_class a k). apply Hp; simpl; auto.
Qed.

Lemma isort_small {A} (ltb : A -> A -> bool) l : (length l <= 1)%nat -> isort ltb l = l.
Proof. destruct l as [|a [|b l]]; simpl; intros; try reflexivity; lia. Qed.

Lemma stage1_ok_perm ks ks' : Permutation ks ks' -> stage1_ok ks = true -> NoDup ks -> stage1_ok ks' = true.
Proof.
  intros Hp H Hnd. pose proof (all_pairs_forall comparable _ H comparable_sym) as Hall.
  assert (Hnd' : NoDup ks') by (eapply Permutation_NoDup; eauto).
  assert (Hin : forall x, In x ks' -> In x ks) by (intros; eapply Permutation_in; [apply Permutation_sym; exact Hp | assumption]).
  clear H Hp. unfold stage1_ok. induction ks' as [|a l IH]; [reflexivity|].
  simpl. inversion Hnd'; subst. apply andb_true_iff. split.
  - apply forallb_forall. intros y Hy. apply Hall; [apply Hin; left; reflexivity | apply Hin; right; exact Hy |].
    intros ->. contradiction.
  - apply IH; [assumption | intros; apply Hin; right; assumption].
Qed.

(* stage 1: pairwise comparable keys — sorted by "<", independent of the insertion order *)
Theorem sort_stage1_sorted ks :
  stage1_ok ks = true -> NoDup ks ->
  total_order_sort ks = isort key_ltb ks /\ StronglySorted (fun a b => key_ltb a b = true) (isort key_ltb ks).
Proof.
  intros H Hnd. unfold total_order_sort. rewrite H. split; [reflexivity|].
  destruct (le_lt_dec (length ks) 1) as [Hs|Hl].
  - rewrite isort_small by exact Hs. destruct ks as [|a [|b ks]]; simpl in Hs; try lia; repeat constructor.
  - destruct (stage1_common_class ks H Hnd Hl) as (cl & Hcl & Hall).
    apply isort_sorted with (good := fun k => kclass k = cl); auto.
    + intros x y z Hx Hy Hz. apply (key_ltb_trans cl); assumption.
    + intros x y Hx Hy. apply (key_ltb_total cl); assumption.
Qed.

Theorem sort_stage1_perm_invariant ks ks' :
  stage1_ok ks = true -> NoDup ks -> Permutation ks ks' ->
  total_order_sort ks = total_order_sort ks'.
Proof.
  intros H Hnd Hp. unfold total_order_sort. rewrite H, (stage1_ok_perm ks ks' Hp H Hnd).
  destruct (le_lt_dec (length ks) 1) as [Hs|Hl].
  - assert (ks = ks') as <-; [|reflexivity].
    destruct ks as [|a [|b ks]]; simpl in Hs; try lia.
    + apply Permutation_nil in Hp. congruence.
    + apply Permutation_length_1_inv in Hp. congruence.
  - destruct (stage1_common_class ks H Hnd Hl) as (cl & Hcl & Hall).
    apply isort_perm_invariant with (good := fun k => kclass k = cl); auto using key_ltb_irrefl.
    + intros x y z Hx Hy Hz. apply (key_ltb_trans cl); assumption.
    + intros x y Hx Hy. apply (key_ltb_total cl); assumption.
Qed.

(* when neither stage applies the keys stay in insertion order (the documented fallback; this is
   what defect F5 violated in the engine) *)
Theorem sort_fallback_is_insertion_order ks :
  stage1_ok ks = false -> stage2_ok ks = false -> total_order_sort ks = ks.
Proof. intros H1 H2. unfold total_order_sort. rewrite H1, H2. reflexivity. Qed.
