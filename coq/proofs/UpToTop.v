(* UpToTop.v — property C07 at the level of the API: what flatten_up_to returns. *)
From OptreeModel Require Import Base Tree Flatten Unflatten Spec Construct Accessor.
From OptreeProofs Require Import BaseProofs RoundTrip SpecProofs TraversalProofs EqProofs OrderProofs PrefixOrder JoinOrder
  AccessorProofs ConstructProofs FlattenGood UpToProofs UpToPrefix UpToPartition UpToPaths.
From Coq Require Import Permutation.

Lemma flattens_flatten c x : Flattens c (S (c_limit c)) x ->
  exists spx, flatten c x = Ok (leaves_of c (S (c_limit c)) x, spx).
Proof.
  intros ([[lx tx] bx] & Hx). destruct (flat_of_tflat c _ x lx tx bx Hx) as [Hf _].
  unfold flatten. rewrite Hf. cbn [bind]. unfold leaves_of. rewrite Hx. eexists; reflexivity.
Qed.

(* On success, every returned subtree flattens, and the leaves of the returned subtrees, taken
   together, are exactly the leaves of the tree (each once): as a sequence up to the order in which
   the treespec and the tree list the keys of their dictionaries. *)
Theorem flatten_up_to_partitions c s o ls sp subs :
  c_pred c = None -> c_ns c = ss_ns s ->
  good (stree_of s) = true -> spec_ok c (stree_of s) = true ->
  wf_obj o = true -> flatten c o = Ok (ls, sp) ->
  ss_flatten_up_to (c_reg c) s o = Ok subs ->
  exists lss, Forall2 (fun x lx => exists spx, flatten c x = Ok (lx, spx)) subs lss /\
              Permutation (concat lss) ls.
Proof.
  intros Hp Hns Hg Hs Hwf Hf Hu. unfold flatten in Hf.
  destruct (flat c (S (c_limit c)) o) as [[[ls' ns] b]|] eqn:E; [|discriminate].
  cbn [bind] in Hf. injection Hf as <- <-.
  destruct (tflat_of_flat c _ o _ _ _ E) as (t & Ht & -> & Hw).
  unfold ss_flatten_up_to in Hu.
  rewrite (up_to_ext _ c) in Hu; [|intros cls; unfold lookup_reg; cbn [c_ns c_reg]; rewrite Hns; reflexivity].
  destruct (up_to_partition c Hp (stree_of s) Hg Hs (S (c_limit c)) o ls' t b subs Hwf Ht Hu) as [F P].
  exists (map (leaves_of c (S (c_limit c))) subs). split.
  - clear P Hu. induction F as [|x l Hx _ IH]; simpl; constructor; [apply flattens_flatten; exact Hx | exact IH].
  - rewrite <- flat_map_concat_map. exact P.
Qed.

(* The i-th returned subtree is the subtree found at the i-th path of the treespec. *)
Theorem flatten_up_to_by_paths regs s o subs :
  good (stree_of s) = true -> entries_wf (stree_of s) = true -> entries_ok o = true ->
  ss_flatten_up_to regs s o = Ok subs ->
  Forall2 (fun p x => get_path o p = Some x) (st_paths (stree_of s)) subs.
Proof.
  intros Hg Hw He Hu. unfold ss_flatten_up_to in Hu.
  exact (up_to_paths _ (stree_of s) Hg Hw o subs He Hu).
Qed.

(* ... in particular for the treespec of a flattened tree *)
Corollary flattened_up_to_by_paths c o1 ls1 sp1 s1 o subs :
  wf_obj o1 = true -> flatten c o1 = Ok (ls1, sp1) -> sspec_of sp1 = Some s1 -> entries_ok o = true ->
  ss_flatten_up_to (c_reg c) s1 o = Ok subs ->
  Forall2 (fun p x => get_path o p = Some x) (st_paths (stree_of s1)) subs.
Proof.
  intros W1 F1 S1 He Hu.
  destruct (flatten_good c o1 ls1 sp1 W1 F1) as (s1' & E1 & G1). rewrite S1 in E1. injection E1 as <-.
  apply (flatten_up_to_by_paths (c_reg c) s1 o subs G1); [|exact He | exact Hu].
  unfold flatten in F1. destruct (flat c (S (c_limit c)) o1) as [[[l1 n1] b1]|] eqn:E1; [|discriminate].
  cbn [bind] in F1. injection F1 as <- <-.
  destruct (tflat_of_flat c _ o1 _ _ _ E1) as (t1 & Ht1 & -> & Hw1).
  unfold sspec_of in S1. cbn [trav snil sns] in S1. rewrite (decode_encode t1 (wf_arity_ok t1 Hw1)) in S1.
  injection S1 as <-. cbn [stree_of]. exact (tflat_entries_wf c _ o1 _ _ _ Ht1).
Qed.
