(* UpToPartition.v — the subtrees flatten_up_to returns partition the leaves of the tree: each of them
   flattens, and their leaves together are a permutation of the leaves flatten gives for the whole tree
   (the same sequence when the dict key orders of treespec and tree agree) (property C07). *)
From OptreeModel Require Import Base Tree Flatten Unflatten Spec Construct.
From OptreeProofs Require Import BaseProofs RoundTrip SpecProofs EqProofs OrderProofs PrefixOrder JoinOrder FaultProofs ConstructProofs DepthProofs UpToProofs UpToPrefix.
From Coq Require Import Permutation.

Definition leaves_of (c : cfg) (fuel : nat) (x : obj) : list obj :=
  match tflat c fuel x with Ok (ls, _, _) => ls | Err _ => [] end.

Definition Flattens (c : cfg) (fuel : nat) (x : obj) : Prop := exists r, tflat c fuel x = Ok r.

Definition Part (c : cfg) (fuel : nat) (subs : list obj) (ls : list obj) : Prop :=
  Forall (Flattens c fuel) subs /\ Permutation (flat_map (leaves_of c fuel) subs) ls.

Lemma flattens_mono c fuel x : Flattens c fuel x -> Flattens c (S fuel) x /\ leaves_of c (S fuel) x = leaves_of c fuel x.
Proof.
  intros (r & Hr). split; [exists r; apply tflat_fuel_mono; exact Hr|].
  unfold leaves_of. rewrite (tflat_fuel_mono c fuel x r Hr), Hr. reflexivity.
Qed.

Lemma flat_map_ext_in' {A B} (f g : A -> list B) l : (forall x, In x l -> f x = g x) -> flat_map f l = flat_map g l.
Proof. induction l as [|x l IH]; intros H; simpl; [reflexivity|]. rewrite (H x (or_introl eq_refl)), IH; auto. intros y Hy. apply H. right. exact Hy. Qed.

Lemma part_mono c fuel subs ls : Part c fuel subs ls -> Part c (S fuel) subs ls.
Proof.
  intros [F P]. split.
  - apply Forall_forall. intros x Hx. rewrite Forall_forall in F. apply (flattens_mono c fuel x (F x Hx)).
  - rewrite <- P. apply Permutation_refl'. apply flat_map_ext_in'. intros x Hx. rewrite Forall_forall in F.
    apply (flattens_mono c fuel x (F x Hx)).
Qed.

Lemma tflat_seq_leaves c fuel : forall cf ls ts b,
  tflat_seq (tflat c fuel) cf = Ok (ls, ts, b) ->
  ls = flat_map (leaves_of c fuel) cf /\ Forall (Flattens c fuel) cf.
Proof.
  induction cf as [|x cf IH]; intros ls ts b H; cbn [tflat_seq] in H.
  - injection H as <- <- <-. split; [reflexivity | constructor].
  - destruct (tflat c fuel x) as [[[ls1 t1] b1]|] eqn:E1; simpl in H; [|discriminate].
    destruct (tflat_seq (tflat c fuel) cf) as [[[ls2 ts2] b2]|] eqn:E2; simpl in H; [|discriminate].
    injection H as <- <- <-. destruct (IH _ _ _ eq_refl) as [-> F]. split.
    + cbn [flat_map]. assert (Hx : leaves_of c fuel x = ls1) by (unfold leaves_of; rewrite E1; reflexivity).
      rewrite Hx. reflexivity.
    + constructor; [eexists; exact E1 | exact F].
Qed.

(* the statement proved by induction on the treespec *)
Definition Q (c : cfg) (t : stree) : Prop :=
  good t = true -> spec_ok c t = true ->
  forall fuel o ls to b subs, wf_obj o = true -> tflat c fuel o = Ok (ls, to, b) ->
  up_to c t o = Ok subs -> Part c fuel subs ls.

Lemma part_seq c fuel : forall ts, Forall (Q c) ts -> forallb good ts = true -> forallb (spec_ok c) ts = true ->
  forall cu lss, forallb wf_obj cu = true -> Forall (Flattens c fuel) cu ->
  mapM_rev2 (up_to c) ts cu = Ok lss ->
  Part c fuel (concat lss) (flat_map (leaves_of c fuel) cu).
Proof.
  induction ts as [|t ts IH]; intros HQ Hg Hs [|x cu] lss Hwf Hfl Hm; simpl in Hm; try discriminate.
  - injection Hm as <-. split; simpl; constructor.
  - destruct (mapM_rev2 (up_to c) ts cu) as [rest|] eqn:Er; simpl in Hm; [|discriminate].
    destruct (up_to c t x) as [sub|] eqn:Eu; simpl in Hm; [|discriminate]. injection Hm as <-.
    simpl in Hg, Hs, Hwf. apply andb_true_iff in Hg as [Hg1 Hg2]. apply andb_true_iff in Hs as [Hs1 Hs2].
    apply andb_true_iff in Hwf as [Hw1 Hw2].
    inversion HQ as [|? ? Q1 Q2]; subst. inversion Hfl as [|? ? F1 F2]; subst.
    destruct (IH Q2 Hg2 Hs2 cu rest Hw2 F2 Er) as [Fr Pr].
    destruct F1 as ([[lx tx] bx] & Ex).
    destruct (Q1 Hg1 Hs1 fuel x lx tx bx sub Hw1 Ex Eu) as [Fs Ps].
    split; simpl.
    + apply Forall_app. split; assumption.
    + rewrite flat_map_app. apply Permutation_app; [|exact Pr].
      assert (Hx : leaves_of c fuel x = lx) by (unfold leaves_of; rewrite Ex; reflexivity).
      rewrite Hx. exact Ps.
Qed.

Lemma mapM_as_map {A} (f : A -> res obj) : forall l r, mapM f l = Ok r ->
  r = map (fun k => match f k with Ok x => x | Err _ => Leaf 0 end) l.
Proof.
  induction l as [|k l IH]; intros r H; simpl in H.
  - injection H as <-. reflexivity.
  - destruct (f k) as [x|] eqn:E; simpl in H; [|discriminate].
    destruct (mapM f l) as [r'|] eqn:E'; simpl in H; [|discriminate]. injection H as <-.
    simpl. rewrite E, <- (IH r' eq_refl). reflexivity.
Qed.

Lemma same_set_perm ks oks : NoDup ks -> keys_same_set ks oks = true -> Permutation ks oks.
Proof.
  intros Hn H. unfold keys_same_set in H. apply andb_true_iff in H as [Hl Hs]. apply Nat.eqb_eq in Hl.
  apply NoDup_Permutation_bis; [exact Hn | rewrite Hl; apply le_n|].
  intros k Hk. unfold keys_subset in Hs. rewrite forallb_forall in Hs. apply key_mem_In. apply Hs. exact Hk.
Qed.

(* the node case, once both sides have been reduced to their children lists *)
Lemma part_node c fuel ts cu cf lss ls tso b0 :
  Forall (Q c) ts -> forallb good ts = true -> forallb (spec_ok c) ts = true ->
  forallb wf_obj cu = true -> Permutation cu cf ->
  tflat_seq (tflat c fuel) cf = Ok (ls, tso, b0) ->
  mapM_rev2 (up_to c) ts cu = Ok lss ->
  Part c (S fuel) (concat lss) ls.
Proof.
  intros HQ Hg Hs Hwf Hp Hseq Hm. apply part_mono.
  destruct (tflat_seq_leaves c fuel cf ls tso b0 Hseq) as [-> Ff].
  assert (Fu : Forall (Flattens c fuel) cu).
  { apply Forall_forall. intros x Hx. rewrite Forall_forall in Ff. apply Ff. eapply Permutation_in; eauto. }
  destruct (part_seq c fuel ts HQ Hg Hs cu lss Hwf Fu Hm) as [F P]. split; [exact F|].
  rewrite P. apply Permutation_flat_map. exact Hp.
Qed.

Lemma perm_children oks cs ks vks cu cf :
  Permutation ks vks -> mapM (child_by_key oks cs) ks = Ok cu -> mapM (child_by_key oks cs) vks = Ok cf ->
  Permutation cu cf.
Proof.
  intros Hp H1 H2. rewrite (mapM_as_map _ _ _ H1), (mapM_as_map _ _ _ H2). apply Permutation_map. exact Hp.
Qed.

Ltac pos_case :=
  match goal with
  | Hu : (do r <- mapM_rev2 (up_to ?c) ?ts ?cs ;; Ok (concat r)) = Ok _,
    Hr : context[tflat_seq (tflat ?c ?fuel) ?cs] |- _ =>
    let lss := fresh "lss" in let Em := fresh "Em" in let E := fresh "E" in
    let ls0 := fresh "ls0" in let tso := fresh "tso" in let b0 := fresh "b0" in
    destruct (mapM_rev2 (up_to c) ts cs) as [lss|] eqn:Em; simpl in Hu; [|discriminate Hu];
    injection Hu as <-;
    destruct (tflat_seq (tflat c fuel) cs) as [[[ls0 tso] b0]|] eqn:E; simpl in Hr; [|discriminate Hr];
    injection Hr as <- <- <-;
    match goal with Hpos : forall lss ls0 tso b0, _ -> _ -> Part _ _ _ _ |- _ => exact (Hpos _ _ _ _ eq_refl eq_refl) end
  end.

Ltac dict_case :=
  match goal with
  | Dn : is_dict_kind _ = true -> _, Hu : match node_keys ?n with Some _ => _ | None => _ end = Ok _,
    Hr : match hdr_keys _ with Some _ => _ | None => _ end = Ok _, IH : Forall (fun t => Q ?c t) ?ts,
    Hwcs : forallb wf_obj ?cs = true |- Part ?c (S ?fuel) _ _ =>
    let nks := fresh "nks" in let Hnk := fresh "Hnk" in let Hlen := fresh "Hlen" in let Hnd := fresh "Hnd" in
    let Hss := fresh "Hss" in let cu := fresh "cu" in let Ecu := fresh "Ecu" in let lss := fresh "lss" in
    let Em := fresh "Em" in let cf := fresh "cf" in let Ecf := fresh "Ecf" in let E := fresh "E" in
    let ls0 := fresh "ls0" in let tso := fresh "tso" in let b0 := fresh "b0" in
    destruct (Dn eq_refl) as (nks & Hnk & Hlen & Hnd); rewrite Hnk in Hu;
    match type of Hu with (if keys_same_set nks ?ks then _ else _) = _ =>
      destruct (keys_same_set nks ks) eqn:Hss; [|discriminate Hu];
      cbn [hdr_keys] in Hr;
      destruct (mapM (child_by_key ks cs) nks) as [cu|] eqn:Ecu; cbn [bind] in Hu; [|discriminate Hu];
      destruct (mapM_rev2 (up_to c) ts cu) as [lss|] eqn:Em; cbn [bind] in Hu; [|discriminate Hu];
      injection Hu as <-;
      match type of Hr with context[mapM (child_by_key ks cs) ?vks] =>
        destruct (mapM (child_by_key ks cs) vks) as [cf|] eqn:Ecf; cbn [bind] in Hr; [|discriminate Hr];
        destruct (tflat_seq (tflat c fuel) cf) as [[[ls0 tso] b0]|] eqn:E; cbn [bind] in Hr; [|discriminate Hr];
        injection Hr as <- <- <-;
        apply (part_node c fuel ts cu cf lss ls0 tso b0); try assumption;
        [ apply forallb_forall; intros x Hx; apply (forallb_In _ _ _ Hwcs);
          apply (proj2 (proj2 (mapM_child_by_key _ _ _ _ Ecu))); exact Hx
        | apply (perm_children ks cs nks vks cu cf); try assumption;
          transitivity ks; [apply same_set_perm; assumption | symmetry; apply visit_keys_perm] ]
      end
    end
  end.

Theorem up_to_partition c : c_pred c = None -> forall t, Q c t.
Proof.
  intros Hp. assert (Hap : forall x, apply_pred c x = false) by (intros; unfold apply_pred; rewrite Hp; reflexivity).
  induction t as [n ts IH] using stree_ind'. intros Hg Hs fuel o ls to b subs Hwf Hr Hu.
  destruct fuel as [|fuel]; [discriminate|].
  destruct (is_leaf_node n) eqn:Ln.
  { unfold is_leaf_node in Ln. apply kind_eqb_eq in Ln. cbn [up_to] in Hu. rewrite Ln in Hu. injection Hu as <-.
    split.
    - constructor; [eexists; exact Hr | constructor].
    - cbn [flat_map]. rewrite app_nil_r. unfold leaves_of. rewrite Hr. apply Permutation_refl. }
  destruct (good_node n ts Hg) as (Ar & Dn & Cn & Nn & _ & _).
  pose proof (good_children n ts Hg) as Gts.
  simpl in Hs. apply andb_true_iff in Hs as [Sn Sts].
  destruct o as [id|h cs].
  { exfalso. apply (up_to_leaf_obj c n ts id Ln). eexists; exact Hu. }
  destruct (get_kind c (Node h cs)) as [k cu0] eqn:Ek.
  cbn [tflat] in Hr. rewrite Hap, Ek in Hr.
  simpl in Hwf. apply andb_true_iff in Hwf as [Hwh Hwcs].
  cbn [up_to] in Hu.
  assert (Hpos : forall lss ls0 tso b0, mapM_rev2 (up_to c) ts cs = Ok lss ->
            tflat_seq (tflat c fuel) cs = Ok (ls0, tso, b0) -> Part c (S fuel) (concat lss) ls0).
  { intros lss ls0 tso b0 Hm Hseq. eapply part_node; eauto. }
  destruct (nkind n) eqn:En; try (exfalso; unfold is_leaf_node in Ln; rewrite En in Ln; discriminate Ln); destruct h; simpl in Hu; try discriminate Hu; simpl in Ek.
  all: repeat match type of Hu with (if ?bb then _ else _) = _ => destruct bb eqn:?; try discriminate Hu end.
  all: try (injection Ek as <- <-).
  all: try solve [pos_case].
  all: try solve [dict_case].
  - (* custom *)
    apply negb_false_iff in Heqb0.
    destruct (ncustom n) as [r|] eqn:Ecu; [|discriminate Sn].
    destruct (lookup_reg c cls) as [r'|] eqn:El; [|discriminate Heqb0].
    injection Ek as <- <-.
    destruct eb; try discriminate Hu.
    all: repeat match type of Hu with (if ?bb then _ else _) = _ => destruct bb eqn:?; try discriminate Hu end.
    all: destruct (mapM_rev2 (up_to c) ts cs) as [lss|] eqn:Em; simpl in Hu; [|discriminate Hu]; injection Hu as <-.
    all: destruct (tflat_seq (tflat c fuel) cs) as [[[ls0 tso] b0]|] eqn:E; simpl in Hr; [|discriminate Hr].
    all: repeat match type of Hr with (if ?bb then _ else _) = _ => destruct bb eqn:?; try discriminate Hr end.
    all: injection Hr as <- <- <-; exact (Hpos _ _ _ _ eq_refl eq_refl).
  - (* None *)
    apply negb_true_iff in Sn. rewrite Sn in Ek. injection Ek as <- <-. injection Hu as <-. injection Hr as <- _ _.
    split; simpl; constructor.
Qed.
