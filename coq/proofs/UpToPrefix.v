(* UpToPrefix.v — two of the three prefix deciders agree, for every treespec and every tree (C07):
   FlattenUpTo(t, tree) succeeds  <->  IsPrefix(t, treespec of tree). *)
From OptreeModel Require Import Base Tree Flatten Unflatten Spec Construct.
From OptreeProofs Require Import BaseProofs RoundTrip SpecProofs EqProofs OrderProofs PrefixOrder JoinOrder FlattenGood FaultProofs ConstructProofs UpToProofs.
From Coq Require Import Permutation.

Definition Succeeds {A} (r : res A) : Prop := exists x, r = Ok x.

(* mapM_rev2 succeeds iff the lists are as long and every pair succeeds *)
Lemma mapM_rev2_succeeds {A B C} (f : A -> B -> res C) : forall l l',
  Succeeds (mapM_rev2 f l l') <-> Forall2 (fun x y => Succeeds (f x y)) l l'.
Proof.
  induction l as [|x l IH]; intros [|y l']; simpl.
  - split; [constructor | intros _; eexists; reflexivity].
  - split; [intros (r & H); discriminate | intros H; inversion H].
  - split; [intros (r & H); discriminate | intros H; inversion H].
  - split.
    + intros (r & H). destruct (mapM_rev2 f l l') as [rest|] eqn:E; simpl in H; [|discriminate].
      destruct (f x y) as [v|] eqn:Ef; simpl in H; [|discriminate].
      constructor; [eexists; exact Ef | apply IH; eexists; exact E].
    + intros H. inversion H as [|? ? ? ? (v & Hv) Hl]; subst. apply IH in Hl as (rest & ->). simpl. rewrite Hv. simpl. eexists; reflexivity.
Qed.

(* the treespec of each child, in the order tflat_seq visits them *)
Lemma tflat_seq_Forall2 (f : obj -> res tres) : forall l ls ts b,
  tflat_seq f l = Ok (ls, ts, b) -> Forall2 (fun x t => exists lx bx, f x = Ok (lx, t, bx)) l ts.
Proof.
  induction l as [|x l IH]; intros ls ts b H; simpl in H.
  - injection H as <- <- <-. constructor.
  - destruct (f x) as [[[ls1 t1] b1]|] eqn:E1; simpl in H; [|discriminate].
    destruct (tflat_seq f l) as [[[ls2 ts2] b2]|] eqn:E2; simpl in H; [|discriminate].
    injection H as <- <- <-. constructor; [eauto | eapply IH; eauto].
Qed.

(* what a real treespec of configuration c looks like, beyond `good`: None nodes only when None is not
   a leaf, custom nodes carry their registration *)
Fixpoint spec_ok (c : cfg) (t : stree) : bool :=
  match t with
  | T n cs =>
    (match nkind n with
     | KdNone => negb (c_nil c)
     | KdCustom => match ncustom n with Some _ => true | None => false end
     | _ => true
     end) && forallb (spec_ok c) cs
  end.

Definition Agree (c : cfg) (t : stree) : Prop :=
  good t = true -> spec_ok c t = true ->
  forall fuel o ls to b, wf_obj o = true -> tflat c fuel o = Ok (ls, to, b) ->
  (Succeeds (up_to c t o) <-> P t to).

Lemma Forall2_iff {A B} (R1 R2 : A -> B -> Prop) l l' :
  Forall2 (fun x y => R1 x y <-> R2 x y) l l' -> (Forall2 R1 l l' <-> Forall2 R2 l l').
Proof.
  induction 1 as [|x y l l' Hxy _ IH]; [split; constructor|].
  split; intros H; inversion H; subst; constructor; tauto.
Qed.

Lemma Forall2_length' {A B} (R : A -> B -> Prop) l l' : Forall2 R l l' -> length l = length l'.
Proof. induction 1; simpl; auto. Qed.

(* the children part: positional *)
Lemma zip_iff c fuel : forall cs tso,
  Forall2 (fun x u => exists lx bx, tflat c fuel x = Ok (lx, u, bx)) cs tso ->
  forall ts, Forall (Agree c) ts -> forallb good ts = true -> forallb (spec_ok c) ts = true ->
  forallb wf_obj cs = true ->
  (Forall2 (fun t x => Succeeds (up_to c t x)) ts cs <-> Forall2 P ts tso).
Proof.
  induction 1 as [|x u cs tso (lx & bx & Hx) _ IH]; intros ts Ha Hg Hs Hw.
  - destruct ts; split; intros H; inversion H; constructor.
  - destruct ts as [|t ts]; [split; intros H; inversion H|].
    inversion Ha as [|? ? Ht Ha']; subst. simpl in Hg, Hs, Hw.
    apply andb_true_iff in Hg as [Gt Gts]. apply andb_true_iff in Hs as [St Sts]. apply andb_true_iff in Hw as [Wx Wcs].
    pose proof (Ht Gt St fuel x lx u bx Wx Hx) as Hhead.
    pose proof (IH ts Ha' Gts Sts Wcs) as Htail.
    split; intros H; inversion H; subst; constructor; tauto.
Qed.

Lemma children_iff c fuel ts cs ls tso b :
  Forall (Agree c) ts -> forallb good ts = true -> forallb (spec_ok c) ts = true ->
  forallb wf_obj cs = true -> tflat_seq (tflat c fuel) cs = Ok (ls, tso, b) ->
  (Succeeds (mapM_rev2 (up_to c) ts cs) <-> fst (prefix_list ts tso) = true).
Proof.
  intros Ha Hg Hs Hw Hseq. rewrite mapM_rev2_succeeds, prefix_list_Forall2.
  apply (zip_iff c fuel cs tso (tflat_seq_Forall2 _ _ _ _ _ Hseq) ts Ha Hg Hs Hw).
Qed.

(* ---------- mismatching node kinds: both deciders say no ---------- *)
Definition kinds_compat (a b : kind) : bool := kind_eqb a b || (is_dict_kind a && is_dict_kind b).

Lemma pno_incompat a u : kinds_compat (nkind a) (nkind u) = false -> prefix_node_ok a u = false.
Proof.
  unfold kinds_compat, prefix_node_ok. intros H. apply orb_false_iff in H as [H1 H2].
  destruct (nkind a) eqn:Ea; simpl in H2 |- *; rewrite ?H1, ?H2, ?andb_false_r; try reflexivity;
    destruct (is_dict_kind (nkind u)); try discriminate H2; rewrite ?andb_false_r; reflexivity.
Qed.

Lemma P_incompat n ts nu cu :
  is_leaf_node n = false -> kinds_compat (nkind n) (nkind nu) = false -> ~ P (T n ts) (T nu cu).
Proof.
  intros Ln Hk H. unfold P in H. rewrite st_prefix_unfold, Ln, (pno_incompat n nu Hk) in H. discriminate H.
Qed.

Definition hdr_kind (h : hdr) : kind :=
  match h with
  | HNone => KdNone | HTuple => KdTuple | HList => KdList | HDict _ => KdDict | HODict _ => KdODict
  | HDDict _ _ => KdDDict | HDeque _ => KdDeque | HNamed _ => KdNamed | HStruct _ => KdStruct
  | HCustom _ _ _ => KdCustom
  end.

Lemma up_to_incompat c n ts h cs :
  is_leaf_node n = false -> kinds_compat (nkind n) (hdr_kind h) = false ->
  ~ Succeeds (up_to c (T n ts) (Node h cs)).
Proof.
  intros Ln Hk (x & Hx). unfold is_leaf_node in Ln. cbn [up_to] in Hx.
  destruct (nkind n) eqn:En; try discriminate Ln; destruct h; try discriminate Hk; cbn in Hx; try discriminate Hx;
    try (destruct (ndat n); discriminate Hx);
    try (destruct (Nat.eqb (length cs) (narity n)); cbn in Hx; discriminate Hx).
Qed.

Lemma up_to_leaf_obj c n ts id : is_leaf_node n = false -> ~ Succeeds (up_to c (T n ts) (Leaf id)).
Proof.
  intros Ln (x & Hx). unfold is_leaf_node in Ln. cbn [up_to] in Hx.
  destruct (nkind n); try discriminate Ln; cbn in Hx; discriminate Hx.
Qed.

Lemma succeeds_bind_concat {A} (m : res (list (list A))) :
  Succeeds (do r <- m ;; Ok (concat r)) <-> Succeeds m.
Proof. destruct m; simpl; split; intros (x & H); try discriminate; eexists; reflexivity. Qed.

(* the shape shared by all matching cases *)
Lemma agree_shape c fuel n ts cs' ls0 tso b0 nto o (cond : bool) :
  is_leaf_node n = false ->
  Forall (Agree c) ts -> forallb good ts = true -> forallb (spec_ok c) ts = true ->
  forallb wf_obj cs' = true -> tflat_seq (tflat c fuel) cs' = Ok (ls0, tso, b0) ->
  prefix_node_ok n nto = cond -> (cond = true -> aligned n nto tso = Some tso) ->
  (cond = true -> up_to c (T n ts) o = (do r <- mapM_rev2 (up_to c) ts cs' ;; Ok (concat r))) ->
  (cond = false -> ~ Succeeds (up_to c (T n ts) o)) ->
  (Succeeds (up_to c (T n ts) o) <-> P (T n ts) (T nto tso)).
Proof.
  intros Ln Ha Hg Hs Hw Hseq Hpn Hal Hup Hno.
  unfold P. rewrite st_prefix_unfold, Ln, Hpn. destruct cond; cbn [negb].
  - rewrite (Hal eq_refl), (Hup eq_refl), succeeds_bind_concat.
    apply (children_iff c fuel ts cs' ls0 tso b0 Ha Hg Hs Hw Hseq).
  - split; [intros H; exfalso; exact (Hno eq_refl H) | discriminate].
Qed.

Lemma get_kind_hdr_kind c h cs k cu : get_kind c (Node h cs) = (k, cu) -> k = KdLeaf \/ k = hdr_kind h.
Proof.
  destruct h; simpl; try (intros [= <- <-]; right; reflexivity).
  - destruct (c_nil c); intros [= <- <-]; auto.
  - destruct (lookup_reg c cls); intros [= <- <-]; auto.
Qed.

Lemma recount_pno n nd ts' :
  prefix_node_ok n (recount nd ts') =
  Nat.eqb (narity n) (length ts') && opt_reg_eqb (ncustom n) (ncustom nd) &&
  match nkind n with
  | KdNone | KdTuple | KdList | KdDeque => kind_eqb (nkind n) (nkind nd)
  | KdDict | KdODict | KdDDict =>
    is_dict_kind (nkind nd) &&
    match node_keys n, node_keys nd with
    | Some ka, Some kb => keys_same_set ka kb
    | _, _ => false
    end
  | KdNamed | KdStruct | KdCustom => kind_eqb (nkind n) (nkind nd) && ndata_eqb (ndat n) (ndat nd)
  | KdLeaf => false
  end.
Proof. reflexivity. Qed.

(* general shape: the children of the tree the node-level checks select (cs'), their treespecs (tso'),
   and the children of `to` re-aligned to t's order *)
Lemma agree_shape' c fuel n ts cs' tso' cto nto o (cond : bool) :
  is_leaf_node n = false ->
  Forall (Agree c) ts -> forallb good ts = true -> forallb (spec_ok c) ts = true ->
  forallb wf_obj cs' = true ->
  Forall2 (fun x u => exists lx bx, tflat c fuel x = Ok (lx, u, bx)) cs' tso' ->
  prefix_node_ok n nto = cond -> (cond = true -> aligned n nto cto = Some tso') ->
  (cond = true -> up_to c (T n ts) o = (do r <- mapM_rev2 (up_to c) ts cs' ;; Ok (concat r))) ->
  (cond = false -> ~ Succeeds (up_to c (T n ts) o)) ->
  (Succeeds (up_to c (T n ts) o) <-> P (T n ts) (T nto cto)).
Proof.
  intros Ln Ha Hg Hs Hw Hf Hpn Hal Hup Hno.
  unfold P. rewrite st_prefix_unfold, Ln, Hpn. destruct cond; cbn [negb].
  - rewrite (Hal eq_refl), (Hup eq_refl), succeeds_bind_concat, mapM_rev2_succeeds, prefix_list_Forall2.
    apply (zip_iff c fuel cs' tso' Hf ts Ha Hg Hs Hw).
  - split; [intros H; exfalso; exact (Hno eq_refl H) | discriminate].
Qed.

Lemma forallb_ext' {A} (f g : A -> bool) l : (forall x, f x = g x) -> forallb f l = forallb g l.
Proof. intros H. induction l; simpl; [reflexivity | rewrite H, IHl; reflexivity]. Qed.

Lemma keys_same_set_perm_r ks a b : Permutation a b -> keys_same_set ks a = keys_same_set ks b.
Proof.
  intros Hp. unfold keys_same_set, keys_subset. rewrite (Permutation_length Hp). f_equal.
  apply forallb_ext'. intros k.
  destruct (key_mem k a) eqn:Ea, (key_mem k b) eqn:Eb; try reflexivity.
  - apply key_mem_In in Ea. apply (Permutation_in _ Hp) in Ea. apply key_mem_In in Ea. congruence.
  - apply key_mem_In in Eb. apply (Permutation_in _ (Permutation_sym Hp)) in Eb. apply key_mem_In in Eb. congruence.
Qed.

(* treespecs of the children fetched by key: from the visiting order to any key list *)
Lemma trees_by_key c fuel oks cs vks chv tso :
  NoDup vks ->
  mapM (child_by_key oks cs) vks = Ok chv ->
  Forall2 (fun x u => exists lx bx, tflat c fuel x = Ok (lx, u, bx)) chv tso ->
  forall ks ch, (forall k, In k ks -> In k vks) ->
  mapM (child_by_key oks cs) ks = Ok ch ->
  exists tso', omapM (child_at_key vks tso) ks = Some tso' /\
               Forall2 (fun x u => exists lx bx, tflat c fuel x = Ok (lx, u, bx)) ch tso'.
Proof.
  intros Nv Hv Hf.
  (* pointwise: for a key of vks, its child and the child's treespec *)
  assert (Hpt : forall k x, In k vks -> child_by_key oks cs k = Ok x ->
                exists u, child_at_key vks tso k = Some u /\ exists lx bx, tflat c fuel x = Ok (lx, u, bx)).
  { clear -Nv Hv Hf. revert chv tso Hv Hf. induction vks as [|k0 vks IH]; intros chv tso Hv Hf k x Hin Hx; [contradiction|].
    simpl in Hv. destruct (child_by_key oks cs k0) as [x0|] eqn:E0; simpl in Hv; [|discriminate].
    destruct (mapM (child_by_key oks cs) vks) as [chv'|] eqn:Em; simpl in Hv; [|discriminate]. injection Hv as <-.
    inversion Hf as [|? u0 ? tso' Hx0 Hf']; subst. inversion Nv as [|? ? Hnin Nv']; subst.
    unfold child_at_key. simpl. destruct (key_eqb k k0) eqn:E.
    - apply key_eqb_eq in E. subst k0. rewrite E0 in Hx. injection Hx as <-. eauto.
    - apply key_eqb_neq in E. destruct Hin as [->|Hin]; [contradiction|].
      apply (IH Nv' chv' tso' eq_refl Hf' k x Hin Hx). }
  induction ks as [|k ks IH]; intros ch Hsub Hm; simpl in Hm.
  - injection Hm as <-. exists []. split; [reflexivity | constructor].
  - destruct (child_by_key oks cs k) as [x|] eqn:Ex; simpl in Hm; [|discriminate].
    destruct (mapM (child_by_key oks cs) ks) as [ch'|] eqn:Em; simpl in Hm; [|discriminate]. injection Hm as <-.
    destruct (Hpt k x (Hsub k (or_introl eq_refl)) Ex) as (u & Hu & Hx).
    destruct (IH ch' (fun k' H' => Hsub k' (or_intror H')) eq_refl) as (tso' & Ht & Hf').
    exists (u :: tso'). simpl. rewrite Hu, Ht. split; [reflexivity | constructor; assumption].
Qed.

Lemma reg_eqb_sym a b : reg_eqb a b = reg_eqb b a.
Proof.
  unfold reg_eqb. rewrite (Z.eqb_sym (rcls a)), (Z.eqb_sym (rns a)), (Z.eqb_sym (rid a)), (Z.eqb_sym (rpet a)). reflexivity.
Qed.

Lemma compat_leaf_r n : is_leaf_node n = false -> kinds_compat (nkind n) KdLeaf = false.
Proof. unfold is_leaf_node, kinds_compat. intros ->. destruct (nkind n); reflexivity. Qed.

Lemma tflat_root_kind c fuel h cs ls to b k cu :
  apply_pred c (Node h cs) = false -> get_kind c (Node h cs) = (k, cu) ->
  tflat c (S fuel) (Node h cs) = Ok (ls, to, b) -> nkind (st_node to) = k.
Proof.
  intros Hp Ek Hr. cbn [tflat] in Hr. rewrite Hp, Ek in Hr.
  assert (Hfin : forall vks found r, (let '(ls0, ts, b0) := r in
            Ok (ls0, mkT (node_of k cu h vks (length ts)) ts, b0 || found)) = Ok (ls, to, b) -> nkind (st_node to) = k).
  { intros vks found [[ls0 ts] b0] H. injection H as <- <- <-. unfold mkT, recount. cbn [st_node nkind]. apply node_of_kind. }
  destruct k; try (injection Hr as <- <- <-; reflexivity);
    try (destruct (tflat_seq (tflat c fuel) cs) as [r|]; simpl in Hr; [|discriminate]; exact (Hfin [] false _ Hr)).
  - destruct h; try discriminate Hr. destruct eb as [| |es0|m0|e0]; try discriminate Hr.
    + destruct (tflat_seq (tflat c fuel) cs) as [r|]; simpl in Hr; [|discriminate]. exact (Hfin [] true _ Hr).
    + destruct (tflat_seq (tflat c fuel) cs) as [r|]; simpl in Hr; [|discriminate]. exact (Hfin [] true _ Hr).
    + destruct (tflat_seq (tflat c fuel) cs) as [r|]; simpl in Hr; [|discriminate].
      destruct (Nat.eqb (length es0) (length cs)); [exact (Hfin [] true _ Hr) | discriminate].
  - destruct (hdr_keys h); [|discriminate]. cbn zeta in Hr.
    destruct (mapM _ _); simpl in Hr; [|discriminate]. destruct (tflat_seq _ _) as [r|]; simpl in Hr; [|discriminate]. exact (Hfin _ _ _ Hr).
  - destruct (hdr_keys h); [|discriminate]. cbn zeta in Hr.
    destruct (mapM _ _); simpl in Hr; [|discriminate]. destruct (tflat_seq _ _) as [r|]; simpl in Hr; [|discriminate]. exact (Hfin _ _ _ Hr).
  - destruct (hdr_keys h); [|discriminate]. cbn zeta in Hr.
    destruct (mapM _ _); simpl in Hr; [|discriminate]. destruct (tflat_seq _ _) as [r|]; simpl in Hr; [|discriminate]. exact (Hfin _ _ _ Hr).
Qed.

Lemma tflat_seq_length (f : obj -> res tres) l ls ts b : tflat_seq f l = Ok (ls, ts, b) -> length ts = length l.
Proof. intros H. symmetry. apply (Forall2_length' _ _ _ (tflat_seq_Forall2 f l ls ts b H)). Qed.

Lemma aligned_nondict n nto cto : is_dict_kind (nkind n) = false -> aligned n nto cto = Some cto.
Proof. unfold aligned. intros ->. reflexivity. Qed.

Lemma agree_dict c fuel n ts h cs oks ls to b :
  c_pred c = None ->
  is_leaf_node n = false -> good (T n ts) = true ->
  Forall (Agree c) ts -> forallb (spec_ok c) ts = true ->
  wf_hdr h (length cs) = true -> forallb wf_obj cs = true ->
  hdr_keys h = Some oks -> is_dict_kind (nkind n) = true ->
  tflat c (S fuel) (Node h cs) = Ok (ls, to, b) ->
  (Succeeds (up_to c (T n ts) (Node h cs)) <-> P (T n ts) to).
Proof.
  intros Hp Ln Hg IH Sts Hwh Hwcs Hk Dn Hr.
  assert (Hap : forall x, apply_pred c x = false) by (intros; unfold apply_pred; rewrite Hp; reflexivity).
  destruct (good_node n ts Hg) as (Ar & Dn' & Cn & _ & _ & _). pose proof (good_children n ts Hg) as Gts.
  destruct (Dn' Dn) as (ks & Hks & Lks & Nks).
  assert (Hw : length oks = length cs /\ NoDup oks).
  { destruct h; simpl in Hk; try discriminate; injection Hk as ->; simpl in Hwh;
      apply andb_true_iff in Hwh as [Hl0 Hn]; apply Nat.eqb_eq in Hl0; apply keys_nodup_NoDup in Hn; auto. }
  destruct Hw as [Loks Noks].
  assert (Ek : get_kind c (Node h cs) = (hdr_kind h, None) /\ is_dict_kind (hdr_kind h) = true).
  { destruct h; simpl in Hk; try discriminate; auto. }
  destruct Ek as [Ek Dh].
  cbn [tflat] in Hr. rewrite Hap, Ek in Hr.
  set (vks := visit_keys c (hdr_kind h) oks) in *.
  assert (Hr' : (do ch <- mapM (child_by_key oks cs) vks ;; do r <- tflat_seq (tflat c fuel) ch ;;
                 (let '(ls0, tso, b0) := r in Ok (ls0, mkT (node_of (hdr_kind h) None h vks (length tso)) tso, b0 || false))) = Ok (ls, to, b)).
  { destruct h; simpl in Hk; try discriminate; injection Hk as ->; exact Hr. }
  clear Hr.
  destruct (mapM (child_by_key oks cs) vks) as [chv|] eqn:Emv; simpl in Hr'; [|discriminate].
  destruct (tflat_seq (tflat c fuel) chv) as [[[ls0 tso] b0]|] eqn:Hseq; simpl in Hr'; [|discriminate].
  injection Hr' as <- <- <-.
  pose proof (visit_keys_perm c (hdr_kind h) oks) as Hperm. fold vks in Hperm.
  assert (Nv : NoDup vks) by (eapply Permutation_NoDup; [apply Permutation_sym; exact Hperm | exact Noks]).
  destruct (mapM_child_by_key _ _ _ _ Emv) as (Lchv & _ & Hsubv).
  pose proof (tflat_seq_length _ _ _ _ _ Hseq) as Ltso.
  assert (Hup : up_to c (T n ts) (Node h cs) =
                if keys_same_set ks oks
                then do ch <- mapM (child_by_key oks cs) ks ;; do r <- mapM_rev2 (up_to c) ts ch ;; Ok (concat r)
                else Err ValueError).
  { cbn [up_to]. rewrite Hk, Hks. destruct (nkind n); try discriminate Dn; reflexivity. }
  assert (Hnk : node_keys (node_of (hdr_kind h) None h vks (length tso)) = Some vks).
  { unfold node_keys. destruct h; simpl in Dh; try discriminate Dh; reflexivity. }
  assert (Hnkr : node_keys (recount (node_of (hdr_kind h) None h vks (length tso)) tso) = Some vks) by exact Hnk.
  assert (Hpn : prefix_node_ok n (recount (node_of (hdr_kind h) None h vks (length tso)) tso) =
                Nat.eqb (narity n) (length tso) && keys_same_set ks oks).
  { rewrite recount_pno, Hks, Hnk, node_of_kind, Dh, (keys_same_set_perm_r ks vks oks Hperm).
    assert (Hcn : ncustom n = None) by (apply Cn; intros E; rewrite E in Dn; discriminate).
    assert (Hcd : ncustom (node_of (hdr_kind h) None h vks (length tso)) = None)
      by (destruct h; simpl in Dh; try discriminate Dh; reflexivity).
    rewrite Hcn, Hcd. cbn. rewrite andb_true_r. destruct (nkind n); try discriminate Dn; reflexivity. }
  destruct (keys_same_set ks oks) eqn:Hss.
  - (* same key sets *)
    assert (Hlen : length ks = length oks).
    { unfold keys_same_set in Hss. apply andb_true_iff in Hss as [H _]. apply Nat.eqb_eq. exact H. }
    assert (Hsub : forall k, In k ks -> In k oks).
    { unfold keys_same_set, keys_subset in Hss. apply andb_true_iff in Hss as [_ H]. rewrite forallb_forall in H.
      intros k Hk0. apply key_mem_In. apply H. exact Hk0. }
    destruct (mapM_child_by_key_ok oks cs ks Noks Loks Hsub) as (ch & Ech).
    destruct (mapM_child_by_key _ _ _ _ Ech) as (_ & _ & Hsubc).
    destruct (trees_by_key c fuel oks cs vks chv tso Nv Emv (tflat_seq_Forall2 _ _ _ _ _ Hseq) ks ch) as (tso' & Hal & Hf').
    { intros k Hk0. eapply Permutation_in; [apply Permutation_sym; exact Hperm | apply Hsub; exact Hk0]. }
    { exact Ech. }
    unfold mkT.
    apply (agree_shape' c fuel n ts ch tso' tso _ (Node h cs) true Ln IH Gts Sts).
    + apply forallb_forall. intros x Hx. eapply forallb_In; [exact Hwcs | apply Hsubc; exact Hx].
    + exact Hf'.
    + rewrite Hpn, andb_true_r. apply Nat.eqb_eq. rewrite Ltso, Lchv, (Permutation_length Hperm). congruence.
    + intros _. unfold aligned. rewrite Dn, Hks, Hnkr. exact Hal.
    + intros _. rewrite Hup, Ech. reflexivity.
    + discriminate.
  - (* different key sets: both fail *)
    split; intros H; exfalso.
    + rewrite Hup in H. destruct H as (x & Hx). discriminate Hx.
    + unfold P, mkT in H. rewrite st_prefix_unfold, Ln, Hpn, andb_false_r in H. discriminate H.
Qed.

Theorem up_to_iff_prefix c : c_pred c = None -> forall t, Agree c t.
Proof.
  intros Hp. assert (Hap : forall x, apply_pred c x = false) by (intros; unfold apply_pred; rewrite Hp; reflexivity).
  induction t as [n ts IH] using stree_ind'. intros Hg Hs fuel o ls to b Hwf Hr.
  destruct fuel as [|fuel]; [discriminate|].
  destruct (is_leaf_node n) eqn:Ln.
  { split; intros _; [apply P_leaf; exact Ln|]. unfold is_leaf_node in Ln. apply kind_eqb_eq in Ln.
    cbn [up_to]. rewrite Ln. eexists; reflexivity. }
  destruct (good_node n ts Hg) as (Ar & Dn & Cn & Nn & _ & _).
  pose proof (good_children n ts Hg) as Gts.
  simpl in Hs. apply andb_true_iff in Hs as [Sn Sts].
  destruct o as [id|h cs].
  { cbn [tflat] in Hr. rewrite Hap in Hr. destruct (get_kind c (Leaf id)). injection Hr as <- <- <-.
    split; intros H; exfalso; [exact (up_to_leaf_obj c n ts id Ln H)|].
    revert H. apply P_incompat; [exact Ln | apply compat_leaf_r; exact Ln]. }
  destruct (get_kind c (Node h cs)) as [k cu] eqn:Ek.
  pose proof (tflat_root_kind c fuel h cs ls to b k cu (Hap _) Ek Hr) as Hroot.
  simpl in Hwf. apply andb_true_iff in Hwf as [Hwh Hwcs].
  destruct (kinds_compat (nkind n) (hdr_kind h)) eqn:Hc.
  2:{ (* incompatible headers: both fail *)
    split; intros H; exfalso; [exact (up_to_incompat c n ts h cs Ln Hc H)|].
    destruct to as [nto cto]. revert H. apply P_incompat; [exact Ln|]. cbn [st_node] in Hroot. rewrite Hroot.
    destruct (get_kind_hdr_kind c h cs k cu Ek) as [->| ->]; [apply compat_leaf_r; exact Ln | exact Hc]. }
  pose proof Hr as Hr0. cbn [tflat] in Hr. rewrite Hap, Ek in Hr.
  (* the children of a positional node *)
  assert (Hposit : forall kk, nkind n = kk -> is_dict_kind kk = false ->
            forall ls0 tso b0 (cond : bool) nd,
            tflat_seq (tflat c fuel) cs = Ok (ls0, tso, b0) -> to = mkT nd tso ->
            prefix_node_ok n (recount nd tso) = cond ->
            (cond = true -> up_to c (T n ts) (Node h cs) = (do r <- mapM_rev2 (up_to c) ts cs ;; Ok (concat r))) ->
            (cond = false -> ~ Succeeds (up_to c (T n ts) (Node h cs))) ->
            (Succeeds (up_to c (T n ts) (Node h cs)) <-> P (T n ts) to)).
  { intros kk Hkk Hd ls0 tso b0 cond nd Hseq -> Hpn Hup Hno. unfold mkT.
    apply (agree_shape c fuel n ts cs ls0 tso b0 (recount nd tso) (Node h cs) cond Ln IH Gts Sts Hwcs Hseq Hpn); auto.
    intros _. apply aligned_nondict. rewrite Hkk. exact Hd. }
  destruct h; destruct (nkind n) eqn:En; try discriminate Hc.
  - (* None / None *)
    rewrite negb_true_iff in Sn. simpl in Ek. rewrite Sn in Ek. injection Ek as <- <-. injection Hr as <- <- <-.
    rewrite (Nn eq_refl) in *. simpl in Hwh. apply Nat.eqb_eq in Hwh. destruct cs; [|discriminate].
    split; intros _; [|cbn [up_to]; rewrite En; eexists; reflexivity].
    unfold P, mkT. rewrite st_prefix_unfold, Ln, recount_pno, En, Ar, (Cn ltac:(discriminate)). unfold aligned. rewrite En. cbn. reflexivity.
  - (* tuple *)
    simpl in Ek. injection Ek as <- <-.
    destruct (tflat_seq (tflat c fuel) cs) as [[[ls0 tso] b0]|] eqn:Hseq; simpl in Hr; [|discriminate]. injection Hr as <- <- <-.
    pose proof (tflat_seq_length _ _ _ _ _ Hseq) as Hl.
    apply (Hposit KdTuple eq_refl eq_refl ls0 tso b0 (Nat.eqb (length cs) (narity n)) _ eq_refl eq_refl).
    + rewrite recount_pno, En, (Cn ltac:(discriminate)), Hl. cbn. rewrite !andb_true_r. apply Nat.eqb_sym.
    + intros Hcd. cbn [up_to]. rewrite En. cbn. rewrite Hcd. reflexivity.
    + intros Hcd (x & Hx). cbn [up_to] in Hx. rewrite En in Hx. cbn in Hx. rewrite Hcd in Hx. discriminate Hx.
  - (* list *)
    simpl in Ek. injection Ek as <- <-.
    destruct (tflat_seq (tflat c fuel) cs) as [[[ls0 tso] b0]|] eqn:Hseq; simpl in Hr; [|discriminate]. injection Hr as <- <- <-.
    pose proof (tflat_seq_length _ _ _ _ _ Hseq) as Hl.
    apply (Hposit KdList eq_refl eq_refl ls0 tso b0 (Nat.eqb (length cs) (narity n)) _ eq_refl eq_refl).
    + rewrite recount_pno, En, (Cn ltac:(discriminate)), Hl. cbn. rewrite !andb_true_r. apply Nat.eqb_sym.
    + intros Hcd. cbn [up_to]. rewrite En. cbn. rewrite Hcd. reflexivity.
    + intros Hcd (x & Hx). cbn [up_to] in Hx. rewrite En in Hx. cbn in Hx. rewrite Hcd in Hx. discriminate Hx.
  - apply (agree_dict c fuel n ts _ cs _ ls to b Hp Ln Hg IH Sts Hwh Hwcs eq_refl ltac:(rewrite En; reflexivity) Hr0).
  - apply (agree_dict c fuel n ts _ cs _ ls to b Hp Ln Hg IH Sts Hwh Hwcs eq_refl ltac:(rewrite En; reflexivity) Hr0).
  - apply (agree_dict c fuel n ts _ cs _ ls to b Hp Ln Hg IH Sts Hwh Hwcs eq_refl ltac:(rewrite En; reflexivity) Hr0).
  - apply (agree_dict c fuel n ts _ cs _ ls to b Hp Ln Hg IH Sts Hwh Hwcs eq_refl ltac:(rewrite En; reflexivity) Hr0).
  - apply (agree_dict c fuel n ts _ cs _ ls to b Hp Ln Hg IH Sts Hwh Hwcs eq_refl ltac:(rewrite En; reflexivity) Hr0).
  - apply (agree_dict c fuel n ts _ cs _ ls to b Hp Ln Hg IH Sts Hwh Hwcs eq_refl ltac:(rewrite En; reflexivity) Hr0).
  - apply (agree_dict c fuel n ts _ cs _ ls to b Hp Ln Hg IH Sts Hwh Hwcs eq_refl ltac:(rewrite En; reflexivity) Hr0).
  - apply (agree_dict c fuel n ts _ cs _ ls to b Hp Ln Hg IH Sts Hwh Hwcs eq_refl ltac:(rewrite En; reflexivity) Hr0).
  - apply (agree_dict c fuel n ts _ cs _ ls to b Hp Ln Hg IH Sts Hwh Hwcs eq_refl ltac:(rewrite En; reflexivity) Hr0).
  - (* deque *)
    simpl in Ek. injection Ek as <- <-.
    destruct (tflat_seq (tflat c fuel) cs) as [[[ls0 tso] b0]|] eqn:Hseq; simpl in Hr; [|discriminate]. injection Hr as <- <- <-.
    pose proof (tflat_seq_length _ _ _ _ _ Hseq) as Hl.
    apply (Hposit KdDeque eq_refl eq_refl ls0 tso b0 (Nat.eqb (length cs) (narity n)) _ eq_refl eq_refl).
    + rewrite recount_pno, En, (Cn ltac:(discriminate)), Hl. cbn. rewrite !andb_true_r. apply Nat.eqb_sym.
    + intros Hcd. cbn [up_to]. rewrite En. cbn. rewrite Hcd. reflexivity.
    + intros Hcd (x & Hx). cbn [up_to] in Hx. rewrite En in Hx. cbn in Hx. rewrite Hcd in Hx. discriminate Hx.
  - (* KdNamed *)
    simpl in Ek. injection Ek as <- <-.
    destruct (tflat_seq (tflat c fuel) cs) as [[[ls0 tso] b0]|] eqn:Hseq; simpl in Hr; [|discriminate]. injection Hr as <- <- <-.
    pose proof (tflat_seq_length _ _ _ _ _ Hseq) as Hl.
    apply (Hposit KdNamed eq_refl eq_refl ls0 tso b0 (Nat.eqb (length cs) (narity n) && ndata_eqb (ndat n) (DClass cls)) _ eq_refl eq_refl).
    + rewrite recount_pno, En, (Cn ltac:(discriminate)), Hl. cbn. rewrite (Nat.eqb_sym (narity n)), andb_true_r. reflexivity.
    + intros Hcd. apply andb_true_iff in Hcd as [H1 H2]. cbn [up_to]. rewrite En. cbn. rewrite H1. cbn.
      destruct (ndat n); try discriminate H2. simpl in H2. rewrite Z.eqb_sym, H2. reflexivity.
    + intros Hcd (x & Hx). cbn [up_to] in Hx. rewrite En in Hx. cbn in Hx.
      destruct (Nat.eqb (length cs) (narity n)); cbn in Hx, Hcd; [|discriminate Hx].
      destruct (ndat n); try discriminate Hx. simpl in Hcd. rewrite Z.eqb_sym, Hcd in Hx. discriminate Hx.
  - (* KdStruct *)
    simpl in Ek. injection Ek as <- <-.
    destruct (tflat_seq (tflat c fuel) cs) as [[[ls0 tso] b0]|] eqn:Hseq; simpl in Hr; [|discriminate]. injection Hr as <- <- <-.
    pose proof (tflat_seq_length _ _ _ _ _ Hseq) as Hl.
    apply (Hposit KdStruct eq_refl eq_refl ls0 tso b0 (Nat.eqb (length cs) (narity n) && ndata_eqb (ndat n) (DClass cls)) _ eq_refl eq_refl).
    + rewrite recount_pno, En, (Cn ltac:(discriminate)), Hl. cbn. rewrite (Nat.eqb_sym (narity n)), andb_true_r. reflexivity.
    + intros Hcd. apply andb_true_iff in Hcd as [H1 H2]. cbn [up_to]. rewrite En. cbn. rewrite H1. cbn.
      destruct (ndat n); try discriminate H2. simpl in H2. rewrite Z.eqb_sym, H2. reflexivity.
    + intros Hcd (x & Hx). cbn [up_to] in Hx. rewrite En in Hx. cbn in Hx.
      destruct (Nat.eqb (length cs) (narity n)); cbn in Hx, Hcd; [|discriminate Hx].
      destruct (ndat n); try discriminate Hx. simpl in Hcd. rewrite Z.eqb_sym, Hcd in Hx. discriminate Hx.
  - (* custom *)
    simpl in Ek. destruct (lookup_reg c cls) as [r0|] eqn:El.
    + injection Ek as <- <-.
      assert (Hcu : exists rn, ncustom n = Some rn) by (destruct (ncustom n); [eauto | discriminate Sn]).
      destruct Hcu as (rn & Hrn).
      assert (Hgo : forall ls0 tso b0, tflat_seq (tflat c fuel) cs = Ok (ls0, tso, b0) ->
                to = mkT (node_of KdCustom (Some r0) (HCustom cls meta eb) [] (length tso)) tso ->
                (match eb with ERaise _ | EMalTuple _ => False | _ => True end) ->
                (Succeeds (up_to c (T n ts) (Node (HCustom cls meta eb) cs)) <-> P (T n ts) to)).
      { intros ls0 tso b0 Hseq Hto Heb.
        pose proof (tflat_seq_length _ _ _ _ _ Hseq) as Hl.
        apply (Hposit KdCustom eq_refl eq_refl ls0 tso b0
                 (opt_reg_eqb (Some r0) (ncustom n) && ndata_eqb (ndat n) (DMeta meta eb) && Nat.eqb (length cs) (narity n)) _ Hseq Hto).
        - rewrite recount_pno, En, Hl. cbn [ncustom nkind ndat node_of raw_node]. rewrite kind_eqb_refl.
          rewrite (Nat.eqb_sym (narity n)). rewrite Hrn. cbn [opt_reg_eqb].
          rewrite (reg_eqb_sym rn r0).
          destruct (Nat.eqb (length cs) (narity n)), (reg_eqb r0 rn), (ndata_eqb (ndat n) (DMeta meta eb)); reflexivity.
        - intros Hcd. apply andb_true_iff in Hcd as [Hcd H3]. apply andb_true_iff in Hcd as [H1 H2].
          cbn [up_to]. rewrite En, El, H1. cbn [negb]. destruct eb; try contradiction; rewrite H2, H3; reflexivity.
        - intros Hcd (x & Hx). cbn [up_to] in Hx. rewrite En, El in Hx.
          destruct (opt_reg_eqb (Some r0) (ncustom n)); cbn [negb] in Hx; [|discriminate Hx].
          destruct eb; try contradiction;
            (destruct (ndata_eqb (ndat n) _); cbn [negb] in Hx; [|discriminate Hx];
             destruct (Nat.eqb (length cs) (narity n)); cbn [negb] in Hx; [discriminate Hcd | discriminate Hx]). }
      destruct eb; try discriminate Hr;
        (destruct (tflat_seq (tflat c fuel) cs) as [[[ls0 tso] b0]|] eqn:Hseq; simpl in Hr; [|discriminate]).
      * injection Hr as <- <- <-. apply (Hgo ls0 tso b0 eq_refl eq_refl I).
      * injection Hr as <- <- <-. apply (Hgo ls0 tso b0 eq_refl eq_refl I).
      * destruct (Nat.eqb (length es) (length cs)); [|discriminate]. injection Hr as <- <- <-.
        apply (Hgo ls0 tso b0 eq_refl eq_refl I).
    + (* the object's class is not registered: a leaf for flatten *)
      injection Ek as <- <-. injection Hr as <- <- <-.
      split; intros H; exfalso.
      * destruct H as (x & Hx). cbn [up_to] in Hx. rewrite En, El in Hx.
        destruct (ncustom n); [discriminate Hx | discriminate Sn].
      * revert H. apply P_incompat; [exact Ln | apply compat_leaf_r; exact Ln].
Qed.

(* FlattenUpTo consults the configuration only through the registry lookup *)
Lemma mapM_rev2_ext {A B C} (f g : A -> B -> res C) : forall l l',
  Forall (fun x => forall y, f x y = g x y) l -> mapM_rev2 f l l' = mapM_rev2 g l l'.
Proof.
  induction l as [|x l IH]; intros [|y l'] H; simpl; try reflexivity.
  inversion H; subst. rewrite IH by assumption. destruct (mapM_rev2 g l l'); simpl; [rewrite H2|]; reflexivity.
Qed.

Lemma up_to_ext c1 c2 : (forall cls, lookup_reg c1 cls = lookup_reg c2 cls) ->
  forall t o, up_to c1 t o = up_to c2 t o.
Proof.
  intros Hl. induction t as [n ts IH] using stree_ind'. intros o.
  assert (Hm : forall l', mapM_rev2 (up_to c1) ts l' = mapM_rev2 (up_to c2) ts l') by (intros; apply mapM_rev2_ext; exact IH).
  cbn [up_to]. destruct (nkind n); try reflexivity;
    try (destruct o as [|h cs]; [reflexivity|]; rewrite ?Hm; reflexivity).
  - destruct o as [|h cs]; [reflexivity|]. destruct h; try reflexivity. rewrite Hl, Hm. reflexivity.
  - destruct o as [|h cs]; [reflexivity|]. destruct (hdr_keys h); [|reflexivity]. destruct (node_keys n); [|reflexivity].
    destruct (keys_same_set _ _); [|reflexivity]. destruct (mapM _ _); simpl; [rewrite Hm|]; reflexivity.
  - destruct o as [|h cs]; [reflexivity|]. destruct (hdr_keys h); [|reflexivity]. destruct (node_keys n); [|reflexivity].
    destruct (keys_same_set _ _); [|reflexivity]. destruct (mapM _ _); simpl; [rewrite Hm|]; reflexivity.
  - destruct o as [|h cs]; [reflexivity|]. destruct (hdr_keys h); [|reflexivity]. destruct (node_keys n); [|reflexivity].
    destruct (keys_same_set _ _); [|reflexivity]. destruct (mapM _ _); simpl; [rewrite Hm|]; reflexivity.
Qed.

(* FlattenUpTo(t, tree) succeeds exactly when t is a prefix (IsPrefix) of the tree's own treespec:
   for every treespec t of the configuration (good, spec_ok), every well-formed tree that flattens *)
Theorem flatten_up_to_iff_is_prefix c s o ls sp so :
  c_pred c = None -> c_ns c = ss_ns s ->
  good (stree_of s) = true -> spec_ok c (stree_of s) = true ->
  wf_obj o = true -> flatten c o = Ok (ls, sp) -> sspec_of sp = Some so ->
  (Succeeds (ss_flatten_up_to (c_reg c) s o) <-> fst (st_prefix (stree_of s) (stree_of so)) = true).
Proof.
  intros Hp Hns Hg Hs Hwf Hf Hso. unfold flatten in Hf.
  destruct (flat c (S (c_limit c)) o) as [[[ls' ns] b]|] eqn:E; [|discriminate].
  cbn [bind] in Hf. injection Hf as <- <-.
  destruct (tflat_of_flat c _ o _ _ _ E) as (t & Ht & -> & Hw).
  unfold sspec_of in Hso. cbn [trav snil sns] in Hso.
  rewrite (decode_encode t (wf_arity_ok t Hw)) in Hso. injection Hso as <-. cbn [stree_of].
  unfold ss_flatten_up_to.
  rewrite (up_to_ext _ c); [|intros cls; unfold lookup_reg; cbn [c_ns c_reg]; rewrite Hns; reflexivity].
  apply (up_to_iff_prefix c Hp (stree_of s) Hg Hs (S (c_limit c)) o ls' t b Hwf Ht).
Qed.

(* ---------- for the treespecs flatten produces ---------- *)
Fixpoint no_custom (t : stree) : bool :=
  match t with T n cs => negb (kind_eqb (nkind n) KdCustom) && forallb no_custom cs end.

Lemma up_to_ext_nocustom c1 c2 : forall t, no_custom t = true -> forall o, up_to c1 t o = up_to c2 t o.
Proof.
  induction t as [n ts IH] using stree_ind'. intros Hn o. simpl in Hn. apply andb_true_iff in Hn as [Hk Hc].
  assert (Hm : forall l', mapM_rev2 (up_to c1) ts l' = mapM_rev2 (up_to c2) ts l').
  { intros. apply mapM_rev2_ext. apply Forall_forall. intros x Hx y. rewrite Forall_forall in IH.
    apply IH; [exact Hx | eapply forallb_In; eauto]. }
  cbn [up_to]. destruct (nkind n); try discriminate Hk; try reflexivity;
    try (destruct o as [|h cs]; [reflexivity|]; rewrite ?Hm; reflexivity);
    (destruct o as [|h cs]; [reflexivity|]; destruct (hdr_keys h); [|reflexivity]; destruct (node_keys n); [|reflexivity];
     destruct (keys_same_set _ _); [|reflexivity]; destruct (mapM _ _); simpl; [rewrite Hm|]; reflexivity).
Qed.

Lemma tflat_seq_inv (Q : stree -> bool -> Prop) (f : obj -> res tres) : forall l ls ts b,
  (forall x lx tx bx, In x l -> f x = Ok (lx, tx, bx) -> Q tx bx) ->
  tflat_seq f l = Ok (ls, ts, b) ->
  Forall (fun t => exists bx, Q t bx /\ (bx = true -> b = true)) ts.
Proof.
  induction l as [|x l IH]; intros ls ts b H Hr; simpl in Hr.
  - injection Hr as <- <- <-. constructor.
  - destruct (f x) as [[[ls1 t1] b1]|] eqn:E1; simpl in Hr; [|discriminate].
    destruct (tflat_seq f l) as [[[ls2 ts2] b2]|] eqn:E2; simpl in Hr; [|discriminate].
    injection Hr as <- <- <-. constructor.
    + exists b1. split; [eapply H; [left; reflexivity | exact E1] | intros ->; reflexivity].
    + pose proof (IH _ _ _ (fun y ly ty by0 Hy => H y ly ty by0 (or_intror Hy)) eq_refl) as Hrest.
      apply Forall_forall. intros t Ht. rewrite Forall_forall in Hrest. destruct (Hrest t Ht) as (bx & Hq & Hb).
      exists bx. split; [exact Hq | intros Hbt; rewrite (Hb Hbt); apply orb_true_r].
Qed.

(* what flatten guarantees about its treespec: it is spec_ok for c, and it contains a custom node only
   if the "found custom" flag is set *)
Theorem tflat_spec_ok c : forall fuel o ls t b,
  tflat c fuel o = Ok (ls, t, b) -> spec_ok c t = true /\ (b = false -> no_custom t = true).
Proof.
  induction fuel as [|fuel IH]; intros o ls t b Hr; [discriminate|].
  cbn [tflat] in Hr.
  destruct (apply_pred c o); [injection Hr as <- <- <-; split; reflexivity|].
  destruct (get_kind c o) as [k cu] eqn:Ek.
  destruct o as [id|h cs]; [injection Hr as <- <- <-; split; reflexivity|].
  assert (Hseq : forall l ls0 ts b0, tflat_seq (tflat c fuel) l = Ok (ls0, ts, b0) ->
            forallb (spec_ok c) ts = true /\ (b0 = false -> forallb no_custom ts = true)).
  { intros l ls0 ts b0 H.
    pose proof (tflat_seq_inv (fun t bx => spec_ok c t = true /\ (bx = false -> no_custom t = true)) (tflat c fuel) l ls0 ts b0
                  (fun x lx tx bx _ Hf => IH x lx tx bx Hf) H) as Hall.
    split.
    - apply forallb_forall. intros t0 Ht. rewrite Forall_forall in Hall. destruct (Hall t0 Ht) as (bx & [Hs _] & _). exact Hs.
    - intros Hb0. apply forallb_forall. intros t0 Ht. rewrite Forall_forall in Hall. destruct (Hall t0 Ht) as (bx & [_ Hn] & Hb).
      apply Hn. destruct bx; [rewrite (Hb eq_refl) in Hb0; discriminate | reflexivity]. }
  destruct k.
  - (* custom *)
    destruct h; try discriminate Hr.
    assert (Hcu : exists r, cu = Some r).
    { simpl in Ek. destruct (lookup_reg c cls); [injection Ek as <-; eauto | discriminate Ek]. }
    destruct Hcu as (r & ->).
    destruct eb; try discriminate Hr;
      (destruct (tflat_seq (tflat c fuel) cs) as [[[ls0 ts] b0]|] eqn:E; simpl in Hr; [|discriminate]);
      destruct (Hseq _ _ _ _ E) as [Hs _].
    + injection Hr as <- <- <-. split; [simpl; exact Hs | rewrite orb_true_r; discriminate].
    + injection Hr as <- <- <-. split; [simpl; exact Hs | rewrite orb_true_r; discriminate].
    + destruct (Nat.eqb (length es) (length cs)); [|discriminate]. injection Hr as <- <- <-.
      split; [simpl; exact Hs | rewrite orb_true_r; discriminate].
  - injection Hr as <- <- <-. split; reflexivity.
  - injection Hr as <- <- <-. split; [|reflexivity]. simpl.
    destruct h; simpl in Ek; try discriminate Ek; try (destruct (lookup_reg c cls); discriminate Ek).
    destruct (c_nil c); [discriminate Ek | reflexivity].
  - destruct (tflat_seq (tflat c fuel) cs) as [[[ls0 ts] b0]|] eqn:E; simpl in Hr; [|discriminate].
    injection Hr as <- <- <-. destruct (Hseq _ _ _ _ E) as [Hs Hn]. rewrite orb_false_r.
    split; [simpl; exact Hs | intros Hb; simpl; apply Hn; exact Hb].
  - destruct (tflat_seq (tflat c fuel) cs) as [[[ls0 ts] b0]|] eqn:E; simpl in Hr; [|discriminate].
    injection Hr as <- <- <-. destruct (Hseq _ _ _ _ E) as [Hs Hn]. rewrite orb_false_r.
    split; [simpl; exact Hs | intros Hb; simpl; apply Hn; exact Hb].
  - destruct (hdr_keys h) as [ks|]; [|discriminate Hr]. cbn zeta in Hr.
    destruct (mapM _ _) as [ch|]; simpl in Hr; [|discriminate].
    destruct (tflat_seq (tflat c fuel) ch) as [[[ls0 ts] b0]|] eqn:E; simpl in Hr; [|discriminate].
    injection Hr as <- <- <-. destruct (Hseq _ _ _ _ E) as [Hs Hn]. rewrite orb_false_r.
    split; [simpl; exact Hs | intros Hb; simpl; apply Hn; exact Hb].
  - destruct (tflat_seq (tflat c fuel) cs) as [[[ls0 ts] b0]|] eqn:E; simpl in Hr; [|discriminate].
    injection Hr as <- <- <-. destruct (Hseq _ _ _ _ E) as [Hs Hn]. rewrite orb_false_r.
    split; [simpl; exact Hs | intros Hb; simpl; apply Hn; exact Hb].
  - destruct (hdr_keys h) as [ks|]; [|discriminate Hr]. cbn zeta in Hr.
    destruct (mapM _ _) as [ch|]; simpl in Hr; [|discriminate].
    destruct (tflat_seq (tflat c fuel) ch) as [[[ls0 ts] b0]|] eqn:E; simpl in Hr; [|discriminate].
    injection Hr as <- <- <-. destruct (Hseq _ _ _ _ E) as [Hs Hn]. rewrite orb_false_r.
    split; [simpl; exact Hs | intros Hb; simpl; apply Hn; exact Hb].
  - destruct (hdr_keys h) as [ks|]; [|discriminate Hr]. cbn zeta in Hr.
    destruct (mapM _ _) as [ch|]; simpl in Hr; [|discriminate].
    destruct (tflat_seq (tflat c fuel) ch) as [[[ls0 ts] b0]|] eqn:E; simpl in Hr; [|discriminate].
    injection Hr as <- <- <-. destruct (Hseq _ _ _ _ E) as [Hs Hn]. rewrite orb_false_r.
    split; [simpl; exact Hs | intros Hb; simpl; apply Hn; exact Hb].
  - destruct (tflat_seq (tflat c fuel) cs) as [[[ls0 ts] b0]|] eqn:E; simpl in Hr; [|discriminate].
    injection Hr as <- <- <-. destruct (Hseq _ _ _ _ E) as [Hs Hn]. rewrite orb_false_r.
    split; [simpl; exact Hs | intros Hb; simpl; apply Hn; exact Hb].
  - destruct (tflat_seq (tflat c fuel) cs) as [[[ls0 ts] b0]|] eqn:E; simpl in Hr; [|discriminate].
    injection Hr as <- <- <-. destruct (Hseq _ _ _ _ E) as [Hs Hn]. rewrite orb_false_r.
    split; [simpl; exact Hs | intros Hb; simpl; apply Hn; exact Hb].
Qed.

(* For any two trees flattened under the same configuration (no predicate): flatten_up_to of the first
   tree's treespec on the second tree succeeds exactly when the first treespec is a prefix of the
   second's. *)
Theorem flattened_up_to_iff_prefix c o1 o2 ls1 sp1 s1 ls2 sp2 s2 :
  c_pred c = None -> wf_obj o1 = true -> wf_obj o2 = true ->
  flatten c o1 = Ok (ls1, sp1) -> sspec_of sp1 = Some s1 ->
  flatten c o2 = Ok (ls2, sp2) -> sspec_of sp2 = Some s2 ->
  (Succeeds (ss_flatten_up_to (c_reg c) s1 o2) <-> fst (st_prefix (stree_of s1) (stree_of s2)) = true).
Proof.
  intros Hp W1 W2 F1 S1 F2 S2.
  destruct (flatten_good c o1 ls1 sp1 W1 F1) as (s1' & E1 & G1). rewrite S1 in E1. injection E1 as <-.
  unfold flatten in F1, F2.
  destruct (flat c (S (c_limit c)) o1) as [[[l1 n1] b1]|] eqn:E1; [|discriminate].
  destruct (flat c (S (c_limit c)) o2) as [[[l2 n2] b2]|] eqn:E2; [|discriminate].
  cbn [bind] in F1, F2. injection F1 as <- <-. injection F2 as <- <-.
  destruct (tflat_of_flat c _ o1 _ _ _ E1) as (t1 & Ht1 & -> & Hw1).
  destruct (tflat_of_flat c _ o2 _ _ _ E2) as (t2 & Ht2 & -> & Hw2).
  unfold sspec_of in S1, S2. cbn [trav snil sns] in S1, S2.
  rewrite (decode_encode t1 (wf_arity_ok t1 Hw1)) in S1. rewrite (decode_encode t2 (wf_arity_ok t2 Hw2)) in S2.
  injection S1 as <-. injection S2 as <-. cbn [stree_of] in *.
  destruct (tflat_spec_ok c _ o1 _ _ _ Ht1) as [Sok Hnc].
  unfold ss_flatten_up_to. cbn [stree_of ss_nil ss_ns].
  assert (Hext : forall o, up_to {| c_nil := c_nil c; c_ns := spec_ns c b1; c_pred := None; c_reg := c_reg c;
                                    c_ins := []; c_limit := 0 |} t1 o = up_to c t1 o).
  { unfold spec_ns. destruct b1; cbn [orb].
    - intros o. apply up_to_ext. intros cls. reflexivity.
    - destruct (ins_ordered_here c).
      + intros o. apply up_to_ext. intros cls. reflexivity.
      + intros o. apply up_to_ext_nocustom. apply Hnc. reflexivity. }
  rewrite Hext.
  apply (up_to_iff_prefix c Hp t1 G1 Sok (S (c_limit c)) o2 l2 t2 b2 W2 Ht2).
Qed.
