(* ValidateProofs.v — the validation FromPickleable performs on a loaded node array (fix F16):
   SOUND: an accepted array decodes to a well-formed structured treespec (so every later index walk is
   in bounds); COMPLETE: the array of every well-formed treespec with consistent payloads is accepted —
   in particular everything flatten produces, so no valid pickle is ever rejected. *)
From OptreeModel Require Import Base Tree Flatten Unflatten Spec Pickle Construct.
From OptreeProofs Require Import BaseProofs RoundTrip SpecProofs EqProofs ConstructProofs.
From Coq Require Import Permutation.

Definition cnt (t : stree) : nat * nat := (st_leaves t, st_nodes t).

Fixpoint payload_ok (nil : bool) (t : stree) : bool :=
  match t with T n cs => node_payload_ok nil n && forallb (payload_ok nil) cs end.

Lemma sum_fst_cnt ts : sum_fst (map cnt ts) = sum_nat (map st_leaves ts).
Proof. induction ts as [|t ts IH]; [reflexivity|]. unfold sum_nat in *. simpl. rewrite IH. reflexivity. Qed.
Lemma sum_snd_cnt ts : sum_snd (map cnt ts) = sum_nat (map st_nodes ts).
Proof. induction ts as [|t ts IH]; [reflexivity|]. unfold sum_nat in *. simpl. rewrite IH. reflexivity. Qed.

Lemma sum_nat_rev l : sum_nat (rev l) = sum_nat l.
Proof.
  unfold sum_nat. induction l; simpl; [reflexivity|]. rewrite fold_right_app. simpl.
  rewrite <- IHl. clear. generalize (rev l). intros r. induction r; simpl; lia.
Qed.

Lemma firstn_len_app {A} (a b : list A) : firstn (length a) (a ++ b) = a.
Proof. induction a; simpl; [destruct b; reflexivity | f_equal; auto]. Qed.
Lemma skipn_len_app {A} (a b : list A) : skipn (length a) (a ++ b) = b.
Proof. induction a; simpl; auto. Qed.

(* ================= completeness ================= *)
Lemma validate_children nil (cs : list stree) :
  Forall (fun t => forall rest stack, validate_go nil (encode t ++ rest) stack =
                                      validate_go nil rest (cnt t :: stack)) cs ->
  forall rest stack, validate_go nil (flat_map encode cs ++ rest) stack =
                     validate_go nil rest (rev (map cnt cs) ++ stack).
Proof.
  induction 1 as [|t cs Ht _ IH]; intros rest stack; [reflexivity|].
  simpl. rewrite <- app_assoc, Ht, IH. rewrite <- app_assoc. reflexivity.
Qed.

Theorem validate_encode nil : forall t rest stack,
  wf_stree t = true -> payload_ok nil t = true ->
  validate_go nil (encode t ++ rest) stack = validate_go nil rest (cnt t :: stack).
Proof.
  induction t as [n cs IH] using stree_ind'. intros rest stack Hwf Hp.
  simpl in Hwf, Hp. apply andb_true_iff in Hp as [Hpn Hpc].
  apply andb_true_iff in Hwf as [Hwf Hwc]. apply andb_true_iff in Hwf as [Hwf Hlv].
  apply andb_true_iff in Hwf as [Har Hnn]. apply Nat.eqb_eq in Har, Hnn.
  assert (IH' : Forall (fun t => forall rest stack, validate_go nil (encode t ++ rest) stack =
                                                     validate_go nil rest (cnt t :: stack)) cs).
  { apply Forall_forall. intros t Ht rest' stack'. rewrite Forall_forall in IH.
    apply IH; [exact Ht | eapply forallb_In; eauto | eapply forallb_In; eauto]. }
  cbn [encode]. rewrite <- app_assoc, (validate_children nil cs IH'). cbn [app validate_go].
  assert (Hlen : narity n = length (rev (map cnt cs))) by (rewrite rev_length, map_length; auto).
  replace (Nat.ltb (length (rev (map cnt cs) ++ stack)) (narity n)) with false
    by (symmetry; apply Nat.ltb_ge; rewrite app_length; lia).
  rewrite Hlen, firstn_len_app, skipn_len_app.
  assert (Hsf : sum_fst (rev (map cnt cs)) = sum_nat (map st_leaves cs)).
  { rewrite <- map_rev, sum_fst_cnt, map_rev. apply sum_nat_rev. }
  assert (Hss : sum_snd (rev (map cnt cs)) = sum_nat (map st_nodes cs)).
  { rewrite <- map_rev, sum_snd_cnt, map_rev. apply sum_nat_rev. }
  rewrite Hsf, Hss, Hpn. cbn [negb].
  assert (Hl : nleaves n = ((match nkind n with KdLeaf => 1 | _ => 0 end) + sum_nat (map st_leaves cs))%nat).
  { unfold is_leaf_node in Hlv. destruct (nkind n) eqn:Ek; simpl in Hlv;
      try (apply Nat.eqb_eq in Hlv; rewrite Hlv; reflexivity).
    apply andb_true_iff in Hlv as [H1 H0]. apply Nat.eqb_eq in H1, H0. destruct cs; [|discriminate]. rewrite H1. reflexivity. }
  rewrite <- Hl, Hnn, !Nat.eqb_refl. cbn [andb negb]. unfold cnt, st_leaves, st_nodes. cbn [st_node].
  rewrite Hnn. reflexivity.
Qed.

Corollary validate_complete nil t :
  wf_stree t = true -> payload_ok nil t = true -> validate nil (encode t) = true.
Proof.
  intros Hw Hp. unfold validate. rewrite <- (app_nil_r (encode t)), (validate_encode nil t [] [] Hw Hp). reflexivity.
Qed.

(* ================= soundness ================= *)
Lemma firstn_In_sub {A} n : forall (l : list A) x, In x (firstn n l) -> In x l.
Proof. induction n; intros [|y l] x H; simpl in *; try contradiction. destruct H; auto. Qed.
Lemma skipn_In_sub {A} n : forall (l : list A) x, In x (skipn n l) -> In x l.
Proof. induction n; intros [|y l] x H; simpl in *; auto. Qed.

Lemma firstn_map {A B} (f : A -> B) n l : firstn n (map f l) = map f (firstn n l).
Proof. revert l; induction n; intros [|x l]; simpl; auto. f_equal. auto. Qed.
Lemma skipn_map {A B} (f : A -> B) n l : skipn n (map f l) = map f (skipn n l).
Proof. revert l; induction n; intros [|x l]; simpl; auto. Qed.

Theorem validate_sound nil : forall ns trees,
  validate_go nil ns (map cnt trees) = true ->
  forallb wf_stree trees = true -> forallb (payload_ok nil) trees = true ->
  exists t, decode_go ns trees = Some t /\ wf_stree t = true /\ payload_ok nil t = true.
Proof.
  induction ns as [|n ns IH]; intros trees Hv Hw Hp.
  - simpl in Hv. rewrite map_length in Hv. apply Nat.eqb_eq in Hv.
    destruct trees as [|t [|? ?]]; try discriminate. simpl in Hw, Hp. rewrite andb_true_r in Hw, Hp.
    exists t. simpl. auto.
  - cbn [validate_go] in Hv. cbn [decode_go]. rewrite map_length in Hv.
    destruct (Nat.ltb (length trees) (narity n)) eqn:El; [discriminate|]. apply Nat.ltb_ge in El.
    rewrite firstn_map, skipn_map in Hv.
    destruct (Nat.eqb (nleaves n) _ && Nat.eqb (nnodes n) _) eqn:Ec; [|discriminate]. cbn [negb] in Hv.
    destruct (node_payload_ok nil n) eqn:Epn; [|discriminate]. cbn [negb] in Hv.
    apply andb_true_iff in Ec as [Ecl Ecn]. apply Nat.eqb_eq in Ecl, Ecn.
    set (kids := rev (firstn (narity n) trees)).
    assert (Hkl : length kids = narity n) by (unfold kids; rewrite rev_length, firstn_length; lia).
    assert (Hsub : forall x, In x kids -> In x trees).
    { intros x Hx. unfold kids in Hx. apply in_rev in Hx. eapply firstn_In_sub. exact Hx. }
    assert (Hkw : forallb wf_stree kids = true) by (apply forallb_forall; intros x Hx; eapply forallb_In; eauto).
    assert (Hkp : forallb (payload_ok nil) kids = true) by (apply forallb_forall; intros x Hx; eapply forallb_In; eauto).
    assert (Hsl : sum_nat (map st_leaves kids) = sum_fst (map cnt (firstn (narity n) trees))).
    { unfold kids. rewrite map_rev, sum_nat_rev, sum_fst_cnt. reflexivity. }
    assert (Hsn : sum_nat (map st_nodes kids) = sum_snd (map cnt (firstn (narity n) trees))).
    { unfold kids. rewrite map_rev, sum_nat_rev, sum_snd_cnt. reflexivity. }
    assert (Hcnt : cnt (T n kids) = (nleaves n, nnodes n)) by reflexivity.
    assert (Hwt : wf_stree (T n kids) = true).
    { cbn [wf_stree]. rewrite Hkl, Nat.eqb_refl, Hkw, Hsn, <- Ecn, Nat.eqb_refl. cbn [andb]. rewrite andb_true_r.
      unfold is_leaf_node. destruct (nkind n) eqn:Ek; cbn [kind_eqb kind_code Z.eqb];
        try (rewrite Hsl, Ecl; cbn; apply Nat.eqb_refl).
      (* leaf: arity 0 *)
      unfold node_payload_ok in Epn. rewrite Ek in Epn. apply andb_true_iff in Epn as [Ea _]. apply Nat.eqb_eq in Ea.
      rewrite Ea in *. destruct kids; [|discriminate]. simpl in Ecl. rewrite Ecl. reflexivity. }
    assert (Hpt : payload_ok nil (T n kids) = true) by (cbn [payload_ok]; rewrite Epn, Hkp; reflexivity).
    rewrite <- Ecl, <- Ecn, <- Hcnt in Hv.
    change (cnt (T n kids) :: map cnt (skipn (narity n) trees)) with (map cnt (T n kids :: skipn (narity n) trees)) in Hv.
    apply (IH _ Hv).
    + cbn [forallb]. rewrite Hwt. apply forallb_forall. intros x Hx. eapply forallb_In; [exact Hw | eapply skipn_In_sub; exact Hx].
    + cbn [forallb]. rewrite Hpt. apply forallb_forall. intros x Hx. eapply forallb_In; [exact Hp | eapply skipn_In_sub; exact Hx].
Qed.

(* ================= everything flatten produces is accepted ================= *)
Lemma tflat_seq_payload (nil : bool) (f : obj -> res tres) : forall l ls ts b,
  (forall x r, In x l -> f x = Ok r -> payload_ok nil (snd (fst r)) = true) ->
  tflat_seq f l = Ok (ls, ts, b) -> forallb (payload_ok nil) ts = true /\ length ts = length l.
Proof.
  induction l as [|x l IH]; intros ls ts b H Hr; simpl in Hr.
  - injection Hr as <- <- <-. auto.
  - destruct (f x) as [[[ls1 t1] b1]|] eqn:E1; simpl in Hr; [|discriminate].
    destruct (tflat_seq f l) as [[[ls2 ts2] b2]|] eqn:E2; simpl in Hr; [|discriminate].
    injection Hr as <- <- <-.
    destruct (IH _ _ _ (fun y r Hy => H y r (or_intror Hy)) eq_refl) as [Hp Hl].
    pose proof (H x _ (or_introl eq_refl) E1) as Hx. simpl in Hx. simpl. rewrite Hx, Hp, Hl. auto.
Qed.

Theorem tflat_payload c : forall fuel o ls t b,
  wf_obj o = true -> tflat c fuel o = Ok (ls, t, b) -> payload_ok (c_nil c) t = true.
Proof.
  induction fuel as [|fuel IH]; intros o ls t b Hwf Hr; [discriminate|].
  cbn [tflat] in Hr.
  destruct (apply_pred c o); [injection Hr as <- <- <-; reflexivity|].
  destruct (get_kind c o) as [k cu] eqn:Ek.
  destruct o as [id|h cs]; [injection Hr as <- <- <-; reflexivity|].
  simpl in Hwf. apply andb_true_iff in Hwf as [Hwh Hwcs].
  assert (Hseq : forall l ls0 ts b0, (forall x, In x l -> In x cs) ->
            tflat_seq (tflat c fuel) l = Ok (ls0, ts, b0) ->
            forallb (payload_ok (c_nil c)) ts = true /\ length ts = length l).
  { intros l ls0 ts b0 Hsub. apply tflat_seq_payload. intros x [[lx tx] bx] Hx Hf. simpl.
    eapply IH; [|exact Hf]. eapply forallb_In; [exact Hwcs | apply Hsub; exact Hx]. }
  assert (Hfin : forall vks found ls0 ts b0,
            forallb (payload_ok (c_nil c)) ts = true ->
            node_payload_ok (c_nil c) (recount (node_of k cu h vks (length ts)) ts) = true ->
            (let '(ls1, ts1, b1) := (ls0, ts, b0) in
             Ok (ls1, mkT (node_of k cu h vks (length ts1)) ts1, b1 || found)) = Ok (ls, t, b) ->
            payload_ok (c_nil c) t = true).
  { intros vks found ls0 ts b0 Hp Hn H. injection H as <- <- <-. unfold mkT. cbn [payload_ok]. rewrite Hn, Hp. reflexivity. }
  assert (Hnp : forall k0 vks ts, node_payload_ok (c_nil c) (recount (node_of k0 cu h vks (length ts)) ts) =
            node_payload_ok (c_nil c) {| nkind := k0; narity := length ts; ndat := ndat (node_of k0 cu h vks (length ts));
                                         nentries := nentries (node_of k0 cu h vks (length ts)); ncustom := None;
                                         nleaves := 0; nnodes := 0; norig := norig (node_of k0 cu h vks (length ts)) |}).
  { intros k0 vks ts. unfold node_payload_ok, recount. cbn [nkind narity ndat nentries norig]. rewrite node_of_kind. reflexivity. }
  destruct k.
  - (* custom *)
    destruct h; try discriminate Hr. destruct eb; try discriminate Hr;
      (destruct (tflat_seq (tflat c fuel) cs) as [[[ls0 ts] b0]|] eqn:E; simpl in Hr; [|discriminate]);
      destruct (Hseq cs _ _ _ (fun x H => H) E) as [Hp Hl].
    + apply (Hfin [] true ls0 ts b0 Hp); [|exact Hr]. rewrite Hnp. reflexivity.
    + apply (Hfin [] true ls0 ts b0 Hp); [|exact Hr]. rewrite Hnp. reflexivity.
    + destruct (Nat.eqb (length es) (length cs)) eqn:El; [|discriminate].
      apply (Hfin [] true ls0 ts b0 Hp); [|exact Hr]. rewrite Hnp. unfold node_payload_ok. cbn. rewrite Hl, El. reflexivity.
  - injection Hr as <- <- <-; reflexivity.
  - injection Hr as <- <- <-. unfold mkT. cbn.
    destruct h; simpl in Ek; try discriminate Ek; try (destruct (lookup_reg c cls); discriminate Ek).
    destruct (c_nil c); [discriminate Ek | reflexivity].
  - destruct (tflat_seq (tflat c fuel) cs) as [[[ls0 ts] b0]|] eqn:E; simpl in Hr; [|discriminate].
    destruct (Hseq cs _ _ _ (fun x H => H) E) as [Hp Hl].
    apply (Hfin [] false ls0 ts b0 Hp); [|exact Hr]. rewrite Hnp. reflexivity.
  - destruct (tflat_seq (tflat c fuel) cs) as [[[ls0 ts] b0]|] eqn:E; simpl in Hr; [|discriminate].
    destruct (Hseq cs _ _ _ (fun x H => H) E) as [Hp Hl].
    apply (Hfin [] false ls0 ts b0 Hp); [|exact Hr]. rewrite Hnp. reflexivity.
  - destruct (hdr_keys h) as [ks|] eqn:Hk; [|discriminate Hr]. cbn zeta in Hr.
    destruct (mapM (child_by_key ks cs) (visit_keys c KdDict ks)) as [ch|] eqn:Em; simpl in Hr; [|discriminate].
    destruct (tflat_seq (tflat c fuel) ch) as [[[ls0 ts] b0]|] eqn:E; simpl in Hr; [|discriminate].
    destruct (mapM_child_by_key _ _ _ _ Em) as (Lch & _ & Hsub).
    destruct (Hseq ch _ _ _ Hsub E) as [Hp Hl].
    assert (Hvl : length (visit_keys c KdDict ks) = length ks) by (apply Permutation_length; apply visit_keys_perm).
    apply (Hfin (visit_keys c KdDict ks) false ls0 ts b0 Hp); [|exact Hr]. rewrite Hnp.
    destruct h; simpl in Ek; try discriminate Ek; try (destruct (c_nil c); discriminate Ek);
      try (destruct (lookup_reg c cls); discriminate Ek).
    simpl in Hk. injection Hk as ->.
    unfold node_payload_ok. unfold visit_keys in Hvl, Lch |- *. cbn. rewrite Hl, Lch; try rewrite Hvl; rewrite !Nat.eqb_refl; reflexivity.
  - destruct (tflat_seq (tflat c fuel) cs) as [[[ls0 ts] b0]|] eqn:E; simpl in Hr; [|discriminate].
    destruct (Hseq cs _ _ _ (fun x H => H) E) as [Hp Hl].
    apply (Hfin [] false ls0 ts b0 Hp); [|exact Hr]. rewrite Hnp. reflexivity.
  - destruct (hdr_keys h) as [ks|] eqn:Hk; [|discriminate Hr]. cbn zeta in Hr.
    destruct (mapM (child_by_key ks cs) (visit_keys c KdODict ks)) as [ch|] eqn:Em; simpl in Hr; [|discriminate].
    destruct (tflat_seq (tflat c fuel) ch) as [[[ls0 ts] b0]|] eqn:E; simpl in Hr; [|discriminate].
    destruct (mapM_child_by_key _ _ _ _ Em) as (Lch & _ & Hsub).
    destruct (Hseq ch _ _ _ Hsub E) as [Hp Hl].
    assert (Hvl : length (visit_keys c KdODict ks) = length ks) by (apply Permutation_length; apply visit_keys_perm).
    apply (Hfin (visit_keys c KdODict ks) false ls0 ts b0 Hp); [|exact Hr]. rewrite Hnp.
    destruct h; simpl in Ek; try discriminate Ek; try (destruct (c_nil c); discriminate Ek);
      try (destruct (lookup_reg c cls); discriminate Ek).
    simpl in Hk. injection Hk as ->.
    unfold node_payload_ok. unfold visit_keys in Hvl, Lch |- *. cbn. rewrite Hl, Lch; try rewrite Hvl; rewrite !Nat.eqb_refl; reflexivity.
  - destruct (hdr_keys h) as [ks|] eqn:Hk; [|discriminate Hr]. cbn zeta in Hr.
    destruct (mapM (child_by_key ks cs) (visit_keys c KdDDict ks)) as [ch|] eqn:Em; simpl in Hr; [|discriminate].
    destruct (tflat_seq (tflat c fuel) ch) as [[[ls0 ts] b0]|] eqn:E; simpl in Hr; [|discriminate].
    destruct (mapM_child_by_key _ _ _ _ Em) as (Lch & _ & Hsub).
    destruct (Hseq ch _ _ _ Hsub E) as [Hp Hl].
    assert (Hvl : length (visit_keys c KdDDict ks) = length ks) by (apply Permutation_length; apply visit_keys_perm).
    apply (Hfin (visit_keys c KdDDict ks) false ls0 ts b0 Hp); [|exact Hr]. rewrite Hnp.
    destruct h; simpl in Ek; try discriminate Ek; try (destruct (c_nil c); discriminate Ek);
      try (destruct (lookup_reg c cls); discriminate Ek).
    simpl in Hk. injection Hk as ->.
    unfold node_payload_ok. unfold visit_keys in Hvl, Lch |- *. cbn. rewrite Hl, Lch; try rewrite Hvl; rewrite !Nat.eqb_refl; reflexivity.
  - destruct (tflat_seq (tflat c fuel) cs) as [[[ls0 ts] b0]|] eqn:E; simpl in Hr; [|discriminate].
    destruct (Hseq cs _ _ _ (fun x H => H) E) as [Hp Hl].
    apply (Hfin [] false ls0 ts b0 Hp); [|exact Hr]. rewrite Hnp. reflexivity.
  - destruct (tflat_seq (tflat c fuel) cs) as [[[ls0 ts] b0]|] eqn:E; simpl in Hr; [|discriminate].
    destruct (Hseq cs _ _ _ (fun x H => H) E) as [Hp Hl].
    apply (Hfin [] false ls0 ts b0 Hp); [|exact Hr]. rewrite Hnp. reflexivity.
Qed.

(* the treespec of every flattened tree passes the validation: a valid pickle is never rejected *)
Theorem flatten_validates c o ls sp :
  wf_obj o = true -> flatten c o = Ok (ls, sp) -> validate (snil sp) (trav sp) = true.
Proof.
  unfold flatten. intros Hwf H.
  destruct (flat c (S (c_limit c)) o) as [[[ls' ns] b]|] eqn:E; [|discriminate].
  cbn [bind] in H. injection H as <- <-. cbn [snil trav].
  destruct (tflat_of_flat c _ o _ _ _ E) as (t & Ht & -> & Hw).
  apply validate_complete; [exact Hw | eapply tflat_payload; eauto].
Qed.

(* an accepted array decodes to a well-formed structured treespec *)
Theorem validate_decodes nil ns :
  validate nil ns = true -> exists t, decode ns = Some t /\ wf_stree t = true /\ payload_ok nil t = true.
Proof. intros H. apply (validate_sound nil ns [] H); reflexivity. Qed.
