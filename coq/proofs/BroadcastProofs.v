(* BroadcastProofs.v — tree_broadcast_prefix / broadcast_prefix (optree/ops.py) replicate every leaf of
   the prefix tree once per leaf of the subtree of the full tree that sits at its path (property C09). *)
From OptreeModel Require Import Base Tree Flatten Unflatten Spec Construct Ops UpToArr.
From OptreeProofs Require Import BaseProofs RoundTrip SpecProofs EqProofs FaultProofs DepthProofs Replace ConstructProofs
  FlattenGood UpToPrefix OpsProofs PrefixArrProofs UpToArrProofs Subst MapLaws.

(* the subtrees flatten_up_to returns are subtrees of a well-formed tree *)
Lemma node_children_sub c n o cu : node_children c n o = Ok cu ->
  match o with Node _ cs => forall x, In x cu -> In x cs | Leaf _ => cu = [] end.
Proof.
  unfold node_children. intros H.
  destruct o as [id|h cs].
  - destruct (nkind n); try discriminate H.
  - intros x Hx. destruct (nkind n); try discriminate H.
    + destruct h; try discriminate H. destruct (negb _); [discriminate|].
      destruct eb; try discriminate H; (destruct (negb _); [discriminate|]; destruct (negb _); [discriminate|]; injection H as <-; exact Hx).
    + destruct h; try discriminate H. injection H as <-. destruct Hx.
    + destruct (match exact_kind_of _ with Some _ => _ | None => _ end); [|discriminate].
      destruct (Nat.eqb _ _); [|discriminate]. injection H as <-. exact Hx.
    + destruct (match exact_kind_of _ with Some _ => _ | None => _ end); [|discriminate].
      destruct (Nat.eqb _ _); [|discriminate]. injection H as <-. exact Hx.
    + destruct (hdr_keys h); [|discriminate]. destruct (node_keys n); [|discriminate].
      destruct (keys_same_set _ _); [|discriminate]. exact (proj2 (proj2 (mapM_child_by_key _ _ _ _ H)) x Hx).
    + destruct (negb _); [discriminate|]. destruct (negb _); [discriminate|]. destruct (negb _); [discriminate|]. injection H as <-. exact Hx.
    + destruct (hdr_keys h); [|discriminate]. destruct (node_keys n); [|discriminate].
      destruct (keys_same_set _ _); [|discriminate]. exact (proj2 (proj2 (mapM_child_by_key _ _ _ _ H)) x Hx).
    + destruct (hdr_keys h); [|discriminate]. destruct (node_keys n); [|discriminate].
      destruct (keys_same_set _ _); [|discriminate]. exact (proj2 (proj2 (mapM_child_by_key _ _ _ _ H)) x Hx).
    + destruct (match exact_kind_of _ with Some _ => _ | None => _ end); [|discriminate].
      destruct (Nat.eqb _ _); [|discriminate]. injection H as <-. exact Hx.
    + destruct (negb _); [discriminate|]. destruct (negb _); [discriminate|]. destruct (negb _); [discriminate|]. injection H as <-. exact Hx.
Qed.

Lemma up_to_wf c : forall t o subs, JoinOrder.good t = true -> wf_obj o = true -> up_to c t o = Ok subs -> forallb wf_obj subs = true.
Proof.
  induction t as [n ts IH] using stree_ind'. intros o subs G W H.
  rewrite (up_to_unfold c n ts o G) in H.
  destruct (is_leaf_node n); [injection H as <-; simpl; rewrite W; reflexivity|].
  destruct (node_children c n o) as [cu|] eqn:En; cbn [bind] in H; [|discriminate].
  destruct (mapM_rev2 (up_to c) ts cu) as [r|] eqn:Em; cbn [bind] in H; [|discriminate]. injection H as <-.
  pose proof (node_children_sub c n o cu En) as Hsub.
  assert (Wcu : forallb wf_obj cu = true).
  { destruct o as [id|h cs]; [subst cu; reflexivity|]. simpl in W. apply andb_true_iff in W as [_ Wcs].
    apply forallb_forall. intros x Hx. exact (forallb_In _ _ _ Wcs (Hsub x Hx)). }
  pose proof (JoinOrder.good_children n ts G) as Gts.
  clear - IH Gts Wcu Em. revert cu r Wcu Em.
  induction ts as [|t ts IHl]; intros [|x cu] r Wcu Em; simpl in Em; try discriminate.
  - injection Em as <-. reflexivity.
  - destruct (mapM_rev2 (up_to c) ts cu) as [rest|] eqn:Er; cbn [bind] in Em; [|discriminate].
    destruct (up_to c t x) as [s|] eqn:Es; cbn [bind] in Em; [|discriminate]. injection Em as <-.
    inversion IH as [|? ? Ht IHts]; subst. simpl in Gts, Wcu.
    apply andb_true_iff in Gts as [Gt Gts]. apply andb_true_iff in Wcu as [Wx Wcu].
    cbn [concat]. rewrite forallb_app, (Ht x s Gt Wx Es), (IHl IHts Gts cu rest Wcu Er). reflexivity.
Qed.

(* ---------- rows of a two-argument map ---------- *)
Definition rows2 (a b : list obj) : list (list obj) := map (fun p => [fst p; snd p]) (combine a b).

Lemma zip_cols_go_two : forall (a b : list obj) n, length a = length b -> (length a <= n)%nat ->
  zip_cols_go n [a; b] = rows2 a b.
Proof.
  induction a as [|x a IH]; intros [|y b] n Hl Hn; try discriminate Hl.
  - destruct n; reflexivity.
  - destruct n as [|n]; [simpl in Hn; lia|]. injection Hl as Hl. simpl. unfold rows2 in *. cbn [combine map fst snd].
    f_equal. apply IH; [exact Hl | simpl in Hn; lia].
Qed.

Lemma mapM_trace_rows2 (f : nat -> list obj -> res obj) : forall a b ys i,
  Forall2 (fun p y => forall j, f j [fst p; snd p] = Ok y) (combine a b) ys ->
  fst (mapM_trace f i (rows2 a b)) = Ok ys.
Proof.
  unfold rows2. intros a b. induction (combine a b) as [|p l IH]; intros ys i H; inversion H as [|? y ? ys' Hp Hrest]; subst; [reflexivity|].
  simpl. rewrite (Hp i). specialize (IH ys' (S i) Hrest).
  destruct (mapM_trace f (S i) (map (fun p0 => [fst p0; snd p0]) l)) as [r tr]. simpl in *. rewrite IH. reflexivity.
Qed.

(* tree_broadcast_prefix: the result is the prefix's treespec unflattened with, for each prefix leaf x
   and the subtree sub at its path, the tree "sub with every leaf replaced by x" *)
Theorem tree_broadcast_prefix_spec c p full lsp spp s subs rs :
  c_pred c = None -> wf_obj p = true -> wf_obj full = true ->
  flatten c p = Ok (lsp, spp) -> sspec_of spp = Some s ->
  ss_flatten_up_to (c_reg c) s full = Ok subs ->
  Forall2 (fun sub r => flatten c sub = Ok r) subs rs ->
  exists r t t' b,
    tree_broadcast_prefix c p full = Ok r /\ wf_obj r = true /\
    decode (trav spp) = Some t /\
    Subst t (map (fun q => match decode (trav (snd q)) with Some u => u | None => st_leaf end) rs) t' /\
    tflat c (S (c_limit c) + S (c_limit c)) r =
      Ok (concat (map (fun xq => repeat (fst xq) (length (fst (snd xq)))) (combine lsp rs)), t', b).
Proof.
  intros Hp Wp Wf Fp Hs Hu HF.
  (* the prefix *)
  destruct (flatten_facts c p lsp spp Wp Fp) as (s' & E & Hsp & Wt & G & _). rewrite Hs in E. injection E as <-.
  pose proof Fp as Fp0. unfold flatten in Fp0.
  destruct (flat c (S (c_limit c)) p) as [[[l0 ns0] b0]|] eqn:Eflat; [|discriminate].
  cbn [bind] in Fp0. injection Fp0 as <- <-.
  destruct (tflat_of_flat c _ p _ _ _ Eflat) as (tp & Htp & -> & Wtp).
  assert (Hst : stree_of s = tp).
  { unfold sspec_of in Hs. cbn [trav] in Hs. rewrite (decode_encode tp (wf_arity_ok tp Wtp)) in Hs. injection Hs as <-. reflexivity. }
  pose proof (tflat_leaves_leaflike c Hp _ p l0 tp b0 Wp Htp) as Hll.
  (* the subtrees *)
  unfold ss_flatten_up_to in Hu. rewrite Hst in Hu.
  pose proof (up_to_wf _ tp full subs (eq_trans (f_equal JoinOrder.good (eq_sym Hst)) G) Wf Hu) as Wsubs.
  assert (Hlen : length subs = length l0).
  { rewrite (up_to_count _ tp full subs Wtp (eq_trans (f_equal JoinOrder.good (eq_sym Hst)) G) Hu).
    destruct (flatten_decodes c p l0 _ Fp) as (s2 & Hs2 & _ & Hl2 & _). rewrite Hs in Hs2. injection Hs2 as <-.
    rewrite <- Hst. exact Hl2. }
  (* every broadcast_leaves call *)
  assert (Hys : exists ys ts, length ys = length l0 /\ forallb wf_obj ys = true /\
            Forall2 (fun pr y => forall j : nat,
                       (fun (_ : nat) row => match row with [x; sub] => broadcast_leaves c x sub | _ => Err InternalError end)
                         j [fst pr; snd pr] = Ok y) (combine l0 subs) ys /\
            Forall2 (fun y r => tflat c (S (c_limit c)) y = Ok r) ys ts /\
            map r_l ts = map (fun xq => repeat (fst xq) (length (fst (snd xq)))) (combine l0 rs) /\
            map r_t ts = map (fun q => match decode (trav (snd q)) with Some u => u | None => st_leaf end) rs).
  { clear - Hp HF Hll Wsubs Hlen. revert subs rs HF Wsubs Hlen Hll.
    induction l0 as [|x l0 IH]; intros [|sub subs] rs HF Wsubs Hlen Hll; try discriminate Hlen.
    - inversion HF; subst. exists [], []. repeat split; constructor.
    - inversion HF as [|? [lq spq] ? rs' Hq Hrest]; subst. injection Hlen as Hlen.
      simpl in Wsubs, Hll. apply andb_true_iff in Wsubs as [Wsub Wsubs]. apply andb_true_iff in Hll as [Hx Hll].
      destruct (IH subs rs' Hrest Wsubs Hlen Hll) as (ys & ts & Ly & Wy & Fy & Ft & Hl & Ht).
      destruct (flatten_unflatten_replace_wf c sub lq spq (repeat x (length lq)) Hp Wsub Hq) as (y & Wyy & Hy & Fyq).
      { apply repeat_length. }
      { apply forallb_forall. intros z Hz. apply repeat_spec in Hz. subst z. exact Hx. }
      pose proof Fyq as Fy0. unfold flatten in Fy0.
      destruct (flat c (S (c_limit c)) y) as [[[ly nsy] by0]|] eqn:Ey; [|discriminate].
      cbn [bind] in Fy0. injection Fy0 as -> Hspq.
      destruct (tflat_of_flat c _ y _ _ _ Ey) as (ty & Hty & -> & Wty).
      exists (y :: ys), ((repeat x (length lq), ty, by0) :: ts). repeat split.
      * simpl. congruence.
      * simpl. rewrite Wyy, Wy. reflexivity.
      * cbn [combine]. constructor; [|exact Fy]. intros j. cbn [fst snd]. unfold broadcast_leaves. rewrite Hq. cbn [bind]. exact Hy.
      * constructor; [exact Hty | exact Ft].
      * cbn [combine map fst snd r_l]. rewrite Hl. reflexivity.
      * cbn [map r_t fst snd]. rewrite Ht, <- Hspq. cbn [trav]. rewrite (decode_encode ty (wf_arity_ok ty Wty)). reflexivity. }
  destruct Hys as (ys & ts & Ly & Wy & Fy & Ft & Hl & Ht).
  destruct (unflatten_trees_then_flatten c p l0 _ ys ts (S (c_limit c)) Hp Wp Fp Ly Ft Wy) as (r & t & t' & b & Hd & Hun & Wr & HS & HT).
  exists r, t, t', (b || existsb r_b ts). split; [|split; [exact Wr | split; [exact Hd | split]]].
  - unfold tree_broadcast_prefix, tree_map, tree_map_trace, sspec_res. rewrite Fp, Hs.
    cbn [mapM]. unfold ss_flatten_up_to. rewrite Hst, Hu. cbn [bind].
    unfold zip_cols. rewrite (zip_cols_go_two l0 subs (length l0)) by (congruence || apply le_n).
    pose proof (mapM_trace_rows2 (fun (_ : nat) row => match row with [x; sub] => broadcast_leaves c x sub | _ => Err InternalError end) l0 subs ys 0 Fy) as Hm.
    destruct (mapM_trace _ 0 (rows2 l0 subs)) as [res tr]. cbn [fst] in Hm. subst res. exact Hun.
  - rewrite <- Ht. exact HS.
  - rewrite <- Hl. exact HT.
Qed.

(* ---------- broadcast_prefix: the replicated leaves themselves ---------- *)
Lemma mapM_trace_all_ok {A B} (f : nat -> A -> res B) : forall l i,
  Forall (fun x => forall j, exists y, f j x = Ok y) l ->
  snd (mapM_trace f i l) = l /\ exists ys, fst (mapM_trace f i l) = Ok ys.
Proof.
  induction l as [|x l IH]; intros i H; [split; [reflexivity | exists []; reflexivity]|].
  inversion H as [|? ? Hx Hl]; subst. simpl. destruct (Hx i) as (y & Hy). rewrite Hy.
  destruct (IH (S i) Hl) as (Htr & ys & Hys). destruct (mapM_trace f (S i) l) as [r tr]. simpl in *. subst tr r.
  split; [reflexivity | eexists; reflexivity].
Qed.

Lemma Forall2_in_l {A B} (R : A -> B -> Prop) l l' x : Forall2 R l l' -> In x l -> exists y, In y l' /\ R x y.
Proof. induction 1 as [|a b l l' Hab _ IH]; intros Hin; [destruct Hin|]. destruct Hin as [<-|Hin]; [exists b; split; [left; reflexivity | exact Hab]|]. destruct (IH Hin) as (y & Hy & Hr). exists y. split; [right; exact Hy | exact Hr]. Qed.

Theorem broadcast_prefix_spec c p full lsp spp s subs rs :
  wf_obj p = true -> wf_obj full = true ->
  flatten c p = Ok (lsp, spp) -> sspec_of spp = Some s ->
  ss_flatten_up_to (c_reg c) s full = Ok subs ->
  Forall2 (fun sub r => flatten c sub = Ok r) subs rs ->
  broadcast_prefix c p full =
    Ok (concat (map (fun xq => repeat (fst xq) (length (fst (snd xq)))) (combine lsp rs))).
Proof.
  intros Wp Wf Fp Hs Hu HF.
  destruct (flatten_facts c p lsp spp Wp Fp) as (s' & E & Hsp & Wt & G & _). rewrite Hs in E. injection E as <-.
  assert (Hlen : length subs = length lsp).
  { unfold ss_flatten_up_to in Hu. rewrite (up_to_count _ _ full subs Wt G Hu).
    destruct (flatten_decodes c p lsp _ Fp) as (s2 & Hs2 & _ & Hl2 & _). rewrite Hs in Hs2. injection Hs2 as <-. exact Hl2. }
  unfold broadcast_prefix, tree_map_trace, sspec_res. rewrite Fp, Hs. cbn [mapM]. rewrite Hu. cbn [bind].
  unfold zip_cols. rewrite (zip_cols_go_two lsp subs (length lsp)) by (congruence || apply le_n).
  set (f := fun (_ : nat) (row : list obj) => match row with [x; sub] => do r <- flatten c sub ;; Ok x | _ => Err InternalError end).
  assert (Hrow : forall x sub, In (x, sub) (combine lsp subs) -> exists q, flatten c sub = Ok q).
  { intros x sub Hin. apply in_combine_r in Hin. destruct (Forall2_in_l _ _ _ _ HF Hin) as (q & _ & Hq). eauto. }
  assert (Hall : Forall (fun row => forall j, exists y, f j row = Ok y) (rows2 lsp subs)).
  { unfold rows2. apply Forall_forall. intros row Hr. apply in_map_iff in Hr as ([x sub] & <- & Hin).
    intros j. cbn [fst snd f]. destruct (Hrow x sub Hin) as (q & ->). eexists; reflexivity. }
  assert (Hys : Forall2 (fun pr y => forall j, f j [fst pr; snd pr] = Ok y) (combine lsp subs) lsp).
  { clear - Hrow Hlen. revert subs Hlen Hrow. induction lsp as [|x l IH]; intros [|sub subs] Hlen Hrow; try discriminate Hlen; [constructor|].
    cbn [combine]. constructor.
    - intros j. cbn [fst snd f]. destruct (Hrow x sub (or_introl eq_refl)) as (q & ->). reflexivity.
    - apply IH; [simpl in Hlen; congruence | intros y sb Hin; apply (Hrow y sb); right; exact Hin]. }
  pose proof (mapM_trace_rows2 f lsp subs lsp 0 Hys) as H1.
  destruct (mapM_trace_all_ok f (rows2 lsp subs) 0 Hall) as (Htr & _).
  destruct (mapM_trace f 0 (rows2 lsp subs)) as [res tr]. cbn [fst snd] in *. subst res tr.
  rewrite (unflatten_flatten c p lsp spp Wp Fp).
  (* the second pass over the recorded rows *)
  assert (Hparts : mapM (fun row => match row with
                                   | [x; sub] => do r <- flatten c sub ;; Ok (repeat x (length (fst r)))
                                   | _ => Err InternalError end) (rows2 lsp subs)
                   = Ok (map (fun xq => repeat (fst xq) (length (fst (snd xq)))) (combine lsp rs))).
  { clear - HF Hlen. revert subs rs HF Hlen. induction lsp as [|x l IH]; intros [|sub subs] rs HF Hlen; try discriminate Hlen.
    - inversion HF; subst. reflexivity.
    - inversion HF as [|? q ? rs' Hq Hrest]; subst. unfold rows2 in *. cbn [combine map mapM fst snd].
      rewrite Hq. cbn [bind]. rewrite (IH subs rs' Hrest) by (simpl in Hlen; congruence). reflexivity. }
  rewrite Hparts. reflexivity.
Qed.

(* ---------- tree_map with a tree-valued function ---------- *)
Theorem map_tree_valued c f t ls sp rs f2 :
  c_pred c = None -> wf_obj t = true -> flatten c t = Ok (ls, sp) ->
  (forall x, wf_obj (f x) = true) ->
  Forall2 (fun x r => tflat c f2 (f x) = Ok r) ls rs ->
  exists o' tt t' b, tree_map c (lift f) t [] = Ok o' /\ wf_obj o' = true /\ decode (trav sp) = Some tt /\
    Subst tt (map r_t rs) t' /\
    tflat c (S (c_limit c) + f2) o' = Ok (concat (map r_l rs), t', b || existsb r_b rs).
Proof.
  intros Hp W F Hwf HF.
  destruct (unflatten_trees_then_flatten c t ls sp (map f ls) rs f2 Hp W F) as (o' & tt & t' & b & Hd & Hu & Wo & HS & HT).
  - apply map_length.
  - clear - HF. induction HF; simpl; constructor; assumption.
  - apply forallb_forall. intros y Hy. apply in_map_iff in Hy as (x & <- & _). apply Hwf.
  - exists o', tt, t', b. rewrite (map_single c f t ls sp F). auto.
Qed.

(* ---------- tree_broadcast_common ---------- *)
From OptreeProofs Require Import PrefixOrder JoinOrder JoinLeast PrefixErrProofs UpToPartition JoinRealise.

Lemma tflat_flatten c x lx tx bx : tflat c (S (c_limit c)) x = Ok (lx, tx, bx) ->
  flatten c x = Ok (lx, {| trav := encode tx; snil := c_nil c; sns := spec_ns c bx |}).
Proof. intros H. destruct (flat_of_tflat c _ x lx tx bx H) as [Hf _]. unfold flatten. rewrite Hf. reflexivity. Qed.

(* the subtrees flatten_up_to finds in a tree that flattens, flatten *)
Lemma flattened_subs_flatten c o1 o2 ls1 sp1 s1 ls2 sp2 subs :
  c_pred c = None -> wf_obj o1 = true -> wf_obj o2 = true ->
  flatten c o1 = Ok (ls1, sp1) -> sspec_of sp1 = Some s1 -> flatten c o2 = Ok (ls2, sp2) ->
  ss_flatten_up_to (c_reg c) s1 o2 = Ok subs ->
  exists rs, Forall2 (fun sub r => flatten c sub = Ok r) subs rs.
Proof.
  intros Hp W1 W2 F1 S1 F2 Hu.
  destruct (flatten_good c o1 ls1 sp1 W1 F1) as (s1' & E1 & G1). rewrite S1 in E1. injection E1 as <-.
  destruct (up_to_spec c o1 ls1 sp1 s1 o2 F1 S1) as (t1 & b1 & Ht1 & Heq). rewrite Heq in Hu.
  assert (Hst : stree_of s1 = t1).
  { destruct (flatten_tflat c o1 ls1 sp1 F1) as (t & b & Ht & Hsp & Hw). rewrite Ht1 in Ht. injection Ht as <- <-.
    subst sp1. unfold sspec_of in S1. cbn [trav] in S1. rewrite (decode_encode t1 (wf_arity_ok t1 Hw)) in S1. injection S1 as <-. reflexivity. }
  rewrite Hst in G1.
  destruct (flatten_tflat c o2 ls2 sp2 F2) as (t2 & b2 & Ht2 & _ & _).
  destruct (up_to_partition c Hp t1 G1 (proj1 (tflat_spec_ok c _ o1 _ _ _ Ht1)) _ o2 ls2 t2 b2 subs W2 Ht2 Hu) as [HF _].
  clear - HF. induction HF as [|x l ([[lx tx] bx] & Hx) _ (rs & IH)]; [exists []; constructor|].
  eexists (_ :: rs). constructor; [exact (tflat_flatten c x lx tx bx Hx) | exact IH].
Qed.

Lemma tbp_unfold c t full ls sp s subs ys :
  flatten c t = Ok (ls, sp) -> sspec_of sp = Some s -> ss_flatten_up_to (c_reg c) s full = Ok subs ->
  length subs = length ls ->
  Forall2 (fun pr y => broadcast_leaves c (fst pr) (snd pr) = Ok y) (combine ls subs) ys ->
  tree_broadcast_prefix c t full = unflatten sp ys.
Proof.
  intros F Hs Hu Hl HF. unfold tree_broadcast_prefix, tree_map, tree_map_trace, sspec_res. rewrite F, Hs.
  cbn [mapM]. rewrite Hu. cbn [bind]. unfold zip_cols. rewrite (zip_cols_go_two ls subs (length ls)) by (congruence || apply le_n).
  assert (HF' : Forall2 (fun pr y => forall j : nat,
            (fun (_ : nat) row => match row with [x; sub] => broadcast_leaves c x sub | _ => Err InternalError end) j [fst pr; snd pr] = Ok y)
            (combine ls subs) ys).
  { clear - HF. induction HF; constructor; [intros _; assumption | assumption]. }
  pose proof (mapM_trace_rows2 _ ls subs ys 0 HF') as Hm.
  destruct (mapM_trace _ 0 (rows2 ls subs)) as [res tr]. cbn [fst] in Hm. subst res. reflexivity.
Qed.

Lemma bleaves_mapM c : forall prs ys,
  Forall2 (fun pr y => broadcast_leaves c (fst pr) (snd pr) = Ok y) prs ys ->
  mapM (fun '(x, sub) => broadcast_leaves c x sub) prs = Ok ys.
Proof.
  induction 1 as [|[x sub] y prs ys Hy _ IH]; [reflexivity|]. cbn [mapM]. cbn [fst snd] in Hy. rewrite Hy. cbn [bind]. rewrite IH. reflexivity.
Qed.

(* every prefix leaf can be broadcast over the subtree found at its path *)
Lemma bleaves_total c : c_pred c = None -> forall ls subs rs,
  length subs = length ls -> forallb (leaflike c) ls = true -> forallb wf_obj subs = true ->
  Forall2 (fun sub r => flatten c sub = Ok r) subs rs ->
  exists ys, Forall2 (fun pr y => broadcast_leaves c (fst pr) (snd pr) = Ok y) (combine ls subs) ys.
Proof.
  intros Hp. induction ls as [|x ls IH]; intros [|sub subs] rs Hl Hll Hw HF; try discriminate Hl; [exists []; constructor|].
  inversion HF as [|? [lq spq] ? rs' Hq Hrest]; subst. injection Hl as Hl.
  simpl in Hll, Hw. apply andb_true_iff in Hll as [Hx Hll]. apply andb_true_iff in Hw as [Wsub Hw].
  destruct (IH subs rs' Hl Hll Hw Hrest) as (ys & Hys).
  destruct (flatten_unflatten_replace_wf c sub lq spq (repeat x (length lq)) Hp Wsub Hq) as (y & _ & Hy & _).
  { apply repeat_length. }
  { apply forallb_forall. intros z Hz. apply repeat_spec in Hz. subst z. exact Hx. }
  exists (y :: ys). cbn [combine]. constructor; [|exact Hys]. cbn [fst snd]. unfold broadcast_leaves. rewrite Hq. cbn [bind]. exact Hy.
Qed.

Lemma unflatten_trav' s s' ls : trav s = trav s' -> unflatten s ls = unflatten s' ls.
Proof. intros H. unfold unflatten, sanity. rewrite H. reflexivity. Qed.

(* one operand against the tree built from the common suffix *)
Lemma tbc_side c t ctree ls sp s lsc spc sc :
  c_pred c = None -> wf_obj t = true -> wf_obj ctree = true ->
  flatten c t = Ok (ls, sp) -> sspec_of sp = Some s ->
  flatten c ctree = Ok (lsc, spc) -> sspec_of spc = Some sc ->
  fst (st_prefix (stree_of s) (stree_of sc)) = true ->
  exists subs ys b,
    ss_flatten_up_to (c_reg c) s ctree = Ok subs /\
    mapM (fun '(x, sub) => broadcast_leaves c x sub) (combine ls subs) = Ok ys /\
    unflatten sp ys = Ok b /\ tree_broadcast_prefix c t ctree = Ok b.
Proof.
  intros Hp Wt Wc Ft Hs Fc Hsc HP.
  destruct (proj2 (flattened_up_to_iff_prefix c t ctree ls sp s lsc spc sc Hp Wt Wc Ft Hs Fc Hsc) HP) as (subs & Hu).
  destruct (flattened_subs_flatten c t ctree ls sp s lsc spc subs Hp Wt Wc Ft Hs Fc Hu) as (rs & HF).
  (* sizes, well-formedness *)
  destruct (flatten_good c t ls sp Wt Ft) as (s' & E & G). rewrite Hs in E. injection E as <-.
  destruct (up_to_spec c t ls sp s ctree Ft Hs) as (tt & bt & Htt & Heq).
  assert (Hst : stree_of s = tt).
  { destruct (flatten_tflat c t ls sp Ft) as (t0 & b0 & Ht0 & Hsp & Hw). rewrite Htt in Ht0. injection Ht0 as <- <-.
    subst sp. unfold sspec_of in Hs. cbn [trav] in Hs. rewrite (decode_encode tt (wf_arity_ok tt Hw)) in Hs. injection Hs as <-. reflexivity. }
  pose proof Hu as Hu'. rewrite Heq in Hu'. rewrite Hst in G.
  destruct (flatten_tflat c t ls sp Ft) as (t0 & b0 & Ht0 & _ & Hw0). rewrite Htt in Ht0. injection Ht0 as <- <-.
  pose proof (up_to_wf c tt ctree subs G Wc Hu') as Wsubs.
  assert (Hlen : length subs = length ls).
  { rewrite (UpToArrProofs.up_to_count c tt ctree subs Hw0 G Hu').
    destruct (flatten_decodes c t ls sp Ft) as (s2 & Hs2 & _ & Hl2 & _). rewrite Hs in Hs2. injection Hs2 as <-. rewrite <- Hst. exact Hl2. }
  pose proof (tflat_leaves_leaflike c Hp _ t ls tt bt Wt Htt) as Hll.
  destruct (bleaves_total c Hp ls subs rs Hlen Hll Wsubs HF) as (ys & Hys).
  destruct (tree_broadcast_prefix_spec c t ctree ls sp s subs rs Hp Wt Wc Ft Hs Hu HF) as (b & _ & _ & _ & Hb & _).
  exists subs, ys, b. split; [exact Hu|]. split; [exact (bleaves_mapM c _ _ Hys)|].
  rewrite (tbp_unfold c t ctree ls sp s subs ys Ft Hs Hu Hlen Hys) in Hb. split; [exact Hb|].
  rewrite (tbp_unfold c t ctree ls sp s subs ys Ft Hs Hu Hlen Hys). exact Hb.
Qed.

(* tree_broadcast_common: the tree built from the common suffix exists and has exactly that treespec;
   both results are tree_broadcast_prefix of the operand against it *)
Theorem tree_broadcast_common_spec c t o ls1 sp1 s1 ls2 sp2 s2 cs :
  c_pred c = None -> wf_obj t = true -> wf_obj o = true ->
  flatten c t = Ok (ls1, sp1) -> sspec_of sp1 = Some s1 ->
  flatten c o = Ok (ls2, sp2) -> sspec_of sp2 = Some s2 ->
  ss_broadcast s1 s2 = Ok cs ->
  exists ctree spc b1 b2,
    wf_obj ctree = true /\
    flatten c ctree = Ok (repeat sentinel (st_leaves (stree_of cs)), spc) /\ trav spc = encode (stree_of cs) /\
    tree_broadcast_common c t o = Ok (b1, b2) /\
    tree_broadcast_prefix c t ctree = Ok b1 /\ tree_broadcast_prefix c o ctree = Ok b2.
Proof.
  intros Hp Wt Wo F1 S1 F2 S2 Hcs.
  destruct (flatten_good c t ls1 sp1 Wt F1) as (s1' & E1 & G1). rewrite S1 in E1. injection E1 as <-.
  destruct (flatten_good c o ls2 sp2 Wo F2) as (s2' & E2 & G2). rewrite S2 in E2. injection E2 as <-.
  destruct (flatten_tflat c t ls1 sp1 F1) as (t1 & bb1 & Ht1 & Hsp1 & Hw1).
  destruct (flatten_tflat c o ls2 sp2 F2) as (t2 & bb2 & Ht2 & Hsp2 & Hw2).
  assert (Hst1 : stree_of s1 = t1).
  { subst sp1. unfold sspec_of in S1. cbn [trav] in S1. rewrite (decode_encode t1 (wf_arity_ok t1 Hw1)) in S1. injection S1 as <-. reflexivity. }
  assert (Hst2 : stree_of s2 = t2).
  { subst sp2. unfold sspec_of in S2. cbn [trav] in S2. rewrite (decode_encode t2 (wf_arity_ok t2 Hw2)) in S2. injection S2 as <-. reflexivity. }
  (* the join *)
  pose proof Hcs as Hcs0. unfold ss_broadcast in Hcs0.
  destruct (negb (Bool.eqb (ss_nil s1) (ss_nil s2))); [discriminate|].
  destruct (negb (ns_compatible (ss_ns s1) (ss_ns s2))); [discriminate|].
  destruct (st_join (stree_of s1) (stree_of s2)) as [j|] eqn:Ej; cbn [bind] in Hcs0; [|discriminate].
  injection Hcs0 as Hcsj. assert (Hj : stree_of cs = j) by (rewrite <- Hcsj; reflexivity).
  rewrite Hst1, Hst2 in Ej.
  destruct (join_realise c Hp _ t o ls1 t1 bb1 ls2 t2 bb2 j Wt Wo Ht1 Ht2 Ej) as (oj & Woj & lsj & bj & Hoj).
  pose proof (tflat_flatten c oj lsj j bj Hoj) as Foj.
  destruct (flat_of_tflat c _ oj lsj j bj Hoj) as [_ Wj].
  assert (Hlj : length lsj = st_leaves j).
  { destruct (flatten_decodes c oj lsj _ Foj) as (sj & Hsj & _ & Hl & _). unfold sspec_of in Hsj. cbn [trav] in Hsj.
    rewrite (decode_encode j (wf_arity_ok j Wj)) in Hsj. injection Hsj as <-. cbn [stree_of] in Hl. symmetry. exact Hl. }
  destruct (flatten_unflatten_replace_wf c oj lsj _ (repeat sentinel (st_leaves j)) Hp Woj Foj) as (ctree & Wc & Huc & Fc).
  { rewrite repeat_length. symmetry. exact Hlj. }
  { apply forallb_forall. intros z Hz. apply repeat_spec in Hz. subst z. reflexivity. }
  set (spc := {| trav := encode j; snil := c_nil c; sns := spec_ns c bj |}) in *.
  set (sc := {| stree_of := j; ss_nil := c_nil c; ss_ns := spec_ns c bj |}).
  assert (Hsc : sspec_of spc = Some sc).
  { unfold sspec_of, spc. cbn [trav snil sns]. rewrite (decode_encode j (wf_arity_ok j Wj)). reflexivity. }
  destruct (join_upper_bound t1 t2 j (eq_trans (f_equal good (eq_sym Hst1)) G1) (eq_trans (f_equal good (eq_sym Hst2)) G2) Ej) as [P1 P2].
  destruct (tbc_side c t ctree ls1 sp1 s1 _ spc sc Hp Wt Wc F1 S1 Fc Hsc) as (subs1 & ys1 & b1 & Hu1 & Hm1 & Hun1 & Hb1).
  { rewrite Hst1. exact P1. }
  destruct (tbc_side c o ctree ls2 sp2 s2 _ spc sc Hp Wo Wc F2 S2 Fc Hsc) as (subs2 & ys2 & b2 & Hu2 & Hm2 & Hun2 & Hb2).
  { rewrite Hst2. exact P2. }
  exists ctree, spc, b1, b2. rewrite Hj. split; [exact Wc|]. split; [exact Fc|]. split; [reflexivity|].
  split; [|split; assumption].
  unfold tree_broadcast_common, sspec_res. rewrite F1, F2. cbn [bind]. rewrite S1, S2. cbn [bind]. rewrite Hcs. cbn [bind].
  rewrite Hj, (unflatten_trav' (spec_of cs) spc) by (unfold spec_of; cbn [trav]; rewrite Hj; reflexivity).
  rewrite Huc. cbn [bind]. rewrite Hu1. cbn [bind]. rewrite Hm1. cbn [bind]. rewrite Hun1. cbn [bind].
  rewrite Hu2. cbn [bind]. rewrite Hm2. cbn [bind]. rewrite Hun2. reflexivity.
Qed.
