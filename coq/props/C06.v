(* C06 — treespec equality means same structure, and equal treespecs hash equally. *)
From OptreeModel Require Import Base Tree Flatten Unflatten Spec.
From OptreeProofs Require Import EqProofs.

(* == compares, node by node, exactly: kind, arity, registration, node data (keys / class / maxlen /
   metadata) — and nothing else: not leaf values, not path entries, not the original key order *)
Theorem C06_eq_is_same_structure :
  forall a b, spec_eqb a b = true <->
              (length (trav a) = length (trav b) /\ snil a = snil b /\
               ns_compatible (sns a) (sns b) = true /\ map core (trav a) = map core (trav b)).
Proof.
  intros a b. unfold spec_eqb. rewrite !andb_true_iff, Nat.eqb_eq, Bool.eqb_true_iff, nodes_eqb_core.
  tauto.
Qed.
Print Assumptions C06_eq_is_same_structure.

Theorem C06_eq_refl : forall s, spec_eqb s s = true.
Proof. exact spec_eqb_refl. Qed.
Print Assumptions C06_eq_refl.

Theorem C06_eq_sym : forall a b, spec_eqb a b = spec_eqb b a.
Proof. exact spec_eqb_sym. Qed.
Print Assumptions C06_eq_sym.

(* transitive among treespecs of one namespace (pairwise compatible namespaces) *)
Theorem C06_eq_trans :
  forall a b c, spec_eqb a b = true -> spec_eqb b c = true ->
                ns_compatible (sns a) (sns c) = true -> spec_eqb a c = true.
Proof. exact spec_eqb_trans. Qed.
Print Assumptions C06_eq_trans.

Theorem C06_eq_trans_refuted_across_namespaces :
  exists a b c, spec_eqb a b = true /\ spec_eqb b c = true /\ spec_eqb a c = false.
Proof. exact spec_eqb_trans_refuted_across_ns. Qed.
Print Assumptions C06_eq_trans_refuted_across_namespaces.

(* a == b implies hash(a) == hash(b): the hash is a function of the sequence below, and equal
   treespecs (decodable, with consistent counters — always the case for API-produced treespecs)
   produce the same sequence *)
Theorem C06_eq_hash :
  forall a b ta tb,
    decode (trav a) = Some ta -> decode (trav b) = Some tb ->
    wf_stree ta = true -> wf_stree tb = true ->
    spec_eqb a b = true -> spec_hash_seq false a = spec_hash_seq false b.
Proof. exact eq_hash. Qed.
Print Assumptions C06_eq_hash.

Theorem C06_eq_hash_flatten :
  forall c1 o1 l1 a c2 o2 l2 b,
    flatten c1 o1 = Ok (l1, a) -> flatten c2 o2 = Ok (l2, b) ->
    spec_eqb a b = true -> spec_hash_seq false a = spec_hash_seq false b.
Proof. exact eq_hash_flatten. Qed.
Print Assumptions C06_eq_hash_flatten.

(* with the namespace hashed (the unchanged tree, defect F1) the law is false *)
Theorem C06_eq_hash_refuted_when_namespace_hashed :
  exists a b, spec_eqb a b = true /\ spec_hash_seq true a <> spec_hash_seq true b.
Proof. exact eq_hash_refuted_when_namespace_hashed. Qed.
Print Assumptions C06_eq_hash_refuted_when_namespace_hashed.

Example C06_example :
  let c := {| c_nil := false; c_ns := 0; c_pred := None; c_reg := []; c_ins := []; c_limit := 1000 |} in
  exists l1 a l2 b,
    flatten c (Node (HDict [KStr [98]; KStr [97]]) [Leaf 1; Leaf 2]) = Ok (l1, a) /\
    flatten c (Node (HDict [KStr [97]; KStr [98]]) [Leaf 7; Leaf 8]) = Ok (l2, b) /\
    spec_eqb a b = true /\ l1 <> l2.
Proof. vm_compute. do 4 eexists. repeat split. discriminate. Qed.
