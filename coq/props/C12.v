(* C12 — registry changes are namespace-isolated, atomic and reversible. *)
From OptreeModel Require Import Base Tree Registry.
From OptreeProofs Require Import RegistryProofs.

(* a call that raises for any reason leaves the registry exactly as it was — for every state, every
   operation, every argument fault, warnings as errors or not *)
Theorem C12_failed_step_is_noop :
  forall s o e, snd (step s o) = OutErr e -> fst (step s o) = s.
Proof. exact failed_step_is_noop. Qed.
Print Assumptions C12_failed_step_is_noop.

(* after ANY history of calls (successful or failing) the engine registry and the Python registry
   describe the same registrations, no (type, namespace) is registered twice and no built-in type is
   registered *)
Theorem C12_inv_all_histories :
  forall we ops, Inv (run_ops (init_state we) ops).
Proof. intros we ops. apply inv_run. apply inv_init. Qed.
Print Assumptions C12_inv_all_histories.

(* a change made in one namespace never alters what is registered in another *)
Theorem C12_isolation :
  forall s o cls n, n <> op_ns o ->
  find_reg cls n (eng (fst (step s o))) = find_reg cls n (eng s).
Proof. exact isolation. Qed.
Print Assumptions C12_isolation.

(* flattening in namespace N uses the registration in N, else the global one *)
Theorem C12_shadowing :
  forall s n c, n <> 0 ->
  engine_lookup s n c =
  match find_reg (rclass_code c) n (eng s) with
  | Some r => Some r
  | None => find_reg (rclass_code c) 0 (eng s)
  end.
Proof. exact shadowing. Qed.
Print Assumptions C12_shadowing.

(* the registry visible from Python describes precisely what flattening will do *)
Theorem C12_python_view_exact :
  forall s n c, Inv s -> python_lookup s n c = engine_lookup s n c.
Proof. exact python_view_exact. Qed.
Print Assumptions C12_python_view_exact.

Theorem C12_no_double_registration :
  forall s c ns pet, snd (step s (ORegister c ns pet)) = OutOk ->
  exists e, snd (step (fst (step s (ORegister c ns pet))) (ORegister c ns pet)) = OutErr e.
Proof. exact no_double_registration. Qed.
Print Assumptions C12_no_double_registration.

Theorem C12_unregister_absent_fails :
  forall s c ns, find_reg (rclass_code c) (ns_code ns) (eng s) = None ->
  exists e, step s (OUnregister c ns) = (s, OutErr e).
Proof. exact unregister_absent_fails. Qed.
Print Assumptions C12_unregister_absent_fails.

Theorem C12_builtins_refused :
  forall s n ns pet,
  (exists e, step s (ORegister (RBuiltin n) ns pet) = (s, OutErr e)) /\
  (exists e', step s (OUnregister (RBuiltin n) ns) = (s, OutErr e')).
Proof. exact builtins_refused. Qed.
Print Assumptions C12_builtins_refused.

Theorem C12_register_unregister_inverse :
  forall s c ns pet, Inv s -> snd (step s (ORegister c ns pet)) = OutOk ->
  let s' := fst (step (fst (step s (ORegister c ns pet))) (OUnregister c ns)) in
  eng s' = eng s /\ mirror s' = mirror s.
Proof. exact register_unregister_inverse. Qed.
Print Assumptions C12_register_unregister_inverse.

Example C12_example :
  let rid_of_opt := fun (o : option reg) => match o with Some r => rid r | None => 0 end in
  let s := run_ops (init_state true)
             [ORegister (RPlain 0) (NName 1) true; ORegister (RNamed 0) (NName 1) true;
              ORegister (RPlain 0) NGlobal true; OUnregister (RPlain 0) (NName 2)] in
  rid_of_opt (engine_lookup s 1 (RPlain 0)) = 1 /\ rid_of_opt (engine_lookup s 2 (RPlain 0)) = 2 /\
  engine_lookup s 1 (RNamed 0) = None /\ length (eng s) = 2%nat.
Proof. vm_compute. auto. Qed.
