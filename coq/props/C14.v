(* C14 — treespecs are immutable values independent of their source tree; the garbage collector sees
   everything a treespec owns. *)
From OptreeModel Require Import Base Tree Flatten Alias.
From OptreeProofs Require Import AliasProofs.

(* For every heap, every source key list and EVERY user program (any sequence of in-place mutations of
   the source list and of every list entries() ever returned, interleaved with further entries()
   calls): the treespec created by flatten says afterwards what it said when it was created. *)
Theorem C14_spec_immutable :
  forall h src h1 s p, (src < next h)%nat -> flatten_dict true h src = Some (h1, s) ->
  observe (u_heap (arun true s {| u_heap := h1; u_held := [src] |} p)) s = observe h1 s.
Proof. exact spec_immutable. Qed.
Print Assumptions C14_spec_immutable.

Theorem C14_spec_describes_source :
  forall h src ks h1 s, hget h src = Some ks -> flatten_dict true h src = Some (h1, s) ->
  observe h1 s = (Some (total_order_sort ks), Some ks).
Proof. exact spec_describes_source. Qed.
Print Assumptions C14_spec_describes_source.

(* keeping the caller's list, or handing out the treespec's own list, breaks it *)
Theorem C14_aliasing_refuted :
  (exists h src h1 s p, flatten_dict false h src = Some (h1, s) /\
     observe (u_heap (arun true s {| u_heap := h1; u_held := [src] |} p)) s <> observe h1 s) /\
  (exists h src h1 s p, flatten_dict true h src = Some (h1, s) /\
     observe (u_heap (arun false s {| u_heap := h1; u_held := [src] |} p)) s <> observe h1 s).
Proof. exact aliasing_refuted. Qed.
Print Assumptions C14_aliasing_refuted.

(* tp_traverse reports exactly the references every node owns, for every treespec *)
Theorem C14_gc_complete : forall sp, spec_visited GcAll sp = spec_owned sp.
Proof. exact gc_complete. Qed.
Print Assumptions C14_gc_complete.

(* skipping childless nodes, or choosing the fields by node kind, misses a reference on treespecs that
   flatten produces (a childless custom node's metadata; a defaultdict's insertion-order keys) *)
Theorem C14_gc_shortcuts_refuted :
  (exists o ls sp, flatten c0 o = Ok (ls, sp) /\ spec_visited GcSkipChildless sp <> spec_owned sp) /\
  (exists o ls sp, flatten c0 o = Ok (ls, sp) /\ spec_visited GcByKind sp <> spec_owned sp).
Proof. exact gc_shortcuts_refuted. Qed.
Print Assumptions C14_gc_shortcuts_refuted.

(* THE LEAF ITERATOR under the cyclic collector: PyTreeIter owns its root, the objects pending on its
   agenda and its is_leaf predicate; its tp_traverse (gc.cpp, after fix F18) reports every one of them
   in every state of the iteration — fresh, advanced, exhausted — so a cycle through an iterator
   (treespec -> key object -> iterator -> predicate or tree -> treespec) is collectable. The traversal
   without the predicate (the code before the fix) is complete exactly for iterators created without an
   is_leaf function; a traversal that reports nothing once the iterator is exhausted misses the root. *)
Theorem C14_iterator_gc_complete : forall s, iter_visited IGcAll s = iter_owned s.
Proof. exact iter_gc_complete. Qed.
Print Assumptions C14_iterator_gc_complete.

Theorem C14_iterator_gc_without_predicate :
  forall s, iter_visited IGcNoPredicate s = iter_owned s <-> it_has_pred s = false.
Proof. exact iter_gc_no_predicate_complete_iff. Qed.
Print Assumptions C14_iterator_gc_without_predicate.

Theorem C14_iterator_gc_variants_refuted :
  (exists s, iter_visited IGcNoPredicate s <> iter_owned s) /\
  (exists s, it_agenda s = [] /\ iter_visited IGcSkipExhausted s <> iter_owned s).
Proof. exact iter_gc_variants_refuted. Qed.
Print Assumptions C14_iterator_gc_variants_refuted.

Example C14_example :
  let h := {| cells := [(0%nat, [KInt 3; KInt 1; KInt 2])]; next := 1%nat |} in
  exists h1 s, flatten_dict true h 0%nat = Some (h1, s) /\
    observe (u_heap (arun true s {| u_heap := h1; u_held := [0%nat] |}
                          [AMutate 0 []; AEntries; AMutate 0 [KInt 9]; AEntries; AMutate 1 []])) s =
    (Some [KInt 1; KInt 2; KInt 3], Some [KInt 3; KInt 1; KInt 2]).
Proof. eexists _, _. split; [reflexivity|]. vm_compute. reflexivity. Qed.
