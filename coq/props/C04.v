(* C04 — paths and accessors address exactly the leaves. *)
From OptreeModel Require Import Base Tree Flatten Unflatten Spec Accessor PathsArr AccArr Dataclass.
From OptreeProofs Require Import TraversalProofs AccessorProofs PathsFree UpToPaths PrefixArrProofs PathsArrProofs AccArrProofs DataclassProofs.

(* For every tree whose custom nodes declare pairwise distinct entries, every configuration: the
   i-th path, applied to the tree entry by entry (sequence index, dict key, namedtuple /
   struct-sequence index, custom entry as returned by the flatten function or 0..n-1 when none are
   given), returns the i-th leaf. *)
Theorem C04_accessor_hits_leaf :
  forall c o ps ls sp,
    entries_ok o = true -> flatten_with_path c o = Ok (ps, ls, sp) ->
    Forall2 (fun p lf => get_path o p = Some lf) ps ls.
Proof. exact accessor_hits_leaf. Qed.
Print Assumptions C04_accessor_hits_leaf.

(* the accessor's path is the i-th path, and those are the paths recomputed from the treespec *)
Theorem C04_paths_from_spec :
  forall c o ps ls sp, flatten_with_path c o = Ok (ps, ls, sp) ->
  exists s, sspec_of sp = Some s /\ st_paths (stree_of s) = ps.
Proof. exact paths_from_spec. Qed.
Print Assumptions C04_paths_from_spec.

(* as many paths as leaves *)
Theorem C04_paths_count :
  forall c o ls sp, flatten c o = Ok (ls, sp) ->
  exists ps, flatten_with_path c o = Ok (ps, ls, sp) /\ length ps = length ls.
Proof. exact with_path_agrees_conv. Qed.
Print Assumptions C04_paths_count.

(* Paths of distinct leaves are distinct and none is a prefix of another: for every configuration and
   every tree whose custom nodes declare pairwise distinct entries *)
Theorem C04_paths_prefix_free :
  forall c o ps ls sp,
    wf_obj o = true -> entries_ok o = true -> flatten_with_path c o = Ok (ps, ls, sp) -> prefix_free ps.
Proof. exact flatten_paths_prefix_free. Qed.
Print Assumptions C04_paths_prefix_free.

(* and for every treespec, however obtained, whose nodes have pairwise distinct entries *)
Theorem C04_treespec_paths_prefix_free :
  forall t, entries_nodup t = true -> prefix_free (st_paths t).
Proof. exact paths_prefix_free. Qed.
Print Assumptions C04_treespec_paths_prefix_free.

Example C04_example :
  let c := {| c_nil := false; c_ns := 1; c_pred := None;
              c_reg := [{| rcls := 0; rns := 1; rid := 1; rpet := 3 |}]; c_ins := []; c_limit := 1000 |} in
  let o := Node (HDict [KStr [98]; KStr [97]])
                [Node (HCustom 0 0 (EGiven [KStr [120]; KStr [121]])) [Leaf 1; Node HTuple [Leaf 2; Leaf 3]];
                 Node (HNamed 0) [Leaf 4]] in
  exists ps ls sp, flatten_with_path c o = Ok (ps, ls, sp) /\
    ps = [[KStr [97]; KInt 0]; [KStr [98]; KStr [120]]; [KStr [98]; KStr [121]; KInt 0]; [KStr [98]; KStr [121]; KInt 1]] /\
    map (get_path o) ps = [Some (Leaf 4); Some (Leaf 1); Some (Leaf 2); Some (Leaf 3)].
Proof. vm_compute. do 3 eexists. repeat split. Qed.

(* THE C++ WALK ITSELF. PyTreeSpec::Paths as treespec.cpp runs it — the recursive walk over the node
   array by position from its end with an explicit entry stack, emitting the leaves' paths last leaf
   first into a vector reversed at the end, the two final consistency checks — returns exactly the
   tree-level paths of the model (which C04_paths_from_spec ties to flatten_with_path). *)
Theorem C04_cpp_paths_walk :
  forall c o ls sp s,
    wf_obj o = true -> flatten c o = Ok (ls, sp) -> sspec_of sp = Some s ->
    arr_paths sp = Ok (st_paths (stree_of s)).
Proof. exact arr_paths_of_flattened. Qed.
Print Assumptions C04_cpp_paths_walk.

Theorem C04_cpp_paths_walk_general :
  forall t nl ns,
    wf_stree t = true -> JoinOrder.good t = true -> entries_wf t = true -> dok t = true ->
    arr_paths {| trav := encode t; snil := nl; sns := ns |} = Ok (st_paths t).
Proof. exact arr_paths_spec. Qed.
Print Assumptions C04_cpp_paths_walk_general.

(* as many paths as leaves, at the level of treespecs *)
Theorem C04_treespec_paths_count :
  forall t, wf_stree t = true -> JoinOrder.good t = true -> entries_wf t = true -> dok t = true ->
  length (st_paths t) = st_leaves t.
Proof. exact st_paths_count. Qed.
Print Assumptions C04_treespec_paths_count.

(* the same for PyTreeSpec::Accessors: the walk that wraps every entry by the node's path entry type,
   node type and kind returns exactly the tree-level typed paths *)
Theorem C04_cpp_accessors_walk :
  forall c o ls sp s,
    wf_obj o = true -> flatten c o = Ok (ls, sp) -> sspec_of sp = Some s ->
    arr_accessors sp = Ok (st_accessors (stree_of s)).
Proof. exact arr_accessors_of_flattened. Qed.
Print Assumptions C04_cpp_accessors_walk.

Theorem C04_treespec_accessors_count :
  forall t, wf_stree t = true -> JoinOrder.good t = true -> entries_wf t = true -> dok t = true ->
  length (st_accessors t) = st_leaves t.
Proof. exact st_accessors_count. Qed.
Print Assumptions C04_treespec_accessors_count.

(* DataclassEntry (optree/accessor.py): for a dataclass registered as a custom node whose flatten function
   hands out the values of its init fields in declaration order without entries, the integer entry i
   names the i-th INIT field, whose attribute is the i-th child — for every field layout (init=False
   fields before, between and after the init fields) and every instance; there is exactly one entry per
   child. Indexing all fields instead (fields[entry]) names another attribute. *)
Theorem C04_dataclass_entry_hits_child :
  forall (V : Type) fs (x : inst V) i v,
  nth_error (init_children V fs x) i = Some v ->
  exists n, dc_entry_field fs i = Some n /\ get V n x = v.
Proof. exact dc_entry_hits_child. Qed.
Print Assumptions C04_dataclass_entry_hits_child.

Theorem C04_dataclass_entry_count :
  forall (V : Type) fs (x : inst V),
  length (init_children V fs x) = length (init_fields fs) /\
  forall i, (i < length (init_fields fs))%nat <-> dc_entry_field fs i <> None.
Proof. exact dc_entry_count. Qed.
Print Assumptions C04_dataclass_entry_count.

Theorem C04_dataclass_entry_over_all_fields_refuted :
  exists fs i, dc_entry_field fs i <> dc_entry_field_all fs i /\ dc_entry_field fs i <> None.
Proof. exact dc_entry_all_fields_refuted. Qed.
Print Assumptions C04_dataclass_entry_over_all_fields_refuted.

(* slicing and concatenating accessors composes access: applying p ++ q is applying p, then q to what p
   reached; so for any split acc = acc[:k] + acc[k:] of the i-th accessor the two halves reach the leaf *)
Theorem C04_accessor_composition :
  forall o p q, get_path o (p ++ q) = match get_path o p with Some x => get_path x q | None => None end.
Proof. exact get_path_app. Qed.
Print Assumptions C04_accessor_composition.
