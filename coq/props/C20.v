(* C20 — tree_ravel and its unravel function are mutually inverse. The structure part
   (flatten / unflatten of the tree) is property C01; here: the list of leaf arrays. Dtype promotion
   and casts are parameters: the theorems hold for every promotion function and every cast, under
   exactly the hypothesis the property states ("values representable in the leaf dtypes"). *)
From OptreeModel Require Import Ravel.
From OptreeProofs Require Import RavelProofs.

(* splitting the concatenation at the cumulative sizes returns the chunks, zero-size chunks included *)
Theorem C20_split_concat :
  forall (A : Type) (chunks : list (list A)), chunks <> [] ->
  split_by_indices (removelast (cumsum (map (@length A) chunks))) (concat chunks) = chunks.
Proof. exact @split_concat. Qed.
Print Assumptions C20_split_concat.

(* numpy / jax split at cumulative indices, torch splits by sizes: the same chunks *)
Theorem C20_indices_vs_sizes :
  forall (A : Type) sizes (v : list A), sizes <> [] -> fold_right Nat.add 0%nat sizes = length v ->
  split_by_indices (removelast (cumsum sizes)) v = split_by_sizes sizes v.
Proof. exact @indices_vs_sizes. Qed.
Print Assumptions C20_indices_vs_sizes.

Theorem C20_concat_split :
  forall (A : Type) sizes (v : list A), fold_right Nat.add 0%nat sizes = length v ->
  concat (split_by_sizes sizes v) = v.
Proof. exact @concat_split_by_sizes. Qed.
Print Assumptions C20_concat_split.

(* unravel(ravel(t)) = t: i-th shape, i-th dtype, i-th values *)
Theorem C20_unravel_ravel_single :
  forall promote cast leaves, leaves <> [] -> Forall arr_wf leaves ->
  all_same (promote (map dtype leaves)) (map dtype leaves) = true ->
  let '(v, d) := ravel_leaves promote cast leaves in unravel promote cast leaves v d = ROk leaves.
Proof. exact unravel_ravel_single. Qed.
Print Assumptions C20_unravel_ravel_single.

Theorem C20_unravel_ravel_mixed :
  forall promote cast leaves, leaves <> [] -> Forall arr_wf leaves ->
  all_same (promote (map dtype leaves)) (map dtype leaves) = false ->
  (forall a x, In a leaves -> In x (data a) ->
     cast (promote (map dtype leaves)) (dtype a) (cast (dtype a) (promote (map dtype leaves)) x) = x) ->
  let '(v, d) := ravel_leaves promote cast leaves in unravel promote cast leaves v d = ROk leaves.
Proof. exact unravel_ravel_mixed. Qed.
Print Assumptions C20_unravel_ravel_mixed.

Theorem C20_unravel_rejects_wrong_length :
  forall promote cast leaves v vd, leaves <> [] ->
  length v <> last (cumsum (map (fun a => prod_nat (shape a)) leaves)) 0%nat ->
  unravel promote cast leaves v vd = RValueError.
Proof. exact unravel_rejects_wrong_length. Qed.
Print Assumptions C20_unravel_rejects_wrong_length.

(* wrong dtype is rejected exactly when the leaves had mixed dtypes *)
Theorem C20_unravel_dtype_check :
  forall promote cast leaves v vd, leaves <> [] ->
  length v = last (cumsum (map (fun a => prod_nat (shape a)) leaves)) 0%nat ->
  vd <> promote (map dtype leaves) ->
  (all_same (promote (map dtype leaves)) (map dtype leaves) = false ->
   unravel promote cast leaves v vd = RValueError) /\
  (all_same (promote (map dtype leaves)) (map dtype leaves) = true ->
   exists r, unravel promote cast leaves v vd = ROk r).
Proof. exact unravel_dtype_check. Qed.
Print Assumptions C20_unravel_dtype_check.

Theorem C20_empty_tree :
  forall promote cast, ravel_leaves promote cast [] = ([], 0%Z) /\ unravel promote cast [] [] 0%Z = ROk [].
Proof. exact empty_tree. Qed.
Print Assumptions C20_empty_tree.

Example C20_example :
  let a := {| shape := [2; 0]%nat; dtype := 1%Z; data := [] |} in
  let b := {| shape := []; dtype := 3%Z; data := [7%Z] |} in
  let c := {| shape := [3]%nat; dtype := 1%Z; data := [1; 2; 3]%Z |} in
  unravel (fold_right Z.max 0%Z) (fun _ _ x => x) [a; b; c] [7; 1; 2; 3]%Z 3%Z = ROk [a; b; c].
Proof. vm_compute. reflexivity. Qed.
