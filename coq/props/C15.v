(* C15 — a failing user callback makes the enclosing operation fail cleanly. *)
From OptreeModel Require Import Base Tree Flatten Unflatten Spec Ops Registry Faults.
From OptreeProofs Require Import FaultProofs RegistryProofs.

(* Whatever the k-th callback invocation is (an is_leaf predicate call or a custom flatten call, at any
   depth, in any configuration): the flatten either fails with exactly the injected exception object —
   not another type, not a partial result — or, when fewer than k callbacks are made, is unaffected. *)
Theorem C15_fault_dichotomy :
  forall c k fuel n o,
    flatf c (Some k) fuel n o = Err (UserExn 99) \/ flatf c (Some k) fuel n o = flatf c None fuel n o.
Proof. exact fault_dichotomy. Qed.
Print Assumptions C15_fault_dichotomy.

(* the instrumented traversal without a fault is the traversal of Flatten.v (so the correspondence
   check of cmd 14 ties the fault model to the same engine the other properties are about) *)
Theorem C15_fault_free_is_flat :
  forall c fuel n o, strip (flatf c None fuel n o) = flat c fuel o.
Proof. exact fault_free_is_flat. Qed.
Print Assumptions C15_fault_free_is_flat.

(* never an internal error: on every well-formed object, malformed custom returns included, the only
   failures of flatten are RecursionError, the documented RuntimeError and the user's own exception *)
Theorem C15_no_internal_error :
  forall c o e, wf_obj o = true -> flatten c o = Err e -> bad_err e = false.
Proof. exact flatten_no_internal_error. Qed.
Print Assumptions C15_no_internal_error.

(* a mapped function raising at its (k+1)-th call: exactly that exception, k+1 calls, no tree *)
Theorem C15_map_fault :
  forall c f t rests ls sp s cols e k,
    flatten c t = Ok (ls, sp) -> sspec_of sp = Some s ->
    mapM (ss_flatten_up_to (c_reg c) s) rests = Ok cols ->
    (forall j row, (j < k)%nat -> exists y, f j row = Ok y) ->
    (forall row, f k row = Err e) -> (k < length (zip_cols (length ls) (ls :: cols)))%nat ->
    tree_map_trace c f t rests = (Err e, firstn (S k) (zip_cols (length ls) (ls :: cols))).
Proof. exact map_fault. Qed.
Print Assumptions C15_map_fault.

(* the in-progress marker of hash / repr is removed on success and on failure: the guard set after the
   call is the guard set before it, for every body *)
Theorem C15_guard_restored :
  forall (A : Type) (dflt : A) ident body g, snd (guarded true dflt ident body g) = g.
Proof. exact @guard_restored. Qed.
Print Assumptions C15_guard_restored.

(* and this is what goes wrong otherwise: a later call returns the default value *)
Theorem C15_guard_not_restored_refuted :
  exists (body : gset -> res Z) ident g,
    let '(r1, g1) := guarded false 0 ident body g in
    r1 = Err (UserExn 1) /\ fst (guarded false 0 ident (fun _ => Ok 42) g1) = Ok 0.
Proof. exact guard_not_restored_refuted. Qed.
Print Assumptions C15_guard_not_restored_refuted.

(* comparison exceptions while sorting keys: only TypeError is a reason to fall back *)
Theorem C15_sort_other_exception_propagates :
  forall e s2, sort_decide (COther e) s2 = SRaise e /\ sort_decide CTypeError (COther e) = SRaise e.
Proof. intros e s2. split; reflexivity. Qed.
Print Assumptions C15_sort_other_exception_propagates.

Theorem C15_sort_type_error_falls_back :
  sort_decide CTypeError CNoExn = SSorted2 /\ sort_decide CTypeError CTypeError = SInsertion.
Proof. split; reflexivity. Qed.
Print Assumptions C15_sort_type_error_falls_back.

(* a failing registration / unregistration leaves the registry as it was (shared with C12) *)
Theorem C15_failed_registry_step_is_noop :
  forall s o e, snd (step s o) = OutErr e -> fst (step s o) = s.
Proof. exact failed_step_is_noop. Qed.
Print Assumptions C15_failed_registry_step_is_noop.

Example C15_example :
  let c := {| c_nil := false; c_ns := 0; c_pred := Some (fun _ => false);
              c_reg := [{| rcls := 0; rns := 0; rid := 1; rpet := 0 |}]; c_ins := []; c_limit := 1000 |} in
  let o := Node HTuple [Leaf 1; Node (HCustom 0 0 EAbsent) [Leaf 2]] in
  (* 4 predicate calls + 1 custom flatten call *)
  (exists ls ns b, flatf c None 1001 0 o = Ok (ls, ns, b, 5%nat)) /\
  flatf c (Some 4%nat) 1001 0 o = Err (UserExn 99) /\
  flatf c (Some 6%nat) 1001 0 o = flatf c None 1001 0 o.
Proof. vm_compute. repeat split; eauto. Qed.
