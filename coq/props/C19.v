(* C19 — optree dataclasses and optree partial are faithful pytree nodes. The standard dataclass
   machinery (__init__ storing init fields, __post_init__ computing the others) is the Section
   parameter [post]; "the class is otherwise the one dataclasses.dataclass would produce" is checked
   against the standard library by the run, not modelled. *)
From OptreeModel Require Import Dataclass.
From OptreeProofs Require Import DataclassProofs.

Theorem C19_children_in_declaration_order :
  forall fs, map fname (children_fields fs) = map fname (filter fnode fs).
Proof. exact dc_children_in_declaration_order. Qed.
Print Assumptions C19_children_in_declaration_order.

(* every init field is a child or metadata, never both; non-init fields are neither *)
Theorem C19_partition :
  forall fs f, layout_ok fs = true -> In f fs ->
  (finit f = true -> (In f (children_fields fs) /\ ~ In f (metadata_fields fs)) \/
                     (~ In f (children_fields fs) /\ In f (metadata_fields fs))) /\
  (finit f = false -> ~ In f (children_fields fs) /\ ~ In f (metadata_fields fs)).
Proof. exact dc_partition. Qed.
Print Assumptions C19_partition.

Theorem C19_rejects_noninit_node :
  forall fs f, In f fs -> fnode f = true -> finit f = false -> layout_ok fs = false.
Proof. exact dc_rejects_noninit_node. Qed.
Print Assumptions C19_rejects_noninit_node.

(* unflatten(flatten(x)) = x for every layout (any order, any init / pytree_node flags) and every
   instance the class can produce, with __post_init__ re-run *)
Theorem C19_roundtrip :
  forall (V : Type) (post : inst V -> inst V) fs (x : inst V) children metadata,
    NoDup (map fname fs) -> layout_ok fs = true -> consistent V post fs x ->
    map (fun f => get V (fname f) x) (children_fields fs) = map Some children ->
    map (fun f => (fname f, get V (fname f) x)) (metadata_fields fs) = map (fun '(n, v) => (n, Some v)) metadata ->
    construct V post fs (kwargs_of V fs children metadata) = x.
Proof. exact dc_roundtrip. Qed.
Print Assumptions C19_roundtrip.

Theorem C19_partial_never_merged :
  forall f nargs kws, partial_flatten (optree_partial f nargs kws) = Some (nargs, kws, f).
Proof. exact partial_never_merged. Qed.
Print Assumptions C19_partial_never_merged.

Theorem C19_stdlib_partial_merges :
  forall g n k nargs kws,
  partial_flatten (stdlib_partial (CPartial g n k) nargs kws) = Some ((n + nargs)%nat, k ++ kws, g).
Proof. exact stdlib_partial_merges. Qed.
Print Assumptions C19_stdlib_partial_merges.

Example C19_example :
  let fs := [{| fname := 1; finit := true; fnode := true |}; {| fname := 2; finit := true; fnode := false |};
             {| fname := 3; finit := false; fnode := false |}; {| fname := 4; finit := true; fnode := true |}]%Z in
  layout_ok fs = true /\ map fname (children_fields fs) = [1; 4]%Z /\ map fname (metadata_fields fs) = [2]%Z /\
  layout_ok [{| fname := 1%Z; finit := false; fnode := true |}] = false.
Proof. vm_compute. auto. Qed.
