(* C02 — leaf order and node/leaf classification follow the documented rules. *)
From OptreeModel Require Import Base Tree Flatten Unflatten Spec.
From OptreeProofs Require Import Sort2Proofs BaseProofs RoundTrip SortProofs EqProofs OrderOfLeaves.
From Coq Require Import Permutation Sorted.

(* the sort returns a permutation of the keys, always *)
Theorem C02_sort_is_permutation : forall ks, Permutation (total_order_sort ks) ks.
Proof. exact total_order_sort_perm. Qed.
Print Assumptions C02_sort_is_permutation.

(* pairwise comparable keys: the result is sorted by "<" *)
Theorem C02_sort_stage1_sorted :
  forall ks, stage1_ok ks = true -> NoDup ks ->
  total_order_sort ks = isort key_ltb ks /\
  StronglySorted (fun a b => key_ltb a b = true) (isort key_ltb ks).
Proof. exact sort_stage1_sorted. Qed.
Print Assumptions C02_sort_stage1_sorted.

(* ... and does not depend on the insertion order *)
Theorem C02_sort_stage1_insertion_order_irrelevant :
  forall ks ks', stage1_ok ks = true -> NoDup ks -> Permutation ks ks' ->
  total_order_sort ks = total_order_sort ks'.
Proof. exact sort_stage1_perm_invariant. Qed.
Print Assumptions C02_sort_stage1_insertion_order_irrelevant.

(* neither sort possible: insertion order (what defect F5 violated in the engine) *)
Theorem C02_sort_fallback_is_insertion_order :
  forall ks, stage1_ok ks = false -> stage2_ok ks = false -> total_order_sort ks = ks.
Proof. exact sort_fallback_is_insertion_order. Qed.
Print Assumptions C02_sort_fallback_is_insertion_order.

(* consequently two dicts with the same items in different insertion orders flatten to the same
   leaves and to treespecs that == cannot tell apart *)
Theorem C02_dict_insertion_order_irrelevant :
  forall c fuel ks cs ks' cs' r,
    ins_ordered c = false ->
    apply_pred c (Node (HDict ks) cs) = false -> apply_pred c (Node (HDict ks') cs') = false ->
    length ks = length cs -> length ks' = length cs' ->
    Permutation (combine ks cs) (combine ks' cs') ->
    NoDup ks -> stage1_ok ks = true ->
    flat c fuel (Node (HDict ks) cs) = Ok r ->
    exists r', flat c fuel (Node (HDict ks') cs') = Ok r' /\
               r_ls r' = r_ls r /\ map core (r_ns r') = map core (r_ns r).
Proof. exact dict_insertion_order_irrelevant. Qed.
Print Assumptions C02_dict_insertion_order_irrelevant.

(* stage 2 (keys of several types, not all mutually comparable, but comparable within each type):
   sorted by (type name, key), independent of the insertion order *)
Theorem C02_sort_stage2_sorted :
  forall ks, stage1_ok ks = false -> stage2_ok ks = true -> NoDup ks ->
  total_order_sort ks = isort key2_ltb ks /\
  Sorted.StronglySorted (fun a b => key2_ltb a b = true) (isort key2_ltb ks).
Proof. exact sort_stage2_sorted. Qed.
Print Assumptions C02_sort_stage2_sorted.

Theorem C02_sort_insertion_order_irrelevant :
  forall ks ks', (stage1_ok ks = true \/ stage2_ok ks = true) -> NoDup ks -> Permutation ks ks' ->
  total_order_sort ks = total_order_sort ks'.
Proof. exact sort_perm_invariant. Qed.
Print Assumptions C02_sort_insertion_order_irrelevant.

(* so two dicts with the same items in different insertion orders flatten alike whenever their keys
   can be sorted at all; when they cannot, the documented fallback is the insertion order itself *)
Theorem C02_dict_insertion_order_irrelevant_any :
  forall c fuel ks cs ks' cs' r,
    ins_ordered c = false ->
    apply_pred c (Node (HDict ks) cs) = false -> apply_pred c (Node (HDict ks') cs') = false ->
    length ks = length cs -> length ks' = length cs' ->
    Permutation (combine ks cs) (combine ks' cs') ->
    NoDup ks -> (stage1_ok ks = true \/ stage2_ok ks = true) ->
    flat c fuel (Node (HDict ks) cs) = Ok r ->
    exists r', flat c fuel (Node (HDict ks') cs') = Ok r' /\
               r_ls r' = r_ls r /\ map core (r_ns r') = map core (r_ns r).
Proof. exact dict_insertion_order_irrelevant_any. Qed.
Print Assumptions C02_dict_insertion_order_irrelevant_any.

Theorem C02_pred_before_registry :
  forall c fuel o, apply_pred c o = true -> flat c (S fuel) o = Ok ([o], [leaf_node], false).
Proof. exact pred_before_registry. Qed.
Print Assumptions C02_pred_before_registry.

Theorem C02_unregistered_is_leaf :
  forall c fuel cls meta eb cs,
    apply_pred c (Node (HCustom cls meta eb) cs) = false -> lookup_reg c cls = None ->
    flat c (S fuel) (Node (HCustom cls meta eb) cs) =
    Ok ([Node (HCustom cls meta eb) cs], [leaf_node], false).
Proof. exact unregistered_is_leaf. Qed.
Print Assumptions C02_unregistered_is_leaf.

Theorem C02_lookup_shadowing :
  forall c cls, lookup_reg c cls =
    match (if Z.eqb (c_ns c) 0 then None else find_reg cls (c_ns c) (c_reg c)) with
    | Some r => Some r
    | None => find_reg cls 0 (c_reg c)
    end.
Proof. exact lookup_shadowing. Qed.
Print Assumptions C02_lookup_shadowing.

Theorem C02_none_node_or_leaf :
  forall c fuel, apply_pred c ONone = false ->
  flat c (S fuel) ONone =
  if c_nil c then Ok ([ONone], [leaf_node], false)
  else Ok ([], [{| nkind := KdNone; narity := 0; ndat := DNone; nentries := None; ncustom := None;
                  nleaves := 0; nnodes := 1; norig := None |}], false).
Proof. exact none_node_or_leaf. Qed.
Print Assumptions C02_none_node_or_leaf.

Theorem C02_ordereddict_insertion_order : forall c ks, visit_keys c KdODict ks = ks.
Proof. exact ordereddict_insertion_order. Qed.
Print Assumptions C02_ordereddict_insertion_order.

Theorem C02_dict_visit_order :
  forall c k ks, k = KdDict \/ k = KdDDict ->
  visit_keys c k ks = if ins_ordered c then ks else total_order_sort ks.
Proof. exact dict_visit_order. Qed.
Print Assumptions C02_dict_visit_order.

(* non-vacuity: mixed keys (stage 2), unsortable keys (fallback) *)
Example C02_example :
  total_order_sort [KInt 3; KStr [97]; KInt 1; KFloat 0] = [KFloat 0; KInt 1; KInt 3; KStr [97]] /\
  total_order_sort [KInt 1; KInt 3; KInt 2; KCplx 1; KCplx 2] = [KInt 1; KInt 3; KInt 2; KCplx 1; KCplx 2] /\
  stage1_ok [KInt 3; KFloat 2; KInt 1] = true.
Proof. vm_compute. auto. Qed.
