(* C18 — the Python twins of engine logic give the same answers as the engine. *)
From OptreeModel Require Import Base Typing.
From OptreeProofs Require Import TypingProofs SortProofs.

(* namedtuple recognition: equal on EVERY trait vector (look-alikes missing one trait are just points
   of that space) *)
Theorem C18_namedtuple_twins_agree :
  forall t, python_is_namedtuple true t = engine_is_namedtuple t.
Proof. exact namedtuple_twins_agree. Qed.
Print Assumptions C18_namedtuple_twins_agree.

Theorem C18_namedtuple_twins_refuted_unchanged :
  exists t, python_is_namedtuple false t <> engine_is_namedtuple t.
Proof. exact namedtuple_twins_refuted_unchanged. Qed.
Print Assumptions C18_namedtuple_twins_refuted_unchanged.

(* struct-sequence recognition *)
Theorem C18_structseq_twins_agree :
  forall t, (t_bases_tuple t = true -> t_tuple_sub t = true) ->
  t_nf t <> ASubclass -> t_nsf t <> ASubclass -> t_nuf t <> ASubclass ->
  python_is_structseq t = engine_is_structseq t.
Proof. exact structseq_twins_agree. Qed.
Print Assumptions C18_structseq_twins_agree.

Theorem C18_structseq_twins_agree_python_classes :
  forall t, t_basetype t = true -> python_is_structseq t = engine_is_structseq t.
Proof. exact structseq_twins_agree_python_classes. Qed.
Print Assumptions C18_structseq_twins_agree_python_classes.

(* The answers do not depend on what was classified before, on how many classes have been seen, or on
   classes having been garbage-collected and their addresses reused: for every history and every
   capacity, a query returns the classification of the class living at that address now.
   Assumption built into the model: the weak-reference callback of a dying class runs before its
   address is reused (CPython's contract), and a class's traits do not change while it is alive. *)
Theorem C18_cache_transparent :
  forall (rec : traits -> bool) ops capacity a t,
    let s := crun rec {| live := []; memo := []; cap := capacity |} ops in
    zlookup a (live s) = Some t -> snd (cstep rec s (CQuery a)) = Some (rec t).
Proof. exact cache_transparent. Qed.
Print Assumptions C18_cache_transparent.

(* the two sorts: both are [total_order_sort]; its properties are C02's; in particular a doubly
   failed sort leaves the insertion order (the engine's in-place sort did not: defect F5) *)
Theorem C18_sort_fallback :
  forall ks, stage1_ok ks = false -> stage2_ok ks = false -> total_order_sort ks = ks.
Proof. exact sort_fallback_is_insertion_order. Qed.
Print Assumptions C18_sort_fallback.

Example C18_example :
  let nt := {| t_is_type := true; t_tuple_sub := true; t_fields := AExact; t_fields_all_str := true;
               t_make := true; t_asdict := true; t_bases_tuple := false; t_nf := AMissing; t_nsf := AMissing;
               t_nuf := AMissing; t_basetype := true |} in
  let look := {| t_is_type := true; t_tuple_sub := true; t_fields := AExact; t_fields_all_str := true;
                 t_make := false; t_asdict := true; t_bases_tuple := true; t_nf := AExact; t_nsf := AExact;
                 t_nuf := AExact; t_basetype := true |} in
  (* address 7 is reused by a class of the other kind after the first one died *)
  let s := crun engine_is_namedtuple {| live := []; memo := []; cap := 1 |}
                [CCreate 7 nt; CQuery 7; CFree 7; CCreate 7 look; CCreate 8 nt; CQuery 8] in
  snd (cstep engine_is_namedtuple s (CQuery 7)) = Some false /\
  snd (cstep engine_is_namedtuple s (CQuery 8)) = Some true.
Proof. vm_compute. auto. Qed.
