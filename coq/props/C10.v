(* C10 — transposition swaps outer and inner structure without losing or moving values. *)
From OptreeModel Require Import Base Tree Flatten Unflatten Spec Construct Ops.
From OptreeProofs Require Import OpsProofs Subst TransposeProofs TransposeInvol.

(* tree_transpose groups the m*n leaves into m chunks of n and zips them: for ALL m, n > 0 the
   value at (inner j, outer i) of the result is the input value at (outer i, inner j) *)
Theorem C10_transpose_value :
  forall (A : Type) (d : A) n m (ls : list A) i j,
    length ls = (m * n)%nat -> (i < m)%nat -> (j < n)%nat ->
    nth i (nth j (zip_cols n (chunks n m ls)) []) d = nth (i * n + j) ls d.
Proof. exact @transpose_nth. Qed.
Print Assumptions C10_transpose_value.

(* n groups (one per inner leaf) of m values (one per outer leaf) *)
Theorem C10_transpose_shape :
  forall (A : Type) (d : A) n m (ls : list A),
    length ls = (m * n)%nat -> (0 < m)%nat ->
    length (zip_cols n (chunks n m ls)) = n /\
    forall row, In row (zip_cols n (chunks n m ls)) -> length row = m.
Proof. exact @transpose_shape. Qed.
Print Assumptions C10_transpose_shape.

(* empty structures and mismatching none_is_leaf raise ValueError *)
Theorem C10_transpose_errors :
  forall c outer inner t,
    (Bool.eqb (ss_nil outer) (ss_nil inner) = false \/
     st_leaves (stree_of outer) = O \/ st_leaves (stree_of inner) = O) ->
    tree_transpose c outer inner t = Err ValueError.
Proof. exact transpose_errors. Qed.
Print Assumptions C10_transpose_errors.

Theorem C10_transpose_ns_error :
  forall c outer inner t,
    ns_compatible (ss_ns outer) (ss_ns inner) = false ->
    tree_transpose c outer inner t = Err ValueError.
Proof. exact transpose_ns_error. Qed.
Print Assumptions C10_transpose_ns_error.

(* a wrong leaf count raises TypeError *)
Theorem C10_transpose_wrong_count :
  forall c outer inner t ls sp,
    Bool.eqb (ss_nil outer) (ss_nil inner) = true ->
    st_leaves (stree_of outer) <> O -> st_leaves (stree_of inner) <> O ->
    ns_compatible (ss_ns outer) (ss_ns inner) = true ->
    flatten {| c_nil := ss_nil outer;
               c_ns := if Z.eqb (ss_ns outer) 0 then ss_ns inner else ss_ns outer;
               c_pred := c_pred c; c_reg := c_reg c; c_ins := c_ins c; c_limit := c_limit c |} t
      = Ok (ls, sp) ->
    length ls <> (st_leaves (stree_of outer) * st_leaves (stree_of inner))%nat ->
    tree_transpose c outer inner t = Err TypeError.
Proof. exact transpose_wrong_count. Qed.
Print Assumptions C10_transpose_wrong_count.

(* THE SHAPE. For outer / inner treespecs that are the treespecs of trees (under the configuration
   tree_transpose itself flattens with) and a tree with m*n leaves, tree_transpose succeeds and returns
   a well-formed tree whose treespec is the inner treespec with every leaf replaced by the outer
   treespec — inner-of-outer — and whose leaves are the transposed values (C10_transpose_value says
   which value sits where). No predicate. *)
Theorem C10_transpose_is_inner_of_outer :
  forall c outer inner o_out o_in lo spo li spi t ls sp,
    let m := st_leaves (stree_of outer) in
    let n := st_leaves (stree_of inner) in
    let ct := {| c_nil := ss_nil outer;
                 c_ns := if Z.eqb (ss_ns outer) 0 then ss_ns inner else ss_ns outer;
                 c_pred := c_pred c; c_reg := c_reg c; c_ins := c_ins c; c_limit := c_limit c |} in
    Bool.eqb (ss_nil outer) (ss_nil inner) = true -> m <> O -> n <> O ->
    ns_compatible (ss_ns outer) (ss_ns inner) = true -> c_pred c = None ->
    wf_stree (stree_of outer) = true -> wf_stree (stree_of inner) = true ->
    wf_obj o_out = true -> wf_obj o_in = true -> wf_obj t = true ->
    flatten ct o_out = Ok (lo, spo) -> trav spo = encode (stree_of outer) ->
    flatten ct o_in = Ok (li, spi) -> trav spi = encode (stree_of inner) ->
    flatten ct t = Ok (ls, sp) -> length ls = (m * n)%nat ->
    exists r b, tree_transpose c outer inner t = Ok r /\ wf_obj r = true /\
      tflat ct (S (c_limit c) + S (c_limit c)) r =
        Ok (concat (zip_cols n (chunks n m ls)), st_compose (stree_of inner) (stree_of outer), b).
Proof. exact transpose_tree. Qed.
Print Assumptions C10_transpose_is_inner_of_outer.

(* TRANSPOSING BACK RETURNS THE ORIGINAL TREE. For outer / inner treespecs of trees and a tree t shaped
   outer-of-inner: if tree_transpose(outer, inner, t) = r and r flattens at all under the transposition's
   configuration (i.e. the way back does not hit the recursion limit — r is as deep as t, but nests the
   other way round), then tree_transpose(inner, outer, r) = t, the identical tree. At the level of the
   leaves: transposing the transposed grouping of any m * n values gives the values back. *)
Theorem C10_transpose_back :
  forall c outer inner o_out o_in lo spo li spi t ls sp r ls' sp',
    let m := st_leaves (stree_of outer) in
    let n := st_leaves (stree_of inner) in
    let ct := {| c_nil := ss_nil outer;
                 c_ns := if Z.eqb (ss_ns outer) 0 then ss_ns inner else ss_ns outer;
                 c_pred := c_pred c; c_reg := c_reg c; c_ins := c_ins c; c_limit := c_limit c |} in
    Bool.eqb (ss_nil outer) (ss_nil inner) = true -> m <> O -> n <> O ->
    ns_compatible (ss_ns outer) (ss_ns inner) = true -> c_pred c = None ->
    wf_stree (stree_of outer) = true -> wf_stree (stree_of inner) = true ->
    wf_obj o_out = true -> wf_obj o_in = true -> wf_obj t = true ->
    flatten ct o_out = Ok (lo, spo) -> trav spo = encode (stree_of outer) ->
    flatten ct o_in = Ok (li, spi) -> trav spi = encode (stree_of inner) ->
    flatten ct t = Ok (ls, sp) -> trav sp = encode (st_compose (stree_of outer) (stree_of inner)) ->
    tree_transpose c outer inner t = Ok r ->
    flatten ct r = Ok (ls', sp') ->
    tree_transpose c inner outer r = Ok t.
Proof. exact transpose_back. Qed.
Print Assumptions C10_transpose_back.

Theorem C10_transpose_involutive_on_leaves :
  forall (A : Type) (d : A) n m (ls : list A),
    length ls = (m * n)%nat -> (0 < m)%nat -> (0 < n)%nat ->
    concat (zip_cols m (chunks m n (concat (zip_cols n (chunks n m ls))))) = ls.
Proof. exact @transpose_involutive. Qed.
Print Assumptions C10_transpose_involutive_on_leaves.

Example C10_example :
  zip_cols 2 (chunks 2 3 [1; 2; 3; 4; 5; 6]) = [[1; 3; 5]; [2; 4; 6]].
Proof. reflexivity. Qed.
