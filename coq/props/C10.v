(* C10 — transposition swaps outer and inner structure without losing or moving values. *)
From OptreeModel Require Import Base Tree Flatten Unflatten Spec Ops.
From OptreeProofs Require Import OpsProofs.

(* tree_transpose groups the m*n leaves into m chunks of n and zips them: for ALL m, n > 0 the
   value at (inner j, outer i) of the result is the input value at (outer i, inner j) *)
Theorem C10_transpose_value :
  forall (A : Type) (d : A) n m (ls : list A) i j,
    length ls = (m * n)%nat -> (i < m)%nat -> (j < n)%nat ->
    nth i (nth j (zip_cols n (chunks n m ls)) []) d = nth (i * n + j) ls d.
Proof. exact @transpose_nth. Qed.
Print Assumptions C10_transpose_value.

(* n groups (one per inner leaf) of m values (one per outer leaf) *)
Theorem C10_transpose_shape :
  forall (A : Type) (d : A) n m (ls : list A),
    length ls = (m * n)%nat -> (0 < m)%nat ->
    length (zip_cols n (chunks n m ls)) = n /\
    forall row, In row (zip_cols n (chunks n m ls)) -> length row = m.
Proof. exact @transpose_shape. Qed.
Print Assumptions C10_transpose_shape.

(* empty structures and mismatching none_is_leaf raise ValueError *)
Theorem C10_transpose_errors :
  forall c outer inner t,
    (Bool.eqb (ss_nil outer) (ss_nil inner) = false \/
     st_leaves (stree_of outer) = O \/ st_leaves (stree_of inner) = O) ->
    tree_transpose c outer inner t = Err ValueError.
Proof. exact transpose_errors. Qed.
Print Assumptions C10_transpose_errors.

Theorem C10_transpose_ns_error :
  forall c outer inner t,
    ns_compatible (ss_ns outer) (ss_ns inner) = false ->
    tree_transpose c outer inner t = Err ValueError.
Proof. exact transpose_ns_error. Qed.
Print Assumptions C10_transpose_ns_error.

(* a wrong leaf count raises TypeError *)
Theorem C10_transpose_wrong_count :
  forall c outer inner t ls sp,
    Bool.eqb (ss_nil outer) (ss_nil inner) = true ->
    st_leaves (stree_of outer) <> O -> st_leaves (stree_of inner) <> O ->
    ns_compatible (ss_ns outer) (ss_ns inner) = true ->
    flatten {| c_nil := ss_nil outer;
               c_ns := if Z.eqb (ss_ns outer) 0 then ss_ns inner else ss_ns outer;
               c_pred := c_pred c; c_reg := c_reg c; c_ins := c_ins c; c_limit := c_limit c |} t
      = Ok (ls, sp) ->
    length ls <> (st_leaves (stree_of outer) * st_leaves (stree_of inner))%nat ->
    tree_transpose c outer inner t = Err TypeError.
Proof. exact transpose_wrong_count. Qed.
Print Assumptions C10_transpose_wrong_count.

Example C10_example :
  zip_cols 2 (chunks 2 3 [1; 2; 3; 4; 5; 6]) = [[1; 3; 5]; [2; 4; 6]].
Proof. reflexivity. Qed.
