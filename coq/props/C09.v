(* C09 — broadcasting replicates prefix leaves onto the matching positions.
   Proved here: the join on structured treespecs is the least upper bound in the prefix order, it
   preserves the side conditions, the n-ary left fold is an upper bound of every operand and a fixed
   point of a second pass; the Python-level replication laws are decided by the correspondence/oracle
   run (DESIGN §7 C09). *)
From OptreeModel Require Import Base Tree Flatten Unflatten Spec Construct Ops JoinArr.
From OptreeProofs Require Import SpecProofs OrderProofs PrefixOrder JoinOrder JoinLeast FlattenGood PrefixAntisym JoinFold JoinArrProofs Subst JoinRealise BroadcastProofs PrefixAntisym BroadcastEquiv.

(* a leaf is replaced by the other operand's subtree, whichever side it is on *)
Theorem C09_join_leaf_l : forall b, st_join st_leaf b = Ok b.
Proof. exact join_leaf_l. Qed.
Print Assumptions C09_join_leaf_l.

Theorem C09_join_leaf_r :
  forall a, is_leaf_node (st_node a) = false -> st_join a st_leaf = Ok a.
Proof. exact join_leaf_r. Qed.
Print Assumptions C09_join_leaf_r.

(* each operand's own node types, key order, custom path entries and original keys are kept: where
   both operands are internal nodes the result carries the FIRST operand's node (this is the
   statement defect F2 violated for node_entries) *)
Theorem C09_join_keeps_own_node :
  forall a b j, st_join a b = Ok j ->
    is_leaf_node (st_node a) = false -> is_leaf_node (st_node b) = false ->
    nkind (st_node j) = nkind (st_node a) /\ ndat (st_node j) = ndat (st_node a) /\
    nentries (st_node j) = nentries (st_node a) /\ ncustom (st_node j) = ncustom (st_node a) /\
    norig (st_node j) = norig (st_node a).
Proof. exact join_keeps_own_node. Qed.
Print Assumptions C09_join_keeps_own_node.

Theorem C09_broadcast_option_errors :
  forall a b, (ss_nil a <> ss_nil b \/ ns_compatible (ss_ns a) (ss_ns b) = false) ->
              ss_broadcast a b = Err ValueError.
Proof. exact broadcast_option_errors. Qed.
Print Assumptions C09_broadcast_option_errors.

Theorem C09_broadcast_namespace :
  forall a b j, ss_broadcast a b = Ok j ->
                ss_nil j = ss_nil a /\ ss_ns j = ns_merge (ss_ns a) (ss_ns b).
Proof. exact broadcast_namespace. Qed.
Print Assumptions C09_broadcast_namespace.

(* The result of broadcast_to_common_suffix is an UPPER BOUND of both operands in the prefix order:
   each operand is a prefix of it. Side condition `good`: dict nodes carry as many distinct keys as
   children, arities match, only custom nodes carry a registration, None nodes are childless —
   C09_flatten_gives_good_treespecs shows it for every treespec flatten produces. *)
Theorem C09_join_is_upper_bound :
  forall a b j, good a = true -> good b = true -> st_join a b = Ok j ->
  fst (st_prefix a j) = true /\ fst (st_prefix b j) = true.
Proof. exact join_upper_bound. Qed.
Print Assumptions C09_join_is_upper_bound.

(* ... and it is the LEAST one: whenever the two operands have any common upper bound u, the broadcast
   succeeds and its result is a prefix of u. Together: broadcast_to_common_suffix computes the least
   upper bound of its operands in the prefix order, and fails only when they have no upper bound. *)
Theorem C09_join_is_least :
  forall a b u, good a = true -> good b = true ->
  fst (st_prefix a u) = true -> fst (st_prefix b u) = true ->
  exists j, st_join a b = Ok j /\ fst (st_prefix j u) = true.
Proof. exact join_least. Qed.
Print Assumptions C09_join_is_least.

Theorem C09_flatten_gives_good_treespecs :
  forall c o ls sp, wf_obj o = true -> flatten c o = Ok (ls, sp) ->
  exists s, sspec_of sp = Some s /\ good (stree_of s) = true.
Proof. exact flatten_good. Qed.
Print Assumptions C09_flatten_gives_good_treespecs.

(* hence for two flattened trees: whenever their treespecs broadcast, both are prefixes of the result *)
Corollary C09_broadcast_of_flattened_is_upper_bound :
  forall c1 o1 ls1 sp1 c2 o2 ls2 sp2 s1 s2 j,
    wf_obj o1 = true -> wf_obj o2 = true ->
    flatten c1 o1 = Ok (ls1, sp1) -> flatten c2 o2 = Ok (ls2, sp2) ->
    sspec_of sp1 = Some s1 -> sspec_of sp2 = Some s2 ->
    st_join (stree_of s1) (stree_of s2) = Ok j ->
    fst (st_prefix (stree_of s1) j) = true /\ fst (st_prefix (stree_of s2) j) = true.
Proof.
  intros c1 o1 ls1 sp1 c2 o2 ls2 sp2 s1 s2 j W1 W2 F1 F2 S1 S2 Hj.
  destruct (flatten_good c1 o1 ls1 sp1 W1 F1) as (t1 & E1 & G1).
  destruct (flatten_good c2 o2 ls2 sp2 W2 F2) as (t2 & E2 & G2).
  rewrite S1 in E1. injection E1 as <-. rewrite S2 in E2. injection E2 as <-.
  exact (join_upper_bound (stree_of s1) (stree_of s2) j G1 G2 Hj).
Qed.
Print Assumptions C09_broadcast_of_flattened_is_upper_bound.

(* the join of two good treespecs is good again — so joins can be chained *)
Theorem C09_join_preserves_side_conditions :
  forall a b j, good a = true -> good b = true -> st_join a b = Ok j -> good j = true.
Proof. exact join_good. Qed.
Print Assumptions C09_join_preserves_side_conditions.

(* MORE THAN TWO OPERANDS (ops.py _tree_broadcast_common, first pass): the left fold of joins is an
   upper bound of every operand, and it exists whenever the operands have any common upper bound *)
Theorem C09_fold_is_upper_bound :
  forall l s0 J, good s0 = true -> forallb good l = true -> join_fold s0 l = Ok J ->
  good J = true /\ fst (st_prefix s0 J) = true /\ Forall (fun s => fst (st_prefix s J) = true) l.
Proof. exact join_fold_upper_bound. Qed.
Print Assumptions C09_fold_is_upper_bound.

Theorem C09_fold_exists :
  forall l s0 u, good s0 = true -> forallb good l = true ->
  fst (st_prefix s0 u) = true -> Forall (fun s => fst (st_prefix s u) = true) l ->
  exists J, join_fold s0 l = Ok J /\ fst (st_prefix J u) = true.
Proof. exact join_fold_exists. Qed.
Print Assumptions C09_fold_exists.

(* THE SECOND PASS SUFFICES: joining the fold with any operand once more succeeds and gives an
   equivalent treespec (same tree up to dict kind / key order / deque maxlen) — a fixed point *)
Theorem C09_second_pass_is_a_fixed_point :
  forall l s0 J, good s0 = true -> forallb good l = true -> join_fold s0 l = Ok J ->
  Forall (fun s => exists j, st_join J s = Ok j /\ st_prefix J j = (true, true) /\ st_prefix j J = (true, true))
         (s0 :: l).
Proof. exact second_pass_is_a_fixed_point. Qed.
Print Assumptions C09_second_pass_is_a_fixed_point.

(* THE C++ WALK ITSELF. PyTreeSpec::BroadcastToCommonSuffix as treespec.cpp runs it — the recursive
   walk over both node arrays by position from their ends, a leaf on either side copying the other
   side's whole subtree, the nodes emitted root-first into a vector reversed at the end with the
   counters of every emitted internal node patched in place, the other node's children of a dict node
   found through a table of positions looked up by key, the four consistency checks at the end —
   returns exactly the encoding of the tree-level join, with the same error otherwise. *)
Theorem C09_cpp_broadcast_walk_is_tree_join :
  forall c1 o1 ls1 sp1 s1 c2 o2 ls2 sp2 s2,
    wf_obj o1 = true -> wf_obj o2 = true ->
    flatten c1 o1 = Ok (ls1, sp1) -> flatten c2 o2 = Ok (ls2, sp2) ->
    sspec_of sp1 = Some s1 -> sspec_of sp2 = Some s2 ->
    arr_broadcast sp1 sp2 = match ss_broadcast s1 s2 with Ok j => Ok (spec_of j) | Err e => Err e end.
Proof. exact arr_broadcast_of_flattened. Qed.
Print Assumptions C09_cpp_broadcast_walk_is_tree_join.

Theorem C09_cpp_broadcast_walk_general :
  forall a b,
    wf_stree (stree_of a) = true -> good (stree_of a) = true ->
    wf_stree (stree_of b) = true -> good (stree_of b) = true ->
    arr_broadcast (spec_of a) (spec_of b) = match ss_broadcast a b with Ok j => Ok (spec_of j) | Err e => Err e end.
Proof. exact arr_broadcast_spec. Qed.
Print Assumptions C09_cpp_broadcast_walk_general.

(* the join of treespecs with consistent counters has consistent counters *)
Theorem C09_join_preserves_counters :
  forall a b j, wf_stree a = true -> wf_stree b = true -> st_join a b = Ok j -> wf_stree j = true.
Proof. exact join_wf. Qed.
Print Assumptions C09_join_preserves_counters.

(* REPLICATION. tree_broadcast_prefix(prefix, full) — when flatten_up_to of the prefix's treespec
   succeeds on the full tree and the subtrees found there flatten — returns a well-formed tree r such
   that: r is the prefix's treespec unflattened with "the subtree at that leaf's path with every leaf
   replaced by the prefix leaf"; flattening r gives every prefix leaf repeated once per leaf of its
   subtree, in order (what broadcast_prefix returns), and r's treespec is the prefix's treespec with
   every leaf replaced by the treespec of the subtree at its path (the full tree's structure, with the
   prefix's own node types and key order above). No predicate; every configuration otherwise. *)
Theorem C09_tree_broadcast_prefix_replicates :
  forall c p full lsp spp s subs rs,
    c_pred c = None -> wf_obj p = true -> wf_obj full = true ->
    flatten c p = Ok (lsp, spp) -> sspec_of spp = Some s ->
    ss_flatten_up_to (c_reg c) s full = Ok subs ->
    Forall2 (fun sub r => flatten c sub = Ok r) subs rs ->
    exists r t t' b,
      tree_broadcast_prefix c p full = Ok r /\ wf_obj r = true /\
      decode (trav spp) = Some t /\
      Subst t (map (fun q => match decode (trav (snd q)) with Some u => u | None => st_leaf end) rs) t' /\
      tflat c (S (c_limit c) + S (c_limit c)) r =
        Ok (concat (map (fun xq => repeat (fst xq) (length (fst (snd xq)))) (combine lsp rs)), t', b).
Proof. exact tree_broadcast_prefix_spec. Qed.
Print Assumptions C09_tree_broadcast_prefix_replicates.

(* broadcast_prefix returns exactly those replicated leaves (any configuration, predicate included) *)
Theorem C09_broadcast_prefix_leaves :
  forall c p full lsp spp s subs rs,
    wf_obj p = true -> wf_obj full = true ->
    flatten c p = Ok (lsp, spp) -> sspec_of spp = Some s ->
    ss_flatten_up_to (c_reg c) s full = Ok subs ->
    Forall2 (fun sub r => flatten c sub = Ok r) subs rs ->
    broadcast_prefix c p full =
      Ok (concat (map (fun xq => repeat (fst xq) (length (fst (snd xq)))) (combine lsp rs))).
Proof. exact broadcast_prefix_spec. Qed.
Print Assumptions C09_broadcast_prefix_leaves.

(* THE COMMON SUFFIX IS THE TREESPEC OF A TREE: whenever the treespecs of two trees broadcast, there is
   a well-formed tree whose treespec is the common suffix (built from the operands' own containers) —
   so tree_broadcast_common can always build the tree it matches the operands against *)
Theorem C09_common_suffix_is_realisable :
  forall c, c_pred c = None -> forall fuel o1 o2 ls1 t1 b1 ls2 t2 b2 j,
    wf_obj o1 = true -> wf_obj o2 = true ->
    tflat c fuel o1 = Ok (ls1, t1, b1) -> tflat c fuel o2 = Ok (ls2, t2, b2) -> st_join t1 t2 = Ok j ->
    exists oj, wf_obj oj = true /\ exists lsj bj, tflat c fuel oj = Ok (lsj, j, bj).
Proof. exact join_realise. Qed.
Print Assumptions C09_common_suffix_is_realisable.

(* tree_broadcast_common(t, o): whenever the two treespecs broadcast, it succeeds; the tree it builds
   from the common suffix flattens to exactly that treespec (sentinel leaves), and each result is
   tree_broadcast_prefix of the operand against that tree — so C09_tree_broadcast_prefix_replicates
   describes both results: leaves replicated per subtree, the operand's own node types and key order
   above, the common structure below *)
Theorem C09_tree_broadcast_common :
  forall c t o ls1 sp1 s1 ls2 sp2 s2 cs,
    c_pred c = None -> wf_obj t = true -> wf_obj o = true ->
    flatten c t = Ok (ls1, sp1) -> sspec_of sp1 = Some s1 ->
    flatten c o = Ok (ls2, sp2) -> sspec_of sp2 = Some s2 ->
    ss_broadcast s1 s2 = Ok cs ->
    exists ctree spc b1 b2,
      wf_obj ctree = true /\
      flatten c ctree = Ok (repeat sentinel (st_leaves (stree_of cs)), spc) /\ trav spc = encode (stree_of cs) /\
      tree_broadcast_common c t o = Ok (b1, b2) /\
      tree_broadcast_prefix c t ctree = Ok b1 /\ tree_broadcast_prefix c o ctree = Ok b2.
Proof. exact tree_broadcast_common_spec. Qed.
Print Assumptions C09_tree_broadcast_common.

(* THE LATTICE LAWS of property C09, up to the dict-kind / key-order / maxlen equivalence
   (st_prefix x y = (true, true) both ways): independent of the argument order, idempotent, and equal
   to the other operand when one operand is already a prefix of it *)
Theorem C09_join_commutes_up_to_equivalence :
  forall a b j, good a = true -> good b = true -> st_join a b = Ok j ->
  exists j', st_join b a = Ok j' /\ st_prefix j j' = (true, true) /\ st_prefix j' j = (true, true).
Proof. exact join_comm_equiv. Qed.
Print Assumptions C09_join_commutes_up_to_equivalence.

Theorem C09_join_idempotent :
  forall a, good a = true -> exists j, st_join a a = Ok j /\ st_prefix a j = (true, true) /\ st_prefix j a = (true, true).
Proof. exact join_idem_equiv. Qed.
Print Assumptions C09_join_idempotent.

Theorem C09_join_of_prefix_is_the_other_operand :
  forall a b, good a = true -> good b = true -> fst (st_prefix a b) = true ->
  exists j, st_join a b = Ok j /\ st_prefix b j = (true, true) /\ st_prefix j b = (true, true).
Proof. exact join_prefix_equiv. Qed.
Print Assumptions C09_join_of_prefix_is_the_other_operand.

(* THE RESULT HAS THE STRUCTURE OF THE FULL TREE: tree_broadcast_prefix(p, full) returns a well-formed tree
   whose leaves are the prefix's leaves replicated and whose treespec is equivalent to the treespec of
   `full` (st_prefix both ways with every leaf matched: the same tree up to dict kind / key order /
   maxlen, p's own node types and key order above) *)
Theorem C09_broadcast_prefix_result_has_full_structure :
  forall c p full lsp spp s subs rs lf spf,
    c_pred c = None -> wf_obj p = true -> wf_obj full = true ->
    flatten c p = Ok (lsp, spp) -> sspec_of spp = Some s ->
    ss_flatten_up_to (c_reg c) s full = Ok subs ->
    Forall2 (fun sub r => flatten c sub = Ok r) subs rs ->
    flatten c full = Ok (lf, spf) ->
    exists r t' tf b,
      tree_broadcast_prefix c p full = Ok r /\ wf_obj r = true /\
      tflat c (S (c_limit c) + S (c_limit c)) r =
        Ok (concat (map (fun xq => repeat (fst xq) (length (fst (snd xq)))) (combine lsp rs)), t', b) /\
      decode (trav spf) = Some tf /\ E t' tf.
Proof. exact tree_broadcast_prefix_structure. Qed.
Print Assumptions C09_broadcast_prefix_result_has_full_structure.

(* BOTH RESULTS OF tree_broadcast_common HAVE THE COMMON STRUCTURE: whenever the treespecs of t and o
   broadcast to cs, tree_broadcast_common(t, o) returns two well-formed trees whose treespecs are both
   equivalent (E) to cs, with exactly as many leaves as cs has *)
Theorem C09_broadcast_common_results_share_the_common_structure :
  forall c t o ls1 sp1 s1 ls2 sp2 s2 cs,
    c_pred c = None -> wf_obj t = true -> wf_obj o = true ->
    flatten c t = Ok (ls1, sp1) -> sspec_of sp1 = Some s1 ->
    flatten c o = Ok (ls2, sp2) -> sspec_of sp2 = Some s2 ->
    ss_broadcast s1 s2 = Ok cs ->
    exists b1 b2 l1 t1' bb1 l2 t2' bb2,
      tree_broadcast_common c t o = Ok (b1, b2) /\ wf_obj b1 = true /\ wf_obj b2 = true /\
      tflat c (S (c_limit c) + S (c_limit c)) b1 = Ok (l1, t1', bb1) /\
      tflat c (S (c_limit c) + S (c_limit c)) b2 = Ok (l2, t2', bb2) /\
      E t1' (stree_of cs) /\ E t2' (stree_of cs) /\
      length l1 = st_leaves (stree_of cs) /\ length l2 = st_leaves (stree_of cs).
Proof. exact tree_broadcast_common_structure. Qed.
Print Assumptions C09_broadcast_common_results_share_the_common_structure.

Example C09_example :
  let c := {| c_nil := false; c_ns := 1; c_pred := None;
              c_reg := [{| rcls := 0; rns := 1; rid := 1; rpet := 3 |}]; c_ins := []; c_limit := 1000 |} in
  let t1 := Node (HCustom 0 0 (EGiven [KStr [120]; KStr [121]])) [Leaf 1; Node HTuple [Leaf 2; Leaf 3]] in
  let t2 := Node (HCustom 0 0 (EGiven [KStr [120]; KStr [121]])) [Node HTuple [Leaf 1; Leaf 2]; Leaf 3] in
  exists l1 a l2 b sa sb j,
    flatten c t1 = Ok (l1, a) /\ flatten c t2 = Ok (l2, b) /\
    sspec_of a = Some sa /\ sspec_of b = Some sb /\ ss_broadcast sa sb = Ok j /\
    st_paths (stree_of j) = [[KStr [120]; KInt 0]; [KStr [120]; KInt 1]; [KStr [121]; KInt 0]; [KStr [121]; KInt 1]] /\
    broadcast_prefix c (Node HTuple [Leaf 1; Leaf 2]) (Node HTuple [Node HList [Leaf 5; Leaf 6]; Leaf 7])
      = Ok [Leaf 1; Leaf 1; Leaf 2].
Proof. vm_compute. do 7 eexists. repeat split. Qed.
