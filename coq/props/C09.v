(* C09 — broadcasting replicates prefix leaves onto the matching positions.
   Proved here: the node-level laws of the join on structured treespecs; "least upper bound" and the
   Python-level replication laws are decided by the correspondence/oracle run (DESIGN §7 C09). *)
From OptreeModel Require Import Base Tree Flatten Unflatten Spec Ops.
From OptreeProofs Require Import SpecProofs OrderProofs.

(* a leaf is replaced by the other operand's subtree, whichever side it is on *)
Theorem C09_join_leaf_l : forall b, st_join st_leaf b = Ok b.
Proof. exact join_leaf_l. Qed.
Print Assumptions C09_join_leaf_l.

Theorem C09_join_leaf_r :
  forall a, is_leaf_node (st_node a) = false -> st_join a st_leaf = Ok a.
Proof. exact join_leaf_r. Qed.
Print Assumptions C09_join_leaf_r.

(* each operand's own node types, key order, custom path entries and original keys are kept: where
   both operands are internal nodes the result carries the FIRST operand's node (this is the
   statement defect F2 violated for node_entries) *)
Theorem C09_join_keeps_own_node :
  forall a b j, st_join a b = Ok j ->
    is_leaf_node (st_node a) = false -> is_leaf_node (st_node b) = false ->
    nkind (st_node j) = nkind (st_node a) /\ ndat (st_node j) = ndat (st_node a) /\
    nentries (st_node j) = nentries (st_node a) /\ ncustom (st_node j) = ncustom (st_node a) /\
    norig (st_node j) = norig (st_node a).
Proof. exact join_keeps_own_node. Qed.
Print Assumptions C09_join_keeps_own_node.

Theorem C09_broadcast_option_errors :
  forall a b, (ss_nil a <> ss_nil b \/ ns_compatible (ss_ns a) (ss_ns b) = false) ->
              ss_broadcast a b = Err ValueError.
Proof. exact broadcast_option_errors. Qed.
Print Assumptions C09_broadcast_option_errors.

Theorem C09_broadcast_namespace :
  forall a b j, ss_broadcast a b = Ok j ->
                ss_nil j = ss_nil a /\ ss_ns j = ns_merge (ss_ns a) (ss_ns b).
Proof. exact broadcast_namespace. Qed.
Print Assumptions C09_broadcast_namespace.

Example C09_example :
  let c := {| c_nil := false; c_ns := 1; c_pred := None;
              c_reg := [{| rcls := 0; rns := 1; rid := 1; rpet := 3 |}]; c_ins := []; c_limit := 1000 |} in
  let t1 := Node (HCustom 0 0 (EGiven [KStr [120]; KStr [121]])) [Leaf 1; Node HTuple [Leaf 2; Leaf 3]] in
  let t2 := Node (HCustom 0 0 (EGiven [KStr [120]; KStr [121]])) [Node HTuple [Leaf 1; Leaf 2]; Leaf 3] in
  exists l1 a l2 b sa sb j,
    flatten c t1 = Ok (l1, a) /\ flatten c t2 = Ok (l2, b) /\
    sspec_of a = Some sa /\ sspec_of b = Some sb /\ ss_broadcast sa sb = Ok j /\
    st_paths (stree_of j) = [[KStr [120]; KInt 0]; [KStr [120]; KInt 1]; [KStr [121]; KInt 0]; [KStr [121]; KInt 1]] /\
    broadcast_prefix c (Node HTuple [Leaf 1; Leaf 2]) (Node HTuple [Node HList [Leaf 5; Leaf 6]; Leaf 7])
      = Ok [Leaf 1; Leaf 1; Leaf 2].
Proof. vm_compute. do 7 eexists. repeat split. Qed.
