(* C01 — flatten then unflatten reconstructs the same tree.
   This file contains only statements, each closed by [exact] of a lemma proved in proofs/, and a
   Print Assumptions per theorem. *)
From OptreeModel Require Import Base Tree Flatten Unflatten Spec Construct.
From OptreeProofs Require Import RoundTrip Replace Subst.

(* For every configuration (none_is_leaf, namespace, any predicate, any registry, any dict-order
   mode, any depth limit) and every well-formed object: if flatten succeeds, unflattening the
   returned treespec with the returned leaves gives back the object itself — Leibniz equality of
   [obj]: same container type at every node, same keys in the original insertion order, same
   metadata (namedtuple / struct-sequence class, deque maxlen, defaultdict factory, custom metadata)
   and the same leaves at the same positions. *)
Theorem C01_unflatten_flatten :
  forall (c : cfg) (o : obj) (ls : list obj) (sp : spec),
    wf_obj o = true -> flatten c o = Ok (ls, sp) -> unflatten sp ls = Ok o.
Proof. exact unflatten_flatten. Qed.
Print Assumptions C01_unflatten_flatten.

(* Flattening the rebuilt tree again yields the identical leaves and the identical treespec
   (every field), hence an equal one. *)
Theorem C01_reflatten :
  forall (c : cfg) (o o' : obj) (ls : list obj) (sp : spec),
    wf_obj o = true -> flatten c o = Ok (ls, sp) -> unflatten sp ls = Ok o' ->
    flatten c o' = Ok (ls, sp).
Proof. exact reflatten. Qed.
Print Assumptions C01_reflatten.

(* Unflattening the treespec with ANY n leaf-typed replacement objects (objects the traversal treats
   as leaves: opaque objects, None under none_is_leaf, instances of unregistered classes) and flattening
   the result returns exactly those n objects and the identical treespec. Stated without a predicate:
   a predicate may accept one of the rebuilt containers. *)
Theorem C01_flatten_unflatten_replace :
  forall c o ls sp ls',
    c_pred c = None -> wf_obj o = true -> flatten c o = Ok (ls, sp) ->
    length ls' = length ls -> forallb (leaflike c) ls' = true ->
    exists o', unflatten sp ls' = Ok o' /\ flatten c o' = Ok (ls', sp).
Proof. exact flatten_unflatten_replace. Qed.
Print Assumptions C01_flatten_unflatten_replace.

(* non-vacuity: a tree using every node kind flattens and round-trips *)
Example C01_example_nonvacuous :
  let c := {| c_nil := false; c_ns := 1; c_pred := None;
              c_reg := [{| rcls := 0; rns := 1; rid := 1; rpet := 0 |}];
              c_ins := []; c_limit := 1000 |} in
  let o := Node (HDict [KStr [98]; KInt 3; KStr [97]])
             [Node HTuple [Leaf 1; ONone];
              Node (HCustom 0 7 (EGiven [KStr [120]; KStr [121]])) [Leaf 2; Node HList [Leaf 3]];
              Node (HODict [KInt 2; KInt 1])
                   [Node (HDeque (Some 3)) [Leaf 4]; Node (HNamed 0) [Leaf 5; Leaf 6]]
              ] in
  wf_obj o = true /\
  exists ls sp, flatten c o = Ok (ls, sp) /\ length ls = 6%nat /\ unflatten sp ls = Ok o.
Proof. vm_compute. split; [reflexivity|]. eexists. eexists. repeat split. Qed.

(* THE GENERAL SUBSTITUTION LAW. Unflattening a treespec with ARBITRARY well-formed trees in the leaf
   positions (not only leaf-typed objects) and flattening the result: the leaves are the
   concatenation of the replacement trees' leaves, and the treespec is the original one with every
   leaf replaced by the treespec of the tree put there (Subst). The budget is the sum of the two
   budgets: the rebuilt tree is as deep as the two together. tree_map with tree-valued functions,
   tree_broadcast_prefix / tree_broadcast_common and tree_transpose are instances. *)
Theorem C01_unflatten_trees_then_flatten :
  forall c o ls sp outs rs f2,
    c_pred c = None -> wf_obj o = true -> flatten c o = Ok (ls, sp) ->
    length outs = length ls ->
    Forall2 (fun x r => tflat c f2 x = Ok r) outs rs -> forallb wf_obj outs = true ->
    exists o' t t' b, decode (trav sp) = Some t /\
      unflatten sp outs = Ok o' /\ wf_obj o' = true /\ Subst t (map r_t rs) t' /\
      tflat c (S (c_limit c) + f2) o' = Ok (concat (map r_l rs), t', b || existsb r_b rs).
Proof. exact unflatten_trees_then_flatten. Qed.
Print Assumptions C01_unflatten_trees_then_flatten.
