(* C16 — depth limit reached at exactly the same depth by every traversal; checked item accesses keep
   a traversal of a container that user code mutates in bounds. *)
From OptreeModel Require Import Base Tree Flatten Unflatten Spec Depth.
From OptreeProofs Require Import DepthProofs ConstructProofs.

(* For every configuration (predicate, registry, namespace, modes, limit) and every well-formed tree
   whose visited custom nodes behave: with d = the number of nested visits the traversal makes,
   either d <= MAX_RECURSION_DEPTH + 1 and flatten, flatten-with-path and the leaf iterator all succeed
   with the same leaves and treespec, or d is larger and all three raise RecursionError. *)
Theorem C16_same_threshold :
  forall c o, wf_obj o = true -> clean c o = true ->
  ((vdepth c o <= S (c_limit c))%nat /\
   (exists ls sp, flatten c o = Ok (ls, sp) /\
                  (exists ps, flatten_with_path c o = Ok (ps, ls, sp)) /\ tree_iter_list c o = Ok ls)) \/
  ((S (c_limit c) < vdepth c o)%nat /\
   flatten c o = Err RecursionError /\ flatten_with_path c o = Err RecursionError /\
   tree_iter_list c o = Err RecursionError).
Proof. exact same_threshold. Qed.
Print Assumptions C16_same_threshold.

(* the recursive flatten alone, for every depth budget *)
Theorem C16_flat_threshold :
  forall c fuel o, wf_obj o = true -> clean c o = true ->
  ((vdepth c o <= fuel)%nat -> exists r, flat c fuel o = Ok r) /\
  ((fuel < vdepth c o)%nat -> flat c fuel o = Err RecursionError).
Proof. exact flat_threshold. Qed.
Print Assumptions C16_flat_threshold.

(* chains of n one-child containers (tuple, list, deque, namedtuple, struct sequence) around a leaf or
   a childless node: fine up to n = MAX_RECURSION_DEPTH, RecursionError from n = MAX + 1, in all three.
   A self-referential list behaves like the chains with n > MAX (the traversal never looks deeper). *)
Theorem C16_chain_threshold :
  forall c h n o, c_pred c = None -> chain_hdr h = true -> chain_bottom o = true ->
  ((n <= c_limit c)%nat ->
     exists ls sp, flatten c (nest h n o) = Ok (ls, sp) /\
                   (exists ps, flatten_with_path c (nest h n o) = Ok (ps, ls, sp)) /\
                   tree_iter_list c (nest h n o) = Ok ls) /\
  ((c_limit c < n)%nat ->
     flatten c (nest h n o) = Err RecursionError /\
     flatten_with_path c (nest h n o) = Err RecursionError /\
     tree_iter_list c (nest h n o) = Err RecursionError).
Proof. exact chain_threshold. Qed.
Print Assumptions C16_chain_threshold.

(* on a clean tree, flatten-with-path has no other way to fail than the depth limit *)
Theorem C16_with_path_only_recursion_error :
  forall c fuel o stk e, wf_obj o = true -> clean c o = true ->
  flat_path c fuel stk o = Err e -> e = RecursionError.
Proof. exact flat_path_only_rec. Qed.
Print Assumptions C16_with_path_only_recursion_error.

(* Mutation by user code between two item accesses, for EVERY script of mutations (delete before the
   cursor, after the cursor, clear, append, at every position) and every list: a result with exactly
   the captured number of children, or IndexError; for dicts, or KeyError. Never an unchecked read. *)
Theorem C16_list_mutation_safe :
  forall script l,
  (exists vs, flatten_list_mut true script l = Ok vs /\ length vs = length l) \/
  flatten_list_mut true script l = Err IndexError.
Proof. exact flatten_list_mut_safe. Qed.
Print Assumptions C16_list_mutation_safe.

Theorem C16_dict_mutation_safe :
  forall script d,
  (exists vs, flatten_dict_mut true script d = Ok vs /\ length vs = length d) \/
  flatten_dict_mut true script d = Err KeyError.
Proof. exact flatten_dict_mut_safe. Qed.
Print Assumptions C16_dict_mutation_safe.

Theorem C16_no_mutation_is_identity : forall b l, flatten_list_mut b [] l = Ok l.
Proof. exact flatten_list_no_mutation. Qed.
Print Assumptions C16_no_mutation_is_identity.

(* what the unchecked access macros would do (the variant a seeded change re-introduces) *)
Theorem C16_unchecked_access_refuted :
  (exists script l, flatten_list_mut false script l = Err Crash) /\
  (exists script d, flatten_dict_mut false script d = Err Crash).
Proof. split; [exact unchecked_list_refuted | exact unchecked_dict_refuted]. Qed.
Print Assumptions C16_unchecked_access_refuted.

(* UNFLATTEN while user code (an unflatten function, a namedtuple subclass constructor, a key's __hash__)
   mutates the list of leaves it was handed, for EVERY script of mutations, every list and every leaf
   count: the leaves are taken through the bounds-checked iterator protocol, so the result has exactly
   the treespec's number of leaves, each of them an element the list held when it was fetched (an
   original leaf or one the script appended — never a stale or freed slot), or ValueError (too few /
   too many leaves). Without mutation the leaves come back unchanged. *)
Theorem C16_unflatten_leaves_mutation_safe :
  forall script n l,
  (exists vs, unflatten_leaves_mut true script n l = Ok vs /\ length vs = n) \/
  unflatten_leaves_mut true script n l = Err ValueError.
Proof. exact unflatten_leaves_mut_safe. Qed.
Print Assumptions C16_unflatten_leaves_mutation_safe.

Theorem C16_unflatten_leaves_provenance :
  forall script n l vs, unflatten_leaves_mut true script n l = Ok vs -> incl vs (l ++ appended script).
Proof. exact unflatten_leaves_mut_provenance. Qed.
Print Assumptions C16_unflatten_leaves_provenance.

Theorem C16_unflatten_no_mutation : forall l, unflatten_leaves_mut true [] (length l) l = Ok l.
Proof. exact unflatten_no_mutation. Qed.
Print Assumptions C16_unflatten_no_mutation.

(* what capturing the item array and its size up front would do (the variant a seeded change introduces) *)
Theorem C16_unflatten_captured_array_refuted :
  exists script n l, unflatten_leaves_mut false script n l = Err Crash.
Proof. exact unflatten_raw_refuted. Qed.
Print Assumptions C16_unflatten_captured_array_refuted.

(* more depth budget never changes a successful result: a tree that flattens under a limit flattens
   to the same leaves and the same treespec under every larger limit (the limit only decides between a
   result and RecursionError) *)
Theorem C16_more_budget_same_result :
  forall c fuel o r, flat c fuel o = Ok r -> flat c (S fuel) o = Ok r.
Proof. exact flat_fuel_mono. Qed.
Print Assumptions C16_more_budget_same_result.

Example C16_example :
  let c := {| c_nil := false; c_ns := 0; c_pred := None; c_reg := []; c_ins := []; c_limit := 3 |} in
  flatten c (nest HList 3 (Node HTuple [])) = Ok ([], {| trav := map (fun i => {| nkind := match i with O => KdTuple | _ => KdList end;
      narity := match i with O => 0 | _ => 1 end; ndat := DNone; nentries := None; ncustom := None; nleaves := 0; nnodes := S i; norig := None |}) [0;1;2;3]%nat;
      snil := false; sns := 0 |}) /\
  flatten c (nest HList 4 (Node HTuple [])) = Err RecursionError /\
  tree_iter_list c (nest HList 4 (Node HTuple [])) = Err RecursionError /\
  flatten_list_mut true [MNone; MClear] [1; 2; 3]%Z = Err IndexError /\
  flatten_list_mut true [MNone; MAppend 9] [1; 2; 3]%Z = Ok [1; 2; 3]%Z.
Proof. vm_compute. repeat split. Qed.
