(* C17 — concurrent use: no deadlock under the engine's lock discipline; the shared leaf iterator
   hands each leaf to exactly one consumer; same-key registrations succeed once. *)
From OptreeModel Require Import Conc.
From OptreeModel Require Registry.
From OptreeProofs Require Import ConcProofs RegistryProofs.

(* For any number of threads, any thread programs that obey the discipline (Conc.wf: no Python code
   while an engine mutex is held, mutexes released before the program ends) and EVERY schedule — every
   choice of the thread that gets the GIL at every callback and at every thread exit — no reachable
   state is a deadlock. The run extracts the programs from the C++ sources and evaluates wf on them. *)
Theorem C17_no_deadlock :
  forall s0 s, cinit s0 -> creach s0 s -> ~ deadlocked s.
Proof. exact no_deadlock. Qed.
Print Assumptions C17_no_deadlock.

(* a callback while a mutex is held deadlocks under some schedule *)
Theorem C17_callback_under_lock_deadlocks :
  exists s, creach {| progs := bad_progs; owner := fun _ => None; gil := 0 |} s /\ deadlocked s.
Proof. exact callback_under_lock_deadlocks. Qed.
Print Assumptions C17_callback_under_lock_deadlocks.

(* the shared iterator: for any number of consumers and every interleaving, handed out + held by a
   consumer + still on the agenda = the initial agenda *)
Theorem C17_iterator_conservation :
  forall n l s, ireach true n (ifresh l) s ->
  Permutation.Permutation (emitted s ++ pend_list (pending s) n ++ agenda s) l.
Proof. exact iterator_conservation. Qed.
Print Assumptions C17_iterator_conservation.

Theorem C17_iterator_exactly_once :
  forall n l s, NoDup l -> ireach true n (ifresh l) s ->
  NoDup (emitted s) /\ (forall x, In x (emitted s) -> In x l).
Proof. exact iterator_exactly_once. Qed.
Print Assumptions C17_iterator_exactly_once.

Theorem C17_pop_after_callback_duplicates :
  exists s, ireach false 2 (ifresh [7; 8]) s /\ emitted s = [7; 7].
Proof. exact pop_after_callback_duplicates. Qed.
Print Assumptions C17_pop_after_callback_duplicates.

(* registrations are atomic steps of the registry machine (check and insertion happen under one
   write lock): whatever the interleaving, the history is a sequence of steps, and in every sequence a
   second registration of a registered (type, namespace) fails and changes nothing *)
Theorem C17_same_key_registers_once :
  forall s c ns pet, snd (Registry.step s (Registry.ORegister c ns pet)) = Registry.OutOk ->
  exists e, snd (Registry.step (fst (Registry.step s (Registry.ORegister c ns pet)))
                               (Registry.ORegister c ns pet)) = Registry.OutErr e.
Proof. exact no_double_registration. Qed.
Print Assumptions C17_same_key_registers_once.

Example C17_example :
  wf [] [AWork; ALock 0; AWork; AUnlock 0; ACall; ALock 1; AUnlock 1] = true /\
  wf [] [ALock 0; ACall; AUnlock 0] = false /\ wf [] [ALock 0] = false.
Proof. repeat split. Qed.
