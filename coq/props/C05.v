(* C05 — tree_map family calls the function once per leaf, in order, on aligned arguments. *)
From OptreeModel Require Import Base Tree Flatten Unflatten Spec Construct Ops Walk Accessor.
From OptreeProofs Require Import OpsProofs WalkProofs Replace MapLaws MapPaths Subst BroadcastProofs.

(* f is called exactly on the rows (leaf_i(t), sub_i(rest_1), ...): once per leaf, in flatten
   order, where sub_i(rest) is the i-th element flatten_up_to returns (the subtree at the i-th leaf's
   path — property C07/C04 relate that element to the path) *)
Theorem C05_map_calls :
  forall c f t rests ls sp s cols,
    (forall i row, exists y, f i row = Ok y) ->
    flatten c t = Ok (ls, sp) -> sspec_of sp = Some s ->
    mapM (ss_flatten_up_to (c_reg c) s) rests = Ok cols ->
    snd (tree_map_trace c f t rests) = zip_cols (length ls) (ls :: cols).
Proof. exact map_calls. Qed.
Print Assumptions C05_map_calls.

(* ... and those columns are the subtrees located at the leaves' paths: for every rest, the i-th element of
   its column is what the i-th path of t's treespec resolves to in that rest (entry by entry, the way an
   accessor does) — so row i of the calls is (leaf_i(t), rest_1[path_i], rest_2[path_i], ...) *)
Theorem C05_map_arguments_by_paths :
  forall c t ls sp s rests cols,
    wf_obj t = true -> flatten c t = Ok (ls, sp) -> sspec_of sp = Some s ->
    Forall (fun r => entries_ok r = true) rests ->
    mapM (ss_flatten_up_to (c_reg c) s) rests = Ok cols ->
    Forall2 (fun rest col => Forall2 (fun p x => get_path rest p = Some x) (st_paths (stree_of s)) col) rests cols.
Proof. intros c t ls sp s rests cols W Hf Hs. exact (map_columns_by_paths c t ls sp s W Hf Hs rests cols). Qed.
Print Assumptions C05_map_arguments_by_paths.

(* the result is the treespec of t filled with f's values *)
Theorem C05_map_result :
  forall c f t rests ls sp s cols,
    (forall i row, exists y, f i row = Ok y) ->
    flatten c t = Ok (ls, sp) -> sspec_of sp = Some s ->
    mapM (ss_flatten_up_to (c_reg c) s) rests = Ok cols ->
    exists outs, length outs = length (zip_cols (length ls) (ls :: cols)) /\
                 tree_map c f t rests = unflatten sp outs.
Proof. exact map_result. Qed.
Print Assumptions C05_map_result.

(* if any rest does not have t's structure as a prefix the error is raised before f is called *)
Theorem C05_map_rejects_before_calling :
  forall c f t rests ls sp s e,
    flatten c t = Ok (ls, sp) -> sspec_of sp = Some s ->
    mapM (ss_flatten_up_to (c_reg c) s) rests = Err e ->
    tree_map_trace c f t rests = (Err e, []).
Proof. exact map_rejects_before_calling. Qed.
Print Assumptions C05_map_rejects_before_calling.

(* the underscore variants make the same calls and return the original tree object *)
Theorem C05_map_underscore :
  forall c f t rests r, tree_map c f t rests = Ok r -> tree_map_ c f t rests = Ok t.
Proof. exact map_underscore. Qed.
Print Assumptions C05_map_underscore.

(* PyTreeSpec.traverse. With no functions (or identities) it is unflatten. *)
Theorem C05_traverse_identity :
  forall s leaves, fst (traverse None None s leaves) = unflatten s leaves.
Proof. exact traverse_identity. Qed.
Print Assumptions C05_traverse_identity.

(* For any leaf function and node function (partial ones included: a raising call stops the traversal
   with that exception), the engine's stack machine over the node array is the tree recursion twalk:
   the leaf function is applied to the leaves in leaf order, the node function exactly once per
   internal node, to the node rebuilt from its already processed children, after all of them. *)
Theorem C05_traverse_is_tree_recursion :
  forall fl fn s leaves, wf_stree (stree_of s) = true ->
  traverse fl fn (spec_of s) leaves =
  match twalk fl fn (stree_of s) (leaves, 0%nat, 0%nat, []) with
  | (Ok y, ([], _, _, tr')) => (Ok y, tr')
  | (Ok _, (_ :: _, _, _, tr')) => (Err ValueError, tr')
  | (Err e, (_, _, _, tr')) => (Err e, tr')
  end.
Proof. exact traverse_is_tree_recursion. Qed.
Print Assumptions C05_traverse_is_tree_recursion.

Example C05_example :
  let c := {| c_nil := false; c_ns := 0; c_pred := None; c_reg := []; c_ins := []; c_limit := 1000 |} in
  let t := Node HTuple [Leaf 1; Node HList [Leaf 2]] in
  let r := Node HTuple [Node HTuple [Leaf 5]; Node HList [Leaf 6]] in
  tree_map_trace c (fun _ row => Ok (Node HTuple row)) t [r] =
  (Ok (Node HTuple [Node HTuple [Leaf 1; Node HTuple [Leaf 5]]; Node HList [Node HTuple [Leaf 2; Leaf 6]]]),
   [[Leaf 1; Node HTuple [Leaf 5]]; [Leaf 2; Leaf 6]]).
Proof. vm_compute. reflexivity. Qed.

(* mapping the identity rebuilds the same tree (new containers in the implementation; the model's
   values are compared structurally), for every configuration *)
Theorem C05_map_identity :
  forall c t ls sp, wf_obj t = true -> flatten c t = Ok (ls, sp) ->
  tree_map c (lift (fun x => x)) t [] = Ok t.
Proof. exact map_identity. Qed.
Print Assumptions C05_map_identity.

(* map (f o g) = map f o map g for leaf-valued g (no predicate: a predicate could accept a rebuilt container) *)
Theorem C05_map_compose :
  forall c f g t t',
    c_pred c = None -> wf_obj t = true -> (forall x, leaflike c (g x) = true) ->
    tree_map c (lift g) t [] = Ok t' ->
    tree_map c (lift f) t' [] = tree_map c (lift (fun x => f (g x))) t [].
Proof. exact map_compose. Qed.
Print Assumptions C05_map_compose.

(* tree_map with a TREE-valued function: the result is the tree's treespec unflattened with the
   function's results; flattening it gives the concatenation of the leaves of f(leaf_i), and its
   treespec is the original with every leaf replaced by the treespec of f(leaf_i) *)
Theorem C05_map_tree_valued :
  forall c f t ls sp rs f2,
    c_pred c = None -> wf_obj t = true -> flatten c t = Ok (ls, sp) ->
    (forall x, wf_obj (f x) = true) ->
    Forall2 (fun x r => tflat c f2 (f x) = Ok r) ls rs ->
    exists o' tt t' b, tree_map c (lift f) t [] = Ok o' /\ wf_obj o' = true /\ decode (trav sp) = Some tt /\
      Subst tt (map r_t rs) t' /\
      tflat c (S (c_limit c) + f2) o' = Ok (concat (map r_l rs), t', b || existsb r_b rs).
Proof. exact map_tree_valued. Qed.
Print Assumptions C05_map_tree_valued.
