(* C05 — tree_map family calls the function once per leaf, in order, on aligned arguments. *)
From OptreeModel Require Import Base Tree Flatten Unflatten Spec Ops.
From OptreeProofs Require Import OpsProofs.

(* f is called exactly on the rows (leaf_i(t), sub_i(rest_1), ...): once per leaf, in flatten
   order, where sub_i(rest) is the i-th element flatten_up_to returns (the subtree at the i-th leaf's
   path — property C07/C04 relate that element to the path) *)
Theorem C05_map_calls :
  forall c f t rests ls sp s cols,
    (forall i row, exists y, f i row = Ok y) ->
    flatten c t = Ok (ls, sp) -> sspec_of sp = Some s ->
    mapM (ss_flatten_up_to (c_reg c) s) rests = Ok cols ->
    snd (tree_map_trace c f t rests) = zip_cols (length ls) (ls :: cols).
Proof. exact map_calls. Qed.
Print Assumptions C05_map_calls.

(* the result is the treespec of t filled with f's values *)
Theorem C05_map_result :
  forall c f t rests ls sp s cols,
    (forall i row, exists y, f i row = Ok y) ->
    flatten c t = Ok (ls, sp) -> sspec_of sp = Some s ->
    mapM (ss_flatten_up_to (c_reg c) s) rests = Ok cols ->
    exists outs, length outs = length (zip_cols (length ls) (ls :: cols)) /\
                 tree_map c f t rests = unflatten sp outs.
Proof. exact map_result. Qed.
Print Assumptions C05_map_result.

(* if any rest does not have t's structure as a prefix the error is raised before f is called *)
Theorem C05_map_rejects_before_calling :
  forall c f t rests ls sp s e,
    flatten c t = Ok (ls, sp) -> sspec_of sp = Some s ->
    mapM (ss_flatten_up_to (c_reg c) s) rests = Err e ->
    tree_map_trace c f t rests = (Err e, []).
Proof. exact map_rejects_before_calling. Qed.
Print Assumptions C05_map_rejects_before_calling.

(* the underscore variants make the same calls and return the original tree object *)
Theorem C05_map_underscore :
  forall c f t rests r, tree_map c f t rests = Ok r -> tree_map_ c f t rests = Ok t.
Proof. exact map_underscore. Qed.
Print Assumptions C05_map_underscore.

Example C05_example :
  let c := {| c_nil := false; c_ns := 0; c_pred := None; c_reg := []; c_ins := []; c_limit := 1000 |} in
  let t := Node HTuple [Leaf 1; Node HList [Leaf 2]] in
  let r := Node HTuple [Node HTuple [Leaf 5]; Node HList [Leaf 6]] in
  tree_map_trace c (fun _ row => Ok (Node HTuple row)) t [r] =
  (Ok (Node HTuple [Node HTuple [Leaf 1; Node HTuple [Leaf 5]]; Node HList [Node HTuple [Leaf 2; Leaf 6]]]),
   [[Leaf 1; Node HTuple [Leaf 5]]; [Leaf 2; Leaf 6]]).
Proof. vm_compute. reflexivity. Qed.
