(* C03 — all traversal entry points agree with each other. Statements only. *)
From OptreeModel Require Import Base Tree Flatten Unflatten Spec.
From OptreeProofs Require Import TraversalProofs.

(* flatten-with-path succeeds exactly when flatten does, with the identical leaves and the
   identical treespec (every field, hence equal hash and repr) *)
Theorem C03_with_path_agrees :
  forall c o ps ls sp, flatten_with_path c o = Ok (ps, ls, sp) -> flatten c o = Ok (ls, sp).
Proof. exact with_path_agrees. Qed.
Print Assumptions C03_with_path_agrees.

Theorem C03_with_path_agrees_conv :
  forall c o ls sp, flatten c o = Ok (ls, sp) ->
  exists ps, flatten_with_path c o = Ok (ps, ls, sp) /\ length ps = length ls.
Proof. exact with_path_agrees_conv. Qed.
Print Assumptions C03_with_path_agrees_conv.

(* the paths returned with the leaves are the ones recomputed later from the treespec alone *)
Theorem C03_paths_from_spec :
  forall c o ps ls sp, flatten_with_path c o = Ok (ps, ls, sp) ->
  exists s, sspec_of sp = Some s /\ st_paths (stree_of s) = ps.
Proof. exact paths_from_spec. Qed.
Print Assumptions C03_paths_from_spec.

(* draining the leaf iterator yields flatten's leaves, in order *)
Theorem C03_iter_agrees :
  forall c o ls sp, flatten c o = Ok (ls, sp) -> tree_iter_list c o = Ok ls.
Proof. exact iter_agrees. Qed.
Print Assumptions C03_iter_agrees.

(* tree_is_leaf(x) holds exactly when flattening x yields [x] with a leaf treespec *)
Theorem C03_is_leaf_iff :
  forall c o, tree_is_leaf c o = true <->
  flatten c o = Ok ([o], {| trav := [leaf_node]; snil := c_nil c; sns := spec_ns c false |}).
Proof. exact is_leaf_iff. Qed.
Print Assumptions C03_is_leaf_iff.

(* all_leaves(xs) holds exactly when every element is a leaf: the loop of AllLeavesImpl (predicate first,
   then the kind of the element under the registry; stop at the first non-leaf) is, element by element, the
   test of tree_is_leaf — whatever the neighbouring elements are *)
Theorem C03_all_leaves_iff :
  forall c xs, all_leaves c xs = true <->
  forall x, In x xs -> flatten c x = Ok ([x], {| trav := [leaf_node]; snil := c_nil c; sns := spec_ns c false |}).
Proof.
  intros c xs. unfold all_leaves. rewrite forallb_forall. split; intros H x Hx.
  - apply is_leaf_iff. exact (H x Hx).
  - apply is_leaf_iff. exact (H x Hx).
Qed.
Print Assumptions C03_all_leaves_iff.

(* "an input that makes one traversal raise makes all of them raise the same exception type" is
   FALSE of the faithful model when two faults are present: a custom node whose entries have the
   wrong length and whose child is nested deeper than the limit makes the recursive flatten raise
   RecursionError and the lazy iterator RuntimeError (known finding K1, confirmed on the
   implementation). The statement holds for every depth limit; the witness uses limit 1. *)
Theorem C03_error_parity_refuted :
  exists c o, wf_obj o = true /\
              flatten c o = Err RecursionError /\ tree_iter_list c o = Err RuntimeError.
Proof.
  exists {| c_nil := false; c_ns := 0; c_pred := None;
            c_reg := [{| rcls := 0; rns := 0; rid := 1; rpet := 0 |}]; c_ins := []; c_limit := 1 |}.
  exists (Node (HCustom 0 0 (EGiven [])) [Node HTuple [Node HTuple [Leaf 1]]]).
  vm_compute. repeat split.
Qed.
Print Assumptions C03_error_parity_refuted.

(* the same two-fault family, other side (known finding K3): a custom node with MORE children than
   entries whose child without an entry fails by itself — flatten raises that child's exception,
   flatten-with-path (which notices the missing entry before it reaches the child) RuntimeError *)
Theorem C03_error_parity_refuted_with_path :
  exists c o, wf_obj o = true /\
              flatten c o = Err (UserExn 26) /\ flatten_with_path c o = Err RuntimeError /\
              tree_iter_list c o = Err RuntimeError.
Proof.
  exists {| c_nil := false; c_ns := 0; c_pred := None;
            c_reg := [{| rcls := 0; rns := 0; rid := 1; rpet := 0 |}]; c_ins := []; c_limit := 1000 |}.
  exists (Node (HCustom 0 0 (EGiven [KInt 0; KInt 1])) [Leaf 1; Leaf 2; Node (HCustom 0 2 (ERaise 26)) []]).
  vm_compute. repeat split.
Qed.
Print Assumptions C03_error_parity_refuted_with_path.

Example C03_example :
  let c := {| c_nil := false; c_ns := 0; c_pred := None; c_reg := []; c_ins := []; c_limit := 1000 |} in
  let o := Node (HDict [KStr [98]; KStr [97]]) [Node HTuple [Leaf 1; Leaf 2]; Node HList [Leaf 3]] in
  exists ps ls sp, flatten_with_path c o = Ok (ps, ls, sp) /\
                   ps = [[KStr [97]; KInt 0]; [KStr [98]; KInt 0]; [KStr [98]; KInt 1]] /\
                   tree_iter_list c o = Ok ls.
Proof. vm_compute. do 3 eexists. repeat split. Qed.
