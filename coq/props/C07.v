(* C07 — prefix matching is exact and its three implementations agree.
   Proved here: the order-theoretic core on structured treespecs, and the three-way equivalence
   flatten_up_to <-> is_prefix <-> prefix_errors (three separately written implementations, one of
   them Python), each tied to the code by the correspondence run (cmd 3, cmd 25). *)
From OptreeModel Require Import Base Tree Flatten Unflatten Spec Accessor PrefixErr PrefixArr UpToArr.
From OptreeProofs Require Import SpecProofs OrderProofs PrefixOrder JoinOrder FlattenGood UpToProofs UpToPrefix UpToPartition UpToPaths UpToTop PrefixErrProofs PrefixAntisym PrefixArrProofs UpToArrProofs.
From Coq Require Import Permutation.

(* reflexive; comparing a treespec with itself never is a strict prefix *)
Theorem C07_prefix_refl :
  forall s, keys_ok (stree_of s) = true -> arity_ok (stree_of s) = true ->
            ss_is_prefix s s false = true /\ ss_is_prefix s s true = false.
Proof. exact ss_is_prefix_refl. Qed.
Print Assumptions C07_prefix_refl.

(* a leaf is a prefix of every treespec, strictly so exactly when the other is not a leaf *)
Theorem C07_leaf_prefix :
  forall t, st_prefix st_leaf t = (true, is_leaf_node (st_node t)).
Proof. exact leaf_prefix. Qed.
Print Assumptions C07_leaf_prefix.

(* a < b iff a <= b and b has a non-leaf node where a has a leaf *)
Theorem C07_strict_prefix_def :
  forall a b, ss_is_prefix a b true =
              ss_is_prefix a b false && negb (snd (st_prefix (stree_of a) (stree_of b))).
Proof. exact strict_prefix_def. Qed.
Print Assumptions C07_strict_prefix_def.

Theorem C07_prefix_requires_same_options :
  forall a b strict, ss_is_prefix a b strict = true ->
                     ss_nil a = ss_nil b /\ ns_compatible (ss_ns a) (ss_ns b) = true.
Proof. exact prefix_requires_same_options. Qed.
Print Assumptions C07_prefix_requires_same_options.

(* non-vacuity, and the dict-kind / key-order / maxlen equivalences on a concrete pair, including
   the nested re-ordering that defect F3 broke *)
(* the prefix relation on structured treespecs is transitive — no side condition *)
Theorem C07_prefix_trans :
  forall a b c, fst (st_prefix a b) = true -> fst (st_prefix b c) = true -> fst (st_prefix a c) = true.
Proof. exact prefix_trans. Qed.
Print Assumptions C07_prefix_trans.

(* at the level of treespecs (none_is_leaf, namespace, node-count shortcut included): transitive
   whenever the outer namespaces are compatible; 'a' <= '' <= 'b' is the counterexample otherwise *)
Theorem C07_is_prefix_trans :
  forall a b c, ns_compatible (ss_ns a) (ss_ns c) = true ->
  ss_is_prefix a b false = true -> ss_is_prefix b c false = true -> ss_is_prefix a c false = true.
Proof. exact ss_prefix_trans. Qed.
Print Assumptions C07_is_prefix_trans.

Theorem C07_is_prefix_trans_refuted_across_namespaces :
  exists a b c, ss_is_prefix a b false = true /\ ss_is_prefix b c false = true /\ ss_is_prefix a c false = false.
Proof. exact ss_prefix_trans_refuted_across_namespaces. Qed.
Print Assumptions C07_is_prefix_trans_refuted_across_namespaces.

(* ANTISYMMETRIC UP TO THE EQUIVALENCE. Two treespecs that are prefixes of each other are equivalent:
   st_prefix a b = (true, true), i.e. a <= b and every leaf of a sits on a leaf of b — the same tree up
   to the kind / key order / default factory of dict nodes and the maxlen of deques. The equivalence
   is symmetric, and it is exactly "mutual prefixes". *)
Theorem C07_prefix_antisym :
  forall a b, good a = true -> good b = true ->
  fst (st_prefix a b) = true -> fst (st_prefix b a) = true ->
  st_prefix a b = (true, true) /\ st_prefix b a = (true, true).
Proof. exact prefix_antisym. Qed.
Print Assumptions C07_prefix_antisym.

Theorem C07_equivalence_is_mutual_prefix :
  forall a b, good a = true -> good b = true ->
  (st_prefix a b = (true, true) <-> fst (st_prefix a b) = true /\ fst (st_prefix b a) = true).
Proof. exact E_iff_mutual_prefix. Qed.
Print Assumptions C07_equivalence_is_mutual_prefix.

(* at the level of PyTreeSpec.is_prefix: mutual prefixes are not strict prefixes of each other *)
Theorem C07_is_prefix_antisym :
  forall a b, good (stree_of a) = true -> good (stree_of b) = true ->
  ss_is_prefix a b false = true -> ss_is_prefix b a false = true ->
  ss_is_prefix a b true = false /\ ss_is_prefix b a true = false /\
  st_prefix (stree_of a) (stree_of b) = (true, true).
Proof. exact is_prefix_antisym. Qed.
Print Assumptions C07_is_prefix_antisym.

(* THE C++ LOOP ITSELF. PyTreeSpec::IsPrefix as richcomparison.cpp runs it — one pass over both node
   arrays through reverse iterators, a leaf of this treespec skipping the other's whole subtree by its
   num_nodes, the blocks of a dict node's children permuted inside the working copy when the keys come
   in another order, the num_nodes short cuts — returns exactly the tree-level is_prefix of the model,
   for the treespecs of any two flattened trees, strict or not. *)
Theorem C07_cpp_is_prefix_loop_is_tree_prefix :
  forall c1 o1 ls1 sp1 s1 c2 o2 ls2 sp2 s2 strict,
    wf_obj o1 = true -> wf_obj o2 = true ->
    flatten c1 o1 = Ok (ls1, sp1) -> flatten c2 o2 = Ok (ls2, sp2) ->
    sspec_of sp1 = Some s1 -> sspec_of sp2 = Some s2 ->
    arr_is_prefix sp1 sp2 strict = Ok (ss_is_prefix s1 s2 strict).
Proof. exact arr_is_prefix_of_flattened. Qed.
Print Assumptions C07_cpp_is_prefix_loop_is_tree_prefix.

(* the same for every pair of well-formed treespecs (counters consistent, distinct dict keys, node
   data fitting the kind), however obtained *)
Theorem C07_cpp_is_prefix_loop_general :
  forall a b strict,
    wf_stree (stree_of a) = true -> good (stree_of a) = true -> dok (stree_of a) = true ->
    wf_stree (stree_of b) = true -> good (stree_of b) = true -> dok (stree_of b) = true ->
    arr_is_prefix (spec_of a) (spec_of b) strict = Ok (ss_is_prefix a b strict).
Proof. exact arr_is_prefix_spec. Qed.
Print Assumptions C07_cpp_is_prefix_loop_general.

(* THE OTHER C++ LOOP. PyTreeSpec::FlattenUpTo as flatten.cpp runs it — a reverse iterator over the node
   array, an agenda (stack) of the objects still to be matched with the last child on top, the result
   list filled from its end, the three ways it ends — returns exactly the tree-level flatten_up_to of
   the model: same subtrees in the same order, same error. *)
Theorem C07_cpp_flatten_up_to_loop :
  forall c t nl ns o, wf_stree t = true -> good t = true ->
  arr_flatten_up_to c {| trav := encode t; snil := nl; sns := ns |} o = up_to c t o.
Proof. exact arr_flatten_up_to_spec. Qed.
Print Assumptions C07_cpp_flatten_up_to_loop.

Theorem C07_cpp_flatten_up_to_loop_of_flattened :
  forall c o1 ls1 sp1 s1 o,
    wf_obj o1 = true -> flatten c o1 = Ok (ls1, sp1) -> sspec_of sp1 = Some s1 ->
    arr_flatten_up_to {| c_nil := snil sp1; c_ns := sns sp1; c_pred := None; c_reg := c_reg c; c_ins := []; c_limit := 0 |} sp1 o
    = ss_flatten_up_to (c_reg c) s1 o.
Proof. exact arr_flatten_up_to_of_flattened. Qed.
Print Assumptions C07_cpp_flatten_up_to_loop_of_flattened.

(* a prefix never has more nodes than what it is a prefix of (the loop's two size short cuts are sound) *)
Theorem C07_prefix_has_fewer_nodes :
  forall a b, wf_stree a = true -> wf_stree b = true -> good a = true -> good b = true ->
  fst (st_prefix a b) = true -> (st_nodes a <= st_nodes b)%nat.
Proof. exact prefix_nodes_le. Qed.
Print Assumptions C07_prefix_has_fewer_nodes.

(* the side conditions of C07_prefix_refl hold for everything flatten produces *)
Theorem C07_flatten_gives_good_treespecs :
  forall c o ls sp, wf_obj o = true -> flatten c o = Ok (ls, sp) ->
  exists s, sspec_of sp = Some s /\ good (stree_of s) = true.
Proof. exact flatten_good. Qed.
Print Assumptions C07_flatten_gives_good_treespecs.

(* flatten_up_to and flatten meet: a treespec applied to the tree it came from returns exactly that
   tree's leaves (every configuration without a predicate, every well-formed tree) — the base case of
   the partition law and the tie between FlattenUpTo and the flatten of C01–C03 *)
Theorem C07_flatten_up_to_self :
  forall c o ls sp s,
    c_pred c = None -> wf_obj o = true -> flatten c o = Ok (ls, sp) -> sspec_of sp = Some s ->
    ss_flatten_up_to (c_reg c) s o = Ok ls.
Proof. exact flatten_up_to_self. Qed.
Print Assumptions C07_flatten_up_to_self.

(* TWO OF THE THREE DECIDERS AGREE. For any two trees flattened under the same configuration (no
   predicate): PyTreeSpec.flatten_up_to of the first tree's treespec applied to the second tree succeeds
   exactly when the first treespec is a prefix (PyTreeSpec.is_prefix) of the second tree's treespec.
   Every node kind, dict nodes with permuted keys and mixed dict kinds, registered and unregistered
   custom classes, None as node or leaf. *)
Theorem C07_flatten_up_to_iff_is_prefix :
  forall c o1 o2 ls1 sp1 s1 ls2 sp2 s2,
    c_pred c = None -> wf_obj o1 = true -> wf_obj o2 = true ->
    flatten c o1 = Ok (ls1, sp1) -> sspec_of sp1 = Some s1 ->
    flatten c o2 = Ok (ls2, sp2) -> sspec_of sp2 = Some s2 ->
    ((exists subtrees, ss_flatten_up_to (c_reg c) s1 o2 = Ok subtrees) <->
     fst (st_prefix (stree_of s1) (stree_of s2)) = true).
Proof. exact flattened_up_to_iff_prefix. Qed.
Print Assumptions C07_flatten_up_to_iff_is_prefix.

(* the same for an arbitrary treespec of the configuration (not necessarily obtained by flatten) *)
Theorem C07_flatten_up_to_iff_is_prefix_general :
  forall c s o ls sp so,
    c_pred c = None -> c_ns c = ss_ns s ->
    good (stree_of s) = true -> spec_ok c (stree_of s) = true ->
    wf_obj o = true -> flatten c o = Ok (ls, sp) -> sspec_of sp = Some so ->
    ((exists subtrees, ss_flatten_up_to (c_reg c) s o = Ok subtrees) <->
     fst (st_prefix (stree_of s) (stree_of so)) = true).
Proof. exact flatten_up_to_iff_is_prefix. Qed.
Print Assumptions C07_flatten_up_to_iff_is_prefix_general.

(* THE PARTITION. On success every returned subtree flattens, and the leaves of the returned subtrees
   taken together are the leaves of the tree, each exactly once: a permutation of flatten's leaf list
   (the treespec's dict nodes may list the keys in another order than the tree's own flatten visits
   them, see C07_partition_example; without such a difference the two sequences coincide). Every
   treespec of the configuration, every well-formed tree. *)
Theorem C07_flatten_up_to_partitions :
  forall c s o ls sp subtrees,
    c_pred c = None -> c_ns c = ss_ns s ->
    good (stree_of s) = true -> spec_ok c (stree_of s) = true ->
    wf_obj o = true -> flatten c o = Ok (ls, sp) ->
    ss_flatten_up_to (c_reg c) s o = Ok subtrees ->
    exists lss, Forall2 (fun x lx => exists spx, flatten c x = Ok (lx, spx)) subtrees lss /\
                Permutation (concat lss) ls.
Proof. exact flatten_up_to_partitions. Qed.
Print Assumptions C07_flatten_up_to_partitions.

(* PER TREESPEC LEAF, IN THE TREESPEC'S LEAF ORDER, THE SUBTREE AT THAT LEAF'S PATH: the i-th returned
   subtree is what the i-th path of the treespec (PyTreeSpec.paths, C04) resolves to in the tree. *)
Theorem C07_flatten_up_to_by_paths :
  forall regs s o subtrees,
    good (stree_of s) = true -> entries_wf (stree_of s) = true -> entries_ok o = true ->
    ss_flatten_up_to regs s o = Ok subtrees ->
    Forall2 (fun p x => get_path o p = Some x) (st_paths (stree_of s)) subtrees.
Proof. exact flatten_up_to_by_paths. Qed.
Print Assumptions C07_flatten_up_to_by_paths.

(* its side conditions hold for every treespec obtained by flatten *)
Theorem C07_flattened_up_to_by_paths :
  forall c o1 ls1 sp1 s1 o subtrees,
    wf_obj o1 = true -> flatten c o1 = Ok (ls1, sp1) -> sspec_of sp1 = Some s1 -> entries_ok o = true ->
    ss_flatten_up_to (c_reg c) s1 o = Ok subtrees ->
    Forall2 (fun p x => get_path o p = Some x) (st_paths (stree_of s1)) subtrees.
Proof. exact flattened_up_to_by_paths. Qed.
Print Assumptions C07_flattened_up_to_by_paths.

(* non-vacuity of the partition theorem, and why it is a permutation: the treespec is an OrderedDict
   (keys b, a), the tree a dict (visited a, b) *)
Example C07_partition_example :
  let c := {| c_nil := false; c_ns := 0; c_pred := None; c_reg := []; c_ins := []; c_limit := 1000 |} in
  let pre := Node (HODict [KStr [98]; KStr [97]]) [Leaf 1; Leaf 3] in
  let full := Node (HDict [KStr [97]; KStr [98]]) [Leaf 3; Node HTuple [Leaf 1; Leaf 2]] in
  exists l1 a sa,
    flatten c pre = Ok (l1, a) /\ sspec_of a = Some sa /\
    good (stree_of sa) = true /\ spec_ok c (stree_of sa) = true /\ entries_wf (stree_of sa) = true /\
    ss_flatten_up_to [] sa full = Ok [Node HTuple [Leaf 1; Leaf 2]; Leaf 3] /\
    option_map fst (match flatten c full with Ok r => Some r | Err _ => None end) = Some [Leaf 3; Leaf 1; Leaf 2] /\
    st_paths (stree_of sa) = [[KStr [98]]; [KStr [97]]].
Proof. vm_compute. do 3 eexists. repeat split. Qed.

(* THE THIRD DECIDER AGREES. prefix_errors (the Python tree-against-tree walk, with the same is_leaf /
   none_is_leaf / namespace) returns an empty list exactly when flatten_up_to of the prefix tree's
   treespec succeeds on the full tree. Every configuration (predicate included), all well-formed trees. *)
Theorem C07_prefix_errors_iff_flatten_up_to :
  forall c p f ls sp s,
    wf_obj p = true -> wf_obj f = true -> flatten c p = Ok (ls, sp) -> sspec_of sp = Some s ->
    (prefix_errors c p f = Ok [] <-> exists subtrees, ss_flatten_up_to (c_reg c) s f = Ok subtrees).
Proof. exact prefix_errors_iff_flatten_up_to. Qed.
Print Assumptions C07_prefix_errors_iff_flatten_up_to.

(* NEVER ANOTHER EXCEPTION, NEVER A WRONG ANSWER. When the flatten functions of the full tree's custom
   nodes are well behaved (wb), prefix_errors returns a list and flatten_up_to succeeds or raises
   ValueError, and a mismatch is reported by both. *)
Theorem C07_only_value_error :
  forall c p f ls sp s,
    wf_obj p = true -> wf_obj f = true -> wb c f = true -> flatten c p = Ok (ls, sp) -> sspec_of sp = Some s ->
    (exists l, prefix_errors c p f = Ok l) /\
    ((exists subtrees, ss_flatten_up_to (c_reg c) s f = Ok subtrees) \/
     ss_flatten_up_to (c_reg c) s f = Err ValueError).
Proof. exact prefix_total. Qed.
Print Assumptions C07_only_value_error.

Theorem C07_mismatch_reported_by_both :
  forall c p f ls sp s,
    wf_obj p = true -> wf_obj f = true -> wb c f = true -> flatten c p = Ok (ls, sp) -> sspec_of sp = Some s ->
    ((exists e l, prefix_errors c p f = Ok (e :: l)) <-> ss_flatten_up_to (c_reg c) s f = Err ValueError).
Proof. exact mismatch_reported_by_both. Qed.
Print Assumptions C07_mismatch_reported_by_both.

(* non-vacuity: two errors of different kinds in one pair, reported left to right with their key paths *)
Example C07_prefix_errors_example :
  let c := {| c_nil := false; c_ns := 0; c_pred := None; c_reg := []; c_ins := []; c_limit := 1000 |} in
  let p := Node HTuple [Node HList [Leaf 1; Leaf 2]; Node (HDict [KStr [97]]) [Leaf 3]; Leaf 4] in
  let f := Node HTuple [Node HList [Leaf 1]; Node (HODict [KStr [98]]) [Leaf 3]; Node HTuple []] in
  wf_obj p = true /\ wf_obj f = true /\ wb c f = true /\
  prefix_errors c p f = Ok [([KInt 0], PEArity); ([KInt 1], PEKeys)] /\
  prefix_errors c p p = Ok [].
Proof. vm_compute. repeat split. Qed.

Example C07_example :
  let c := {| c_nil := false; c_ns := 0; c_pred := None; c_reg := []; c_ins := []; c_limit := 1000 |} in
  let pre := Node (HODict [KStr [98]; KStr [97]])
                  [Node (HODict [KStr [100]; KStr [99]]) [Leaf 1; Leaf 2]; Leaf 3] in
  let full := Node (HDict [KStr [97]; KStr [98]])
                   [Leaf 3; Node (HDict [KStr [99]; KStr [100]]) [Node HTuple [Leaf 1; Leaf 2]; Leaf 2]] in
  exists l1 a l2 b sa sb,
    flatten c pre = Ok (l1, a) /\ flatten c full = Ok (l2, b) /\
    sspec_of a = Some sa /\ sspec_of b = Some sb /\
    ss_is_prefix sa sb false = true /\ ss_is_prefix sa sb true = true /\ ss_is_prefix sb sa false = false /\
    arr_is_prefix a b false = Ok true /\ arr_is_prefix a b true = Ok true /\ arr_is_prefix b a false = Ok false /\
    ss_flatten_up_to [] sa full = Ok [Leaf 2; Node HTuple [Leaf 1; Leaf 2]; Leaf 3].
Proof. vm_compute. do 6 eexists. repeat split. Qed.
