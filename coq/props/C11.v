(* C11 — pickling a treespec preserves it exactly. *)
From OptreeModel Require Import Base Tree Flatten Unflatten Spec Pickle.
From OptreeProofs Require Import PickleProofs ValidateProofs.

(* For every treespec flatten produces (any node kinds, custom nodes with entries, either
   none_is_leaf, any namespace, either dict-order mode), loading the pickled state under the same
   registry gives back the identical treespec: every field of every node (kind, arity, node data,
   path entries, registration, both counters, original keys), none_is_leaf and namespace. Equality,
   hash, repr, paths, accessors, entries, children and unflatten are functions of those fields. *)
Theorem C11_flatten_pickle_roundtrip :
  forall c o ls sp, wf_obj o = true -> flatten c o = Ok (ls, sp) -> from_pickle (c_reg c) (to_pickle sp) = Ok sp.
Proof. exact flatten_pickle_roundtrip. Qed.
Print Assumptions C11_flatten_pickle_roundtrip.

(* the general statement: any treespec whose custom nodes carry the registration the recorded
   namespace currently resolves to *)
Theorem C11_pickle_roundtrip :
  forall regs s, Forall (node_ok regs (sns s)) (trav s) -> sanity s = true ->
                 validate (snil s) (trav s) = true ->
                 from_pickle regs (to_pickle s) = Ok s.
Proof. exact pickle_roundtrip. Qed.
Print Assumptions C11_pickle_roundtrip.

(* If a custom type recorded in the pickle is not registered in the recorded namespace (nor
   globally) of the loading process, loading raises instead of returning a treespec. *)
Theorem C11_unpickle_missing_registration :
  forall regs s,
    (exists n cls, In n (trav s) /\ nkind n = KdCustom /\
                   (exists r, ncustom n = Some r /\ rcls r = cls) /\ lookup_in regs (sns s) cls = None) ->
    exists e, from_pickle regs (to_pickle s) = Err e.
Proof. exact unpickle_missing_registration. Qed.
Print Assumptions C11_unpickle_missing_registration.

(* THE VALIDATION ON LOAD (fix F16). FromPickleable replays the post-order traversal of the loaded array
   with a stack of (num_leaves, num_nodes).
   SOUND: every accepted array decodes to a well-formed structured treespec (arity, num_leaves, num_nodes
   consistent at every node; key lists, entries and original keys as long as the arity) — exactly the
   condition under which the engine's unchecked index walks stay inside the array (C08_array_children). *)
Theorem C11_validate_sound :
  forall nil ns, validate nil ns = true ->
  exists t, decode ns = Some t /\ wf_stree t = true /\ payload_ok nil t = true.
Proof. exact validate_decodes. Qed.
Print Assumptions C11_validate_sound.

(* COMPLETE: the array of every such treespec is accepted ... *)
Theorem C11_validate_complete :
  forall nil t, wf_stree t = true -> payload_ok nil t = true -> validate nil (encode t) = true.
Proof. exact validate_complete. Qed.
Print Assumptions C11_validate_complete.

(* ... in particular the treespec of every flattened tree: the validation never rejects a valid pickle *)
Theorem C11_flatten_validates :
  forall c o ls sp, wf_obj o = true -> flatten c o = Ok (ls, sp) -> validate (snil sp) (trav sp) = true.
Proof. exact flatten_validates. Qed.
Print Assumptions C11_flatten_validates.

Example C11_example :
  let r := {| rcls := 0; rns := 1; rid := 1; rpet := 3 |} in
  let c := {| c_nil := true; c_ns := 1; c_pred := None; c_reg := [r]; c_ins := []; c_limit := 1000 |} in
  let o := Node (HDict [KStr [98]; KStr [97]])
                [Node (HCustom 0 5 (EGiven [KStr [120]])) [Leaf 1]; Node (HDeque (Some 4)) [Leaf 2; ONone]] in
  exists ls sp, flatten c o = Ok (ls, sp) /\ from_pickle [r] (to_pickle sp) = Ok sp /\
                from_pickle [] (to_pickle sp) = Err RuntimeError /\
                exists sp', from_pickle [{| rcls := 0; rns := 1; rid := 9; rpet := 3 |}] (to_pickle sp) = Ok sp' /\ sp' <> sp.
Proof. vm_compute. do 2 eexists. repeat split. eexists. split; [reflexivity | discriminate]. Qed.
