(* C13 — insertion-ordered dict mode is scoped to its namespace and with-block. *)
From OptreeModel Require Import Base Tree Flatten Unflatten Registry.
From OptreeProofs Require Import RegistryProofs OrderOfLeaves RecordedNs.

(* When a block exits — normally or by exception, at any nesting depth and for any interleaving of
   blocks over different namespaces — the mode of every namespace is exactly what it was before the
   block was entered.  Programs are trees, so the quantification is over ALL well-nested programs. *)
Theorem C13_mode_restored :
  forall s p, mode_equiv (fst (fst (mrun s p))) s.
Proof. exact mode_restored_run. Qed.
Print Assumptions C13_mode_restored.

(* inside the block the namespace has the requested mode and every other namespace keeps its own *)
Theorem C13_mode_scope :
  forall s mode n m, mode_get (mode_set s n mode) m = if Z.eqb m n then mode else mode_get s m.
Proof. exact mode_scope. Qed.
Print Assumptions C13_mode_scope.

(* flattening with namespace m uses insertion order iff m or the global namespace has the flag ... *)
Theorem C13_mode_effective :
  forall s m, mode_effective s m = mode_get s 0 || mode_get s m.
Proof. exact mode_effective_spec. Qed.
Print Assumptions C13_mode_effective.

(* ... for dict and defaultdict; OrderedDict is unaffected either way *)
Theorem C13_dict_visit_order :
  forall c k ks, k = KdDict \/ k = KdDDict ->
  visit_keys c k ks = if ins_ordered c then ks else total_order_sort ks.
Proof. exact dict_visit_order. Qed.
Print Assumptions C13_dict_visit_order.

Theorem C13_ordereddict_unaffected : forall c ks, visit_keys c KdODict ks = ks.
Proof. exact ordereddict_insertion_order. Qed.
Print Assumptions C13_ordereddict_unaffected.

(* "THE RESULTS STILL ROUND-TRIP": the namespace a treespec records is enough to re-flatten with. For
   every configuration (registry, mode set, predicate, none_is_leaf) flattening the same tree under the
   namespace the treespec RECORDED — which is '' unless a custom node was found or the requested
   namespace's own flag is on — returns the same leaves in the same order and the same treespec; so
   do the rebuilt tree and the with-path traversal. (A traversal that forgot to record a namespace
   whose own flag decided the key order would break this.) *)
Theorem C13_reflatten_under_recorded_namespace :
  forall c o ls sp, flatten c o = Ok (ls, sp) -> flatten (set_ns c (sns sp)) o = Ok (ls, sp).
Proof. exact reflatten_under_recorded_namespace. Qed.
Print Assumptions C13_reflatten_under_recorded_namespace.

Theorem C13_rebuilt_reflattens_under_recorded_namespace :
  forall c o ls sp, wf_obj o = true -> flatten c o = Ok (ls, sp) ->
  exists o', unflatten sp ls = Ok o' /\ flatten (set_ns c (sns sp)) o' = Ok (ls, sp).
Proof. exact rebuilt_reflattens_under_recorded_namespace. Qed.
Print Assumptions C13_rebuilt_reflattens_under_recorded_namespace.

Theorem C13_with_path_reflattens_under_recorded_namespace :
  forall c o ps ls sp, flatten_with_path c o = Ok (ps, ls, sp) ->
  exists ps', flatten_with_path (set_ns c (sns sp)) o = Ok (ps', ls, sp) /\ length ps' = length ls.
Proof. exact with_path_reflattens_under_recorded_namespace. Qed.
Print Assumptions C13_with_path_reflattens_under_recorded_namespace.

Example C13_example :
  let p := MWith true 1 [MObserve; MWith false 0 [MObserve; MWith true 2 [MObserve] true] false; MObserve] false in
  mrun [0] p = ([0], [[1; 0]; [1]; [2; 1]], true).
Proof. vm_compute. reflexivity. Qed.
