(* C13 — insertion-ordered dict mode is scoped to its namespace and with-block. *)
From OptreeModel Require Import Base Tree Flatten Registry.
From OptreeProofs Require Import RegistryProofs OrderOfLeaves.

(* When a block exits — normally or by exception, at any nesting depth and for any interleaving of
   blocks over different namespaces — the mode of every namespace is exactly what it was before the
   block was entered.  Programs are trees, so the quantification is over ALL well-nested programs. *)
Theorem C13_mode_restored :
  forall s p, mode_equiv (fst (fst (mrun s p))) s.
Proof. exact mode_restored_run. Qed.
Print Assumptions C13_mode_restored.

(* inside the block the namespace has the requested mode and every other namespace keeps its own *)
Theorem C13_mode_scope :
  forall s mode n m, mode_get (mode_set s n mode) m = if Z.eqb m n then mode else mode_get s m.
Proof. exact mode_scope. Qed.
Print Assumptions C13_mode_scope.

(* flattening with namespace m uses insertion order iff m or the global namespace has the flag ... *)
Theorem C13_mode_effective :
  forall s m, mode_effective s m = mode_get s 0 || mode_get s m.
Proof. exact mode_effective_spec. Qed.
Print Assumptions C13_mode_effective.

(* ... for dict and defaultdict; OrderedDict is unaffected either way *)
Theorem C13_dict_visit_order :
  forall c k ks, k = KdDict \/ k = KdDDict ->
  visit_keys c k ks = if ins_ordered c then ks else total_order_sort ks.
Proof. exact dict_visit_order. Qed.
Print Assumptions C13_dict_visit_order.

Theorem C13_ordereddict_unaffected : forall c ks, visit_keys c KdODict ks = ks.
Proof. exact ordereddict_insertion_order. Qed.
Print Assumptions C13_ordereddict_unaffected.

Example C13_example :
  let p := MWith true 1 [MObserve; MWith false 0 [MObserve; MWith true 2 [MObserve] true] false; MObserve] false in
  mrun [0] p = ([0], [[1; 0]; [1]; [2; 1]], true).
Proof. vm_compute. reflexivity. Qed.
