(* C08 — treespec inspection, constructors, transform and compose are consistent.
   Statements only; proofs in proofs/SpecProofs.v and proofs/InspectProofs.v. *)
From OptreeModel Require Import Base Tree Flatten Unflatten Spec ArraySpec Construct ComposeArr TransformArr Repr.
From OptreeProofs Require Import SpecProofs InspectProofs ArrayProofs ConstructProofs ComposeArrProofs TransformArrProofs ReprProofs Subst TransformGenProofs TransformAllProofs.

(* Every treespec flatten returns is the post-order encoding of a well-formed structured treespec
   (arity, num_leaves and num_nodes consistent at every node) whose leaf count is the number of
   leaves returned; decoding the array gives that structure back. All inspection results below are
   functions of that structure. *)
Theorem C08_flatten_decodes :
  forall c o ls sp, flatten c o = Ok (ls, sp) ->
  exists s, sspec_of sp = Some s /\ wf_stree (stree_of s) = true /\
            st_leaves (stree_of s) = length ls /\ spec_of s = sp.
Proof. exact flatten_decodes. Qed.
Print Assumptions C08_flatten_decodes.

Theorem C08_decode_encode :
  forall t, arity_ok t = true -> decode (encode t) = Some t.
Proof. exact decode_encode. Qed.
Print Assumptions C08_decode_encode.

(* the children's counts sum to the parent's; len(children) = num_children *)
Theorem C08_children_counts :
  forall t, wf_stree t = true -> is_leaf_node (st_node t) = false ->
  sum_nat (map st_leaves (st_children t)) = st_leaves t /\
  S (sum_nat (map st_nodes (st_children t))) = st_nodes t /\
  length (st_children t) = narity (st_node t).
Proof. exact children_counts. Qed.
Print Assumptions C08_children_counts.

(* child(i) / entry(i): Python index semantics on [-n, n), IndexError outside *)
Theorem C08_child_eq_nth :
  forall t i c, wf_stree t = true -> st_child t i = Ok c ->
  - Z.of_nat (narity (st_node t)) <= i < Z.of_nat (narity (st_node t)) /\
  nth_error (st_children t) (Z.to_nat (i mod Z.of_nat (narity (st_node t)))) = Some c.
Proof. exact child_eq_nth. Qed.
Print Assumptions C08_child_eq_nth.

Theorem C08_index_out_of_range :
  forall t i, ~ (- Z.of_nat (narity (st_node t)) <= i < Z.of_nat (narity (st_node t))) ->
  st_child t i = Err IndexError /\ st_entry t i = Err IndexError.
Proof. exact child_out_of_range. Qed.
Print Assumptions C08_index_out_of_range.

(* rebuilding the root from its one-level treespec and its children gives the same treespec *)
Theorem C08_rebuild_from_children :
  forall t, wf_stree t = true -> mkT (st_node (st_one_level t)) (st_children t) = t.
Proof. exact rebuild_from_children. Qed.
Print Assumptions C08_rebuild_from_children.

(* compose: leaves multiply, the result is well formed *)
Theorem C08_compose_leaves :
  forall a b, wf_stree a = true -> st_leaves (st_compose a b) = (st_leaves a * st_leaves b)%nat.
Proof. exact compose_leaves. Qed.
Print Assumptions C08_compose_leaves.

Theorem C08_compose_wf :
  forall a b, wf_stree a = true -> wf_stree b = true -> wf_stree (st_compose a b) = true.
Proof. exact compose_wf. Qed.
Print Assumptions C08_compose_wf.

(* transform with identity functions is the identity; replacing every leaf by s is compose(s) *)
Theorem C08_transform_identity : forall a, ss_transform_leaves a None = Ok a.
Proof. exact transform_identity. Qed.
Print Assumptions C08_transform_identity.

Theorem C08_transform_leaves_is_compose :
  forall a b s, st_leaves (stree_of a) <> O -> ss_transform_leaves a (Some b) = Ok s ->
  exists s', ss_compose a b = Ok s' /\ stree_of s' = stree_of s /\ ss_nil s' = ss_nil s /\
             ss_ns s' = ss_ns s.
Proof. exact transform_leaves_is_compose. Qed.
Print Assumptions C08_transform_leaves_is_compose.

(* non-vacuity *)
(* ARRAY LEVEL. The engine does not store a tree: it finds the children by walking the post-order node
   array backwards from the end, skipping whole subtrees by their stored num_nodes (Children(), Child();
   the same walk underlies Paths, Accessors, IsPrefix, BroadcastToCommonSuffix, FlattenUpTo). For every
   well-formed treespec that walk returns exactly the arrays of the children of the structured
   treespec, in order, and never runs into one of its internal-error checks. *)
Theorem C08_array_children :
  forall t, wf_stree t = true -> arr_children (encode t) = Ok (map encode (st_children t)).
Proof. exact arr_children_spec. Qed.
Print Assumptions C08_array_children.

(* in particular for everything flatten produces *)
Corollary C08_array_children_of_flatten :
  forall c o ls sp, flatten c o = Ok (ls, sp) ->
  exists s, sspec_of sp = Some s /\
            arr_children (trav sp) = Ok (map encode (st_children (stree_of s))).
Proof.
  intros c o ls sp H. destruct (flatten_decodes c o ls sp H) as (s & Hs & Hw & _ & Hsp).
  exists s. split; [exact Hs|]. rewrite <- Hsp. unfold spec_of. cbn [trav]. apply arr_children_spec. exact Hw.
Qed.
Print Assumptions C08_array_children_of_flatten.

(* CONSTRUCTORS. treespec_from_collection / treespec_tuple / _list / _dict / _ordereddict /
   _defaultdict / _deque / _namedtuple / _structseq (one engine function, MakeFromCollection) applied to
   the treespecs of the children of a collection return the treespec that tree_structure returns for the
   collection itself — identical node array, identical none_is_leaf, compatible namespace — and fail
   exactly when flattening the collection fails, with the same exception. For every configuration
   without a predicate on the collection, every header (all node kinds, custom flatten behaviours
   included) and all children that flatten within the depth limit. *)
Theorem C08_constructor_is_flatten :
  forall c h cs,
    apply_pred c (Node h cs) = false -> wf_obj (Node h cs) = true ->
    (forall x, In x cs -> exists r, tflat c (c_limit c) x = Ok r) ->
    match flatten c (Node h cs) with
    | Ok (ls, sp) =>
      exists s, make_from_collection c h (map (flatten_spec c) cs) = Ok s /\
                encode (stree_of s) = trav sp /\ ss_nil s = snil sp /\ ns_compatible (ss_ns s) (sns sp) = true
    | Err e => make_from_collection c h (map (flatten_spec c) cs) = Err e
    end.
Proof. exact mfc_flatten. Qed.
Print Assumptions C08_constructor_is_flatten.

(* flatten_spec is what tree_structure returns *)
Theorem C08_flatten_spec_correct :
  forall c x ls sp, flatten c x = Ok (ls, sp) ->
  spec_of (flatten_spec c x) = sp /\ sspec_of sp = Some (flatten_spec c x).
Proof. exact flatten_spec_correct. Qed.
Print Assumptions C08_flatten_spec_correct.

(* the engine's flatten is the post-order encoding of a flatten that builds the structured treespec
   directly (both directions: same success, same leaves, same error) *)
Theorem C08_flatten_is_encoded_tree_flatten :
  forall c fuel o,
    match tflat c fuel o with
    | Ok (ls, t, b) => flat c fuel o = Ok (ls, encode t, b) /\ wf_stree t = true /\ st_leaves t = length ls
    | Err e => flat c fuel o = Err e
    end.
Proof. exact flat_tflat. Qed.
Print Assumptions C08_flatten_is_encoded_tree_flatten.

Example C08_example :
  let c := {| c_nil := false; c_ns := 0; c_pred := None; c_reg := []; c_ins := []; c_limit := 1000 |} in
  let o := Node (HDict [KStr [98]; KStr [97]]) [Node HTuple [Leaf 1; Leaf 2]; Node HList [Leaf 3]] in
  exists ls sp s, flatten c o = Ok (ls, sp) /\ sspec_of sp = Some s /\
                  wf_stree (stree_of s) = true /\ length (st_children (stree_of s)) = 2%nat /\
                  st_leaves (st_compose (stree_of s) (stree_of s)) = 9%nat.
Proof. vm_compute. do 3 eexists. repeat split. Qed.

(* THE C++ PASS ITSELF. PyTreeSpec::Compose as treespec.cpp runs it — one pass over the outer node
   array, every leaf replaced by a copy of the inner array, every other node kept with num_leaves and
   num_nodes rescaled by the inner treespec's sizes, the two final consistency checks — returns the
   encoding of the tree-level composition (or the same ValueError on mismatching options). *)
Theorem C08_cpp_compose_pass :
  forall a b, wf_stree (stree_of a) = true -> wf_stree (stree_of b) = true ->
  arr_compose (spec_of a) (spec_of b) = match ss_compose a b with Ok j => Ok (spec_of j) | Err e => Err e end.
Proof. exact arr_compose_spec. Qed.
Print Assumptions C08_cpp_compose_pass.

(* the node count of a composition *)
Theorem C08_compose_nodes :
  forall a b, wf_stree a = true ->
  st_nodes (st_compose a b) = (st_nodes a - st_leaves a + st_leaves a * st_nodes b)%nat.
Proof. exact compose_nodes. Qed.
Print Assumptions C08_compose_nodes.

(* PyTreeSpec::Transform as treespec.cpp runs it, for f_node absent and f_leaf returning a fixed
   treespec: the forward pass with its stack of pending (num_leaves, num_nodes) pairs returns the
   encoding of the tree-level transform (= composition), with the same option errors and the same
   "no leaf, nothing checked" short cut *)
Theorem C08_cpp_transform_pass :
  forall a b, wf_stree (stree_of a) = true -> wf_stree (stree_of b) = true ->
  arr_transform_leaves (spec_of a) (spec_of b) =
  match ss_transform_leaves a (Some b) with Ok j => Ok (spec_of j) | Err e => Err e end.
Proof. exact arr_transform_leaves_spec. Qed.
Print Assumptions C08_cpp_transform_pass.

(* the same pass when the leaf function returns a DIFFERENT treespec at every call (f_leaf answering the
   i-th leaf with bs[i]; theories/TransformArr.v tr_gen with each answer's own pending counters and the
   per-answer none_is_leaf / first-non-empty-namespace checks in call order): the result is the encoding
   of the outer tree with its i-th leaf replaced by the i-th answer — the substitution relation of
   Subst.v, the one unflatten-with-trees-then-flatten produces (C01_unflatten_trees_then_flatten) — with
   the common namespace, or the option error; the three closing counter checks never fire *)
Theorem C08_cpp_transform_pass_general :
  forall a bs t',
  wf_stree (stree_of a) = true -> Forall (fun b => wf_stree (stree_of b) = true) bs ->
  Subst (stree_of a) (map stree_of bs) t' ->
  arr_transform_gen (spec_of a) (map spec_of bs) =
  match tr_opts_s (ss_nil a) (ss_ns a) bs with
  | Ok ns => Ok (spec_of {| stree_of := t'; ss_nil := ss_nil a; ss_ns := ns |})
  | Err e => Err e
  end.
Proof. exact arr_transform_gen_spec. Qed.
Print Assumptions C08_cpp_transform_pass_general.

(* the hypothesis is satisfiable for every outer treespec and every list of one answer per leaf, the
   substituted tree is unique, well-formed, has the answers' leaves in total and the outer's internal
   nodes plus the answers' nodes *)
Theorem C08_transform_general_result :
  forall t ts, wf_stree t = true -> Forall (fun x => wf_stree x = true) ts -> length ts = st_leaves t ->
  exists t', Subst t ts t' /\ (forall t'', Subst t ts t'' -> t'' = t') /\
    wf_stree t' = true /\ st_leaves t' = sum_nat (map st_leaves ts) /\
    (st_nodes t' + st_leaves t = st_nodes t + sum_nat (map st_nodes ts))%nat.
Proof.
  intros t ts W Wts Hl. destruct (subst_exists t W ts Hl) as (t' & HS).
  destruct (gok _ _ _ HS W Wts) as (W' & L' & N' & Len).
  exists t'. split; [exact HS|]. split; [intros t'' H2; exact (subst_functional _ _ _ _ W Wts H2 HS)|].
  split; [exact W'|]. split; [exact L'|]. rewrite <- Len. exact N'.
Qed.
Print Assumptions C08_transform_general_result.

(* the option checks accept exactly lists whose none_is_leaf flags all equal the outer's and whose
   non-empty namespaces (the outer's included) are all the returned one *)
Theorem C08_transform_general_options :
  forall nil0 bs common ns, tr_opts nil0 common bs = Ok ns ->
  Forall (fun b => snil b = nil0 /\ (sns b = 0%Z \/ sns b = ns)) bs /\ (common = 0%Z \/ common = ns).
Proof. exact tr_opts_ok. Qed.
Print Assumptions C08_transform_general_options.

(* answering every call with the same treespec is the constant-f_leaf pass: composition *)
Theorem C08_transform_general_constant :
  forall a b t', Subst (stree_of a) (repeat (stree_of b) (st_leaves (stree_of a))) t' ->
  t' = st_compose (stree_of a) (stree_of b).
Proof. exact transform_gen_repeat. Qed.
Print Assumptions C08_transform_general_constant.

Example C08_transform_general_example :
  let leaf := st_leaf in
  let pair := mkT {| nkind := KdTuple; narity := 2; ndat := DNone; nentries := None; ncustom := None; nleaves := 0; nnodes := 0; norig := None |} [leaf; leaf] in
  let lst := mkT {| nkind := KdList; narity := 1; ndat := DNone; nentries := None; ncustom := None; nleaves := 0; nnodes := 0; norig := None |} [leaf] in
  arr_transform_gen {| trav := encode pair; snil := false; sns := 0 |}
                    [ {| trav := encode lst; snil := false; sns := 2 |}; {| trav := encode pair; snil := false; sns := 0 |} ]
  = Ok {| trav := encode (mkT (st_node pair) [lst; pair]); snil := false; sns := 2 |}.
Proof. vm_compute. reflexivity. Qed.

(* TRANSFORM WITH BOTH FUNCTIONS ARBITRARY. The loop of treespec.cpp with one answer per node of the array in call
   order (theories/TransformArr.v tr_all / arr_transform_all; None = the function of that node's class is absent
   or returned its argument): a leaf is replaced by its answer; an internal node's answer must have `arity`
   leaves and `arity + 1` nodes, and only its root node is used, emitted with the counters summed from the
   pending pairs of the node's already transformed children; num_extra_leaves / num_extra_nodes accumulate as
   in the C++.  For every well-formed outer treespec and every list of well-formed answers related to it by
   the tree-level transform Tr (leaf := answer, header := the answer's root, children transformed recursively)
   the pass returns the encoding of the transformed tree with the common namespace, or the option error; none
   of the internal checks fires. *)
Theorem C08_cpp_transform_pass_both_functions :
  forall a answers t',
  wf_stree (stree_of a) = true ->
  Forall (fun o => match o with Some b => wf_stree (stree_of b) = true | None => True end) answers ->
  Tr (stree_of a) (map (option_map stree_of) answers) t' ->
  arr_transform_all (spec_of a) (map (option_map spec_of) answers) =
  match tr_opts_s (ss_nil a) (ss_ns a) (given answers) with
  | Ok ns => Ok (spec_of {| stree_of := t'; ss_nil := ss_nil a; ss_ns := ns |})
  | Err e => Err e
  end.
Proof. exact arr_transform_all_spec. Qed.
Print Assumptions C08_cpp_transform_pass_both_functions.

(* what the two size checks accept for an internal node is exactly a one-level treespec of the node's arity
   (root with `arity` leaf children), never a leaf *)
Theorem C08_transform_accepted_answer_is_one_level :
  forall n x, wf_stree x = true -> st_leaves x = narity n -> st_nodes x = S (narity n) ->
  narity (st_node x) = narity n /\ is_leaf_node (st_node x) = false.
Proof. exact accepted_answer_one_level. Qed.
Print Assumptions C08_transform_accepted_answer_is_one_level.

(* anything else is a ValueError raised at that node *)
Theorem C08_transform_rejected_answer :
  forall n ns b answers out stack xl xn,
  is_leaf_node n = false -> root_leaves b <> narity n \/ length b <> S (narity n) ->
  tr_all (n :: ns) (Some b :: answers) out stack xl xn = Err ValueError.
Proof. exact tr_all_rejects. Qed.
Print Assumptions C08_transform_rejected_answer.

(* "transform with identity functions is the identity": with every function absent or returning its argument
   the transformed tree is the tree itself; the transformed tree is unique and well-formed in general *)
Theorem C08_transform_identity_functions :
  forall t, wf_stree t = true -> Tr t (repeat None (st_nodes t)) t.
Proof. exact tr_identity. Qed.
Print Assumptions C08_transform_identity_functions.

Theorem C08_transform_result_unique_wf :
  forall t aa t1, wf_stree t = true -> wfa aa -> Tr t aa t1 ->
  wf_stree t1 = true /\ length aa = st_nodes t /\ forall t2, Tr t aa t2 -> t2 = t1.
Proof.
  intros t aa t1 W Waa H. destruct (aok _ _ _ H W Waa) as [W1 L].
  split; [exact W1|]. split; [exact L|]. intros t2 H2. exact (tr_functional _ _ _ _ W Waa H2 H).
Qed.
Print Assumptions C08_transform_result_unique_wf.

(* REPR. PyTreeSpec::ToStringImpl as serialization.cpp runs it — the agenda machine over the post-order node
   array (theories/Repr.v; the text as a list of tokens: pieces of the documented notation and the texts
   Python gives for keys, class and field names, default factory, maxlen, metadata, namespace) — computes
   the tree-level repr: a node's text is built from its children's texts by the rule of its kind
   (a star for a leaf, None, (a, b) with the one-element comma, [..], {k: v}, OrderedDict({..}) / OrderedDict()
   when empty, defaultdict(factory, {..}), deque([..], maxlen=n), Name(field=..), CustomTreeNode(Cls[meta], [..])),
   wrapped in PyTreeSpec(..., NoneIsLeaf, namespace='..') *)
Theorem C08_cpp_repr_loop :
  forall s, wf_stree (stree_of s) = true -> arr_repr (spec_of s) = ss_repr s.
Proof. exact arr_repr_spec. Qed.
Print Assumptions C08_cpp_repr_loop.

(* the repr of the treespec of every tree that flattens exists (no internal error) and renders exactly
   one star per leaf *)
Theorem C08_repr_one_star_per_leaf :
  forall c o ls sp, wf_obj o = true -> flatten c o = Ok (ls, sp) ->
  exists r, arr_repr sp = Ok r /\ count_stars r = length ls.
Proof. exact repr_of_flattened. Qed.
Print Assumptions C08_repr_one_star_per_leaf.

(* the suffixes: ", NoneIsLeaf" is there exactly for none_is_leaf treespecs, ", namespace=" exactly for a
   non-empty namespace (the body of a repr contains neither piece) *)
Theorem C08_repr_suffixes :
  forall nil ns body,
  (In (RL LNil) (wrap nil ns body) <-> nil = true \/ In (RL LNil) body) /\
  (In (RL LNsPre) (wrap nil ns body) <-> ns <> 0%Z \/ In (RL LNsPre) body).
Proof. exact wrap_suffixes. Qed.
Print Assumptions C08_repr_suffixes.
