(* Ravel.v — optree/integration/{numpy,jax,torch}.py tree_ravel: the bookkeeping of sizes, shapes,
   dtypes, cumulative indices and the split, on arrays modelled as (shape, dtype, flat data). The
   numeric content of casts and of dtype promotion is a parameter (Section hypotheses). *)
From Coq Require Export List ZArith Bool Lia.
Export ListNotations.

Record arr := { shape : list nat; dtype : Z; data : list Z }.

Definition prod_nat (l : list nat) : nat := fold_right Nat.mul 1%nat l.
Definition arr_wf (a : arr) : Prop := length (data a) = prod_nat (shape a).

Fixpoint cumsum_from (acc : nat) (l : list nat) : list nat :=
  match l with [] => [] | x :: l' => (acc + x)%nat :: cumsum_from (acc + x) l' end.
Definition cumsum (l : list nat) : list nat := cumsum_from 0 l.   (* itertools.accumulate(sizes) *)

(* np.split(flat, indices): the chunks between successive indices, and the rest *)
Fixpoint split_idx {A} (prev : nat) (idxs : list nat) (v : list A) : list (list A) :=
  match idxs with
  | [] => [skipn prev v]
  | i :: idxs' => firstn (i - prev) (skipn prev v) :: split_idx i idxs' v
  end.
Definition split_by_indices {A} (idxs : list nat) (v : list A) : list (list A) := split_idx 0 idxs v.

(* torch.split(flat, sizes) *)
Fixpoint split_by_sizes {A} (sizes : list nat) (v : list A) : list (list A) :=
  match sizes with
  | [] => []
  | s :: sizes' => firstn s v :: split_by_sizes sizes' (skipn s v)
  end.

Inductive rres (A : Type) := ROk (a : A) | RValueError.
Arguments ROk {A} a.
Arguments RValueError {A}.

Section Ravel.
  Variable promote : list Z -> Z.              (* result_type of the leaves' dtypes *)
  Variable cast : Z -> Z -> Z -> Z.            (* cast from_dtype to_dtype value *)

  Definition all_same (d : Z) (ds : list Z) : bool := forallb (Z.eqb d) ds.

  (* _ravel_leaves: (flat data, dtype of the flat vector) *)
  Definition ravel_leaves (leaves : list arr) : list Z * Z :=
    match leaves with
    | [] => ([], 0%Z)                                 (* np.zeros(0): default dtype, code 0 *)
    | _ =>
      let to := promote (map dtype leaves) in
      if all_same to (map dtype leaves)
      then (concat (map data leaves), to)
      else (concat (map (fun a => map (cast (dtype a) to) (data a)) leaves), to)
    end.

  (* the unravel function returned for those leaves, applied to a flat vector of dtype vd *)
  Definition unravel (leaves : list arr) (v : list Z) (vd : Z) : rres (list arr) :=
    match leaves with
    | [] => if Nat.eqb (length v) 0 then ROk [] else RValueError
    | _ =>
      let sizes := map (fun a => prod_nat (shape a)) leaves in
      let idx := cumsum sizes in
      let total := last idx 0%nat in
      if negb (Nat.eqb (length v) total) then RValueError
      else
        let to := promote (map dtype leaves) in
        let chunks := split_by_indices (removelast idx) v in
        if all_same to (map dtype leaves)
        then (* dtype-polymorphic: no dtype check, no cast *)
          ROk (map (fun '(ch, a) => {| shape := shape a; dtype := vd; data := ch |}) (combine chunks leaves))
        else if negb (Z.eqb vd to) then RValueError
        else ROk (map (fun '(ch, a) => {| shape := shape a; dtype := dtype a;
                                          data := map (cast to (dtype a)) ch |}) (combine chunks leaves))
    end.
End Ravel.
