(* ArraySpec.v — the engine's own way of finding the children of a treespec: an index walk from the end
   of the post-order node array, skipping whole subtrees by their stored num_nodes
   (src/treespec/treespec.cpp PyTreeSpec::Children / Child; the same walk is the core of Paths,
   Accessors, IsPrefix, BroadcastToCommonSuffix and FlattenUpTo). *)
From OptreeModel Require Export Tree Spec.

Definition slice {A} (a : list A) (lo hi : nat) : list A := firstn (hi - lo) (skipn lo a).

(* children are cut off from the right: [i] children still to find, [pos] = index one past the
   subtree that ends the remaining prefix *)
Fixpoint arr_children_go (a : list node) (i pos : nat) (acc : list (list node)) : res (list (list node)) :=
  match i with
  | O => if Nat.eqb pos 0 then Ok acc else Err InternalError        (* EXPECT_EQ(pos, 0) *)
  | S i' =>
    match pos with
    | O => Err InternalError                                         (* m_traversal.at(pos - 1) *)
    | S p =>
      match nth_error a p with
      | None => Err InternalError
      | Some nd =>
        if Nat.ltb pos (nnodes nd) then Err InternalError            (* EXPECT_GE(pos, node.num_nodes) *)
        else arr_children_go a i' (pos - nnodes nd) (slice a (pos - nnodes nd) pos :: acc)
      end
    end
  end.

Definition arr_children (a : list node) : res (list (list node)) :=
  match rev a with
  | [] => Err InternalError                                          (* sanity check: empty traversal *)
  | root :: _ => arr_children_go a (narity root) (length a - 1) []
  end.
