(* Ops.v — the Python layer of optree/ops.py that composes engine calls:
   tree_map family (with the trace of calls to the mapped function), broadcast_prefix,
   tree_broadcast_prefix, tree_broadcast_common, broadcast_common, tree_transpose. *)
From OptreeModel Require Export Spec.

(* Python zip of the columns: rows until the shortest column ends *)
Fixpoint zip_cols_go {A} (n : nat) (cols : list (list A)) : list (list A) :=
  match n with
  | O => []
  | S n' =>
    match omapM (@hd_error A) cols with
    | None => []
    | Some row => row :: zip_cols_go n' (map (@tl A) cols)
    end
  end.
(* zip() of no iterables yields nothing *)
Definition zip_cols {A} (n : nat) (cols : list (list A)) : list (list A) :=
  match cols with [] => [] | _ => zip_cols_go n cols end.

Definition sspec_res (s : spec) : res sspec :=
  match sspec_of s with Some x => Ok x | None => Err InternalError end.

(* mapM that also returns how far it got: the trace of calls made before an error; the function
   receives the call index (0-based) *)
Fixpoint mapM_trace {A B} (f : nat -> A -> res B) (i : nat) (l : list A) : res (list B) * list A :=
  match l with
  | [] => (Ok [], [])
  | x :: l' =>
    match f i x with
    | Err e => (Err e, [x])
    | Ok y => let '(r, tr) := mapM_trace f (S i) l' in
              (match r with Ok ys => Ok (y :: ys) | Err e => Err e end, x :: tr)
    end
  end.

(* tree_map(f, tree, rests...): returns (result, trace of argument rows f was called with).
   ops.py: flatten; flatten_up_to each rest (all before the first call of f); unflatten(map(f,...)). *)
Definition tree_map_trace (c : cfg) (f : nat -> list obj -> res obj) (t : obj) (rests : list obj)
  : res obj * list (list obj) :=
  match flatten c t with
  | Err e => (Err e, [])
  | Ok (ls, sp) =>
    match sspec_res sp with
    | Err e => (Err e, [])
    | Ok s =>
      match mapM (ss_flatten_up_to (c_reg c) s) rests with
      | Err e => (Err e, [])
      | Ok cols =>
        let rows := zip_cols (length ls) (ls :: cols) in
        let '(outs, tr) := mapM_trace f 0 rows in
        (match outs with
         | Err e => Err e
         | Ok os => unflatten sp os
         end, tr)
      end
    end
  end.

Definition tree_map (c : cfg) (f : nat -> list obj -> res obj) (t : obj) (rests : list obj) : res obj :=
  fst (tree_map_trace c f t rests).

(* tree_map_: same calls, returns the original tree *)
Definition tree_map_ (c : cfg) (f : nat -> list obj -> res obj) (t : obj) (rests : list obj) : res obj :=
  match tree_map_trace c f t rests with
  | (Ok _, _) => Ok t
  | (Err e, _) => Err e
  end.

(* broadcast_leaves(x, subtree) of tree_broadcast_prefix / tree_broadcast_common *)
Definition broadcast_leaves (c : cfg) (x sub : obj) : res obj :=
  do r <- flatten c sub ;;
  let '(ls, sp) := r in
  unflatten sp (repeat x (length ls)).

Definition tree_broadcast_prefix (c : cfg) (p full : obj) : res obj :=
  tree_map c (fun _ row => match row with [x; sub] => broadcast_leaves c x sub | _ => Err InternalError end)
           p [full].

(* broadcast_prefix: the leaves, each repeated once per leaf of the matching subtree *)
Definition broadcast_prefix (c : cfg) (p full : obj) : res (list obj) :=
  match tree_map_trace c (fun _ row => match row with
                                     | [x; sub] => do r <- flatten c sub ;; Ok x
                                     | _ => Err InternalError end) p [full] with
  | (Err e, _) => Err e
  | (Ok _, tr) =>
    do parts <- mapM (fun row => match row with
                                 | [x; sub] => do r <- flatten c sub ;; Ok (repeat x (length (fst r)))
                                 | _ => Err InternalError end) tr ;;
    Ok (concat parts)
  end.

Definition sentinel : obj := Leaf (-1).

Definition tree_broadcast_common (c : cfg) (t o : obj) : res (obj * obj) :=
  do r1 <- flatten c t ;;
  do r2 <- flatten c o ;;
  let '(ls1, sp1) := r1 in
  let '(ls2, sp2) := r2 in
  do s1 <- sspec_res sp1 ;;
  do s2 <- sspec_res sp2 ;;
  do cs <- ss_broadcast s1 s2 ;;
  do ctree <- unflatten (spec_of cs) (repeat sentinel (st_leaves (stree_of cs))) ;;
  do subs1 <- ss_flatten_up_to (c_reg c) s1 ctree ;;
  do outs1 <- mapM (fun '(x, sub) => broadcast_leaves c x sub) (combine ls1 subs1) ;;
  do b1 <- unflatten sp1 outs1 ;;
  do subs2 <- ss_flatten_up_to (c_reg c) s2 ctree ;;
  do outs2 <- mapM (fun '(x, sub) => broadcast_leaves c x sub) (combine ls2 subs2) ;;
  do b2 <- unflatten sp2 outs2 ;;
  Ok (b1, b2).

Definition broadcast_common (c : cfg) (t o : obj) : res (list obj * list obj) :=
  do r <- tree_broadcast_common c t o ;;
  let '(b1, b2) := r in
  do f1 <- flatten c b1 ;;
  let '(ls1, sp1) := f1 in
  do s1 <- sspec_res sp1 ;;
  do ls2 <- ss_flatten_up_to (c_reg c) s1 b2 ;;
  Ok (ls1, ls2).

(* ---------- tree_transpose ---------- *)
Fixpoint chunks {A} (n : nat) (k : nat) (l : list A) : list (list A) :=
  (* k chunks of size n *)
  match k with
  | O => []
  | S k' => firstn n l :: chunks n k' (skipn n l)
  end.

Definition tree_transpose (c : cfg) (outer inner : sspec) (t : obj) : res obj :=
  if negb (Bool.eqb (ss_nil outer) (ss_nil inner)) then Err ValueError
  else
    let m := st_leaves (stree_of outer) in
    let n := st_leaves (stree_of inner) in
    if Nat.eqb m 0 || Nat.eqb n 0 then Err ValueError
    else if negb (ns_compatible (ss_ns outer) (ss_ns inner)) then Err ValueError
    else
      let c' := {| c_nil := ss_nil outer;
                   c_ns := if Z.eqb (ss_ns outer) 0 then ss_ns inner else ss_ns outer;
                   c_pred := c_pred c; c_reg := c_reg c; c_ins := c_ins c; c_limit := c_limit c |} in
      do r <- flatten c' t ;;
      let '(ls, sp) := r in
      if negb (Nat.eqb (length ls) (m * n)) then Err TypeError
      else
        let grouped := chunks n m ls in
        let transposed := zip_cols n grouped in
        do subtrees <- mapM (unflatten (spec_of outer)) transposed ;;
        unflatten (spec_of inner) subtrees.
