(* Conc.v — threads, the GIL and the engine's own mutexes (property C17).
   On a GIL build a thread switch can only happen while a thread runs Python code, i.e. inside a
   callback. A thread that blocks on a C++ mutex does NOT release the GIL; if the mutex is held by a
   thread that is parked inside a callback (and needs the GIL to continue) nothing can ever run again.
   The engine's rule (include/optree/synchronization.h, src/registry.cpp, include/optree/pytypes.h):
   no Python code runs while one of its mutexes is held.
   Also: the shared leaf iterator (src/treespec/traversal.cpp NextImpl) takes a node off the agenda
   BEFORE it calls the is_leaf predicate. *)
From Coq Require Export List Arith Bool Lia.
Export ListNotations.

Inductive act :=
| ALock (l : nat)        (* scoped_*_lock_guard constructed *)
| AUnlock (l : nat)      (* ... destroyed *)
| ACall                  (* Python code runs: the GIL may be handed to any other thread *)
| AWork.                 (* C++ code that cannot run Python code *)
Definition prog := list act.

Record cstate := { progs : nat -> prog; owner : nat -> option nat; gil : nat }.

Definition upd {A} (f : nat -> A) (i : nat) (v : A) : nat -> A :=
  fun j => if Nat.eqb j i then v else f j.

Inductive cstep : cstate -> cstate -> Prop :=
| SWork s p :
    progs s (gil s) = AWork :: p ->
    cstep s {| progs := upd (progs s) (gil s) p; owner := owner s; gil := gil s |}
| SLock s l p :
    progs s (gil s) = ALock l :: p -> owner s l = None ->
    cstep s {| progs := upd (progs s) (gil s) p; owner := upd (owner s) l (Some (gil s)); gil := gil s |}
| SUnlock s l p :
    progs s (gil s) = AUnlock l :: p -> owner s l = Some (gil s) ->
    cstep s {| progs := upd (progs s) (gil s) p; owner := upd (owner s) l None; gil := gil s |}
| SCall s p t' :
    progs s (gil s) = ACall :: p ->
    cstep s {| progs := upd (progs s) (gil s) p; owner := owner s; gil := t' |}
| SExit s t' :
    progs s (gil s) = [] -> progs s t' <> [] ->
    cstep s {| progs := progs s; owner := owner s; gil := t' |}.
(* there is no rule for ALock on a mutex that is taken: the thread waits, holding the GIL *)

Inductive creach : cstate -> cstate -> Prop :=
| RRefl s : creach s s
| RStep s s' s'' : creach s s' -> cstep s' s'' -> creach s s''.

Definition unfinished (s : cstate) : Prop := exists t, progs s t <> [].
Definition deadlocked (s : cstate) : Prop := unfinished s /\ forall s', ~ cstep s s'.

Fixpoint mem (l : nat) (h : list nat) : bool :=
  match h with [] => false | x :: h' => Nat.eqb l x || mem l h' end.
Fixpoint rem (l : nat) (h : list nat) : list nat :=
  match h with [] => [] | x :: h' => if Nat.eqb l x then rem l h' else x :: rem l h' end.

(* the lock discipline, decidable on a program: mutexes are taken at most once, released only when
   held, all released at the end, and NO Python code runs while any is held *)
Fixpoint wf (held : list nat) (p : prog) : bool :=
  match p with
  | [] => match held with [] => true | _ => false end
  | ALock l :: p' => negb (mem l held) && wf (l :: held) p'
  | AUnlock l :: p' => mem l held && wf (rem l held) p'
  | ACall :: p' => match held with [] => wf [] p' | _ => false end
  | AWork :: p' => wf held p'
  end.

(* ================= the shared leaf iterator ================= *)
(* agenda: next node first. Each consumer's next() is two steps separated by the is_leaf callback:
   take the node, then (after the callback) hand it out. pop_first = true is the engine. *)
Record istate := { agenda : list nat; pending : nat -> option nat; emitted : list nat }.

Inductive istep (pop_first : bool) (n : nat) : istate -> istate -> Prop :=
| ITake s t x a :
    (t < n)%nat -> agenda s = x :: a -> pending s t = None ->
    istep pop_first n s {| agenda := if pop_first then a else x :: a;
                           pending := upd (pending s) t (Some x); emitted := emitted s |}
| IReturn s t x :
    (t < n)%nat -> pending s t = Some x ->
    istep pop_first n s {| agenda := if pop_first then agenda s else tl (agenda s);
                           pending := upd (pending s) t None; emitted := emitted s ++ [x] |}.

(* n consumers; every interleaving of their steps *)
Inductive ireach (pop_first : bool) (n : nat) : istate -> istate -> Prop :=
| IRefl s : ireach pop_first n s s
| IStep s s' s'' : ireach pop_first n s s' -> istep pop_first n s' s'' -> ireach pop_first n s s''.

Definition ifresh (l : list nat) : istate := {| agenda := l; pending := fun _ => None; emitted := [] |}.
