(* AccArr.v — PyTreeSpec::Accessors as the C++ runs it (src/treespec/treespec.cpp:722-826): the same
   recursive walk as Paths (PathsArr.v), with every entry wrapped by the node's path entry type together
   with the node's type and kind before it is pushed on the stack. *)
From OptreeModel Require Export Tree Flatten Spec PrefixArr PathsArr.

Definition tpath := list tentry.

Fixpoint aarr_loop (rec : list node -> list tentry -> res (list tpath * nat)) (ra' : list node) (stk : list tentry)
         (root : node) (entries_last_first : list key) (k : nat) (cur : nat) (emitted : list tpath)
  : res (list tpath * nat) :=
  match k with
  | O => Ok (emitted, cur)
  | S k' =>
    match entries_last_first with
    | [] => Err InternalError
    | e :: es =>
      (* path_entry_type(entry, node_type, node_kind) *)
      do r <- rec (skipn cur ra') (stk ++ [TE e (entry_class root) (node_type root) (nkind root)]) ;;
      let '(ps, walked) := r in
      aarr_loop rec ra' stk root es k' (cur + walked)%nat (emitted ++ ps)
    end
  end.

Fixpoint aarr (fuel : nat) (ra : list node) (stk : list tentry) : res (list tpath * nat) :=
  match fuel with
  | O => Err RecursionError
  | S fuel' =>
    match ra with
    | [] => Err InternalError
    | root :: ra' =>
      if Nat.ltb (length ra) (nnodes root) then Err InternalError
      else
        let loop (es : list key) : res (list tpath * nat) :=
          do r <- aarr_loop (aarr fuel') ra' stk root (rev (firstn (narity root) es)) (narity root) 0%nat [] ;;
          let '(ps, cur) := r in Ok (ps, S cur) in
        match nentries root with
        | Some es =>
          (* EXPECT_EQ(root.kind, Custom); EXPECT_NE(root.custom, nullptr) *)
          match nkind root, ncustom root with
          | KdCustom, Some _ => loop es
          | _, _ => Err InternalError
          end
        | None =>
          match nkind root with
          | KdLeaf => Ok ([stk], 1%nat)
          | KdNone => Ok ([], 1%nat)
          | KdTuple | KdList | KdNamed | KdDeque | KdStruct | KdCustom => loop (pos_keys (narity root) 0)
          | KdDict | KdODict | KdDDict =>
            match node_keys root with
            | Some ks => loop ks
            | None => Err InternalError
            end
          end
        end
    end
  end.

Definition arr_accessors (s : spec) : res (list tpath) :=
  match rev (trav s) with
  | [] => Err InternalError
  | root :: _ =>
    if Nat.eqb (nleaves root) 0 then Ok []
    else
      do r <- aarr (S (length (trav s))) (rev (trav s)) [] ;;
      let '(ps, walked) := r in
      if negb (Nat.eqb walked (length (trav s))) then Err InternalError
      else if negb (Nat.eqb (length ps) (nleaves root)) then Err InternalError
      else Ok (rev ps)
  end.
