(* Walk.v — PyTreeSpec.traverse (src/treespec/traversal.cpp WalkImpl with PassRawNode = false): the
   stack machine of unflatten with a leaf function applied to every leaf and a node function applied
   to every rebuilt internal node. *)
From OptreeModel Require Export Tree Unflatten Spec.

Inductive wev := WLeaf (x : obj) | WNode (x : obj).

(* the functions see how many times they were called before (so that "raise at the k-th call" is
   expressible); a missing function (None in Python) is the identity that is never called *)
Definition wfun := nat -> obj -> res obj.

Fixpoint walk_go (fl fn : option wfun) (ns : list node) (leaves : list obj) (stack : list obj)
         (il inn : nat) (trace : list wev) : res obj * list wev :=
  match ns with
  | [] =>
    match leaves with
    | _ :: _ => (Err ValueError, trace)
    | [] => match stack with [x] => (Ok x, trace) | _ => (Err InternalError, trace) end
    end
  | n :: ns' =>
    if Nat.ltb (length stack) (narity n) then (Err InternalError, trace)
    else
      match nkind n with
      | KdLeaf =>
        match leaves with
        | [] => (Err ValueError, trace)
        | x :: leaves' =>
          match fl with
          | None => walk_go fl fn ns' leaves' (x :: stack) il inn trace
          | Some f =>
            match f il x with
            | Err e => (Err e, trace ++ [WLeaf x])
            | Ok y => walk_go fl fn ns' leaves' (y :: stack) (S il) inn (trace ++ [WLeaf x])
            end
          end
        end
      | _ =>
        match make_node n (rev (firstn (narity n) stack)) with
        | Err e => (Err e, trace)
        | Ok o =>
          match fn with
          | None => walk_go fl fn ns' leaves (o :: skipn (narity n) stack) il inn trace
          | Some f =>
            match f inn o with
            | Err e => (Err e, trace ++ [WNode o])
            | Ok y => walk_go fl fn ns' leaves (y :: skipn (narity n) stack) il (S inn) (trace ++ [WNode o])
            end
          end
        end
      end
  end.

Definition traverse (fl fn : option wfun) (s : spec) (leaves : list obj) : res obj * list wev :=
  if sanity s then walk_go fl fn (trav s) leaves [] 0 0 [] else (Err InternalError, []).

(* ---------- the same at tree level: children first, then the node function ---------- *)
Definition wstate := (list obj * nat * nat * list wev)%type.   (* remaining leaves, counters, trace *)

Fixpoint twalk (fl fn : option wfun) (t : stree) (st : wstate) : res obj * wstate :=
  match t with
  | T n cs =>
    let '(leaves, il, inn, tr) := st in
    if is_leaf_node n then
      match leaves with
      | [] => (Err ValueError, st)
      | x :: leaves' =>
        match fl with
        | None => (Ok x, (leaves', il, inn, tr))
        | Some f =>
          match f il x with
          | Err e => (Err e, (leaves', il, inn, tr ++ [WLeaf x]))
          | Ok y => (Ok y, (leaves', S il, inn, tr ++ [WLeaf x]))
          end
        end
      end
    else
      let '(rcs, st1) :=
        (fix go (l : list stree) (st0 : wstate) : res (list obj) * wstate :=
           match l with
           | [] => (Ok [], st0)
           | c :: l' =>
             match twalk fl fn c st0 with
             | (Err e, st') => (Err e, st')
             | (Ok y, st') =>
               match go l' st' with
               | (Err e, st'') => (Err e, st'')
               | (Ok ys, st'') => (Ok (y :: ys), st'')
               end
             end
           end) cs st in
      match rcs with
      | Err e => (Err e, st1)
      | Ok cs' =>
        match make_node n cs' with
        | Err e => (Err e, st1)
        | Ok o =>
          let '(leaves1, il1, inn1, tr1) := st1 in
          match fn with
          | None => (Ok o, st1)
          | Some f =>
            match f inn1 o with
            | Err e => (Err e, (leaves1, il1, inn1, tr1 ++ [WNode o]))
            | Ok y => (Ok y, (leaves1, il1, S inn1, tr1 ++ [WNode o]))
            end
          end
        end
      end
  end.
