(* Tree.v — Python objects as the engine sees them, treespec nodes (include/optree/treespec.h:303
   struct Node), the registry as a lookup table and the flatten configuration. Definitions only. *)
From OptreeModel Require Export Base.

(* ---------- objects ---------- *)
(* What a registered custom class's flatten function returns besides children and metadata. *)
Inductive ebeh :=
| EAbsent                       (* 2-tuple (children, metadata) *)
| ENone                         (* 3-tuple with entries = None *)
| EGiven (es : list key)        (* 3-tuple with explicit entries (length may be wrong: malformed) *)
| EMalTuple (n : Z)             (* returns a tuple of length n (not 2 or 3) *)
| ERaise (e : Z).               (* the flatten function raises exception object e *)

Inductive hdr :=
| HNone
| HTuple | HList
| HDict (ks : list key)                      (* keys in insertion order *)
| HODict (ks : list key)
| HDDict (factory : Z) (ks : list key)
| HDeque (maxlen : option Z)
| HNamed (cls : Z)                           (* namedtuple subclass number cls *)
| HStruct (cls : Z)                          (* struct sequence type number cls *)
| HCustom (cls : Z) (meta : Z) (eb : ebeh).  (* instance of user class cls *)

Inductive obj :=
| Leaf (id : Z)                              (* opaque object, identity = id *)
| Node (h : hdr) (cs : list obj).

Definition ONone : obj := Node HNone [].

Definition hdr_keys (h : hdr) : option (list key) :=
  match h with HDict ks | HODict ks | HDDict _ ks => Some ks | _ => None end.

(* well-formed: dict keys unique and as many as children; None has no children; deque fits;
   custom entries (when explicit and the class is well behaved) as many as children *)
Definition wf_hdr (h : hdr) (n : nat) : bool :=
  match h with
  | HNone => Nat.eqb n 0
  | HDict ks | HODict ks | HDDict _ ks => Nat.eqb (length ks) n && keys_nodup ks
  | HDeque (Some m) => Z.leb (Z.of_nat n) m
  | _ => true
  end.

Fixpoint wf_obj (o : obj) : bool :=
  match o with
  | Leaf _ => true
  | Node h cs => wf_hdr h (length cs) && forallb wf_obj cs
  end.

(* ---------- treespec nodes ---------- *)
Inductive kind :=
| KdCustom | KdLeaf | KdNone | KdTuple | KdList | KdDict | KdNamed | KdODict | KdDDict
| KdDeque | KdStruct.

Definition kind_code (k : kind) : Z :=
  match k with
  | KdCustom => 0 | KdLeaf => 1 | KdNone => 2 | KdTuple => 3 | KdList => 4 | KdDict => 5
  | KdNamed => 6 | KdODict => 7 | KdDDict => 8 | KdDeque => 9 | KdStruct => 10
  end.
Definition kind_eqb (a b : kind) : bool := Z.eqb (kind_code a) (kind_code b).

Inductive ndata :=
| DNone
| DKeys (ks : list key)
| DDefault (factory : Z) (ks : list key)
| DClass (cls : Z)
| DMaxlen (m : option Z)
| DMeta (meta : Z) (eb : ebeh).

(* a registration: class, namespace (0 = global ''), identity of the registration record
   (the C++ compares shared_ptr identity), and the path entry type code *)
Record reg := { rcls : Z; rns : Z; rid : Z; rpet : Z }.

Record node := {
  nkind : kind;
  narity : nat;
  ndat : ndata;
  nentries : option (list key);
  ncustom : option reg;
  nleaves : nat;
  nnodes : nat;
  norig : option (list key)
}.

Definition leaf_node : node :=
  {| nkind := KdLeaf; narity := 0; ndat := DNone; nentries := None; ncustom := None;
     nleaves := 1; nnodes := 1; norig := None |}.

Record spec := { trav : list node; snil : bool; sns : Z }.

(* ---------- configuration ---------- *)
Record cfg := {
  c_nil : bool;                  (* none_is_leaf *)
  c_ns : Z;                      (* namespace, 0 = '' *)
  c_pred : option (obj -> bool); (* is_leaf predicate *)
  c_reg : list reg;              (* registry: named and global registrations *)
  c_ins : list Z;                (* namespaces in insertion-ordered mode (0 = global switch) *)
  c_limit : nat                  (* MAX_RECURSION_DEPTH *)
}.

Fixpoint find_reg (cls ns : Z) (l : list reg) : option reg :=
  match l with
  | [] => None
  | r :: l' => if Z.eqb (rcls r) cls && Z.eqb (rns r) ns then Some r else find_reg cls ns l'
  end.

(* registry.cpp Lookup: named registration first (only for a non-empty namespace), then global *)
Definition lookup_reg (c : cfg) (cls : Z) : option reg :=
  if Z.eqb (c_ns c) 0 then find_reg cls 0 (c_reg c)
  else match find_reg cls (c_ns c) (c_reg c) with
       | Some r => Some r
       | None => find_reg cls 0 (c_reg c)
       end.

Fixpoint Z_mem (x : Z) (l : list Z) : bool :=
  match l with [] => false | y :: l' => Z.eqb x y || Z_mem x l' end.

(* treespec.h IsDictInsertionOrdered(ns, inherit_global) *)
Definition ins_ordered (c : cfg) : bool := Z_mem 0 (c_ins c) || Z_mem (c_ns c) (c_ins c).
Definition ins_ordered_here (c : cfg) : bool := Z_mem (c_ns c) (c_ins c).

(* registry.cpp GetKind: what kind of node is this object, with which registration *)
Definition get_kind (c : cfg) (o : obj) : kind * option reg :=
  match o with
  | Leaf _ => (KdLeaf, None)
  | Node h _ =>
    match h with
    | HNone => if c_nil c then (KdLeaf, None) else (KdNone, None)
    | HTuple => (KdTuple, None)
    | HList => (KdList, None)
    | HDict _ => (KdDict, None)
    | HODict _ => (KdODict, None)
    | HDDict _ _ => (KdDDict, None)
    | HDeque _ => (KdDeque, None)
    | HNamed _ => (KdNamed, None)
    | HStruct _ => (KdStruct, None)
    | HCustom cls _ _ =>
      match lookup_reg c cls with
      | Some r => (KdCustom, Some r)
      | None => (KdLeaf, None)
      end
    end
  end.

Definition apply_pred (c : cfg) (o : obj) : bool :=
  match c_pred c with Some p => p o | None => false end.

(* ---------- equality tests (used by the model's comparisons and by proofs) ---------- *)
Definition ebeh_eqb (a b : ebeh) : bool :=
  match a, b with
  | EAbsent, EAbsent | ENone, ENone => true
  | EGiven x, EGiven y => keys_eqb x y
  | EMalTuple x, EMalTuple y | ERaise x, ERaise y => Z.eqb x y
  | _, _ => false
  end.

Definition ndata_eqb (a b : ndata) : bool :=
  match a, b with
  | DNone, DNone => true
  | DKeys x, DKeys y => keys_eqb x y
  | DDefault f x, DDefault g y => Z.eqb f g && keys_eqb x y
  | DClass x, DClass y => Z.eqb x y
  | DMaxlen x, DMaxlen y => opt_Z_eqb x y
  | DMeta m e, DMeta m' e' => Z.eqb m m' && ebeh_eqb e e'
  | _, _ => false
  end.

Definition reg_eqb (a b : reg) : bool :=
  Z.eqb (rcls a) (rcls b) && Z.eqb (rns a) (rns b) && Z.eqb (rid a) (rid b) && Z.eqb (rpet a) (rpet b).

Definition opt_reg_eqb (a b : option reg) : bool :=
  match a, b with
  | None, None => true
  | Some x, Some y => reg_eqb x y
  | _, _ => false
  end.

Definition hdr_eqb (a b : hdr) : bool :=
  match a, b with
  | HNone, HNone | HTuple, HTuple | HList, HList => true
  | HDict x, HDict y | HODict x, HODict y => keys_eqb x y
  | HDDict f x, HDDict g y => Z.eqb f g && keys_eqb x y
  | HDeque x, HDeque y => opt_Z_eqb x y
  | HNamed x, HNamed y | HStruct x, HStruct y => Z.eqb x y
  | HCustom c m e, HCustom c' m' e' => Z.eqb c c' && Z.eqb m m' && ebeh_eqb e e'
  | _, _ => false
  end.

Fixpoint obj_eqb (a b : obj) : bool :=
  match a, b with
  | Leaf x, Leaf y => Z.eqb x y
  | Node h cs, Node h' cs' =>
    hdr_eqb h h' &&
    (fix go (l l' : list obj) : bool :=
       match l, l' with
       | [], [] => true
       | x :: t, y :: t' => obj_eqb x y && go t t'
       | _, _ => false
       end) cs cs'
  | _, _ => false
  end.
