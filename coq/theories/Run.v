(* Run.v — command dispatcher: one S-expression in, one S-expression out.
   This is what the OCaml driver calls; each command evaluates model functions on a case that the
   Python harness also runs on the rebuilt implementation. *)
From OptreeModel Require Export Wire Flatten Unflatten Spec Ops.

Definition bad : sexp := SL [SI 2].   (* undecodable input: a harness error, never a verdict *)

(* cmd 1: everything the three traversals and unflatten say about one tree *)
Definition cmd_traverse (c : cfg) (o : obj) : sexp :=
  let f := flatten c o in
  SL [ enc_res (fun '(ls, sp) => SL [enc_objs ls; enc_spec sp]) f;
       enc_res (fun '(ps, ls, sp) => SL [SL (map enc_path ps); enc_objs ls; enc_spec sp])
               (flatten_with_path c o);
       enc_res enc_objs (tree_iter_list c o);
       match f with
       | Ok (ls, sp) => enc_res enc_obj (unflatten sp ls)
       | Err _ => SL []
       end ].

Definition enc_sspec (s : sspec) : sexp := enc_spec (spec_of s).
Definition enc_tentry (t : tentry) : sexp :=
  match t with TE e ec (a, b) k => SL [enc_key e; SI ec; SI a; SI b; SI (kind_code k)] end.

Fixpoint z_range (lo : Z) (n : nat) : list Z :=
  match n with O => [] | S n' => lo :: z_range (lo + 1) n' end.

(* cmd 2: what the treespec of one tree says about itself *)
Definition cmd_inspect (c : cfg) (o : obj) : sexp :=
  match flatten c o with
  | Err e => enc_err e
  | Ok (ls, sp) =>
    match sspec_of sp with
    | None => SL [SI 4]    (* flatten produced an array that does not decode: model bug *)
    | Some s =>
      let t := stree_of s in
      let n := st_node t in
      let idx := z_range (- Z.of_nat (narity n) - 1) (2 * narity n + 2) in
      SL [ SL [SI 0; SL [enc_nat (nleaves n); enc_nat (nnodes n); enc_nat (narity n);
                         SI (kind_code (nkind n)); enc_bool (is_leaf_node n);
                         enc_bool (st_is_one_level t);
                         let '(a, b) := node_type n in SL [SI a; SI b]]];
           SL (map enc_path (st_paths t));
           SL (map (fun a => SL (map enc_tentry a)) (st_accessors t));
           SL (map enc_sspec (ss_children s));
           SL (map (fun i => enc_res enc_sspec (ss_child s i)) idx);
           enc_keys (node_entries n);
           SL (map (fun i => enc_res enc_key (st_entry t i)) idx);
           enc_sspec (ss_one_level s);
           enc_bool (wf_stree t) ]
    end
  end.

(* cmd 3: relations between the treespecs of two trees, and flatten_up_to of the first on the second *)
Definition cmd_pair (c1 : cfg) (o1 : obj) (c2 : cfg) (o2 : obj) : sexp :=
  match flatten c1 o1, flatten c2 o2 with
  | Ok (_, sp1), Ok (_, sp2) =>
    match sspec_of sp1, sspec_of sp2 with
    | Some s1, Some s2 =>
      SL [ SI 0;
           enc_bool (spec_eqb sp1 sp2); enc_bool (spec_eqb sp2 sp1);
           (* if the model's hash sequences agree the implementation's hashes must agree *)
           enc_bool (if spec_eqb sp1 sp2 then true else false);
           enc_bool (ss_is_prefix s1 s2 false); enc_bool (ss_is_prefix s1 s2 true);
           enc_bool (ss_is_prefix s2 s1 false); enc_bool (ss_is_prefix s2 s1 true);
           enc_res enc_objs (ss_flatten_up_to (c_reg c1) s1 o2);
           enc_res enc_sspec (ss_broadcast s1 s2);
           enc_res enc_sspec (ss_broadcast s2 s1);
           enc_res enc_sspec (ss_compose s1 s2);
           enc_res enc_sspec (ss_transform_leaves s1 (Some s2)) ]
    | _, _ => SL [SI 4]
    end
  | _, _ => SL [SI 5]     (* one of the trees does not flatten: not a case for this command *)
  end.

(* the finite family of mapped functions used by the harness *)
Definition fun_of_code (code : Z) (i : nat) (row : list obj) : res obj :=
  let base (k : Z) : res obj :=
    match row with
    | [] => Err InternalError
    | x :: _ =>
      if Z.eqb k 0 then Ok x
      else if Z.eqb k 1 then Ok (Node HTuple row)
      else Ok (Node HList [x; Leaf 7])
    end in
  if Z.leb 100 code then
    if Nat.eqb i (Z.to_nat (code - 100)) then Err (UserExn 77) else base 0
  else base code.

(* cmd 4: tree_map with a recording function *)
Definition cmd_map (c : cfg) (code : Z) (t : obj) (rests : list obj) : sexp :=
  let '(r, tr) := tree_map_trace c (fun_of_code code) t rests in
  SL [enc_res enc_obj r; SL (map enc_objs tr)].

(* cmd 5: the broadcast family on two trees *)
Definition cmd_broadcast (c : cfg) (t1 t2 : obj) : sexp :=
  SL [ enc_res enc_obj (tree_broadcast_prefix c t1 t2);
       enc_res enc_objs (broadcast_prefix c t1 t2);
       enc_res (fun '(a, b) => SL [enc_obj a; enc_obj b]) (tree_broadcast_common c t1 t2);
       enc_res (fun '(a, b) => SL [enc_objs a; enc_objs b]) (broadcast_common c t1 t2) ].

(* cmd 6: tree_transpose; the outer and inner treespecs are those of two trees *)
Definition cmd_transpose (c : cfg) (oo oi t : obj) : sexp :=
  match flatten c oo, flatten c oi with
  | Ok (_, so), Ok (_, si) =>
    match sspec_of so, sspec_of si with
    | Some o, Some i =>
      let r := tree_transpose c o i t in
      SL [SI 0; enc_res enc_obj r;
          (* transposing back *)
          match r with
          | Ok t' => enc_res enc_obj (tree_transpose c i o t')
          | Err _ => SL []
          end]
    | _, _ => SL [SI 4]
    end
  | _, _ => SL [SI 5]
  end.

Definition run (s : sexp) : sexp :=
  match s with
  | SL [SI 1; c; o] =>
    match dec_cfg c, dec_obj o with
    | Some c', Some o' => cmd_traverse c' o'
    | _, _ => bad
    end
  | SL [SI 2; c; o] =>
    match dec_cfg c, dec_obj o with
    | Some c', Some o' => cmd_inspect c' o'
    | _, _ => bad
    end
  | SL [SI 3; c1; o1; c2; o2] =>
    match dec_cfg c1, dec_obj o1, dec_cfg c2, dec_obj o2 with
    | Some c1', Some o1', Some c2', Some o2' => cmd_pair c1' o1' c2' o2'
    | _, _, _, _ => bad
    end
  | SL [SI 4; c; SI code; t; SL rests] =>
    match dec_cfg c, dec_obj t, omapM dec_obj rests with
    | Some c', Some t', Some rs => cmd_map c' code t' rs
    | _, _, _ => bad
    end
  | SL [SI 5; c; t1; t2] =>
    match dec_cfg c, dec_obj t1, dec_obj t2 with
    | Some c', Some a, Some b => cmd_broadcast c' a b
    | _, _, _ => bad
    end
  | SL [SI 6; c; oo; oi; t] =>
    match dec_cfg c, dec_obj oo, dec_obj oi, dec_obj t with
    | Some c', Some a, Some b, Some t' => cmd_transpose c' a b t'
    | _, _, _, _ => bad
    end
  | _ => bad
  end.
