(* Run.v — command dispatcher: one S-expression in, one S-expression out.
   This is what the OCaml driver calls; each command evaluates model functions on a case that the
   Python harness also runs on the rebuilt implementation. *)
From OptreeModel Require Export Wire Flatten Unflatten.

Definition bad : sexp := SL [SI 2].   (* undecodable input: a harness error, never a verdict *)

(* cmd 1: everything the three traversals and unflatten say about one tree *)
Definition cmd_traverse (c : cfg) (o : obj) : sexp :=
  let f := flatten c o in
  SL [ enc_res (fun '(ls, sp) => SL [enc_objs ls; enc_spec sp]) f;
       enc_res (fun '(ps, ls, sp) => SL [SL (map enc_path ps); enc_objs ls; enc_spec sp])
               (flatten_with_path c o);
       enc_res enc_objs (tree_iter_list c o);
       match f with
       | Ok (ls, sp) => enc_res enc_obj (unflatten sp ls)
       | Err _ => SL []
       end ].

Definition run (s : sexp) : sexp :=
  match s with
  | SL [SI 1; c; o] =>
    match dec_cfg c, dec_obj o with
    | Some c', Some o' => cmd_traverse c' o'
    | _, _ => bad
    end
  | _ => bad
  end.
